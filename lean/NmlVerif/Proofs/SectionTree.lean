import NmlVerif.Proofs.Section
/-!
Helper lemmas for C16, part F: **the tree exists**.

`Proofs/Section.lean` proves everything about a call under `Wf`, which contains a rose tree `t` that unfolds the
adjacency dictionary from the root (`Repr`) without repeating an id.  Here that tree is *constructed* from what the
code sees — a list of segments with parent pointers — under the two conditions "segment ids are distinct" and
"parent pointers are acyclic" (`Acyclic`: some rank decreases from every segment to its parent; in particular every
morphology in which every segment reaches a parentless root: `RootedAt.acyclic`).  `WfCell` is the tree-free form
of the hypotheses, `WfCell.wf` discharges `Wf`.  Core Lean only.
-/
namespace NmlVerif.Section

/-- parent pointers are acyclic: some rank strictly decreases from every segment to its parent -/
def Acyclic (segs : List Seg) : Prop :=
  ∃ rank : Nat → Nat, ∀ s ∈ segs, ∀ p f, s.parent = some (p, f) → rank p < rank s.id

theorem childrenOf_nodup {segs : List Seg} (hnd : (segs.map (·.id)).Nodup) (p : Nat) : (childrenOf segs p).Nodup := by
  unfold childrenOf
  exact ((List.filter_sublist (l := segs) (p := isChildOf p)).map (·.id)).nodup hnd

/-- with distinct ids a segment has one parent -/
theorem parent_unique {segs : List Seg} (hnd : (segs.map (·.id)).Nodup) {p p' c : Nat}
    (h : c ∈ childrenOf segs p) (h' : c ∈ childrenOf segs p') : p = p' := by
  obtain ⟨s, hs, hid, f, hp⟩ := mem_childrenOf.1 h
  obtain ⟨s', hs', hid', f', hp'⟩ := mem_childrenOf.1 h'
  have e1 := getSegment_of_mem_nodup hnd hs
  have e2 := getSegment_of_mem_nodup hnd hs'
  rw [hid] at e1
  rw [hid', e1] at e2
  cases e2
  rw [hp] at hp'
  cases hp'
  rfl

theorem lookup_adjacency_children {segs : List Seg} {p c : Nat} (hc : c ∈ childrenOf segs p) :
    lookup (adjacency segs) p = some (childrenOf segs p) := by
  have hne : childrenOf segs p ≠ [] := by
    intro e; rw [e] at hc; cases hc
  rw [lookup_adjacency]
  simp [enc, hne]

theorem Reach.step_child {segs : List Seg} {root p c : Nat} (h : Reach (adjacency segs) root p)
    (hc : c ∈ childrenOf segs p) : Reach (adjacency segs) root c :=
  .step h (lookup_adjacency_children hc) hc

theorem Reach.cases_child {segs : List Seg} {a b : Nat} (h : Reach (adjacency segs) a b) :
    b = a ∨ ∃ p, Reach (adjacency segs) a p ∧ b ∈ childrenOf segs p := by
  cases h with
  | refl => exact Or.inl rfl
  | step hp hl hc => exact Or.inr ⟨_, hp, by rw [lookup_adjacency_some hl]; exact hc⟩

section Rank
variable {segs : List Seg} {rank : Nat → Nat}
  (hr : ∀ s ∈ segs, ∀ p f, s.parent = some (p, f) → rank p < rank s.id)
include hr

theorem rank_child {p c : Nat} (h : c ∈ childrenOf segs p) : rank p < rank c := by
  obtain ⟨s, hs, rfl, f, hp⟩ := mem_childrenOf.1 h
  exact hr s hs p f hp

theorem rank_reach {a b : Nat} (h : Reach (adjacency segs) a b) : rank a ≤ rank b := by
  induction h with
  | refl => exact Nat.le_refl _
  | step _ hl hc ih =>
    have := rank_child hr (p := _) (c := _) (by rw [lookup_adjacency_some hl]; exact hc)
    omega

/-- two different children of one segment do not reach each other -/
theorem sibling_not_reach (hnd : (segs.map (·.id)).Nodup) {x a b : Nat} (ha : a ∈ childrenOf segs x)
    (hb : b ∈ childrenOf segs x) (hne : a ≠ b) : ¬ Reach (adjacency segs) a b := by
  intro h
  rcases h.cases_child with e | ⟨p, hp, hbp⟩
  · exact hne e.symm
  · have : p = x := parent_unique hnd hbp hb
    subst this
    have h1 := rank_reach hr hp
    have h2 := rank_child hr ha
    omega

end Rank

/-- the ancestors of a segment are linearly ordered -/
theorem reach_linear {segs : List Seg} (hnd : (segs.map (·.id)).Nodup) {a b : Nat} :
    ∀ {y : Nat}, Reach (adjacency segs) a y → Reach (adjacency segs) b y →
      Reach (adjacency segs) a b ∨ Reach (adjacency segs) b a := by
  intro y h1
  induction h1 with
  | refl => intro h2; exact Or.inr h2
  | @step p c cs hp hl hc ih =>
    intro h2
    rcases h2.cases_child with e | ⟨p', hp', hc'⟩
    · subst e
      exact Or.inl (.step hp hl hc)
    · have hcp : c ∈ childrenOf segs p := by rw [lookup_adjacency_some hl]; exact hc
      have : p' = p := parent_unique hnd hc' hcp
      subst this
      exact ih hp'

theorem exists_trees {Q : Tree → Prop} : ∀ cs : List Nat, (∀ c ∈ cs, ∃ t : Tree, t.id = c ∧ Q t) →
    ∃ ts : List Tree, ts.map Tree.id = cs ∧ ∀ t ∈ ts, Q t
  | [], _ => ⟨[], rfl, by simp⟩
  | c :: cs, h => by
    obtain ⟨t, ht, hq⟩ := h c (by simp)
    obtain ⟨ts, hts, hqs⟩ := exists_trees cs (fun c' hc' => h c' (by simp [hc']))
    refine ⟨t :: ts, by simp [ht, hts], ?_⟩
    intro t' ht'
    rcases List.mem_cons.1 ht' with rfl | h'
    · exact hq
    · exact hqs _ h'

/-- what the construction guarantees of a subtree -/
def GoodTree (segs : List Seg) (t : Tree) : Prop :=
  Repr (adjacency segs) t ∧ (preorder t).Nodup ∧ ∀ y ∈ preorder t, Reach (adjacency segs) t.id y

section Build
variable {segs : List Seg} (hnd : (segs.map (·.id)).Nodup) {rank : Nat → Nat}
  (hr : ∀ s ∈ segs, ∀ p f, s.parent = some (p, f) → rank p < rank s.id)
include hnd hr

/-- the subtrees below the children of one segment are pairwise disjoint -/
theorem nodup_preorderL {x : Nat} : ∀ ts : List Tree, (ts.map Tree.id).Nodup →
    (∀ t ∈ ts, t.id ∈ childrenOf segs x) → (∀ t ∈ ts, GoodTree segs t) → (preorderL ts).Nodup
  | [], _, _, _ => by simp [preorderL]
  | t :: ts, hid, hch, hq => by
    simp only [preorderL, List.nodup_append]
    simp only [List.map_cons, List.nodup_cons] at hid
    refine ⟨(hq t (by simp)).2.1,
      nodup_preorderL ts hid.2 (fun t' h' => hch t' (by simp [h'])) (fun t' h' => hq t' (by simp [h'])), ?_⟩
    intro a ha b hb hab
    subst hab
    obtain ⟨t', ht', hb'⟩ := mem_preorderL.1 hb
    have r1 := (hq t (by simp)).2.2 a ha
    have r2 := (hq t' (by simp [ht'])).2.2 a hb'
    have hne : t.id ≠ t'.id := fun e => hid.1 (by rw [e]; exact List.mem_map.2 ⟨t', ht', rfl⟩)
    rcases reach_linear hnd r1 r2 with h | h
    · exact sibling_not_reach hr hnd (hch t (by simp)) (hch t' (by simp [ht'])) hne h
    · exact sibling_not_reach hr hnd (hch t' (by simp [ht'])) (hch t (by simp)) (Ne.symm hne) h

/-- the adjacency dictionary of an acyclic morphology unfolds, from any id, to a tree without repeated ids -/
theorem exists_unfolding {B : Nat} (hB : ∀ s ∈ segs, rank s.id ≤ B) :
    ∀ n x, B - rank x < n → ∃ t : Tree, t.id = x ∧ GoodTree segs t := by
  intro n
  induction n with
  | zero => intro x h; omega
  | succ n ih =>
    intro x hx
    obtain ⟨ts, hts, hq⟩ := exists_trees (Q := GoodTree segs) (childrenOf segs x) (by
      intro c hc
      have h1 := rank_child hr hc
      obtain ⟨s, hs, hid, _⟩ := mem_childrenOf.1 hc
      have h2 := hB s hs
      rw [hid] at h2
      exact ih c (by omega))
    have hkid : ∀ t ∈ ts, t.id ∈ childrenOf segs x := by
      intro t ht
      rw [← hts]
      exact List.mem_map.2 ⟨t, ht, rfl⟩
    refine ⟨.node x ts, rfl, ?_, ?_, ?_⟩
    · simp only [Repr]
      exact ⟨by rw [hts, lookup_adjacency], reprL_of_mem (fun t ht => (hq t ht).1)⟩
    · simp only [preorder, List.nodup_cons]
      refine ⟨?_, nodup_preorderL hnd hr ts (by rw [hts]; exact childrenOf_nodup hnd x) hkid hq⟩
      intro hin
      obtain ⟨t, ht, hxt⟩ := mem_preorderL.1 hin
      have h1 := rank_reach hr ((hq t ht).2.2 x hxt)
      have h2 := rank_child hr (hkid t ht)
      omega
    · intro y hy
      simp only [preorder, List.mem_cons] at hy
      rcases hy with rfl | hy
      · exact .refl
      · obtain ⟨t, ht, hyt⟩ := mem_preorderL.1 hy
        exact Reach.trans (Reach.step_child .refl (hkid t ht)) ((hq t ht).2.2 y hyt)

end Build

theorem exists_rank_bound (rank : Nat → Nat) : ∀ segs : List Seg, ∃ B, ∀ s ∈ segs, rank s.id ≤ B
  | [] => ⟨0, by simp⟩
  | a :: l => by
    obtain ⟨B, hB⟩ := exists_rank_bound rank l
    refine ⟨max (rank a.id) B, ?_⟩
    intro s hs
    rcases List.mem_cons.1 hs with rfl | h
    · exact Nat.le_max_left _ _
    · exact Nat.le_trans (hB s h) (Nat.le_max_right _ _)

/-- **The tree exists.**  For distinct ids and acyclic parent pointers the adjacency dictionary unfolds from any
    `root` to a rose tree that repeats no id. -/
theorem exists_tree {segs : List Seg} (hnd : (segs.map (·.id)).Nodup) (hac : Acyclic segs) (root : Nat) :
    ∃ t : Tree, t.id = root ∧ Repr (adjacency segs) t ∧ (preorder t).Nodup := by
  obtain ⟨rank, hr⟩ := hac
  obtain ⟨B, hB⟩ := exists_rank_bound rank segs
  obtain ⟨t, h1, h2, h3, _⟩ := exists_unfolding hnd hr hB (B - rank root + 1) root (by omega)
  exact ⟨t, h1, h2, h3⟩

/-- everything reachable from a segment is a segment -/
theorem reach_is_segment {segs : List Seg} {root x : Nat} (hroot : ∃ s, getSegment segs root = some s)
    (h : Reach (adjacency segs) root x) : x ∈ segs.map (·.id) := by
  rcases h.cases_child with rfl | ⟨p, _, hc⟩
  · obtain ⟨s, hs⟩ := hroot
    exact List.mem_map.2 ⟨s, (getSegment_some hs).2, (getSegment_some hs).1⟩
  · obtain ⟨s, hs, hid, _⟩ := mem_childrenOf.1 hc
    exact List.mem_map.2 ⟨s, hs, hid⟩

/-- such a tree has at most as many nodes as the cell has segments (so `segs.length + 2` fuel always suffices) -/
theorem tree_size_le {segs : List Seg} {t : Tree} (hr : Repr (adjacency segs) t) (hpre : (preorder t).Nodup)
    (hroot : ∃ s, getSegment segs t.id = some s) : size t ≤ segs.length := by
  rw [size_eq_length_preorder]
  have hsub : preorder t ⊆ segs.map (·.id) := by
    intro y hy
    exact reach_is_segment hroot ((reach_iff_mem_preorder hr y).2 hy)
  have := List.Nodup.length_le_of_subset hpre hsub
  simpa using this

/-! ### tree-free hypotheses of a call -/

/-- `x` is the first segment of an unbranched chain below `root`: the root itself, or a child of a reachable
    branch point -/
def IsHead (segs : List Seg) (root x : Nat) : Prop :=
  x = root ∨ ∃ p, Reach (adjacency segs) root p ∧ x ∈ childrenOf segs p ∧ 2 ≤ (childrenOf segs p).length

theorem isHead_of_rest {segs : List Seg} {t : Tree} (hr : Repr (adjacency segs) t) {ch : Nat × List Nat}
    (hc : ch ∈ rest t) : IsHead segs t.id ch.1 := by
  obtain ⟨_, _, p, cs, hp, hl, h2, hin⟩ := rest_ok t hr ch hc
  have e := lookup_adjacency_some hl
  exact Or.inr ⟨p, (reach_iff_mem_preorder hr p).2 hp, by rw [e]; exact hin, by rw [e]; exact h2⟩

/-- no group is called `seg_group_<n>_seg_<i>` with `n` ≥ the number of groups.  A call only generates names with
    such `n` and re-establishes this, so the groups made by EARLIER sectioning calls never clash with a later
    call. -/
def GenBelow (groups : List Group) : Prop := ∀ g ∈ groups, ∀ n i, g.id = genName n i → n < groups.length

theorem mem_names_range {s : String} : ∀ {chs : List (Nat × List Nat)} {L : Nat}, 1 ≤ L → s ∈ names L chs →
    ∃ n h, L - 1 ≤ n ∧ n < L - 1 + chs.length ∧ s = genName n h
  | [], _, _, hs => by simp [names, mkFresh] at hs
  | x :: a, L, hL, hs => by
    rw [names_cons] at hs
    rcases List.mem_cons.1 hs with rfl | hs
    · exact ⟨L - 1, x.1, Nat.le_refl _, by simp, rfl⟩
    · obtain ⟨n, h, h1, h2, e⟩ := mem_names_range (L := L + 1) (by omega) hs
      exact ⟨n, h, by omega, by simp only [List.length_cons]; omega, e⟩

/-- the ids of the groups a call makes on a cell with `G0` groups: counters in `[G0, G0 + number of new groups - 1)` -/
theorem newGroups_id_range {G0 : Nat} {t : Tree} {n : Group} (hn : n ∈ newGroups G0 t) :
    ∃ m h, G0 ≤ m ∧ m + 1 < G0 + (newGroups G0 t).length + 1 ∧ n.id = genName m h := by
  have hlen : (newGroups G0 t).length = 1 + (rest t).length := by simp [newGroups, mkFresh_length]; omega
  have : n.id ∈ (newGroups G0 t).map (·.id) := List.mem_map.2 ⟨n, hn, rfl⟩
  rw [newGroups_ids] at this
  rcases List.mem_cons.1 this with e | e
  · exact ⟨G0, t.id, Nat.le_refl _, by omega, e⟩
  · obtain ⟨m, h, h1, h2, e'⟩ := mem_names_range (L := G0 + 1) (by omega) e
    exact ⟨m, h, by omega, by omega, e'⟩

/-- **What the C16 theorems assume of a call, as the code sees the cell**: a list of segments with parent
    pointers — no tree.  `k` = frames within which the proximal of every chain head resolves. -/
structure WfCell (cell : St) (cache : Option Adj) (root lim fuel k : Nat) : Prop where
  /-- no stale `adjacency_list` cache (known finding otherwise) -/
  cache_fresh : FreshCache cell cache
  /-- segment ids are distinct -/
  ids_nodup : (cell.segs.map (·.id)).Nodup
  /-- parent pointers are acyclic -/
  acyclic : Acyclic cell.segs
  /-- model artefact: enough fuel -/
  fuel_ok : cell.segs.length + 2 ≤ fuel
  /-- enough Python frames for `get_actual_proximal` (known finding otherwise) -/
  frames : k + 1 ≤ lim
  /-- the root and every child of a reachable branch point has a proximal: explicit, or implied through its
      ancestors within `k` frames (in particular the root is a segment of the cell) -/
  proximal : ∀ x, IsHead cell.segs root x → ∃ p, actualProximal cell.segs k x = .ok p
  /-- no pre-existing group carries a generated name with a counter the call can reach (known finding otherwise) -/
  gen_below : GenBelow cell.groups
  /-- pre-existing groups have non-empty ids (`get_segment_group("")` raises) -/
  ids_nonempty : ∀ g ∈ cell.groups, g.id ≠ ""

/-- the tree of `Wf` exists: `Repr`, `tree`, `fuel_ok`, `no_clash` are discharged here -/
theorem WfCell.wf {cell : St} {cache : Option Adj} {root lim fuel k : Nat} (W : WfCell cell cache root lim fuel k) :
    ∃ t, Wf cell cache root lim fuel k t := by
  obtain ⟨t, hid, hr, hpre⟩ := exists_tree W.ids_nodup W.acyclic root
  obtain ⟨p0, hp0⟩ := W.proximal root (Or.inl rfl)
  have hroot : ∃ s, getSegment cell.segs t.id = some s := by
    rw [hid]; exact actualProximal_ok_getSegment hp0
  have hsz := tree_size_le hr hpre hroot
  refine ⟨t, ⟨W.cache_fresh, W.ids_nodup, hr, hid, hpre, by have := W.fuel_ok; omega, W.frames, ⟨p0, hp0⟩, ?_, ?_,
    W.ids_nonempty⟩⟩
  · intro ch hc
    exact W.proximal ch.1 (by rw [← hid]; exact isHead_of_rest hr hc)
  · intro g hg n hn e
    obtain ⟨m, h, h1, _, e'⟩ := newGroups_id_range hn
    have := W.gen_below g hg m h (by rw [e, e'])
    omega

/-! ### where `Acyclic` comes from: rooted segment trees -/

/-- follow the parent pointers `n` times -/
def climb (segs : List Seg) : Nat → Nat → Option Nat
  | 0, x => some x
  | n + 1, x =>
    match getSegment segs x with
    | none => none
    | some s =>
      match s.parent with
      | none => none
      | some (p, _) => climb segs n p

/-- a rooted segment tree: `root` is a parentless segment and every segment reaches it along parent pointers
    (so every non-root parent exists and there is no cycle) -/
def RootedAt (segs : List Seg) (root : Nat) : Prop :=
  (∃ r, getSegment segs root = some r ∧ r.parent = none) ∧ ∀ s ∈ segs, ∃ n, climb segs n s.id = some root

theorem climb_root_succ {segs : List Seg} {root : Nat} (hroot : ∃ r, getSegment segs root = some r ∧ r.parent = none)
    (n : Nat) : climb segs (n + 1) root = none := by
  obtain ⟨r, hr, hp⟩ := hroot
  simp [climb, hr, hp]

/-- the number of steps to the root is unique -/
theorem climb_unique {segs : List Seg} {root : Nat} (hroot : ∃ r, getSegment segs root = some r ∧ r.parent = none) :
    ∀ (n m x : Nat), climb segs n x = some root → climb segs m x = some root → n = m
  | 0, 0, _, _, _ => rfl
  | 0, m + 1, x, h1, h2 => by
    simp only [climb, Option.some.injEq] at h1
    subst h1
    rw [climb_root_succ hroot] at h2
    cases h2
  | n + 1, 0, x, h1, h2 => by
    simp only [climb, Option.some.injEq] at h2
    subst h2
    rw [climb_root_succ hroot] at h1
    cases h1
  | n + 1, m + 1, x, h1, h2 => by
    simp only [climb] at h1 h2
    cases hs : getSegment segs x with
    | none => simp [hs] at h1
    | some s =>
      simp only [hs] at h1 h2
      cases hp : s.parent with
      | none => simp [hp] at h1
      | some pf =>
        obtain ⟨p, f⟩ := pf
        simp only [hp] at h1 h2
        rw [climb_unique hroot n m p h1 h2]

/-- a rooted segment tree is acyclic -/
theorem RootedAt.acyclic {segs : List Seg} {root : Nat} (hnd : (segs.map (·.id)).Nodup) (h : RootedAt segs root) :
    Acyclic segs := by
  obtain ⟨hroot, hall⟩ := h
  classical
  refine ⟨fun x => if hx : ∃ n, climb segs n x = some root then Classical.choose hx else 0, ?_⟩
  intro s hs p f hp
  have hgs : getSegment segs s.id = some s := getSegment_of_mem_nodup hnd hs
  obtain ⟨n, hn⟩ := hall s hs
  -- `s` is not the root (it has a parent), so it climbs at least one step, through `p`
  obtain ⟨n', rfl⟩ : ∃ n', n = n' + 1 := by
    cases n with
    | zero =>
      simp only [climb, Option.some.injEq] at hn
      obtain ⟨r, hr, hrp⟩ := hroot
      rw [← hn, hgs] at hr
      cases hr
      rw [hp] at hrp
      cases hrp
    | succ n' => exact ⟨n', rfl⟩
  have hpn : climb segs n' p = some root := by
    simpa [climb, hgs, hp] using hn
  have hxs : ∃ n, climb segs n s.id = some root := ⟨n' + 1, hn⟩
  have hxp : ∃ n, climb segs n p = some root := ⟨n', hpn⟩
  simp only [dif_pos hxs, dif_pos hxp]
  have e1 := climb_unique hroot _ _ _ (Classical.choose_spec hxs) hn
  have e2 := climb_unique hroot _ _ _ (Classical.choose_spec hxp) hpn
  omega

/-- in a rooted segment tree every parent pointer names a segment -/
theorem RootedAt.parents_exist {segs : List Seg} {root : Nat} (hnd : (segs.map (·.id)).Nodup) (h : RootedAt segs root) :
    ∀ s ∈ segs, ∀ p f, s.parent = some (p, f) → ∃ ps, ps ∈ segs ∧ ps.id = p := by
  obtain ⟨⟨r, hr, hrp⟩, hall⟩ := h
  intro s hs p f hp
  have hgs : getSegment segs s.id = some s := getSegment_of_mem_nodup hnd hs
  obtain ⟨n, hn⟩ := hall s hs
  cases n with
  | zero =>
    simp only [climb, Option.some.injEq] at hn
    rw [← hn, hgs] at hr
    cases hr
    rw [hp] at hrp
    cases hrp
  | succ n =>
    have hpn : climb segs n p = some root := by simpa [climb, hgs, hp] using hn
    cases n with
    | zero =>
      simp only [climb, Option.some.injEq] at hpn
      subst hpn
      exact ⟨r, (getSegment_some hr).2, (getSegment_some hr).1⟩
    | succ m =>
      simp only [climb] at hpn
      cases hps : getSegment segs p with
      | none => simp [hps] at hpn
      | some ps => exact ⟨ps, (getSegment_some hps).2, (getSegment_some hps).1⟩

/-- a morphology in which every parent exists and every parentless segment carries a proximal point: every
    segment's proximal resolves within some number of frames (so a frame budget for which `WfCell.proximal` and
    `WfCell.frames` hold always exists) -/
theorem exists_frames {segs : List Seg} (hnd : (segs.map (·.id)).Nodup) (hac : Acyclic segs)
    (hpar : ∀ s ∈ segs, ∀ p f, s.parent = some (p, f) → ∃ ps, ps ∈ segs ∧ ps.id = p)
    (hprox : ∀ s ∈ segs, s.parent = none → s.prox ≠ none) :
    ∃ k, ∀ s ∈ segs, ∃ q, actualProximal segs k s.id = .ok q := by
  obtain ⟨rank, hr⟩ := hac
  obtain ⟨B, hB⟩ := exists_rank_bound rank segs
  refine ⟨B + 1, ?_⟩
  have key : ∀ n, ∀ s ∈ segs, rank s.id < n → ∃ q, actualProximal segs n s.id = .ok q := by
    intro n
    induction n with
    | zero => intro s _ h; omega
    | succ n ih =>
      intro s hs hlt
      have hgs : getSegment segs s.id = some s := getSegment_of_mem_nodup hnd hs
      unfold actualProximal
      simp only [hgs]
      cases hpx : s.prox with
      | some q => exact ⟨q, rfl⟩
      | none =>
        cases hp : s.parent with
        | none => exact absurd hpx (hprox s hs hp)
        | some pf =>
          obtain ⟨p, f⟩ := pf
          obtain ⟨ps, hps, hpid⟩ := hpar s hs p f hp
          have hgp : getSegment segs p = some ps := by rw [← hpid]; exact getSegment_of_mem_nodup hnd hps
          have hrk := hr s hs p f hp
          obtain ⟨q, hq⟩ := ih ps hps (by rw [hpid]; omega)
          rw [hpid] at hq
          simp only [hgp]
          by_cases f1 : f = 1
          · exact ⟨ps.dist, by simp [f1]⟩
          · by_cases f0 : f = 0
            · exact ⟨q, by simp [f0, hq]⟩
            · exact ⟨lerp f q ps.dist, by simp [f1, f0, hq]⟩
  intro s hs
  exact key (B + 1) s hs (by have := hB s hs; omega)

end NmlVerif.Section
