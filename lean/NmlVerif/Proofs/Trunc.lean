import NmlVerif.Model.Trunc
/-! Lemmas for the truncation clause of C08: depth bookkeeping of `bal` over the token stream of a tree. -/
namespace NmlVerif.Trunc

theorem bal_append (a b : List Tok) (d : Nat) :
    bal (a ++ b) d = (bal a d).bind (fun d' => bal b d') := by
  induction a generalizing d with
  | nil => simp [bal]
  | cons t r ih =>
    cases t with
    | op tag => simp [bal, ih]
    | cl tag =>
      cases d with
      | zero => simp [bal]
      | succ d => simp [bal, ih]
    | empty tag => simp [bal, ih]
    | text => simp [bal, ih]
    | partial_ => simp [bal]

mutual
/-- a whole element/text leaves the depth unchanged -/
theorem bal_tokens : ∀ (x : Tree) (d : Nat), bal (tokens x) d = some d
  | .node t ks, d => by
    simp only [tokens, bal]
    rw [bal_append, bal_tokensL ks (d + 1)]
    simp [bal]
  | .leaf t, d => by simp [tokens, bal]
  | .text, d => by simp [tokens, bal]
theorem bal_tokensL : ∀ (xs : List Tree) (d : Nat), bal (tokensL xs) d = some d
  | [], d => by simp [tokensL, bal]
  | x :: xs, d => by
    simp only [tokensL]
    rw [bal_append, bal_tokens x d]
    simp [bal_tokensL xs d]
end

mutual
/-- no prefix of a tree's tokens is rejected, none goes below the starting depth; inside an element with
    children every strict non-empty prefix is strictly deeper -/
theorem prefix_tokens : ∀ (x : Tree) (d : Nat) (p q : List Tok), p ++ q = tokens x →
    ∃ d', bal p d = some d' ∧ d ≤ d' ∧ (p ≠ [] → q ≠ [] → d < d')
  | .node t ks, d, p, q, h => by
    simp only [tokens] at h
    cases p with
    | nil => exact ⟨d, by simp [bal], Nat.le_refl _, fun h => absurd rfl h⟩
    | cons a p' =>
      simp only [List.cons_append, List.cons.injEq] at h
      obtain ⟨ha, h⟩ := h
      subst ha
      simp only [bal]
      -- p' ++ q = tokensL ks ++ [cl t]
      rcases List.append_eq_append_iff.mp h with ⟨m, hm, hq⟩ | ⟨m, hp, hq⟩
      · -- tokensL ks = p' ++ m
        obtain ⟨d', hb, hle⟩ := prefix_tokensL ks (d + 1) p' m hm.symm
        exact ⟨d', hb, by omega, fun _ _ => by omega⟩
      · -- p' = tokensL ks ++ m, [cl t] = m ++ q
        subst hp
        rw [bal_append, bal_tokensL ks (d + 1)]
        simp only [Option.bind_some]
        cases m with
        | nil => exact ⟨d + 1, by simp [bal], by omega, fun _ _ => by omega⟩
        | cons b m' =>
          simp only [List.cons_append, List.cons.injEq] at hq
          obtain ⟨hb, hq⟩ := hq
          have hm' : m' = [] := by
            cases m' with
            | nil => rfl
            | cons _ _ => simp at hq
          have hq' : q = [] := by
            subst hm'; simpa using hq.symm
          subst hb; subst hm'
          exact ⟨d, by simp [bal], Nat.le_refl _, fun _ hqn => absurd hq' hqn⟩
  | .leaf t, d, p, q, h => by
    simp only [tokens] at h
    cases p with
    | nil => exact ⟨d, by simp [bal], Nat.le_refl _, fun h => absurd rfl h⟩
    | cons a p' =>
      simp only [List.cons_append, List.cons.injEq] at h
      obtain ⟨ha, h⟩ := h
      have hp : p' = [] := by cases p' with | nil => rfl | cons _ _ => simp at h
      have hq : q = [] := by subst hp; simpa using h
      subst ha; subst hp
      exact ⟨d, by simp [bal], Nat.le_refl _, fun _ hqn => absurd hq hqn⟩
  | .text, d, p, q, h => by
    simp only [tokens] at h
    cases p with
    | nil => exact ⟨d, by simp [bal], Nat.le_refl _, fun h => absurd rfl h⟩
    | cons a p' =>
      simp only [List.cons_append, List.cons.injEq] at h
      obtain ⟨ha, h⟩ := h
      have hp : p' = [] := by cases p' with | nil => rfl | cons _ _ => simp at h
      have hq : q = [] := by subst hp; simpa using h
      subst ha; subst hp
      exact ⟨d, by simp [bal], Nat.le_refl _, fun _ hqn => absurd hq hqn⟩
theorem prefix_tokensL : ∀ (xs : List Tree) (d : Nat) (p q : List Tok), p ++ q = tokensL xs →
    ∃ d', bal p d = some d' ∧ d ≤ d'
  | [], d, p, q, h => by
    simp only [tokensL, List.append_eq_nil_iff] at h
    rw [h.1]; exact ⟨d, by simp [bal], Nat.le_refl _⟩
  | x :: xs, d, p, q, h => by
    simp only [tokensL] at h
    rcases List.append_eq_append_iff.mp h with ⟨m, hm, _⟩ | ⟨m, hp, hq⟩
    · obtain ⟨d', hb, hle, _⟩ := prefix_tokens x d p m hm.symm
      exact ⟨d', hb, hle⟩
    · subst hp
      rw [bal_append, bal_tokens x d]
      simp only [Option.bind_some]
      exact prefix_tokensL xs d m q hq.symm
end

end NmlVerif.Trunc
