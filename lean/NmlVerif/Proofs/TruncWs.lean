import NmlVerif.Model.TruncWs
/-! Lemmas for the truncation clause of C08 (model with white space): the acceptor `scan` over the token stream
    of a tree — whole subtrees, and every prefix of a subtree. -/
namespace NmlVerif.TruncWs

theorem scan_append (a b : List Tok) (s : PS) : scan (a ++ b) s = (scan a s).bind (scan b) := by
  induction a generalizing s with
  | nil => simp [scan]
  | cons t r ih =>
    simp only [List.cons_append, scan]
    cases step s t with
    | none => simp
    | some s' => simp [ih]

theorem scan_trail (n : Nat) (s : PS) : scan (trail n) s = some s := by
  induction n with
  | zero => simp [trail, scan]
  | succ n ih =>
    have : trail (n + 1) = .ws :: trail n := by simp [trail, List.replicate_succ]
    rw [this]
    simp only [scan, step, Option.bind_some]
    exact ih

mutual
/-- inside an element (depth ≥ 1) a whole subtree — element, character data or white space — leaves the parser
    state as it was -/
theorem scan_tokens_inner : ∀ (x : Tree) (d : Nat), scan (tokens x) (d + 1, false) = some (d + 1, false)
  | .node t ks, d => by
    simp only [tokens, scan, step, Bool.false_eq_true, if_false, Option.bind_some]
    rw [scan_append, scan_tokensL_inner ks (d + 1)]
    simp [scan, step]
  | .leaf t, d => by simp [tokens, scan, step]
  | .text, d => by simp [tokens, scan, step]
  | .ws, d => by simp [tokens, scan, step]
theorem scan_tokensL_inner : ∀ (xs : List Tree) (d : Nat), scan (tokensL xs) (d + 1, false) = some (d + 1, false)
  | [], d => by simp [tokensL, scan]
  | x :: xs, d => by
    simp only [tokensL]
    rw [scan_append, scan_tokens_inner x d]
    simp [scan_tokensL_inner xs d]
end

/-- the root element, whole: the parser ends at depth 0 with the root closed -/
theorem scan_tokens_root (x : Tree) (hx : x.isElement = true) : scan (tokens x) (0, false) = some (0, true) := by
  cases x with
  | node t ks =>
    simp only [tokens, scan, step, Bool.false_eq_true, if_false, Option.bind_some]
    rw [scan_append, scan_tokensL_inner ks 0]
    simp [scan, step]
  | leaf t => simp [tokens, scan, step]
  | text => simp [Tree.isElement] at hx
  | ws => simp [Tree.isElement] at hx

mutual
/-- inside an element, every prefix of a subtree's tokens is read without error and leaves the parser at least
    as deep as it was, the root not closed -/
theorem prefix_inner : ∀ (x : Tree) (d : Nat) (p q : List Tok), p ++ q = tokens x →
    ∃ d', scan p (d + 1, false) = some (d' + 1, false) ∧ d ≤ d'
  | .node t ks, d, p, q, h => by
    simp only [tokens] at h
    cases p with
    | nil => exact ⟨d, by simp [scan], Nat.le_refl _⟩
    | cons a p' =>
      simp only [List.cons_append, List.cons.injEq] at h
      obtain ⟨ha, h⟩ := h
      subst ha
      simp only [scan, step, Bool.false_eq_true, if_false, Option.bind_some]
      rcases List.append_eq_append_iff.mp h with ⟨m, hm, _⟩ | ⟨m, hp, hq⟩
      · obtain ⟨d', hb, hle⟩ := prefixL_inner ks (d + 1) p' m hm.symm
        exact ⟨d', hb, by omega⟩
      · subst hp
        rw [scan_append, scan_tokensL_inner ks (d + 1)]
        simp only [Option.bind_some]
        cases m with
        | nil => exact ⟨d + 1, by simp [scan], by omega⟩
        | cons b m' =>
          simp only [List.cons_append, List.cons.injEq] at hq
          obtain ⟨hb, hq⟩ := hq
          have hm' : m' = [] := by
            cases m' with
            | nil => rfl
            | cons _ _ => simp at hq
          subst hb; subst hm'
          exact ⟨d, by simp [scan, step], Nat.le_refl _⟩
  | .leaf t, d, p, q, h => by
    simp only [tokens] at h
    cases p with
    | nil => exact ⟨d, by simp [scan], Nat.le_refl _⟩
    | cons a p' =>
      simp only [List.cons_append, List.cons.injEq] at h
      obtain ⟨ha, h⟩ := h
      have hp : p' = [] := by cases p' with | nil => rfl | cons _ _ => simp at h
      subst ha; subst hp
      exact ⟨d, by simp [scan, step], Nat.le_refl _⟩
  | .text, d, p, q, h => by
    simp only [tokens] at h
    cases p with
    | nil => exact ⟨d, by simp [scan], Nat.le_refl _⟩
    | cons a p' =>
      simp only [List.cons_append, List.cons.injEq] at h
      obtain ⟨ha, h⟩ := h
      have hp : p' = [] := by cases p' with | nil => rfl | cons _ _ => simp at h
      subst ha; subst hp
      exact ⟨d, by simp [scan, step], Nat.le_refl _⟩
  | .ws, d, p, q, h => by
    simp only [tokens] at h
    cases p with
    | nil => exact ⟨d, by simp [scan], Nat.le_refl _⟩
    | cons a p' =>
      simp only [List.cons_append, List.cons.injEq] at h
      obtain ⟨ha, h⟩ := h
      have hp : p' = [] := by cases p' with | nil => rfl | cons _ _ => simp at h
      subst ha; subst hp
      exact ⟨d, by simp [scan, step], Nat.le_refl _⟩
theorem prefixL_inner : ∀ (xs : List Tree) (d : Nat) (p q : List Tok), p ++ q = tokensL xs →
    ∃ d', scan p (d + 1, false) = some (d' + 1, false) ∧ d ≤ d'
  | [], d, p, q, h => by
    simp only [tokensL, List.append_eq_nil_iff] at h
    rw [h.1]; exact ⟨d, by simp [scan], Nat.le_refl _⟩
  | x :: xs, d, p, q, h => by
    simp only [tokensL] at h
    rcases List.append_eq_append_iff.mp h with ⟨m, hm, _⟩ | ⟨m, hp, hq⟩
    · exact prefix_inner x d p m hm.symm
    · subst hp
      rw [scan_append, scan_tokens_inner x d]
      simp only [Option.bind_some]
      exact prefixL_inner xs d m q hq.symm
end

/-- **every strict prefix of the root element's tokens** is read without error and leaves the root open:
    nothing read yet (depth 0, root not closed) or strictly inside the root -/
theorem prefix_root (x : Tree) (hx : x.isElement = true) (p q : List Tok) (h : p ++ q = tokens x) (hq : q ≠ []) :
    ∃ d', scan p (0, false) = some (d', false) ∧ (p ≠ [] → 0 < d') := by
  cases x with
  | node t ks =>
    simp only [tokens] at h
    cases p with
    | nil => exact ⟨0, by simp [scan], fun h => absurd rfl h⟩
    | cons a p' =>
      simp only [List.cons_append, List.cons.injEq] at h
      obtain ⟨ha, h⟩ := h
      subst ha
      simp only [scan, step, Bool.false_eq_true, if_false, Option.bind_some]
      rcases List.append_eq_append_iff.mp h with ⟨m, hm, _⟩ | ⟨m, hp, hq'⟩
      · obtain ⟨d', hb, _⟩ := prefixL_inner ks 0 p' m hm.symm
        exact ⟨d' + 1, hb, fun _ => by omega⟩
      · subst hp
        rw [scan_append, scan_tokensL_inner ks 0]
        simp only [Option.bind_some]
        cases m with
        | nil => exact ⟨1, by simp [scan], fun _ => by omega⟩
        | cons b m' =>
          simp only [List.cons_append, List.cons.injEq] at hq'
          obtain ⟨_, hq'⟩ := hq'
          have hm' : m' = [] := by
            cases m' with
            | nil => rfl
            | cons _ _ => simp at hq'
          subst hm'
          exact absurd (by simpa using hq'.symm) hq
  | leaf t =>
    simp only [tokens] at h
    cases p with
    | nil => exact ⟨0, by simp [scan], fun h => absurd rfl h⟩
    | cons a p' =>
      simp only [List.cons_append, List.cons.injEq] at h
      obtain ⟨_, h⟩ := h
      have hp : p' = [] := by cases p' with | nil => rfl | cons _ _ => simp at h
      subst hp
      exact absurd (by simpa using h) hq
  | text => simp [Tree.isElement] at hx
  | ws => simp [Tree.isElement] at hx

end NmlVerif.TruncWs
