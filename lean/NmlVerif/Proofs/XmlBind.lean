import NmlVerif.Model.XmlBind
import NmlVerif.Proofs.Binding
import NmlVerif.Proofs.XmlRound
/-! Glue between the binding level and the text level: what `exportObj` emits is nameable, guard-safe and renamed back
    exactly.  Core only. -/
namespace NmlVerif.XmlBind
open NmlVerif.Binding NmlVerif.XmlText

/-! ### generic -/

theorem lookup_mem {α : Type} : ∀ (l : List (Nat × α)) (k : Nat) (v : α), lookup k l = some v → (k, v) ∈ l
  | [], _, _, h => by simp [lookup] at h
  | (k', v') :: l, k, v, h => by
    simp only [lookup] at h
    by_cases e : k = k'
    · simp only [e, if_true, Option.some.injEq] at h
      subst h; subst e; simp
    · simp only [e, if_false] at h
      exact List.mem_cons_of_mem _ (lookup_mem l k v h)

theorem mapOpt_mem {α β : Type} (f : α → Option β) : ∀ (l : List α) (l' : List β), Binding.mapOpt f l = some l' →
    ∀ b ∈ l', ∃ a ∈ l, f a = some b
  | [], l', h, b, hb => by simp [Binding.mapOpt] at h; subst h; simp at hb
  | a :: l, l', h, b, hb => by
    simp only [Binding.mapOpt] at h
    cases hfa : f a with
    | none => simp [hfa] at h
    | some y =>
      cases hm : Binding.mapOpt f l with
      | none => simp [hfa, hm] at h
      | some ys =>
        simp [hfa, hm] at h
        subst h
        rcases List.mem_cons.mp hb with rfl | hb'
        · exact ⟨a, by simp, hfa⟩
        · obtain ⟨a', ha', hfa'⟩ := mapOpt_mem f l ys hm b hb'
          exact ⟨a', by simp [ha'], hfa'⟩

theorem mapOpt'_map {α β : Type} (f : β → Option α) (g : α → β) (h : ∀ a, f (g a) = some a) :
    ∀ l : List α, mapOpt' f (l.map g) = some l
  | [] => rfl
  | a :: l => by simp [mapOpt', h a, mapOpt'_map f g h l]

theorem mapOpt'_map_on {α β : Type} (f : β → Option α) (g : α → β) :
    ∀ l : List α, (∀ a ∈ l, f (g a) = some a) → mapOpt' f (l.map g) = some l
  | [], _ => rfl
  | a :: l, h => by
    simp [mapOpt', h a (by simp), mapOpt'_map_on f g l (fun b hb => h b (by simp [hb]))]

theorem nodupStr_of_nodup : ∀ l : List Str, l.Nodup → nodupStr l = true
  | [], _ => rfl
  | a :: l, h => by
    have h' := List.nodup_cons.mp h
    simp [nodupStr, h'.1, nodupStr_of_nodup l h'.2]

theorem nodup_map_on {α β : Type} (f : α → β) : ∀ l : List α, (∀ a ∈ l, ∀ b ∈ l, f a = f b → a = b) → l.Nodup → (l.map f).Nodup
  | [], _, _ => by simp
  | a :: l, hinj, h => by
    have h' := List.nodup_cons.mp h
    simp only [List.map_cons, List.nodup_cons]
    refine ⟨?_, nodup_map_on f l (fun x hx y hy => hinj x (by simp [hx]) y (by simp [hy])) h'.2⟩
    intro hm
    rcases List.mem_map.mp hm with ⟨b, hb, hfb⟩
    have := hinj b (by simp [hb]) a (by simp) hfb
    subst this
    exact h'.1 hb

/-! ### the name table -/

theorem known_facts (T : NameTable) (hT : namesOK T = true) (n : Nat) (hk : known T n = true) :
    isName (nm T n) = true ∧ ix T (nm T n) = some n := by
  unfold known at hk
  cases hl : lookup n T with
  | none => simp [hl] at hk
  | some s =>
    have hmem := lookup_mem T n s hl
    simp only [namesOK, List.all_eq_true, Bool.and_eq_true, beq_iff_eq] at hT
    have := hT (n, s) hmem
    simp only [nm, hl, Option.getD_some]
    exact ⟨this.1.1, this.1.2⟩

theorem nm_inj (T : NameTable) (hT : namesOK T = true) (a b : Nat) (ha : known T a = true) (hb : known T b = true)
    (e : nm T a = nm T b) : a = b := by
  have h1 := (known_facts T hT a ha).2
  have h2 := (known_facts T hT b hb).2
  rw [e, h2] at h1
  exact (Option.some.inj h1).symm

/-! ### what `exportObj` emits -/

def XGood (G : Nat → Prop) (V Tx : String → Prop) : Nat → XNode → Prop
  | 0, _ => False
  | f + 1, .mk tag attrs text ch =>
    G tag ∧ (∀ p ∈ attrs, G p.1 ∧ V p.2) ∧ (attrs.map (·.1)).Nodup ∧ (∀ s, text = some s → Tx s) ∧
    (ch ≠ [] → text = none) ∧ ∀ c ∈ ch, XGood G V Tx f c

/-- the strings an object tree holds satisfy the guards (`V`: attribute values, `Tx`: text) -/
def ObjSafe (V Tx : String → Prop) : Nat → Obj → Prop
  | 0, _ => False
  | f + 1, .mk _ as tx ks =>
    (∀ p ∈ as, ∀ s, p.2 = some s → V s) ∧ (∀ s, tx = some s → Tx s) ∧ ∀ p ∈ ks, ∀ o ∈ p.2, ObjSafe V Tx f o

theorem expAttrs_shape (as : List (Nat × Option String)) : ∀ (l : List FAttr) (l' : List (Option (Nat × String))),
    Binding.mapOpt (fun a => expAttr a (lookup a.member as)) l = some l' →
    (∀ p ∈ l'.filterMap id, ∃ a ∈ l, p.1 = a.xml ∧ lookup a.member as = some (some p.2)) ∧
    ((l'.filterMap id).map (·.1)).Sublist (l.map (·.xml))
  | [], l', h => by simp [Binding.mapOpt] at h; subst h; simp
  | a :: l, l', h => by
    simp only [Binding.mapOpt] at h
    cases hfa : expAttr a (lookup a.member as) with
    | none => simp [hfa] at h
    | some y =>
      cases hm : Binding.mapOpt (fun a => expAttr a (lookup a.member as)) l with
      | none => simp [hfa, hm] at h
      | some ys =>
        simp [hfa, hm] at h
        subst h
        obtain ⟨ih1, ih2⟩ := expAttrs_shape as l ys hm
        cases y with
        | none =>
          simp only [List.filterMap_cons, id]
          exact ⟨fun p hp => by obtain ⟨a', ha', h'⟩ := ih1 p hp; exact ⟨a', by simp [ha'], h'⟩,
                 List.Sublist.cons _ ih2⟩
        | some q =>
          -- the written pair is (a.xml, s) with the member holding `some s`
          have hq : q.1 = a.xml ∧ lookup a.member as = some (some q.2) := by
            unfold expAttr at hfa
            cases hg : a.guard with
            | notNone =>
              cases hv : lookup a.member as with
              | none => simp [hg, hv] at hfa
              | some v => cases v with
                | none => simp [hg, hv] at hfa
                | some s => simp [hg, hv] at hfa; subst hfa; simp
            | ne d =>
              cases hv : lookup a.member as with
              | none => simp [hg, hv] at hfa
              | some v => cases v with
                | none => simp [hg, hv] at hfa
                | some s =>
                  by_cases e : s = d
                  · simp [hg, hv, e] at hfa
                  · simp [hg, hv, e] at hfa; subst hfa; simp
          simp only [List.filterMap_cons, id, List.map_cons]
          refine ⟨?_, ?_⟩
          · intro p hp
            rcases List.mem_cons.mp hp with rfl | hp'
            · exact ⟨a, by simp, hq⟩
            · obtain ⟨a', ha', h'⟩ := ih1 p hp'; exact ⟨a', by simp [ha'], h'⟩
          · rw [hq.1]; exact List.Sublist.cons₂ _ ih2

theorem export_good (G : Nat → Prop) (V Tx : String → Prop) (flat : Nat → Option FlatClass)
    (hW : ∀ c k, flat c = some k → FlatWF k)
    (hN : ∀ c k, flat c = some k → (∀ a ∈ k.attrs, G a.xml) ∧ ∀ kd ∈ k.kids, G kd.tag) :
    ∀ (fuel tag : Nat) (o : Obj) (x : XNode), G tag → ObjSafe V Tx fuel o → exportObj flat fuel tag o = some x →
      XGood G V Tx fuel x := by
  intro fuel
  induction fuel with
  | zero => intro tag o x _ h; cases o; exact absurd h (by simp [ObjSafe])
  | succ fuel ih =>
    intro tag o x hG hs he
    obtain ⟨c, as, tx, ks⟩ := o
    simp only [ObjSafe] at hs
    obtain ⟨hsa, hst, hsk⟩ := hs
    simp only [exportObj] at he
    by_cases hct : c = textCls
    · simp only [hct, if_true, Option.some.injEq] at he
      subst he
      exact ⟨hG, by simp, by simp, hst, by simp, by simp⟩
    · simp only [hct, if_false] at he
      cases hf : flat c with
      | none => simp [hf] at he
      | some k =>
        simp only [hf] at he
        cases hxa : expAttrs k as with
        | none => simp [hxa] at he
        | some xa =>
          cases hch : Binding.mapOpt (fun (p : Nat × Obj) => exportObj flat fuel p.1 p.2) (pairsOf k ks) with
          | none => simp [hxa, hch] at he
          | some ch =>
            simp only [hxa, hch, Option.some.injEq] at he
            subst he
            obtain ⟨hNa, hNk⟩ := hN c k hf
            -- attributes
            unfold expAttrs at hxa
            cases hm : Binding.mapOpt (fun a => expAttr a (lookup a.member as)) k.attrs with
            | none => simp [hm] at hxa
            | some l' =>
              simp only [hm, Option.map_some, Option.some.injEq] at hxa
              subst hxa
              obtain ⟨s1, s2⟩ := expAttrs_shape as k.attrs l' hm
              refine ⟨hG, ?_, List.Nodup.sublist s2 (hW c k hf).xmlNodup, by simp, by simp, ?_⟩
              · intro p hp
                obtain ⟨a, ha, hpx, hlk⟩ := s1 p hp
                exact ⟨hpx ▸ hNa a ha, hsa (a.member, some p.2) (lookup_mem as a.member _ hlk) p.2 rfl⟩
              · intro cx hcx
                obtain ⟨pr, hpr, hex⟩ := mapOpt_mem _ _ _ hch cx hcx
                simp only [pairsOf, List.mem_flatMap, List.mem_map] at hpr
                obtain ⟨ce, hce, o', ho', rfl⟩ := hpr
                have hso : ObjSafe V Tx fuel o' := by
                  unfold kidsOf at ho'
                  cases hl : lookup ce.member ks with
                  | none => simp [hl] at ho'
                  | some lst =>
                    simp only [hl, Option.getD_some] at ho'
                    exact hsk (ce.member, lst) (lookup_mem ks ce.member lst hl) o' ho'
                exact ih ce.tag o' cx (hNk ce hce) hso hex

/-! ### renaming -/

theorem rename_safe (T : NameTable) (hT : namesOK T = true) (V Tx : String → Prop)
    (hV : ∀ s, V s → ∀ x ∈ s.toList, AttrChar x)
    (hTx : ∀ s, Tx s → (∀ x ∈ s.toList, TextChar x) ∧ NoCData s.toList) :
    ∀ (fuel : Nat) (x : XNode), XGood (fun n => known T n = true) V Tx fuel x → TSafe fuel (rename T fuel x) := by
  intro fuel
  induction fuel with
  | zero => intro x h; cases x; exact absurd h (by simp [XGood])
  | succ fuel ih =>
    intro x h
    obtain ⟨tag, attrs, text, ch⟩ := x
    simp only [XGood] at h
    obtain ⟨hg, ha, hnd, ht, hnt, hc⟩ := h
    simp only [rename, TSafe]
    refine ⟨(known_facts T hT tag hg).1, ?_, ?_, ?_, ?_, ?_⟩
    · intro p hp
      rcases List.mem_map.mp hp with ⟨q, hq, rfl⟩
      exact ⟨(known_facts T hT q.1 (ha q hq).1).1, hV q.2 (ha q hq).2⟩
    · apply nodupStr_of_nodup
      rw [List.map_map]
      have : (attrs.map ((fun x => x.fst) ∘ fun (p : Nat × String) => (nm T p.1, p.2.toList))) = (attrs.map (·.1)).map (nm T) := by
        simp [List.map_map, Function.comp_def]
      rw [this]
      apply nodup_map_on (nm T) _ _ hnd
      intro a ha' b hb' e
      rcases List.mem_map.mp ha' with ⟨p, hp, rfl⟩
      rcases List.mem_map.mp hb' with ⟨q, hq, rfl⟩
      exact nm_inj T hT p.1 q.1 (ha p hp).1 (ha q hq).1 e
    · intro s hs
      cases text with
      | none => simp at hs
      | some t => simp at hs; subst hs; exact hTx t (ht t rfl)
    · intro hne
      have : ch ≠ [] := by intro e; apply hne; simp [e]
      simp [hnt this]
    · intro c' hc'
      rcases List.mem_map.mp hc' with ⟨c0, hc0, rfl⟩
      exact ih c0 (hc c0 hc0)

theorem unrename_rename (T : NameTable) (hT : namesOK T = true) (V Tx : String → Prop) :
    ∀ (fuel : Nat) (x : XNode), XGood (fun n => known T n = true) V Tx fuel x →
      unrename T fuel (rename T fuel x) = some x := by
  intro fuel
  induction fuel with
  | zero => intro x h; cases x; exact absurd h (by simp [XGood])
  | succ fuel ih =>
    intro x h
    obtain ⟨tag, attrs, text, ch⟩ := x
    simp only [XGood] at h
    obtain ⟨hg, ha, _, _, _, hc⟩ := h
    have h1 : ix T (nm T tag) = some tag := (known_facts T hT tag hg).2
    have h2 : mapOpt' (fun (p : Str × Str) => (ix T p.1).map fun n => (n, String.ofList p.2))
        (attrs.map fun p => (nm T p.1, p.2.toList)) = some attrs := by
      apply mapOpt'_map_on
      intro p hp
      simp [(known_facts T hT p.1 (ha p hp).1).2]
    have h3 : mapOpt' (unrename T fuel) (ch.map (rename T fuel)) = some ch :=
      mapOpt'_map_on _ _ ch (fun c hc' => ih c (hc c hc'))
    simp only [rename, unrename, h1, h2, h3]
    cases text <;> simp

end NmlVerif.XmlBind
