import NmlVerif.Proofs.XmlText
/-! Tree builder vs layout (C01 / C04 text level): the stack machine `run` rebuilds a tree from the tokens of ANY
    decoration of its gaps with white space and comments.  Core only. -/
namespace NmlVerif.XmlText

/-! ### abstract tokens of a decorated tree -/

def wsTok (w : Str) : List Tok := if w = [] then [] else [.chars w]

def agap (g : Gap) : List Tok := wsTok g.ws ++ g.more.flatMap fun p => .misc :: wsTok p.2

def gapText (g : Gap) : Str := g.ws ++ (g.more.map (·.2)).flatten

def akids (rec : Nat → TNode → List Tok) (gap : Nat → Gap) : Nat → List TNode → List Tok
  | _, [] => []
  | i, c :: cs => rec i c ++ agap (gap (i + 1)) ++ akids rec gap (i + 1) cs

def kidsJunk (gap : Nat → Gap) : Nat → List TNode → Str
  | _, [] => []
  | i, _ :: cs => gapText (gap (i + 1)) ++ kidsJunk gap (i + 1) cs

/-- abstract tokens of a tree under a decoration (what `toks` stands for once every raw value is decoded) -/
def atoks (deco : List Nat → Nat → Nat → Gap) : Nat → List Nat → TNode → List Tok
  | 0, _, _ => []
  | f + 1, path, .mk tag attrs text children =>
    match children, text with
    | [], none => [.selfClose tag attrs]
    | [], some s => [.open tag attrs] ++ wsTok s ++ [.close tag]
    | c :: cs, _ =>
      [.open tag attrs] ++ agap (deco path (cs.length + 1) 0)
        ++ akids (fun i k => atoks deco f (i :: path) k) (deco path (cs.length + 1)) 0 (c :: cs) ++ [.close tag]

/-- well-formed model trees: deep enough fuel; an element with child elements carries no text of its own -/
def TWF : Nat → TNode → Prop
  | 0, _ => False
  | f + 1, .mk _ _ text children => (children ≠ [] → text = none) ∧ ∀ c ∈ children, TWF f c

theorem run_wsTok (f : Frame) (st : List Frame) (d : Option TNode) (w : Str) (rest : List Tok) :
    run (f :: st) d (wsTok w ++ rest) = run ({ f with text := f.text ++ w } :: st) d rest := by
  unfold wsTok
  by_cases h : w = []
  · subst h; simp
  · simp [h, run]

theorem run_gap_more (more : List (Str × Str)) : ∀ (f : Frame) (st : List Frame) (d : Option TNode) (rest : List Tok),
    run (f :: st) d ((more.flatMap fun p => Tok.misc :: wsTok p.2) ++ rest)
      = run ({ f with text := f.text ++ (more.map (·.2)).flatten } :: st) d rest := by
  induction more with
  | nil => intro f st d rest; simp
  | cons p more ih =>
    intro f st d rest
    simp only [List.flatMap_cons, List.cons_append, List.append_assoc, run, List.map_cons, List.flatten_cons]
    rw [run_wsTok, ih]
    simp [List.append_assoc]

theorem run_agap (g : Gap) (f : Frame) (st : List Frame) (d : Option TNode) (rest : List Tok) :
    run (f :: st) d (agap g ++ rest) = run ({ f with text := f.text ++ gapText g } :: st) d rest := by
  unfold agap gapText
  rw [List.append_assoc, run_wsTok, run_gap_more]
  simp [List.append_assoc]

/-- the children of one element, given the statement for every child -/
theorem run_akids (rec : Nat → TNode → List Tok) (gap : Nat → Gap) :
    ∀ (cs : List TNode) (i : Nat),
      (∀ c ∈ cs, ∀ j (f : Frame) (st : List Frame) (d : Option TNode) (rest : List Tok),
        run (f :: st) d (rec j c ++ rest) = run ({ f with kids := f.kids ++ [c] } :: st) d rest) →
      ∀ (f : Frame) (st : List Frame) (d : Option TNode) (rest : List Tok),
        run (f :: st) d (akids rec gap i cs ++ rest)
          = run ({ f with kids := f.kids ++ cs, text := f.text ++ kidsJunk gap i cs } :: st) d rest := by
  intro cs
  induction cs with
  | nil => intro i _ f st d rest; simp [akids, kidsJunk]
  | cons c cs ih =>
    intro i h f st d rest
    simp only [akids, kidsJunk, List.append_assoc]
    rw [h c (by simp) i, run_agap, ih (i + 1) (fun c' hc' => h c' (by simp [hc']))]
    simp [List.append_assoc]

/-- **tree builder vs layout**: whatever white space and comments decorate the gaps between children, the tokens of a
    well-formed tree put exactly that tree under the current parent -/
theorem run_atoks (deco : List Nat → Nat → Nat → Gap) :
    ∀ (fuel : Nat) (path : List Nat) (t : TNode), TWF fuel t →
      ∀ (f : Frame) (st : List Frame) (d : Option TNode) (rest : List Tok),
        run (f :: st) d (atoks deco fuel path t ++ rest) = run ({ f with kids := f.kids ++ [t] } :: st) d rest := by
  intro fuel
  induction fuel with
  | zero => intro path t h; cases t; exact absurd h (by simp [TWF])
  | succ fuel ih =>
    intro path t h f st d rest
    obtain ⟨tag, attrs, text, children⟩ := t
    simp only [TWF] at h
    obtain ⟨htext, hkids⟩ := h
    cases children with
    | nil =>
      cases text with
      | none => simp [atoks, run, addChild]
      | some s =>
        simp only [atoks, List.append_assoc, List.cons_append, List.nil_append, run]
        rw [run_wsTok]
        simp [run, addChild, closeNode]
    | cons c cs =>
      have ht : text = none := htext (by simp)
      subst ht
      simp only [atoks, List.append_assoc, List.cons_append, List.nil_append, run]
      rw [run_agap]
      rw [run_akids _ _ (c :: cs) 0 (fun c' hc' j f' st' d' rest' => ih (j :: path) c' (hkids c' hc') f' st' d' rest')]
      simp [run, addChild, closeNode]

/-- the document element: from the empty stack -/
theorem treeOf_atoks (deco : List Nat → Nat → Nat → Gap) (fuel : Nat) (t : TNode) (h : TWF fuel t)
    (pre post : List Tok) (hpre : ∀ x ∈ pre, x = .misc ∨ ∃ w, x = .chars w ∧ w.all isWs = true)
    (hpost : ∀ x ∈ post, x = .misc ∨ ∃ w, x = .chars w ∧ w.all isWs = true) :
    treeOf (pre ++ atoks deco fuel [] t ++ post) = some t := by
  have skip : ∀ (l : List Tok) (dd : Option TNode) (rest : List Tok),
      (∀ x ∈ l, x = .misc ∨ ∃ w, x = .chars w ∧ w.all isWs = true) → run [] dd (l ++ rest) = run [] dd rest := by
    intro l
    induction l with
    | nil => intro dd rest _; rfl
    | cons x l ihl =>
      intro dd rest hx
      rcases hx x (by simp) with rfl | ⟨w, rfl, hw⟩
      · simp only [List.cons_append, run]; exact ihl dd rest (fun y hy => hx y (by simp [hy]))
      · simp only [List.cons_append, run, hw, if_true]; exact ihl dd rest (fun y hy => hx y (by simp [hy]))
  unfold treeOf
  rw [List.append_assoc, skip pre none _ hpre]
  -- the root element itself: open ... close from the empty stack
  cases fuel with
  | zero => cases t; exact absurd h (by simp [TWF])
  | succ fuel =>
    obtain ⟨tag, attrs, text, children⟩ := t
    have h' := h
    simp only [TWF] at h
    obtain ⟨htext, hkids⟩ := h
    cases children with
    | nil =>
      cases text with
      | none =>
        simp only [atoks, List.cons_append, List.nil_append, run, addChild]
        have := skip post (some (.mk tag attrs none [])) [] hpost
        simp only [List.append_nil] at this
        rw [this]; simp [run]
      | some s =>
        simp only [atoks, List.append_assoc, List.cons_append, List.nil_append, run]
        rw [run_wsTok]
        simp only [run, if_true, addChild, closeNode, List.isEmpty_nil, List.nil_append]
        have := skip post (some (.mk tag attrs (some s) [])) [] hpost
        simp only [List.append_nil] at this
        rw [this]; simp [run]
    | cons c cs =>
      have ht : text = none := htext (by simp)
      subst ht
      simp only [atoks, List.append_assoc, List.cons_append, List.nil_append, run]
      rw [run_agap]
      rw [run_akids _ _ (c :: cs) 0 (fun c' hc' j f' st' d' rest' => run_atoks deco fuel (j :: []) c' (hkids c' hc') f' st' d' rest')]
      simp only [run, if_true, addChild, closeNode, List.nil_append]
      have := skip post (some (.mk tag attrs none (c :: cs))) [] hpost
      simp only [List.append_nil] at this
      simp [this, run]

end NmlVerif.XmlText
