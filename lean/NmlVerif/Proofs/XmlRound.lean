import NmlVerif.Proofs.XmlToken
import NmlVerif.Proofs.XmlParse
/-! Glue for `parse (serialise t) = some t`: the writer's tokens of a guard-safe tree are well-formed concrete tokens
    and stand for the abstract tokens of the same layout.  Core only. -/
namespace NmlVerif.XmlText
open Py

/-! ### what the writer's raw values decode to -/

theorem decAttrRaw_attrBody (v : Str) (hs : ∀ x ∈ v, AttrChar x) : decAttrRaw (attrBody v) = some v := by
  have dA := decGo_flatMap true escA AttrChar decGo_escA v hs []
  have dQ := decGo_flatMap true escQ AttrChar decGo_escQ v hs []
  simp only [List.append_nil, decGo, Option.map_some] at dA dQ
  rcases attrBody_cases v with ⟨_, hb, _, _⟩ | ⟨_, hb, _⟩ | ⟨_, hb, _⟩ <;> rw [hb] <;> assumption

theorem attrQuote_not_in_body (v : Str) : attrQuote v ∉ attrBody v := by
  rcases attrBody_cases v with ⟨hq, hb, _, _⟩ | ⟨hq, hb, hn⟩ | ⟨hq, hb, hn⟩
  · rw [hq, hb]; exact not_mem_flatMap _ _ _ (fun x _ => dq_not_in_escQ x)
  · rw [hq, hb]; exact hn
  · rw [hq, hb]; exact hn

theorem attrQuote_cases (v : Str) : attrQuote v = '"' ∨ attrQuote v = '\'' := by
  rcases attrBody_cases v with ⟨hq, _⟩ | ⟨hq, _⟩ | ⟨hq, _⟩ <;> simp [hq]

theorem decTextRaw_quoteXml (s : Str) (hs : ∀ x ∈ s, TextChar x) (hc : NoCData s) : decTextRaw (quoteXml s) = some s := by
  rw [quoteXml_noCData s hc, quoteXmlAux_eq]
  have hgt : '>' ∉ s.flatMap esc1 := not_mem_flatMap _ _ _ (fun x _ => gt_not_in_esc1 x)
  have d := decGo_flatMap false esc1 TextChar
    (fun x r hx => decGo_esc1 false x r hx.1 (fun h => absurd h (by decide))) s hs []
  simp only [List.append_nil, decGo, Option.map_some] at d
  simp only [decTextRaw, hasCdataClose_false _ hgt]
  exact d

theorem lt_not_in_quoteXml (s : Str) (hc : NoCData s) : '<' ∉ quoteXml s := by
  rw [quoteXml_noCData s hc, quoteXmlAux_eq]
  exact not_mem_flatMap _ _ _ (fun x _ => lt_not_in_esc1 x)

theorem quoteXml_nil_iff (s : Str) (hc : NoCData s) : quoteXml s = [] ↔ s = [] := by
  rw [quoteXml_noCData s hc, quoteXmlAux_eq]
  constructor
  · intro h
    cases s with
    | nil => rfl
    | cons x r =>
      simp only [List.flatMap_cons, List.append_eq_nil_iff] at h
      have : esc1 x ≠ [] := by
        unfold esc1
        by_cases h1 : x = '&' <;> by_cases h2 : x = '<' <;> by_cases h3 : x = '>' <;> simp [h1, h2, h3]
      exact absurd h.1 this
  · intro h; subst h; rfl

def IsIndent (w : Str) : Prop := w ≠ [] ∧ ∀ x ∈ w, x = ' ' ∨ x = '\n'

theorem decTextRaw_indent (w : Str) (h : ∀ x ∈ w, x = ' ' ∨ x = '\n') : decTextRaw w = some w := by
  have hgt : '>' ∉ w := by intro hm; rcases h _ hm with e | e <;> exact absurd e (by decide)
  have d := decGo_flatMap false (fun x => [x]) (fun x => x = ' ' ∨ x = '\n')
    (fun x r hx => by
      have h1 : x ≠ '&' := by rcases hx with e | e <;> rw [e] <;> decide
      have h2 : x ≠ '<' := by rcases hx with e | e <;> rw [e] <;> decide
      have h3 : isXmlChar x = true := by rcases hx with e | e <;> rw [e] <;> decide
      simpa using decGo_plain false x r h1 h2 h3 (fun h => absurd h (by decide))) w h []
  have e : w.flatMap (fun x => [x]) = w := by induction w with
    | nil => rfl
    | cons a l ih => simp
  simp only [List.append_nil, decGo, Option.map_some, e] at d
  simp only [decTextRaw, hasCdataClose_false _ hgt]
  exact d

theorem indent_chars (k : Nat) : ∀ x ∈ ('\n' :: indent k), x = ' ' ∨ x = '\n' := by
  intro x hx
  rcases List.mem_cons.mp hx with h | h
  · exact Or.inr h
  · left
    unfold indent at h
    rcases List.mem_flatten.mp h with ⟨l, hl, hxl⟩
    have := List.eq_of_mem_replicate hl
    subst this
    revert hxl; simp

/-! ### guard-safe trees -/

def AttrSafe (p : Str × Str) : Prop := isName p.1 = true ∧ ∀ x ∈ p.2, AttrChar x

/-- trees the writer can carry: XML names, attribute values over `AttrChar`, distinct attribute names, text over `TextChar`
    without a CDATA section, no text on elements with children, deep enough fuel -/
def TSafe : Nat → TNode → Prop
  | 0, _ => False
  | f + 1, .mk tag attrs text children =>
    isName tag = true ∧ (∀ p ∈ attrs, AttrSafe p) ∧ nodupStr (attrs.map (·.1)) = true ∧
    (∀ s, text = some s → (∀ x ∈ s, TextChar x) ∧ NoCData s) ∧
    (children ≠ [] → text = none) ∧ ∀ c ∈ children, TSafe f c

theorem TWF_of_TSafe : ∀ (fuel : Nat) (t : TNode), TSafe fuel t → TWF fuel t
  | 0, t, h => by cases t; exact absurd h (by simp [TSafe])
  | f + 1, .mk tag attrs text children, h => by
    simp only [TSafe] at h
    simp only [TWF]
    exact ⟨h.2.2.2.2.1, fun c hc => TWF_of_TSafe f c (h.2.2.2.2.2 c hc)⟩

theorem canonAttr_WF (p : Str × Str) (h : AttrSafe p) : AttrWF (canonAttr p) :=
  { wsNe := by simp [canonAttr]
    wsWs := by intro x hx; simp [canonAttr] at hx; subst hx; decide
    name := h.1
    ws1 := by intro x hx; simp [canonAttr] at hx
    ws2 := by intro x hx; simp [canonAttr] at hx
    quote := attrQuote_cases p.2
    rawQ := attrQuote_not_in_body p.2 }

theorem mapOpt_append {α β : Type} (f : α → Option β) : ∀ (a b : List α) (a' b' : List β),
    mapOpt f a = some a' → mapOpt f b = some b' → mapOpt f (a ++ b) = some (a' ++ b')
  | [], b, a', b', ha, hb => by simp [mapOpt] at ha; subst ha; simpa using hb
  | x :: a, b, a', b', ha, hb => by
    simp only [mapOpt] at ha
    cases hx : f x with
    | none => simp [hx] at ha
    | some y =>
      cases hm : mapOpt f a with
      | none => simp [hx, hm] at ha
      | some ys =>
        simp [hx, hm] at ha
        subst ha
        have := mapOpt_append f a b ys b' hm hb
        simp [mapOpt, hx, this]

theorem mapOpt_absAttr_canon : ∀ (attrs : List (Str × Str)), (∀ p ∈ attrs, AttrSafe p) →
    mapOpt absAttr (attrs.map canonAttr) = some attrs
  | [], _ => rfl
  | p :: l, h => by
    have ih := mapOpt_absAttr_canon l (fun q hq => h q (by simp [hq]))
    have hp := h p (by simp)
    have : absAttr (canonAttr p) = some p := by
      simp [absAttr, canonAttr, decAttrRaw_attrBody p.2 hp.2]
    simp [mapOpt, this, ih]

/-! ### the writer's tokens are well-formed and stand for the abstract layout -/

def ToksWFr : List CTok → Str → Prop
  | [], _ => True
  | ct :: cs, R => TokWF ct ∧ FollowOK ct (render cs ++ R) ∧ ToksWFr cs R

theorem render_append (a b : List CTok) : render (a ++ b) = render a ++ render b := by simp [render]

theorem ToksWF_of_r : ∀ cs : List CTok, ToksWFr cs [] → ToksWF cs
  | [], _ => trivial
  | ct :: cs, h => ⟨h.1, by simpa using h.2.1, ToksWF_of_r cs h.2.2⟩

theorem ToksWFr_append : ∀ (a b : List CTok) (R : Str), ToksWFr a (render b ++ R) → ToksWFr b R → ToksWFr (a ++ b) R
  | [], b, R, _, hb => hb
  | ct :: a, b, R, ha, hb => by
    refine ⟨ha.1, ?_, ToksWFr_append a b R ha.2.2 hb⟩
    have := ha.2.1
    simpa [render_append, List.append_assoc] using this

def Lt1 (s : Str) : Prop := ∃ r, s = '<' :: r

theorem followOK_of_lt1 (ct : CTok) (s : Str) (h : Lt1 s) : FollowOK ct s := by
  obtain ⟨r, rfl⟩ := h
  cases ct <;> simp [FollowOK]

def DecoOK (deco : List Nat → Nat → Nat → Gap) : Prop :=
  ∀ path n i, (deco path n i).more = [] ∧ IsIndent (deco path n i).ws

theorem prettyDeco_ok : DecoOK prettyDeco := by
  intro path n i
  refine ⟨rfl, by simp [prettyDeco], ?_⟩
  exact indent_chars _

/-- facts about a token list that the induction carries -/
structure Good (cs : List CTok) (as : List Tok) : Prop where
  abs : mapOpt absTok cs = some as
  wf : ∀ R, Lt1 R ∨ R = [] ∨ True → ToksWFr cs R
  lt : Lt1 (render cs)
  nocr : '\r' ∉ render cs

theorem gap_good (g : Gap) (hm : g.more = []) (hi : IsIndent g.ws) :
    mapOpt absTok (gapToks g) = some (agap g) ∧ (∀ R, Lt1 R → ToksWFr (gapToks g) R) ∧ '\r' ∉ render (gapToks g) := by
  obtain ⟨hne, hch⟩ := hi
  have hlt : '<' ∉ g.ws := by intro hmem; rcases hch _ hmem with e | e <;> exact absurd e (by decide)
  have hcr : '\r' ∉ g.ws := by intro hmem; rcases hch _ hmem with e | e <;> exact absurd e (by decide)
  refine ⟨?_, ?_, ?_⟩
  · simp [gapToks, agap, wsToks, wsTok, hm, hne, mapOpt, absTok, decTextRaw_indent g.ws hch]
  · intro R hR
    simp only [gapToks, wsToks, hm, hne, if_false, List.flatMap_nil, List.append_nil]
    exact ⟨⟨hne, hlt⟩, by obtain ⟨r, rfl⟩ := hR; intro c r' e; simp [render] at e; exact e.1.symm, trivial⟩
  · simp [gapToks, wsToks, hm, hne, render, renderTok, hcr]

theorem kids_good (rec : Nat → TNode → List CTok) (arec : Nat → TNode → List Tok) (gap : Nat → Gap)
    (hg : ∀ i, (gap i).more = [] ∧ IsIndent (gap i).ws) :
    ∀ (cs : List TNode) (i : Nat), (∀ c ∈ cs, ∀ j, Good (rec j c) (arec j c)) →
      mapOpt absTok (kidsToks rec gap i cs) = some (akids arec gap i cs) ∧
      (∀ R, Lt1 R → ToksWFr (kidsToks rec gap i cs) R) ∧
      (cs ≠ [] → Lt1 (render (kidsToks rec gap i cs))) ∧ '\r' ∉ render (kidsToks rec gap i cs) := by
  intro cs
  induction cs with
  | nil => intro i _; simp [kidsToks, akids, mapOpt, ToksWFr, render]
  | cons c cs ih =>
    intro i h
    have hc := h c (by simp) i
    obtain ⟨ia, iw, il, ic⟩ := ih (i + 1) (fun c' hc' => h c' (by simp [hc']))
    obtain ⟨ga, gw, gc⟩ := gap_good (gap (i + 1)) (hg (i + 1)).1 (hg (i + 1)).2
    simp only [kidsToks, akids]
    refine ⟨?_, ?_, ?_, ?_⟩
    · exact mapOpt_append _ _ _ _ _ (mapOpt_append _ _ _ _ _ hc.abs ga) ia
    · intro R hR
      have hrest : Lt1 (render (kidsToks rec gap (i + 1) cs) ++ R) := by
        cases cs with
        | nil => simpa [kidsToks, render] using hR
        | cons c' cs' =>
          obtain ⟨r, hr⟩ := il (by simp)
          exact ⟨r ++ R, by rw [hr]; rfl⟩
      apply ToksWFr_append
      · apply ToksWFr_append
        · exact hc.wf _ (Or.inr (Or.inr trivial))
        · exact gw _ hrest
      · exact iw R hR
    · intro _
      obtain ⟨r, hr⟩ := hc.lt
      exact ⟨r ++ render (gapToks (gap (i + 1))) ++ render (kidsToks rec gap (i + 1) cs), by
        simp [render_append, hr, List.append_assoc]⟩
    · simp only [render_append, List.mem_append, not_or]
      exact ⟨⟨hc.nocr, gc⟩, ic⟩

theorem ncr_app (a b : Str) (ha : '\r' ∉ a) (hb : '\r' ∉ b) : '\r' ∉ a ++ b :=
  fun h => (List.mem_append.mp h).elim ha hb

theorem ncr_cons (c : Char) (a : Str) (hc : c ≠ '\r') (ha : '\r' ∉ a) : '\r' ∉ c :: a := by
  intro h
  rcases List.mem_cons.mp h with h | h
  · exact hc h.symm
  · exact ha h

theorem ncr_nil : '\r' ∉ ([] : Str) := by simp

theorem cr_not_nameChar (x : Char) (h : isNameChar x = true) : x ≠ '\r' := by
  intro e; subst e; revert h; decide

theorem cr_not_in_attrs : ∀ (attrs : List (Str × Str)), (∀ p ∈ attrs, AttrSafe p) →
    '\r' ∉ (attrs.map canonAttr).flatMap renderAttr
  | [], _ => by simp
  | p :: l, h => by
    have ih := cr_not_in_attrs l (fun q hq => h q (by simp [hq]))
    have hp := h p (by simp)
    obtain ⟨_, _, _, _, hnall⟩ := isName_cons p.1 hp.1
    have hname : '\r' ∉ p.1 := fun hm => cr_not_nameChar _ (hnall _ hm) rfl
    have hq : attrQuote p.2 ≠ '\r' := by rcases attrQuote_cases p.2 with e | e <;> rw [e] <;> decide
    have hbody : '\r' ∉ attrBody p.2 := by
      rcases attrBody_cases p.2 with ⟨_, hb, _, _⟩ | ⟨_, hb, _⟩ | ⟨_, hb, _⟩ <;> rw [hb]
      · exact not_mem_flatMap _ _ _ (fun x hx => cr_not_in_escQ x (hp.2 x hx).2.2)
      · exact not_mem_flatMap _ _ _ (fun x hx => cr_not_in_escA x (hp.2 x hx).2.2)
      · exact not_mem_flatMap _ _ _ (fun x hx => cr_not_in_escA x (hp.2 x hx).2.2)
    simp only [List.map_cons, List.flatMap_cons]
    apply ncr_app _ _ _ ih
    show '\r' ∉ [' '] ++ p.1 ++ [] ++ ['='] ++ [] ++ [attrQuote p.2] ++ attrBody p.2 ++ [attrQuote p.2]
    exact ncr_app _ _ (ncr_app _ _ (ncr_app _ _ (ncr_app _ _ (ncr_app _ _ (ncr_app _ _ (ncr_app _ _
      (ncr_cons _ _ (by decide) ncr_nil) hname) ncr_nil) (ncr_cons _ _ (by decide) ncr_nil)) ncr_nil)
      (ncr_cons _ _ hq ncr_nil)) hbody) (ncr_cons _ _ hq ncr_nil)

theorem cr_not_in_name (n : Str) (h : isName n = true) : '\r' ∉ n := by
  obtain ⟨_, _, _, _, hnall⟩ := isName_cons n h
  exact fun hm => cr_not_nameChar _ (hnall _ hm) rfl

/-- **the writer's tokens** of a guard-safe tree, under any indentation-style decoration: they decode to the abstract
    tokens of the same layout, are well-formed concrete tokens in any context, start with `<` and hold no CR -/
theorem toks_good (deco : List Nat → Nat → Nat → Gap) (hd : DecoOK deco) :
    ∀ (fuel : Nat) (path : List Nat) (t : TNode), TSafe fuel t → Good (toks deco fuel path t) (atoks deco fuel path t) := by
  intro fuel
  induction fuel with
  | zero => intro path t h; cases t; exact absurd h (by simp [TSafe])
  | succ fuel ih =>
    intro path t h
    obtain ⟨tag, attrs, text, children⟩ := t
    simp only [TSafe] at h
    obtain ⟨htag, hattrs, hnd, htext, hnotext, hkids⟩ := h
    have hA : mapOpt absAttr (attrs.map canonAttr) = some attrs := mapOpt_absAttr_canon attrs hattrs
    have hAW : ∀ a ∈ attrs.map canonAttr, AttrWF a := by
      intro a ha
      rcases List.mem_map.mp ha with ⟨p, hp, rfl⟩
      exact canonAttr_WF p (hattrs p hp)
    have hcrA := cr_not_in_attrs attrs hattrs
    have hcrT := cr_not_in_name tag htag
    have hopen : absTok (.open tag (attrs.map canonAttr) []) = some (.open tag attrs) := by simp [absTok, hA, hnd]
    have hself : absTok (.selfClose tag (attrs.map canonAttr) []) = some (.selfClose tag attrs) := by simp [absTok, hA, hnd]
    have hopenWF : TokWF (.open tag (attrs.map canonAttr) []) := ⟨htag, hAW, by simp⟩
    have hcloseWF : TokWF (.close tag []) := ⟨htag, by simp⟩
    have hcrOpen : '\r' ∉ renderTok (.open tag (attrs.map canonAttr) []) := by
      show '\r' ∉ '<' :: (tag ++ (attrs.map canonAttr).flatMap renderAttr ++ [] ++ ['>'])
      exact ncr_cons _ _ (by decide) (ncr_app _ _ (ncr_app _ _ (ncr_app _ _ hcrT hcrA) ncr_nil) (ncr_cons _ _ (by decide) ncr_nil))
    have hcrSelf : '\r' ∉ renderTok (.selfClose tag (attrs.map canonAttr) []) := by
      show '\r' ∉ '<' :: (tag ++ (attrs.map canonAttr).flatMap renderAttr ++ [] ++ ['/', '>'])
      exact ncr_cons _ _ (by decide) (ncr_app _ _ (ncr_app _ _ (ncr_app _ _ hcrT hcrA) ncr_nil)
        (ncr_cons _ _ (by decide) (ncr_cons _ _ (by decide) ncr_nil)))
    have hcrClose : '\r' ∉ renderTok (.close tag []) := by
      show '\r' ∉ '<' :: '/' :: (tag ++ [] ++ ['>'])
      exact ncr_cons _ _ (by decide) (ncr_cons _ _ (by decide) (ncr_app _ _ (ncr_app _ _ hcrT ncr_nil) (ncr_cons _ _ (by decide) ncr_nil)))
    have hcloseA : absTok (.close tag []) = some (.close tag) := rfl
    cases children with
    | nil =>
      cases text with
      | none =>
        refine ⟨by simp only [toks, atoks, mapOpt, hself], ?_, ⟨_, by simp [toks, render, renderTok]; rfl⟩, ?_⟩
        · intro R _
          simp only [toks]
          exact ⟨⟨htag, hAW, by simp⟩, trivial, trivial⟩
        · simpa [toks, render] using hcrSelf
      | some s =>
        obtain ⟨hs, hnc⟩ := htext s rfl
        have hdec := decTextRaw_quoteXml s hs hnc
        have hcrs : '\r' ∉ quoteXml s := by
          rw [quoteXml_noCData s hnc, quoteXmlAux_eq]
          exact not_mem_flatMap _ _ _ (fun x hx => cr_not_in_esc1 x (hs x hx).2)
        by_cases he : s = []
        · subst he
          have hq : quoteXml [] = [] := rfl
          refine ⟨by simp only [toks, atoks, wsToks, wsTok, hq, if_true, List.append_nil, List.cons_append, List.nil_append, mapOpt, hopen, hcloseA], ?_, ⟨_, by simp [toks, render, renderTok]; rfl⟩, ?_⟩
          · intro R _
            simp only [toks, wsToks, hq, if_true, List.append_nil, List.cons_append, List.nil_append]
            exact ⟨hopenWF, trivial, hcloseWF, trivial, trivial⟩
          · simp only [toks, wsToks, hq, if_true, List.append_nil, List.cons_append, List.nil_append, render,
              List.flatMap_cons, List.flatMap_nil, List.mem_append, not_or]
            exact ⟨hcrOpen, hcrClose⟩
        · have hqne : quoteXml s ≠ [] := fun e => he ((quoteXml_nil_iff s hnc).mp e)
          have hchars : absTok (.chars (quoteXml s)) = some (.chars s) := by simp [absTok, hdec]
          refine ⟨by simp only [toks, atoks, wsToks, wsTok, hqne, he, if_false, List.cons_append, List.nil_append, mapOpt, hopen, hcloseA, hchars], ?_,
            ⟨_, by simp [toks, render, renderTok]; rfl⟩, ?_⟩
          · intro R _
            simp only [toks, wsToks, hqne, if_false, List.cons_append, List.nil_append]
            refine ⟨hopenWF, trivial, ⟨hqne, lt_not_in_quoteXml s hnc⟩, ?_, hcloseWF, trivial, trivial⟩
            intro c r e
            simp [render, renderTok] at e
            exact e.1.symm
          · simp only [toks, wsToks, hqne, if_false, List.cons_append, List.nil_append, render,
              List.flatMap_cons, List.flatMap_nil, List.mem_append, not_or]
            exact ⟨hcrOpen, by simpa [renderTok] using hcrs, hcrClose, by simp⟩
    | cons c cs =>
      have hg := fun i => hd path (cs.length + 1) i
      obtain ⟨ka, kw, kl, kc⟩ := kids_good (fun i k => toks deco fuel (i :: path) k) (fun i k => atoks deco fuel (i :: path) k)
        (deco path (cs.length + 1)) hg (c :: cs) 0 (fun c' hc' j => ih (j :: path) c' (hkids c' hc'))
      obtain ⟨ga, gw, gc⟩ := gap_good (deco path (cs.length + 1) 0) (hg 0).1 (hg 0).2
      have hclose : mapOpt absTok [CTok.close tag []] = some [Tok.close tag] := by simp [mapOpt, absTok]
      have hltClose : ∀ R, Lt1 (render [CTok.close tag []] ++ R) := fun R => ⟨_, by simp [render, renderTok]; rfl⟩
      refine ⟨?_, ?_, ⟨_, by simp [toks, render, renderTok]; rfl⟩, ?_⟩
      · simp only [toks, atoks]
        have h1 : mapOpt absTok [CTok.open tag (attrs.map canonAttr) []] = some [Tok.open tag attrs] := by simp [mapOpt, hopen]
        exact mapOpt_append _ _ _ _ _ (mapOpt_append _ _ _ _ _ (mapOpt_append _ _ _ _ _ h1 ga) ka) hclose
      · intro R _
        simp only [toks]
        apply ToksWFr_append
        · apply ToksWFr_append
          · apply ToksWFr_append
            · exact ⟨hopenWF, trivial, trivial⟩
            · apply gw
              obtain ⟨r, hr⟩ := kl (by simp)
              exact ⟨r ++ (render [CTok.close tag []] ++ R), by rw [hr]; rfl⟩
          · exact kw _ (hltClose R)
        · exact ⟨hcloseWF, trivial, trivial⟩
      · simp only [toks, render_append, List.mem_append, not_or]
        refine ⟨⟨⟨?_, gc⟩, kc⟩, ?_⟩
        · simpa [render] using hcrOpen
        · simpa [render] using hcrClose

end NmlVerif.XmlText
