import NmlVerif.Model.XmlText
/-! Lemmas for the text level (C01 / C04): escaping vs decoding, tokenizer vs renderer, tree builder vs layout. Core only. -/
namespace NmlVerif.XmlText
open Py

/-! ### escaping -/

def esc1 (x : Char) : Str :=
  if x = '&' then "&amp;".toList else if x = '<' then "&lt;".toList else if x = '>' then "&gt;".toList else [x]

def escA (x : Char) : Str := if x = '\n' then "&#10;".toList else esc1 x

def escQ (x : Char) : Str := if x = '"' then "&quot;".toList else escA x

theorem replace1_flatMap (c : Char) (r : Str) (f : Char → Str) (s : Str) :
    replace1 c r (s.flatMap f) = s.flatMap fun x => replace1 c r (f x) := by
  simp [replace1, List.flatMap_assoc]

theorem quoteXmlAux_eq (s : Str) : quoteXmlAux s = s.flatMap esc1 := by
  have h0 : replace1 '&' "&amp;".toList s = s.flatMap fun x => if x = '&' then "&amp;".toList else [x] := rfl
  simp only [quoteXmlAux]
  rw [h0, replace1_flatMap, replace1_flatMap]
  congr 1
  funext x
  unfold esc1
  by_cases h1 : x = '&'
  · subst h1; decide
  · by_cases h2 : x = '<'
    · subst h2; decide
    · by_cases h3 : x = '>'
      · subst h3; decide
      · simp [replace1, h1, h2, h3]

theorem escA_eq (s : Str) : replace1 '\n' "&#10;".toList (s.flatMap esc1) = s.flatMap escA := by
  rw [replace1_flatMap]
  congr 1
  funext x
  unfold escA esc1
  by_cases h1 : x = '&'
  · subst h1; decide
  · by_cases h2 : x = '<'
    · subst h2; decide
    · by_cases h3 : x = '>'
      · subst h3; decide
      · by_cases h4 : x = '\n'
        · subst h4; decide
        · simp [replace1, h1, h2, h3, h4]

theorem escQ_eq (s : Str) : replace1 '"' "&quot;".toList (s.flatMap escA) = s.flatMap escQ := by
  rw [replace1_flatMap]
  congr 1
  funext x
  unfold escQ escA esc1
  by_cases h : x = '"'
  · subst h; decide
  · by_cases h1 : x = '&'
    · subst h1; decide
    · by_cases h2 : x = '<'
      · subst h2; decide
      · by_cases h3 : x = '>'
        · subst h3; decide
        · by_cases h4 : x = '\n'
          · subst h4; decide
          · simp [replace1, h, h1, h2, h3, h4]

theorem attrQuote_body_aux (t : Str) :
    (if '"' ∈ t then (if '\'' ∈ t then wrap ['"'] ['"'] (replace1 '"' "&quot;".toList t) else wrap ['\''] ['\''] t)
      else wrap ['"'] ['"'] t)
    = (if '"' ∈ t then (if '\'' ∈ t then '"' else '\'') else '"') ::
      ((if '"' ∈ t then (if '\'' ∈ t then replace1 '"' "&quot;".toList t else t) else t) ++
        [(if '"' ∈ t then (if '\'' ∈ t then '"' else '\'') else '"')]) := by
  by_cases h1 : '"' ∈ t <;> by_cases h2 : '\'' ∈ t <;> simp [h1, h2, wrap]

theorem attrQuote_body (v : Str) : quoteAttrib v = attrQuote v :: (attrBody v ++ [attrQuote v]) :=
  attrQuote_body_aux (replace1 '\n' "&#10;".toList (quoteXmlAux v))

theorem attrBody_cases (v : Str) :
    (attrQuote v = '"' ∧ attrBody v = v.flatMap escQ ∧ '"' ∈ v.flatMap escA ∧ '\'' ∈ v.flatMap escA) ∨
    (attrQuote v = '\'' ∧ attrBody v = v.flatMap escA ∧ '\'' ∉ v.flatMap escA) ∨
    (attrQuote v = '"' ∧ attrBody v = v.flatMap escA ∧ '"' ∉ v.flatMap escA) := by
  unfold attrQuote attrBody
  simp only [quoteXmlAux_eq, escA_eq]
  by_cases h1 : '"' ∈ v.flatMap escA
  · by_cases h2 : '\'' ∈ v.flatMap escA
    · left
      refine ⟨by simp [h1, h2], ?_, h1, h2⟩
      simp only [h1, h2, if_true]
      exact escQ_eq v
    · right; left; simp [h1, h2]
  · right; right; simp [h1]

/-! ### membership facts about the escapes -/

theorem not_mem_flatMap (c : Char) (f : Char → Str) (s : Str) (h : ∀ x ∈ s, c ∉ f x) : c ∉ s.flatMap f := by
  intro hm
  rcases List.mem_flatMap.mp hm with ⟨x, hx, hcx⟩
  exact h x hx hcx

theorem mem_esc1 (c x : Char) (h : c ∈ esc1 x) : c = x ∨ c ∈ "&amp;lt;gt;".toList := by
  unfold esc1 at h
  by_cases h1 : x = '&'
  · subst h1; exact Or.inr ((by decide : ∀ c ∈ "&amp;".toList, c ∈ "&amp;lt;gt;".toList) c h)
  · by_cases h2 : x = '<'
    · subst h2; exact Or.inr ((by decide : ∀ c ∈ "&lt;".toList, c ∈ "&amp;lt;gt;".toList) c h)
    · by_cases h3 : x = '>'
      · subst h3; exact Or.inr ((by decide : ∀ c ∈ "&gt;".toList, c ∈ "&amp;lt;gt;".toList) c h)
      · simp only [h1, h2, h3, if_false, List.mem_singleton] at h; left; exact h

theorem mem_escA (c x : Char) (h : c ∈ escA x) : c = x ∨ c ∈ "&amp;lt;gt;#10quot".toList := by
  unfold escA at h
  by_cases h4 : x = '\n'
  · subst h4; exact Or.inr ((by decide : ∀ c ∈ "&#10;".toList, c ∈ "&amp;lt;gt;#10quot".toList) c h)
  · simp only [h4, if_false] at h
    rcases mem_esc1 c x h with h | h
    · left; exact h
    · exact Or.inr ((by decide : ∀ c ∈ "&amp;lt;gt;".toList, c ∈ "&amp;lt;gt;#10quot".toList) c h)

theorem mem_escQ (c x : Char) (h : c ∈ escQ x) : c = x ∨ c ∈ "&amp;lt;gt;#10quot".toList := by
  unfold escQ at h
  by_cases h0 : x = '"'
  · subst h0; exact Or.inr ((by decide : ∀ c ∈ "&quot;".toList, c ∈ "&amp;lt;gt;#10quot".toList) c h)
  · simp only [h0, if_false] at h
    exact mem_escA c x h

theorem lt_not_in_escQ (x : Char) : '<' ∉ escQ x := by
  intro h
  rcases mem_escQ _ _ h with h1 | h1
  · subst h1; exact absurd h (by decide)
  · exact absurd h1 (by decide)

theorem dq_not_in_escQ (x : Char) : '"' ∉ escQ x := by
  intro h
  rcases mem_escQ _ _ h with h1 | h1
  · subst h1; exact absurd h (by decide)
  · exact absurd h1 (by decide)

theorem lt_not_in_escA (x : Char) : '<' ∉ escA x := by
  intro h
  rcases mem_escA _ _ h with h1 | h1
  · subst h1; exact absurd h (by decide)
  · exact absurd h1 (by decide)

theorem gt_not_in_esc1 (x : Char) : '>' ∉ esc1 x := by
  intro h
  rcases mem_esc1 _ _ h with h1 | h1
  · subst h1; exact absurd h (by decide)
  · exact absurd h1 (by decide)

theorem lt_not_in_esc1 (x : Char) : '<' ∉ esc1 x := by
  intro h
  rcases mem_esc1 _ _ h with h1 | h1
  · subst h1; exact absurd h (by decide)
  · exact absurd h1 (by decide)

theorem cr_not_in_escQ (x : Char) (hx : x ≠ '\r') : '\r' ∉ escQ x := by
  intro h
  rcases mem_escQ _ _ h with h1 | h1
  · exact hx h1.symm
  · exact absurd h1 (by decide)

theorem cr_not_in_escA (x : Char) (hx : x ≠ '\r') : '\r' ∉ escA x := by
  intro h
  rcases mem_escA _ _ h with h1 | h1
  · exact hx h1.symm
  · exact absurd h1 (by decide)

theorem cr_not_in_esc1 (x : Char) (hx : x ≠ '\r') : '\r' ∉ esc1 x := by
  intro h
  rcases mem_esc1 _ _ h with h1 | h1
  · exact hx h1.symm
  · exact absurd h1 (by decide)

/-! ### decoding what was escaped -/

theorem eolGo_id : ∀ s : Str, '\r' ∉ s → eolGo false s = s
  | [], _ => rfl
  | c :: r, h => by
    have hc : c ≠ '\r' := by intro e; apply h; simp [e]
    have hr : '\r' ∉ r := by intro e; apply h; simp [e]
    have ih := eolGo_id r hr
    simp [eolGo, hc, ih]

theorem eolNorm_id (s : Str) (h : '\r' ∉ s) : eolNorm s = s := eolGo_id s h

/-- characters that are written as themselves and read as themselves -/
theorem decGo_plain (attr : Bool) (c : Char) (r : Str) (h1 : c ≠ '&') (h2 : c ≠ '<') (h3 : isXmlChar c = true)
    (h4 : attr = true → isWs c = true → c = ' ') :
    decGo attr none (c :: r) = (decGo attr none r).map (c :: ·) := by
  simp only [decGo, h1, h2, h3, if_false]
  by_cases ha : attr = true
  · by_cases hw : isWs c = true
    · have := h4 ha hw
      subst this
      simp [ha]
    · simp [hw]
  · simp [ha]

theorem decGo_amp (attr : Bool) (r : Str) : decGo attr none ("&amp;".toList ++ r) = (decGo attr none r).map ('&' :: ·) := by
  simp [decGo, resolve]
theorem decGo_lt (attr : Bool) (r : Str) : decGo attr none ("&lt;".toList ++ r) = (decGo attr none r).map ('<' :: ·) := by
  simp [decGo, resolve]
theorem decGo_gt (attr : Bool) (r : Str) : decGo attr none ("&gt;".toList ++ r) = (decGo attr none r).map ('>' :: ·) := by
  simp [decGo, resolve]
theorem decGo_quot (attr : Bool) (r : Str) : decGo attr none ("&quot;".toList ++ r) = (decGo attr none r).map ('"' :: ·) := by
  simp [decGo, resolve]
theorem decGo_nl (attr : Bool) (r : Str) : decGo attr none ("&#10;".toList ++ r) = (decGo attr none r).map ('\n' :: ·) := by
  simp [decGo, resolve, decNum, charOfCode, isXmlChar, Nat.isValidChar]

/-- characters an attribute value can carry through `quote_attrib` and an XML parser: XML `Char`s except TAB and CR
    (a literal TAB / CR in an attribute value is normalised to a space by every conforming parser, §3.3.3 / §2.11,
    and `quote_attrib` writes them literally) -/
def AttrChar (x : Char) : Prop := isXmlChar x = true ∧ x ≠ '\t' ∧ x ≠ '\r'

/-- characters element text can carry through `quote_xml` and an XML parser: XML `Char`s except CR (a literal CR is
    turned into LF by end-of-line handling, §2.11, and `quote_xml` writes it literally) -/
def TextChar (x : Char) : Prop := isXmlChar x = true ∧ x ≠ '\r'

instance (x : Char) : Decidable (AttrChar x) := by unfold AttrChar; infer_instance
instance (x : Char) : Decidable (TextChar x) := by unfold TextChar; infer_instance

theorem decGo_esc1 (attr : Bool) (x : Char) (r : Str) (hx : isXmlChar x = true)
    (hw : attr = true → isWs x = true → x = ' ') :
    decGo attr none (esc1 x ++ r) = (decGo attr none r).map (x :: ·) := by
  unfold esc1
  by_cases h1 : x = '&'
  · subst h1; exact decGo_amp attr r
  · by_cases h2 : x = '<'
    · subst h2; exact decGo_lt attr r
    · by_cases h3 : x = '>'
      · subst h3; exact decGo_gt attr r
      · simp only [h1, h2, h3, if_false, List.cons_append, List.nil_append]
        exact decGo_plain attr x r h1 h2 hx hw

theorem isWs_cases (x : Char) (h : isWs x = true) : x = ' ' ∨ x = '\t' ∨ x = '\n' ∨ x = '\r' := by
  have h' : ((x = ' ' ∨ x = '\t') ∨ x = '\n') ∨ x = '\r' := by simpa [isWs] using h
  rcases h' with ((h | h) | h) | h
  · exact Or.inl h
  · exact Or.inr (Or.inl h)
  · exact Or.inr (Or.inr (Or.inl h))
  · exact Or.inr (Or.inr (Or.inr h))

theorem decGo_escA (x : Char) (r : Str) (hx : AttrChar x) :
    decGo true none (escA x ++ r) = (decGo true none r).map (x :: ·) := by
  unfold escA
  by_cases h4 : x = '\n'
  · subst h4; exact decGo_nl true r
  · simp only [h4, if_false]
    apply decGo_esc1 true x r hx.1
    intro _ hw
    rcases isWs_cases x hw with h | h | h | h
    · exact h
    · exact absurd h hx.2.1
    · exact absurd h h4
    · exact absurd h hx.2.2

theorem decGo_escQ (x : Char) (r : Str) (hx : AttrChar x) :
    decGo true none (escQ x ++ r) = (decGo true none r).map (x :: ·) := by
  unfold escQ
  by_cases h : x = '"'
  · subst h; exact decGo_quot true r
  · simp only [h, if_false]; exact decGo_escA x r hx

theorem decGo_flatMap (attr : Bool) (f : Char → Str) (P : Char → Prop)
    (hf : ∀ x r, P x → decGo attr none (f x ++ r) = (decGo attr none r).map (x :: ·)) :
    ∀ (s : Str), (∀ x ∈ s, P x) → ∀ r, decGo attr none (s.flatMap f ++ r) = (decGo attr none r).map (s ++ ·)
  | [], _, r => by simp
  | x :: s, h, r => by
    have ih := decGo_flatMap attr f P hf s (fun y hy => h y (by simp [hy])) r
    simp only [List.flatMap_cons, List.append_assoc]
    rw [hf x _ (h x (by simp)), ih]
    cases decGo attr none r <;> simp

theorem takeWhile_body (d : Char) : ∀ b : Str, d ∉ b →
    (b ++ [d]).takeWhile (· ≠ d) = b ∧ (b ++ [d]).drop b.length = [d]
  | [], _ => by simp
  | c :: b, h => by
    have hc : c ≠ d := by intro e; apply h; simp [e]
    have hb : d ∉ b := by intro e; apply h; simp [e]
    have ih := takeWhile_body d b hb
    constructor
    · have := ih.1
      simp only [ne_eq, decide_not] at this
      simp [hc, this]
    · simp [ih.2]

theorem readAttr_delim (d : Char) (body : Str) (hd : d = '"' ∨ d = '\'') (hnd : d ∉ body) (hcr : '\r' ∉ body) :
    readAttr (d :: (body ++ [d])) = decAttrRaw body := by
  have hdcr : d ≠ '\r' := by rcases hd with h | h <;> subst h <;> decide
  have : '\r' ∉ d :: (body ++ [d]) := by
    intro h
    simp only [List.mem_cons, List.mem_append, List.not_mem_nil, or_false] at h
    rcases h with h | h | h
    · exact hdcr h.symm
    · exact hcr h
    · exact hdcr h.symm
  have ⟨t1, t2⟩ := takeWhile_body d body hnd
  simp only [readAttr, eolNorm_id _ this, hd, if_true, t1, t2]

/-- **attribute values**: an XML parser reading what `quote_attrib` wrote gets the original string back, whichever
    delimiter `quote_attrib` chose -/
theorem readAttr_quoteAttrib (s : Str) (hs : ∀ x ∈ s, AttrChar x) : readAttr (quoteAttrib s) = some s := by
  rw [attrQuote_body]
  have hcrA : '\r' ∉ s.flatMap escA := not_mem_flatMap _ _ _ (fun x hx => cr_not_in_escA x (hs x hx).2.2)
  have hcrQ : '\r' ∉ s.flatMap escQ := not_mem_flatMap _ _ _ (fun x hx => cr_not_in_escQ x (hs x hx).2.2)
  have dA := decGo_flatMap true escA AttrChar decGo_escA s hs []
  have dQ := decGo_flatMap true escQ AttrChar decGo_escQ s hs []
  simp only [List.append_nil, decGo, Option.map_some] at dA dQ
  rcases attrBody_cases s with ⟨hq, hb, _, _⟩ | ⟨hq, hb, hn⟩ | ⟨hq, hb, hn⟩
  · rw [hq, hb, readAttr_delim '"' _ (Or.inl rfl) (not_mem_flatMap _ _ _ (fun x _ => dq_not_in_escQ x)) hcrQ]
    exact dQ
  · rw [hq, hb, readAttr_delim '\'' _ (Or.inr rfl) hn hcrA]
    exact dA
  · rw [hq, hb, readAttr_delim '"' _ (Or.inl rfl) hn hcrA]
    exact dA

theorem hasCdataClose_false : ∀ t : Str, '>' ∉ t → hasCdataClose t = false
  | [], _ => rfl
  | c :: r, h => by
    have hr : '>' ∉ r := by intro e; apply h; simp [e]
    have ih := hasCdataClose_false r hr
    unfold hasCdataClose
    split
    · exfalso; apply h; simp_all
    · rename_i heq; cases heq; exact ih
    · rename_i heq; cases heq

/-- no CDATA section (as `CDATA_pattern_` finds them) in the string -/
def NoCData (s : Str) : Prop := cdataFinditer s = []

instance (s : Str) : Decidable (NoCData s) := by unfold NoCData; infer_instance

theorem quoteXml_noCData (s : Str) (h : NoCData s) : quoteXml s = quoteXmlAux s := by
  unfold NoCData at h
  unfold quoteXml
  by_cases he : s = []
  · subst he; rfl
  · simp [he, strCoerce, sliceFrom, h]

/-- **element text**: an XML parser reading what `quote_xml` wrote gets the original string back, for strings
    holding no CDATA section -/
theorem readText_quoteXml (s : Str) (hs : ∀ x ∈ s, TextChar x) (hc : NoCData s) : readText (quoteXml s) = some s := by
  rw [quoteXml_noCData s hc, quoteXmlAux_eq]
  have hcr : '\r' ∉ s.flatMap esc1 := not_mem_flatMap _ _ _ (fun x hx => cr_not_in_esc1 x (hs x hx).2)
  have hgt : '>' ∉ s.flatMap esc1 := not_mem_flatMap _ _ _ (fun x _ => gt_not_in_esc1 x)
  have d := decGo_flatMap false esc1 TextChar
    (fun x r hx => decGo_esc1 false x r hx.1 (fun h => absurd h (by decide))) s hs []
  simp only [List.append_nil, decGo, Option.map_some] at d
  simp only [readText, eolNorm_id _ hcr, decTextRaw, hasCdataClose_false _ hgt]
  exact d

end NmlVerif.XmlText
