import NmlVerif.Proofs.XmlText
/-! Tokenizer vs renderer (C01 / C04 text level): on the rendering of any well-formed sequence of concrete tokens the
    tokenizer returns exactly their abstract tokens — whatever white space, delimiters and reference spellings the
    concrete tokens chose.  Core only. -/
namespace NmlVerif.XmlText

/-! ### list lemmas -/

theorem takeWhile_append_stop (p : Char → Bool) : ∀ (l r : Str), (∀ x ∈ l, p x = true) →
    (∀ c r', r = c :: r' → p c = false) → (l ++ r).takeWhile p = l
  | [], r, _, hr => by
    cases r with
    | nil => rfl
    | cons c r' => simp [hr c r' rfl]
  | x :: l, r, hl, hr => by
    have hx : p x = true := hl x (by simp)
    have ih := takeWhile_append_stop p l r (fun y hy => hl y (by simp [hy])) hr
    simp [hx, ih]

theorem dropWhile_append_stop (p : Char → Bool) : ∀ (l r : Str), (∀ x ∈ l, p x = true) →
    (∀ c r', r = c :: r' → p c = false) → (l ++ r).dropWhile p = r
  | [], r, _, hr => by
    cases r with
    | nil => rfl
    | cons c r' => simp [hr c r' rfl]
  | x :: l, r, hl, hr => by
    have hx : p x = true := hl x (by simp)
    have ih := dropWhile_append_stop p l r (fun y hy => hl y (by simp [hy])) hr
    simp [hx, ih]

theorem takeWhile_ne_body (d : Char) : ∀ (b R : Str), d ∉ b →
    (b ++ d :: R).takeWhile (· ≠ d) = b
  | [], R, _ => by simp
  | c :: b, R, h => by
    have hc : c ≠ d := by intro e; apply h; simp [e]
    have hb : d ∉ b := by intro e; apply h; simp [e]
    have ih := takeWhile_ne_body d b R hb
    simp only [ne_eq, decide_not] at ih
    simp [hc, ih]

/-- no occurrence of `p` starts inside `b` when `b` is followed by `p` -/
def NoEarly (p b : Str) : Prop := ∀ t u, b = u ++ t → t ≠ [] → p.isPrefixOf (t ++ p) = false

theorem isPrefixOf_append_left (p : Str) : ∀ (a rest : Str), p.length ≤ a.length →
    p.isPrefixOf (a ++ rest) = p.isPrefixOf a := by
  induction p with
  | nil => intro a rest _; simp
  | cons x p ih =>
    intro a rest h
    cases a with
    | nil => simp at h
    | cons y a =>
      simp only [List.cons_append, List.isPrefixOf]
      rw [ih a rest (by simpa using h)]

theorem isPrefixOf_self_append (p rest : Str) : p.isPrefixOf (p ++ rest) = true := by
  induction p with
  | nil => simp
  | cons x p ih => simp [ih]

theorem splitAt?_body (p : Str) (hp : p ≠ []) : ∀ (b rest : Str), NoEarly p b →
    splitAt? p (b ++ p ++ rest) = some (b, rest)
  | [], rest, _ => by
    cases p with
    | nil => exact absurd rfl hp
    | cons x p' =>
      simp only [List.nil_append, List.cons_append, splitAt?]
      have := isPrefixOf_self_append (x :: p') rest
      simp only [List.cons_append] at this
      simp [this]
  | c :: b, rest, h => by
    have h1 : p.isPrefixOf ((c :: b) ++ p) = false := h (c :: b) [] rfl (by simp)
    have h2 : p.isPrefixOf ((c :: b) ++ p ++ rest) = false := by
      rw [List.append_assoc, ← List.append_assoc (c :: b) p rest, isPrefixOf_append_left p ((c :: b) ++ p) rest (by simp; omega)]
      exact h1
    have ih := splitAt?_body p hp b rest (fun t u e ht => h t (c :: u) (by simp [e]) ht)
    simp only [List.cons_append] at h2 ih ⊢
    simp only [splitAt?, h2]
    simp only [List.append_assoc] at ih
    simp [ih]

/-! ### character classes -/

theorem nameStart_nameChar (c : Char) (h : isNameStart c = true) : isNameChar c = true := by
  simp only [isNameStart, Bool.or_eq_true] at h
  simp only [isNameChar, Bool.or_eq_true]
  rcases h with (h | h) | h
  · exact Or.inl (Or.inl (Or.inl (Or.inl (Or.inl h))))
  · exact Or.inl (Or.inl (Or.inl (Or.inr h)))
  · exact Or.inl (Or.inl (Or.inr h))

theorem ws_not_nameChar (c : Char) (h : isWs c = true) : isNameChar c = false := by
  rcases isWs_cases c h with h | h | h | h <;> subst h <;> decide

theorem nameChar_not_ws (c : Char) (h : isNameChar c = true) : isWs c = false := by
  cases hw : isWs c with
  | false => rfl
  | true => rw [ws_not_nameChar c hw] at h; exact absurd h (by simp)

theorem isName_cons (n : Str) (h : isName n = true) :
    ∃ c n', n = c :: n' ∧ isNameStart c = true ∧ ∀ x ∈ n, isNameChar x = true := by
  cases n with
  | nil => simp [isName] at h
  | cons c n' =>
    simp only [isName, Bool.and_eq_true, List.all_eq_true] at h
    refine ⟨c, n', rfl, h.1, ?_⟩
    intro x hx
    rcases List.mem_cons.mp hx with rfl | hx'
    · exact nameStart_nameChar _ h.1
    · exact h.2 x hx'

/-! ### well-formed concrete tokens -/

structure AttrWF (a : CAttr) : Prop where
  wsNe : a.ws ≠ []
  wsWs : ∀ x ∈ a.ws, isWs x = true
  name : isName a.name = true
  ws1 : ∀ x ∈ a.ws1, isWs x = true
  ws2 : ∀ x ∈ a.ws2, isWs x = true
  quote : a.quote = '"' ∨ a.quote = '\''
  rawQ : a.quote ∉ a.raw

def TokWF : CTok → Prop
  | .open n as w => isName n = true ∧ (∀ a ∈ as, AttrWF a) ∧ ∀ x ∈ w, isWs x = true
  | .selfClose n as w => isName n = true ∧ (∀ a ∈ as, AttrWF a) ∧ ∀ x ∈ w, isWs x = true
  | .close n w => isName n = true ∧ ∀ x ∈ w, isWs x = true
  | .chars raw => raw ≠ [] ∧ '<' ∉ raw
  | .cdata b => NoEarly [']', ']', '>'] b
  | .comment b => NoEarly ['-', '-'] b
  | .pi b => NoEarly ['?', '>'] b

/-- the text that may follow a token: character data must be followed by markup (or by nothing) -/
def FollowOK : CTok → Str → Prop
  | .chars _, rest => ∀ c r, rest = c :: r → c = '<'
  | _, _ => True

/-! ### attributes -/

theorem readAttrs_end (f : Nat) (w rest : Str) (hw : ∀ x ∈ w, isWs x = true) :
    readAttrs (f + 1) (w ++ '>' :: rest) = some ([], false, rest) := by
  have h1 : (w ++ '>' :: rest).dropWhile isWs = '>' :: rest :=
    dropWhile_append_stop isWs w _ hw (by intro c r' e; cases e; decide)
  simp [readAttrs, h1]

theorem readAttrs_endSC (f : Nat) (w rest : Str) (hw : ∀ x ∈ w, isWs x = true) :
    readAttrs (f + 1) (w ++ '/' :: '>' :: rest) = some ([], true, rest) := by
  have h1 : (w ++ '/' :: '>' :: rest).dropWhile isWs = '/' :: '>' :: rest :=
    dropWhile_append_stop isWs w _ hw (by intro c r' e; cases e; decide)
  simp [readAttrs, h1]

theorem readAttrs_step (f : Nat) (a : CAttr) (ha : AttrWF a) (R : Str) :
    readAttrs (f + 1) (renderAttr a ++ R) =
      match decAttrRaw a.raw, readAttrs f R with
      | some v, some (as, sc, rest) => some ((a.name, v) :: as, sc, rest)
      | _, _ => none := by
  obtain ⟨c0, n', hn, hc0, hnall⟩ := isName_cons a.name ha.name
  have hc0c : isNameChar c0 = true := nameStart_nameChar c0 hc0
  have hc0w : isWs c0 = false := nameChar_not_ws c0 hc0c
  obtain ⟨w0, ws', hws⟩ : ∃ w0 ws', a.ws = w0 :: ws' := by
    cases h : a.ws with
    | nil => exact absurd h ha.wsNe
    | cons w0 ws' => exact ⟨w0, ws', rfl⟩
  have hw0 : isWs w0 = true := ha.wsWs w0 (by simp [hws])
  -- the text, nested to the right
  have hs : renderAttr a ++ R
      = a.ws ++ (a.name ++ (a.ws1 ++ ('=' :: (a.ws2 ++ (a.quote :: (a.raw ++ (a.quote :: R))))))) := by
    simp [renderAttr, List.append_assoc]
  have e1 : (renderAttr a ++ R).dropWhile isWs
      = a.name ++ (a.ws1 ++ ('=' :: (a.ws2 ++ (a.quote :: (a.raw ++ (a.quote :: R)))))) := by
    rw [hs]
    exact dropWhile_append_stop isWs a.ws _ ha.wsWs (by intro c r' e; rw [hn] at e; cases e; exact hc0w)
  have hstop1 : ∀ c r', (a.ws1 ++ ('=' :: (a.ws2 ++ (a.quote :: (a.raw ++ (a.quote :: R)))))) = c :: r' → isNameChar c = false := by
    intro c r' e
    cases h : a.ws1 with
    | nil => rw [h] at e; cases e; decide
    | cons x xs => rw [h] at e; cases e; exact ws_not_nameChar _ (ha.ws1 _ (by simp [h]))
  have e2 : (a.name ++ (a.ws1 ++ ('=' :: (a.ws2 ++ (a.quote :: (a.raw ++ (a.quote :: R))))))).takeWhile isNameChar = a.name :=
    takeWhile_append_stop isNameChar a.name _ hnall hstop1
  have e3 : ((a.name ++ (a.ws1 ++ ('=' :: (a.ws2 ++ (a.quote :: (a.raw ++ (a.quote :: R))))))).drop a.name.length).dropWhile isWs
      = '=' :: (a.ws2 ++ (a.quote :: (a.raw ++ (a.quote :: R)))) := by
    rw [List.drop_left]
    exact dropWhile_append_stop isWs a.ws1 _ ha.ws1 (by intro c r' e; cases e; decide)
  have hq : isWs a.quote = false := by rcases ha.quote with h | h <;> rw [h] <;> decide
  have e4 : (a.ws2 ++ (a.quote :: (a.raw ++ (a.quote :: R)))).dropWhile isWs = a.quote :: (a.raw ++ (a.quote :: R)) :=
    dropWhile_append_stop isWs a.ws2 _ ha.ws2 (by intro c r' e; cases e; exact hq)
  have e5 : (a.raw ++ a.quote :: R).takeWhile (· ≠ a.quote) = a.raw := takeWhile_ne_body a.quote a.raw R ha.rawQ
  have e6 : (a.raw ++ a.quote :: R).drop a.raw.length = a.quote :: R := List.drop_left
  have hhead : (renderAttr a ++ R).head? = some w0 := by rw [hs, hws]; rfl
  have hne1 : c0 ≠ '>' := by intro e; subst e; revert hc0; decide
  have hne2 : c0 ≠ '/' := by intro e; subst e; revert hc0; decide
  have hname : isName (c0 :: n') = true := hn ▸ ha.name
  simp only [readAttrs, e1]
  simp only [e2, e3, hhead]
  rw [hn] at *
  simp only [List.cons_append, List.head?_cons, Option.some.injEq, hne1, hne2, if_false, Option.map_some, hw0,
    ne_eq, not_true_eq_false, hname, Bool.true_eq_false, List.tail_cons, e4, ha.quote, if_true, e5, e6]
  cases decAttrRaw a.raw with
  | none => rfl
  | some v =>
    cases readAttrs f R with
    | none => rfl
    | some x => rfl

theorem readAttrs_render : ∀ (as : List CAttr) (fuel : Nat), as.length < fuel → (∀ a ∈ as, AttrWF a) →
    ∀ (w : Str) (sc : Bool) (rest : Str), (∀ x ∈ w, isWs x = true) →
      readAttrs fuel (as.flatMap renderAttr ++ (w ++ (if sc then '/' :: '>' :: rest else '>' :: rest)))
        = (mapOpt absAttr as).map fun l => (l, sc, rest)
  | [], fuel, hf, _, w, sc, rest, hw => by
    cases fuel with
    | zero => simp at hf
    | succ f =>
      cases sc with
      | false => simpa [mapOpt] using readAttrs_end f w rest hw
      | true => simpa [mapOpt] using readAttrs_endSC f w rest hw
  | a :: as, fuel, hf, hall, w, sc, rest, hw => by
    cases fuel with
    | zero => simp at hf
    | succ f =>
      have ih := readAttrs_render as f (by simpa using hf) (fun b hb => hall b (by simp [hb])) w sc rest hw
      simp only [List.flatMap_cons, List.append_assoc]
      rw [readAttrs_step f a (hall a (by simp)), ih]
      simp only [mapOpt, absAttr]
      cases decAttrRaw a.raw <;> cases mapOpt absAttr as <;> simp

/-! ### one token -/

theorem length_le_flatMap_renderAttr : ∀ as : List CAttr, (∀ a ∈ as, AttrWF a) → as.length ≤ (as.flatMap renderAttr).length
  | [], _ => by simp
  | a :: as, h => by
    have ih := length_le_flatMap_renderAttr as (fun b hb => h b (by simp [hb]))
    have : 1 ≤ (renderAttr a).length := by simp [renderAttr]; omega
    simp only [List.flatMap_cons, List.length_append, List.length_cons]
    omega

theorem attrs_head_not_nameChar (as : List CAttr) (hall : ∀ a ∈ as, AttrWF a) (w tail : Str)
    (hw : ∀ x ∈ w, isWs x = true) (ht : ∀ c r', tail = c :: r' → isNameChar c = false) :
    ∀ c r', as.flatMap renderAttr ++ (w ++ tail) = c :: r' → isNameChar c = false := by
  intro c r' e
  cases as with
  | nil =>
    simp only [List.flatMap_nil, List.nil_append] at e
    cases hwl : w with
    | nil => rw [hwl] at e; exact ht c r' e
    | cons x xs => rw [hwl] at e; cases e; exact ws_not_nameChar _ (hw _ (by simp [hwl]))
  | cons a as =>
    have ha := hall a (by simp)
    cases hws : a.ws with
    | nil => exact absurd hws ha.wsNe
    | cons x xs =>
      simp only [List.flatMap_cons, renderAttr, hws, List.cons_append, List.append_assoc] at e
      cases e
      exact ws_not_nameChar _ (ha.wsWs _ (by simp [hws]))

theorem readTag_open (n : Str) (as : List CAttr) (w rest : Str) (sc : Bool) (hn : isName n = true)
    (hall : ∀ a ∈ as, AttrWF a) (hw : ∀ x ∈ w, isWs x = true) :
    readTag (n ++ (as.flatMap renderAttr ++ (w ++ (if sc then '/' :: '>' :: rest else '>' :: rest))))
      = (mapOpt absAttr as).bind fun l =>
          if nodupStr (l.map (·.1)) = false then none
          else some (if sc then Tok.selfClose n l else Tok.open n l, rest) := by
  obtain ⟨c0, n', hnc, hc0, hnall⟩ := isName_cons n hn
  have hne : c0 ≠ '/' := by intro e; subst e; revert hc0; decide
  have htail : ∀ c r', (if sc then '/' :: '>' :: rest else '>' :: rest) = c :: r' → isNameChar c = false := by
    intro c r' e; cases sc <;> (simp at e; rw [← e.1]; decide)
  have e1 : (n ++ (as.flatMap renderAttr ++ (w ++ (if sc then '/' :: '>' :: rest else '>' :: rest)))).takeWhile isNameChar = n :=
    takeWhile_append_stop isNameChar n _ hnall (attrs_head_not_nameChar as hall w _ hw htail)
  have hlen : as.length < (n ++ (as.flatMap renderAttr ++ (w ++ (if sc then '/' :: '>' :: rest else '>' :: rest)))).length + 1 := by
    have := length_le_flatMap_renderAttr as hall
    simp only [List.length_append]; omega
  have hhead : (n ++ (as.flatMap renderAttr ++ (w ++ (if sc then '/' :: '>' :: rest else '>' :: rest)))).head? = some c0 := by
    rw [hnc]; rfl
  unfold readTag
  simp only [hhead, Option.some.injEq, hne, if_false, e1, hn, Bool.true_eq_false, List.drop_left]
  rw [readAttrs_render as _ hlen hall w sc rest hw]
  cases mapOpt absAttr as with
  | none => rfl
  | some l => cases sc <;> simp

theorem readTag_close (n w rest : Str) (hn : isName n = true) (hw : ∀ x ∈ w, isWs x = true) :
    readTag ('/' :: (n ++ (w ++ '>' :: rest))) = some (Tok.close n, rest) := by
  obtain ⟨c0, n', hnc, hc0, hnall⟩ := isName_cons n hn
  have hstop : ∀ c r', (w ++ '>' :: rest) = c :: r' → isNameChar c = false := by
    intro c r' e
    cases hwl : w with
    | nil => rw [hwl] at e; cases e; decide
    | cons x xs => rw [hwl] at e; cases e; exact ws_not_nameChar _ (hw _ (by simp [hwl]))
  have e1 : (n ++ (w ++ '>' :: rest)).takeWhile isNameChar = n := takeWhile_append_stop isNameChar n _ hnall hstop
  have e2 : (w ++ '>' :: rest).dropWhile isWs = '>' :: rest :=
    dropWhile_append_stop isWs w _ hw (by intro c r' e; cases e; decide)
  unfold readTag
  simp [e1, hn, e2]


theorem tokenize_lt (f : Nat) (r : Str) :
    tokenize (f + 1) ('<' :: r) =
    (if "!--".toList.isPrefixOf r then
      match splitAt? "--".toList (r.drop 3) with
      | some (_, '>' :: rest) => (tokenize f rest).map (.misc :: ·)
      | _ => none
    else if "![CDATA[".toList.isPrefixOf r then
      match splitAt? "]]>".toList (r.drop 8) with
      | some (b, rest) => if b.all isXmlChar then (tokenize f rest).map (.chars b :: ·) else none
      | none => none
    else if "?".toList.isPrefixOf r then
      match splitAt? "?>".toList (r.drop 1) with
      | some (_, rest) => (tokenize f rest).map (.misc :: ·)
      | none => none
    else
      match readTag r with
      | some (t, rest) => (tokenize f rest).map (t :: ·)
      | none => none) := by
  rfl

theorem tokenize_chars (f : Nat) (c : Char) (r : Str) (hc : c ≠ '<') :
    tokenize (f + 1) (c :: r) =
      match decTextRaw ((c :: r).takeWhile (· ≠ '<')) with
      | some s => (tokenize f ((c :: r).drop ((c :: r).takeWhile (· ≠ '<')).length)).map (.chars s :: ·)
      | none => none := by
  conv => lhs; unfold tokenize
  split
  · rename_i heq; simp at heq
  · rename_i heq; simp at heq
  · rename_i heq; simp at heq; exact absurd heq.1 hc
  · rename_i h3 h2
    injection h3 with h3
    subst h3
    injection h2 with h2a h2b
    subst h2a; subst h2b
    rfl

theorem tokenize_comment (b rest : Str) (hw : NoEarly ['-', '-'] b) (f : Nat) :
    tokenize (f + 1) ('<' :: ('!' :: '-' :: '-' :: (b ++ '-' :: '-' :: '>' :: rest))) = (tokenize f rest).map (Tok.misc :: ·) := by
  have e := splitAt?_body ['-', '-'] (by decide) b ('>' :: rest) hw
  have e' : splitAt? ['-', '-'] (b ++ '-' :: '-' :: '>' :: rest) = some (b, '>' :: rest) := by simpa using e
  rw [tokenize_lt]
  have h1 : "!--".toList.isPrefixOf ('!' :: '-' :: '-' :: (b ++ '-' :: '-' :: '>' :: rest)) = true := by simp
  have h2 : ('!' :: '-' :: '-' :: (b ++ '-' :: '-' :: '>' :: rest)).drop 3 = b ++ '-' :: '-' :: '>' :: rest := rfl
  have h3 : "--".toList = ['-', '-'] := by simp
  rw [if_pos h1, h2, h3, e']
  rfl

/-- **the tokenizer inverts the renderer on every token**, whatever its presentation choices -/
theorem tokenize_tok (ct : CTok) (hw : TokWF ct) (rest : Str) (hf : FollowOK ct rest) (f : Nat) :
    tokenize (f + 1) (renderTok ct ++ rest) = (absTok ct).bind fun t => (tokenize f rest).map (t :: ·) := by
  cases ct with
  | chars raw =>
    obtain ⟨hne, hlt⟩ := hw
    obtain ⟨c, r', hraw⟩ : ∃ c r', raw = c :: r' := by
      cases raw with
      | nil => exact absurd rfl hne
      | cons c r' => exact ⟨c, r', rfl⟩
    subst hraw
    have hc : c ≠ '<' := by intro e; apply hlt; simp [e]
    have e1 : (c :: (r' ++ rest)).takeWhile (· ≠ '<') = c :: r' := by
      have := takeWhile_append_stop (· ≠ '<') (c :: r') rest
        (by intro x hx; have : x ≠ '<' := by intro e; apply hlt; rw [← e]; exact hx
            simp [this])
        (by intro c' r'' e; have := hf c' r'' e; simp [this])
      simpa using this
    have e2 : (c :: (r' ++ rest)).drop (c :: r').length = rest := by simp
    have hr : renderTok (.chars (c :: r')) ++ rest = c :: (r' ++ rest) := rfl
    rw [hr, tokenize_chars f c (r' ++ rest) hc, e1, e2]
    simp only [absTok]
    cases decTextRaw (c :: r') <;> rfl
  | comment b =>
    simp only [renderTok, List.cons_append, List.append_assoc, List.nil_append]
    rw [tokenize_comment b rest hw f]
    simp [absTok]
  | cdata b =>
    have e := splitAt?_body [']', ']', '>'] (by decide) b rest hw
    have e' : splitAt? [']', ']', '>'] (b ++ ']' :: ']' :: '>' :: rest) = some (b, rest) := by simpa using e
    simp only [renderTok, List.cons_append, List.append_assoc, List.nil_append]
    rw [tokenize_lt]
    by_cases hx : b.all isXmlChar = true
    · have hx2 : ∀ x ∈ b, isXmlChar x = true := by simpa using hx
      simp [e', absTok]
      rw [if_pos hx2, if_pos hx2]
      rfl
    · have hx2 : ¬ ∀ x ∈ b, isXmlChar x = true := by simpa using hx
      simp [e', absTok]
      rw [if_neg hx2, if_neg hx2]
      rfl
  | pi b =>
    have e := splitAt?_body ['?', '>'] (by decide) b rest hw
    have e' : splitAt? ['?', '>'] (b ++ '?' :: '>' :: rest) = some (b, rest) := by simpa using e
    simp only [renderTok, List.cons_append, List.append_assoc, List.nil_append]
    rw [tokenize_lt]
    simp [e', absTok]
  | close n w =>
    obtain ⟨hn, hww⟩ := hw
    have e := readTag_close n w rest hn hww
    simp only [renderTok, List.cons_append, List.append_assoc, List.nil_append]
    rw [tokenize_lt, e]
    simp [absTok]
  | «open» n as w =>
    obtain ⟨hn, hall, hww⟩ := hw
    have e := readTag_open n as w rest false hn hall hww
    obtain ⟨c0, n', hnc, hc0, _⟩ := isName_cons n hn
    have h1 : ¬ '!' = c0 := by intro e; subst e; revert hc0; decide
    have h2 : ¬ '?' = c0 := by intro e; subst e; revert hc0; decide
    simp only [renderTok, List.cons_append, List.append_assoc, List.nil_append]
    have e0 : (if false = true then '/' :: '>' :: rest else '>' :: rest) = '>' :: rest := rfl
    rw [e0] at e
    rw [tokenize_lt, e]
    subst hnc
    simp only [absTok]
    generalize mapOpt absAttr as = m
    cases m with
    | none => simp [h1, h2]
    | some l => by_cases hd : nodupStr (l.map (·.1)) = false <;> simp [h1, h2, hd]
  | selfClose n as w =>
    obtain ⟨hn, hall, hww⟩ := hw
    have e := readTag_open n as w rest true hn hall hww
    obtain ⟨c0, n', hnc, hc0, _⟩ := isName_cons n hn
    have h1 : ¬ '!' = c0 := by intro e; subst e; revert hc0; decide
    have h2 : ¬ '?' = c0 := by intro e; subst e; revert hc0; decide
    simp only [renderTok, List.cons_append, List.append_assoc, List.nil_append]
    have e0 : (if true = true then '/' :: '>' :: rest else '>' :: rest) = '/' :: '>' :: rest := rfl
    rw [e0] at e
    rw [tokenize_lt, e]
    subst hnc
    simp only [absTok]
    generalize mapOpt absAttr as = m
    cases m with
    | none => simp [h1, h2]
    | some l => by_cases hd : nodupStr (l.map (·.1)) = false <;> simp [h1, h2, hd]

/-! ### token sequences -/

def ToksWF : List CTok → Prop
  | [] => True
  | ct :: cs => TokWF ct ∧ FollowOK ct (render cs) ∧ ToksWF cs

theorem render_cons (ct : CTok) (cs : List CTok) : render (ct :: cs) = renderTok ct ++ render cs := by
  simp [render]

/-- **the tokenizer inverts the renderer**: on the rendering of a well-formed sequence of concrete tokens it returns
    their abstract tokens (and fails exactly when some raw value does not decode) -/
theorem tokenize_render : ∀ (cs : List CTok) (fuel : Nat), cs.length < fuel → ToksWF cs →
    tokenize fuel (render cs) = mapOpt absTok cs
  | [], fuel, hf, _ => by
    cases fuel with
    | zero => simp at hf
    | succ f => simp [render, tokenize, mapOpt]
  | ct :: cs, fuel, hf, hw => by
    cases fuel with
    | zero => simp at hf
    | succ f =>
      obtain ⟨h1, h2, h3⟩ := hw
      have ih := tokenize_render cs f (by simpa using hf) h3
      rw [render_cons, tokenize_tok ct h1 _ h2 f, ih]
      simp only [mapOpt]
      cases absTok ct <;> cases mapOpt absTok cs <;> simp

theorem renderTok_length_pos (ct : CTok) (h : TokWF ct) : 1 ≤ (renderTok ct).length := by
  cases ct with
  | chars raw =>
    obtain ⟨hne, _⟩ := h
    cases raw with
    | nil => exact absurd rfl hne
    | cons c r => simp [renderTok]
  | _ => simp [renderTok] <;> omega

theorem length_le_render : ∀ cs : List CTok, ToksWF cs → cs.length ≤ (render cs).length
  | [], _ => by simp
  | ct :: cs, h => by
    have ih := length_le_render cs h.2.2
    have := renderTok_length_pos ct h.1
    rw [render_cons]
    simp only [List.length_cons, List.length_append]
    omega

theorem cr_not_in_eolGo : ∀ (s : Str) (b : Bool), '\r' ∉ eolGo b s
  | [], b => by simp [eolGo]
  | c :: r, b => by
    have ih1 := cr_not_in_eolGo r true
    have ih2 := cr_not_in_eolGo r false
    unfold eolGo
    by_cases h1 : c = '\r'
    · simp only [h1, if_true]
      intro h
      rcases List.mem_cons.mp h with h | h
      · exact absurd h (by decide)
      · exact ih1 h
    · by_cases h2 : c = '\n' ∧ b = true
      · simp only [h1, if_false, h2, and_self, if_true]; exact ih2
      · simp only [h1, if_false, h2, if_false]
        intro h
        rcases List.mem_cons.mp h with h | h
        · exact h1 h.symm
        · exact ih2 h

/-- end-of-line handling is idempotent: the reader sees the same document whatever the line ends were -/
theorem parse_eolNorm (t : Str) : parse (eolNorm t) = parse t := by
  unfold parse
  rw [eolNorm_id (eolNorm t) (cr_not_in_eolGo t false)]

/-- the reader on any rendering of concrete tokens -/
theorem parse_render (cs : List CTok) (h : ToksWF cs) (hcr : '\r' ∉ render cs) :
    parse (render cs) = (mapOpt absTok cs).bind treeOf := by
  unfold parse
  simp only [eolNorm_id _ hcr]
  rw [tokenize_render cs _ (by have := length_le_render cs h; omega) h]

end NmlVerif.XmlText
