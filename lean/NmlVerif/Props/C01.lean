import NmlVerif.Proofs.Binding
import NmlVerif.Gen.Bindings
/-!
# C01 — XML write then read returns the same component tree (tree level)

`NmlVerif.Gen.Bindings.table` is regenerated from `neuroml/nml/nml.py` on every run; `table_wf` is the per-run
obligation (kernel-checked), `c01_roundtrip` lifts it to every object tree of every depth.
-/
namespace NmlVerif.Binding

theorem flatWF_of_WF (T : Table) (h : WF T = true) : ∀ c k, flatten T c = some k → FlatWF k := by
  intro c f hf
  have hall : ∀ k ∈ T, (match flatten T k.name with
      | some f => flatOK f && decide ((chain T T.length k.name).length ≤ T.length)
                  && f.kids.all (fun kd => kd.text || (findClass T kd.cls).isSome)
      | none => false) = true := by
    simp only [WF, Bool.and_eq_true, List.all_eq_true] at h
    exact h.1.2
  -- the class `c` is in the table
  have hne : chain T T.length c ≠ [] := by
    intro e; simp [flatten, e] at hf
  have hfind : ∃ k, findClass T c = some k := by
    cases hT : T.length with
    | zero => simp [hT, chain] at hne
    | succ n =>
      cases hc : findClass T c with
      | none => simp [hT, chain, hc] at hne
      | some k => exact ⟨k, rfl⟩
  obtain ⟨k, hk⟩ := hfind
  have hkT : k ∈ T := List.mem_of_find?_eq_some hk
  have hkn : k.name = c := by
    have := List.find?_some hk
    simpa using this
  have := hall k hkT
  rw [hkn, hf] at this
  simp only [Bool.and_eq_true] at this
  exact flatWF_of_flatOK f this.1.1

/-- **per-run obligation**: the table extracted from today's `nml.py` is well-formed (no unrecognised statement,
    export pure, attribute/child export and build lists pair up, `has__content` covers the children, nothing
    dropped or misnamed, guards re-create constructor defaults, names distinct along every MRO chain) -/
theorem table_wf : WF NmlVerif.Gen.Bindings.table = true := by decide +kernel

/-- **C01, tree level, every component type**: for today's bindings, every conforming object tree of any size and
    depth, serialised under any tag, is rebuilt exactly — same attributes, text and children in the same order. -/
theorem c01_roundtrip (fuel tag : Nat) (o : Obj)
    (ho : Conforms (flatten NmlVerif.Gen.Bindings.table) fuel o) :
    ∃ x, exportObj (flatten NmlVerif.Gen.Bindings.table) fuel tag o = some x ∧ x.tag = tag ∧
      buildObj (flatten NmlVerif.Gen.Bindings.table) fuel o.cls x = some o :=
  roundtrip _ (flatWF_of_WF _ table_wf) fuel tag o ho

/-- the same for ANY well-formed table (what keeps holding after regeneration as long as `WF` does) -/
theorem c01_roundtrip_any_table (T : Table) (hT : WF T = true) (fuel tag : Nat) (o : Obj)
    (ho : Conforms (flatten T) fuel o) :
    ∃ x, exportObj (flatten T) fuel tag o = some x ∧ x.tag = tag ∧ buildObj (flatten T) fuel o.cls x = some o :=
  roundtrip _ (flatWF_of_WF _ hT) fuel tag o ho

end NmlVerif.Binding
