import NmlVerif.Proofs.XmlBind
import NmlVerif.Props.C01
import NmlVerif.Props.C01Parse
import NmlVerif.Props.C04Text
import NmlVerif.Gen.BindingNames
/-!
# C01 / C04 end to end: from the object tree to characters and back

`writeObj` = `exportObj` (binding table regenerated from nml.py) ∘ name table (regenerated) ∘ `serialise` (the layout of
`export(pretty_print=True)`); `readObj` = XML reader ∘ name lookup ∘ `buildObj`.
-/
namespace NmlVerif.XmlBind
open NmlVerif.Binding NmlVerif.XmlText

/-- attribute values / element text the format can carry (see `AttrChar`, `TextChar`, `NoCData`) -/
def AttrStr (s : String) : Prop := ∀ x ∈ s.toList, AttrChar x
def TextStr (s : String) : Prop := (∀ x ∈ s.toList, TextChar x) ∧ NoCData s.toList

theorem chain_mem (B : Table) : ∀ (f c : Nat) (k : ClassIR), k ∈ chain B f c → k ∈ B
  | 0, _, _, h => by simp [chain] at h
  | f + 1, c, k, h => by
    simp only [chain] at h
    cases hf : findClass B c with
    | none => simp [hf] at h
    | some k0 =>
      have hk0 : k0 ∈ B := List.mem_of_find?_eq_some hf
      simp only [hf] at h
      cases hb : k0.base with
      | none => simp [hb] at h; subst h; exact hk0
      | some b =>
        simp only [hb, List.mem_cons] at h
        rcases h with rfl | h
        · exact hk0
        · exact chain_mem B f b k h

theorem flat_names (T : NameTable) (B : Table) (hTB : tableNamesOK T B = true) (c : Nat) (k : FlatClass)
    (hk : flatten B c = some k) :
    (∀ a ∈ k.attrs, known T a.xml = true) ∧ ∀ kd ∈ k.kids, known T kd.tag = true := by
  simp only [tableNamesOK, List.all_eq_true, Bool.and_eq_true, Bool.or_eq_true] at hTB
  unfold flatten at hk
  cases hch : chain B B.length c with
  | nil => simp [hch] at hk
  | cons k0 ks =>
    simp only [hch, Option.some.injEq] at hk
    subst hk
    have hmem : ∀ kc ∈ (k0 :: ks).reverse, kc ∈ B := by
      intro kc h
      exact chain_mem B B.length c kc (by rw [hch]; exact List.mem_reverse.mp h)
    constructor
    · intro a ha
      simp only [List.mem_flatMap] at ha
      obtain ⟨kc, hkc, ha⟩ := ha
      simp only [ownAttrs, List.mem_map, List.mem_filter] at ha
      obtain ⟨e, ⟨he, hfmt⟩, rfl⟩ := ha
      rcases (hTB kc (hmem kc hkc)).1 e he with h | h
      · exact absurd (eq_of_beq h) (by simpa using hfmt)
      · exact h
    · intro kd hkd
      simp only [List.mem_flatMap] at hkd
      obtain ⟨kc, hkc, hkd⟩ := hkd
      simp only [ownKids, List.mem_map, List.mem_filter] at hkd
      obtain ⟨e, ⟨he, hkind⟩, rfl⟩ := hkd
      rcases (hTB kc (hmem kc hkc)).2 e he with h | h
      · exact absurd (eq_of_beq h) (by simpa using hkind)
      · exact h

/-- **read(write(o)) = o, characters included, for any well-formed binding table and any checked name table** -/
theorem read_write (T : NameTable) (B : Table) (hB : WF B = true) (hT : namesOK T = true)
    (hTB : tableNamesOK T B = true) (fuel tag : Nat) (o : Obj) (hc : Conforms (flatten B) fuel o)
    (hs : ObjSafe AttrStr TextStr fuel o) (htag : known T tag = true) :
    ∃ txt, writeObj T (flatten B) fuel tag o = some txt ∧ readObj T (flatten B) fuel o.cls txt = some o := by
  obtain ⟨x, hx, _, hb⟩ := c01_roundtrip_any_table B hB fuel tag o hc
  have hg : XGood (fun n => known T n = true) AttrStr TextStr fuel x :=
    export_good _ _ _ (flatten B) (flatWF_of_WF B hB) (flat_names T B hTB) fuel tag o x htag hs hx
  have hsafe := rename_safe T hT AttrStr TextStr (fun _ h => h) (fun _ h => h) fuel x hg
  refine ⟨serialise fuel (rename T fuel x), by simp [writeObj, hx], ?_⟩
  simp only [readObj, c01_parse_serialise fuel _ hsafe, Option.bind_some, unrename_rename T hT _ _ fuel x hg, hb]

/-- **every indentation of the written document reads as the same object tree** (C04 at the level of characters → objects) -/
theorem read_any_layout (T : NameTable) (B : Table) (hB : WF B = true) (hT : namesOK T = true)
    (hTB : tableNamesOK T B = true) (fuel tag : Nat) (o : Obj) (hc : Conforms (flatten B) fuel o)
    (hs : ObjSafe AttrStr TextStr fuel o) (htag : known T tag = true)
    (deco : List Nat → Nat → Nat → Gap) (hd : DecoOK deco) :
    ∃ x, exportObj (flatten B) fuel tag o = some x ∧
      readObj T (flatten B) fuel o.cls (render (toks deco fuel [] (rename T fuel x)) ++ ['\n']) = some o := by
  obtain ⟨x, hx, _, hb⟩ := c01_roundtrip_any_table B hB fuel tag o hc
  have hg : XGood (fun n => known T n = true) AttrStr TextStr fuel x :=
    export_good _ _ _ (flatten B) (flatWF_of_WF B hB) (flat_names T B hTB) fuel tag o x htag hs hx
  have hsafe := rename_safe T hT AttrStr TextStr (fun _ h => h) (fun _ h => h) fuel x hg
  refine ⟨x, hx, ?_⟩
  simp only [readObj, c01_parse_layout deco hd fuel _ hsafe, Option.bind_some, unrename_rename T hT _ _ fuel x hg, hb]

/-- **two texts related by the presentation relation** (same abstract tokens: they differ in white space inside tags,
    attribute delimiters, reference spellings, CDATA vs escaped text, comment / PI bodies) **build the same object** -/
theorem read_presentation (T : NameTable) (flat : Nat → Option FlatClass) (fuel c : Nat) (cs cs' : List CTok)
    (h : ToksWF cs) (h' : ToksWF cs') (hcr : '\r' ∉ render cs) (hcr' : '\r' ∉ render cs')
    (he : XmlText.mapOpt absTok cs = XmlText.mapOpt absTok cs') :
    readObj T flat fuel c (render cs) = readObj T flat fuel c (render cs') := by
  simp only [readObj, c04_presentation cs cs' h h' hcr hcr' he]

/-- CR LF / CR line ends build the same object -/
theorem read_line_ends (T : NameTable) (flat : Nat → Option FlatClass) (fuel c : Nat) (t : Str) :
    readObj T flat fuel c (eolNorm t) = readObj T flat fuel c t := by
  simp only [readObj, c04_line_ends t]

/-! ## today's tables (per-run obligations, kernel-checked) -/

/-- every entry of the regenerated name table is an XML name and is found again under its own number (so the table is
    injective on the names it holds) -/
theorem names_ok : namesOK NmlVerif.Gen.BindingNames.xmlNames = true := by decide +kernel

/-- every element tag and attribute name written by the export methods of today's 199 classes is in the name table -/
theorem table_names_ok : tableNamesOK NmlVerif.Gen.BindingNames.xmlNames NmlVerif.Gen.Bindings.table = true := by
  decide +kernel

/-- **C01 end to end for today's bindings**: for every conforming object tree whose strings the format can carry, written
    under any element name of the bindings, the characters `export` writes are read back — XML reader, name lookup,
    `build` — as exactly that object tree -/
theorem c01_read_write (fuel tag : Nat) (o : Obj)
    (hc : Conforms (flatten NmlVerif.Gen.Bindings.table) fuel o) (hs : ObjSafe AttrStr TextStr fuel o)
    (htag : known NmlVerif.Gen.BindingNames.xmlNames tag = true) :
    ∃ txt, writeObj NmlVerif.Gen.BindingNames.xmlNames (flatten NmlVerif.Gen.Bindings.table) fuel tag o = some txt ∧
      readObj NmlVerif.Gen.BindingNames.xmlNames (flatten NmlVerif.Gen.Bindings.table) fuel o.cls txt = some o :=
  read_write _ _ table_wf names_ok table_names_ok fuel tag o hc hs htag

/-- C04 end to end for today's bindings: any indentation-style layout of the written document builds the same object tree -/
theorem c04_read_any_layout (fuel tag : Nat) (o : Obj)
    (hc : Conforms (flatten NmlVerif.Gen.Bindings.table) fuel o) (hs : ObjSafe AttrStr TextStr fuel o)
    (htag : known NmlVerif.Gen.BindingNames.xmlNames tag = true) (deco : List Nat → Nat → Nat → Gap) (hd : DecoOK deco) :
    ∃ x, exportObj (flatten NmlVerif.Gen.Bindings.table) fuel tag o = some x ∧
      readObj NmlVerif.Gen.BindingNames.xmlNames (flatten NmlVerif.Gen.Bindings.table) fuel o.cls
        (render (toks deco fuel [] (rename NmlVerif.Gen.BindingNames.xmlNames fuel x)) ++ ['\n']) = some o :=
  read_any_layout _ _ table_wf names_ok table_names_ok fuel tag o hc hs htag deco hd

/-- the hypotheses of `c01_read_write` are satisfiable on a non-trivial instance: a string with `< & " '` and a newline is an
    `AttrStr`, a text with `]]>` a `TextStr`, and the document element's name is a table name -/
example : AttrStr "a\"b'c<&>\n" ∧ TextStr "x < y & z ]]> \n" := by
  unfold AttrStr TextStr
  refine ⟨?_, ?_, ?_⟩ <;> decide

example : ObjSafe AttrStr TextStr 2 (.mk 5 [(1, some "a<&\"'\n"), (2, none)] none [(3, [.mk textCls [] (some "t & u") []])]) := by
  simp only [ObjSafe]
  refine ⟨?_, by simp, ?_⟩
  · intro p hp s hs
    simp only [List.mem_cons, List.not_mem_nil, or_false] at hp
    rcases hp with rfl | rfl
    · simp at hs; subst hs; unfold AttrStr; decide
    · simp at hs
  · intro p hp o ho
    simp only [List.mem_singleton] at hp
    subst hp
    simp only [List.mem_singleton] at ho
    subst ho
    refine ⟨by simp, ?_, by simp⟩
    intro s hs; simp at hs; subst hs; unfold TextStr; exact ⟨by decide, by decide⟩

/-- the document element's name `neuroml` is a table name -/
example : (NmlVerif.Gen.BindingNames.xmlNames.any fun p =>
    p.2 = "neuroml".toList && known NmlVerif.Gen.BindingNames.xmlNames p.1) = true := by decide +kernel

end NmlVerif.XmlBind
