import NmlVerif.Proofs.XmlToken
import NmlVerif.Proofs.XmlParse
import NmlVerif.Proofs.XmlRound
/-!
# C01, text level — the reader inverts the writer's layout

`tokenize` / `treeOf` / `parse` are the reader model of `Model/XmlText.lean` (XML 1.0: end-of-line handling, tags with
any white space and either delimiter, the five predefined entities, decimal / hexadecimal character references,
attribute-value normalisation, CDATA sections, comments, processing instructions; tied to lxml by the correspondence
streams `text-parse`).  `render` writes concrete tokens, `toks` / `atoks` lay a tree out under an arbitrary decoration
of the gaps between children; `serialise` is the decoration `export(pretty_print=True)` uses (tied to the real
`export` byte for byte by the stream `text-serialise`).
-/
namespace NmlVerif.XmlText

/-- **the tokenizer inverts the renderer** on every well-formed sequence of concrete tokens (names are XML names,
    white space where XML wants it, the delimiter does not occur in the raw value, character data is followed by
    markup, comment / CDATA / PI bodies do not contain their terminator) -/
theorem c01_tokenizer_inverts_renderer (cs : List CTok) (fuel : Nat) (hf : cs.length < fuel) (h : ToksWF cs) :
    tokenize fuel (render cs) = mapOpt absTok cs := tokenize_render cs fuel hf h

/-- the reader on a rendered token sequence: tokens decoded, then the tree builder -/
theorem c01_parse_render (cs : List CTok) (h : ToksWF cs) (hcr : '\r' ∉ render cs) :
    parse (render cs) = (mapOpt absTok cs).bind treeOf := parse_render cs h hcr

example : ToksWF [.open "a".toList [⟨" ".toList, "b".toList, [], [], Char.ofNat 34, "x&amp;y".toList⟩] [], .chars "t ".toList,
    .comment "c".toList, .close "a".toList []] := by
  refine ⟨⟨by decide, ?_, by simp⟩, trivial, ⟨by decide, by decide⟩, ?_, ?_, trivial, ⟨by decide, by simp⟩, trivial, trivial⟩
  · intro a ha
    simp only [List.mem_singleton] at ha
    subst ha
    exact ⟨by decide, by decide, by decide, by simp, by simp, Or.inl (by decide), by decide⟩
  · intro c r e; simp [render, renderTok] at e; exact e.1.symm
  · intro t u e ht
    have : t = ['c'] := by
      cases u with
      | nil => simpa using e.symm
      | cons x u => cases u <;> simp at e; exact absurd e.2 ht
    subst this; decide

/-- **the tree builder inverts the layout**, for every decoration of the gaps between children with white space and
    comments, and for any white space / comments / processing instructions before and after the document element -/
theorem c01_tree_of_layout (deco : List Nat → Nat → Nat → Gap) (fuel : Nat) (t : TNode) (h : TWF fuel t)
    (pre post : List Tok) (hpre : ∀ x ∈ pre, x = .misc ∨ ∃ w, x = .chars w ∧ w.all isWs = true)
    (hpost : ∀ x ∈ post, x = .misc ∨ ∃ w, x = .chars w ∧ w.all isWs = true) :
    treeOf (pre ++ atoks deco fuel [] t ++ post) = some t := treeOf_atoks deco fuel t h pre post hpre hpost

example : TWF 2 (.mk "a".toList [] none [.mk "b".toList [("k".toList, "v".toList)] (some "x".toList) [], .mk "c".toList [] none []]) := by
  simp [TWF]

/-- **text-level round trip, any indentation**: for every guard-safe tree (XML names, attribute values over `AttrChar`,
    text over `TextChar` without CDATA sections, distinct attribute names) and every indentation-style layout, the reader
    applied to the characters the writer's tokens render to gives the tree back -/
theorem c01_parse_layout (deco : List Nat → Nat → Nat → Gap) (hd : DecoOK deco) (fuel : Nat) (t : TNode)
    (h : TSafe fuel t) : parse (render (toks deco fuel [] t) ++ ['\n']) = some t := by
  have g := toks_good deco hd fuel [] t h
  have hs : render (toks deco fuel [] t) ++ ['\n'] = render (toks deco fuel [] t ++ [.chars ['\n']]) := by
    simp [render_append, render, renderTok]
  have hlast : ToksWFr [CTok.chars ['\n']] [] :=
    ⟨⟨by simp, by decide⟩, by intro c r e; simp [render] at e, trivial⟩
  have hwf : ToksWF (toks deco fuel [] t ++ [.chars ['\n']]) :=
    ToksWF_of_r _ (ToksWFr_append _ _ [] (g.wf _ (Or.inr (Or.inr trivial))) hlast)
  have hcr : '\r' ∉ render (toks deco fuel [] t ++ [.chars ['\n']]) := by
    rw [render_append]
    exact ncr_app _ _ g.nocr (by simp [render, renderTok])
  have hnl : mapOpt absTok [CTok.chars ['\n']] = some [Tok.chars ['\n']] := by decide
  have habs := mapOpt_append absTok _ _ _ _ g.abs hnl
  rw [hs, parse_render _ hwf hcr, habs]
  simp only [Option.bind_some]
  have := treeOf_atoks deco fuel t (TWF_of_TSafe fuel t h) [] [.chars ['\n']] (by simp)
    (by intro x hx; simp only [List.mem_singleton] at hx; subst hx; exact Or.inr ⟨_, rfl, by decide⟩)
  simpa using this

/-- **C01 at the text level: `parse (serialise t) = some t`** — what `export(pretty_print=True)` writes for a guard-safe
    tree is read back as that tree (same element names in the same order, every attribute value and text verbatim) -/
theorem c01_parse_serialise (fuel : Nat) (t : TNode) (h : TSafe fuel t) : parse (serialise fuel t) = some t :=
  c01_parse_layout prettyDeco prettyDeco_ok fuel t h

example : TSafe 2 (.mk "cell".toList [("id".toList, "a\"b'c<&>\n".toList)] none
    [.mk "notes".toList [] (some "x < y & z ]]> \n".toList) [], .mk "morphology".toList [] none []]) := by
  simp only [TSafe]
  refine ⟨by decide, ?_, by decide, by simp, by simp, ?_⟩
  · intro p hp; simp only [List.mem_singleton] at hp; subst hp; exact ⟨by decide, by decide⟩
  · intro c hc
    simp only [List.mem_cons, List.not_mem_nil, or_false] at hc
    rcases hc with rfl | rfl
    · exact ⟨by decide, by simp, by decide, by intro s hs; cases hs; exact ⟨by decide, by decide⟩, by simp, by simp⟩
    · exact ⟨by decide, by simp, by decide, by simp, by simp, by simp⟩

end NmlVerif.XmlText
