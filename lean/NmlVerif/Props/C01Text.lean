import NmlVerif.Proofs.XmlText
import NmlVerif.Proofs.IntCodec
import NmlVerif.Gen.Quote
/-!
# C01, text level — escaping and scalar codecs

`NmlVerif.Gen.Quote` is regenerated from `neuroml/nml/nml.py` on every run (translators/py2lean_quote.py); the first
block proves the regenerated definitions equal to the hand models of `Model/XmlText.lean`; the second states what an
XML 1.0 parser reads back from what they write, for ALL strings over an explicit character guard.
-/
namespace NmlVerif.XmlText
open Py

/-! ## generated = hand model (per-run obligations) -/

theorem gen_quote_xml_aux_eq : NmlVerif.Gen.Quote.quote_xml_aux = quoteXmlAux := rfl
theorem gen_quote_xml_eq : NmlVerif.Gen.Quote.quote_xml = quoteXml := rfl
theorem gen_quote_attrib_eq : NmlVerif.Gen.Quote.quote_attrib = quoteAttrib := rfl
theorem gen_format_string_eq : NmlVerif.Gen.Quote.gds_format_string = id := rfl
theorem gen_parse_string_eq : NmlVerif.Gen.Quote.gds_parse_string = id := rfl
theorem gen_format_integer_eq : NmlVerif.Gen.Quote.gds_format_integer = fmtInt := rfl
theorem gen_parse_integer_eq : NmlVerif.Gen.Quote.gds_parse_integer = parseInt := by
  funext s; simp [NmlVerif.Gen.Quote.gds_parse_integer, parseInt]
theorem gen_format_boolean_eq : NmlVerif.Gen.Quote.gds_format_boolean = fmtBool := by
  funext b; cases b <;> rfl
theorem gen_parse_boolean_eq : NmlVerif.Gen.Quote.gds_parse_boolean = parseBool := by
  funext s
  simp [NmlVerif.Gen.Quote.gds_parse_boolean, parseBool]

/-- `gds_format_float` / `gds_format_double` on the lexical level (the argument is what CPython's `"%.15f"` / `"%s"` give for
    the value — trusted): today's source is one of the two known shapes, selected by the regenerated flag `nonfiniteXsd`
    (`false`: inf / -inf / nan as CPython prints them; `true`: the XSD spellings INF / -INF / NaN) -/
theorem gen_format_float_eq : NmlVerif.Gen.Quote.gds_format_float = fmtFloat NmlVerif.Gen.Quote.nonfiniteXsd := rfl
theorem gen_format_double_eq : NmlVerif.Gen.Quote.gds_format_double = fmtDouble NmlVerif.Gen.Quote.nonfiniteXsd := rfl

/-- the re-spelling touches the three non-finite spellings only -/
theorem xsdNonfinite_finite (s : Str) (h1 : s ≠ ['i', 'n', 'f']) (h2 : s ≠ ['-', 'i', 'n', 'f']) (h3 : s ≠ ['n', 'a', 'n']) :
    xsdNonfinite s = s := by
  simp [xsdNonfinite, Py.dictGet, List.find?, Ne.symm h1, Ne.symm h2, Ne.symm h3]

theorem xsdNonfinite_values : xsdNonfinite "inf".toList = "INF".toList ∧ xsdNonfinite "-inf".toList = "-INF".toList ∧
    xsdNonfinite "nan".toList = "NaN".toList ∧ xsdNonfinite "1e-07".toList = "1e-07".toList := by decide

/-- the 15-decimal form: trailing zeros go, one digit stays after the point -/
theorem fmtFloat_examples :
    fmtFloat false ⟨[], "0.500000000000000".toList⟩ = "0.5".toList ∧ fmtFloat false ⟨[], "3.000000000000000".toList⟩ = "3.0".toList ∧
    fmtFloat false ⟨[], "0.000000100000000".toList⟩ = "0.0000001".toList ∧ fmtFloat true ⟨[], "-inf".toList⟩ = "-INF".toList ∧
    fmtFloat false ⟨[], "nan".toList⟩ = "nan".toList := by decide

/-! ## what the reader gets back -/

/-- **C01, attribute strings** (all strings of XML characters without TAB / CR, including `< > & " '` in any mixture,
    both quote kinds at once, newlines, a literal `&#10;`, non-ASCII): `quote_attrib` then XML attribute reading is
    the identity -/
theorem c01_attr_roundtrip (s : Str) (hs : ∀ x ∈ s, AttrChar x) :
    readAttr (NmlVerif.Gen.Quote.quote_attrib s) = some s := by
  rw [gen_quote_attrib_eq]; exact readAttr_quoteAttrib s hs

example : ∀ x ∈ "a\"b'c<&>\n&#10;é".toList, AttrChar x := by decide

/-- the full statement (every string of XML characters) is FALSE: TAB and CR are written literally and
    attribute-value normalisation turns them into spaces -/
def c01_attr_roundtrip_full : Prop := ∀ s : Str, (∀ x ∈ s, isXmlChar x = true) → readAttr (quoteAttrib s) = some s

theorem c01_attr_tab_witness : ¬ c01_attr_roundtrip_full := by
  intro h
  have := h "a\tb".toList (by decide)
  revert this
  decide

theorem c01_attr_cr_witness : readAttr (quoteAttrib "a\rb".toList) = some "a b".toList := by decide

/-- **C01, element text** (all strings of XML characters without CR that hold no CDATA section) -/
theorem c01_text_roundtrip (s : Str) (hs : ∀ x ∈ s, TextChar x) (hc : NoCData s) :
    readText (NmlVerif.Gen.Quote.quote_xml s) = some s := by
  rw [gen_quote_xml_eq]; exact readText_quoteXml s hs hc

example : (∀ x ∈ "a\"b'c<&>\n\t]]>&#10;é<![CDATA[".toList, TextChar x) ∧ NoCData "a\"b'c<&>\n\t]]>&#10;é<![CDATA[".toList := by
  decide

/-- a sufficient syntactic condition for `NoCData`: the string does not contain `<![CDATA[` at all -/
theorem noCData_of_no_open (s : Str) (h : findAt cdataOpen s 0 = none) : NoCData s := by
  simp [NoCData, cdataFinditer, cdataMatches, h]

def rootText : Option TNode → Option Str
  | some (.mk _ _ t _) => t
  | none => none

/-- the full statement for element text, kept visible: FALSE on the current code (known finding `C01:cdata-in-text`) -/
def c01_text_roundtrip_full : Prop :=
  ∀ s : Str, (∀ x ∈ s, TextChar x) → rootText (parse ("<n>".toList ++ quoteXml s ++ "</n>".toList)) = some s

/-- the strongest true restriction is `c01_text_roundtrip` (hypothesis `NoCData`) -/
theorem c01_text_roundtrip_partial (s : Str) (hs : ∀ x ∈ s, TextChar x) (hc : NoCData s) :
    readText (quoteXml s) = some s := readText_quoteXml s hs hc

/-- `notes = "x<![CDATA[zz]]>y"` is written verbatim and read back as `xzzy` -/
theorem c01_text_cdata_unwrapped :
    rootText (parse ("<n>".toList ++ quoteXml "x<![CDATA[zz]]>y".toList ++ "</n>".toList)) = some "xzzy".toList := by decide

theorem c01_text_cdata_witness : ¬ c01_text_roundtrip_full := by
  intro h
  have := h "x<![CDATA[zz]]>y".toList (by decide)
  rw [c01_text_cdata_unwrapped] at this
  revert this
  decide

theorem c01_text_cr_witness : readText (quoteXml "a\rb".toList) = some "a\nb".toList := by decide

/-! ## scalar codecs: booleans and integers exactly; strings are the identity; floats/doubles stay trusted + sampled -/

/-- **integer codec, every integer** (any sign, any size): `gds_parse_integer (gds_format_integer i) = i` -/
theorem c01_int_roundtrip (i : Int) :
    NmlVerif.Gen.Quote.gds_parse_integer (NmlVerif.Gen.Quote.gds_format_integer i) = some i := by
  rw [gen_parse_integer_eq, gen_format_integer_eq]; exact parseInt_fmtInt i

theorem c01_bool_roundtrip (b : Bool) :
    NmlVerif.Gen.Quote.gds_parse_boolean (NmlVerif.Gen.Quote.gds_format_boolean b) = some b := by
  rw [gen_parse_boolean_eq, gen_format_boolean_eq]; cases b <;> decide

end NmlVerif.XmlText
