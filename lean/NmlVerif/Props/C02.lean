import NmlVerif.Props.C03
import NmlVerif.Proofs.Binding
/-!
# C02 — schema-conforming trees pass `validate()` and are written as schema-valid XML

(a) `c02_validate_accepts`: a tree every component of which satisfies the items the SCHEMA prescribes is accepted
    by the (repaired) `validate(recursive=True)` — from `tables_agree` (the generated checks are exactly those).
(b) names and order: `tables_agree`, `content_order_agrees` (kernel-checked per run): children are written under
    the schema's element/attribute names, inherited first, in particle order.
(c) `c02_children_valid`: for every type whose content model is built from sequences of element particles, the
    child-tag word `export` writes for a tree with in-range counts is accepted by the sequence matcher.
Types with choice groups / wildcards are covered by the correspondence + libxml2 oracle only (`…_partial`);
`GateKS` (repeated choice over a sequence group) is a known finding.
-/
namespace NmlVerif.Schema
open NmlVerif.Binding

/-- (a) every prescribed item holds at every descendant ⇒ accepted -/
theorem c02_validate_accepts (T : Table) (X : Xsd) (hA : agree T X = true) (st : Nat → String → Bool)
    (f : Nat) (o : Obj) (hdep : depth f o = true)
    (hchain : ∀ d, Desc o d → ∀ k ∈ chain T T.length d.cls, k ∈ T)
    (hok : ∀ d, Desc o d → ∀ k ∈ chain T T.length d.cls, ∀ x, findType X k.name = some x →
      ∀ it ∈ schemaItems k x, itemOK st d it = true) :
    validateAll T st f o = true := by
  apply validateAll_of_nodes T st f o hdep
  intro d hd
  simp only [nodeOK, List.all_eq_true]
  intro k hk it hit
  have hkT := hchain d hd k hk
  simp only [agree, Bool.and_eq_true, List.all_eq_true] at hA
  have h1 := hA.2 k hkT
  cases hx : findType X k.name with
  | none => simp [hx] at h1
  | some x =>
    rw [hx] at h1
    simp only [classAgrees, Bool.and_eq_true, List.all_eq_true] at h1
    have := h1.2 it hit
    rcases Bool.or_eq_true _ _ |>.mp this with hb | hs
    · cases it <;> simp [isBuiltin] at hb
      simp [itemOK]
    · exact hok d hd k hk x hx it (mem_of_contains hs)

/-! ### (c) the sequence lemma -/

theorem takeWhile_replicate_append (t : Nat) : ∀ (n : Nat) (rest : List Nat), (∀ x, rest.head? = some x → x ≠ t) →
    ((List.replicate n t ++ rest).takeWhile (· == t)).length = n ∧
    (List.replicate n t ++ rest).drop n = rest
  | 0, rest, h => by
    constructor
    · cases rest with
      | nil => rfl
      | cons x r =>
        have : x ≠ t := h x rfl
        simp [List.takeWhile, this]
    · rfl
  | n+1, rest, h => by
    have ih := takeWhile_replicate_append t n rest h
    have e : List.replicate (n+1) t ++ rest = t :: (List.replicate n t ++ rest) := by
      simp [List.replicate_succ]
    rw [e]
    constructor
    · rw [List.takeWhile_cons_of_pos (by simp), List.length_cons, ih.1]
    · rw [List.drop_succ_cons]; exact ih.2

/-- the word written by a member-grouped export: `cᵢ` copies of tag `i`, in particle order -/
def word : List (XElem × Nat) → List Nat
  | [] => []
  | (p, c) :: r => List.replicate c p.tag ++ word r

theorem head_word_tag : ∀ (pcs : List (XElem × Nat)) (x : Nat), (word pcs).head? = some x →
    x ∈ pcs.map (·.1.tag)
  | [], x, h => by simp [word] at h
  | (p, c) :: r, x, h => by
    cases c with
    | zero =>
      simp only [word, List.replicate_zero, List.nil_append] at h
      have := head_word_tag r x h
      simp [this]
    | succ c =>
      simp [word, List.replicate_succ] at h
      simp [h]

/-- **sequence lemma**: grouped in particle order, counts inside the occurrence ranges, tags pairwise distinct
    ⇒ the sequence matcher accepts -/
theorem c02_seq_word_valid : ∀ (pcs : List (XElem × Nat)), (pcs.map (·.1.tag)).Nodup →
    (∀ pc ∈ pcs, pc.1.okCount pc.2 = true) → matchSeq (pcs.map (·.1)) (word pcs) = true
  | [], _, _ => rfl
  | (p, c) :: r, hn, h => by
    have hn2 : (p.tag :: r.map (·.1.tag)).Nodup := by simpa only [List.map_cons] using hn
    have hn' : (r.map (·.1.tag)).Nodup := (List.nodup_cons.mp hn2).2
    have hp : p.tag ∉ r.map (·.1.tag) := (List.nodup_cons.mp hn2).1
    have hhead : ∀ x, (word r).head? = some x → x ≠ p.tag := by
      intro x hx e
      exact hp (e ▸ head_word_tag r x hx)
    have ⟨t1, t2⟩ := takeWhile_replicate_append p.tag c (word r) hhead
    have ih := c02_seq_word_valid r hn' (fun pc hpc => h pc (by simp [hpc]))
    simp only [List.map_cons, word, matchSeq, t1, t2, ih, Bool.and_true]
    exact h (p, c) (by simp)

/-! ### what `export` writes -/

theorem exportObj_tag (flat : Nat → Option FlatClass) (fuel tag : Nat) (o : Obj) (x : XNode)
    (h : exportObj flat fuel tag o = some x) : x.tag = tag := by
  cases fuel with
  | zero => simp [exportObj] at h
  | succ f =>
    obtain ⟨c, as, tx, ks⟩ := o
    simp only [exportObj] at h
    split at h
    · cases h; rfl
    · split at h
      · cases h
      · split at h
        · cases h; rfl
        · cases h

theorem mapOpt_tags {f : Nat × Obj → Option XNode} (hf : ∀ p x, f p = some x → x.tag = p.1) :
    ∀ (l : List (Nat × Obj)) (ch : List XNode), mapOpt f l = some ch → ch.map XNode.tag = l.map (·.1)
  | [], ch, h => by simp [mapOpt] at h; subst h; rfl
  | p :: l, ch, h => by
    simp only [mapOpt] at h
    cases hp : f p with
    | none => simp [hp] at h
    | some x =>
      cases hl : mapOpt f l with
      | none => simp [hp, hl] at h
      | some xs =>
        simp [hp, hl] at h
        subst h
        simp [hf p x hp, mapOpt_tags hf l xs hl]

/-- the child-tag word of an exported element: one block per child member, in flat-class order -/
theorem export_child_tags (flat : Nat → Option FlatClass) (f tag c : Nat) (as : List (Nat × Option String))
    (tx : Option String) (ks : List (Nat × List Obj)) (k : FlatClass) (hc : c ≠ textCls) (hk : flat c = some k)
    (t : Nat) (xa : List (Nat × String)) (tx' : Option String) (ch : List XNode)
    (h : exportObj flat (f+1) tag (.mk c as tx ks) = some (.mk t xa tx' ch)) :
    ch.map XNode.tag = k.kids.flatMap (fun ce => List.replicate (kidsOf ce.member ks).length ce.tag) := by
  simp only [exportObj, hc, if_false, hk] at h
  split at h
  · rename_i xa' ch' hxa hch
    cases h
    have := mapOpt_tags (f := fun p => exportObj flat f p.1 p.2) (fun p x hx => exportObj_tag flat f p.1 p.2 x hx) _ _ hch
    rw [this]
    simp only [pairsOf, List.map_flatMap, List.map_map, Function.comp_def, List.map_const']
  · cases h

theorem word_eq_flatMap : ∀ (pcs : List (XElem × Nat)),
    word pcs = pcs.flatMap (fun pc => List.replicate pc.2 pc.1.tag)
  | [] => rfl
  | (p, c) :: r => by simp [word, word_eq_flatMap r]

/-- **(c)** for a type whose particles `ps` line up with the flat class's child members (same tags, same order —
    the per-run obligation `content_order_agrees`) and are pairwise distinct: if every child member holds a number of
    children inside its particle's occurrence range, the children `export` writes are accepted by the sequence
    matcher. -/
theorem c02_children_valid (flat : Nat → Option FlatClass) (f tag c : Nat) (as : List (Nat × Option String))
    (tx : Option String) (ks : List (Nat × List Obj)) (k : FlatClass) (hc : c ≠ textCls) (hk : flat c = some k)
    (ps : List XElem) (htags : k.kids.map (·.tag) = ps.map (·.tag)) (hnd : (ps.map (·.tag)).Nodup)
    (hcount : ∀ pk ∈ ps.zip k.kids, pk.1.okCount (kidsOf pk.2.member ks).length = true)
    (t : Nat) (xa : List (Nat × String)) (tx' : Option String) (ch : List XNode)
    (h : exportObj flat (f+1) tag (.mk c as tx ks) = some (.mk t xa tx' ch)) :
    matchSeq ps (ch.map XNode.tag) = true := by
  have hlen : k.kids.length = ps.length := by simpa using congrArg List.length htags
  -- pair every particle with the count of its member
  let pcs : List (XElem × Nat) := (ps.zip k.kids).map (fun pk => (pk.1, (kidsOf pk.2.member ks).length))
  have h1 : pcs.map (·.1) = ps := by
    have e : (ps.zip k.kids).map Prod.fst = ps := List.map_fst_zip (l₁ := ps) (l₂ := k.kids) (by omega)
    simp only [pcs, List.map_map, Function.comp_def]
    exact e
  have h2 : word pcs = ch.map XNode.tag := by
    rw [export_child_tags flat f tag c as tx ks k hc hk t xa tx' ch h, word_eq_flatMap]
    simp only [pcs, List.flatMap_map]
    -- replace the particle's tag by the kid's tag, position by position
    have : ∀ (l1 : List XElem) (l2 : List FKid), l2.map (·.tag) = l1.map (·.tag) →
        (l1.zip l2).flatMap (fun pk => List.replicate (kidsOf pk.2.member ks).length pk.1.tag)
          = l2.flatMap (fun ce => List.replicate (kidsOf ce.member ks).length ce.tag) := by
      intro l1
      induction l1 with
      | nil => intro l2 e; cases l2 with
        | nil => rfl
        | cons _ _ => simp at e
      | cons p l1 ih =>
        intro l2 e
        cases l2 with
        | nil => simp at e
        | cons q l2 =>
          simp only [List.map_cons, List.cons.injEq] at e
          simp only [List.zip_cons_cons, List.flatMap_cons, e.1, ih l2 e.2]
    exact this ps k.kids htags
  have h3 : (pcs.map (·.1.tag)).Nodup := by
    have : pcs.map (·.1.tag) = (pcs.map (·.1)).map (·.tag) := by simp [List.map_map]
    rw [this, h1]; exact hnd
  have h4 : ∀ pc ∈ pcs, pc.1.okCount pc.2 = true := by
    intro pc hpc
    simp only [pcs, List.mem_map] at hpc
    obtain ⟨pk, hpk, rfl⟩ := hpc
    exact hcount pk hpk
  have := c02_seq_word_valid pcs h3 h4
  rw [h1, h2] at this
  exact this

/-! ### per-run obligation -/

/-- today's tables: every class writes its children (inherited first) under the schema's tags in particle order,
    with pairwise distinct tags -/
theorem content_order_agrees :
    contentOrderAgrees NmlVerif.Gen.Bindings.table NmlVerif.Gen.Xsd.types = true := by decide +kernel

/-- KNOWN FINDING `C02:GateKS:interleaved-group`: exactly one type of today's schema has a repeated choice over a
    sequence group, which no member-grouped export can realise for two or more repetitions -/
theorem c02_interleaved_types :
    (NmlVerif.Gen.Xsd.types.filter (·.interleaved)).map (·.name) = [NmlVerif.Gen.Names.nm_GateKS] := by decide +kernel

end NmlVerif.Schema
