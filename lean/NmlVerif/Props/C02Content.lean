import NmlVerif.Props.C02
/-!
# C02 — element and attribute NAMES and ORDER, with `xs:all` groups and element-level choices

* `attr_names_agree` (kernel, per run): every class writes its attributes, inherited first, under exactly the
  attribute names the schema declares along the extension chain, pairwise distinct.
* `groups_agree` (kernel, per run): the group table (`Gen.Xsd.groups`: the own content model of every complex type as
  a sequence of `sequence` / `all` / `choice` groups) lists the same element particles, in the same order, as the flat
  particle table the other obligations use; exactly the wildcard types and `GateKS` have no group list.
* `c02_all_group_valid`, `c02_choice_group_valid`: what a member-grouped export writes for an `all` group (each member
  at most once, required ones present) and for a `choice` group (one branch filled, inside its range; or none, when a
  branch may be empty) is accepted by the group matcher, which the content-model stream compares with libxml2 in both
  directions.
-/
namespace NmlVerif.Schema
open NmlVerif.Binding

theorem attr_names_agree : attrNamesAgree NmlVerif.Gen.Bindings.table NmlVerif.Gen.Xsd.types = true := by decide +kernel

theorem groups_agree : groupsAgree NmlVerif.Gen.Xsd.groups NmlVerif.Gen.Xsd.types = true := by decide +kernel

/-- the types without a group list are the six wildcard holders and `GateKS` -/
theorem group_less_types :
    ((NmlVerif.Gen.Xsd.groups.filter (fun p => p.2.isNone)).map (·.1)).length = 7 := by decide +kernel

theorem countTag_word_of_not_mem (t : Nat) : ∀ (pcs : List (XElem × Nat)), t ∉ pcs.map (·.1.tag) → countTag t (word pcs) = 0
  | [], _ => rfl
  | (p, c) :: r, h => by
    simp only [List.map_cons, List.mem_cons, not_or] at h
    have ih := countTag_word_of_not_mem t r h.2
    simp only [countTag] at ih ⊢
    simp only [word, List.filter_append, List.length_append, ih, Nat.add_zero]
    have : (List.replicate c p.tag).filter (· == t) = [] := by
      apply List.filter_eq_nil_iff.mpr
      intro x hx
      have := List.eq_of_mem_replicate hx
      subst this
      simp only [beq_iff_eq]
      exact fun e => h.1 e.symm
    rw [this]; rfl

/-- in the word of a member-grouped export with pairwise distinct tags, a tag occurs exactly as often as its member
    holds children -/
theorem countTag_word : ∀ (pcs : List (XElem × Nat)), (pcs.map (·.1.tag)).Nodup →
    ∀ pc ∈ pcs, countTag pc.1.tag (word pcs) = pc.2
  | [], _, pc, h => by cases h
  | (p, c) :: r, hn, pc, hpc => by
    have hn2 : (p.tag :: r.map (·.1.tag)).Nodup := by simpa only [List.map_cons] using hn
    have hp : p.tag ∉ r.map (·.1.tag) := (List.nodup_cons.mp hn2).1
    have hn' := (List.nodup_cons.mp hn2).2
    simp only [List.mem_cons] at hpc
    rcases hpc with rfl | hpc
    · have h0 := countTag_word_of_not_mem p.tag r hp
      simp only [countTag] at h0 ⊢
      simp only [word, List.filter_append, List.length_append, h0, Nat.add_zero]
      have : (List.replicate c p.tag).filter (· == p.tag) = List.replicate c p.tag := by
        apply List.filter_eq_self.mpr
        intro x hx
        simp [List.eq_of_mem_replicate hx]
      rw [this, List.length_replicate]
    · have ih := countTag_word r hn' pc hpc
      have hne : pc.1.tag ≠ p.tag := by
        intro e
        exact hp (e ▸ List.mem_map.mpr ⟨pc, hpc, rfl⟩)
      simp only [countTag] at ih ⊢
      simp only [word, List.filter_append, List.length_append, ih]
      have : (List.replicate c p.tag).filter (· == pc.1.tag) = [] := by
        apply List.filter_eq_nil_iff.mpr
        intro x hx
        have := List.eq_of_mem_replicate hx
        subst this
        simp only [beq_iff_eq]
        exact fun e => hne e.symm
      rw [this]; simp

/-- **`xs:all`**: members written grouped in any fixed order, each at most once and the required ones present, with
    pairwise distinct tags ⇒ the `all` group accepts -/
theorem c02_all_group_valid (pcs : List (XElem × Nat)) (hn : (pcs.map (·.1.tag)).Nodup)
    (h : ∀ pc ∈ pcs, pc.1.lo ≤ pc.2 ∧ pc.2 ≤ 1) : matchGroup (.all (pcs.map (·.1))) (word pcs) = true := by
  simp only [matchGroup, List.all_eq_true, List.mem_map, Bool.and_eq_true, decide_eq_true_eq]
  rintro e ⟨pc, hpc, rfl⟩
  rw [countTag_word pcs hn pc hpc]
  exact h pc hpc

theorem word_all_zero : ∀ (pcs : List (XElem × Nat)), (∀ pc ∈ pcs, pc.2 = 0) → word pcs = []
  | [], _ => rfl
  | (p, c) :: r, h => by
    have hc : c = 0 := h (p, c) (by simp)
    subst hc
    simp only [word, List.replicate_zero, List.nil_append]
    exact word_all_zero r (fun pc hpc => h pc (by simp [hpc]))

theorem word_single : ∀ (pre post : List (XElem × Nat)) (p : XElem) (c : Nat), (∀ pc ∈ pre, pc.2 = 0) → (∀ pc ∈ post, pc.2 = 0) →
    word (pre ++ (p, c) :: post) = List.replicate c p.tag
  | [], post, p, c, _, h2 => by simp [word, word_all_zero post h2]
  | (q, d) :: pre, post, p, c, h1, h2 => by
    have hd : d = 0 := h1 (q, d) (by simp)
    subst hd
    simp only [List.cons_append, word, List.replicate_zero, List.nil_append]
    exact word_single pre post p c (fun pc hpc => h1 pc (by simp [hpc])) h2

/-- **`xs:choice`** (one branch): exactly one branch member holds children, a number inside that branch's occurrence
    range ⇒ the `choice` group accepts -/
theorem c02_choice_group_valid (pre post : List (XElem × Nat)) (p : XElem) (c : Nat)
    (h1 : ∀ pc ∈ pre, pc.2 = 0) (h2 : ∀ pc ∈ post, pc.2 = 0) (hc : p.okCount c = true) :
    matchGroup (.choice ((pre ++ (p, c) :: post).map (·.1))) (word (pre ++ (p, c) :: post)) = true := by
  rw [word_single pre post p c h1 h2]
  simp only [matchGroup, List.any_eq_true, List.mem_map, Bool.and_eq_true, List.all_eq_true]
  refine ⟨p, ⟨(p, c), by simp, rfl⟩, ?_, by simpa using hc⟩
  intro x hx
  simp [List.eq_of_mem_replicate hx]

/-- hypotheses satisfiable: `Layout`-like choice `random | grid | unstructured`, the second branch filled once -/
example : matchGroup (.choice [⟨1, 1, 1, some 1, true, false, none⟩, ⟨2, 2, 1, some 1, true, false, none⟩, ⟨3, 3, 1, some 1, true, false, none⟩])
    [2] = true := by decide
/-- … and two branches side by side are refused, as is the empty choice when every branch is required -/
example : matchGroup (.choice [⟨1, 1, 1, some 1, true, false, none⟩, ⟨2, 2, 1, some 1, true, false, none⟩]) [1, 2] = false := by decide
example : matchGroup (.choice [⟨1, 1, 1, some 1, true, false, none⟩, ⟨2, 2, 1, some 1, true, false, none⟩]) [] = false := by decide
/-- an `all` group accepts either order and refuses a repeated member -/
example : matchGroup (.all [⟨1, 1, 1, some 1, false, false, none⟩, ⟨2, 2, 0, some 1, false, false, none⟩]) [2, 1] = true := by decide
example : matchGroup (.all [⟨1, 1, 1, some 1, false, false, none⟩, ⟨2, 2, 0, some 1, false, false, none⟩]) [1, 1] = false := by decide

end NmlVerif.Schema
