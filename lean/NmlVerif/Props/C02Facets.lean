import NmlVerif.Props.C02
import NmlVerif.Props.C03Facets
/-!
# C02 — a tree whose values are drawn from the XSD value spaces passes `validate(recursive=True)`

`c02_validate_accepts` (Props/C02.lean) with the abstract simple-type predicate replaced by the model of today's
generated validators, and "conforms" stated with the schema's own value spaces (`Facets.xsdValid`).
-/
namespace NmlVerif.Schema
open NmlVerif.Binding NmlVerif.Facets NmlVerif.Gen.Validators NmlVerif.Gen.Names

/-- what the schema asks of one item at one component: cardinalities as such; for a simple-typed member, the string
    held is in the XSD value space of the type (and, for the unit-less `Nml2Quantity` only, does not end in a line
    feed — there the verdict would depend on the priority order of Python's `re`, which is not modelled) -/
def ItemConforms (d : Obj) : VItem → Prop
  | .simple t m => ∀ s, attrVal d m = some s → ∀ xt, findXsdT xsdTypes t = some xt →
      xsdValid xt (.str s.toList) = true ∧ (t = nm_Nml2Quantity → ∀ u, s.toList ≠ u ++ ['\n'])
  | .req m r => r = false ∨ 1 ≤ count d m
  | .card m lo hi => lo ≤ count d m ∧ count d m ≤ hi
  | .builtin _ _ => True

theorem py_has_xsd (t : Nat) (py : PyType) (hp : findPy pyTypes t = some py) : ∃ xt, findXsdT xsdTypes t = some xt := by
  have h := validators_agree
  simp only [allAgree, Bool.and_eq_true, List.all_eq_true] at h
  have hm : py ∈ pyTypes := List.mem_of_find?_eq_some hp
  have hn : py.name = t := by
    have := List.find?_some hp
    simpa using this
  have := h.1 py hm
  rw [hn] at this
  cases hx : findXsdT xsdTypes t with
  | none => rw [hx] at this; cases this
  | some xt => exact ⟨xt, rfl⟩

theorem itemOK_of_conforms (E : Engine) (hE : EngineSpec E) (d : Obj) (it : VItem) (h : ItemConforms d it) :
    itemOK (stPy E patCheck pyTypes) d it = true := by
  cases it with
  | builtin v m => rfl
  | req m r =>
    simp only [ItemConforms] at h
    simp only [itemOK, Bool.or_eq_true, Bool.not_eq_true', decide_eq_true_eq]
    exact h
  | card m lo hi =>
    simp only [ItemConforms] at h
    simp only [itemOK, Bool.and_eq_true, decide_eq_true_eq]
    exact h
  | simple t m =>
    simp only [ItemConforms] at h
    simp only [itemOK]
    cases hs : attrVal d m with
    | none => rfl
    | some s =>
      simp only [stPy]
      cases hp : findPy pyTypes t with
      | none => rfl
      | some py =>
        simp only
        by_cases hb : py.base = .str
        · simp only [hb, if_true]
          obtain ⟨xt, hxt⟩ := py_has_xsd t py hp
          have ⟨h1, h2⟩ := h s hs xt hxt
          exact c02_facet_today E hE t py xt hp hxt (.str s.toList)
            (fun hn s' hs' => by cases hs'; exact h2 hn) h1
        · simp [hb]

/-- **C02 (validate part, today's tables).**  Every component of the tree satisfies every item the SCHEMA prescribes
    for every class of its MRO, simple-typed members holding values of the XSD value space ⇒ the (repaired)
    `validate(recursive=True)` accepts, for every `re` engine meeting the specification. -/
theorem c02_conforming_accepted (E : Engine) (hE : EngineSpec E) (f : Nat) (o : Obj) (hdep : depth f o = true)
    (hchain : ∀ d, Desc o d → ∀ k ∈ chain NmlVerif.Gen.Bindings.table NmlVerif.Gen.Bindings.table.length d.cls,
      k ∈ NmlVerif.Gen.Bindings.table)
    (hok : ∀ d, Desc o d → ∀ k ∈ chain NmlVerif.Gen.Bindings.table NmlVerif.Gen.Bindings.table.length d.cls,
      ∀ x, findType NmlVerif.Gen.Xsd.types k.name = some x → ∀ it ∈ schemaItems k x, ItemConforms d it) :
    validateAll NmlVerif.Gen.Bindings.table (stPy E patCheck pyTypes) f o = true :=
  c02_validate_accepts _ _ tables_agree _ f o hdep hchain
    (fun d hd k hk x hx it hit => itemOK_of_conforms E hE d it (hok d hd k hk x hx it hit))

end NmlVerif.Schema

/-! ### FIXED FINDING `C02:nonfinite-float-lexical` -/
namespace NmlVerif.Facets
open NmlVerif.Rx

/-- a Python float as the scalar formats see it: a finite value (carried by the text the format gives it — `"%s" %
    value` for `gds_format_double`, the stripped `"%.15f"` for `gds_format_float`) or one of the three non-finite
    values -/
inductive PyFloat where
  | finite (repr : List Char)
  | inf | ninf | nan
deriving DecidableEq, Repr

/-- `gds_format_double` / `gds_format_float` on the three non-finite values and on a finite one.  `specials = false`:
    the code before the repair (`"%s" % value`, `"%.15f" % value` give Python's spellings); `specials = true`: the
    repaired code maps `inf`, `-inf`, `nan` to `INF`, `-INF`, `NaN`.  The flag is extracted from `nml.py` on every run
    (`Gen.Validators.floatSpecials`, `doubleSpecials`). -/
def gdsFormatFloating (specials : Bool) : PyFloat → List Char
  | .finite r => r
  | .inf => if specials then ['I', 'N', 'F'] else ['i', 'n', 'f']
  | .ninf => if specials then ['-', 'I', 'N', 'F'] else ['-', 'i', 'n', 'f']
  | .nan => if specials then ['N', 'a', 'N'] else ['n', 'a', 'n']

/-- `gds_parse_float` / `gds_parse_double` = `float(text)` on the spellings of the non-finite values (CPython accepts
    `inf`, `infinity`, `nan` in any case, with a sign); other texts are not modelled here -/
def pyFloatOfSpecial (s : List Char) : Option PyFloat :=
  let l := s.map Char.toLower
  if l = ['i', 'n', 'f'] ∨ l = ['+', 'i', 'n', 'f'] then some .inf
  else if l = ['-', 'i', 'n', 'f'] then some .ninf
  else if l = ['n', 'a', 'n'] ∨ l = ['-', 'n', 'a', 'n'] ∨ l = ['+', 'n', 'a', 'n'] then some .nan
  else none

def sgn : Rx := Rx.opt (.alt (Rx.chr '+') (Rx.chr '-'))
/-- the lexical space of `xs:double` / `xs:float` (XSD 1.0 §3.2.5.1): a decimal numeral with an optional exponent, or
    `INF`, `-INF`, `NaN` -/
def doubleLexRx : Rx :=
  .alt (.seq sgn (.seq (.alt (.seq (Rx.plus digit) (Rx.opt (.seq (Rx.chr '.') (.star digit)))) (.seq (Rx.chr '.') (Rx.plus digit)))
                   (Rx.opt (.seq expMark (.seq sgn (Rx.plus digit))))))
    (.alt (.seq (Rx.opt (Rx.chr '-')) (.seq (Rx.chr 'I') (.seq (Rx.chr 'N') (Rx.chr 'F'))))
          (.seq (Rx.chr 'N') (.seq (Rx.chr 'a') (Rx.chr 'N'))))

/-- every float of the value space is written inside the lexical space -/
def C02_double_lexical_full (specials : Bool) : Prop :=
  ∀ f : PyFloat, (∀ r, f = .finite r → accepts doubleLexRx r = true) →
    accepts doubleLexRx (gdsFormatFloating specials f) = true

/-- before the repair: infinity is in the value space of `xs:double` and was written `inf`, which the schema does not
    accept -/
theorem c02_nonfinite_witness : ¬ C02_double_lexical_full false := by
  intro h
  have := h .inf (fun r hr => by cases hr)
  have hf : accepts doubleLexRx (gdsFormatFloating false .inf) = false := by decide +kernel
  rw [hf] at this; cases this

/-- **after the repair the full statement holds**: every float whose finite text is a numeral is written inside the
    lexical space of `xs:double` / `xs:float` -/
theorem c02_double_lexical_fixed : C02_double_lexical_full true := by
  intro f hf
  cases f with
  | finite r => exact hf r rfl
  | inf => decide +kernel
  | ninf => decide +kernel
  | nan => decide +kernel

/-- … and the non-finite values are read back as themselves (`float("INF")`, `float("-INF")`, `float("NaN")`) -/
theorem c02_nonfinite_roundtrip (f : PyFloat) (h : ∀ r, f ≠ .finite r) :
    pyFloatOfSpecial (gdsFormatFloating true f) = some f := by
  cases f with
  | finite r => exact absurd rfl (h r)
  | inf => decide
  | ninf => decide
  | nan => decide

/-- for the formats as extracted from today's `nml.py`: if both carry the repair, the full statement holds of them -/
theorem c02_double_lexical_today
    (h : (NmlVerif.Gen.Validators.floatSpecials && NmlVerif.Gen.Validators.doubleSpecials) = true) :
    C02_double_lexical_full NmlVerif.Gen.Validators.floatSpecials
    ∧ C02_double_lexical_full NmlVerif.Gen.Validators.doubleSpecials := by
  simp only [Bool.and_eq_true] at h
  rw [h.1, h.2]
  exact ⟨c02_double_lexical_fixed, c02_double_lexical_fixed⟩

/-- the parsers read through `float()` (extracted shape; needed by the round trip) -/
theorem parse_through_float : NmlVerif.Gen.Validators.parseThroughFloat = true := by decide

/-- finite values, either way: the text is what the format produced (trusted of CPython's `%`, sampled) -/
theorem c02_double_lexical_partial (b : Bool) (r : List Char) (hr : accepts doubleLexRx r = true) :
    accepts doubleLexRx (gdsFormatFloating b (.finite r)) = true := hr

example : accepts doubleLexRx ['1', 'e', '+', '3', '0', '0'] = true ∧ accepts doubleLexRx ['-', '0', '.', '5'] = true
    ∧ accepts doubleLexRx ['I', 'N', 'F'] = true ∧ accepts doubleLexRx ['n', 'a', 'n'] = false := by decide +kernel

end NmlVerif.Facets
