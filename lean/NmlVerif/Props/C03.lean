import NmlVerif.Model.Schema
import NmlVerif.Gen.Xsd
import NmlVerif.Gen.Bindings
import NmlVerif.Gen.Names
/-!
# C03 — a schema violation anywhere in a tree makes `validate(recursive=True)` fail

Model: `NmlVerif.Schema.validateAll` (the repaired walk of `generatedssupersuper.validate`) over the binding table
regenerated from `nml.py`; the schema enters through `schemaItems` computed from the table regenerated from the
bundled XSD; `tables_agree` is the per-run kernel-checked obligation tying the two.
-/
namespace NmlVerif.Schema
open NmlVerif.Binding

/-- if the repaired walk accepts a tree, every descendant passes every check of every class in its MRO -/
theorem c03_complete (T : Table) (st : Nat → String → Bool) :
    ∀ (f : Nat) (o : Obj), validateAll T st f o = true → ∀ d, Desc o d → nodeOK T st d = true := by
  intro f
  induction f with
  | zero => intro o h; simp [validateAll] at h
  | succ f ih =>
    intro o h d hd
    simp only [validateAll, Bool.and_eq_true, List.all_eq_true] at h
    cases hd with
    | refl => exact h.1
    | step hc hcd => exact ih _ (h.2 _ hc) d hcd

/-- **C03 (items)**: a failing check of ANY class in the MRO of ANY descendant — own or inherited member, any
    depth — makes the repaired `validate(recursive=True)` fail, whatever the fuel. -/
theorem c03_any_depth_any_class (T : Table) (st : Nat → String → Bool) (f : Nat) (o d : Obj) (hd : Desc o d)
    (k : ClassIR) (hk : k ∈ chain T T.length d.cls) (it : VItem) (hit : it ∈ k.validate)
    (hbad : itemOK st d it = false) : validateAll T st f o = false := by
  cases hv : validateAll T st f o with
  | false => rfl
  | true =>
    have := c03_complete T st f o hv d hd
    simp only [nodeOK, List.all_eq_true] at this
    have := this k hk it hit
    rw [hbad] at this
    cases this

theorem mem_of_contains {α : Type} [BEq α] [LawfulBEq α] {l : List α} {a : α} (h : l.contains a = true) : a ∈ l := by
  simpa using h

/-- **C03 (schema)**: if the two tables agree, a violation of a constraint the SCHEMA puts on a member (required
    attribute missing, value outside its simple type, too few / too many children) at any descendant and for any
    class of its MRO makes `validate(recursive=True)` fail. -/
theorem c03_schema (T : Table) (X : Xsd) (hA : agree T X = true) (st : Nat → String → Bool) (f : Nat) (o d : Obj)
    (hd : Desc o d) (k : ClassIR) (hk : k ∈ chain T T.length d.cls) (hkT : k ∈ T)
    (x : XType) (hx : findType X k.name = some x) (it : VItem) (hit : it ∈ schemaItems k x)
    (hbad : itemOK st d it = false) : validateAll T st f o = false := by
  simp only [agree, Bool.and_eq_true, List.all_eq_true] at hA
  have h1 := hA.2 k hkT
  rw [hx] at h1
  simp only [classAgrees, Bool.and_eq_true, List.all_eq_true] at h1
  have hin : k.validate.contains it = true := h1.1.2 it hit
  exact c03_any_depth_any_class T st f o d hd k hk it (mem_of_contains hin) hbad

/-- conversely (used by C02): when every check passes at every descendant and the fuel exceeds the depth, the
    repaired walk accepts -/
theorem validateAll_of_nodes (T : Table) (st : Nat → String → Bool) :
    ∀ (f : Nat) (o : Obj), depth f o = true → (∀ d, Desc o d → nodeOK T st d = true) → validateAll T st f o = true := by
  intro f
  induction f with
  | zero => intro o h; simp [depth] at h
  | succ f ih =>
    intro o hdep hall
    simp only [depth, List.all_eq_true] at hdep
    simp only [validateAll, Bool.and_eq_true, List.all_eq_true]
    exact ⟨hall o (Desc.refl o), fun c hc => ih c (hdep c hc) (fun d hd => hall d (Desc.step hc hd))⟩

/-! ### per-run obligations on the regenerated tables -/

/-- today's `nml.py` and today's bundled XSD agree class by class: same base, same attribute/element names in
    particle order, list-ness = maxOccurs, child class = element type, and `validate_` checks exactly the items the
    schema prescribes -/
theorem tables_agree : agree NmlVerif.Gen.Bindings.table NmlVerif.Gen.Xsd.types = true := by decide +kernel

/-- every `validate_<SimpleType>` copy in `nml.py` carries the schema's patterns / enumerations / bounds -/
theorem facets_agree : facetsAgree NmlVerif.Gen.Xsd.schemaFacets NmlVerif.Gen.Xsd.bindingFacets = true := by decide +kernel

/-- C03 for today's bindings and schema -/
theorem c03_today (st : Nat → String → Bool) (f : Nat) (o d : Obj) (hd : Desc o d) (k : ClassIR)
    (hk : k ∈ chain NmlVerif.Gen.Bindings.table NmlVerif.Gen.Bindings.table.length d.cls)
    (hkT : k ∈ NmlVerif.Gen.Bindings.table) (x : XType) (hx : findType NmlVerif.Gen.Xsd.types k.name = some x)
    (it : VItem) (hit : it ∈ schemaItems k x) (hbad : itemOK st d it = false) :
    validateAll NmlVerif.Gen.Bindings.table st f o = false :=
  c03_schema _ _ tables_agree st f o d hd k hk hkT x hx it hit hbad

end NmlVerif.Schema

/-! ### witnesses on today's tables -/
namespace NmlVerif.Schema
open NmlVerif.Binding NmlVerif.Gen.Names NmlVerif.Gen.Bindings

/-- a morphology whose only segment has a distal point but NO id (`id` is inherited from BaseNonNegativeIntegerId) -/
def wPoint : Obj := .mk nm_Point3DWithDiam [(nm_x, some "0.0"), (nm_y, some "0.0"), (nm_z, some "0.0"), (nm_diameter, some "1.0")] none []
def wSegment : Obj := .mk nm_Segment [(nm_id, none), (nm_name, none), (nm_neuro_lex_id, none)] none
  [(nm_parent, []), (nm_proximal, []), (nm_distal, [wPoint])]
def wMorphology : Obj := .mk nm_Morphology [(nm_id, some "m"), (nm_metaid, none), (nm_neuro_lex_id, none)] none
  [(nm_notes, []), (nm_properties, []), (nm_annotation, []), (nm_segments, [wSegment]), (nm_segment_groups, [])]

def stTrue : Nat → String → Bool := fun _ _ => true

/-- the defect repaired by the `fix:` commit: the walk as it was accepted the id-less segment (its own class,
    `Segment`, declares no `id`), the repaired walk rejects it -/
theorem c03_old_walk_witness :
    validateOld table stTrue 5 wMorphology = true ∧ validateAll table stTrue 5 wMorphology = false := by
  decide +kernel

/-- hypotheses of `c03_schema` are satisfiable: the same tree, the inherited `id` item of the segment -/
example : Desc wMorphology wSegment :=
  Desc.step (by rw [show objKids wMorphology = [wSegment] from rfl]; exact List.mem_singleton.mpr rfl) (Desc.refl _)

/-- KNOWN FINDING `C03:choice-required`: the generated `validate_` has no item for "at least one branch of a
    required choice group": an empty `<layout/>` passes every check although the schema demands one of
    random / grid / unstructured.  `C03_full` (every schema constraint, required choices included) is therefore
    false of today's bindings; `c03_schema` is the part that holds. -/
def wLayout : Obj := .mk nm_Layout [(nm_spaces, none)] none [(nm_random, []), (nm_grid, []), (nm_unstructured, [])]

def C03_full : Prop :=
  ∀ (st : Nat → String → Bool) (f : Nat) (o d : Obj), Desc o d →
    ∀ k ∈ chain table table.length d.cls, ∀ x, findType NmlVerif.Gen.Xsd.types k.name = some x →
      requiredChoiceOK k x d = false → validateAll table st f o = false

def choiceGapB : Bool :=
  (chain table table.length wLayout.cls).any fun k =>
    match findType NmlVerif.Gen.Xsd.types k.name with
    | some x => !(requiredChoiceOK k x wLayout)
    | none => false

theorem c03_choice_required_witness : ¬ C03_full := by
  intro h
  have key : validateAll table stTrue 3 wLayout = true := by decide +kernel
  have gap : choiceGapB = true := by decide +kernel
  simp only [choiceGapB, List.any_eq_true] at gap
  obtain ⟨k, hk, hg⟩ := gap
  cases hx : findType NmlVerif.Gen.Xsd.types k.name with
  | none => simp [hx] at hg
  | some x =>
    simp only [hx, Bool.not_eq_true'] at hg
    have := h stTrue 3 wLayout wLayout (Desc.refl _) k hk x hx hg
    rw [key] at this
    cases this

end NmlVerif.Schema
