import NmlVerif.Proofs.Facets
import NmlVerif.Gen.Validators
import NmlVerif.Gen.Names
import NmlVerif.Model.Binding
/-!
# C02 / C03 — the facet checks themselves: `validate_<SimpleType>` versus the XSD value space

Everything here is about the tables `Gen/Validators.lean` regenerates from `nml.py` (every `validate_<T>` method,
every `validate_<T>_patterns_` table, the body of `gds_validate_simple_patterns`) and from the bundled XSD (every
`xs:simpleType`) on every run.

* generic (any tables, any engine meeting `EngineSpec`):
  `validator_sound`    — accepted by the generated validator ⇒ in the XSD value space   (the C03 direction),
  `validator_complete` — in the XSD value space ⇒ accepted by the generated validator   (the C02 direction),
  each under the exclusions that are genuinely needed (witnesses below);
* per run, kernel-checked: `validators_agree` (every validator against its schema type, both directions),
  `py_types_functional` (all copies of one validator are identical), `pattern_check_shape` (the full-length test is
  still there), `nl_free_types` (which schema types admit no value ending in a line feed);
* findings with `_full / _partial / _witness`: Python's `\s` is wider than the schema's (`C03:pattern-unicode-space`);
  the builtin integer ranges are not checked (`C03:builtin-int-range`).
-/
namespace NmlVerif.Facets
open NmlVerif.Rx

/-! ### generic theorems -/

theorem mem_map_eq {α β : Type} {f : α → β} {l : List α} {m : List β} (h : l.map f = m) {b : β} (hb : b ∈ m) :
    ∃ a ∈ l, f a = b := by
  subst h
  simpa using hb

/-- **C03 direction.**  If the generated validator of a type that agrees with its schema type accepts a value, the
    value is in the XSD value space — provided the value has no Python-only space characters and, for the builtin
    integer bases, is inside the builtin's own range (the two exclusions are the two findings; see the witnesses). -/
theorem validator_sound (E : Engine) (hE : EngineSpec E) (pc : PatCheck) (hpc : pc.test = .fullLen)
    (py : PyType) (x : XsdType) (hA : typeAgrees py x = true) (v : PyVal)
    (hplain : ∀ s, v = .str s → plainFor pc.ascii s = true) (hrange : x.base.rangeOK v = true)
    (hrun : runValidator E pc py v = true) : xsdValid x v = true := by
  simp only [typeAgrees, Bool.and_eq_true, decide_eq_true_eq] at hA
  obtain ⟨⟨⟨⟨_, hbase⟩, hP⟩, hEn⟩, hB⟩ := hA
  simp only [runValidator, Bool.and_eq_true, decide_eq_true_eq] at hrun
  obtain ⟨hvb, hsteps⟩ := hrun
  simp only [xsdValid, Bool.and_eq_true, decide_eq_true_eq]
  refine ⟨⟨⟨⟨by rw [hvb, hbase], hrange⟩, ?_⟩, ?_⟩, ?_⟩
  · -- patterns
    cases v with
    | int i => rfl
    | float q => rfl
    | str s =>
      simp only
      unfold patsAgree at hP
      split at hP
      · rw [hP]; rfl
      · rename_i g hg
        simp only [Bool.and_eq_true, decide_eq_true_eq, List.all_eq_true] at hP
        have hmem : [g] ∈ stepPatterns py.steps := by rw [hg]; simp
        have hok := steps_patterns hsteps [g] hmem
        simp only [stepOK] at hok
        obtain ⟨p, hp, hm⟩ := patAccept_sound hE hpc hok g (by simp)
        have hx : Matches (xsdOf p.body) s := pyBody_to_xsd pc.ascii hm (hplain s rfl)
        have hin : xsdOf p.body ∈ x.patterns := by
          have := hP.1.2
          simp only [beq_iff_eq] at this
          rw [← this]
          exact List.mem_map.mpr ⟨p, hp, rfl⟩
        simp only [Bool.or_eq_true, List.any_eq_true]
        exact Or.inr ⟨_, hin, (accepts_iff _ _).mpr hx⟩
      · cases hP
  · -- enumerations
    unfold enumsAgree at hEn
    split at hEn
    · rw [hEn]; rfl
    · rename_i e he
      simp only [Bool.and_eq_true, decide_eq_true_eq] at hEn
      have hmem : e ∈ stepEnums py.steps := by rw [he]; simp
      have hok := steps_enums hsteps e hmem
      simp only [stepOK, pyIn] at hok
      simp only [Bool.or_eq_true, pyIn]
      right
      rw [← hEn.2]; exact hok
    · cases hEn
  · -- bounds
    cases hq : v.rat? with
    | none => rfl
    | some q =>
      simp only [List.all_eq_true]
      intro b hb
      have hmem : (cmpOf b.1, b.2) ∈ stepBounds py.steps := by
        simp only [boundsAgree, beq_iff_eq] at hB
        rw [hB]
        exact List.mem_map.mpr ⟨b, hb, rfl⟩
      have hok := steps_bounds hsteps _ hmem
      simp only [stepOK, hq, holds_cmpOf, Bool.not_not] at hok
      exact hok

/-- **C02 direction.**  A value of the XSD value space is accepted by the generated validator — provided, for
    strings, that the engine's priority order cannot matter: the value does not end in a line feed, or the type
    admits no value ending in a line feed (`nlFree`, true of every schema type but `Nml2Quantity`). -/
theorem validator_complete (E : Engine) (hE : EngineSpec E) (pc : PatCheck)
    (py : PyType) (x : XsdType) (hA : typeAgrees py x = true) (v : PyVal)
    (hnl : ∀ s, v = .str s → (∀ t, s ≠ t ++ ['\n']) ∨ nlFree x = true)
    (hx : xsdValid x v = true) : runValidator E pc py v = true := by
  simp only [typeAgrees, Bool.and_eq_true, decide_eq_true_eq] at hA
  obtain ⟨⟨⟨⟨_, hbase⟩, hP⟩, hEn⟩, hB⟩ := hA
  simp only [xsdValid, Bool.and_eq_true, decide_eq_true_eq] at hx
  obtain ⟨⟨⟨⟨hvb, _⟩, hxp⟩, hxe⟩, hxb⟩ := hx
  simp only [runValidator, Bool.and_eq_true, decide_eq_true_eq]
  refine ⟨by rw [hvb, hbase], ?_⟩
  apply steps_all_of
  · intro groups hgr
    unfold patsAgree at hP
    split at hP
    · rename_i h0; rw [h0] at hgr; cases hgr
    · rename_i g hg
      rw [hg] at hgr
      simp only [List.mem_singleton] at hgr
      subst hgr
      simp only [Bool.and_eq_true, decide_eq_true_eq, List.all_eq_true, beq_iff_eq] at hP
      cases v with
      | int i => rfl
      | float q => rfl
      | str s =>
        simp only [stepOK]
        apply patAccept_complete hE
        intro g' hg'
        simp only [List.mem_singleton] at hg'
        subst hg'
        have hne : x.patterns ≠ [] := by
          intro h0
          have := hP.1.2
          rw [h0] at this
          have hg0 : g' = [] := by simpa using this
          rw [hg0] at hP
          simp at hP
        simp only at hxp
        have hany : (x.patterns.any fun r => accepts r s) = true := by
          rcases Bool.or_eq_true _ _ |>.mp hxp with h | h
          · simp only [List.isEmpty_iff] at h; exact absurd h hne
          · exact h
        obtain ⟨r, hr, hacc⟩ := List.any_eq_true.mp hany
        obtain ⟨p, hp, hpr⟩ := mem_map_eq hP.1.2 hr
        have hmr : Matches r s := (accepts_iff _ _).mp hacc
        refine ⟨p, hp, xsd_to_pyBody pc.ascii (hpr ▸ hmr), ?_⟩
        intro t hs hmt
        rcases hnl s rfl with h | h
        · exact h t hs
        · simp only [nlFree, List.all_eq_true, Bool.not_eq_true'] at h
          have h1 := h r hr
          have h2 : lastCan '\n' r = true := lastCan_sound hmr t '\n' hs
          rw [h1] at h2; cases h2
    · cases hP
  · intro e he
    unfold enumsAgree at hEn
    split at hEn
    · rename_i h0; rw [h0] at he; cases he
    · rename_i e' he'
      rw [he'] at he
      simp only [List.mem_singleton] at he
      subst he
      simp only [Bool.and_eq_true, decide_eq_true_eq, Bool.not_eq_true', List.isEmpty_eq_false_iff] at hEn
      simp only [stepOK, pyIn]
      rw [hEn.2]
      rcases Bool.or_eq_true _ _ |>.mp hxe with h | h
      · simp only [List.isEmpty_iff] at h
        have : e.map PyVal.key = [] := by rw [hEn.2, h]; rfl
        have : e = [] := by simpa using this
        exact absurd this hEn.1
      · exact h
    · cases hEn
  · intro b hb
    simp only [boundsAgree, beq_iff_eq] at hB
    rw [hB] at hb
    obtain ⟨b', hb', rfl⟩ := List.mem_map.mp hb
    simp only [stepOK]
    cases hq : v.rat? with
    | none => rfl
    | some q =>
      simp only [hq, List.all_eq_true] at hxb
      simp only [holds_cmpOf, Bool.not_not]
      exact hxb b' hb'

/-- the full-length test of `gds_validate_simple_patterns` is load-bearing: drop it and, whatever the engine and with
    or without `re.ASCII`, a matching value followed by ONE line feed is accepted although it is outside the pattern's
    language whenever the pattern admits no trailing line feed (Python's `$`) -/
theorem length_test_needed (E : Engine) (hE : EngineSpec E) (fn : ReFn) (hfn : fn ≠ .fullmatch) (a : Bool) (p : PyPat)
    (hl : lastCan '\n' (pyBody a p.body) = false) (t : List Char) (hm : Matches (pyBody a p.body) t) :
    patAccept E ⟨fn, true, .noTest, a⟩ [[p]] (t ++ ['\n']) = true ∧ ¬ Matches (pyBody a p.body) (t ++ ['\n']) := by
  constructor
  · simp only [patAccept, List.all_cons, List.any_cons, List.all_nil, List.any_nil, Bool.or_false, Bool.and_true]
    exact patOK_noTest_trailing_nl hE fn hfn a p t hm
  · intro h
    have := lastCan_sound h t '\n' rfl
    rw [hl] at this; cases this

/-- `EngineSpec` is satisfiable -/
example : EngineSpec refEngine := refEngine_spec

end NmlVerif.Facets

/-! ### per-run obligations on the regenerated tables -/
namespace NmlVerif.Facets
open NmlVerif.Rx NmlVerif.Gen.Validators NmlVerif.Gen.Names

/-- every `validate_<SimpleType>` of today's `nml.py` checks exactly the facets of the schema's simple type of that
    name (patterns up to the reading of `\s`, all anchored `^(…)$`; enumerations; bounds with the right comparison),
    and every schema simple type has a validator -/
theorem validators_agree : allAgree pyTypes xsdTypes = true := by decide +kernel

/-- the copies of one validator (one per class that uses the type) are all identical -/
theorem py_types_functional : NmlVerif.Binding.nodupNat (pyTypes.map (·.name)) = true := by decide +kernel

/-- the call shape before the repair of `C03:pattern-unicode-space` … -/
def oldShape : PatCheck := ⟨.search, true, .fullLen, false⟩
/-- … and after it: `re_.search(p, target, re_.ASCII)` -/
def fixedShape : PatCheck := ⟨.search, true, .fullLen, true⟩

/-- `gds_validate_simple_patterns` still is `all(any(m is not None and len(m.group(0)) == len(target)))` over
    `re.search(p, str(target))`, with or without `re.ASCII` (the translator reports which; the theorems below are about
    the extracted one) -/
theorem pattern_check_shape : patCheck = oldShape ∨ patCheck = fixedShape := by decide

theorem patCheck_fullLen : patCheck.test = .fullLen := by decide

/-- the schema types one of whose patterns admits a value ending in a line feed: only the unit-less `Nml2Quantity` -/
theorem nl_free_types : (xsdTypes.filter (fun x => !(nlFree x))).map (·.name) = [nm_Nml2Quantity] := by decide +kernel

/-- today's validator / schema type of a given name -/
theorem today_agree (n : Nat) (py : PyType) (x : XsdType) (hp : findPy pyTypes n = some py)
    (hx : findXsdT xsdTypes n = some x) : typeAgrees py x = true := by
  have h := validators_agree
  simp only [allAgree, Bool.and_eq_true, List.all_eq_true] at h
  have hm : py ∈ pyTypes := List.mem_of_find?_eq_some hp
  have hn : py.name = n := by
    have := List.find?_some hp
    simpa using this
  have := h.1 py hm
  rw [hn, hx] at this
  exact this

/-- **C03, today's tables.**  A value handed to today's `validate_<T>` that is outside the XSD value space of `T`
    is rejected — for every simple type of the schema, for every engine meeting the specification — unless it holds
    a space character of Python's reading (for the extracted call shape: `plainFor patCheck.ascii`) that is not an
    XSD space, or lies outside a builtin integer range. -/
theorem c03_facet_today (E : Engine) (hE : EngineSpec E) (n : Nat) (py : PyType) (x : XsdType)
    (hp : findPy pyTypes n = some py) (hx : findXsdT xsdTypes n = some x) (v : PyVal)
    (hplain : ∀ s, v = .str s → plainFor patCheck.ascii s = true) (hrange : x.base.rangeOK v = true)
    (hbad : xsdValid x v = false) : runValidator E patCheck py v = false := by
  cases hr : runValidator E patCheck py v with
  | false => rfl
  | true =>
    have := validator_sound E hE patCheck patCheck_fullLen py x (today_agree n py x hp hx) v hplain hrange hr
    rw [hbad] at this; cases this

/-- **C02, today's tables.**  A value of the XSD value space of `T` is accepted by today's `validate_<T>` — for every
    simple type but `Nml2Quantity` outright, for `Nml2Quantity` when the value does not end in a line feed. -/
theorem c02_facet_today (E : Engine) (hE : EngineSpec E) (n : Nat) (py : PyType) (x : XsdType)
    (hp : findPy pyTypes n = some py) (hx : findXsdT xsdTypes n = some x) (v : PyVal)
    (hnl : n = nm_Nml2Quantity → ∀ s, v = .str s → ∀ t, s ≠ t ++ ['\n'])
    (hok : xsdValid x v = true) : runValidator E patCheck py v = true := by
  apply validator_complete E hE patCheck py x (today_agree n py x hp hx) v _ hok
  intro s hs
  by_cases hn : n = nm_Nml2Quantity
  · exact Or.inl (hnl hn s hs)
  · right
    have hxm : x ∈ xsdTypes := List.mem_of_find?_eq_some hx
    have hxn : x.name = n := by
      have := List.find?_some hx
      simpa using this
    have h := nl_free_types
    cases hf : nlFree x with
    | true => rfl
    | false =>
      have : x.name ∈ (xsdTypes.filter (fun x => !(nlFree x))).map (·.name) :=
        List.mem_map.mpr ⟨x, List.mem_filter.mpr ⟨hxm, by simp [hf]⟩, rfl⟩
      rw [h, hxn] at this
      simp only [List.mem_singleton] at this
      exact absurd this hn

/-! ### findings -/

/-- `"1 mV"`: a no-break space between number and unit -/
def wNbsp : List Char := ['1', Char.ofNat 160, 'm', 'V']
/-- `"1\x0bmV"`: a vertical tab between number and unit (not an XML character) -/
def wVtab : List Char := ['1', Char.ofNat 11, 'm', 'V']

/-- the statement without the exclusion of Python-only spaces, for a given call shape -/
def C03_pattern_full (pc : PatCheck) : Prop :=
  ∀ (n : Nat) (py : PyType) (x : XsdType), findPy pyTypes n = some py → findXsdT xsdTypes n = some x →
    ∀ s : List Char, xsdValid x (.str s) = false → runValidator refEngine pc py (.str s) = false

/-- one value against `Nml2Quantity_voltage`: accepted by the validator under shape `pc`, outside the schema's type -/
def voltageGap (pc : PatCheck) (w : List Char) : Bool :=
  match findPy pyTypes nm_Nml2Quantity_voltage, findXsdT xsdTypes nm_Nml2Quantity_voltage with
  | some py, some x => runValidator refEngine pc py (.str w) && !(xsdValid x (.str w))
  | _, _ => false

theorem not_full_of_gap (pc : PatCheck) (w : List Char) (hb : voltageGap pc w = true) : ¬ C03_pattern_full pc := by
  intro h
  unfold voltageGap at hb
  cases hpy : findPy pyTypes nm_Nml2Quantity_voltage with
  | none => simp [hpy] at hb
  | some py =>
    cases hxx : findXsdT xsdTypes nm_Nml2Quantity_voltage with
    | none => simp [hpy, hxx] at hb
    | some x =>
      simp only [hpy, hxx, Bool.and_eq_true, Bool.not_eq_true'] at hb
      have := h _ py x hpy hxx w hb.2
      rw [hb.1] at this; cases this

/-- FIXED FINDING `C03:pattern-unicode-space` (the call shape BEFORE the repair): Python's `\s` (on `str`, no
    `re.ASCII`) matches U+00A0, U+0085, U+2003 …, the schema's `\s` only space, tab, line feed, carriage return: `1 mV`
    was accepted by `validate_Nml2Quantity_voltage` and is outside the schema's pattern. -/
theorem c03_unicode_space_witness : ¬ C03_pattern_full oldShape :=
  not_full_of_gap oldShape wNbsp (by decide +kernel)

/-- with `re.ASCII` the same value is rejected (the regression case of the repair) -/
theorem c03_ascii_rejects_nbsp : voltageGap fixedShape wNbsp = false := by decide +kernel

/-- KNOWN FINDING `C03:pattern-ascii-vt-ff` (what remains after the repair, and was part of the old finding): under
    `re.ASCII` `\s` is `[ \t\n\r\f\v]`; `\v` and `\f` are not XSD spaces.  They are not XML characters either, so no
    document can carry them; an in-memory tree can: `1\x0bmV` passes the validator. -/
theorem c03_ascii_residual_witness : ¬ C03_pattern_full fixedShape :=
  not_full_of_gap fixedShape wVtab (by decide +kernel)

/-- the part that holds, for the extracted shape (`c03_facet_today` restricted to strings) -/
theorem c03_pattern_partial (E : Engine) (hE : EngineSpec E) (n : Nat) (py : PyType) (x : XsdType)
    (hp : findPy pyTypes n = some py) (hx : findXsdT xsdTypes n = some x) (s : List Char)
    (hplain : plainFor patCheck.ascii s = true) (hbad : xsdValid x (.str s) = false) :
    runValidator E patCheck py (.str s) = false :=
  c03_facet_today E hE n py x hp hx (.str s) (fun s' h => by cases h; exact hplain)
    (by cases x.base <;> rfl) hbad

/-- what `plainFor true` excludes is exactly `\v` and `\f` -/
theorem plainFor_ascii_iff (s : List Char) :
    plainFor true s = true ↔ ∀ c ∈ s, c.toNat ≠ 11 ∧ c.toNat ≠ 12 := by
  simp only [plainFor, pySpace, if_true, List.all_eq_true]
  constructor
  · intro h c hc
    have := h c hc
    simp only [asciiSpace, xsdSpace, Bool.or_eq_true, Bool.not_eq_true', Bool.and_eq_true, decide_eq_true_eq,
      beq_iff_eq, Bool.or_eq_false_iff, Bool.and_eq_false_iff, decide_eq_false_iff_not, beq_eq_false_iff_ne] at this
    omega
  · intro h c hc
    have := h c hc
    simp only [asciiSpace, xsdSpace, Bool.or_eq_true, Bool.not_eq_true', Bool.and_eq_true, decide_eq_true_eq,
      beq_iff_eq, Bool.or_eq_false_iff, Bool.and_eq_false_iff, decide_eq_false_iff_not, beq_eq_false_iff_ne]
    omega

/-- the hypotheses of `c03_pattern_partial` are satisfiable under either shape: `"1mV\n"` against `Nml2Quantity_voltage` -/
example : (match findPy pyTypes nm_Nml2Quantity_voltage, findXsdT xsdTypes nm_Nml2Quantity_voltage with
    | some _, some x => plainFor true ['1', 'm', 'V', '\n'] && plainFor false ['1', 'm', 'V', '\n']
        && !(xsdValid x (.str ['1', 'm', 'V', '\n']))
    | _, _ => false) = true := by decide +kernel

/-- the statement without the exclusion of the builtin integer ranges -/
def C03_int_range_full : Prop :=
  ∀ (n : Nat) (py : PyType) (x : XsdType), findPy pyTypes n = some py → findXsdT xsdTypes n = some x →
    ∀ i : Int, xsdValid x (.int i) = false → runValidator refEngine patCheck py (.int i) = false

/-- KNOWN FINDING `C03:builtin-int-range`: `validate_NonNegativeInteger` / `validate_PositiveInteger` only test
    `isinstance(value, int)`; `-1` passes although `xs:nonNegativeInteger` excludes it (the range is only enforced
    when an attribute is READ, in `_buildAttributes`). -/
theorem c03_int_range_witness : ¬ C03_int_range_full := by
  intro h
  have hb : (match findPy pyTypes nm_NonNegativeInteger, findXsdT xsdTypes nm_NonNegativeInteger with
      | some py, some x => runValidator refEngine patCheck py (.int (-1)) && !(xsdValid x (.int (-1)))
      | _, _ => false) = true := by decide +kernel
  cases hpy : findPy pyTypes nm_NonNegativeInteger with
  | none => simp [hpy] at hb
  | some py =>
    cases hxx : findXsdT xsdTypes nm_NonNegativeInteger with
    | none => simp [hpy, hxx] at hb
    | some x =>
      simp only [hpy, hxx, Bool.and_eq_true, Bool.not_eq_true'] at hb
      have := h _ py x hpy hxx (-1) hb.2
      rw [hb.1] at this; cases this

/-- the part that holds: integers inside the builtin range are judged alike -/
theorem c03_int_range_partial (E : Engine) (hE : EngineSpec E) (n : Nat) (py : PyType) (x : XsdType)
    (hp : findPy pyTypes n = some py) (hx : findXsdT xsdTypes n = some x) (i : Int)
    (hrange : x.base.rangeOK (.int i) = true) (hbad : xsdValid x (.int i) = false) :
    runValidator E patCheck py (.int i) = false :=
  c03_facet_today E hE n py x hp hx (.int i) (fun s h => by cases h) hrange hbad

/-- the single pattern of a validator's pattern step -/
def firstPat (py : PyType) : Option PyPat :=
  match stepPatterns py.steps with
  | [[p :: _]] => some p
  | _ => none

/-- the seeded change C03-1 on today's `NmlId`: without the length test `"a\n"` is accepted by every engine although
    it is outside the pattern's language -/
theorem c03_length_test_needed_today (E : Engine) (hE : EngineSpec E) :
    ∃ p : PyPat, (findPy pyTypes nm_NmlId).bind firstPat = some p
      ∧ patAccept E ⟨.search, true, .noTest, patCheck.ascii⟩ [[p]] ['a', '\n'] = true
      ∧ ¬ Matches (pyBody patCheck.ascii p.body) ['a', '\n'] := by
  have hp : (match (findPy pyTypes nm_NmlId).bind firstPat with
      | some p => !(lastCan '\n' (pyBody patCheck.ascii p.body)) && accepts (pyBody patCheck.ascii p.body) ['a']
      | none => false) = true := by decide +kernel
  cases hq : (findPy pyTypes nm_NmlId).bind firstPat with
  | none => rw [hq] at hp; cases hp
  | some p =>
    rw [hq] at hp
    simp only [Bool.and_eq_true, Bool.not_eq_true'] at hp
    have := length_test_needed E hE .search (by decide) patCheck.ascii p hp.1 ['a'] ((accepts_iff _ _).mp hp.2)
    exact ⟨p, rfl, this.1, this.2⟩

end NmlVerif.Facets
