import NmlVerif.Props.C03
/-!
# C03, second clause — `is_valid_neuroml2` / `validate_neuroml2` (neuroml/utils.py)

Both wrappers are "load the file, then `validate(recursive=True)` on the document": `is_valid_neuroml2` turns the
`ValueError` into `False`, `validate_neuroml2` lets it propagate; a failure of the LOAD propagates from both (the file
is then reported by an exception, never as valid).  Model: loading = `buildObj` on the parsed element tree (`none` =
the loader raised), the verdict = the walk on the tree that loading built.

`c03_file_never_valid`: whatever the file, if the tree it loads to has — at any depth, for any class of the MRO — a
failing check, `is_valid_neuroml2` does not return `True` and `validate_neuroml2` does not return normally.
-/
namespace NmlVerif.Schema
open NmlVerif.Binding

/-- outcome of a wrapper -/
inductive FileVerdict where
  | valid            -- `True` / returned normally
  | invalid          -- `False` / `ValueError`
  | loadRaised       -- the loader raised: propagated by both wrappers
deriving DecidableEq, Repr

/-- `is_valid_neuroml2(file)` and `validate_neuroml2(file)` (same outcome classes; they differ only in how `invalid`
    is delivered) -/
def fileVerdict (T : Table) (flat : Nat → Option FlatClass) (st : Nat → String → Bool) (fuel docCls : Nat)
    (file : XNode) : FileVerdict :=
  match buildObj flat fuel docCls file with
  | none => .loadRaised
  | some o => if validateAll T st fuel o then .valid else .invalid

/-- a file is reported valid only if loading succeeded and the walk accepted the loaded tree -/
theorem fileVerdict_valid_iff (T : Table) (flat : Nat → Option FlatClass) (st : Nat → String → Bool)
    (fuel docCls : Nat) (file : XNode) :
    fileVerdict T flat st fuel docCls file = .valid ↔
      ∃ o, buildObj flat fuel docCls file = some o ∧ validateAll T st fuel o = true := by
  unfold fileVerdict
  cases hb : buildObj flat fuel docCls file with
  | none => simp
  | some o =>
    by_cases hv : validateAll T st fuel o = true
    · simp [hv]
    · simp [hv]

/-- **C03 (files).**  If the tree a file loads to has, at ANY descendant and for ANY class of that descendant's MRO,
    a failing generated check, the wrappers never report the file valid (they report invalid; or, when the load
    itself fails, raise). -/
theorem c03_file_never_valid (T : Table) (flat : Nat → Option FlatClass) (st : Nat → String → Bool)
    (fuel docCls : Nat) (file : XNode)
    (hviol : ∀ o, buildObj flat fuel docCls file = some o →
      ∃ d, Desc o d ∧ ∃ k ∈ chain T T.length d.cls, ∃ it ∈ k.validate, itemOK st d it = false) :
    fileVerdict T flat st fuel docCls file ≠ .valid := by
  intro h
  obtain ⟨o, hb, hv⟩ := (fileVerdict_valid_iff T flat st fuel docCls file).mp h
  obtain ⟨d, hd, k, hk, it, hit, hbad⟩ := hviol o hb
  have := c03_any_depth_any_class T st fuel o d hd k hk it hit hbad
  rw [hv] at this
  cases this

/-- with the schema in place of the generated checks (needs `agree T X`, today: `tables_agree`) -/
theorem c03_file_schema (T : Table) (X : Xsd) (hA : agree T X = true) (flat : Nat → Option FlatClass)
    (st : Nat → String → Bool) (fuel docCls : Nat) (file : XNode)
    (hviol : ∀ o, buildObj flat fuel docCls file = some o →
      ∃ d, Desc o d ∧ ∃ k ∈ chain T T.length d.cls, k ∈ T ∧ ∃ x, findType X k.name = some x ∧
        ∃ it ∈ schemaItems k x, itemOK st d it = false) :
    fileVerdict T flat st fuel docCls file ≠ .valid := by
  intro h
  obtain ⟨o, hb, hv⟩ := (fileVerdict_valid_iff T flat st fuel docCls file).mp h
  obtain ⟨d, hd, k, hk, hkT, x, hx, it, hit, hbad⟩ := hviol o hb
  have := c03_schema T X hA st fuel o d hd k hk hkT x hx it hit hbad
  rw [hv] at this
  cases this

/-- the three outcomes all occur (the classification is not vacuous): a one-class table whose class requires
    attribute 7 -/
def tinyT : Table := [⟨1, none, [], [], [], [], [], [], [], [], [], [.req 7 true], [], true, 0⟩]
def tinyFlat : Nat → Option FlatClass := fun c =>
  if c = 1 then some ⟨1, [⟨7, 7, .str, .notNone, none⟩], []⟩ else none

example : fileVerdict tinyT tinyFlat (fun _ _ => true) 3 1 (.mk 1 [(7, "x")] none []) = .valid := by decide +kernel
example : fileVerdict tinyT tinyFlat (fun _ _ => true) 3 1 (.mk 1 [] none []) = .invalid := by decide +kernel
example : fileVerdict tinyT tinyFlat (fun _ _ => true) 3 2 (.mk 1 [] none []) = .loadRaised := by decide +kernel

/-! ### KNOWN FINDING `C03:file-too-many-single-child`

The wrappers judge the tree that LOADING builds, and loading keeps only the LAST of several child elements of a
single-valued member (`self.morphology = obj_` in `_buildChildren`; `buildKid` models it): a file with two
`<morphology>` elements in one `<cell>` violates `maxOccurs = 1`, is rejected by every XSD validator, and is reported
valid by `is_valid_neuroml2` / `validate_neuroml2`.  "Too many children" is therefore only caught for list members
(where the loaded tree still shows the excess). -/

/-- class 1 holds ONE optional child (member 5, tag 6) of class 2 -/
def dupT : Table := [⟨1, none, [], [], [], [], [], [], [], [], [], [.card 5 0 1], [], true, 0⟩,
                     ⟨2, none, [], [], [], [], [], [], [], [], [], [], [], true, 0⟩]
def dupFlat : Nat → Option FlatClass := fun c =>
  if c = 1 then some ⟨1, [], [⟨5, 6, false, false, 2⟩]⟩ else if c = 2 then some ⟨2, [], []⟩ else none
/-- the schema's content model of class 1: element 6, at most once -/
def dupModel : List XElem := [⟨6, 2, 0, some 1, false, false, none⟩]
/-- `<c1><c6/><c6/></c1>` -/
def dupFile : XNode := .mk 1 [] none [.mk 6 [] none [], .mk 6 [] none []]

def childTags : XNode → List Nat
  | .mk _ _ _ ch => ch.map XNode.tag

/-- the full statement for files: a file whose child list the content model rejects is never reported valid -/
def C03_file_full (T : Table) (flat : Nat → Option FlatClass) (model : List XElem) (docCls : Nat) : Prop :=
  ∀ (st : Nat → String → Bool) (fuel : Nat) (file : XNode),
    matchSeq model (childTags file) = false → fileVerdict T flat st fuel docCls file ≠ .valid

theorem c03_file_too_many_witness : ¬ C03_file_full dupT dupFlat dupModel 1 := by
  intro h
  have h1 : matchSeq dupModel (childTags dupFile) = false := by decide +kernel
  have h2 : fileVerdict dupT dupFlat (fun _ _ => true) 3 1 dupFile = .valid := by decide +kernel
  exact h (fun _ _ => true) 3 dupFile h1 h2

/-- the part that holds is `c03_file_never_valid`: violations that are still visible in the loaded tree; e.g. the same
    class with a REQUIRED child and a file without it -/
example : fileVerdict [⟨1, none, [], [], [], [], [], [], [], [], [], [.card 5 1 1], [], true, 0⟩] dupFlat (fun _ _ => true) 3 1
    (.mk 1 [] none []) = .invalid := by decide +kernel

end NmlVerif.Schema
