import NmlVerif.Props.C03
import NmlVerif.Props.C03Facets
/-!
# C03 — facet violations, stated with the schema's own definition of "violates", at any depth

`Props/C03.lean` proves the walk complete for an ABSTRACT simple-type predicate `st`.  Here `st` is instantiated with
the model of today's generated validators (`Facets.stPy`: `validate_<T>` as regenerated from `nml.py`, run through
`gds_validate_simple_patterns` as regenerated, with any `re` engine meeting `EngineSpec`), and "violates" is
`Facets.xsdValid … = false` for the simple type the SCHEMA gives the attribute.
-/
namespace NmlVerif.Schema
open NmlVerif.Binding NmlVerif.Facets NmlVerif.Gen.Validators

theorem simple_mem_schemaItems (k : ClassIR) (x : XType) (a : XAttr) (ha : a ∈ x.attrs) (t m : Nat)
    (ht : a.stype = some t) (hm : attrMember k a.name = some m) : VItem.simple t m ∈ schemaItems k x := by
  unfold schemaItems
  apply List.mem_append_left
  apply List.mem_flatMap.mpr
  refine ⟨a, ha, ?_⟩
  simp [hm, ht]

/-- **C03 (facets, today's tables).**  At any descendant `d` of any tree, for any class `k` of `d`'s MRO (own or
    inherited attribute), if the string the object holds for an attribute is outside the value space of the simple
    type the schema gives that attribute — pattern or enumeration — then `validate(recursive=True)` on the root
    fails: for every `re` engine meeting the specification, any fuel, any depth.  Excluded: strings holding a
    space character of Python's reading that is not an XSD space (with the repaired call shape: `\v`, `\f` only). -/
theorem c03_facet_anywhere (E : Engine) (hE : EngineSpec E) (f : Nat) (o d : Obj) (hd : Desc o d) (k : ClassIR)
    (hk : k ∈ chain NmlVerif.Gen.Bindings.table NmlVerif.Gen.Bindings.table.length d.cls)
    (hkT : k ∈ NmlVerif.Gen.Bindings.table) (x : XType) (hx : findType NmlVerif.Gen.Xsd.types k.name = some x)
    (a : XAttr) (ha : a ∈ x.attrs) (t m : Nat) (ht : a.stype = some t) (hm : attrMember k a.name = some m)
    (s : String) (hs : attrVal d m = some s)
    (py : PyType) (xt : XsdType) (hp : findPy pyTypes t = some py) (hxt : findXsdT xsdTypes t = some xt)
    (hstr : py.base = .str) (hplain : plainFor patCheck.ascii s.toList = true) (hbad : xsdValid xt (.str s.toList) = false) :
    validateAll NmlVerif.Gen.Bindings.table (stPy E patCheck pyTypes) f o = false := by
  apply c03_today (stPy E patCheck pyTypes) f o d hd k hk hkT x hx (.simple t m)
    (simple_mem_schemaItems k x a ha t m ht hm)
  simp only [itemOK, hs, stPy, hp, hstr, if_true]
  exact c03_pattern_partial E hE t py xt hp hxt s.toList hplain hbad

/-! ### the theorem at work on today's tables (tests, not obligations) -/
open NmlVerif.Gen.Names NmlVerif.Gen.Bindings in
/-- a morphology holding one segment whose NAME is fine and whose morphology id is `idv` -/
def wMorphId (idv : String) : Obj := .mk nm_Morphology [(nm_id, some idv), (nm_metaid, none), (nm_neuro_lex_id, none)] none
  [(nm_notes, []), (nm_properties, []), (nm_annotation, []),
   (nm_segments, [.mk nm_Segment [(nm_id, some "0"), (nm_name, none), (nm_neuro_lex_id, some "GO:0043025")] none
      [(nm_parent, []), (nm_proximal, []), (nm_distal, [wPoint])]]), (nm_segment_groups, [])]

open NmlVerif.Gen.Names NmlVerif.Gen.Bindings in
/-- the segment sits one level below; its inherited `neuroLexId` carries a trailing line feed -/
def wSegLexLF : Obj := .mk nm_Morphology [(nm_id, some "m"), (nm_metaid, none), (nm_neuro_lex_id, none)] none
  [(nm_notes, []), (nm_properties, []), (nm_annotation, []),
   (nm_segments, [.mk nm_Segment [(nm_id, some "0"), (nm_name, none), (nm_neuro_lex_id, some "GO:0043025\n")] none
      [(nm_parent, []), (nm_proximal, []), (nm_distal, [wPoint])]]), (nm_segment_groups, [])]

/-- accepted when every value is in its value space; rejected for an id (inherited from `Base`) with ONE trailing line
    feed at the root and for an inherited attribute with one trailing line feed one level down — with the model of
    today's validators and the reference engine -/
example : validateAll NmlVerif.Gen.Bindings.table (stPy refEngine patCheck pyTypes) 5 (wMorphId "m") = true
    ∧ validateAll NmlVerif.Gen.Bindings.table (stPy refEngine patCheck pyTypes) 5 (wMorphId "m\n") = false
    ∧ validateAll NmlVerif.Gen.Bindings.table (stPy refEngine patCheck pyTypes) 5 wSegLexLF = false := by
  decide +kernel

end NmlVerif.Schema
