import NmlVerif.Props.C01
/-!
# C04 — loading depends only on XML content; load/write reaches a fixed point (tree level)

Presentation variants at the tree level: attribute order, character data / comments between the children of
element-only content (the tree carries it as the node's `text`), explicitly written defaults, attributes the class
does not know.  Numeric respellings live at the scalar-codec level (trusted, sampled by the correspondence check).
-/
namespace NmlVerif.Binding

theorem lookup_perm {α : Type} (k : Nat) : ∀ {l l' : List (Nat × α)}, l.Perm l' → (l.map (·.1)).Nodup →
    lookup k l = lookup k l' := by
  intro l l' h
  induction h with
  | nil => intro _; rfl
  | @cons x l1 l2 _ ih =>
    intro hn
    obtain ⟨k', v⟩ := x
    have hn2 : (k' :: l1.map (·.1)).Nodup := by simpa only [List.map_cons] using hn
    have hn' := (List.nodup_cons.mp hn2).2
    simp only [lookup]
    split
    · rfl
    · exact ih hn'
  | swap x y l =>
    intro hn
    obtain ⟨kx, vx⟩ := x
    obtain ⟨ky, vy⟩ := y
    have hne : ky ≠ kx := by
      have hn2 : (ky :: kx :: l.map (·.1)).Nodup := by simpa only [List.map_cons] using hn
      have := (List.nodup_cons.mp hn2).1
      intro e; apply this; simp [e]
    simp only [lookup]
    by_cases h1 : k = kx
    · subst h1
      have : ¬ k = ky := fun e => hne e.symm
      simp [this]
    · simp [h1]
  | trans h1 _ ih1 ih2 =>
    intro hn
    have hn2 := (h1.map (·.1)).nodup_iff.mp hn
    exact (ih1 hn).trans (ih2 hn2)

/-- **attribute order is irrelevant** (attributes are read by name) -/
theorem c04_attr_order (flat : Nat → Option FlatClass) (fuel c tag : Nat) (xa xa' : List (Nat × String))
    (tx : Option String) (ch : List XNode) (hp : xa.Perm xa') (hn : (xa.map (·.1)).Nodup) :
    buildObj flat fuel c (.mk tag xa tx ch) = buildObj flat fuel c (.mk tag xa' tx ch) := by
  cases fuel with
  | zero => rfl
  | succ f =>
    simp only [buildObj]
    split
    · rfl
    · cases flat c with
      | none => rfl
      | some k =>
        have : k.attrs.map (bldAttr xa) = k.attrs.map (bldAttr xa') := by
          apply List.map_congr_left
          intro a _
          simp only [bldAttr, lookup_perm a.xml hp hn]
        simp only [this]

/-- **character data and comments between children are irrelevant** for every element-only class, and so is the
    element's own tag (the parent decides which class is built) -/
theorem c04_ignores_text (flat : Nat → Option FlatClass) (fuel c tag tag' : Nat) (xa : List (Nat × String))
    (tx tx' : Option String) (ch : List XNode) (hc : c ≠ textCls) :
    buildObj flat fuel c (.mk tag xa tx ch) = buildObj flat fuel c (.mk tag' xa tx' ch) := by
  cases fuel with
  | zero => rfl
  | succ f => simp only [buildObj, hc, if_false]

theorem lookup_append_absent {α : Type} (k : Nat) (l : List (Nat × α)) (p : Nat × α) (h : k ≠ p.1) :
    lookup k (l ++ [p]) = lookup k l := by
  induction l with
  | nil => obtain ⟨k', v⟩ := p; simp only [List.nil_append, lookup]; simp only [] at h; simp [h]
  | cons x l ih =>
    obtain ⟨k', v⟩ := x
    simp only [List.cons_append, lookup, ih]

theorem eq_of_nodup_map {ι : Type} (key : ι → Nat) : ∀ (l : List ι), (l.map key).Nodup →
    ∀ a ∈ l, ∀ b ∈ l, key a = key b → a = b
  | [], _, a, ha, _, _, _ => by simp at ha
  | i :: l, hn, a, ha, b, hb, e => by
    have hn2 : (key i :: l.map key).Nodup := by simpa only [List.map_cons] using hn
    have hi := (List.nodup_cons.mp hn2).1
    have hn' := (List.nodup_cons.mp hn2).2
    rcases List.mem_cons.mp ha with rfl | ha'
    · rcases List.mem_cons.mp hb with rfl | hb'
      · rfl
      · exact absurd (e ▸ List.mem_map_of_mem hb') hi
    · rcases List.mem_cons.mp hb with rfl | hb'
      · exact absurd (e ▸ List.mem_map_of_mem ha') hi
      · exact eq_of_nodup_map key l hn' a ha' b hb' e

theorem lookup_append_new {α : Type} (k : Nat) (l : List (Nat × α)) (v : α) (h : lookup k l = none) :
    lookup k (l ++ [(k, v)]) = some v := by
  induction l with
  | nil => simp [lookup]
  | cons x l ih =>
    obtain ⟨k', w⟩ := x
    simp only [List.cons_append, lookup] at h ⊢
    split
    · rename_i e; simp [e] at h
    · rename_i e; simp [e] at h; exact ih h

/-- **an explicitly written default is the same as an absent attribute**: adding `xml="d"` for an attribute whose
    constructor default is `d` (and that was absent) does not change what is built -/
theorem c04_explicit_default (flat : Nat → Option FlatClass) (hW : ∀ c k, flat c = some k → FlatWF k)
    (fuel c tag : Nat) (xa : List (Nat × String)) (tx : Option String) (ch : List XNode)
    (k : FlatClass) (hk : flat c = some k) (a : FAttr) (ha : a ∈ k.attrs) (d : String)
    (hd : a.ctorDefault = some d) (habs : lookup a.xml xa = none) :
    buildObj flat fuel c (.mk tag (xa ++ [(a.xml, d)]) tx ch) = buildObj flat fuel c (.mk tag xa tx ch) := by
  cases fuel with
  | zero => rfl
  | succ f =>
    simp only [buildObj]
    split
    · rfl
    · simp only [hk]
      have hw := hW c k hk
      have : k.attrs.map (bldAttr (xa ++ [(a.xml, d)])) = k.attrs.map (bldAttr xa) := by
        apply List.map_congr_left
        intro b hb
        by_cases e : b.xml = a.xml
        · -- same xml name ⇒ same attribute (names are distinct)
          have hba : b = a := eq_of_nodup_map (fun a : FAttr => a.xml) k.attrs hw.xmlNodup b hb a ha e
          subst hba
          simp only [bldAttr, lookup_append_new _ _ _ habs, habs, hd]
        · simp only [bldAttr, lookup_append_absent b.xml xa (a.xml, d) e]
      simp only [this]

/-- **an attribute the class does not declare is ignored** -/
theorem c04_unknown_attr (flat : Nat → Option FlatClass) (fuel c tag : Nat) (xa : List (Nat × String))
    (tx : Option String) (ch : List XNode) (k : FlatClass) (hk : flat c = some k) (x : Nat) (v : String)
    (hx : ∀ a ∈ k.attrs, a.xml ≠ x) :
    buildObj flat fuel c (.mk tag (xa ++ [(x, v)]) tx ch) = buildObj flat fuel c (.mk tag xa tx ch) := by
  cases fuel with
  | zero => rfl
  | succ f =>
    simp only [buildObj]
    split
    · rfl
    · simp only [hk]
      have : k.attrs.map (bldAttr (xa ++ [(x, v)])) = k.attrs.map (bldAttr xa) := by
        apply List.map_congr_left
        intro b hb
        simp only [bldAttr, lookup_append_absent b.xml xa (x, v) (hx b hb)]
      simp only [this]

/-- one load/write cycle at the tree level -/
def cycle (flat : Nat → Option FlatClass) (fuel c tag : Nat) (x : XNode) : Option XNode :=
  (buildObj flat fuel c x).bind (exportObj flat fuel tag)

def iterCycle (flat : Nat → Option FlatClass) (fuel c tag : Nat) (x : XNode) : Nat → Option XNode
  | 0 => some x
  | n+1 => (iterCycle flat fuel c tag x n).bind (cycle flat fuel c tag)

/-- **fixed point**: what `export` writes for a conforming tree is reproduced by load-then-write, any number of
    times (so from the first write on the written tree no longer changes) -/
theorem c04_fixpoint (flat : Nat → Option FlatClass) (hW : ∀ c k, flat c = some k → FlatWF k)
    (fuel tag : Nat) (o : Obj) (ho : Conforms flat fuel o) (x : XNode) (hx : exportObj flat fuel tag o = some x) :
    ∀ n : Nat, iterCycle flat fuel o.cls tag x n = some x := by
  obtain ⟨x', hx', _, hb⟩ := roundtrip flat hW fuel tag o ho
  have e : x' = x := by rw [hx] at hx'; exact (Option.some.inj hx').symm
  subst e
  intro n
  induction n with
  | zero => rfl
  | succ n ih =>
    simp only [iterCycle, ih]
    simp [cycle, hb, hx]

/-- today's table: every class's export methods assign nothing to `self` (writing never modifies the document);
    part of `WF`, restated on its own -/
theorem c04_export_pure : NmlVerif.Gen.Bindings.table.all (fun k => k.exportPure) = true := by decide +kernel

/-- instantiation for today's table -/
theorem c04_fixpoint_table (fuel tag : Nat) (o : Obj)
    (ho : Conforms (flatten NmlVerif.Gen.Bindings.table) fuel o) (x : XNode)
    (hx : exportObj (flatten NmlVerif.Gen.Bindings.table) fuel tag o = some x) (n : Nat) :
    iterCycle (flatten NmlVerif.Gen.Bindings.table) fuel o.cls tag x n = some x :=
  c04_fixpoint _ (flatWF_of_WF _ table_wf) fuel tag o ho x hx n

end NmlVerif.Binding
