import NmlVerif.Props.C01Text
import NmlVerif.Props.C01Parse
import NmlVerif.Props.C04
/-!
# C04, text level — presentation independence of the reader, numeric spellings

Integer and boolean spellings are modelled exactly (`Py.int`, `gds_parse_boolean`); floating-point spellings stay with
CPython's `float()` (trusted, sampled by the correspondence check).
-/
namespace NmlVerif.XmlText
open Py

/-! ## equivalent spellings of booleans and integers -/

theorem c04_bool_spellings :
    parseBool "1".toList = parseBool "true".toList ∧ parseBool "0".toList = parseBool "false".toList ∧
    parseBool " true\n".toList = parseBool "true".toList ∧ parseBool "True".toList = none := by decide

/-- a leading zero does not change the integer read -/
theorem c04_int_leading_zero (c : Char) (r : Str) (hc : c.isDigit = true) :
    pyDigits ('0' :: c :: r) none false = pyDigits (c :: r) none false := by
  simp [pyDigits, hc]

/-- an explicit `+` sign does not change the integer read (for a literal without surrounding white space) -/
theorem c04_int_plus (s : Str) (h1 : strip ('+' :: s) = '+' :: s) (h2 : strip s = s)
    (h3 : s.head? ≠ some '-') (h4 : s.head? ≠ some '+') : Py.int ('+' :: s) = Py.int s := by
  unfold Py.int
  rw [h1, h2]
  cases s with
  | nil => rfl
  | cons c r =>
    have c1 : c ≠ '-' := by intro e; apply h3; simp [e]
    have c2 : c ≠ '+' := by intro e; apply h4; simp [e]
    split
    · rename_i heq; simp at heq
    · rename_i r' heq
      have : r' = c :: r := by simpa using heq.symm
      subst this
      split
      · rename_i heq2; simp at heq2; exact absurd heq2.1 c1
      · rename_i heq2; simp at heq2; exact absurd heq2.1 c2
      · rfl
    · rename_i _ hh; exact absurd rfl (hh (c :: r))

example : Py.int "+5".toList = some 5 ∧ Py.int "007".toList = some 7 ∧ Py.int " 1_000 ".toList = some 1000 ∧
    Py.int "-0".toList = some 0 ∧ Py.int "5.0".toList = none ∧ Py.int "1__0".toList = none ∧ Py.int "".toList = none := by decide

/-! ## presentation independence of the reader, as theorems about TEXT -/

/-- **master statement**: two texts whose concrete tokens stand for the same abstract tokens — i.e. that differ only in
    white space inside tags, in the attribute delimiter, in the spelling of references, in CDATA sections versus
    escaped character data, in the bodies of comments and processing instructions — are read as the same tree -/
theorem c04_presentation (cs cs' : List CTok) (h : ToksWF cs) (h' : ToksWF cs') (hcr : '\r' ∉ render cs)
    (hcr' : '\r' ∉ render cs') (he : mapOpt absTok cs = mapOpt absTok cs') : parse (render cs) = parse (render cs') := by
  rw [parse_render cs h hcr, parse_render cs' h' hcr', he]

/-- white space inside a start tag (between attributes, around `=`, before `>`), and the attribute delimiter, are not
    part of the abstract token -/
theorem c04_tag_whitespace_and_delimiter (n : Str) (as as' : List CAttr) (w w' : Str)
    (h : as.map (fun a => (a.name, a.raw)) = as'.map (fun a => (a.name, a.raw))) :
    absTok (.open n as w) = absTok (.open n as' w') ∧ absTok (.selfClose n as w) = absTok (.selfClose n as' w') := by
  have : mapOpt absAttr as = mapOpt absAttr as' := by
    have e : ∀ l : List CAttr, mapOpt absAttr l = mapOpt (fun p : Str × Str => (decAttrRaw p.2).map fun v => (p.1, v))
        (l.map fun a => (a.name, a.raw)) := by
      intro l
      induction l with
      | nil => rfl
      | cons a l ih => simp [mapOpt, absAttr, ih]
    rw [e as, e as', h]
  simp [absTok, this]

/-- equivalent spellings of an attribute value (entities, decimal / hexadecimal character references) give the same
    abstract attribute -/
theorem c04_reference_respelling (a a' : CAttr) (hn : a.name = a'.name) (hv : decAttrRaw a.raw = decAttrRaw a'.raw) :
    absAttr a = absAttr a' := by
  simp [absAttr, hn, hv]

example : decAttrRaw "&lt;&#60;&#x3c;&#x3C;".toList = some "<<<<".toList ∧ decAttrRaw "a&#10;b".toList = some "a\nb".toList ∧
    decAttrRaw "a\nb\tc".toList = some "a b c".toList ∧ decAttrRaw "&apos;&quot;".toList = some "'\"".toList := by decide

/-- a CDATA section and escaped character data with the same content are the same token -/
theorem c04_cdata_vs_escaped (b raw : Str) (hb : b.all isXmlChar = true) (hr : decTextRaw raw = some b) :
    absTok (.cdata b) = absTok (.chars raw) := by
  simp [absTok, hb, hr]

/-- comments and processing instructions are invisible whatever their body -/
theorem c04_comment_body (b b' : Str) : absTok (.comment b) = absTok (.comment b') ∧ absTok (.pi b) = absTok (.comment b') := by
  simp [absTok]

/-- **white space and comments between children are irrelevant**: any two decorations of the gaps of a well-formed
    tree (and any white space / comments around the document element) are read as the same tree -/
theorem c04_layout_independent (deco deco' : List Nat → Nat → Nat → Gap) (fuel : Nat) (t : TNode) (h : TWF fuel t) :
    treeOf (atoks deco fuel [] t) = treeOf (atoks deco' fuel [] t) := by
  have a := treeOf_atoks deco fuel t h [] [] (by simp) (by simp)
  have b := treeOf_atoks deco' fuel t h [] [] (by simp) (by simp)
  simp only [List.nil_append, List.append_nil] at a b
  rw [a, b]

/-- **byte-level fixed point**: reading what was written and writing it again gives the same bytes, for every
    guard-safe tree; hence from the first write on the bytes no longer change -/
theorem c04_bytes_fixed_point (fuel : Nat) (t : TNode) (h : TSafe fuel t) :
    (parse (serialise fuel t)).map (serialise fuel) = some (serialise fuel t) := by
  rw [c01_parse_serialise fuel t h]; rfl

/-- every indentation-style layout of a guard-safe tree (any amount of line breaks and spaces between children) is
    read as the same tree as the pretty-printed text -/
theorem c04_text_layout_independent (deco : List Nat → Nat → Nat → Gap) (hd : DecoOK deco) (fuel : Nat) (t : TNode)
    (h : TSafe fuel t) : parse (render (toks deco fuel [] t) ++ ['\n']) = parse (serialise fuel t) := by
  rw [c01_parse_layout deco hd fuel t h, c01_parse_serialise fuel t h]

/-- CR LF and lone CR line ends are read as LF line ends -/
theorem c04_line_ends (t : Str) : parse (eolNorm t) = parse t := parse_eolNorm t

end NmlVerif.XmlText

namespace NmlVerif.Binding

/-- **`<a/>` and `<a></a>`** (no text at all vs empty text) build the same object, for element classes and for
    simple-content children alike -/
theorem c04_empty_element (flat : Nat → Option FlatClass) (fuel c tag : Nat) (xa : List (Nat × String)) (ch : List XNode) :
    buildObj flat fuel c (.mk tag xa none ch) = buildObj flat fuel c (.mk tag xa (some "") ch) := by
  cases fuel with
  | zero => rfl
  | succ f =>
    simp only [buildObj]
    split
    · rfl
    · rfl

end NmlVerif.Binding
