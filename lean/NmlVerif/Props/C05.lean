import NmlVerif.Proofs.Hdf5
/-!
# C05 — HDF5 write then load describes the same network and the same components

Model: `NmlVerif.Hdf5` (`Model/Hdf5.lean`): `encodeDoc` = `NeuroMLHdf5Writer.write` + the six `exportHdf5` methods,
`decodeDoc` = `NeuroMLHdf5Parser` driving `NetworkBuilder` + the merge of the embedded XML, `sem` = the property's
reading of a document, `expect r` = its float32 view (weight-1 entries of electrical / continuous projections and
input lists first, each group in row order).  Tied to the code by `harness/props/c05.py` (streams enc / dec / rt / sem).

`cfg.r` is the float32 rounding; only `r 0 = 0`, `r 1 = 1`, `r ½ = ½` are used (`CfgOK`), integers that travel through
a table must be exactly representable (`Exact`, part of the `…OK` predicates).  `CfgOK` also fixes the repaired
behaviours (ids read from column 0, `notes` written only when set, weight 1 for rows without a weight).
-/
namespace NmlVerif.Hdf5

/-! ## the property, full strength, and what is proved of it -/

/-- FULL statement: every document either comes back describing the same model (to float32 precision) or is refused
    with an exception by the writer or the loader. -/
def c05_roundtrip_full (cfg : Cfg) : Prop :=
  ∀ d : Doc, (∃ d', roundTrip cfg d = .ok d' ∧ sem d' = expect cfg.r (sem d)) ∨ (∃ e, roundTrip cfg d = .error e)

/-- **Round trip, all supported documents** (any number of populations, projections of the three kinds, input
    lists, rows; any ids): the loader returns a document with the same semantic value, and the non-network
    components are exactly the embedded ones.  `Supported` is the explicit excluding hypothesis (see the witnesses). -/
theorem c05_roundtrip_partial (cfg : Cfg) (hc : CfgOK cfg) (d : Doc) (hs : Supported cfg d) :
    ∃ d', roundTrip cfg d = .ok d' ∧ sem d' = expect cfg.r (sem d) ∧ (∀ c, c ∈ d'.top → c ∈ d.top) ∧
      ((d.top.map Comp.key).Nodup → ∀ c ∈ d.top, c ∈ d'.top) :=
  doc_roundtrip cfg hc d hs

/-- one network: groups written, parsed populations first, every construct back with its semantic value -/
theorem c05_network (cfg : Cfg) (hc : CfgOK cfg) (top : List Comp) (n : Net) (hok : NetOK cfg top n) :
    ∃ g n' objs, encodeNet cfg n = .ok g ∧ decodeNet cfg top g = .ok (n', objs) ∧
      (∀ c, some c ∈ objs → c ∈ top) ∧ semNet n' = expectNet cfg.r (semNet n) :=
  net_roundtrip cfg hc top n hok

/-! ### per construct (each over lists of arbitrary length) -/

/-- populations: size, instance locations (row order = instance order), properties -/
theorem c05_population (cfg : Cfg) (top : List Comp) (p : Pop) (hok : PopOK cfg p) :
    ∃ leaf p', encodePop cfg p = .ok leaf ∧ leaf.name = popLeafName p.id ∧
      decodePop cfg top leaf = .ok (p', getById top p.comp) ∧
      p'.id = p.id ∧ p'.comp = p.comp ∧ (p'.insts = [] ↔ p.insts = []) ∧
      semPop p' = rPop cfg.r (semPop p) :=
  pop_roundtrip cfg top p hok

/-- chemical projections: `<connection>` and `<connectionWD>` mixed, with or without the segment / fraction
    columns, weights, delays in ms or s; connections come back in row order (ids are not stored) -/
theorem c05_projection (cfg : Cfg) (hc : CfgOK cfg) (top : List Comp) (pops : List Pop) (p : Proj) (prePop postPop : Pop)
    (hpre : findPop pops p.pre = .ok prePop) (hpost : findPop pops p.post = .ok postPop) (hok : ProjOK cfg.r p) :
    ∃ leaf p' objs, encodeProj cfg p = .ok leaf ∧ leaf.name = projLeafName p.id ∧
      decodeProjLeaf cfg top pops leaf = .ok (.proj p', objs) ∧ (∀ c, some c ∈ objs → c ∈ top) ∧
      semProj p' = rProj cfg.r (semProj p) :=
  proj_roundtrip cfg hc.half hc.one hc.zero hc.unweighted top pops p prePop postPop hpre hpost hok

/-- electrical (`cont = false`) and continuous (`cont = true`) projections with their three connection classes,
    stored ids, both path forms -/
theorem c05_gap_and_continuous (cfg : Cfg) (hc : CfgOK cfg) (cont : Bool) (top : List Comp) (pops : List Pop)
    (p : GProj) (c0 : Conn) (prePop postPop : Pop) (hf : firstConn p = .ok c0)
    (hpre : findPop pops p.pre = .ok prePop) (hpost : findPop pops p.post = .ok postPop) (hok : GOK cfg cont p)
    (huni : ∀ c ∈ p.all, c.syn = c0.syn ∧ c.preComp = c0.preComp)
    (hdef : cont = true → ∃ cp, getById top c0.preComp = some cp)
    (hnw : prePop.insts = [] → postPop.insts = [] → ∀ c ∈ p.all, cfg.r (wOf c) = 1) :
    ∃ leaf p' objs, encodeGProj cfg cont p = .ok leaf ∧ leaf.name = projLeafName p.id ∧
      decodeProjLeaf cfg top pops leaf = .ok ((if cont then Item.cproj p' else Item.eproj p'), objs) ∧
      (∀ c, some c ∈ objs → c ∈ top) ∧
      semGProj p' = canonProj (rProj cfg.r (semGProj p)) :=
  gproj_roundtrip cfg hc.one hc.zero hc.unweighted hc.idCol0 cont top pops p c0 prePop postPop hf hpre hpost hok huni
    hdef hnw

/-- input lists, `<input>` and `<inputW>` mixed -/
theorem c05_input_list (cfg : Cfg) (hc : CfgOK cfg) (top : List Comp) (pops : List Pop) (l : IList) (pop : Pop)
    (hpop : findPop pops l.pop = .ok pop) (hok : ILOK cfg l) :
    ∃ leaf l' objs, encodeIList cfg l = .ok leaf ∧ leaf.name = ilLeafName l.id ∧
      decodeILLeaf cfg top pops leaf = .ok (.il l', objs) ∧ (∀ c, some c ∈ objs → c ∈ top) ∧
      semIL l' = rIL cfg.r (semIL l) :=
  ilist_roundtrip cfg hc.one hc.unweighted top pops l pop hpop hok

/-! ### columns and rows -/

/-- the column found for a name is the column the writer stored under that name (chemical layouts) -/
theorem c05_columns_projection (sf wd : Bool) :
    colIdx (projCols sf wd) "id" = none ∧
    colIdx (projCols sf wd) "pre_cell_id" = some 0 ∧
    colIdx (projCols sf wd) "post_cell_id" = some 1 ∧
    colIdx (projCols sf wd) "pre_segment_id" = (if sf then some 2 else none) ∧
    colIdx (projCols sf wd) "post_segment_id" = (if sf then some 3 else none) ∧
    colIdx (projCols sf wd) "pre_fraction_along" = (if sf then some 4 else none) ∧
    colIdx (projCols sf wd) "post_fraction_along" = (if sf then some 5 else none) ∧
    colIdx (projCols sf wd) "weight" = (if wd then some (if sf then 6 else 2) else none) ∧
    colIdx (projCols sf wd) "delay" = (if wd then some (if sf then 7 else 3) else none) :=
  colIdx_proj sf wd

theorem c05_columns_gap_and_continuous (w : Bool) :
    colIdx (gCols w) "id" = some 0 ∧ colIdx (gCols w) "pre_cell_id" = some 1 ∧ colIdx (gCols w) "post_cell_id" = some 2 ∧
    colIdx (gCols w) "pre_segment_id" = some 3 ∧ colIdx (gCols w) "post_segment_id" = some 4 ∧
    colIdx (gCols w) "pre_fraction_along" = some 5 ∧ colIdx (gCols w) "post_fraction_along" = some 6 ∧
    colIdx (gCols w) "weight" = (if w then some 7 else none) ∧ colIdx (gCols w) "delay" = none :=
  colIdx_g w

theorem c05_columns_input_list (w : Bool) :
    colIdx (ilCols w) "id" = some 0 ∧ colIdx (ilCols w) "target_cell_id" = some 1 ∧
    colIdx (ilCols w) "segment_id" = some 2 ∧ colIdx (ilCols w) "fraction_along" = some 3 ∧
    colIdx (ilCols w) "weight" = (if w then some 4 else none) :=
  colIdx_il w

/-- rows are read in the order they were written: the k-th decoded row is the k-th connection
    (`plain ++ insts ++ instWs`), whatever the ids -/
theorem c05_row_order_gap_and_continuous (cfg : Cfg) (hc : CfgOK cfg) (cont : Bool) (p : GProj) (hok : GOK cfg cont p) :
    mapIdxE (decodeConnRow cfg (gCols (wFlag p))) 0 (encRowsG cfg p) =
      .ok (p.all.map (fun c => rowOf cfg.r c.id c (cfg.r (wOf c)) 0)) :=
  decode_encRowsG cfg hc.one hc.unweighted hc.idCol0 cont p hok

theorem c05_row_order_input_list (cfg : Cfg) (hc : CfgOK cfg) (l : IList) (hok : ILOK cfg l) :
    mapIdxE (decodeInpRow (ilCols (wFlagI l))) 0 (encRowsI cfg l) = .ok ((l.inputs ++ l.inputWs).map (inDOf cfg.r)) :=
  decode_encRowsI cfg hc.one hc.unweighted l hok

/-! ### refusals: constructs the format cannot hold raise, nothing is written silently -/

theorem c05_refuses_synaptic_connection_and_explicit_input (cfg : Cfg) (d : Doc) (n : Net) (rest : List Net)
    (hd : d.nets = n :: rest) (h : n.nSynConn > 0 ∨ n.nExplicit > 0) : ∃ e, roundTrip cfg d = .error e := by
  obtain ⟨e, he⟩ := encodeDoc_error_of_net cfg d n rest hd (encodeNet_error_of_guard cfg n h)
  exact ⟨e, by simp [roundTrip, he]⟩

theorem c05_refuses_second_network (cfg : Cfg) (d : Doc) (n m : Net) (rest : List Net) (hd : d.nets = n :: m :: rest) :
    ∃ e, roundTrip cfg d = .error e := by
  obtain ⟨e, he⟩ := encodeDoc_error_two_nets cfg d n m rest hd
  exact ⟨e, by simp [roundTrip, he]⟩

theorem c05_refuses_empty_gap_or_continuous_projection (cfg : Cfg) (d : Doc) (n : Net) (rest : List Net)
    (hd : d.nets = n :: rest) (p : GProj) (hp : p ∈ n.eprojs ∨ p ∈ n.cprojs) (hempty : p.all = []) :
    ∃ e, roundTrip cfg d = .error e := by
  have hb : ∃ b ∈ otherBodies cfg n, ∃ e, b.2 = .error e := by
    rcases hp with hp | hp
    · exact ⟨(projLeafName p.id, encodeGProj cfg false p), by
        simp only [otherBodies, List.mem_append, List.mem_map]
        exact Or.inl (Or.inl (Or.inr ⟨p, hp, rfl⟩)), .indexError, encodeGProj_empty cfg false p hempty⟩
    · exact ⟨(projLeafName p.id, encodeGProj cfg true p), by
        simp only [otherBodies, List.mem_append, List.mem_map]
        exact Or.inl (Or.inr ⟨p, hp, rfl⟩), .indexError, encodeGProj_empty cfg true p hempty⟩
  obtain ⟨e, he⟩ := encodeDoc_error_of_net cfg d n rest hd (encodeNet_error_of_body cfg n hb)
  exact ⟨e, by simp [roundTrip, he]⟩

theorem c05_refuses_empty_input_list (cfg : Cfg) (d : Doc) (n : Net) (rest : List Net)
    (hd : d.nets = n :: rest) (l : IList) (hl : l ∈ n.ilists) (hempty : l.inputs = [] ∧ l.inputWs = []) :
    ∃ e, roundTrip cfg d = .error e := by
  have hb : ∃ b ∈ otherBodies cfg n, ∃ e, b.2 = .error e :=
    ⟨(ilLeafName l.id, encodeIList cfg l), by
      simp only [otherBodies, List.mem_append, List.mem_map]
      exact Or.inr ⟨l, hl, rfl⟩, .valueError, encodeIList_empty cfg l hempty⟩
  obtain ⟨e, he⟩ := encodeDoc_error_of_net cfg d n rest hd (encodeNet_error_of_body cfg n hb)
  exact ⟨e, by simp [roundTrip, he]⟩

theorem c05_refuses_delay_in_microseconds (cfg : Cfg) (d : Doc) (n : Net) (rest : List Net)
    (hd : d.nets = n :: rest) (p : Proj) (hp : p ∈ n.projs) (h : ∃ c ∈ p.connWDs, c.delay.u = .us) :
    ∃ e, roundTrip cfg d = .error e := by
  obtain ⟨e0, he0⟩ := encodeProj_us cfg p h
  have hb : ∃ b ∈ otherBodies cfg n, ∃ e, b.2 = .error e :=
    ⟨(projLeafName p.id, encodeProj cfg p), by
      simp only [otherBodies, List.mem_append, List.mem_map]
      exact Or.inl (Or.inl (Or.inl ⟨p, hp, rfl⟩)), e0, he0⟩
  obtain ⟨e, he⟩ := encodeDoc_error_of_net cfg d n rest hd (encodeNet_error_of_body cfg n hb)
  exact ⟨e, by simp [roundTrip, he]⟩

end NmlVerif.Hdf5

namespace NmlVerif.Hdf5

/-! ## witnesses and examples (exact arithmetic: `r = id` satisfies `CfgOK`) -/

/-- the code as it is while C19's accessor defect is open (`get_fraction_along` takes 0.0 for "not set") -/
def cfgNow : Cfg := { r := id, fracTruthy := true }
/-- the code once that accessor is repaired -/
def cfgFixed : Cfg := { r := id, fracTruthy := false }

theorem cfgOK_of_id (cfg : Cfg) (hr : cfg.r = id) (hu : cfg.unweighted = 1) (h0 : cfg.idCol0 = true)
    (hn : cfg.notesAlways = false) : CfgOK cfg := by
  refine ⟨?_, ?_, ?_, hu, h0, hn⟩ <;> simp [hr]

example : CfgOK cfgNow := cfgOK_of_id _ rfl rfl rfl rfl
example : CfgOK cfgFixed := cfgOK_of_id _ rfl rfl rfl rfl

/-- the write/load succeeds but the loaded document describes something else -/
def differs (cfg : Cfg) (d : Doc) : Bool :=
  match roundTrip cfg d with
  | .ok d' => decide (sem d' ≠ expect cfg.r (sem d))
  | .error _ => false

theorem not_full_of_differs {cfg : Cfg} {d : Doc} (h : differs cfg d = true) : ¬ c05_roundtrip_full cfg := by
  intro hfull
  unfold differs at h
  rcases hfull d with ⟨d', hd, hs⟩ | ⟨e, he⟩
  · rw [hd] at h
    simp at h
    exact h hs
  · rw [he] at h
    cases h

def errOf (x : Except Err Doc) : Option Err := match x with | .error e => some e | .ok _ => none

def wZ : Pop := { id := "zpop", comp := "iz", size := some 5 }
def wA : Pop := { id := "apop", comp := "iaf", insts := [⟨0, 0, 1/2, -3⟩, ⟨1, 3/2, 1/2, -3⟩] }
def wTop : List Comp := [⟨"gapJunction", "gj", "x"⟩, ⟨"gapJunction", "gj2", "y"⟩, ⟨"gradedSynapse", "gs1", "z"⟩,
  ⟨"silentSynapse", "silent1", "s"⟩]

/-- KNOWN FINDING `C05:input-fraction-zero` (depends on C19): an input at fraction 0.0 is stored at 0.5 -/
def wFrac0 : Doc :=
  { id := "d", top := wTop,
    nets := [{ id := "n", pops := [wZ, wA],
               ilists := [{ id := "il", comp := "pg", pop := "zpop",
                            inputs := [{ id := 3, target := .bracket "zpop" 1, frac := some 0 },
                                       { id := 1, target := .bracket "zpop" 2 }] }] }] }

theorem c05_roundtrip_witness_input_fraction_zero : ¬ c05_roundtrip_full cfgNow :=
  not_full_of_differs (d := wFrac0) (by decide +kernel)

/-- with the accessor repaired the same document round-trips -/
example : differs cfgFixed wFrac0 = false := by decide +kernel

/-- KNOWN FINDING `C05:dangling-pre-component`: `preComponent` names a component the document does not define -/
def wDangling : Doc :=
  { id := "d", top := wTop,
    nets := [{ id := "n", pops := [wZ, wA],
               cprojs := [{ id := "cp", pre := "zpop", post := "zpop",
                            plain := [{ id := 0, pre := .plain 1, post := .plain 2, syn := "gs1", preComp := "nowhere" },
                                      { id := 1, pre := .plain 2, post := .plain 3, syn := "gs1", preComp := "nowhere" }] }] }] }

theorem c05_roundtrip_witness_dangling_pre_component : ¬ c05_roundtrip_full cfgFixed :=
  not_full_of_differs (d := wDangling) (by decide +kernel)

/-- REPAIRED (`fixes/C05-mixed-synapse-refused.patch`), was `C05:mixed-synapse-in-projection`: the group stores one
    synapse for the whole projection; a projection naming two is now refused by the writer -/
def wMixed : Doc :=
  { id := "d", top := wTop,
    nets := [{ id := "n", pops := [wZ, wA],
               eprojs := [{ id := "ep", pre := "zpop", post := "zpop",
                            plain := [{ id := 0, pre := .plain 1, post := .plain 2, syn := "gj" },
                                      { id := 1, pre := .plain 2, post := .plain 3, syn := "gj2" }] }] }] }

theorem c05_unfixed_mixed_synapse :
    differs { cfgFixed with refuseMixed := false } wMixed = true ∧
    errOf (roundTrip cfgFixed wMixed) = some .exception := by
  constructor <;> decide +kernel

/-- REPAIRED (`fixes/C05-electrical-weight-sized-refused.patch`), was `C05:weight-dropped-sized-populations`:
    `NetworkBuilder` builds plain electrical connections between two populations without instances and ignored the
    weight column; it now raises as the continuous branch always did -/
def wWeight : Doc :=
  { id := "d", top := wTop,
    nets := [{ id := "n", pops := [wZ, wA],
               eprojs := [{ id := "ep", pre := "zpop", post := "zpop",
                            insts := [{ id := 4, pre := .bracket "zpop" 0, post := .bracket "zpop" 1, syn := "gj" }],
                            instWs := [{ id := 9, pre := .bracket "zpop" 1, post := .bracket "zpop" 2, syn := "gj",
                                         weight := some (1/2) }] }] }] }

theorem c05_unfixed_weight_dropped :
    differs { cfgFixed with elecRefuseW := false } wWeight = true ∧
    errOf (roundTrip cfgFixed wWeight) = some .exception := by
  constructor <;> decide +kernel

/-- KNOWN FINDING `C05:instance-ids-renumbered`: the location table has no id column -/
def wInstIds : Doc :=
  { id := "d", top := wTop,
    nets := [{ id := "n", pops := [wZ, { id := "ipop", comp := "iz", insts := [⟨5, 0, 0, 0⟩, ⟨7, 1, 0, 0⟩] }] }] }

theorem c05_roundtrip_witness_instance_ids : ¬ c05_roundtrip_full cfgFixed :=
  not_full_of_differs (d := wInstIds) (by decide +kernel)

/-- REPAIRED (`fixes/C05-group-name-prefix.patch`), was `C05:group-name-substring`: with `name.count(..) >= 1` a
    population whose id contains `projection_` made its group trigger two handlers (the model of the old code declines
    such names, the real loader silently added a projection); with `startswith` the document round-trips -/
def wNameSub : Doc :=
  { id := "d", nets := [{ id := "n", pops := [{ id := "projection_x", comp := "iz", size := some 2 }] }] }

theorem c05_unfixed_group_name_substring :
    kindOf { cfgFixed with prefixNames := false } (popLeafName "projection_x") = .ambiguous ∧
    errOf (roundTrip { cfgFixed with prefixNames := false } wNameSub) = some .unmodelled ∧
    kindOf cfgFixed (popLeafName "projection_x") = .pop ∧ differs cfgFixed wNameSub = false ∧
    errOf (roundTrip cfgFixed wNameSub) = none := by
  refine ⟨?_, ?_, ?_, ?_, ?_⟩ <;> decide +kernel

/-- REPAIRED (`fixes/C05-property-tag-colon.patch`), was `C05:silently-dropped:property-tag-after-colon` -/
def wTagColon : Doc :=
  { id := "d", nets := [{ id := "n", pops := [{ id := "p", comp := "iz", size := some 2, props := [("a:b", "v1")] }] }] }

theorem c05_unfixed_property_tag_colon :
    differs { cfgFixed with tagWhole := false } wTagColon = true ∧ differs cfgFixed wTagColon = false := by
  constructor <;> decide +kernel

/-! ### the three defects repaired by the C05 patches (model of the unrepaired code: `Cfg.old`) -/

def wConnIds : Doc :=
  { id := "d", notes := some "n", top := wTop,
    nets := [{ id := "n", notes := some "m", pops := [wZ, wA],
               eprojs := [{ id := "ep", pre := "zpop", post := "zpop",
                            plain := [{ id := 10, pre := .plain 1, post := .plain 2, syn := "gj" },
                                      { id := 15, pre := .plain 3, post := .plain 2, syn := "gj" }] }] }] }

/-- before the repair (`indexId > 0`): ids 10, 15 of an electrical projection load as 0, 1 -/
theorem c05_unfixed_connection_ids : differs (Cfg.old id false) wConnIds = true ∧ differs cfgFixed wConnIds = false := by
  constructor <;> decide +kernel

def wNotes : Doc := { id := "d", top := wTop, nets := [{ id := "n", pops := [wZ] }] }

/-- before the repair: `notes = None` is written and read back as the string "None" -/
theorem c05_unfixed_notes_none : differs (Cfg.old id false) wNotes = true ∧ differs cfgFixed wNotes = false := by
  constructor <;> decide +kernel

def wUnweighted : Doc :=
  { id := "d", notes := some "n", top := wTop,
    nets := [{ id := "n", notes := some "m", pops := [wZ, wA],
               ilists := [{ id := "il", comp := "pg", pop := "apop",
                            inputs := [{ id := 4, target := .slash "apop" 1 "iaf" }],
                            inputWs := [{ id := 2, target := .slash "apop" 0 "iaf", weight := some (1/2) }] }] }] }

/-- before the repair: an `<input>` next to an `<inputW>` is stored with weight 0 -/
theorem c05_unfixed_unweighted_rows : differs (Cfg.old id false) wUnweighted = true ∧ differs cfgFixed wUnweighted = false := by
  constructor <;> decide +kernel

end NmlVerif.Hdf5

namespace NmlVerif.Hdf5

/-! ### the hypotheses are satisfiable: a document with every construct that is `Supported` -/

def xZ : Pop := { id := "zpop", comp := "iz", size := some 5, props := [("color", "1 0 0")] }
def xA : Pop := { id := "apop", comp := "iaf", insts := [⟨0, 0, 1/2, -3⟩, ⟨1, 3/2, 1/2, -3⟩] }
def xTop : List Comp := [⟨"gapJunction", "gj", "x"⟩, ⟨"gradedSynapse", "gs1", "z"⟩, ⟨"silentSynapse", "silent1", "s"⟩]

def xProj : Proj :=
  { id := "pr", pre := "zpop", post := "apop", syn := "syn1",
    conns := [{ id := 7, pre := .bracket "zpop" 1, post := .slash "apop" 1 "iaf" }],
    connWDs := [{ id := 3, pre := .bracket "zpop" 4, post := .slash "apop" 0 "iaf", preSeg := 2, weight := some (1/4),
                  delay := ⟨1/2, .s⟩ }] }

def xEProj : GProj :=
  { id := "ep", pre := "zpop", post := "apop",
    insts := [{ id := 11, pre := .bracket "zpop" 1, post := .slash "apop" 1 "iaf", syn := "gj" }],
    instWs := [{ id := 5, pre := .bracket "zpop" 2, post := .slash "apop" 0 "iaf", syn := "gj", weight := some (1/2) }] }

def xCProj : GProj :=
  { id := "cp", pre := "zpop", post := "zpop",
    plain := [{ id := 4, pre := .plain 1, post := .plain 2, syn := "gs1", preComp := "silent1" },
              { id := 2, pre := .plain 0, post := .plain 3, syn := "gs1", preComp := "silent1", postFrac := 1/4 }] }

def xIL : IList :=
  { id := "il", comp := "pg", pop := "apop",
    inputs := [{ id := 4, target := .slash "apop" 1 "iaf" }],
    inputWs := [{ id := 2, target := .slash "apop" 0 "iaf", seg := some 3, frac := some 0, weight := some (1/2) }] }

def xNet : Net := { id := "n", notes := some "notes", temperature := some "32degC", pops := [xZ, xA], projs := [xProj],
                    eprojs := [xEProj], cprojs := [xCProj], ilists := [xIL] }
def xDoc : Doc := { id := "d", top := xTop, nets := [xNet] }

theorem xDoc_supported : Supported cfgFixed xDoc := by
  refine Or.inr ⟨xNet, rfl, ?_⟩
  refine { noSyn := rfl, noExp := rfl, pops := ?_, names := by decide +kernel, kPop := ?_, kProj := ?_, kEProj := ?_,
           kCProj := ?_, kIL := ?_, projs := ?_, eprojs := ?_, cprojs := ?_, ils := ?_ }
  · exact forall_two
      ⟨fun _ => ⟨5, rfl⟩, trivial, (by decide +kernel), forall_one (by decide +kernel)⟩
      ⟨(by intro h; cases h), ⟨rfl, rfl, trivial⟩, (by decide +kernel), (by intro kv h; cases h)⟩
  · exact forall_two (by decide +kernel) (by decide +kernel)
  · exact forall_one (by decide +kernel)
  · exact forall_one (by decide +kernel)
  · exact forall_one (by decide +kernel)
  · exact forall_one (by decide +kernel)
  · refine forall_one ⟨?_, xZ, xA, rfl, rfl⟩
    exact { exact := fun c _ => connExact_id c,
            refs := forall_two ⟨rfl, rfl⟩ ⟨rfl, rfl⟩,
            chem := forall_two ⟨rfl, rfl⟩ ⟨rfl, rfl⟩,
            plain := forall_one ⟨rfl, rfl⟩,
            wd := forall_one ⟨⟨1/4, rfl⟩, (by decide)⟩ }
  · refine forall_one ⟨?_, ?_⟩
    · exact { conn := forall_two ⟨connExact_id _, rfl, ⟨rfl, rfl⟩, rfl⟩ ⟨connExact_id _, rfl, ⟨rfl, rfl⟩, rfl⟩,
              unw := forall_one rfl,
              wset := (by intro h; cases h),
              elecPre := fun _ => forall_two rfl rfl }
    · refine ⟨_, xZ, xA, rfl, forall_two ⟨rfl, rfl⟩ ⟨rfl, rfl⟩, rfl, rfl, (by intro h; cases h), ?_⟩
      intro _ h; cases h
  · refine forall_one ⟨?_, ?_⟩
    · exact { conn := forall_two ⟨connExact_id _, rfl, ⟨rfl, rfl⟩, rfl⟩ ⟨connExact_id _, rfl, ⟨rfl, rfl⟩, rfl⟩,
              unw := forall_two rfl rfl,
              wset := (by intro _ c h; cases h),
              elecPre := (by intro h; cases h) }
    · refine ⟨_, xZ, xZ, rfl, forall_two ⟨rfl, rfl⟩ ⟨rfl, rfl⟩, rfl, rfl, fun _ => ⟨⟨"silentSynapse", "silent1", "s"⟩, (by decide +kernel)⟩, ?_⟩
      intro _ _
      exact forall_two (by decide +kernel) (by decide +kernel)
  · refine forall_one ⟨?_, xA, rfl⟩
    exact { inp := forall_two ⟨rfl, rfl, rfl, rfl, (by intro h; cases h)⟩ ⟨rfl, rfl, rfl, rfl, (by intro h; cases h)⟩,
            unw := forall_one rfl,
            nonempty := (by decide) }


/-- … so the round-trip theorem applies to it -/
example : ∃ d', roundTrip cfgFixed xDoc = .ok d' ∧ sem d' = expect cfgFixed.r (sem xDoc) := by
  obtain ⟨d', h1, h2, _⟩ := c05_roundtrip_partial cfgFixed (cfgOK_of_id _ rfl rfl rfl rfl) xDoc xDoc_supported
  exact ⟨d', h1, h2⟩

/-- hypotheses of the refusal theorems on concrete documents -/
example : ∃ e, roundTrip cfgFixed { xDoc with nets := [{ xNet with nSynConn := 1 }] } = .error e :=
  c05_refuses_synaptic_connection_and_explicit_input cfgFixed _ { xNet with nSynConn := 1 } [] rfl (Or.inl (by decide))

example : ∃ e, roundTrip cfgFixed { xDoc with nets := [xNet, xNet] } = .error e :=
  c05_refuses_second_network cfgFixed _ xNet xNet [] rfl

example : ∃ e, roundTrip cfgFixed { xDoc with nets := [{ xNet with eprojs := [{ id := "e", pre := "zpop", post := "zpop" }] }] } = .error e :=
  c05_refuses_empty_gap_or_continuous_projection cfgFixed _ { xNet with eprojs := [{ id := "e", pre := "zpop", post := "zpop" }] } [] rfl
    { id := "e", pre := "zpop", post := "zpop" } (Or.inl (by simp)) rfl

example : ∃ e, roundTrip cfgFixed { xDoc with nets := [{ xNet with ilists := [{ id := "i", comp := "pg", pop := "zpop" }] }] } = .error e :=
  c05_refuses_empty_input_list cfgFixed _ { xNet with ilists := [{ id := "i", comp := "pg", pop := "zpop" }] } [] rfl
    { id := "i", comp := "pg", pop := "zpop" } (by simp) ⟨rfl, rfl⟩

def xProjUs : Proj :=
  { id := "pu", pre := "zpop", post := "zpop", syn := "syn1",
    connWDs := [{ id := 0, pre := .bracket "zpop" 0, post := .bracket "zpop" 1, weight := some 1, delay := ⟨250, .us⟩ }] }

example : ∃ e, roundTrip cfgFixed { xDoc with nets := [{ xNet with projs := [xProjUs] }] } = .error e :=
  c05_refuses_delay_in_microseconds cfgFixed _ { xNet with projs := [xProjUs] } [] rfl xProjUs (by simp)
    ⟨_, List.mem_singleton.mpr rfl, rfl⟩

end NmlVerif.Hdf5
