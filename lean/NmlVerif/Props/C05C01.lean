import NmlVerif.Props.C05b
import NmlVerif.Props.C01
/-!
# C05 ∘ C01 — "every non-network component identical", at the level of object trees

In `Model/Hdf5.lean` a top-level component is `(member list, id, payload)` with an opaque payload, and
`c05_roundtrip_all_ids` says that the payloads found after the HDF5 round trip are exactly the embedded ones.  The
payload is the XML that `NeuroMLWriter` produces for the component (embedded in the `neuroml_top_level` attribute) and
that `read_neuroml2_string` parses back: C01's topic.  This file composes the two: for component OBJECTS (trees of
the binding model of C01, any class of today's `nml.py`, any depth) every component of the loaded document is the
serialisation of one of the original objects, and parsing it rebuilds exactly that object.
`ren` stands for the (injective or not — it does not matter) rendering of an XML tree as text.
-/
namespace NmlVerif.Hdf5
open NmlVerif.Binding

/-- a top-level component as an object tree: the member list it sits in, its id, the tag it is written under -/
structure CompObj where
  list : String
  id : String
  tag : Nat
  obj : Obj

theorem c05_components_identical_via_c01 (cfg : Cfg) (hc : CfgOK2 cfg) (fuel : Nat) (ren : XNode → String)
    (cs : List CompObj) (hconf : ∀ c ∈ cs, Conforms (flatten NmlVerif.Gen.Bindings.table) fuel c.obj) :
    ∃ X : CompObj → XNode,
      (∀ c ∈ cs, exportObj (flatten NmlVerif.Gen.Bindings.table) fuel c.tag c.obj = some (X c) ∧
                 buildObj (flatten NmlVerif.Gen.Bindings.table) fuel c.obj.cls (X c) = some c.obj) ∧
      ∀ d : Doc, Supported0 cfg d → d.top = cs.map (fun c => ⟨c.list, c.id, ren (X c)⟩) →
        ∃ d', roundTrip cfg d = .ok d' ∧ sem d' = expect cfg.r (sem d) ∧
          ∀ c' ∈ d'.top, ∃ c ∈ cs, c' = ⟨c.list, c.id, ren (X c)⟩ ∧
            buildObj (flatten NmlVerif.Gen.Bindings.table) fuel c.obj.cls (X c) = some c.obj := by
  classical
  let X : CompObj → XNode := fun c =>
    match exportObj (flatten NmlVerif.Gen.Bindings.table) fuel c.tag c.obj with
    | some x => x
    | none => XNode.mk 0 [] none []
  have hX : ∀ c ∈ cs, exportObj (flatten NmlVerif.Gen.Bindings.table) fuel c.tag c.obj = some (X c) ∧
      buildObj (flatten NmlVerif.Gen.Bindings.table) fuel c.obj.cls (X c) = some c.obj := by
    intro c hcm
    obtain ⟨x, hx, _, hb⟩ := c01_roundtrip fuel c.tag c.obj (hconf c hcm)
    have : X c = x := by simp only [X, hx]
    rw [this]
    exact ⟨hx, hb⟩
  refine ⟨X, hX, ?_⟩
  intro d hs htop
  obtain ⟨d', h1, h2, h3, _⟩ := c05_roundtrip_all_ids cfg hc d hs
  refine ⟨d', h1, h2, ?_⟩
  intro c' hc'
  have := h3 c' hc'
  rw [htop] at this
  obtain ⟨c, hcm, rfl⟩ := List.mem_map.mp this
  exact ⟨c, hcm, rfl, (hX c hcm).2⟩

end NmlVerif.Hdf5
