import NmlVerif.Proofs.Hdf5
import NmlVerif.Gen.Hdf5Layout
/-!
# C05 — the table layout read from the source (`Gen/Hdf5Layout.lean`) is the hand model's layout

`translators/hdf5_layout_extract.py` regenerates `Gen/Hdf5Layout.lean` on every run from `nml.py` / `helper_methods.py`
(writer: a symbolic execution of the column bookkeeping of the six `exportHdf5` bodies, one run per guard assignment),
`NeuroMLHdf5Parser.py` (reader: name tests, column lookup, defaults, conversions, handler argument) and
`NetworkBuilder.py` (handler parameter names).  The theorems below are re-checked by the kernel on every run; a change
of a column index, a column name, a default, a group prefix or a member list on either side breaks one of them.

* `c05_gen_cols_*`, `c05_gen_rows_*`   writer (generated) = hand model (`projCols`, `gCols`, `ilCols`, `locCols`, row functions)
* `c05_gen_reader_*`                   hand model's row decoders = the interpretation of the generated reader tables
* `c05_gen_written_is_read_*`, `c05_gen_required_is_written_*`   writer ↔ reader: every column written is looked for
                                        under its name, every column the reader needs is written in every layout
* `c05_gen_cell_meaning_*`             every cell is stored under the header that names its meaning
* `c05_gen_prefixes`, `c05_gen_attrs_*`, `c05_gen_members_*`
-/
namespace NmlVerif.Hdf5
open NmlVerif.Gen

/-! ## writer: headers -/

theorem c05_gen_cols_projection : ∀ sf wd : Bool, Hdf5Layout.wColsProjection sf wd = projCols sf wd := by decide

theorem c05_gen_cols_electrical : ∀ w : Bool, Hdf5Layout.wColsElectricalProjection w = gCols w := by decide

theorem c05_gen_cols_continuous : ∀ w : Bool, Hdf5Layout.wColsContinuousProjection w = gCols w := by decide

theorem c05_gen_cols_input_list : ∀ w : Bool, Hdf5Layout.wColsInputList w = ilCols w := by decide

theorem c05_gen_cols_population :
    Hdf5Layout.wColsPopulation true = locCols ∧ Hdf5Layout.wArrayPopulation true = true ∧
    Hdf5Layout.wArrayPopulation false = false := by decide

/-! ## writer: rows.  A row is rebuilt from the generated (column, source expression) pairs: last assignment wins,
    then the column initialiser, then the `numpy.zeros` value; every cell goes through the float32 rounding. -/

def cellVal (get : String → Option Rat) (cells : List (Nat × String)) (init : List (Nat × Int)) (k : Nat) : Option Rat :=
  match cells.reverse.find? (fun c => c.1 = k) with
  | some c => get c.2
  | none =>
    match init.find? (fun c => c.1 = k) with
    | some c => some (c.2 : Rat)
    | none => some 0

def rowFrom (f : Nat → Option Rat) : Nat → Nat → Option (List Rat)
  | _, 0 => some []
  | s, n + 1 =>
    match f s, rowFrom f (s + 1) n with
    | some v, some vs => some (v :: vs)
    | _, _ => none

def buildRow (r : Rat → Rat) (get : String → Option Rat) (cells : List (Nat × String)) (init : List (Nat × Int))
    (n : Nat) : Option (List Rat) :=
  rowFrom (fun k => (cellVal get cells init k).map r) 0 n

/-- the model's reading of the Python expressions assigned to cells of a chemical projection's table -/
def fieldChem (c : Conn) (d : Rat) (e : String) : Option Rat :=
  if e = "connection.get_pre_cell_id()" then some c.pre.idx
  else if e = "connection.get_post_cell_id()" then some c.post.idx
  else if e = "connection.pre_segment_id" then some c.preSeg
  else if e = "connection.post_segment_id" then some c.postSeg
  else if e = "connection.pre_fraction_along" then some c.preFrac
  else if e = "connection.post_fraction_along" then some c.postFrac
  else if e = "connection.weight" then c.weight
  else if e = "delay" then some d
  else none

/-- … of an electrical / continuous projection's table (`get_weight()`: `None` → 1.0; `.weight`: as is) -/
def fieldGap (c : Conn) (e : String) : Option Rat :=
  if e = "connection.id" then some c.id
  else if e = "connection.get_pre_cell_id()" then some c.pre.idx
  else if e = "connection.get_post_cell_id()" then some c.post.idx
  else if e = "connection.pre_segment" then some c.preSeg
  else if e = "connection.post_segment" then some c.postSeg
  else if e = "connection.pre_fraction_along" then some c.preFrac
  else if e = "connection.post_fraction_along" then some c.postFrac
  else if e = "connection.get_weight()" then some (c.weight.getD 1)
  else if e = "connection.weight" then c.weight
  else none

def fieldInp (cfg : Cfg) (i : Inp) (e : String) : Option Rat :=
  if e = "input.id" then some i.id
  else if e = "input.get_target_cell_id()" then some i.target.idx
  else if e = "input.get_segment_id()" then some (getSeg i)
  else if e = "input.get_fraction_along()" then some (getFrac cfg i)
  else if e = "input.get_weight()" then some (i.weight.getD 1)
  else none

def fieldLoc (i : Inst) (e : String) : Option Rat :=
  if e = "instance.location.x" then some i.x
  else if e = "instance.location.y" then some i.y
  else if e = "instance.location.z" then some i.z
  else none

theorem c05_gen_rows_projection_connections (cfg : Cfg) (hu : cfg.unweighted = 1) (sf wd : Bool) (c : Conn) :
    buildRow cfg.r (fieldChem c 0) (Hdf5Layout.wCellsProjectionConnections sf wd) (Hdf5Layout.wInitProjection sf wd)
      (Hdf5Layout.wColsProjection sf wd).length = some (connRow cfg sf wd c) := by
  cases sf <;> cases wd <;>
    simp [buildRow, rowFrom, cellVal, fieldChem, connRow, sfCells, hu, Hdf5Layout.wCellsProjectionConnections,
      Hdf5Layout.wInitProjection, Hdf5Layout.wColsProjection]

theorem c05_gen_rows_projection_connection_wds (cfg : Cfg) (sf : Bool) (c : Conn) (w d : Rat)
    (hw : c.weight = some w) (hd : delayMs c.delay = .ok d) :
    ∃ row, connWDRow cfg sf c = .ok row ∧
      buildRow cfg.r (fieldChem c d) (Hdf5Layout.wCellsProjectionConnectionWds sf true)
        (Hdf5Layout.wInitProjection sf true) (Hdf5Layout.wColsProjection sf true).length = some row := by
  cases sf <;>
    simp [buildRow, rowFrom, cellVal, fieldChem, connWDRow, sfCells, hw, hd, Hdf5Layout.wCellsProjectionConnectionWds,
      Hdf5Layout.wInitProjection, Hdf5Layout.wColsProjection]

/-- the delay cascade of the writer is the one `delayMs` models: `'ms'` first, then `'s'` (× 1000), and a third
    branch for `'us'` that can never be reached because `'s' in "…us"` already holds -/
theorem c05_gen_delay_rule :
    Hdf5Layout.wDelayRule = [("ms", -2, "*", "1"), ("s", -1, "*", "1000.0"), ("us", -2, "/", "1000.0")] := by decide

theorem c05_gen_rows_electrical_unweighted (cfg : Cfg) (hu : cfg.unweighted = 1) (w : Bool) (c : Conn) :
    buildRow cfg.r (fieldGap c) (Hdf5Layout.wCellsElectricalProjectionElectricalConnections w)
      (Hdf5Layout.wInitElectricalProjection w) (Hdf5Layout.wColsElectricalProjection w).length = some (gRowU cfg w c) ∧
    buildRow cfg.r (fieldGap c) (Hdf5Layout.wCellsElectricalProjectionElectricalConnectionInstances w)
      (Hdf5Layout.wInitElectricalProjection w) (Hdf5Layout.wColsElectricalProjection w).length = some (gRowU cfg w c) := by
  cases w <;>
    simp [buildRow, rowFrom, cellVal, fieldGap, gRowU, gRowBase, sfCells, hu,
      Hdf5Layout.wCellsElectricalProjectionElectricalConnections,
      Hdf5Layout.wCellsElectricalProjectionElectricalConnectionInstances, Hdf5Layout.wInitElectricalProjection,
      Hdf5Layout.wColsElectricalProjection]

theorem c05_gen_rows_electrical_weighted (cfg : Cfg) (c : Conn) :
    (buildRow cfg.r (fieldGap c) (Hdf5Layout.wCellsElectricalProjectionElectricalConnectionInstanceWs true)
      (Hdf5Layout.wInitElectricalProjection true) (Hdf5Layout.wColsElectricalProjection true).length).map Except.ok =
      some (eRowW cfg c) := by
  simp [buildRow, rowFrom, cellVal, fieldGap, eRowW, gRowBase, sfCells,
    Hdf5Layout.wCellsElectricalProjectionElectricalConnectionInstanceWs, Hdf5Layout.wInitElectricalProjection,
    Hdf5Layout.wColsElectricalProjection]

theorem c05_gen_rows_continuous_unweighted (cfg : Cfg) (hu : cfg.unweighted = 1) (w : Bool) (c : Conn) :
    buildRow cfg.r (fieldGap c) (Hdf5Layout.wCellsContinuousProjectionContinuousConnections w)
      (Hdf5Layout.wInitContinuousProjection w) (Hdf5Layout.wColsContinuousProjection w).length = some (gRowU cfg w c) ∧
    buildRow cfg.r (fieldGap c) (Hdf5Layout.wCellsContinuousProjectionContinuousConnectionInstances w)
      (Hdf5Layout.wInitContinuousProjection w) (Hdf5Layout.wColsContinuousProjection w).length = some (gRowU cfg w c) := by
  cases w <;>
    simp [buildRow, rowFrom, cellVal, fieldGap, gRowU, gRowBase, sfCells, hu,
      Hdf5Layout.wCellsContinuousProjectionContinuousConnections,
      Hdf5Layout.wCellsContinuousProjectionContinuousConnectionInstances, Hdf5Layout.wInitContinuousProjection,
      Hdf5Layout.wColsContinuousProjection]

theorem c05_gen_rows_continuous_weighted (cfg : Cfg) (c : Conn) (w : Rat) (hw : c.weight = some w) :
    (buildRow cfg.r (fieldGap c) (Hdf5Layout.wCellsContinuousProjectionContinuousConnectionInstanceWs true)
      (Hdf5Layout.wInitContinuousProjection true) (Hdf5Layout.wColsContinuousProjection true).length).map Except.ok =
      some (cRowW cfg c) := by
  simp [buildRow, rowFrom, cellVal, fieldGap, cRowW, gRowBase, sfCells, hw,
    Hdf5Layout.wCellsContinuousProjectionContinuousConnectionInstanceWs, Hdf5Layout.wInitContinuousProjection,
    Hdf5Layout.wColsContinuousProjection]

theorem c05_gen_rows_input_list (cfg : Cfg) (hu : cfg.unweighted = 1) (w : Bool) (i : Inp) :
    buildRow cfg.r (fieldInp cfg i) (Hdf5Layout.wCellsInputListInput w) (Hdf5Layout.wInitInputList w)
      (Hdf5Layout.wColsInputList w).length = some (inpRowU cfg w i) ∧
    buildRow cfg.r (fieldInp cfg i) (Hdf5Layout.wCellsInputListInputWs true) (Hdf5Layout.wInitInputList true)
      (Hdf5Layout.wColsInputList true).length = some (inpRowW cfg i) := by
  cases w <;>
    simp [buildRow, rowFrom, cellVal, fieldInp, inpRowU, inpRowW, inpRowBase, hu, Hdf5Layout.wCellsInputListInput,
      Hdf5Layout.wCellsInputListInputWs, Hdf5Layout.wInitInputList, Hdf5Layout.wColsInputList]

theorem c05_gen_rows_population (cfg : Cfg) (i : Inst) :
    buildRow cfg.r (fieldLoc i) (Hdf5Layout.wCellsPopulationInstances true) (Hdf5Layout.wInitPopulation true)
      (Hdf5Layout.wColsPopulation true).length = some [cfg.r i.x, cfg.r i.y, cfg.r i.z] := by
  simp [buildRow, rowFrom, cellVal, fieldLoc, Hdf5Layout.wCellsPopulationInstances, Hdf5Layout.wInitPopulation,
    Hdf5Layout.wColsPopulation]

/-! ## every cell is stored under the header that names its meaning -/

/-- the column name under which the reader expects the value of a Python expression of the writer -/
def meaningOf (e : String) : String :=
  if e = "connection.id" ∨ e = "input.id" then "id"
  else if e = "connection.get_pre_cell_id()" then "pre_cell_id"
  else if e = "connection.get_post_cell_id()" then "post_cell_id"
  else if e = "connection.pre_segment_id" ∨ e = "connection.pre_segment" then "pre_segment_id"
  else if e = "connection.post_segment_id" ∨ e = "connection.post_segment" then "post_segment_id"
  else if e = "connection.pre_fraction_along" then "pre_fraction_along"
  else if e = "connection.post_fraction_along" then "post_fraction_along"
  else if e = "connection.weight" ∨ e = "connection.get_weight()" ∨ e = "input.get_weight()" then "weight"
  else if e = "delay" then "delay"
  else if e = "input.get_target_cell_id()" then "target_cell_id"
  else if e = "input.get_segment_id()" then "segment_id"
  else if e = "input.get_fraction_along()" then "fraction_along"
  else if e = "instance.location.x" then "x"
  else if e = "instance.location.y" then "y"
  else if e = "instance.location.z" then "z"
  else "?"

def cellsNamed (cells : List (Nat × String)) (cols : List (Nat × String)) : Bool :=
  cells.all (fun c => cols.contains (c.1, meaningOf c.2))

theorem c05_gen_cell_meaning :
    (∀ sf wd : Bool, cellsNamed (Hdf5Layout.wCellsProjectionConnections sf wd) (Hdf5Layout.wColsProjection sf wd) = true) ∧
    (∀ sf : Bool, cellsNamed (Hdf5Layout.wCellsProjectionConnectionWds sf true) (Hdf5Layout.wColsProjection sf true) = true) ∧
    (∀ w : Bool, cellsNamed (Hdf5Layout.wCellsElectricalProjectionElectricalConnections w) (Hdf5Layout.wColsElectricalProjection w) = true) ∧
    (∀ w : Bool, cellsNamed (Hdf5Layout.wCellsElectricalProjectionElectricalConnectionInstances w) (Hdf5Layout.wColsElectricalProjection w) = true) ∧
    cellsNamed (Hdf5Layout.wCellsElectricalProjectionElectricalConnectionInstanceWs true) (Hdf5Layout.wColsElectricalProjection true) = true ∧
    (∀ w : Bool, cellsNamed (Hdf5Layout.wCellsContinuousProjectionContinuousConnections w) (Hdf5Layout.wColsContinuousProjection w) = true) ∧
    (∀ w : Bool, cellsNamed (Hdf5Layout.wCellsContinuousProjectionContinuousConnectionInstances w) (Hdf5Layout.wColsContinuousProjection w) = true) ∧
    cellsNamed (Hdf5Layout.wCellsContinuousProjectionContinuousConnectionInstanceWs true) (Hdf5Layout.wColsContinuousProjection true) = true ∧
    (∀ w : Bool, cellsNamed (Hdf5Layout.wCellsInputListInput w) (Hdf5Layout.wColsInputList w) = true) ∧
    cellsNamed (Hdf5Layout.wCellsInputListInputWs true) (Hdf5Layout.wColsInputList true) = true ∧
    cellsNamed (Hdf5Layout.wCellsPopulationInstances true) (Hdf5Layout.wColsPopulation true) = true := by
  decide +kernel

/-- the column initialised with 1 for rows without a weight of their own is the `weight` column -/
theorem c05_gen_init_is_weight :
    (∀ sf : Bool, (Hdf5Layout.wInitProjection sf true).all (fun c => (Hdf5Layout.wColsProjection sf true).contains (c.1, "weight") && c.2 = 1) = true) ∧
    (Hdf5Layout.wInitElectricalProjection true).all (fun c => (Hdf5Layout.wColsElectricalProjection true).contains (c.1, "weight") && c.2 = 1) = true ∧
    (Hdf5Layout.wInitContinuousProjection true).all (fun c => (Hdf5Layout.wColsContinuousProjection true).contains (c.1, "weight") && c.2 = 1) = true ∧
    (Hdf5Layout.wInitInputList true).all (fun c => (Hdf5Layout.wColsInputList true).contains (c.1, "weight") && c.2 = 1) = true ∧
    (∀ sf : Bool, Hdf5Layout.wInitProjection sf true ≠ []) ∧ Hdf5Layout.wInitElectricalProjection true ≠ [] ∧
    Hdf5Layout.wInitContinuousProjection true ≠ [] ∧ Hdf5Layout.wInitInputList true ≠ [] := by
  decide +kernel

/-! ## reader: the model's row decoders are the interpretation of the generated reader tables -/

abbrev RSpec := List (String × String × String × String × String)

/-- default written in the source (`0`, `0.5`, `1`, `1.0`) as a rational -/
def dfltOf (s : String) : Option Rat :=
  if s = "0" then some 0 else if s = "0.5" then some (1/2) else if s = "1" ∨ s = "1.0" then some 1 else none

/-- the value handed to handler parameter `param`: the cell of the column named in the table, else the default;
    a `required` column that is missing reads the last cell (index −1) -/
def readParam (spec : RSpec) (cols : List (Nat × String)) (row : List Rat) (param : String) : Except Err Rat :=
  match spec.find? (fun r => r.2.2.2.1 = param) with
  | none => .error .unmodelled
  | some r =>
    if r.2.2.1 = "required" then cellReq row (colIdx cols r.1)
    else match dfltOf r.2.2.1 with
      | some q => cellOr row (colIdx cols r.1) q
      | none => .error .unmodelled

/-- conversion applied to a cell before it is handed over: `int(..)` truncates -/
def convOf (spec : RSpec) (param : String) (v : Rat) : Rat :=
  match spec.find? (fun r => r.2.2.2.1 = param) with
  | some r => if r.2.1 = "int" then ((trunc v : Int) : Rat) else v
  | none => v

/-- the id column: `int(row[ix]) if ix >= 0 else i` (before the C05 repair: `ix > 0`) -/
def readId (idCol0 : Bool) (spec : RSpec) (cols : List (Nat × String)) (i : Nat) (row : List Rat) (param : String) :
    Except Err Int :=
  match spec.find? (fun r => r.2.2.2.1 = param) with
  | none => .error .unmodelled
  | some r =>
    if r.2.2.1 ≠ "rowIndex" ∨ r.2.1 ≠ "int" then .error .unmodelled else
    match colIdx cols r.1 with
    | some k => if (r.2.2.2.2 = ">=" && idCol0) || k > 0 then (cell row k).map trunc else pure (i : Int)
    | none => pure (i : Int)

def decodeConnBySpec (cfg : Cfg) (spec : RSpec) (cols : List (Nat × String)) (i : Nat) (row : List Rat) :
    Except Err RowD := do
  let id ← readId cfg.idCol0 spec cols i row "conn_id"
  let pre ← readParam spec cols row "preCellId"
  let preSeg ← readParam spec cols row "preSegId"
  let preFrac ← readParam spec cols row "preFract"
  let post ← readParam spec cols row "postCellId"
  let postSeg ← readParam spec cols row "postSegId"
  let postFrac ← readParam spec cols row "postFract"
  let weight ← readParam spec cols row "weight"
  let delay ← readParam spec cols row "delay"
  .ok ⟨id, trunc (convOf spec "preCellId" pre), trunc (convOf spec "postCellId" post),
       trunc (convOf spec "preSegId" preSeg), trunc (convOf spec "postSegId" postSeg),
       convOf spec "preFract" preFrac, convOf spec "postFract" postFrac, convOf spec "weight" weight,
       convOf spec "delay" delay⟩

theorem trunc_trunc (v : Rat) : trunc ((trunc v : Int) : Rat) = trunc v := trunc_intCast _

/-- **the connection-table reader of the model is the generated table** (names, defaults, conversions, the handler
    parameter each column feeds), for every table, row and configuration with the repaired id test -/
theorem c05_gen_reader_connections (cfg : Cfg) (hid : cfg.idCol0 = true) (cols : List (Nat × String)) (i : Nat)
    (row : List Rat) : decodeConnRow cfg cols i row = decodeConnBySpec cfg Hdf5Layout.rConn cols i row := by
  simp only [decodeConnRow, decodeConnBySpec, readId, readParam, convOf, Hdf5Layout.rConn, List.find?, dfltOf, hid]
  cases h : colIdx cols "id" <;> simp [h, trunc_trunc, bind, Except.bind, pure, Except.pure]

def decodeInpBySpec (spec : RSpec) (cols : List (Nat × String)) (i : Nat) (row : List Rat) : Except Err InD := do
  let id ← readId true spec cols i row "id"
  let tid ← readParam spec cols row "cellId"
  let seg ← readParam spec cols row "segId"
  let frac ← readParam spec cols row "fract"
  let weight ← readParam spec cols row "weight"
  .ok ⟨id, trunc (convOf spec "cellId" tid), trunc (convOf spec "segId" seg), frac, weight⟩

theorem c05_gen_reader_input_list (cols : List (Nat × String)) (i : Nat) (row : List Rat) :
    decodeInpRow cols i row = decodeInpBySpec Hdf5Layout.rInp cols i row := by
  simp only [decodeInpRow, decodeInpBySpec, readId, readParam, convOf, Hdf5Layout.rInp, List.find?, dfltOf]
  cases h : colIdx cols "id" <;> simp [h, trunc_trunc, bind, Except.bind, pure, Except.pure]

/-- location tables: the same four columns, and the fallback by row width of the model is the generated one -/
theorem c05_gen_reader_locations :
    Hdf5Layout.rLoc.map (fun r => (r.1, r.2.2.1)) =
      [("id", "rowIndex"), ("x", "required"), ("y", "required"), ("z", "required")] ∧
    Hdf5Layout.rLocFallback =
      [("indexId", 4, "indexId", 0), ("indexX", 3, "indexX", 0), ("indexX", 4, "indexX", 1), ("indexY", 3, "indexY", 1),
       ("indexY", 4, "indexY", 2), ("indexZ", 3, "indexZ", 2), ("indexZ", 4, "indexZ", 3)] := by decide

/-- `hasWeights` / `hasDelays` handed to `handle_projection` -/
theorem c05_gen_reader_flags :
    Hdf5Layout.rHasWeights = "indexWeight > 0" ∧ Hdf5Layout.rHasDelays = "indexDelay > 0" := by decide

/-! ## writer ↔ reader -/

def names (spec : RSpec) : List String := spec.map (·.1)
def required (spec : RSpec) : List String := (spec.filter (fun r => r.2.2.1 = "required")).map (·.1)

/-- every column the writer writes is looked for by the reader under the same name … -/
theorem c05_gen_written_is_read :
    (∀ sf wd : Bool, (Hdf5Layout.wColsProjection sf wd).all (fun c => (names Hdf5Layout.rConn).contains c.2) = true) ∧
    (∀ w : Bool, (Hdf5Layout.wColsElectricalProjection w).all (fun c => (names Hdf5Layout.rConn).contains c.2) = true) ∧
    (∀ w : Bool, (Hdf5Layout.wColsContinuousProjection w).all (fun c => (names Hdf5Layout.rConn).contains c.2) = true) ∧
    (∀ w : Bool, (Hdf5Layout.wColsInputList w).all (fun c => (names Hdf5Layout.rInp).contains c.2) = true) ∧
    (Hdf5Layout.wColsPopulation true).all (fun c => (names Hdf5Layout.rLoc).contains c.2) = true := by
  decide +kernel

/-- … and nothing the reader needs is missing: the required columns are written in every layout, each once -/
theorem c05_gen_required_is_written :
    (∀ sf wd : Bool, (required Hdf5Layout.rConn).all (fun n => ((Hdf5Layout.wColsProjection sf wd).filter (fun c => c.2 = n)).length = 1) = true) ∧
    (∀ w : Bool, (required Hdf5Layout.rConn).all (fun n => ((Hdf5Layout.wColsElectricalProjection w).filter (fun c => c.2 = n)).length = 1) = true) ∧
    (∀ w : Bool, (required Hdf5Layout.rConn).all (fun n => ((Hdf5Layout.wColsContinuousProjection w).filter (fun c => c.2 = n)).length = 1) = true) ∧
    (∀ w : Bool, (required Hdf5Layout.rInp).all (fun n => ((Hdf5Layout.wColsInputList w).filter (fun c => c.2 = n)).length = 1) = true) ∧
    (required Hdf5Layout.rLoc).all (fun n => ((Hdf5Layout.wColsPopulation true).filter (fun c => c.2 = n)).length = 1) = true ∧
    required Hdf5Layout.rConn = ["pre_cell_id", "post_cell_id"] ∧ required Hdf5Layout.rInp = ["target_cell_id"] := by
  decide +kernel

/-! ## group names and attributes -/

/-- the writer's group names are the model's, and the reader tests them with `startswith` for the same words -/
theorem c05_gen_prefixes :
    Hdf5Layout.wGroup = [("Network", "network", false), ("Population", "population_", true),
      ("Projection", "projection_", true), ("ElectricalProjection", "projection_", true),
      ("ContinuousProjection", "projection_", true), ("InputList", "inputList_", true)] ∧
    (∀ id, popLeafName id = "population_" ++ id) ∧ (∀ id, projLeafName id = "projection_" ++ id) ∧
    (∀ id, ilLeafName id = "inputList_" ++ id) ∧
    Hdf5Layout.rNameTest = "startswith" ∧
    Hdf5Layout.rPrefixes = ["inputList_", "input_list_", "population_", "projection_"] ∧
    Hdf5Layout.wChildren = ["populations", "projections", "electrical_projections", "continuous_projections", "input_lists"] :=
  ⟨by decide, fun _ => rfl, fun _ => rfl, fun _ => rfl, by decide, by decide, by decide⟩

/-- attribute names written per group = the model's (`encodeNet`, `encodePop`, `projAttrs`, `encodeIList`) -/
theorem c05_gen_attrs_written (cfg : Cfg) (hna : cfg.notesAlways = false) :
    (∀ (id : String) (notes : Option String) (t : String), t.length ≠ 0 →
      (([("id", AttrV.str id)] ++ notesAttr cfg notes ++ tempAttr (some t)).map (·.1)) =
        (Hdf5Layout.wAttrsNetwork notes.isSome true).map (·.1)) ∧
    (∀ (id : String) (notes : Option String),
      (([("id", AttrV.str id)] ++ notesAttr cfg notes ++ tempAttr none).map (·.1)) =
        (Hdf5Layout.wAttrsNetwork notes.isSome false).map (·.1)) ∧
    (∀ id pre post syn, (projAttrs id "projection" pre post ++ [("synapse", AttrV.str syn)]).map (·.1) =
        (Hdf5Layout.wAttrsProjection false false).map (·.1)) ∧
    (∀ id pre post syn, (projAttrs id "electricalProjection" pre post ++ [("synapse", AttrV.str syn)]).map (·.1) =
        (Hdf5Layout.wAttrsElectricalProjection false).map (·.1)) ∧
    (∀ id pre post a b, (projAttrs id "continuousProjection" pre post ++
        [("preComponent", AttrV.str a), ("postComponent", AttrV.str b)]).map (·.1) =
        (Hdf5Layout.wAttrsContinuousProjection false).map (·.1)) ∧
    (Hdf5Layout.wAttrsInputList false).map (·.1) = ["id", "component", "population"] ∧
    (Hdf5Layout.wAttrsPopulation false).map (·.1) = ["id", "component", "property:<p.tag>", "size"] ∧
    (Hdf5Layout.wAttrsPopulation true).map (·.1) = ["id", "component", "property:<p.tag>", "size", "type"] := by
  refine ⟨?_, ?_, ?_, ?_, ?_, by decide, by decide, by decide⟩
  · intro id notes t ht
    cases notes <;> simp [notesAttr, tempAttr, hna, ht, Hdf5Layout.wAttrsNetwork]
  · intro id notes
    cases notes <;> simp [notesAttr, tempAttr, hna, Hdf5Layout.wAttrsNetwork]
  · intro id pre post syn; simp [projAttrs, Hdf5Layout.wAttrsProjection]
  · intro id pre post syn; simp [projAttrs, Hdf5Layout.wAttrsElectricalProjection]
  · intro id pre post a b; simp [projAttrs, Hdf5Layout.wAttrsContinuousProjection]

/-- every attribute the reader asks for is written by the writer of that group (in some layout); the population
    `type` attribute is the only one written that is never read -/
theorem c05_gen_attrs_read :
    Hdf5Layout.rAttrs =
      [("inputList_", ["component", "id", "population", "size"]),
       ("network", ["id", "notes", "temperature"]),
       ("neuroml", ["id", "notes"]),
       ("population_", ["<fname>", "component", "id", "size"]),
       ("projection_", ["id", "postComponent", "postsynapticPopulation", "preComponent", "presynapticPopulation",
                        "synapse", "type"])] := by decide

/-! ## members -/

/-- every member that `nml.py` declares for a class of the network subtree is classified by the model … -/
theorem c05_gen_members_classified :
    Hdf5Layout.members.all (fun m => (fateOf m.1 m.2).isSome) = true := by decide +kernel

/-- … and the model classifies nothing that is not declared -/
theorem c05_gen_members_exact :
    memberFateAll.all (fun r => Hdf5Layout.members.contains (r.1, r.2.1)) = true ∧
    memberFateAll.length = Hdf5Layout.members.length := by decide +kernel

/-- the refusals the writer contains: `synapticConnection`, `explicitInput`, different synapses / components in one
    electrical / continuous projection — the members classified `refused` are exactly the first two -/
theorem c05_gen_refusals :
    Hdf5Layout.wRefusals.map (fun r => (r.1, r.2.2.1)) =
      [("Network", "Exception"), ("Network", "Exception"), ("ElectricalProjection", "Exception"),
       ("ContinuousProjection", "Exception")] ∧
    (Hdf5Layout.wRefusals.map (·.2.1)).take 2 = ["len(self.synaptic_connections) > 0", "len(self.explicit_inputs) > 0"] ∧
    (memberFateAll.filter (fun r => r.2.2 = Fate.refused)).map (fun r => (r.1, r.2.1)) =
      [("Network", "synaptic_connections"), ("Network", "explicit_inputs")] := by decide +kernel

end NmlVerif.Hdf5
