import NmlVerif.Props.C05
/-!
# C05, second pass: weaker hypotheses, more refusals, every member kind, float32 made explicit, the optimized loader

* `c05_roundtrip_all_ids` — `c05_roundtrip_partial` without the side conditions on group names and property tags
  (they hold for EVERY id once the parser tests names with `startswith` and takes the whole tag: `CfgOK2`).
* `c05_refuses_duplicate_group_name`, `c05_refuses_mixed_synapse`, witnesses for a population without size and a
  weighted electrical connection between sized populations.
* `c05_constructs_*`, `c05_members_*` — the last clause of the statement over ALL member kinds of the network subtree.
* `cfgF32_ok`, `c05_roundtrip_f32`, `c05_second_roundtrip_stable` — float32 rounding as the concrete
  round-to-nearest-even function; its idempotence appears only as a hypothesis (`example`s: `id`, sampled `f32`).
* `c05_opt_*` — `NeuroMLHdf5Loader.load(optimized=True)`.
-/
namespace NmlVerif.Hdf5

/-! ## the side conditions on names and tags are gone -/

structure CfgOK2 (cfg : Cfg) : Prop extends CfgOK cfg where
  prefixNames : cfg.prefixNames = true
  tagWhole : cfg.tagWhole = true

structure PopOK0 (p : Pop) : Prop where
  sized : p.insts = [] → ∃ n, p.size = some n
  ids : IdsAreIndex 0 p.insts
  tagsNodup : (p.props.map (·.1)).Nodup

/-- `NetOK` without `kPop … kIL` (group names of every id are classified correctly) and without `tagsCut` -/
structure NetOK0 (cfg : Cfg) (top : List Comp) (n : Net) : Prop where
  noSyn : n.nSynConn = 0
  noExp : n.nExplicit = 0
  pops : ∀ p ∈ n.pops, PopOK0 p
  names : (leafNames n).Nodup
  projs : ∀ p ∈ n.projs, ProjOK cfg.r p ∧ ∃ a b, popOf n p.pre = some a ∧ popOf n p.post = some b
  eprojs : ∀ p ∈ n.eprojs, GSupp cfg false top n p
  cprojs : ∀ p ∈ n.cprojs, GSupp cfg true top n p
  ils : ∀ l ∈ n.ilists, ILOK cfg l ∧ ∃ a, popOf n l.pop = some a

def Supported0 (cfg : Cfg) (d : Doc) : Prop := d.nets = [] ∨ ∃ n, d.nets = [n] ∧ NetOK0 cfg d.top n

theorem netOK_of_netOK0 (cfg : Cfg) (hc : CfgOK2 cfg) (top : List Comp) (n : Net) (h : NetOK0 cfg top n) :
    NetOK cfg top n :=
  { noSyn := h.noSyn, noExp := h.noExp,
    pops := fun p hp => ⟨(h.pops p hp).sized, (h.pops p hp).ids, (h.pops p hp).tagsNodup,
                         fun kv _ => cutTag_whole cfg hc.tagWhole kv.1⟩,
    names := h.names,
    kPop := fun p _ => kindOf_pop_prefix cfg hc.prefixNames p.id,
    kProj := fun p _ => kindOf_proj_prefix cfg hc.prefixNames p.id,
    kEProj := fun p _ => kindOf_proj_prefix cfg hc.prefixNames p.id,
    kCProj := fun p _ => kindOf_proj_prefix cfg hc.prefixNames p.id,
    kIL := fun l _ => kindOf_il_prefix cfg hc.prefixNames l.id,
    projs := h.projs, eprojs := h.eprojs, cprojs := h.cprojs, ils := h.ils }

/-- **Round trip for every id and every property tag** (repaired parser): no hypothesis mentions group names or tags
    any more — population `projection_x`, input list `population_1`, property `a:b` included. -/
theorem c05_roundtrip_all_ids (cfg : Cfg) (hc : CfgOK2 cfg) (d : Doc) (hs : Supported0 cfg d) :
    ∃ d', roundTrip cfg d = .ok d' ∧ sem d' = expect cfg.r (sem d) ∧ (∀ c, c ∈ d'.top → c ∈ d.top) ∧
      ((d.top.map Comp.key).Nodup → ∀ c ∈ d.top, c ∈ d'.top) := by
  apply c05_roundtrip_partial cfg hc.toCfgOK d
  rcases hs with h | ⟨n, hn, hok⟩
  · exact Or.inl h
  · exact Or.inr ⟨n, hn, netOK_of_netOK0 cfg hc d.top n hok⟩

/-- no group name is ever ambiguous for the repaired parser -/
theorem c05_group_names_unambiguous (cfg : Cfg) (hc : CfgOK2 cfg) (name : String) : kindOf cfg name ≠ .ambiguous :=
  kindOf_never_ambiguous cfg hc.prefixNames name

example : CfgOK2 cfgFixed := { toCfgOK := cfgOK_of_id _ rfl rfl rfl rfl, prefixNames := rfl, tagWhole := rfl }

/-- hypotheses satisfiable: a population called `projection_x` with a property tag `a:b` -/
example : Supported0 cfgFixed { id := "d", nets := [{ id := "n", pops := [{ id := "projection_x", comp := "iz", size := some 2,
                                                                             props := [("a:b", "v")] }] }] } := by
  refine Or.inr ⟨_, rfl, ?_⟩
  refine { noSyn := rfl, noExp := rfl, pops := ?_, names := by decide +kernel, projs := ?_, eprojs := ?_, cprojs := ?_,
           ils := ?_ }
  · exact forall_one ⟨fun _ => ⟨2, rfl⟩, trivial, by decide +kernel⟩
  all_goals (intro x hx; cases hx)

/-! ## more refusals -/

theorem collect_error_of_seen : ∀ (seen : List String) (bodies : List (String × Except Err Leaf)),
    (∃ b ∈ bodies, b.1 ∈ seen) → ∃ e, collect seen bodies = .error e
  | _, [], h => by obtain ⟨b, hb, _⟩ := h; cases hb
  | seen, (nm, body) :: rest, h => by
    unfold collect
    by_cases hs : nm ∈ seen
    · exact ⟨.nodeError, by simp [hs]⟩
    · simp only [hs, if_false]
      cases body with
      | error e => exact ⟨e, rfl⟩
      | ok l =>
        obtain ⟨b, hb, hbs⟩ := h
        have hb' : b ∈ rest := by
          rcases List.mem_cons.mp hb with rfl | hb'
          · exact absurd hbs hs
          · exact hb'
        obtain ⟨e, he⟩ := collect_error_of_seen (nm :: seen) rest ⟨b, hb', List.mem_cons_of_mem _ hbs⟩
        exact ⟨e, by simp [he]⟩

theorem collect_error_of_dup : ∀ (seen : List String) (bodies : List (String × Except Err Leaf)),
    ¬ (bodies.map (·.1)).Nodup → ∃ e, collect seen bodies = .error e
  | _, [], h => absurd List.nodup_nil h
  | seen, (nm, body) :: rest, h => by
    unfold collect
    by_cases hs : nm ∈ seen
    · exact ⟨.nodeError, by simp [hs]⟩
    · simp only [hs, if_false]
      cases body with
      | error e => exact ⟨e, rfl⟩
      | ok l =>
        by_cases hin : nm ∈ rest.map (·.1)
        · obtain ⟨b, hb, hbn⟩ := List.mem_map.mp hin
          obtain ⟨e, he⟩ := collect_error_of_seen (nm :: seen) rest ⟨b, hb, by rw [hbn]; exact List.mem_cons_self⟩
          exact ⟨e, by simp [he]⟩
        · have : ¬ (rest.map (·.1)).Nodup := by
            intro hnd
            exact h (by simpa [List.nodup_cons] using ⟨by simpa using hin, hnd⟩)
          obtain ⟨e, he⟩ := collect_error_of_dup (nm :: seen) rest this
          exact ⟨e, by simp [he]⟩

/-- **duplicate group names are refused** (`tables.NodeError` from `create_group`, or an earlier exception): two
    populations with one id, a projection and an electrical projection with one id, … — whatever else the network
    holds -/
theorem c05_refuses_duplicate_group_name (cfg : Cfg) (d : Doc) (n : Net) (rest : List Net) (hd : d.nets = n :: rest)
    (hdup : ¬ (leafNames n).Nodup) : ∃ e, roundTrip cfg d = .error e := by
  have hnet : ∃ e, encodeNet cfg n = .error e := by
    unfold encodeNet
    cases hp : collect [] (popBodies cfg n) with
    | error e => exact ⟨e, rfl⟩
    | ok pl =>
      simp only []
      by_cases h1 : n.nSynConn > 0
      · exact ⟨.exception, by simp [h1]⟩
      · by_cases h2 : n.nExplicit > 0
        · exact ⟨.exception, by simp [h1, h2]⟩
        · simp only [h1, h2, if_false]
          have hpn : ((popBodies cfg n).map (·.1)).Nodup := by
            apply Classical.byContradiction
            intro hh
            obtain ⟨e, he⟩ := collect_error_of_dup [] (popBodies cfg n) hh
            rw [he] at hp; cases hp
          have hother : (∃ b ∈ otherBodies cfg n, b.1 ∈ ((popBodies cfg n).map (·.1)).reverse) ∨
              ¬ ((otherBodies cfg n).map (·.1)).Nodup := by
            apply Classical.byContradiction
            intro hh
            have hh1 : ∀ b ∈ otherBodies cfg n, b.1 ∉ (popBodies cfg n).map (·.1) := by
              intro b hb hin
              exact hh (Or.inl ⟨b, hb, List.mem_reverse.mpr hin⟩)
            have hh2 : ((otherBodies cfg n).map (·.1)).Nodup := by
              apply Classical.byContradiction
              intro h3; exact hh (Or.inr h3)
            apply hdup
            unfold leafNames
            rw [← popBodies_fst, ← otherBodies_fst]
            rw [List.nodup_append]
            refine ⟨hpn, hh2, ?_⟩
            intro a ha b hb hab
            obtain ⟨bb, hbb, rfl⟩ := List.mem_map.mp hb
            exact hh1 bb hbb (hab ▸ ha)
          rcases hother with h | h
          · obtain ⟨e, he⟩ := collect_error_of_seen _ _ h
            exact ⟨e, by simp [he]⟩
          · obtain ⟨e, he⟩ := collect_error_of_dup ((popBodies cfg n).map (·.1)).reverse _ h
            exact ⟨e, by simp [he]⟩
  obtain ⟨e, he⟩ := encodeDoc_error_of_net cfg d n rest hd hnet
  exact ⟨e, by simp [roundTrip, he]⟩

example : ∃ e, roundTrip cfgFixed { xDoc with nets := [{ xNet with pops := [xZ, xZ] }] } = .error e :=
  c05_refuses_duplicate_group_name cfgFixed _ { xNet with pops := [xZ, xZ] } [] rfl (by decide +kernel)

theorem encodeGProj_mixed (cfg : Cfg) (hm : cfg.refuseMixed = true) (cont : Bool) (p : GProj) (c0 : Conn)
    (hf : firstConn p = .ok c0) (h : ∃ c ∈ p.all, c.syn ≠ c0.syn) : encodeGProj cfg cont p = .error .exception := by
  obtain ⟨c, hc, hne⟩ := h
  have hu : uniformG cont c0 (p.plain ++ p.insts ++ p.instWs) = false := by
    unfold uniformG
    rw [List.all_eq_false]
    exact ⟨c, hc, by simp [hne]⟩
  unfold encodeGProj
  simp only [hf, hm, hu, Bool.not_false, Bool.and_self, if_true]

/-- **an electrical / continuous projection whose connections name different synapses (post components) is refused**
    by the repaired writer instead of being written with the first connection's -/
theorem c05_refuses_mixed_synapse (cfg : Cfg) (hm : cfg.refuseMixed = true) (d : Doc) (n : Net) (rest : List Net)
    (hd : d.nets = n :: rest) (p : GProj) (hp : p ∈ n.eprojs ∨ p ∈ n.cprojs) (c0 : Conn) (hf : firstConn p = .ok c0)
    (h : ∃ c ∈ p.all, c.syn ≠ c0.syn) : ∃ e, roundTrip cfg d = .error e := by
  have hb : ∃ b ∈ otherBodies cfg n, ∃ e, b.2 = .error e := by
    rcases hp with hp | hp
    · exact ⟨(projLeafName p.id, encodeGProj cfg false p), by
        simp only [otherBodies, List.mem_append, List.mem_map]
        exact Or.inl (Or.inl (Or.inr ⟨p, hp, rfl⟩)), .exception, encodeGProj_mixed cfg hm false p c0 hf h⟩
    · exact ⟨(projLeafName p.id, encodeGProj cfg true p), by
        simp only [otherBodies, List.mem_append, List.mem_map]
        exact Or.inl (Or.inr ⟨p, hp, rfl⟩), .exception, encodeGProj_mixed cfg hm true p c0 hf h⟩
  obtain ⟨e, he⟩ := encodeDoc_error_of_net cfg d n rest hd (encodeNet_error_of_body cfg n hb)
  exact ⟨e, by simp [roundTrip, he]⟩

example : ∃ e, roundTrip cfgFixed wMixed = .error e :=
  c05_refuses_mixed_synapse cfgFixed rfl wMixed _ [] rfl _ (Or.inl (List.mem_singleton.mpr rfl))
    { id := 0, pre := .plain 1, post := .plain 2, syn := "gj" } rfl
    ⟨{ id := 1, pre := .plain 2, post := .plain 3, syn := "gj2" }, by decide +kernel, by decide⟩

/-- a population with neither a size nor instances is written (`size` attribute = None) and refused by the loader
    (`size >= 0` with None: TypeError) -/
def wNoSize : Doc := { id := "d", top := wTop, nets := [{ id := "n", pops := [wZ, { id := "q", comp := "iz" }] }] }

theorem c05_population_without_size_witness : errOf (roundTrip cfgFixed wNoSize) = some .typeError := by decide +kernel

/-! ## the last clause over ALL member kinds: stored, recomputed, refused — or silently dropped (findings) -/

/-- FULL statement with the members the structural model does not carry: nothing may be dropped silently -/
def c05_constructs_full (cfg : Cfg) : Prop :=
  ∀ x : XDoc, (∃ x', roundTripX cfg x = .ok x' ∧ semX x' = expectX cfg.r (semX x)) ∨ (∃ e, roundTripX cfg x = .error e)

/-- what is proved of it: documents that set none of the members the layout has no place for -/
theorem c05_constructs_partial (cfg : Cfg) (hc : CfgOK2 cfg) (x : XDoc) (hs : Supported0 cfg x.doc) (hx : x.extras = []) :
    ∃ x', roundTripX cfg x = .ok x' ∧ semX x' = expectX cfg.r (semX x) := by
  obtain ⟨d', h1, h2, _⟩ := c05_roundtrip_all_ids cfg hc x.doc hs
  exact ⟨⟨d', []⟩, by simp [roundTripX, h1], by simp [semX, expectX, h2, hx]⟩

/-- **every member outside the layout is dropped without an exception**, whatever it is and whatever else the
    (otherwise supported) document holds: the write and the load succeed and the member is gone.  This is the
    general form of the open findings `C05:silently-dropped:*`. -/
theorem c05_extras_always_dropped (cfg : Cfg) (hc : CfgOK2 cfg) (x : XDoc) (hs : Supported0 cfg x.doc)
    (hx : x.extras ≠ []) : ∃ x', roundTripX cfg x = .ok x' ∧ semX x' ≠ expectX cfg.r (semX x) := by
  obtain ⟨d', h1, _, _⟩ := c05_roundtrip_all_ids cfg hc x.doc hs
  refine ⟨⟨d', []⟩, by simp [roundTripX, h1], ?_⟩
  intro h
  have := congrArg XSem.extras h
  simp [semX, expectX] at this
  exact hx this

theorem c05_constructs_witness : ¬ c05_constructs_full cfgFixed := by
  intro hfull
  have hc : CfgOK2 cfgFixed := { toCfgOK := cfgOK_of_id _ rfl rfl rfl rfl, prefixNames := rfl, tagWhole := rfl }
  have hs : Supported0 cfgFixed ({ doc := { id := "d" }, extras := [("Network", "spaces")] } : XDoc).doc := Or.inl rfl
  obtain ⟨x', h1, h2⟩ := c05_extras_always_dropped cfgFixed hc _ hs (by simp)
  rcases hfull { doc := { id := "d" }, extras := [("Network", "spaces")] } with ⟨y, hy, hsem⟩ | ⟨e, he⟩
  · rw [h1] at hy; cases hy; exact h2 hsem
  · rw [h1] at he; cases he

/-- FULL statement over the member kinds: every member `nml.py` declares for a class of the network subtree has a
    place in the layout (stored / recomputed) or makes the writer raise -/
def c05_members_full : Prop := ∀ r ∈ memberFateAll, r.2.2 ≠ Fate.dropped

def droppedMembers : List (String × String) :=
  [("NeuroMLDocument", "metaid"), ("NeuroMLDocument", "annotation"),
   ("Network", "metaid"), ("Network", "properties"), ("Network", "annotation"), ("Network", "neuro_lex_id"),
   ("Network", "spaces"), ("Network", "regions"), ("Network", "extracellular_properties"), ("Network", "cell_sets"),
   ("Population", "metaid"), ("Population", "notes"), ("Population", "annotation"),
   ("Population", "extracellular_properties"), ("Population", "neuro_lex_id"), ("Population", "layout"),
   ("Instance", "i"), ("Instance", "j"), ("Instance", "k"),
   ("Connection", "neuro_lex_id"), ("ConnectionWD", "neuro_lex_id"), ("Input", "destination"), ("InputW", "destination"),
   ("ElectricalConnection", "neuro_lex_id"), ("ElectricalConnectionInstance", "neuro_lex_id"),
   ("ElectricalConnectionInstanceW", "neuro_lex_id"), ("ContinuousConnection", "neuro_lex_id"),
   ("ContinuousConnectionInstance", "neuro_lex_id"), ("ContinuousConnectionInstanceW", "neuro_lex_id")]

/-- every member is stored, recomputed or refused — except exactly the listed ones (the open findings) -/
theorem c05_members_partial :
    ∀ r ∈ memberFateAll, (r.1, r.2.1) ∉ droppedMembers → r.2.2 ≠ Fate.dropped := by decide +kernel

theorem c05_members_dropped_exact :
    (memberFateAll.filter (fun r => r.2.2 = Fate.dropped)).map (fun r => (r.1, r.2.1)) = droppedMembers := by
  decide +kernel

theorem c05_members_witness : ¬ c05_members_full := by
  intro h
  exact h ("Network", "spaces", Fate.dropped) (by decide +kernel) rfl

/-- the members that are refused are exactly `synapticConnection` and `explicitInput`, and the model raises for them -/
theorem c05_members_refused :
    (memberFateAll.filter (fun r => r.2.2 = Fate.refused)).map (fun r => (r.1, r.2.1)) =
      [("Network", "synaptic_connections"), ("Network", "explicit_inputs")] := by decide +kernel

/-! ## float32 made explicit -/

/-- the configuration of the repaired code with the concrete float32 rounding -/
def cfgF32 : Cfg := { r := f32, fracTruthy := false }

theorem f32_zero : f32 0 = 0 := by decide +kernel
theorem f32_one : f32 1 = 1 := by decide +kernel
theorem f32_half : f32 (1/2) = 1/2 := by decide +kernel

theorem cfgF32_ok : CfgOK2 cfgF32 :=
  { half := f32_half, one := f32_one, zero := f32_zero, unweighted := rfl, idCol0 := rfl, notesAlways := rfl,
    prefixNames := rfl, tagWhole := rfl }

/-- **Table values are preserved to float32 precision**: with round-to-nearest-even on 24 bits as `r`, the loaded
    document is the float32 view of the written one -/
theorem c05_roundtrip_f32 (d : Doc) (hs : Supported0 cfgF32 d) :
    ∃ d', roundTrip cfgF32 d = .ok d' ∧ sem d' = expect f32 (sem d) := by
  obtain ⟨d', h1, h2, _⟩ := c05_roundtrip_all_ids cfgF32 cfgF32_ok d hs
  exact ⟨d', h1, h2⟩

/-- what float32 does to values that are not representable (0.1, 0.3, 1.0000000001, 12345.678), to ties, to an
    integer beyond 2^24 and to a subnormal — kernel-evaluated -/
theorem f32_samples :
    f32 (1/10) = 13421773/134217728 ∧ f32 (3/10) = 5033165/16777216 ∧ f32 (10000000001/10000000000) = 1 ∧
    f32 (12345678/1000) = 6320987/512 ∧ f32 16777217 = 16777216 ∧ f32 16777219 = 16777220 ∧
    f32 (-3/2) = -3/2 ∧ f32 (1/1427247692705959881058285969449495136382746624) = 0 ∧
    f32 (3/1427247692705959881058285969449495136382746624) = 1/356811923176489970264571492362373784095686656 := by
  refine ⟨?_, ?_, ?_, ?_, ?_, ?_, ?_, ?_, ?_⟩ <;> decide +kernel

/-- idempotence of the rounding on the sampled values (the general fact is only ever a hypothesis, see below) -/
theorem f32_idem_samples :
    ∀ x ∈ [(1/10 : Rat), 3/10, 10000000001/10000000000, 12345678/1000, 16777217, 16777219, -3/2, 999/1000, 7/16, 5/2],
      f32 (f32 x) = f32 x := by decide +kernel

/-- integers below 2^24 are exact (sampled; `Exact` is a hypothesis of the round-trip theorems) -/
example : Exact f32 5 ∧ Exact f32 199 ∧ Exact f32 16777215 ∧ Exact f32 (-7) ∧ ¬ Exact f32 16777217 := by
  unfold Exact; decide +kernel

theorem filter_filter_same {α : Type} (p : α → Bool) (l : List α) : (l.filter p).filter p = l.filter p := by
  simp [List.filter_filter]

theorem filter_filter_not {α : Type} (p : α → Bool) (l : List α) : (l.filter p).filter (fun a => !p a) = [] := by
  rw [List.filter_filter]
  apply filter_none
  intro a _
  cases p a <;> rfl

theorem filter_not_filter {α : Type} (p : α → Bool) (l : List α) : (l.filter (fun a => !p a)).filter p = [] := by
  rw [List.filter_filter]
  apply filter_none
  intro a _
  cases p a <;> rfl

theorem canonConns_idem (l : List SemConn) : canonConns (canonConns l) = canonConns l := by
  unfold canonConns
  have e : (fun c : SemConn => decide (c.weight ≠ 1)) = (fun c => !decide (c.weight = 1)) := by
    funext c; simp
  rw [e]
  have h2 : ∀ l : List SemConn, (l.filter (fun c => !decide (c.weight = 1))).filter (fun c => !decide (c.weight = 1)) =
      l.filter (fun c => !decide (c.weight = 1)) := fun l => filter_filter_same _ l
  simp only [List.filter_append, filter_filter_same, filter_filter_not, filter_not_filter, h2, List.append_nil,
    List.nil_append]

theorem canonInps_idem (l : List SemInp) : canonInps (canonInps l) = canonInps l := by
  unfold canonInps
  have e : (fun c : SemInp => decide (c.weight ≠ 1)) = (fun c => !decide (c.weight = 1)) := by
    funext c; simp
  rw [e]
  have h2 : ∀ l : List SemInp, (l.filter (fun c => !decide (c.weight = 1))).filter (fun c => !decide (c.weight = 1)) =
      l.filter (fun c => !decide (c.weight = 1)) := fun l => filter_filter_same _ l
  simp only [List.filter_append, filter_filter_same, filter_filter_not, filter_not_filter, h2, List.append_nil,
    List.nil_append]

theorem map_id_of_forall {α : Type} (f : α → α) (l : List α) (h : ∀ a ∈ l, f a = a) : l.map f = l := by
  induction l with
  | nil => rfl
  | cons a as ih =>
    simp only [List.map_cons]
    rw [h a List.mem_cons_self, ih (fun b hb => h b (List.mem_cons_of_mem _ hb))]

theorem mem_canonConns {l : List SemConn} {c : SemConn} (h : c ∈ canonConns l) : c ∈ l := by
  unfold canonConns at h
  rcases List.mem_append.mp h with h | h <;> exact (List.mem_filter.mp h).1

theorem mem_canonInps {l : List SemInp} {c : SemInp} (h : c ∈ canonInps l) : c ∈ l := by
  unfold canonInps at h
  rcases List.mem_append.mp h with h | h <;> exact (List.mem_filter.mp h).1

/-- the float32 view is a projection as soon as the rounding is idempotent -/
theorem expectNet_idem (r : Rat → Rat) (hid : ∀ x, r (r x) = r x) (n : SemNet) :
    expectNet r (expectNet r n) = expectNet r n := by
  have hc : ∀ c : SemConn, rConn r (rConn r c) = rConn r c := by intro c; simp [rConn, hid]
  have hi : ∀ c : SemInp, rInp r (rInp r c) = rInp r c := by intro c; simp [rInp, hid]
  have hp : ∀ p : SemProj, rProj r (rProj r p) = rProj r p := by
    intro p; simp [rProj, List.map_map, Function.comp_def, hc]
  have hg : ∀ p : SemProj, canonProj (rProj r (canonProj (rProj r p))) = canonProj (rProj r p) := by
    intro p
    simp only [canonProj, rProj]
    rw [map_id_of_forall (rConn r) (canonConns (p.conns.map (rConn r))) (by
      intro c hcm
      obtain ⟨c0, _, rfl⟩ := List.mem_map.mp (mem_canonConns hcm)
      exact hc c0), canonConns_idem]
  have hl : ∀ l : SemIL, rIL r (rIL r l) = rIL r l := by
    intro l
    simp only [rIL]
    rw [map_id_of_forall (rInp r) (canonInps (l.inputs.map (rInp r))) (by
      intro c hcm
      obtain ⟨c0, _, rfl⟩ := List.mem_map.mp (mem_canonInps hcm)
      exact hi c0), canonInps_idem]
  have hpop : ∀ p : SemPop, rPop r (rPop r p) = rPop r p := by
    intro p; simp [rPop, List.map_map, Function.comp_def, hid]
  simp only [expectNet, List.map_map, Function.comp_def, hp, hg, hl, hpop]

theorem expect_idem (r : Rat → Rat) (hid : ∀ x, r (r x) = r x) (s : SemDoc) : expect r (expect r s) = expect r s := by
  simp only [expect, List.map_map, Function.comp_def, expectNet_idem r hid]

/-- **writing the loaded document again changes nothing more**: if both round trips succeed with the property's
    conclusion, the second loaded document describes exactly what the first one does.  The idempotence of the
    rounding is the only fact about `r` that is assumed (hypothesis `hid`, never an axiom). -/
theorem c05_second_roundtrip_stable (cfg : Cfg) (hid : ∀ x, cfg.r (cfg.r x) = cfg.r x) (d d' d'' : Doc)
    (h1 : sem d' = expect cfg.r (sem d)) (h2 : sem d'' = expect cfg.r (sem d')) : sem d'' = sem d' := by
  rw [h2, h1, expect_idem cfg.r hid]

/-- the hypothesis is satisfiable: exact arithmetic -/
example : ∀ x : Rat, cfgFixed.r (cfgFixed.r x) = cfgFixed.r x := fun _ => rfl

/-! ## the optimized loader -/

/-- FULL statement for `load(optimized=True)` -/
def c05_opt_full (cfg : Cfg) : Prop :=
  ∀ d : Doc, (∃ d', roundTripOpt cfg true d = .ok d' ∧ sem d' = expect cfg.r (sem d)) ∨
    (∃ e, roundTripOpt cfg true d = .error e)

def differsOpt (cfg : Cfg) (popNames : Bool) (d : Doc) : Bool :=
  match roundTripOpt cfg popNames d with
  | .ok d' => decide (sem d' ≠ expect cfg.r (sem d))
  | .error _ => false

theorem not_opt_full_of_differs {cfg : Cfg} {d : Doc} (h : differsOpt cfg true d = true) : ¬ c05_opt_full cfg := by
  intro hfull
  unfold differsOpt at h
  rcases hfull d with ⟨d', hd, hs⟩ | ⟨e, he⟩
  · rw [hd] at h; simp at h; exact h hs
  · rw [he] at h; cases h

/-- a document the optimized loader gets right: sized and instance based populations, plain connections with
    segments and fractions, inputs numbered by their row -/
def oDoc : Doc :=
  { id := "d", notes := some "n", top := wTop,
    nets := [{ id := "n", notes := some "m", temperature := some "32degC", pops := [xZ, xA],
               projs := [{ id := "pr", pre := "zpop", post := "apop", syn := "syn1",
                           conns := [{ id := 0, pre := .bracket "zpop" 1, post := .slash "apop" 1 "iaf", preSeg := 2,
                                       postFrac := 1/4 },
                                     { id := 1, pre := .bracket "zpop" 4, post := .slash "apop" 0 "iaf" }] }],
               ilists := [{ id := "il", comp := "pg", pop := "apop",
                            inputs := [{ id := 0, target := .slash "apop" 1 "iaf" },
                                       { id := 1, target := .slash "apop" 0 "iaf", seg := some 3, frac := some (1/4) }] }] }] }

theorem c05_opt_example : differsOpt cfgFixed true oDoc = false ∧ (roundTripOpt cfgFixed true oDoc).isOk = true := by
  constructor <;> decide +kernel

/-- REPAIRED (`fixes/C05-optimized-population-names.patch`): the lists were created without their population names,
    every cell reference read `../None/i/???` -/
theorem c05_opt_unfixed_population_names : differsOpt cfgFixed false oDoc = true := by decide +kernel

/-- KNOWN FINDING `C05:optimized:weight-delay-dropped`: `ConnectionList` builds plain `Connection`s, the weight and
    delay columns are never read -/
def oWDProj : Proj :=
  { id := "pr", pre := "zpop", post := "apop", syn := "syn1",
    connWDs := [{ id := 0, pre := .bracket "zpop" 1, post := .slash "apop" 1 "iaf", weight := some (1/2), delay := ⟨2, .ms⟩ }] }
def oWD : Doc := { id := "d", top := wTop, nets := [{ id := "n", pops := [xZ, xA], projs := [oWDProj] }] }

theorem c05_opt_witness_weight_delay_dropped : ¬ c05_opt_full cfgFixed :=
  not_opt_full_of_differs (d := oWD) (by decide +kernel)

/-- KNOWN FINDING `C05:optimized:input-weight-dropped`: `InputsList` builds plain `Input`s -/
def oIWList : IList :=
  { id := "il", comp := "pg", pop := "apop", inputWs := [{ id := 0, target := .slash "apop" 1 "iaf", weight := some (1/2) }] }
def oIW : Doc := { id := "d", top := wTop, nets := [{ id := "n", pops := [xZ, xA], ilists := [oIWList] }] }

theorem c05_opt_witness_input_weight_dropped : ¬ c05_opt_full cfgFixed :=
  not_opt_full_of_differs (d := oIW) (by decide +kernel)

def errOfOpt (d : Doc) : Option Err := match roundTripOpt cfgFixed true d with | .error e => some e | .ok _ => none

def oIdList : IList := { id := "il", comp := "pg", pop := "apop", inputs := [{ id := 4, target := .slash "apop" 1 "iaf" }] }
def oIds : Doc := { id := "d", top := wTop, nets := [{ id := "n", pops := [xZ, xA], ilists := [oIdList] }] }

/-- refusals of the optimized loader (exceptions, nothing dropped): electrical / continuous projections
    ("Cannot yet export … to optimized HDF5 format"), input ids that are not the row number (`assert`) -/
theorem c05_opt_refusals :
    errOfOpt xDoc = some .exception ∧ errOfOpt oIds = some .assertionError := by
  refine ⟨?_, ?_⟩ <;> decide +kernel

/-- REPAIRED (`fixes/C07-parser-builder-reuse.patch`), was `C05:optimized:refused:no-network`: **every document without
    a network** (top-level components only, any notes) is loaded by the optimized loader with the same id, notes and
    components — a theorem about the repaired model, for all such documents -/
theorem c05_opt_no_network (cfg : Cfg) (hc : CfgOK cfg) (hn : cfg.optNoNet = true) (popNames : Bool) (d : Doc)
    (hd : d.nets = []) :
    ∃ d', roundTripOpt cfg popNames d = .ok d' ∧ sem d' = expect cfg.r (sem d) ∧ (∀ c, c ∈ d'.top → c ∈ d.top) ∧
      ((d.top.map Comp.key).Nodup → ∀ c ∈ d.top, c ∈ d'.top) := by
  have hm := top_merge d.top [] (by simp)
  refine ⟨{ id := d.id, notes := strAttr cfg ([("id", AttrV.str d.id)] ++ notesAttr cfg d.notes) "notes",
            nets := [], top := addAll d.top [] }, ?_, ?_, ?_, ?_⟩
  · simp only [roundTripOpt, encodeDoc, hd, decodeDocOpt, docAttrs_id, hn, bind, Except.bind, pure, Except.pure,
      Option.getD_some, if_true]
  · have hnotes := docAttrs_notes cfg hc.notesAlways d
    simp only [List.singleton_append] at hnotes
    simp [sem, expect, hd, hnotes]
  · simpa using hm.1
  · simpa using hm.2

/-- the old shape: `self.optimizedNetwork` was never assigned, `get_nml_doc` raised AttributeError -/
theorem c05_opt_unfixed_no_network :
    (match roundTripOpt { cfgFixed with optNoNet := false } true { id := "d", top := wTop } with
      | .error e => some e | .ok _ => none) = some .attributeError ∧
    errOfOpt { id := "d", top := wTop } = none ∧ differsOpt cfgFixed true { id := "d", top := wTop } = false := by
  refine ⟨?_, ?_, ?_⟩ <;> decide +kernel

example : ∃ d', roundTripOpt cfgFixed true { id := "d", notes := some "n", top := wTop } = .ok d' ∧
    sem d' = expect cfgFixed.r (sem { id := "d", notes := some "n", top := wTop }) := by
  obtain ⟨d', h1, h2, _⟩ := c05_opt_no_network cfgFixed (cfgOK_of_id _ rfl rfl rfl rfl) rfl true
    { id := "d", notes := some "n", top := wTop } rfl
  exact ⟨d', h1, h2⟩

end NmlVerif.Hdf5
