import NmlVerif.Proofs.Include
/-!
# C06 — include resolution merges every included component once and always terminates

Model: `NmlVerif.Include` (`Model/Include.lean`), tied to `neuroml/loaders.py` + `neuroml/utils.py` +
`neuroml/hdf5/NeuroMLHdf5Parser.py` by the correspondence check `harness/props/c06.py` (generated include
graphs on disk, real loader vs `Drivers/C06.lean`: result document in order, and the log of files parsed).

`sh : Bool` selects how the includes of the XML embedded in an HDF5 file are resolved: `false` is today's code
(the HDF5 parser starts an `already_included` list of its own), `true` the proposed repair
`fixes/C06-hdf5-shared-include-list.patch`.  Every theorem that needs it takes `h5 : sh = false → H5Leaf fs`:
for the repaired code (`sh = true`) this is no hypothesis at all, for today's code it restricts the statement to
trees whose HDF5 files include nothing; the `…_today_witness` theorems show the restriction is necessary.

Clause ↔ theorem
* terminates for every include graph ............ `c06_terminates`, `c06_terminates_string`
* union of the components of all reachable files . `c06_doc_by_log` + `c06_log_eq_reachable` (exact list), `c06_union(_string)` (key sets) — all hypothesis-free
* a file contributes once however many paths ..... `c06_log_nodup(_string)`, `c06_idless_once(_string)`, `c06_idless_count`, `c06_marked_eq_reachable`
* an id once per list ............................ `c06_nodup`, `c06_nodup_file`
* order (not in the statement; the code fixes it) . `c06_log_dfs`, `c06_doc_by_log`
* hrefs resolve against the including file's dir .. `c06_resolves_against_including_dir`, `c06_absolute_href`
* same result from any such working directory .... `c06_cwd_independent`, `c06_cwd_independent_file`, `c06_cwd_independent_string`
* the tree under test (translator) ............... `Props/C06Tree.lean`: `c06_gen_same`, `c06_tree`
-/
namespace NmlVerif.Include

theorem unv_le_length (U al : List Path) : unv U al ≤ U.length := by
  unfold unv; exact List.countP_le_length

/-! ## termination -/

/-- **Termination, every include graph** (chains, diamonds, self loops, cycles; missing files and bad
    extensions included): with `U` any list containing every path an include can resolve to, reading the
    entry file with fuel `|U| + 1` never runs out of fuel. -/
theorem c06_terminates (sh : Bool) (fs : FS) (cwd : Path) (U : List Path) (hclosed : ClosedIn fs cwd U)
    (h5 : sh = false → H5Leaf fs) (p : Path) : readFile sh fs cwd (U.length + 1) p ≠ .outOfFuel := by
  have key : ∀ al, visit sh fs cwd (U.length + 1) p al ≠ .outOfFuel := by
    intro al he
    have := (visit_terminates sh fs cwd U hclosed h5 (U.length + 1) p al
      (by have := unv_le_length U al; omega)).1
    rw [he] at this
    simp [Res.isOut] at this
  unfold readFile
  split
  · split
    · split
      · intro h; cases h
      · intro he; exact key _ he
    · split
      · intro h; cases h
      · intro he; exact key _ he
  · exact key _

theorem c06_terminates_string (sh : Bool) (fs : FS) (cwd base : Path) (U : List Path) (hclosed : ClosedIn fs cwd U)
    (h5 : sh = false → H5Leaf fs) (hrefs : List (List String)) (comps : List Comp)
    (hU : ∀ h ∈ hrefs, resolveHref fs cwd base h ∈ U) :
    readString sh fs cwd base (U.length + 1) hrefs comps ≠ .outOfFuel := by
  unfold readString
  intro he
  have h := (fold_ok sh fs cwd base U (visit sh fs cwd (U.length + 1)) (U.length + 1)
    (fun p al hlt => visit_terminates sh fs cwd U hclosed h5 _ p al hlt)
    (by
      intro hsh _ q hk
      cases hq : fs q with
      | none => simp [visit, hq, Res.isOut]
      | some qf => rw [visit_leaf sh fs cwd U.length q qf [] hq (h5 hsh q qf hq hk)]; rfl)
    hrefs hU [] [] comps (by have := unv_le_length U []; omega)).1
  rw [he] at h
  simp [Res.isOut] at h

/-- the full termination clause, as a statement about one way of handling HDF5 includes -/
def c06_terminates_full (sh : Bool) : Prop :=
  ∀ (fs : FS) (cwd : Path) (U : List Path), ClosedIn fs cwd U → ∀ p, readFile sh fs cwd (U.length + 1) p ≠ .outOfFuel

/-- the repaired code terminates on every include graph, HDF5 files with includes and cycles through them included -/
theorem c06_terminates_repaired : c06_terminates_full true :=
  fun fs cwd U hc p => c06_terminates true fs cwd U hc (fun h => by cases h) p

/-! ## what a successful read returns -/

/-- **The document is the left-to-right merge of the files in the order they were read** (every entry point
    of the file kind; no hypothesis on the include graph, on HDF5 files or on `sh`): the log starts with the
    entry file, and the document is `add_all_to_document` applied file after file to the entry file's own
    components (which, for an HDF5 entry file, have themselves been merged into an empty document). -/
theorem c06_doc_by_log (sh : Bool) (fs : FS) (cwd : Path) (fuel : Nat) (p : Path) (al' log : List Path)
    (doc : List Comp) (h : readFile sh fs cwd fuel p = .ok al' log doc) :
    ∃ file rest, fs p = some file ∧ log = p :: rest ∧
      doc = addAll (compsOfAll fs rest) (if entryIsH5 p then addAll file.comps [] else file.comps) := by
  unfold readFile at h
  by_cases he : entryIsH5 p = true
  · simp only [he, if_true] at h ⊢
    have key : ∀ al a l d, visit sh fs cwd fuel p al = .ok a l d →
        ∃ file rest, fs p = some file ∧ l = p :: rest ∧
          addAll d [] = addAll (compsOfAll fs rest) (addAll file.comps []) := by
      intro al a l d hv
      obtain ⟨file, rest, hf, hl, hd⟩ := visit_doc sh fs cwd fuel p al a l d hv
      exact ⟨file, rest, hf, hl, by rw [hd, addAll_assoc]⟩
    cases sh with
    | true =>
      simp only [if_true] at h
      cases hv : visit true fs cwd fuel p [p] with
      | ok a l d =>
        simp only [hv] at h; cases h
        exact key _ _ _ _ hv
      | outOfFuel => simp [hv] at h
      | missing => simp [hv] at h
      | badExt => simp [hv] at h
    | false =>
      simp only [Bool.false_eq_true, if_false] at h
      cases hv : visit false fs cwd fuel p [] with
      | ok a l d =>
        simp only [hv] at h; cases h
        exact key _ _ _ _ hv
      | outOfFuel => simp [hv] at h
      | missing => simp [hv] at h
      | badExt => simp [hv] at h
  · simp only [he, Bool.false_eq_true, if_false] at h ⊢
    exact visit_doc sh fs cwd fuel p [p] al' log doc h

/-- string entry point: the string's own components, then the files read, in order -/
theorem c06_doc_by_log_string (sh : Bool) (fs : FS) (cwd base : Path) (fuel : Nat)
    (hrefs : List (List String)) (comps : List Comp) (al' log : List Path) (doc : List Comp)
    (h : readString sh fs cwd base fuel hrefs comps = .ok al' log doc) :
    doc = addAll (compsOfAll fs log) comps := by
  unfold readString at h
  obtain ⟨new, hl, hd⟩ := fold_doc sh fs cwd base (visit sh fs cwd fuel) (visit_doc sh fs cwd fuel)
    hrefs [] [] comps al' log doc h
  simp only [List.nil_append] at hl
  rw [hl, hd]

/-- **Every file is read at most once** (XML entry): the log has no duplicates. -/
theorem c06_log_nodup (sh : Bool) (fs : FS) (cwd : Path) (h5 : sh = false → H5Leaf fs) (fuel : Nat) (p : Path)
    (al' log : List Path) (doc : List Comp) (h : visit sh fs cwd fuel p [p] = .ok al' log doc) : log.Nodup := by
  have V := visit_spec sh fs cwd h5 fuel p [p] al' log doc h
  obtain ⟨new, rfl, F⟩ := V.shape
  exact List.nodup_cons.mpr ⟨fun hm => F.notin p hm (by simp), F.nodup⟩

/-- the marks are the log (entry first, then latest first) -/
theorem c06_marks_eq_log (sh : Bool) (fs : FS) (cwd : Path) (h5 : sh = false → H5Leaf fs) (fuel : Nat) (p : Path)
    (al' log : List Path) (doc : List Comp) (h : visit sh fs cwd fuel p [p] = .ok al' log doc) :
    al' = log.reverse := by
  have V := visit_spec sh fs cwd h5 fuel p [p] al' log doc h
  obtain ⟨new, rfl, F⟩ := V.shape
  rw [F.marks]; simp

/-- the files marked as included are exactly the reachable ones -/
theorem c06_marked_eq_reachable (sh : Bool) (fs : FS) (cwd : Path) (h5 : sh = false → H5Leaf fs) (fuel : Nat)
    (p : Path) (al' log : List Path) (doc : List Comp) (h : visit sh fs cwd fuel p [p] = .ok al' log doc) :
    ∀ q, q ∈ al' ↔ Reach fs cwd p q := by
  have V := visit_spec sh fs cwd h5 fuel p [p] al' log doc h
  have hal : al' = log.reverse := c06_marks_eq_log sh fs cwd h5 fuel p al' log doc h
  intro q
  constructor
  · intro hq
    exact V.reach q (by rw [hal] at hq; simpa using hq)
  · intro r
    induction r with
    | refl => obtain ⟨new, _, F⟩ := V.shape; exact F.mono p (by simp)
    | @step q' file h' _ hq hh ih =>
      have hi : resolveHref fs cwd q'.dropLast h' ∈ incs fs cwd q' := by
        simp only [incs, hq, List.mem_map]; exact ⟨h', hh, rfl⟩
      have hq'log : q' ∈ log := by rw [hal] at ih; simpa using ih
      obtain ⟨new, hlog, _⟩ := V.shape
      rw [hlog] at hq'log
      rcases List.mem_cons.mp hq'log with e | e
      · subst e; exact V.closedP _ hi
      · exact V.closedN q' (by rw [hlog]; exact e) _ hi

/-- **Every reachable file is read, and nothing else** — no hypothesis: any include graph, HDF5 files with
    includes of their own, either way of resolving them (`sh`).  The log enumerates the files reachable from the
    entry through include links.  (That it does so without repetition is `c06_log_nodup`.) -/
theorem c06_log_eq_reachable (sh : Bool) (fs : FS) (cwd : Path) (fuel : Nat)
    (p : Path) (al' log : List Path) (doc : List Comp) (h : visit sh fs cwd fuel p [p] = .ok al' log doc) :
    ∀ q, q ∈ log ↔ Reach fs cwd p q := by
  have W := visit_wspec sh fs cwd fuel p [p] al' log doc h
  intro q
  constructor
  · exact W.reach q
  · intro r
    induction r with
    | refl => exact W.head
    | @step q' file h' _ hq hh ih =>
      have hi : resolveHref fs cwd q'.dropLast h' ∈ incs fs cwd q' := by
        simp only [incs, hq, List.mem_map]; exact ⟨h', hh, rfl⟩
      rcases W.closed q' ih _ hi with e | e
      · exact e
      · have : resolveHref fs cwd q'.dropLast h' = p := by simpa using e
        rw [this]; exact W.head

/-- **Order.** The log is the depth-first preorder of the include graph (`dfsList`, a plain graph traversal
    that knows nothing about documents), started at the entry file with the entry file marked. Together with
    `c06_doc_by_log` this fixes the order of every member list of the result. -/
theorem c06_log_dfs (sh : Bool) (fs : FS) (cwd : Path) (h5 : sh = false → H5Leaf fs) (fuel : Nat)
    (p : Path) (al' log : List Path) (doc : List Comp) (h : visit sh fs cwd fuel p [p] = .ok al' log doc) :
    log = p :: (dfsList (incs fs cwd) fuel (incs fs cwd p) [p]).2 := by
  obtain ⟨rest, hl, hd⟩ := visit_dfs sh fs cwd h5 fuel p [p] al' log doc h
  rw [hl, hd]

/-- **Components without an id: each reachable file contributes its own exactly once.** The id-less
    components of the result are those of the files of the log, file after file in document order — and the
    log is a duplicate-free enumeration of the reachable files (`c06_log_nodup`, `c06_log_eq_reachable`). -/
theorem c06_idless_once (sh : Bool) (fs : FS) (cwd : Path) (fuel : Nat) (p : Path) (al' log : List Path)
    (doc : List Comp) (h : readFile sh fs cwd fuel p = .ok al' log doc) :
    doc.filter idless = (compsOfAll fs log).filter idless := by
  obtain ⟨file, rest, hf, rfl, rfl⟩ := c06_doc_by_log sh fs cwd fuel p al' log doc h
  rw [filter_idless_addAll]
  have e : compsOfAll fs (p :: rest) = file.comps ++ compsOfAll fs rest := by simp [compsOfAll, compsOf, hf]
  rw [e, List.filter_append]
  congr 1
  split
  · rw [filter_idless_addAll]; simp
  · rfl

/-- the same as a count: an id-less component occurs in the result as often as it occurs in the reachable
    files, each file counted once -/
theorem c06_idless_count (sh : Bool) (fs : FS) (cwd : Path) (fuel : Nat) (p : Path) (al' log : List Path)
    (doc : List Comp) (h : readFile sh fs cwd fuel p = .ok al' log doc) (c : Comp) (hc : idless c = true) :
    doc.count c = (log.map (fun q => (compsOf fs q).count c)).sum := by
  have h1 : doc.count c = (doc.filter idless).count c := by
    rw [List.count_filter hc]
  rw [h1, c06_idless_once sh fs cwd fuel p al' log doc h, List.count_filter hc]
  clear h h1
  induction log with
  | nil => simp [compsOfAll]
  | cons q l ih =>
    have : compsOfAll fs (q :: l) = compsOf fs q ++ compsOfAll fs l := by simp [compsOfAll]
    rw [this, List.count_append, ih]; simp

theorem c06_idless_once_string (sh : Bool) (fs : FS) (cwd base : Path) (fuel : Nat)
    (hrefs : List (List String)) (comps : List Comp) (al' log : List Path) (doc : List Comp)
    (h : readString sh fs cwd base fuel hrefs comps = .ok al' log doc) :
    doc.filter idless = comps.filter idless ++ (compsOfAll fs log).filter idless := by
  rw [c06_doc_by_log_string sh fs cwd base fuel hrefs comps al' log doc h, filter_idless_addAll]

def fileKeys (fs : FS) (q : Path) : List (String × Ident) := keys (compsOf fs q)

theorem mem_keys_compsOfAll (fs : FS) (l : List Path) (k : String × Ident) :
    k ∈ keys (compsOfAll fs l) ↔ ∃ q ∈ l, k ∈ fileKeys fs q := by
  simp only [keys, compsOfAll, fileKeys, List.mem_map, List.mem_flatMap]
  constructor
  · rintro ⟨c, ⟨q, hq, hc⟩, rfl⟩; exact ⟨q, hq, c, hc, rfl⟩
  · rintro ⟨q, hq, c, hc, rfl⟩; exact ⟨c, ⟨q, hq, hc⟩, rfl⟩

/-- **Union.** When reading an XML entry file returns a document, its `(list, id)` keys are exactly the keys
    of the files reachable from the entry through include links (no hypothesis on the graph or on `sh`). -/
theorem c06_union (sh : Bool) (fs : FS) (cwd : Path) (fuel : Nat) (p : Path)
    (al' log : List Path) (doc : List Comp) (h : visit sh fs cwd fuel p [p] = .ok al' log doc) :
    ∀ k, k ∈ keys doc ↔ ∃ q, Reach fs cwd p q ∧ k ∈ fileKeys fs q := by
  have hr := c06_log_eq_reachable sh fs cwd fuel p al' log doc h
  obtain ⟨file, rest, hf, hl, hd⟩ := visit_doc sh fs cwd fuel p [p] al' log doc h
  intro k
  rw [hd, mem_keys_addAll, mem_keys_compsOfAll]
  have hpk : fileKeys fs p = keys file.comps := by simp [fileKeys, compsOf, hf]
  constructor
  · rintro (hk | ⟨q, hq, hk⟩)
    · exact ⟨p, Reach.refl p, by rw [hpk]; exact hk⟩
    · exact ⟨q, (hr q).mp (by rw [hl]; simp [hq]), hk⟩
  · rintro ⟨q, r, hk⟩
    have hq := (hr q).mpr r
    rw [hl] at hq
    rcases List.mem_cons.mp hq with e | e
    · subst e; exact Or.inl (by rw [← hpk]; exact hk)
    · exact Or.inr ⟨q, e, hk⟩

/-- string entry point (`base_path` given), no hypothesis: the files read are those reachable from the string's
    includes, and the keys of the result are the string's own plus theirs -/
theorem c06_union_string (sh : Bool) (fs : FS) (cwd base : Path) (fuel : Nat)
    (hrefs : List (List String)) (comps : List Comp) (al' log : List Path) (doc : List Comp)
    (h : readString sh fs cwd base fuel hrefs comps = .ok al' log doc) :
    (∀ q, q ∈ log ↔ ∃ h ∈ hrefs, Reach fs cwd (resolveHref fs cwd base h) q) ∧
    ∀ k, k ∈ keys doc ↔ k ∈ keys comps ∨ ∃ q, (∃ h ∈ hrefs, Reach fs cwd (resolveHref fs cwd base h) q) ∧ k ∈ fileKeys fs q := by
  have hd := c06_doc_by_log_string sh fs cwd base fuel hrefs comps al' log doc h
  unfold readString at h
  obtain ⟨new, hl, S⟩ := fold_wspec sh fs cwd base (visit sh fs cwd fuel) (visit_wspec sh fs cwd fuel)
    hrefs [] [] comps al' log doc h
  simp only [List.nil_append] at hl
  subst hl
  have hmem : ∀ q, q ∈ al' → q ∈ log := by
    intro q hq; rcases S.marks q hq with e | e
    · cases e
    · exact e
  have hreach : ∀ q, q ∈ log ↔ ∃ h ∈ hrefs, Reach fs cwd (resolveHref fs cwd base h) q := by
    intro q
    constructor
    · exact S.reach q
    · rintro ⟨h', hh', r⟩
      induction r with
      | refl => exact hmem _ (S.closedH h' hh')
      | @step q' file h'' _ hq hh ih =>
        rcases S.closedN q' ih _ (by simp only [incs, hq, List.mem_map]; exact ⟨h'', hh, rfl⟩) with e | e
        · exact e
        · cases e
  refine ⟨hreach, ?_⟩
  intro k
  rw [hd, mem_keys_addAll, mem_keys_compsOfAll]
  constructor
  · rintro (hk | ⟨q, hq, hk⟩)
    · exact Or.inl hk
    · exact Or.inr ⟨q, (hreach q).mp hq, hk⟩
  · rintro (hk | ⟨q, hq, hk⟩)
    · exact Or.inl hk
    · exact Or.inr ⟨q, (hreach q).mpr hq, hk⟩

/-- string entry point: every file is read at most once -/
theorem c06_log_nodup_string (sh : Bool) (fs : FS) (cwd base : Path) (h5 : sh = false → H5Leaf fs) (fuel : Nat)
    (hrefs : List (List String)) (comps : List Comp) (al' log : List Path) (doc : List Comp)
    (h : readString sh fs cwd base fuel hrefs comps = .ok al' log doc) : log.Nodup := by
  unfold readString at h
  have hleaf : ∀ q qf a a' sl sub, fs q = some qf → qf.hrefs = [] → visit sh fs cwd fuel q a = .ok a' sl sub →
      a' = a ∧ sl = [q] := by
    intro q qf a a' sl sub hq hl hv
    cases fuel with
    | zero => simp [visit] at hv
    | succ g => rw [visit_leaf sh fs cwd g q qf a hq hl] at hv; cases hv; exact ⟨rfl, rfl⟩
  have hsome : ∀ q a a' sl sub, visit sh fs cwd fuel q a = .ok a' sl sub → ∃ qf, fs q = some qf := by
    intro q a a' sl sub hv
    cases fuel with
    | zero => simp [visit] at hv
    | succ g =>
      cases hq : fs q with
      | none => simp [visit, hq] at hv
      | some qf => exact ⟨qf, rfl⟩
  obtain ⟨new, hl, S⟩ := fold_spec sh fs cwd base (visit sh fs cwd fuel) (visit_spec sh fs cwd h5 fuel) hleaf hsome h5
    hrefs [] [] comps al' log doc h
  simp only [List.nil_append] at hl
  subst hl
  exact S.fresh.nodup

/-- **Once per list.** No `(list, id)` key of a component that has an id occurs twice in the result if none
    does in the entry file itself (whatever the recursive reader returns). -/
theorem c06_nodup (sh : Bool) (fs : FS) (cwd base : Path) (rec : Path → List Path → Res) :
    ∀ (hs : List (List String)) (a l : List Path) (d : List Comp) (al' l' : List Path) (doc : List Comp),
      (idKeys d).Nodup → hs.foldl (step sh fs cwd base rec) (.ok a l d) = .ok al' l' doc → (idKeys doc).Nodup
  | [], a, l, d, al', l', doc, hd, h => by simp only [List.foldl_nil] at h; cases h; exact hd
  | h :: hs, a, l, d, al', l', doc, hd, hfold => by
    obtain ⟨a1, l1, d1, hst, hrest⟩ := fold_cons_ok_inv hfold
    refine c06_nodup sh fs cwd base rec hs a1 l1 d1 al' l' doc ?_ hrest
    rcases step_ok_inv hst with ⟨_, _, _, rfl⟩ | ⟨_, a', sl, sub, _, rfl, _⟩
    · exact hd
    · exact nodup_idKeys_addAll _ _ hd

/-- the same for the file entry point; an HDF5 entry file needs no hypothesis (its own components are merged
    into an empty document first) -/
theorem c06_nodup_file (sh : Bool) (fs : FS) (cwd : Path) (fuel : Nat) (p : Path) (al' log : List Path)
    (doc : List Comp) (h : readFile sh fs cwd fuel p = .ok al' log doc)
    (hd : entryIsH5 p = false → (idKeys (compsOf fs p)).Nodup) : (idKeys doc).Nodup := by
  obtain ⟨file, rest, hf, _, rfl⟩ := c06_doc_by_log sh fs cwd fuel p al' log doc h
  apply nodup_idKeys_addAll
  split
  · exact nodup_idKeys_addAll _ _ (by simp [idKeys])
  · rename_i hne
    have := hd (by simpa using hne)
    simpa [compsOf, hf] using this

/-! ## working directory -/

/-- **A relative href that does not resolve from the working directory resolves against the including
    file's directory.** -/
theorem c06_resolves_against_including_dir (fs : FS) (cwd base : Path) (h : List String)
    (hno : fs (norm (join cwd h)) = none) : resolveHref fs cwd base h = norm (join base h) := by
  simp [resolveHref, hno]

/-- an absolute href denotes the same file from everywhere -/
theorem c06_absolute_href (fs : FS) (cwd base : Path) (h : List String) (ha : isAbs h = true) :
    resolveHref fs cwd base h = norm h := by
  simp [resolveHref, join, ha]

/-- reachability when every href is taken relative to the including file's directory -/
inductive ReachB (fs : FS) : Path → Path → Prop where
  | refl (p : Path) : ReachB fs p p
  | step {p q : Path} {file : File} {h : List String} :
      ReachB fs p q → fs q = some file → h ∈ file.hrefs → ReachB fs p (norm (join q.dropLast h))

/-- no href of a file reachable from `p` resolves from `cwd` (hrefs that are absolute resolve from anywhere
    and are exempt: they denote the same file from every working directory) -/
def NoCwdHit (fs : FS) (cwd p : Path) : Prop :=
  ∀ q file, ReachB fs p q → fs q = some file → ∀ h ∈ file.hrefs, isAbs h = true ∨ fs (norm (join cwd h)) = none

theorem resolve_of_noHit (fs : FS) (cwd base : Path) (h : List String)
    (hh : isAbs h = true ∨ fs (norm (join cwd h)) = none) : resolveHref fs cwd base h = norm (join base h) := by
  rcases hh with ha | hn
  · simp [resolveHref, join, ha]
  · simp [resolveHref, hn]

theorem step_congr (sh : Bool) (fs : FS) (cwd₁ cwd₂ base : Path) (rec₁ rec₂ : Path → List Path → Res)
    (acc : Res) (h : List String)
    (hres : resolveHref fs cwd₁ base h = resolveHref fs cwd₂ base h)
    (hrec : ∀ al, rec₁ (resolveHref fs cwd₂ base h) al = rec₂ (resolveHref fs cwd₂ base h) al) :
    step sh fs cwd₁ base rec₁ acc h = step sh fs cwd₂ base rec₂ acc h := by
  unfold step
  rw [hres]
  cases acc with
  | ok al l d => simp only [hrec]
  | _ => rfl

/-- **Working-directory independence.** From two working directories from which no href of a file reachable
    from `p` resolves, reading `p` gives the same result (document, order, log, errors) — for every marked
    list, every amount of fuel, both ways of handling HDF5 includes. -/
theorem c06_cwd_independent (sh : Bool) (fs : FS) (cwd₁ cwd₂ : Path) (p : Path)
    (h₁ : NoCwdHit fs cwd₁ p) (h₂ : NoCwdHit fs cwd₂ p) :
    ∀ fuel q al, ReachB fs p q → visit sh fs cwd₁ fuel q al = visit sh fs cwd₂ fuel q al := by
  intro fuel
  induction fuel with
  | zero => intro q al _; rfl
  | succ f ih =>
    intro q al hq
    unfold visit
    cases hp : fs q with
    | none => rfl
    | some file =>
      simp only
      have : ∀ (hs : List (List String)), (∀ h ∈ hs, h ∈ file.hrefs) → ∀ acc,
          hs.foldl (step sh fs cwd₁ q.dropLast (visit sh fs cwd₁ f)) acc =
            hs.foldl (step sh fs cwd₂ q.dropLast (visit sh fs cwd₂ f)) acc := by
        intro hs
        induction hs with
        | nil => intro _ acc; rfl
        | cons h hs ihs =>
          intro hmem acc
          simp only [List.foldl_cons]
          have hin : h ∈ file.hrefs := hmem h (by simp)
          have r1 := resolve_of_noHit fs cwd₁ q.dropLast h (h₁ q file hq hp h hin)
          have r2 := resolve_of_noHit fs cwd₂ q.dropLast h (h₂ q file hq hp h hin)
          have e : step sh fs cwd₁ q.dropLast (visit sh fs cwd₁ f) acc h =
              step sh fs cwd₂ q.dropLast (visit sh fs cwd₂ f) acc h := by
            apply step_congr
            · rw [r1, r2]
            · intro al'
              rw [r2]
              exact ih _ al' (ReachB.step hq hp hin)
          rw [e]
          exact ihs (fun h' hh' => hmem h' (by simp [hh'])) _
      exact this file.hrefs (fun _ hh => hh) _

theorem c06_cwd_independent_file (sh : Bool) (fs : FS) (cwd₁ cwd₂ : Path) (p : Path)
    (h₁ : NoCwdHit fs cwd₁ p) (h₂ : NoCwdHit fs cwd₂ p) (fuel : Nat) :
    readFile sh fs cwd₁ fuel p = readFile sh fs cwd₂ fuel p := by
  unfold readFile
  simp only [c06_cwd_independent sh fs cwd₁ cwd₂ p h₁ h₂ fuel p _ (ReachB.refl p)]

/-- string entry point with `base_path`: the hrefs of the string itself and of every file reachable from
    them must not resolve from either working directory -/
theorem c06_cwd_independent_string (sh : Bool) (fs : FS) (cwd₁ cwd₂ base : Path) (hrefs : List (List String))
    (comps : List Comp) (fuel : Nat)
    (hs₁ : ∀ h ∈ hrefs, isAbs h = true ∨ fs (norm (join cwd₁ h)) = none)
    (hs₂ : ∀ h ∈ hrefs, isAbs h = true ∨ fs (norm (join cwd₂ h)) = none)
    (h₁ : ∀ h ∈ hrefs, NoCwdHit fs cwd₁ (norm (join base h)))
    (h₂ : ∀ h ∈ hrefs, NoCwdHit fs cwd₂ (norm (join base h))) :
    readString sh fs cwd₁ base fuel hrefs comps = readString sh fs cwd₂ base fuel hrefs comps := by
  unfold readString
  have : ∀ (hs : List (List String)), (∀ h ∈ hs, h ∈ hrefs) → ∀ acc,
      hs.foldl (step sh fs cwd₁ base (visit sh fs cwd₁ fuel)) acc =
        hs.foldl (step sh fs cwd₂ base (visit sh fs cwd₂ fuel)) acc := by
    intro hs
    induction hs with
    | nil => intro _ acc; rfl
    | cons h hs ihs =>
      intro hmem acc
      simp only [List.foldl_cons]
      have hin : h ∈ hrefs := hmem h (by simp)
      have r1 := resolve_of_noHit fs cwd₁ base h (hs₁ h hin)
      have r2 := resolve_of_noHit fs cwd₂ base h (hs₂ h hin)
      have e : step sh fs cwd₁ base (visit sh fs cwd₁ fuel) acc h =
          step sh fs cwd₂ base (visit sh fs cwd₂ fuel) acc h := by
        apply step_congr
        · rw [r1, r2]
        · intro al'
          rw [r2]
          exact c06_cwd_independent sh fs cwd₁ cwd₂ _ (h₁ h hin) (h₂ h hin) fuel _ al' (ReachB.refl _)
      rw [e]
      exact ihs (fun h' hh' => hmem h' (by simp [hh'])) _
  exact this hrefs (fun _ hh => hh) _

/-! ## witnesses and examples -/

/-- the two-file cycle `a.nml ↔ b.nml` -/
def cyc : FS := fun p =>
  if p = ["a.nml"] then some ⟨[["b.nml"]], [⟨"cells", .val "ca", "a"⟩]⟩
  else if p = ["b.nml"] then some ⟨[["a.nml"]], [⟨"cells", .val "cb", "b"⟩]⟩ else none

/-- the loop as it was before the repair 5bb970b (mark after return) exhausts every amount of fuel on the cycle -/
theorem c06_unfixed_diverges : ∀ f p, p = ["a.nml"] ∨ p = ["b.nml"] → visitOld cyc [] f p [] = .outOfFuel := by
  intro f
  induction f with
  | zero => intro p _; rfl
  | succ f ih =>
    intro p hp
    rcases hp with rfl | rfl
    · simp [visitOld, cyc, stepOld, resolveHref, join, isAbs, norm, ih ["b.nml"] (Or.inr rfl), (by decide : kindOf ["b.nml"] = .xml)]
    · simp [visitOld, cyc, stepOld, resolveHref, join, isAbs, norm, ih ["a.nml"] (Or.inl rfl), (by decide : kindOf ["a.nml"] = .xml)]

/-- today's loop on the same cycle: both components, once; both files read once -/
example : readFile false cyc [] 3 ["a.nml"] =
    .ok [["b.nml"], ["a.nml"]] [["a.nml"], ["b.nml"]] [⟨"cells", .val "ca", "a"⟩, ⟨"cells", .val "cb", "b"⟩] := by
  decide

/-- the hypotheses of the theorems are satisfiable on a non-trivial graph (the cycle) -/
example : H5Leaf cyc := by
  intro p f hp hk
  unfold cyc at hp
  split at hp
  · rename_i e; subst e; exact absurd hk (by decide)
  · split at hp
    · rename_i e; subst e; exact absurd hk (by decide)
    · cases hp

example : ClosedIn cyc [] [["a.nml"], ["b.nml"]] := by
  intro p file hp h hh
  unfold cyc at hp
  split at hp
  · rename_i e; subst e; cases hp; simp at hh; subst hh; decide
  · split at hp
    · rename_i e; subst e; cases hp; simp at hh; subst hh; decide
    · cases hp

/-- the diamond of the brief: `top.nml` includes `left/l.nml` and `right/r.nml`, both include
    `../shared/s.nml`, which holds a `<property>` (no id), a component with an id and one whose id is missing;
    `l.nml` spells the shared file differently and includes it twice, `s.nml` includes the entry file -/
def diamond : FS := fun p =>
  if p = ["top.nml"] then some ⟨[["left", "l.nml"], ["right", "r.nml"]], [⟨"properties", .absent, "top"⟩]⟩
  else if p = ["left", "l.nml"] then
    some ⟨[["..", "shared", "s.nml"], ["..", "left", "..", "shared", ".", "s.nml"]], [⟨"cells", .val "c", "l"⟩, ⟨"cells", .unset, "l"⟩]⟩
  else if p = ["right", "r.nml"] then some ⟨[["", "shared", "s.nml"]], [⟨"cells", .val "c", "r"⟩]⟩
  else if p = ["shared", "s.nml"] then
    some ⟨[["..", "top.nml"]], [⟨"properties", .absent, "s"⟩, ⟨"cells", .val "c", "s"⟩, ⟨"cells", .unset, "s"⟩]⟩
  else none

/-- the shared file is read once and its `<property>` arrives once; `c` and the id-less-by-omission cell are
    de-duplicated in favour of the first file read; the order is the depth-first one -/
example : readFile false diamond ["elsewhere"] 5 ["top.nml"] =
    .ok [["right", "r.nml"], ["shared", "s.nml"], ["left", "l.nml"], ["top.nml"]]
      [["top.nml"], ["left", "l.nml"], ["shared", "s.nml"], ["right", "r.nml"]]
      [⟨"properties", .absent, "top"⟩, ⟨"cells", .val "c", "l"⟩, ⟨"cells", .unset, "l"⟩, ⟨"properties", .absent, "s"⟩] := by
  decide

/-- the working-directory hypothesis is satisfiable on the diamond (which has an absolute href) -/
example : NoCwdHit diamond ["x", "y"] ["top.nml"] := by
  intro q file _ hq h hh
  unfold diamond at hq
  split at hq
  · cases hq; simp at hh; rcases hh with rfl | rfl <;> exact Or.inr (by decide)
  · split at hq
    · cases hq; simp at hh; rcases hh with rfl | rfl <;> exact Or.inr (by decide)
    · split at hq
      · cases hq; simp at hh; subst hh; exact Or.inl (by decide)
      · split at hq
        · cases hq; simp at hh; subst hh; exact Or.inr (by decide)
        · cases hq

/-! ### today's handling of HDF5 includes (`sh = false`): the two open findings -/

/-- KNOWN FINDING `C06:cycle-through-hdf5`: an include cycle that passes through an HDF5 file diverges,
    because the HDF5 parser resolves the includes of its embedded XML with a list of its own. -/
def h5cyc : FS := fun p =>
  if p = ["m.nml"] then some ⟨[["a.nml.h5"]], []⟩
  else if p = ["a.nml.h5"] then some ⟨[["m.nml"]], []⟩ else none

theorem c06_h5cycle_witness : ∀ f, visit false h5cyc [] f ["m.nml"] [["m.nml"]] = .outOfFuel ∧
    visit false h5cyc [] f ["a.nml.h5"] [] = .outOfFuel := by
  intro f
  induction f with
  | zero => exact ⟨rfl, rfl⟩
  | succ f ih =>
    constructor
    · simp [visit, h5cyc, step, resolveHref, join, isAbs, norm, ih.2, (by decide : kindOf ["a.nml.h5"] = .h5)]
    · simp [visit, h5cyc, step, resolveHref, join, isAbs, norm, ih.1, (by decide : kindOf ["m.nml"] = .xml)]

theorem h5cyc_closed : ClosedIn h5cyc [] [["m.nml"], ["a.nml.h5"]] := by
  intro p file hp h hh
  unfold h5cyc at hp
  split at hp
  · rename_i e; subst e; cases hp; simp at hh; subst hh; decide
  · split at hp
    · rename_i e; subst e; cases hp; simp at hh; subst hh; decide
    · cases hp

/-- the termination clause at full strength fails for today's code -/
theorem c06_terminates_today_witness : ¬ c06_terminates_full false := by
  intro h
  apply h h5cyc [] [["m.nml"], ["a.nml.h5"]] h5cyc_closed ["m.nml"]
  have e : entryIsH5 ["m.nml"] = false := by decide
  simp only [readFile, e]
  exact (c06_h5cycle_witness _).1

/-- … and holds for the repaired code on the same graph: both files read once -/
example : readFile true h5cyc [] 3 ["m.nml"] = .ok [["a.nml.h5"], ["m.nml"]] [["m.nml"], ["a.nml.h5"]] [] := by
  decide

/-- KNOWN FINDING `C06:twice-through-hdf5`: `top.nml` includes `a.nml.h5` and `s.nml`, and `a.nml.h5` includes
    `s.nml` too -/
def h5dia : FS := fun p =>
  if p = ["top.nml"] then some ⟨[["a.nml.h5"], ["s.nml"]], []⟩
  else if p = ["a.nml.h5"] then some ⟨[["s.nml"]], []⟩
  else if p = ["s.nml"] then some ⟨[], [⟨"properties", .absent, "s"⟩]⟩ else none

/-- the "every file is read once" clause at full strength, for one way of handling HDF5 includes -/
def c06_once_full (sh : Bool) : Prop :=
  ∀ (fs : FS) (cwd : Path) (fuel : Nat) (p : Path) (al' log : List Path) (doc : List Comp),
    visit sh fs cwd fuel p [p] = .ok al' log doc → log.Nodup

theorem c06_once_repaired : c06_once_full true :=
  fun fs cwd fuel p al' log doc h => c06_log_nodup true fs cwd (fun e => by cases e) fuel p al' log doc h

/-- today: `s.nml` is read twice and its `<property>` arrives twice -/
theorem c06_once_today_witness : ¬ c06_once_full false := by
  intro h
  have := h h5dia [] 3 ["top.nml"] [["s.nml"], ["a.nml.h5"], ["top.nml"]]
    [["top.nml"], ["a.nml.h5"], ["s.nml"], ["s.nml"]] [⟨"properties", .absent, "s"⟩, ⟨"properties", .absent, "s"⟩] (by decide)
  exact absurd this (by decide)

example : readFile true h5dia [] 3 ["top.nml"] =
    .ok [["s.nml"], ["a.nml.h5"], ["top.nml"]] [["top.nml"], ["a.nml.h5"], ["s.nml"]] [⟨"properties", .absent, "s"⟩] := by
  decide

end NmlVerif.Include
