import NmlVerif.Proofs.Include
/-!
# C06 — include resolution merges every included component once and always terminates

Model: `NmlVerif.Include` (`Model/Include.lean`), tied to `neuroml/loaders.py` + `neuroml/utils.py` by the
correspondence check `harness/props/c06.py` (generated include graphs on disk, real loader vs `Drivers/C06.lean`).
-/
namespace NmlVerif.Include

theorem unv_le_length (U al : List Path) : unv U al ≤ U.length := by
  unfold unv; exact List.countP_le_length

/-- **Termination, every include graph** (chains, diamonds, self loops, cycles; missing files and bad
    extensions included): with `U` any list containing every path an include can resolve to, reading the
    entry file with fuel `|U| + 1` never runs out of fuel. HDF5 files are leaves (`H5Leaf`). -/
theorem c06_terminates (fs : FS) (cwd : Path) (U : List Path) (hclosed : ClosedIn fs cwd U) (h5 : H5Leaf fs)
    (p : Path) : readFile fs cwd (U.length + 1) p ≠ .outOfFuel := by
  have key : ∀ al, visit fs cwd (U.length + 1) p al ≠ .outOfFuel := by
    intro al he
    have := (visit_terminates fs cwd U hclosed h5 (U.length + 1) p al
      (by have := unv_le_length U al; omega)).1
    rw [he] at this
    simp [Res.isOut] at this
  unfold readFile
  split
  · split
    · intro h; cases h
    · intro he; exact key [] he
  · exact key _

/-- more fuel never changes an answer that was not `outOfFuel` is not needed: the theorem above is stated for
    the fuel the driver uses. The string entry point: -/
theorem c06_terminates_string (fs : FS) (cwd base : Path) (U : List Path) (hclosed : ClosedIn fs cwd U)
    (h5 : H5Leaf fs) (hrefs : List (List String)) (comps : List Comp)
    (hU : ∀ h ∈ hrefs, resolveHref fs cwd base h ∈ U) :
    readString fs cwd base (U.length + 1) hrefs comps ≠ .outOfFuel := by
  unfold readString
  intro he
  have h := (fold_ok fs cwd base U (visit fs cwd (U.length + 1)) (U.length + 1)
    (fun p al hlt => visit_terminates fs cwd U hclosed h5 _ p al hlt)
    (by
      intro _ q hk
      cases hq : fs q with
      | none => simp [visit, hq, Res.isOut]
      | some qf => rw [visit_leaf fs cwd U.length q qf [] hq (h5 q qf hq hk)]; rfl)
    hrefs hU [] comps (by have := unv_le_length U []; omega)).1
  rw [he] at h
  simp [Res.isOut] at h

/-- **Union.** When reading an XML entry file returns a document, its `(list, id)` keys are exactly the keys
    of the files reachable from the entry through include links (each key once: `c06_nodup`). -/
theorem c06_union (fs : FS) (cwd : Path) (h5 : H5Leaf fs) (fuel : Nat) (p : Path) (al' : List Path)
    (doc : List Comp) (h : visit fs cwd fuel p [p] = .ok al' doc) :
    ∀ k, k ∈ keys doc ↔ ∃ q, Reach fs cwd p q ∧ k ∈ fileKeys fs q := by
  have V := visit_spec fs cwd h5 fuel p [p] al' doc h
  have hp : p ∈ al' := V.mono p (by simp)
  have hclosed : ∀ q ∈ al', ∀ i ∈ incs fs cwd q, i ∈ al' := by
    intro q hq i hi
    by_cases e : q = p
    · subst e; exact V.closedP i hi
    · exact V.closedN q ⟨hq, by simp [e]⟩ i hi
  have hreach : ∀ q, Reach fs cwd p q → q ∈ al' := by
    intro q r
    induction r with
    | refl => exact hp
    | @step q' file h' _ hq hh ih =>
      exact hclosed q' ih _ (by simp only [incs, hq, List.mem_map]; exact ⟨h', hh, rfl⟩)
  intro k
  rw [V.keysIff k]
  constructor
  · rintro (hk | ⟨q, hq, hk⟩)
    · exact ⟨p, Reach.refl p, hk⟩
    · exact ⟨q, V.reach q hq, hk⟩
  · rintro ⟨q, r, hk⟩
    by_cases e : q = p
    · subst e; exact Or.inl hk
    · exact Or.inr ⟨q, ⟨hreach q r, by simp [e]⟩, hk⟩

/-- the files marked as included are exactly the reachable ones (each is read once: a marked file is skipped) -/
theorem c06_marked_eq_reachable (fs : FS) (cwd : Path) (h5 : H5Leaf fs) (fuel : Nat) (p : Path)
    (al' : List Path) (doc : List Comp) (h : visit fs cwd fuel p [p] = .ok al' doc) :
    ∀ q, q ∈ al' ↔ Reach fs cwd p q := by
  have V := visit_spec fs cwd h5 fuel p [p] al' doc h
  intro q
  constructor
  · intro hq
    by_cases e : q = p
    · subst e; exact Reach.refl _
    · exact V.reach q ⟨hq, by simp [e]⟩
  · intro r
    induction r with
    | refl => exact V.mono p (by simp)
    | @step q' file h' _ hq hh ih =>
      have hi : resolveHref fs cwd q'.dropLast h' ∈ incs fs cwd q' := by
        simp only [incs, hq, List.mem_map]; exact ⟨h', hh, rfl⟩
      by_cases e : q' = p
      · subst e; exact V.closedP _ hi
      · exact V.closedN q' ⟨ih, by simp [e]⟩ _ hi

/-- string entry point (`base_path` given): the document's own components plus everything reachable from
    its includes -/
theorem c06_union_string (fs : FS) (cwd base : Path) (h5 : H5Leaf fs) (fuel : Nat)
    (hrefs : List (List String)) (comps : List Comp) (al' : List Path) (doc : List Comp)
    (h : readString fs cwd base fuel hrefs comps = .ok al' doc) :
    ∀ k, k ∈ keys doc ↔ k ∈ keys comps ∨ ∃ q, (∃ h ∈ hrefs, Reach fs cwd (resolveHref fs cwd base h) q) ∧ k ∈ fileKeys fs q := by
  unfold readString at h
  have hleaf : ∀ q qf a a' sub, fs q = some qf → qf.hrefs = [] → visit fs cwd fuel q a = .ok a' sub →
      a' = a ∧ sub = qf.comps := by
    intro q qf a a' sub hq hl hv
    cases fuel with
    | zero => simp [visit] at hv
    | succ g => rw [visit_leaf fs cwd g q qf a hq hl] at hv; cases hv; exact ⟨rfl, rfl⟩
  have hsome : ∀ q a a' sub, visit fs cwd fuel q a = .ok a' sub → ∃ qf, fs q = some qf := by
    intro q a a' sub hv
    cases fuel with
    | zero => simp [visit] at hv
    | succ g =>
      cases hq : fs q with
      | none => simp [visit, hq] at hv
      | some qf => exact ⟨qf, rfl⟩
  have S := fold_spec fs cwd base (visit fs cwd fuel) (visit_spec fs cwd h5 fuel) hleaf hsome h5 hrefs [] comps al' doc h
  have hclosed : ∀ q ∈ al', ∀ i ∈ incs fs cwd q, i ∈ al' := fun q hq => S.closedN q ⟨hq, by simp⟩
  intro k
  rw [S.keysIff k]
  constructor
  · rintro (hk | ⟨q, hq, hk⟩)
    · exact Or.inl hk
    · exact Or.inr ⟨q, S.reach q hq, hk⟩
  · rintro (hk | ⟨q, ⟨h', hh', r⟩, hk⟩)
    · exact Or.inl hk
    · refine Or.inr ⟨q, ⟨?_, by simp⟩, hk⟩
      clear hk
      induction r with
      | refl => exact S.closedH h' hh'
      | @step q' file h'' _ hq hh ih =>
        exact hclosed q' (ih) _ (by simp only [incs, hq, List.mem_map]; exact ⟨h'', hh, rfl⟩)

/-- **Once per list.** No `(list, id)` key occurs twice in the result if none does in the entry file itself. -/
theorem c06_nodup (fs : FS) (cwd base : Path) (rec : Path → List Path → Res) :
    ∀ (hs : List (List String)) (a : List Path) (d : List Comp) (al' : List Path) (doc : List Comp),
      (keys d).Nodup → hs.foldl (step fs cwd base rec) (.ok a d) = .ok al' doc → (keys doc).Nodup
  | [], a, d, al', doc, hd, h => by simp only [List.foldl_nil] at h; cases h; exact hd
  | h :: hs, a, d, al', doc, hd, hfold => by
    simp only [List.foldl_cons] at hfold
    cases hst : step fs cwd base rec (.ok a d) h with
    | ok a1 d1 =>
      rw [hst] at hfold
      refine c06_nodup fs cwd base rec hs a1 d1 al' doc ?_ hfold
      unfold step at hst
      simp only at hst
      split at hst
      · cases hst; exact hd
      · split at hst
        · cases hst
        · split at hst
          · cases hst; exact nodup_keys_addAll _ _ hd
          · rename_i hno; exact (hno _ _ hst).elim
        · split at hst
          · cases hst; exact nodup_keys_addAll _ _ hd
          · rename_i hno; exact (hno _ _ hst).elim
    | outOfFuel => rw [hst, fold_nonok _ _ _ _ _ (by intro _ _ hh; cases hh)] at hfold; cases hfold
    | missing => rw [hst, fold_nonok _ _ _ _ _ (by intro _ _ hh; cases hh)] at hfold; cases hfold
    | badExt => rw [hst, fold_nonok _ _ _ _ _ (by intro _ _ hh; cases hh)] at hfold; cases hfold

/-- **Working-directory independence.** From two working directories from which no href of any file
    resolves, every read gives the same result. -/
theorem c06_cwd_independent (fs : FS) (cwd₁ cwd₂ : Path)
    (h₁ : ∀ p file, fs p = some file → ∀ h ∈ file.hrefs, fs (norm (cwd₁ ++ h)) = none)
    (h₂ : ∀ p file, fs p = some file → ∀ h ∈ file.hrefs, fs (norm (cwd₂ ++ h)) = none) :
    ∀ fuel p al, visit fs cwd₁ fuel p al = visit fs cwd₂ fuel p al := by
  intro fuel
  induction fuel with
  | zero => intro p al; rfl
  | succ f ih =>
    intro p al
    unfold visit
    cases hp : fs p with
    | none => rfl
    | some file =>
      simp only
      have hrec : visit fs cwd₁ f = visit fs cwd₂ f := by funext q a; exact ih q a
      have : ∀ (hs : List (List String)), (∀ h ∈ hs, h ∈ file.hrefs) → ∀ acc,
          hs.foldl (step fs cwd₁ p.dropLast (visit fs cwd₁ f)) acc = hs.foldl (step fs cwd₂ p.dropLast (visit fs cwd₂ f)) acc := by
        intro hs
        induction hs with
        | nil => intro _ acc; rfl
        | cons h hs ihs =>
          intro hmem acc
          simp only [List.foldl_cons]
          have e : step fs cwd₁ p.dropLast (visit fs cwd₁ f) acc h = step fs cwd₂ p.dropLast (visit fs cwd₂ f) acc h := by
            have r1 : resolveHref fs cwd₁ p.dropLast h = norm (p.dropLast ++ h) := by
              simp [resolveHref, h₁ p file hp h (hmem h (by simp))]
            have r2 : resolveHref fs cwd₂ p.dropLast h = norm (p.dropLast ++ h) := by
              simp [resolveHref, h₂ p file hp h (hmem h (by simp))]
            unfold step
            rw [r1, r2, hrec]
          rw [e]
          exact ihs (fun h' hh' => hmem h' (by simp [hh'])) _
      exact this file.hrefs (fun _ hh => hh) _

/-! ### witnesses -/

/-- the two-file cycle `a.nml ↔ b.nml` -/
def cyc : FS := fun p =>
  if p = ["a.nml"] then some ⟨[["b.nml"]], [⟨"cells", "ca", "a"⟩]⟩
  else if p = ["b.nml"] then some ⟨[["a.nml"]], [⟨"cells", "cb", "b"⟩]⟩ else none

/-- the loop as it was before the repair (mark after return) exhausts every amount of fuel on the cycle:
    the defect fixed by the `fix:` commit in `loaders.py` -/
theorem c06_unfixed_diverges : ∀ f p, p = ["a.nml"] ∨ p = ["b.nml"] → visitOld cyc [] f p [] = .outOfFuel := by
  intro f
  induction f with
  | zero => intro p _; rfl
  | succ f ih =>
    intro p hp
    rcases hp with rfl | rfl
    · simp [visitOld, cyc, stepOld, resolveHref, norm, ih ["b.nml"] (Or.inr rfl), (by decide : kindOf ["b.nml"] = .xml)]
    · simp [visitOld, cyc, stepOld, resolveHref, norm, ih ["a.nml"] (Or.inl rfl), (by decide : kindOf ["a.nml"] = .xml)]

/-- the repaired loop on the same cycle: both components, once -/
example : readFile cyc [] 3 ["a.nml"] = .ok [["b.nml"], ["a.nml"]] [⟨"cells", "ca", "a"⟩, ⟨"cells", "cb", "b"⟩] := by
  decide

/-- hypotheses of `c06_union` are satisfiable on a non-trivial graph (the cycle) -/
example : H5Leaf cyc := by
  intro p f hp hk
  unfold cyc at hp
  split at hp
  · rename_i e; subst e; exact absurd hk (by decide)
  · split at hp
    · rename_i e; subst e; exact absurd hk (by decide)
    · cases hp

/-- KNOWN FINDING `C06:cycle-through-hdf5`: an include cycle that passes through an HDF5 file still diverges,
    because the HDF5 parser resolves the includes of its embedded XML with a list of its own. -/
def h5cyc : FS := fun p =>
  if p = ["m.nml"] then some ⟨[["a.nml.h5"]], []⟩
  else if p = ["a.nml.h5"] then some ⟨[["m.nml"]], []⟩ else none

theorem c06_h5cycle_witness : ∀ f, visit h5cyc [] f ["m.nml"] [["m.nml"]] = .outOfFuel ∧
    visit h5cyc [] f ["a.nml.h5"] [] = .outOfFuel := by
  intro f
  induction f with
  | zero => exact ⟨rfl, rfl⟩
  | succ f ih =>
    constructor
    · simp [visit, h5cyc, step, resolveHref, norm, ih.2, (by decide : kindOf ["a.nml.h5"] = .h5)]
    · simp [visit, h5cyc, step, resolveHref, norm, ih.1, (by decide : kindOf ["m.nml"] = .xml)]

end NmlVerif.Include
