import NmlVerif.Model.Include
import NmlVerif.Gen.IncludeShape
/-!
C06, follow-up of C08's repair `fixes/C08-already-included-restored.patch`: the caller-visible `already_included` list.

`visitT` / `readFileKept` / `readStringKept` (Model/Include.lean) compute the result of a read together with the state of
the caller's list when the call ends.  Here: (1) their result component IS the result of `visit` / `readFile` /
`readString`, whatever the shape `rm` of the entry points — so every C06 theorem about results keeps its statement; on
success the list component is the list of the result; (2) with `rm = true` a failed read leaves the caller's list as it
was at entry; (3) with `rm = false` it does not (witness) — the old shape is kept as the other case; (4) the statements at
the shape the translator found in the tree under test (`Gen.IncludeShape.restoresMarks`).
-/
namespace NmlVerif.Include

/-- on success the tracked list is the list of the result -/
def Coh (o : Res × List Path) : Prop := ∀ al log doc, o.1 = .ok al log doc → o.2 = al

theorem stepT_spec (sh : Bool) (fs : FS) (cwd base : Path) (recT : Path → List Path → Res × List Path)
    (rec : Path → List Path → Res) (h : ∀ p al, (recT p al).1 = rec p al) (hc : ∀ p al, Coh (recT p al))
    (acc : Res × List Path) (hacc : Coh acc) (href : List String) :
    (stepT sh fs cwd base recT acc href).1 = step sh fs cwd base rec acc.1 href ∧
      Coh (stepT sh fs cwd base recT acc href) := by
  obtain ⟨r, m⟩ := acc
  cases r with
  | outOfFuel => exact ⟨rfl, hacc⟩
  | missing => exact ⟨rfl, hacc⟩
  | badExt => exact ⟨rfl, hacc⟩
  | ok al log doc =>
    simp only [stepT, step]
    by_cases hm : resolveHref fs cwd base href ∈ al
    · simp only [hm, ↓reduceIte]
      exact ⟨by first | rfl | trivial, fun _ _ _ e => by cases e; rfl⟩
    · simp only [hm, ↓reduceIte]
      cases hk : kindOf (resolveHref fs cwd base href) with
      | other => exact ⟨rfl, fun _ _ _ e => by cases e⟩
      | xml =>
        simp only []
        have h1 := h (resolveHref fs cwd base href) (resolveHref fs cwd base href :: al)
        have h2 := hc (resolveHref fs cwd base href) (resolveHref fs cwd base href :: al)
        generalize recT (resolveHref fs cwd base href) (resolveHref fs cwd base href :: al) = o at h1 h2
        obtain ⟨r', m'⟩ := o
        simp only at h1
        rw [← h1]
        cases r' with
        | ok al' sl sub => exact ⟨rfl, fun _ _ _ e => by cases e; rfl⟩
        | outOfFuel => exact ⟨rfl, fun _ _ _ e => by cases e⟩
        | missing => exact ⟨rfl, fun _ _ _ e => by cases e⟩
        | badExt => exact ⟨rfl, fun _ _ _ e => by cases e⟩
      | h5 =>
        cases sh with
        | true =>
          simp only [↓reduceIte]
          have h1 := h (resolveHref fs cwd base href) (resolveHref fs cwd base href :: al)
          generalize recT (resolveHref fs cwd base href) (resolveHref fs cwd base href :: al) = o at h1
          obtain ⟨r', m'⟩ := o
          simp only at h1
          rw [← h1]
          cases r' with
          | ok al' sl sub => exact ⟨rfl, fun _ _ _ e => by cases e; rfl⟩
          | outOfFuel => exact ⟨rfl, fun _ _ _ e => by cases e⟩
          | missing => exact ⟨rfl, fun _ _ _ e => by cases e⟩
          | badExt => exact ⟨rfl, fun _ _ _ e => by cases e⟩
        | false =>
          simp only [Bool.false_eq_true, ↓reduceIte]
          have h1 := h (resolveHref fs cwd base href) []
          generalize recT (resolveHref fs cwd base href) [] = o at h1
          obtain ⟨r', m'⟩ := o
          simp only at h1
          rw [← h1]
          cases r' with
          | ok al' sl sub => exact ⟨rfl, fun _ _ _ e => by cases e; rfl⟩
          | outOfFuel => exact ⟨rfl, fun _ _ _ e => by cases e⟩
          | missing => exact ⟨rfl, fun _ _ _ e => by cases e⟩
          | badExt => exact ⟨rfl, fun _ _ _ e => by cases e⟩

theorem foldT_spec (sh : Bool) (fs : FS) (cwd base : Path) (recT : Path → List Path → Res × List Path)
    (rec : Path → List Path → Res) (h : ∀ p al, (recT p al).1 = rec p al) (hc : ∀ p al, Coh (recT p al))
    (hrefs : List (List String)) (acc : Res × List Path) (hacc : Coh acc) :
    (hrefs.foldl (stepT sh fs cwd base recT) acc).1 = hrefs.foldl (step sh fs cwd base rec) acc.1 ∧
      Coh (hrefs.foldl (stepT sh fs cwd base recT) acc) := by
  induction hrefs generalizing acc with
  | nil => exact ⟨rfl, hacc⟩
  | cons x xs ih =>
    have s := stepT_spec sh fs cwd base recT rec h hc acc hacc x
    simp only [List.foldl_cons]
    rw [← s.1]
    exact ih _ s.2

/-- taking back the marks of a failed read changes neither the result nor, on success, the list -/
theorem restore_spec (rm : Bool) (al : List Path) (r : Res × List Path) (hr : Coh r) :
    (if r.1.isOk then r else if rm then (r.1, al) else r).1 = r.1 ∧
      Coh (if r.1.isOk then r else if rm then (r.1, al) else r) := by
  by_cases hk : r.1.isOk = true
  · simp only [hk, ↓reduceIte]; exact ⟨by first | rfl | trivial, hr⟩
  · simp only [hk, Bool.false_eq_true, ↓reduceIte]
    cases rm with
    | false => simp only [Bool.false_eq_true, ↓reduceIte]; exact ⟨by first | rfl | trivial, hr⟩
    | true =>
      simp only [↓reduceIte]
      refine ⟨by first | rfl | trivial, fun a l d e => ?_⟩
      simp only at e
      rw [e] at hk
      exact absurd rfl hk

theorem visitT_spec (rm sh : Bool) (fs : FS) (cwd : Path) (f : Nat) :
    ∀ p al, (visitT rm sh fs cwd f p al).1 = visit sh fs cwd f p al ∧ Coh (visitT rm sh fs cwd f p al) := by
  induction f with
  | zero => intro p al; exact ⟨rfl, fun _ _ _ e => by cases e⟩
  | succ f ih =>
    intro p al
    simp only [visitT, visit]
    cases hp : fs p with
    | none => exact ⟨rfl, fun _ _ _ e => by cases e⟩
    | some file =>
      simp only []
      have hacc : Coh ((Res.ok al [p] file.comps, al) : Res × List Path) := fun _ _ _ e => by cases e; rfl
      have s := foldT_spec sh fs cwd p.dropLast (visitT rm sh fs cwd f) (visit sh fs cwd f)
        (fun q a => (ih q a).1) (fun q a => (ih q a).2) file.hrefs _ hacc
      have t := restore_spec rm al _ s.2
      exact ⟨t.1.trans s.1, t.2⟩

/-- **the result of a read does not depend on the shape of the entry points** and is the result the C06 theorems
    speak about -/
theorem c06_visitT_result (rm sh : Bool) (fs : FS) (cwd : Path) (f : Nat) (p : Path) (al : List Path) :
    (visitT rm sh fs cwd f p al).1 = visit sh fs cwd f p al := (visitT_spec rm sh fs cwd f p al).1

theorem c06_visitT_ok_list (rm sh : Bool) (fs : FS) (cwd : Path) (f : Nat) (p : Path) (al al' log : List Path)
    (doc : List Comp) (h : (visitT rm sh fs cwd f p al).1 = .ok al' log doc) :
    (visitT rm sh fs cwd f p al).2 = al' := (visitT_spec rm sh fs cwd f p al).2 al' log doc h

/-- `read_neuroml2_file` with a list of its own (`al0 = []`): the result is `readFile`'s, for both shapes -/
theorem c06_readFileKept_result (rm sh : Bool) (fs : FS) (cwd : Path) (f : Nat) (p : Path) :
    (readFileKept rm sh fs cwd (f + 1) p []).1 = readFile sh fs cwd (f + 1) p := by
  simp only [readFileKept, readFile]
  cases hp : fs p with
  | none => simp [visit, hp]
  | some file =>
    simp only [List.not_mem_nil, ↓reduceIte]
    have key : ∀ r : Res × List Path, (if r.1.isOk then r else if rm then (r.1, []) else r).1 = r.1 := by
      intro r; by_cases hk : r.1.isOk = true <;> cases rm <;> simp [hk]
    rw [key]
    by_cases he : entryIsH5 p = true
    · simp only [he, ↓reduceIte]
      cases sh with
      | true =>
        simp only [↓reduceIte]
        have h1 := (visitT_spec rm true fs cwd (f + 1) p [p]).1
        generalize visitT rm true fs cwd (f + 1) p [p] = o at h1
        obtain ⟨r', m'⟩ := o
        simp only at h1
        rw [← h1]
        cases r' <;> rfl
      | false =>
        simp only [Bool.false_eq_true, ↓reduceIte]
        have h1 := (visitT_spec rm false fs cwd (f + 1) p []).1
        generalize visitT rm false fs cwd (f + 1) p [] = o at h1
        obtain ⟨r', m'⟩ := o
        simp only at h1
        rw [← h1]
        cases r' <;> rfl
    · simp only [he, Bool.false_eq_true, ↓reduceIte]
      exact (visitT_spec rm sh fs cwd (f + 1) p [p]).1

/-- `read_neuroml2_string`: the result is `readString`'s, for both shapes -/
theorem c06_readStringKept_result (rm sh : Bool) (fs : FS) (cwd base : Path) (fuel : Nat)
    (hrefs : List (List String)) (comps : List Comp) :
    (readStringKept rm sh fs cwd base fuel hrefs comps []).1 = readString sh fs cwd base fuel hrefs comps := by
  simp only [readStringKept, readString]
  have hacc : Coh ((Res.ok [] [] comps, []) : Res × List Path) := fun _ _ _ e => by cases e; rfl
  have s := foldT_spec sh fs cwd base (visitT rm sh fs cwd fuel) (visit sh fs cwd fuel)
    (fun q a => (visitT_spec rm sh fs cwd fuel q a).1) (fun q a => (visitT_spec rm sh fs cwd fuel q a).2) hrefs _ hacc
  exact (restore_spec rm [] _ s.2).1.trans s.1

/-- **C08's repair, seen from C06**: with the restoring shape, a read that FAILS (missing file, unrecognised extension,
    …) leaves the caller's `already_included` list exactly as it was at entry — for every file tree, working
    directory, entry list and both ways of handling HDF5 includes. -/
theorem c06_failed_read_restores (sh : Bool) (fs : FS) (cwd : Path) (fuel : Nat) (p : Path) (al0 : List Path)
    (hfail : (readFileKept true sh fs cwd fuel p al0).1.isOk = false) :
    (readFileKept true sh fs cwd fuel p al0).2 = al0 := by
  unfold readFileKept at hfail ⊢
  cases hp : fs p with
  | none => rfl
  | some file =>
    simp only [hp] at hfail ⊢
    generalize (if entryIsH5 p = true then _ else _ : Res × List Path) = r at hfail ⊢
    by_cases hk : r.1.isOk = true
    · simp only [hk, ↓reduceIte] at hfail; cases hfail
    · simp only [hk, Bool.false_eq_true, ↓reduceIte]

theorem c06_failed_read_restores_string (sh : Bool) (fs : FS) (cwd base : Path) (fuel : Nat)
    (hrefs : List (List String)) (comps : List Comp) (al0 : List Path)
    (hfail : (readStringKept true sh fs cwd base fuel hrefs comps al0).1.isOk = false) :
    (readStringKept true sh fs cwd base fuel hrefs comps al0).2 = al0 := by
  unfold readStringKept at hfail ⊢
  generalize List.foldl _ _ hrefs = r at hfail ⊢
  by_cases hk : r.1.isOk = true
  · simp only [hk, ↓reduceIte] at hfail; cases hfail
  · simp only [hk, Bool.false_eq_true, ↓reduceIte]

/-- the statement at full strength for a shape `rm` of the entry points -/
def c06_failed_read_restores_full (rm : Bool) : Prop :=
  ∀ (sh : Bool) (fs : FS) (cwd : Path) (fuel : Nat) (p : Path) (al0 : List Path),
    (readFileKept rm sh fs cwd fuel p al0).1.isOk = false → (readFileKept rm sh fs cwd fuel p al0).2 = al0

theorem c06_restores_repaired : c06_failed_read_restores_full true :=
  fun sh fs cwd fuel p al0 h => c06_failed_read_restores sh fs cwd fuel p al0 h

/-- `r/a.nml` includes `gone.nml`, which does not exist -/
def failing : FS := fun p =>
  if p = ["r", "a.nml"] then some ⟨[["b.nml"]], [⟨"cells", .val "c", "a"⟩]⟩
  else if p = ["r", "b.nml"] then some ⟨[["gone.nml"]], []⟩ else none

/-- the hypothesis of `c06_failed_read_restores` is satisfiable, and its conclusion is not trivial: the old shape
    leaves three marks behind (C08's finding), the restoring shape none; a caller-kept entry survives in both -/
theorem c06_restores_old_shape_witness : ¬ c06_failed_read_restores_full false := by
  intro h
  have := h true failing ["w"] 5 ["r", "a.nml"] [["x.nml"]] (by decide)
  revert this
  decide

example : readFileKept false true failing ["w"] 5 ["r", "a.nml"] [["x.nml"]] =
    (.missing, [["r", "gone.nml"], ["r", "b.nml"], ["r", "a.nml"], ["x.nml"]]) := by decide
example : readFileKept true true failing ["w"] 5 ["r", "a.nml"] [["x.nml"]] = (.missing, [["x.nml"]]) := by decide
/-- a successful read is the same for both shapes and the list is the result's -/
example : readFileKept true true failing ["w"] 5 ["r", "b.nml"] [["r", "gone.nml"]] =
    readFileKept false true failing ["w"] 5 ["r", "b.nml"] [["r", "gone.nml"]] := by decide

/-- at the shape the translator found in the tree under test: when it restores, a failed read leaves the caller's
    list untouched; in every case the results are the ones the C06 theorems speak about -/
theorem c06_marks_tree :
    (NmlVerif.Gen.IncludeShape.restoresMarks = true →
      c06_failed_read_restores_full NmlVerif.Gen.IncludeShape.restoresMarks) ∧
    (∀ sh fs cwd f p, (readFileKept NmlVerif.Gen.IncludeShape.restoresMarks sh fs cwd (f + 1) p []).1 =
      readFile sh fs cwd (f + 1) p) := by
  refine ⟨fun h => ?_, fun sh fs cwd f p => c06_readFileKept_result _ sh fs cwd f p⟩
  rw [h]; exact c06_restores_repaired

end NmlVerif.Include
