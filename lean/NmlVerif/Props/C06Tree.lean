import NmlVerif.Props.C06
import NmlVerif.Gen.IncludeShape
/-!
# C06 — the tie to the tree under test

`Gen/IncludeShape.lean` is regenerated from the source on every run by `translators/include_extract.py`
(`harness/props/c06.py: regenerate`).  Kept apart from `Props/C06.lean` so that a source change the translator
cannot follow breaks only these obligations and the general theorems are still built and audited.
-/
namespace NmlVerif.Include

/-- the merge test translated from the source of `add_all_to_document` is the hand model's (inside one member
    list, which is where the code applies it) -/
theorem c06_gen_same (t c : Comp) (hl : t.list = c.list) :
    NmlVerif.Gen.IncludeShape.genSameId t c = same t c := by
  simp only [NmlVerif.Gen.IncludeShape.genSameId, NmlVerif.Gen.IncludeShape.hasId, same, hl, true_and]
  by_cases h1 : t.id = .absent <;> by_cases h2 : t.id = c.id <;> simp [h1, h2]

/-- the theorems instantiated at the way the tree under test resolves HDF5 includes (`Gen.IncludeShape.sh`, read
    off the source): termination, one read per reachable file, the id-less elements once per file -/
theorem c06_tree (fs : FS) (cwd : Path) (h5 : NmlVerif.Gen.IncludeShape.sh = false → H5Leaf fs) :
    (∀ U, ClosedIn fs cwd U → ∀ p, readFile NmlVerif.Gen.IncludeShape.sh fs cwd (U.length + 1) p ≠ .outOfFuel) ∧
    (∀ fuel p al' log doc, visit NmlVerif.Gen.IncludeShape.sh fs cwd fuel p [p] = .ok al' log doc →
      log.Nodup ∧ (∀ q, q ∈ log ↔ Reach fs cwd p q) ∧
      doc.filter idless = (compsOfAll fs log).filter idless) := by
  refine ⟨fun U hc p => c06_terminates _ fs cwd U hc h5 p, ?_⟩
  intro fuel p al' log doc h
  refine ⟨c06_log_nodup _ fs cwd h5 fuel p al' log doc h, c06_log_eq_reachable _ fs cwd fuel p al' log doc h, ?_⟩
  obtain ⟨file, rest, hf, rfl, rfl⟩ := visit_doc _ fs cwd fuel p [p] al' log doc h
  rw [filter_idless_addAll]
  simp [compsOfAll, compsOf, hf]

end NmlVerif.Include
