import NmlVerif.Proofs.Glue
import NmlVerif.Proofs.NetBuilder
import NmlVerif.Model.ParserReuse
/-!
# C07 — a load's result depends on its input alone: no history or interleaving effects

* `Gen/Glue.lean` (regenerated on every check by `translators/glue_extract.py` from the repository's current working
  tree) is the table of shared mutable variables of the loader / network-builder modules with, per entry point and
  handler method, the variables it may read before writing and the variables it may write.
* The generic theorems below say what a table without violations means for ANY semantics that respects the extracted
  summaries: results are independent of the history of earlier calls (first call = n-th call = call after other files),
  and every interleaving of two builders' handler calls leaves each builder in the state of its solo run.
* `Props/C07Gen.lean` holds the per-run obligation on the extracted table (`c07_table_ok`: no violating variable
  outside `Known`) and the instance of the history theorem for the extracted entries.
* `NetBuilder` is an executable model of `NetworkBuilder`'s handler methods (tied to the code by the correspondence
  stream of `harness/props/c07.py`); with per-instance tables every interleaving gives the solo documents, with
  class-level tables (the code before `fixes/C07-networkbuilder-instance-tables.patch`) it does not.
-/
namespace NmlVerif.C07
open NmlVerif.Glue

/-! ## history independence -/

variable {V R A : Type}

/-- **No read before write ⇒ the result does not depend on the shared state the call starts from.** -/
theorem c07_state_independent (f : GState V → GState V × R) (writes : List Nat) (h : Respects f [] writes) :
    ∀ g g', (f g).2 = (f g').2 :=
  fun g g' => h.reads g g' (fun _ hv => nomatch hv)

/-- the same, for a summary that may read first, but only variables nobody writes: from any two shared states that
    differ only in written variables the result is the same -/
theorem c07_state_independent_off (f : GState V → GState V × R) (rbw writes W : List Nat) (h : Respects f rbw writes)
    (hd : ∀ v ∈ rbw, v ∉ W) : ∀ g g', AgreeOff W g g' → (f g).2 = (f g').2 :=
  fun g g' hg => h.reads g g' (hg.agreeOn hd)

/-- **History independence (general form).**  `Inv` is an invariant of the shared state preserved by every entry and
    `ign` are memo-cache variables on which, under `Inv`, no result depends (`RespectsInv`).  For every semantics
    respecting the summaries of table `t` in that sense: the result of a call of an entry that reads first nothing
    anybody writes (memo caches aside) is the same after ANY two histories of calls of entries of `t` — the histories
    may contain violating entries. -/
theorem c07_history_independent_inv (t : Table) (Inv : GState V → Prop) (ign : List Nat)
    (sem : EntrySummary → A → GState V → GState V × R)
    (hsem : ∀ e ∈ t.entries, ∀ a, RespectsInv Inv ign (sem e a) e.rbw e.writes)
    (e : EntrySummary) (he : e ∈ t.entries) (hok : e.badIgn t.written ign = []) (a : A)
    (h h' : List (Call A)) (hh : ∀ c ∈ h, c.entry ∈ t.entries) (hh' : ∀ c ∈ h', c.entry ∈ t.entries)
    (g : GState V) (hg : Inv g) :
    (sem e a (runHist sem h g)).2 = (sem e a (runHist sem h' g)).2 := by
  have frame : ∀ (l : List (Call A)), (∀ c ∈ l, c.entry ∈ t.entries) →
      Inv (runHist sem l g) ∧ AgreeOff t.written (runHist sem l g) g := by
    intro l hl
    exact runHist_frame_inv Inv ign sem t.written l g hg (fun c hc => hsem c.entry (hl c hc) c.arg)
      (fun c hc v hv => mem_written.2 ⟨c.entry, hl c hc, hv⟩)
  have f1 := frame h hh
  have f2 := frame h' hh'
  refine (hsem e he a).reads _ _ f1.1 f2.1 ?_
  intro v hv
  simp only [List.mem_filter, Bool.not_eq_true', List.contains_eq_mem, decide_eq_false_iff_not] at hv
  exact (f1.2.trans f2.2.symm) v (badIgn_eq_nil_iff.1 hok v hv.1 hv.2)

/-- **History independence.**  The special case without invariant and memo caches. -/
theorem c07_history_independent (t : Table) (sem : EntrySummary → A → GState V → GState V × R)
    (hsem : ∀ e ∈ t.entries, ∀ a, Respects (sem e a) e.rbw e.writes)
    (e : EntrySummary) (he : e ∈ t.entries) (hok : e.bad t.written = []) (a : A)
    (h h' : List (Call A)) (hh : ∀ c ∈ h, c.entry ∈ t.entries) (hh' : ∀ c ∈ h', c.entry ∈ t.entries) (g : GState V) :
    (sem e a (runHist sem h g)).2 = (sem e a (runHist sem h' g)).2 :=
  c07_history_independent_inv t (fun _ => True) [] sem (fun e he a => (hsem e he a).toInv) e he
    (by simpa [EntrySummary.badIgn, EntrySummary.bad] using hok) a h h' hh hh' g trivial

/-- **First call = n-th call**: repeating the identical call any number of times does not change its result. -/
theorem c07_nth_call (t : Table) (sem : EntrySummary → A → GState V → GState V × R)
    (hsem : ∀ e ∈ t.entries, ∀ a, Respects (sem e a) e.rbw e.writes)
    (e : EntrySummary) (he : e ∈ t.entries) (hok : e.bad t.written = []) (a : A) (n : Nat) (g : GState V) :
    (sem e a (runHist sem (List.replicate n ⟨e, a⟩) g)).2 = (sem e a g).2 := by
  have := c07_history_independent t sem hsem e he hok a (List.replicate n ⟨e, a⟩) []
    (fun c hc => by rw [List.eq_of_mem_replicate hc]; exact he) (fun _ hc => nomatch hc) g
  simpa [runHist] using this

/-- a table without violations: the above holds for every entry -/
theorem c07_all_entries_history_independent (t : Table) (hv : t.violations = [])
    (sem : EntrySummary → A → GState V → GState V × R)
    (hsem : ∀ e ∈ t.entries, ∀ a, Respects (sem e a) e.rbw e.writes) :
    ∀ e ∈ t.entries, ∀ (a : A) (h h' : List (Call A)), (∀ c ∈ h, c.entry ∈ t.entries) → (∀ c ∈ h', c.entry ∈ t.entries) →
      ∀ g, (sem e a (runHist sem h g)).2 = (sem e a (runHist sem h' g)).2 :=
  fun e he a h h' hh hh' g =>
    c07_history_independent t sem hsem e he (violations_eq_nil_iff.1 hv e he) a h h' hh hh' g

/-! ## configuration switches: the result is a function of the input AND of the switches' current values

`env` are configuration variables (the global `build_time_validation.ENABLED` switch): entry points do read them before
anybody in the call writes them, and the user's configuration calls (`enable/disable_build_time_validation`) write them.
They are not "history": the statement below makes their current value an explicit part of the input. -/

/-- **History independence modulo configuration.**  As `c07_history_independent_inv`, for an entry whose read-first
    variables that anybody writes are memo caches (`ign`) or configuration variables (`env`): after ANY two histories
    of calls of entries of `t` (configuration calls included) that leave the configuration variables with the same
    values, the call returns the same result. -/
theorem c07_history_independent_env (t : Table) (Inv : GState V → Prop) (ign env : List Nat)
    (sem : EntrySummary → A → GState V → GState V × R)
    (hsem : ∀ e ∈ t.entries, ∀ a, RespectsInv Inv ign (sem e a) e.rbw e.writes)
    (e : EntrySummary) (he : e ∈ t.entries) (hok : e.badIgn t.written (ign ++ env) = []) (a : A)
    (h h' : List (Call A)) (hh : ∀ c ∈ h, c.entry ∈ t.entries) (hh' : ∀ c ∈ h', c.entry ∈ t.entries)
    (g : GState V) (hg : Inv g) (henv : AgreeOn env (runHist sem h g) (runHist sem h' g)) :
    (sem e a (runHist sem h g)).2 = (sem e a (runHist sem h' g)).2 := by
  have frame : ∀ (l : List (Call A)), (∀ c ∈ l, c.entry ∈ t.entries) →
      Inv (runHist sem l g) ∧ AgreeOff t.written (runHist sem l g) g := by
    intro l hl
    exact runHist_frame_inv Inv ign sem t.written l g hg (fun c hc => hsem c.entry (hl c hc) c.arg)
      (fun c hc v hv => mem_written.2 ⟨c.entry, hl c hc, hv⟩)
  have f1 := frame h hh
  have f2 := frame h' hh'
  refine (hsem e he a).reads _ _ f1.1 f2.1 ?_
  intro v hv
  simp only [List.mem_filter, Bool.not_eq_true', List.contains_eq_mem, decide_eq_false_iff_not] at hv
  by_cases hve : v ∈ env
  · exact henv v hve
  · exact (f1.2.trans f2.2.symm) v
      (badIgn_eq_nil_iff.1 hok v hv.1 (fun hm => (List.mem_append.1 hm).elim hv.2 hve))

/-- histories none of whose calls writes a configuration variable leave the configuration as it was -/
theorem c07_loader_histories_keep_env (t : Table) (Inv : GState V → Prop) (ign env : List Nat)
    (sem : EntrySummary → A → GState V → GState V × R)
    (hsem : ∀ e ∈ t.entries, ∀ a, RespectsInv Inv ign (sem e a) e.rbw e.writes)
    (h : List (Call A)) (hh : ∀ c ∈ h, c.entry ∈ t.entries ∧ ∀ v ∈ c.entry.writes, v ∉ env)
    (g : GState V) (hg : Inv g) : AgreeOn env (runHist sem h g) g := by
  have := (runHist_frame_inv Inv ign sem (t.written.filter (fun v => !env.contains v)) h g hg
    (fun c hc => hsem c.entry (hh c hc).1 c.arg)
    (fun c hc v hv => by
      simp only [List.mem_filter, Bool.not_eq_true', List.contains_eq_mem, decide_eq_false_iff_not]
      exact ⟨mem_written.2 ⟨c.entry, (hh c hc).1, hv⟩, (hh c hc).2 v hv⟩)).2
  intro v hv
  exact this v (by simp [hv])

/-- **History independence for histories of loader calls.**  When the histories contain no configuration call (no
    call that writes a configuration variable), no hypothesis about the switches is left: same result after any two
    such histories, from any starting configuration. -/
theorem c07_history_independent_loader_histories (t : Table) (Inv : GState V → Prop) (ign env : List Nat)
    (sem : EntrySummary → A → GState V → GState V × R)
    (hsem : ∀ e ∈ t.entries, ∀ a, RespectsInv Inv ign (sem e a) e.rbw e.writes)
    (e : EntrySummary) (he : e ∈ t.entries) (hok : e.badIgn t.written (ign ++ env) = []) (a : A)
    (h h' : List (Call A)) (hh : ∀ c ∈ h, c.entry ∈ t.entries ∧ ∀ v ∈ c.entry.writes, v ∉ env)
    (hh' : ∀ c ∈ h', c.entry ∈ t.entries ∧ ∀ v ∈ c.entry.writes, v ∉ env) (g : GState V) (hg : Inv g) :
    (sem e a (runHist sem h g)).2 = (sem e a (runHist sem h' g)).2 :=
  c07_history_independent_env t Inv ign env sem hsem e he hok a h h' (fun c hc => (hh c hc).1)
    (fun c hc => (hh' c hc).1) g hg
    (fun v hv => (c07_loader_histories_keep_env t Inv ign env sem hsem h hh g hg v hv).trans
      (c07_loader_histories_keep_env t Inv ign env sem hsem h' hh' g hg v hv).symm)

/-- the configuration hypothesis is needed: a switch (variable 0) written by a configuration entry (entry 1) and
    read by a loader entry (entry 0) — the loader's result differs after the history `[flip]` -/
example : ∃ (sem : EntrySummary → Unit → GState Bool → GState Bool × Bool) (t : Table) (e : EntrySummary),
    (∀ e ∈ t.entries, ∀ a, RespectsInv (fun _ => True) [] (sem e a) e.rbw e.writes) ∧ e ∈ t.entries ∧
    e.badIgn t.written ([] ++ [0]) = [] ∧
    (sem e () (runHist sem [⟨⟨1, true, [], [0]⟩, ()⟩] (fun _ => true))).2 ≠ (sem e () (runHist sem [] (fun _ => true))).2 := by
  refine ⟨fun e _ g => if e.name = 1 then (fun v => if v = 0 then false else g v, true) else (g, g 0),
    ⟨[], [⟨0, true, [0], []⟩, ⟨1, true, [], [0]⟩]⟩, ⟨0, true, [0], []⟩, ?_, by simp, by decide, by simp [runHist]⟩
  intro e he a
  simp only [List.mem_cons, List.not_mem_nil, or_false] at he
  rcases he with rfl | rfl
  · exact ⟨fun g v _ => rfl, fun _ _ => trivial, fun g g' _ _ h => by simpa using h 0 (by simp)⟩
  · exact ⟨fun g v hv => by simp at hv; simp [hv], fun _ _ => trivial, fun _ _ _ _ _ => rfl⟩

/-! ## interleavings -/

variable {σ α β ca cb L : Type}

/-- prototype §M: handlers that ignore the shared component altogether -/
structure Isolated (S : Sys σ α β ca cb) : Prop where
  a_ignores : ∀ s s' x c, (S.stepA s x c).2 = (S.stepA s' x c).2
  b_ignores : ∀ s s' y c, (S.stepB s y c).2 = (S.stepB s' y c).2

/-- **Every interleaving** of the handler-call sequences `h₁`, `h₂` of two isolated builders leaves each builder
    in the state of its solo run. -/
theorem c07_interleaving_independent (S : Sys σ α β ca cb) (h : Isolated S) (h₁ : List ca) (h₂ : List cb)
    (es : List (Ev ca cb)) (hes : IsInterleaving es h₁ h₂) (s : σ) (x : α) (y : β) :
    (run S es (s, x, y)).2.1 = (soloA S h₁ (s, x)).2 ∧ (run S es (s, x, y)).2.2 = (soloB S h₂ (s, y)).2 := by
  have iso : IsolatedRel S (fun _ => True) (fun _ _ => True) :=
    ⟨fun _ _ _ => trivial, fun _ _ _ _ _ => trivial, fun _ _ _ _ => trivial, fun _ _ _ _ => trivial,
     fun s s' x c _ _ _ => h.a_ignores s s' x c, fun s s' y c _ _ _ => h.b_ignores s s' y c,
     fun _ _ _ _ => trivial, fun _ _ _ _ => trivial⟩
  have := run_eq_solo S iso es s x y trivial
  rw [hes.1, hes.2] at this
  exact this

/-- handler semantics with a builder-local state: respects `(rbw, writes)` — under the invariant `Inv` of the shared
    state and with the memo caches `ign` — when shared variables outside `writes` keep their value, `Inv` is
    preserved, and the new local state only depends on the incoming values of the variables in `rbw` outside `ign` -/
structure RespectsLocal (Inv : GState V → Prop) (ign : List Nat) (f : GState V → L → GState V × L)
    (rbw writes : List Nat) : Prop where
  frame : ∀ g l v, v ∉ writes → (f g l).1 v = g v
  inv : ∀ g l, Inv g → Inv (f g l).1
  reads : ∀ g g' l, Inv g → Inv g' → AgreeOn (rbw.filter (fun v => !ign.contains v)) g g' → (f g l).2 = (f g' l).2

/-- **Interleaving theorem, driven by the extracted summaries.**  Two builders whose handler calls are entries of
    table `t` that read first nothing anybody writes (memo caches `ign` aside): for every merge of their two call
    sequences, from every shared state satisfying the invariant, each builder ends in its solo state. -/
theorem c07_interleaving_summary (t : Table) (Inv : GState V → Prop) (ign : List Nat)
    (hsem : EntrySummary → A → GState V → L → GState V × L)
    (hresp : ∀ e ∈ t.entries, ∀ a, RespectsLocal Inv ign (hsem e a) e.rbw e.writes)
    (h₁ h₂ : List {c : Call A // c.entry ∈ t.entries ∧ c.entry.badIgn t.written ign = []})
    (es : List (Ev _ _)) (hes : IsInterleaving es h₁ h₂) (g : GState V) (hg : Inv g) (x y : L) :
    let S : Sys (GState V) L L _ _ := ⟨fun g l c => hsem c.1.entry c.1.arg g l, fun g l c => hsem c.1.entry c.1.arg g l⟩
    (run S es (g, x, y)).2.1 = (soloA S h₁ (g, x)).2 ∧ (run S es (g, x, y)).2.2 = (soloB S h₂ (g, y)).2 := by
  intro S
  have loc : ∀ (g g' : GState V) (l : L)
      (c : {c : Call A // c.entry ∈ t.entries ∧ c.entry.badIgn t.written ign = []}),
      Inv g → Inv g' → AgreeOff t.written g g' → (hsem c.1.entry c.1.arg g l).2 = (hsem c.1.entry c.1.arg g' l).2 := by
    intro g g' l c hi hi' hg
    refine (hresp c.1.entry c.2.1 c.1.arg).reads g g' l hi hi' ?_
    intro v hv
    simp only [List.mem_filter, Bool.not_eq_true', List.contains_eq_mem, decide_eq_false_iff_not] at hv
    exact hg v (badIgn_eq_nil_iff.1 c.2.2 v hv.1 hv.2)
  have stays : ∀ (g : GState V) (l : L)
      (c : {c : Call A // c.entry ∈ t.entries ∧ c.entry.badIgn t.written ign = []}),
      Inv g → AgreeOff t.written (hsem c.1.entry c.1.arg g l).1 g :=
    fun g l c _ v hv => (hresp c.1.entry c.2.1 c.1.arg).frame g l v
      (fun hm => hv (mem_written.2 ⟨c.1.entry, c.2.1, hm⟩))
  have inv : ∀ (g : GState V) (l : L)
      (c : {c : Call A // c.entry ∈ t.entries ∧ c.entry.badIgn t.written ign = []}),
      Inv g → Inv (hsem c.1.entry c.1.arg g l).1 :=
    fun g l c hi => (hresp c.1.entry c.2.1 c.1.arg).inv g l hi
  have iso : IsolatedRel S Inv (AgreeOff t.written) :=
    ⟨fun _ _ h => h.symm, fun _ _ _ h h' => h.trans h', inv, inv,
     fun s s' x c hi hi' h => loc s s' x c hi hi' h, fun s s' y c hi hi' h => loc s s' y c hi hi' h, stays, stays⟩
  have := run_eq_solo S iso es g x y hg
  rw [hes.1, hes.2] at this
  exact this

/-! ## any number of builders -/

/-- **Every interleaving of any number of builders** whose handlers ignore the shared component leaves every builder
    in the state of its solo run (the two-builder statement is the case of two indices). -/
theorem c07_n_interleaving_independent {c : Type} (S : SysN σ α c)
    (hiso : ∀ s s' x k, (S.step s x k).2 = (S.step s' x k).2)
    (es : List (Nat × c)) (s : σ) (f : Nat → α) (i : Nat) :
    (runN S es (s, f)).2 i = (soloN S (projN i es) (s, f i)).2 :=
  runN_eq_solo S (P := fun _ => True) (Rel := fun _ _ => True)
    ⟨fun _ _ _ => trivial, fun _ _ _ _ _ => trivial, fun _ _ _ _ => trivial,
     fun s s' x k _ _ _ => hiso s s' x k, fun _ _ _ _ => trivial⟩ es s f i trivial

/-- **Any number of builders, driven by the extracted summaries**: handler calls that are entries of `t` reading
    first nothing anybody writes (memo caches `ign` aside); every schedule over any number of builders, from every
    shared state satisfying the invariant, leaves builder `i` in the state of its solo run. -/
theorem c07_n_interleaving_summary (t : Table) (Inv : GState V → Prop) (ign : List Nat)
    (hsem : EntrySummary → A → GState V → L → GState V × L)
    (hresp : ∀ e ∈ t.entries, ∀ a, RespectsLocal Inv ign (hsem e a) e.rbw e.writes)
    (es : List (Nat × {c : Call A // c.entry ∈ t.entries ∧ c.entry.badIgn t.written ign = []}))
    (g : GState V) (hg : Inv g) (f : Nat → L) (i : Nat) :
    let S : SysN (GState V) L _ := ⟨fun g l c => hsem c.1.entry c.1.arg g l⟩
    (runN S es (g, f)).2 i = (soloN S (projN i es) (g, f i)).2 := by
  intro S
  refine runN_eq_solo S (P := Inv) (Rel := AgreeOff t.written)
    ⟨fun _ _ h => h.symm, fun _ _ _ h h' => h.trans h', fun g l c hi => (hresp c.1.entry c.2.1 c.1.arg).inv g l hi,
     ?_, ?_⟩ es g f i hg
  · intro g g' l c hi hi' hag
    refine (hresp c.1.entry c.2.1 c.1.arg).reads g g' l hi hi' ?_
    intro v hv
    simp only [List.mem_filter, Bool.not_eq_true', List.contains_eq_mem, decide_eq_false_iff_not] at hv
    exact hag v (badIgn_eq_nil_iff.1 c.2.2 v hv.1 hv.2)
  · intro g l c _ v hv
    exact (hresp c.1.entry c.2.1 c.1.arg).frame g l v (fun hm => hv (mem_written.2 ⟨c.1.entry, c.2.1, hm⟩))

/-! ## reading the decidable table check -/

/-- `okModulo` read logically -/
theorem okModulo_spec (t : Table) (names : Array String) (known : List String) (h : t.okModulo names known = true) :
    ∀ p ∈ t.violations, ∃ s, names[p.2]? = some s ∧ s ∈ known := by
  intro p hp
  have := List.all_eq_true.1 h p hp
  split at this
  · rename_i s hs; exact ⟨s, hs, by simpa using this⟩
  · cases this

theorem mem_idsOf {names : Array String} {l : List String} {v : Nat} {s : String} (h : names[v]? = some s)
    (hs : s ∈ l) : v ∈ idsOf names l := by
  have hlt : v < names.size := by
    rcases Nat.lt_or_ge v names.size with h' | h'
    · exact h'
    · rw [Array.getElem?_eq_none h'] at h; cases h
  simp only [idsOf, List.mem_filter, List.mem_range]
  exact ⟨hlt, by rw [h]; simpa using hs⟩

/-- an entry of a table that is ok modulo `known ++ benign`, none of whose read-first variables carries a known
    (defect) name, reads first nothing anybody writes — the benign memo caches aside -/
theorem entry_ok_of_okModulo (t : Table) (names : Array String) (known benign : List String)
    (h : t.okModulo names (known ++ benign) = true) (e : EntrySummary) (he : e ∈ t.entries)
    (hk : ∀ v ∈ e.rbw, ∀ s, names[v]? = some s → s ∉ known) : e.badIgn t.written (idsOf names benign) = [] := by
  rw [badIgn_eq_nil_iff]
  intro v hv hign hW
  obtain ⟨s, hs, hmem⟩ := okModulo_spec t names (known ++ benign) h (e.name, v) (mem_violations.2 ⟨e, he, rfl, hv, hW⟩)
  rcases List.mem_append.1 hmem with hkn | hbn
  · exact hk v hv s hs hkn
  · exact hign (mem_idsOf hs hbn)

/-! ## the `NetworkBuilder` model -/

open NmlVerif.NetBuilder

/-- two builders with per-instance tables as a `Sys`: nothing is shared (`σ = Unit`) -/
def instSys : Sys Unit BState BState HCall HCall := ⟨fun _ s c => ((), bstep s c), fun _ s c => ((), bstep s c)⟩

theorem instSys_isolated : Isolated instSys := ⟨fun _ _ _ _ => rfl, fun _ _ _ _ => rfl⟩

theorem soloA_instSys : ∀ (cs : List HCall) (s : BState), (soloA instSys cs ((), s)).2 = brun cs s
  | [], _ => rfl
  | c :: cs, s => by simp only [soloA, brun]; exact soloA_instSys cs (bstep s c)

theorem soloB_instSys : ∀ (cs : List HCall) (s : BState), (soloB instSys cs ((), s)).2 = brun cs s
  | [], _ => rfl
  | c :: cs, s => by simp only [soloB, brun]; exact soloB_instSys cs (bstep s c)

/-- **Builders with per-instance tables**: every interleaving of two handler-call sequences (same population /
    projection / input-list ids or not) gives each builder the document it builds alone. -/
theorem c07_builders_independent (h₁ h₂ : List HCall) (es : List (Ev HCall HCall)) (hes : IsInterleaving es h₁ h₂)
    (x y : BState) :
    (run instSys es ((), x, y)).2.1 = brun h₁ x ∧ (run instSys es ((), x, y)).2.2 = brun h₂ y := by
  have := c07_interleaving_independent instSys instSys_isolated h₁ h₂ es hes () x y
  rw [soloA_instSys, soloB_instSys] at this
  exact this

/-- the same on the two-builder world the driver executes: with all tables per instance (`Cfg.allPrivate`) an
    interleaved run is, builder by builder, the solo run — whatever the schedule and the other builder's calls -/
theorem c07_world_private (es : List (Bool × HCall)) (w : World) (who : Bool) :
    (runWorld Cfg.allPrivate es w).get who = brun (callsOf who es) (w.get who) :=
  runWorld_private es w who

/-- **Any number of builders with per-instance tables**: whatever the schedule over builders `0, 1, 2, …`, builder
    `i` ends with the document it builds alone from its own calls. -/
theorem c07_n_builders_independent (es : List (Nat × HCall)) (f : Nat → BState) (i : Nat) :
    (runN (⟨fun _ s c => ((), bstep s c)⟩ : SysN Unit BState HCall) es ((), f)).2 i = brun (projN i es) (f i) := by
  have h := c07_n_interleaving_independent (⟨fun _ s c => ((), bstep s c)⟩ : SysN Unit BState HCall)
    (fun _ _ _ _ => rfl) es () f i
  rw [h]
  have solo : ∀ (cs : List HCall) (s : BState),
      (soloN (⟨fun _ s c => ((), bstep s c)⟩ : SysN Unit BState HCall) cs ((), s)).2 = brun cs s := by
    intro cs
    induction cs with
    | nil => intro s; rfl
    | cons c cs ih => intro s; simp only [soloN, brun]; exact ih (bstep s c)
  exact solo _ _

/-! ## one object used again: the n-th `parse` on the same parser, the n-th document on the same builder

A loader call through the module-level functions makes its own parser and builder; whoever drives
`NeuroMLHdf5Parser` / `NeuroMLXMLParser` / `NetworkBuilder` directly can use one object for several files.  The
property's "n-th identical call" then is the n-th call ON THAT OBJECT. -/

open NmlVerif.ParserReuse in
/-- **full statement (HDF5 parser object)**: what `parse(f)` hands to the handler and what `parse(f); get_nml_doc()`
    returns does not depend on the files parsed before with the same parser object -/
def c07_parser_reuse_full (reset : Bool) : Prop :=
  ∀ (hist : List H5File) (f : H5File),
    popCompObjs reset (runParses reset hist {}) f = popCompObjs reset {} f ∧
    getDocOpt reset (runParses reset hist {}) f = getDocOpt reset {} f

open NmlVerif.ParserReuse in
/-- **today's parser** (`reset = true`: since `fixes/C07-parser-builder-reuse.patch` `parse` starts from the
    attributes of a new parser) satisfies it -/
theorem c07_parser_reuse_repaired : c07_parser_reuse_full true := by
  intro hist f
  simp [popCompObjs, getDocOpt, parse]

open NmlVerif.ParserReuse in
/-- **the parser before the repair did not** (`reset = false`, kept as the reason for the repair): after a file with embedded XML, a file written with `embed_xml=False` gets the first
    file's component object for its population (and, optimized, the first file's components in its document); after a
    file with a network, a file without one returns the first file's network instead of raising -/
theorem c07_parser_reuse_unrepaired_witness : ¬ c07_parser_reuse_full false := by
  intro h
  have := (h [⟨"docA", some [("cell0", "IzhikevichCell:cell0")], some "netA", [("pop0", "cell0")]⟩]
    ⟨"docC", none, some "netC", [("pop0", "cell0")]⟩).1
  revert this
  decide

open NmlVerif.ParserReuse in
/-- **what held before the repair**: a file that carries its embedded XML and has a network group (what
    `NeuroMLHdf5Writer.write` produces by default for a document with a network) is parsed the same way whatever the
    parser object has parsed before — any history, any state -/
theorem c07_parser_reuse_partial (st : PState) (f : H5File) (he : f.embedded.isSome) (hn : f.network.isSome) :
    popCompObjs false st f = popCompObjs false {} f ∧ getDocOpt false st f = getDocOpt false {} f := by
  cases hE : f.embedded with
  | none => simp [hE] at he
  | some e =>
    cases hN : f.network with
    | none => simp [hN] at hn
    | some n => simp [popCompObjs, getDocOpt, parse, hE, hN]

open NmlVerif.ParserReuse in
/-- the partial statement is not vacuous, and is tight in both hypotheses -/
example : (⟨"d", some [("c", "C:c")], some "n", [("p", "c")]⟩ : H5File).embedded.isSome ∧
    getDocOpt false ⟨none, some "old"⟩ ⟨"d", some [], none, []⟩ ≠ getDocOpt false {} ⟨"d", some [], none, []⟩ ∧
    popCompObjs false ⟨some [("c", "C:c")], none⟩ ⟨"d", none, some "n", [("p", "c")]⟩ ≠
      popCompObjs false {} ⟨"d", none, some "n", [("p", "c")]⟩ := by decide

/-- **full statement (builder object)**: the document a builder shows after `handle_document_start` and any further
    handler calls does not depend on the documents it built before -/
def c07_builder_reuse_full (reset : Bool) : Prop :=
  ∀ (hist cs : List HCall) (id : String) (notes : Option String),
    view (brunR reset (.docStart id notes :: cs) (brunR reset hist {})) = view (brunR reset (.docStart id notes :: cs) {})

/-- **today's builder** (`reset = true`: `handle_document_start` forgets `self.network` and the seven tables)
    satisfies it -/
theorem c07_builder_reuse_repaired : c07_builder_reuse_full true := by
  intro hist cs id notes
  simp [brunR, bstepR, HCall.isDocStart]

/-- first document of the witness: declares population `pop` -/
def witReuse1 : List HCall := [.docStart "A" none, .network "netA" none none, .population "pop" "izA" 2 none [] none]

/-- second document of the witness: a location for a population that this document never declares -/
def witReuse2 : List HCall := [.network "netB" none none, .location "0" "pop" (some ("0.0", "0.0", "0.0"))]

/-- **the builder before the repair did not** (`reset = false`): after a document that declares population `pop`, a document with a dangling
    reference to `pop` is accepted silently (the instance lands in the OLD document's population) instead of raising
    `KeyError` -/
theorem c07_builder_reuse_unrepaired_witness : ¬ c07_builder_reuse_full false := by
  intro h
  have := h witReuse1 witReuse2 "B" none
  revert this
  decide

/-- on a new builder, and on the repaired one after any history, the dangling reference is refused -/
example : (view (brunR false (.docStart "B" none :: witReuse2) {})).err = some "KeyError" ∧
    (view (brunR true (.docStart "B" none :: witReuse2) (brunR true witReuse1 {}))).err = some "KeyError" ∧
    (view (brunR false (.docStart "B" none :: witReuse2) (brunR false witReuse1 {}))).err = none := by decide

/-! ## witnesses: the hypotheses are needed and satisfiable -/

/-- the interleaving of the reproduction: A and B both declare a population `pop`; A's locations arrive after B's
    declaration -/
def witA : List HCall := [.docStart "A" none, .network "netA" none none, .population "pop" "izA" 2 none [] none,
  .location "0" "pop" (some ("0.0", "0.0", "0.0")), .location "1" "pop" (some ("1.0", "0.0", "0.0"))]
def witB : List HCall := [.docStart "B" none, .network "netB" none none, .population "pop" "izB" 3 none [] none]
def witSched : List (Bool × HCall) :=
  witReuse1.map (true, ·) ++ witB.map (false, ·) ++ (witA.drop 3).map (true, ·)

/-- **Class-level tables (the code before the repair) violate the property**: in this interleaving builder A ends
    without its two instances — they landed in B's population. -/
theorem c07_shared_tables_witness :
    (runWorld Cfg.allShared witSched {}).a ≠ brun witA {} ∧ (runWorld Cfg.allShared witSched {}).b ≠ brun witB {} := by
  decide

/-- the same schedule with per-instance tables: both builders end in their solo states (instance of
    `c07_world_private`, here by evaluation) -/
example : (runWorld Cfg.allPrivate witSched {}).a = brun witA {} ∧ (runWorld Cfg.allPrivate witSched {}).b = brun witB {} := by
  decide

/-- a table with a violating entry: entry 10 reads variable 0 first and entry 11 writes it -/
def badTable : Table := ⟨[⟨0, .classAttr, true, false⟩], [⟨10, true, [0], []⟩, ⟨11, true, [], [0]⟩]⟩
example : badTable.violations = [(10, 0)] := by decide
example : badTable.okModulo #["NetworkBuilder.populations"] [] = false := by decide
example : badTable.okModulo #["NetworkBuilder.populations"] ["NetworkBuilder.populations"] = true := by decide

/-- `Respects` is satisfiable non-trivially: a call that overwrites variable 1 with its argument and returns the
    value of variable 0 respects `rbw = [0]`, `writes = [1]` -/
example (a : Nat) : Respects (V := Nat) (fun g => (fun v => if v = 1 then a else g v, g 0)) [0] [1] :=
  ⟨fun g v hv => by simp at hv; simp [hv], fun g g' h => h 0 (by simp)⟩

/-- … and a read-before-write of a written variable really is history dependent: a counter -/
example : ∃ (f : GState Nat → GState Nat × Nat), Respects f [0] [0] ∧ (f (f (fun _ => 0)).1).2 ≠ (f (fun _ => 0)).2 :=
  ⟨fun g => (fun v => if v = 0 then g 0 + 1 else g v, g 0),
   ⟨fun g v hv => by simp at hv; simp [hv], fun g g' h => h 0 (by simp)⟩, by simp⟩

/-- hypotheses of `c07_builders_independent` hold for the executable merges -/
example : ∀ es ∈ merges witA witB, IsInterleaving es witA witB := fun es h => merges_sound witA witB es h

end NmlVerif.C07
