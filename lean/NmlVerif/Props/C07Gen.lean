import NmlVerif.Props.C07
import NmlVerif.Gen.Glue
import NmlVerif.Gen.Handlers
/-!
# C07 — the obligations on the tables extracted from the current working tree (re-checked on every run)

`Gen/Glue.lean` is rewritten by `translators/glue_extract.py` and `Gen/Handlers.lean` by
`translators/handler_extract.py` whenever the scanned modules change; this module then rebuilds.

* `c07_table_ok` fails as soon as some entry point may read first a shared variable that some entry point may write,
  unless that variable is a listed known finding, a reviewed memo cache or a configuration switch: a NEW shared mutable
  (a memoising module-level dict, a new mutable default, a class-level table) breaks it.
* `c07_reach_scanned`: every module that a loader entry point can import is one of the scanned modules.
* `c07_env_only_config`: only the configuration API writes a configuration switch.
* `c07_handlers_private`, `c07_gen_cfg_private`, `c07_handler_use_gen`: every attribute a `NetworkBuilder` handler
  touches is private to the instance; the sharing configuration extracted from the source is "nothing shared"; the
  extracted access pattern of the handlers is the hand model's.
* `c07_reuse_table_ok`, `c07_reuse_tree`: no per-OBJECT state (one parser / builder object used for several files) that
  the next use may see; the full reuse statements for the variant found in the source (repaired since
  `fixes/C07-parser-builder-reuse.patch`).
-/
namespace NmlVerif.C07
open NmlVerif.Glue

/-! ## known findings, reviewed memo caches, configuration switches -/

/-- open findings `C07:shared-mutable:<name>` of `known_findings.d/C07.json` (names of violating shared variables);
    empty since the class-level tables of `NetworkBuilder` and the `indices={}` default of `OptimizedList` are
    repaired -/
def Known : List String := []

/-- reviewed memo caches: shared variables that ARE looked up before being filled, but only as
    `cache[key]`-or-compute of a function of never-written class constants, so that no result depends on their
    content (the assumption is explicit in `c07_loaders_history_independent`: `RespectsInv` with an invariant).
    `GeneratedsSuperSuper._get_members` caches, per class name, the list of `member_data_items_` of the class and its
    ancestors in `cls.__all_members_`; `get_nml2_class_hierarchy` caches the class hierarchy (a function of the class
    definitions) in `cls.__nml_hier` — the latter is not reached from any loader entry point, only from the pseudo
    entry that stands for all methods of the document classes. -/
def Benign : List String :=
  ["neuroml/nml/generatedssupersuper.py::GeneratedsSuperSuper._GeneratedsSuperSuper__all_members_",
   "neuroml/nml/generatedssupersuper.py::GeneratedsSuperSuper._GeneratedsSuperSuper__nml_hier"]

/-- configuration switches: read first by entry points, written by the user's configuration calls only
    (`neuroml.enable/disable_build_time_validation`, obligation `c07_env_only_config`).  Their current value is part
    of the INPUT of a load (hypothesis `henv` of `c07_loaders_history_independent`), not history:
    `NetworkBuilder.handle_population` → `nml_doc.append` → `add` validates the document only while the switch is on. -/
def Env : List String := ["neuroml/build_time_validation.py::ENABLED"]

/-- process-global state of OTHER libraries that loader entry points reach through library calls, reviewed one by
    one (kind `external` of the table; every configuration call listed in the translator and EVERY call through a
    private member of an imported library becomes such a variable):
    * the `warnings` filter list — `NeuroMLLoader` / `_read_neuroml2` switch warnings off and reset the filters around
      a parse: changes which warnings a later call PRINTS, never a document;
    * the root `logging` configuration — `NeuroMLHdf5Loader` calls `logging.basicConfig`: log output only;
    * PyTables' registry of open files, as far as `tables.open_file` touches it — every load registers the handle it
      opens and `close()`s that very handle in a `finally`: a load sees and removes ITS OWN entry only.  Any other
      access to the registry (`tables.file._open_files…`: a private member) is a different variable and not listed. -/
def External : List String :=
  ["ext:warnings.filters", "ext:logging.root-config", "ext:tables.open-file-registry(own handle)"]

variable {V R A : Type}

/-! ## the obligations on the extracted table (re-checked on every run) -/

/-- every variable mentioned by a summary is declared -/
theorem c07_table_wf : NmlVerif.Gen.Glue.table.wf = true := by decide +kernel

/-- **no violating shared variable outside `Known ++ Benign ++ External ++ Env`** in the modules as they are now -/
theorem c07_table_ok :
    NmlVerif.Gen.Glue.table.okModulo NmlVerif.Gen.Glue.names (Known ++ ((Benign ++ External) ++ Env)) = true := by
  decide +kernel

/-- **only the configuration API writes a configuration switch** -/
theorem c07_env_only_config :
    NmlVerif.Gen.Glue.table.envOnly NmlVerif.Gen.Glue.names Env NmlVerif.Gen.Glue.envEntries = true := by
  decide +kernel

/-- **the scan covers the real reach**: every module in the import closure of the modules holding loader entry points
    (every import statement, function-level ones included) is one of the scanned modules -/
theorem c07_reach_scanned : subsetStr NmlVerif.Gen.Glue.reach NmlVerif.Gen.Glue.scanned = true := by decide +kernel

/-- **C07 for the loader entry points as extracted.**  For every semantics respecting the extracted summaries (with an
    invariant `Inv` under which the reviewed memo caches do not influence results), every entry point / handler of the
    scanned modules none of whose read-first variables is an open finding returns the same result after any two
    histories of calls of entries of the table — configuration calls included — that leave the configuration switches
    with the same values (the hypothesis about `Known` is empty while `Known = []`). -/
theorem c07_loaders_history_independent (Inv : GState V → Prop) (sem : EntrySummary → A → GState V → GState V × R)
    (hsem : ∀ e ∈ NmlVerif.Gen.Glue.table.entries, ∀ a,
      RespectsInv Inv (idsOf NmlVerif.Gen.Glue.names (Benign ++ External)) (sem e a) e.rbw e.writes)
    (e : EntrySummary) (he : e ∈ NmlVerif.Gen.Glue.table.entries)
    (hk : ∀ v ∈ e.rbw, ∀ s, NmlVerif.Gen.Glue.names[v]? = some s → s ∉ Known) (a : A)
    (h h' : List (Call A)) (hh : ∀ c ∈ h, c.entry ∈ NmlVerif.Gen.Glue.table.entries)
    (hh' : ∀ c ∈ h', c.entry ∈ NmlVerif.Gen.Glue.table.entries) (g : GState V) (hg : Inv g)
    (henv : AgreeOn (idsOf NmlVerif.Gen.Glue.names Env) (runHist sem h g) (runHist sem h' g)) :
    (sem e a (runHist sem h g)).2 = (sem e a (runHist sem h' g)).2 := by
  refine c07_history_independent_env _ Inv _ (idsOf NmlVerif.Gen.Glue.names Env) sem hsem e he ?_ a h h' hh hh' g hg henv
  have h0 := entry_ok_of_okModulo _ _ Known ((Benign ++ External) ++ Env) c07_table_ok e he hk
  rw [badIgn_eq_nil_iff] at h0 ⊢
  intro v hv hnot
  refine h0 v hv (fun hm => hnot ?_)
  obtain ⟨s, hs, hl⟩ := mem_idsOf_iff.1 hm
  rcases List.mem_append.1 hl with hb | henv'
  · exact List.mem_append.2 (Or.inl (mem_idsOf hs hb))
  · exact List.mem_append.2 (Or.inr (mem_idsOf hs henv'))

/-- **… and after any two histories of loader calls, with no hypothesis about the switches**: histories that contain
    no configuration call (entries outside `Gen.Glue.envEntries`: loader entry points, parser and handler methods,
    container and document methods) cannot flip a switch (`c07_env_only_config`). -/
theorem c07_loaders_history_independent_of_loader_histories (Inv : GState V → Prop)
    (sem : EntrySummary → A → GState V → GState V × R)
    (hsem : ∀ e ∈ NmlVerif.Gen.Glue.table.entries, ∀ a,
      RespectsInv Inv (idsOf NmlVerif.Gen.Glue.names (Benign ++ External)) (sem e a) e.rbw e.writes)
    (e : EntrySummary) (he : e ∈ NmlVerif.Gen.Glue.table.entries)
    (hk : ∀ v ∈ e.rbw, ∀ s, NmlVerif.Gen.Glue.names[v]? = some s → s ∉ Known) (a : A)
    (h h' : List (Call A))
    (hh : ∀ c ∈ h, c.entry ∈ NmlVerif.Gen.Glue.table.entries ∧ c.entry.name ∉ NmlVerif.Gen.Glue.envEntries)
    (hh' : ∀ c ∈ h', c.entry ∈ NmlVerif.Gen.Glue.table.entries ∧ c.entry.name ∉ NmlVerif.Gen.Glue.envEntries)
    (g : GState V) (hg : Inv g) :
    (sem e a (runHist sem h g)).2 = (sem e a (runHist sem h' g)).2 := by
  have keep : ∀ (l : List (Call A)),
      (∀ c ∈ l, c.entry ∈ NmlVerif.Gen.Glue.table.entries ∧ c.entry.name ∉ NmlVerif.Gen.Glue.envEntries) →
      AgreeOn (idsOf NmlVerif.Gen.Glue.names Env) (runHist sem l g) g := fun l hl =>
    c07_loader_histories_keep_env _ Inv _ _ sem hsem l
      (fun c hc => ⟨(hl c hc).1, envOnly_spec c07_env_only_config (hl c hc).1 (hl c hc).2⟩) g hg
  exact c07_loaders_history_independent Inv sem hsem e he hk a h h' (fun c hc => (hh c hc).1)
    (fun c hc => (hh' c hc).1) g hg (fun v hv => (keep h hh v hv).trans (keep h' hh' v hv).symm)

/-! ## `NetworkBuilder`: the handler methods' attributes (Gen/Handlers.lean) -/

open NmlVerif.NetBuilder

/-- the seven tables of the model exist as attributes of the class -/
theorem c07_tables_exist :
    tablesExist NmlVerif.Gen.Handlers.builderAttrs NmlVerif.Gen.Handlers.tableIds = true := by decide

/-- **every attribute a handler method touches is private to the instance**: none is a class-level mutable object
    that `__init__` does not replace -/
theorem c07_handlers_private :
    handlersPrivate NmlVerif.Gen.Handlers.builderAttrs NmlVerif.Gen.Handlers.touch = true := by decide

/-- the sharing configuration extracted from the source: no table is shared between builder instances -/
theorem c07_gen_cfg_private :
    cfgOfAttrs NmlVerif.Gen.Handlers.builderAttrs NmlVerif.Gen.Handlers.tableIds = Cfg.allPrivate := by decide

/-- **generated = hand model**: which tables each handler looks up / stores into / mutates through, extracted from
    `NetworkBuilder.py`, is the access pattern of the model's handlers -/
theorem c07_handler_use_gen : NmlVerif.Gen.Handlers.use = modelUse NmlVerif.Gen.Handlers.builderResets := by decide

/-- **builders of the tree under test**: with the sharing configuration extracted from the source, an interleaved run
    of two builders is, builder by builder, the solo run -/
theorem c07_builders_independent_tree (es : List (Bool × HCall)) (w : World) (who : Bool) :
    (runWorld (cfgOfAttrs NmlVerif.Gen.Handlers.builderAttrs NmlVerif.Gen.Handlers.tableIds) es w).get who =
      brun (callsOf who es) (w.get who) := by
  rw [c07_gen_cfg_private]
  exact c07_world_private es w who

/-! ## one object used for several files (Gen/Handlers.lean) -/

/-- formerly the open finding `C07:reuse:*` (instance attributes that a later use of the same object may read before
    assigning them: `NetworkBuilder` kept `self.network` and its seven tables across `handle_document_start`;
    `NeuroMLHdf5Parser` kept `nml_doc_extra_elements`, `optimizedNetwork`, `doc_id`, `doc_notes` and, after a failed
    parse, its cursor fields).  Repaired by `fixes/C07-parser-builder-reuse.patch`: the list is empty, so ANY per-object
    state that a next use may see breaks `c07_reuse_table_ok`. -/
def KnownReuse : List String := []

theorem c07_reuse_table_wf : NmlVerif.Gen.Handlers.reuseTable.wf = true := by decide

/-- **no per-object state that the next use may see** -/
theorem c07_reuse_table_ok :
    NmlVerif.Gen.Handlers.reuseTable.okModulo NmlVerif.Gen.Handlers.names (KnownReuse ++ []) = true := by decide

/-- **the n-th use of one object = its first use** (`KnownReuse = []`: the hypothesis `hk` is empty, every use of the
    table qualifies — `NeuroMLHdf5Parser.parse; get_nml_doc`, `NeuroMLXMLParser.parse`, a document build on one
    `NetworkBuilder`): for every semantics respecting the extracted per-object summaries, the result after any two
    histories of uses of the SAME objects is the same -/
theorem c07_reuse_history_independent (sem : EntrySummary → A → GState V → GState V × R)
    (hsem : ∀ e ∈ NmlVerif.Gen.Handlers.reuseTable.entries, ∀ a, Respects (sem e a) e.rbw e.writes)
    (e : EntrySummary) (he : e ∈ NmlVerif.Gen.Handlers.reuseTable.entries)
    (hk : ∀ v ∈ e.rbw, ∀ s, NmlVerif.Gen.Handlers.names[v]? = some s → s ∉ KnownReuse) (a : A)
    (h h' : List (Call A)) (hh : ∀ c ∈ h, c.entry ∈ NmlVerif.Gen.Handlers.reuseTable.entries)
    (hh' : ∀ c ∈ h', c.entry ∈ NmlVerif.Gen.Handlers.reuseTable.entries) (g : GState V) :
    (sem e a (runHist sem h g)).2 = (sem e a (runHist sem h' g)).2 :=
  c07_history_independent_inv _ (fun _ => True) _ sem (fun e he a => (hsem e he a).toInv) e he
    (entry_ok_of_okModulo _ _ KnownReuse [] c07_reuse_table_ok e he hk) a h h' hh hh' g trivial

/-- the hypothesis `hk` holds for EVERY use of the table (nothing is listed any more) -/
example : ∀ e ∈ NmlVerif.Gen.Handlers.reuseTable.entries,
    ∀ v ∈ e.rbw, ∀ s, NmlVerif.Gen.Handlers.names[v]? = some s → s ∉ KnownReuse := by
  intro e _ v _ s _ h
  cases h

/-- … and the table has the three uses -/
example : NmlVerif.Gen.Handlers.reuseTable.entries.length = 3 ∧ NmlVerif.Gen.Handlers.reuseTable.violations = [] := by
  decide

/-- the translator finds the repaired shape in the tree under test: `handle_document_start` / `parse` assign
    everything later steps read -/
theorem c07_resets_found :
    NmlVerif.Gen.Handlers.builderResets = true ∧ NmlVerif.Gen.Handlers.parserResets = true := by decide

/-- **the full reuse statements hold for the code of the tree under test** (model variant = the one the translator
    finds): the document a used `NetworkBuilder` builds, what a used `NeuroMLHdf5Parser` hands to its handler and what
    it returns in optimized mode, do not depend on what the object was used for before.  (Un-repairing the code flips
    the extracted flags: this theorem and `c07_resets_found` then fail, and the reuse streams find the input.) -/
theorem c07_reuse_tree :
    c07_builder_reuse_full NmlVerif.Gen.Handlers.builderResets ∧
    c07_parser_reuse_full NmlVerif.Gen.Handlers.parserResets := by
  rw [c07_resets_found.1, c07_resets_found.2]
  exact ⟨c07_builder_reuse_repaired, c07_parser_reuse_repaired⟩

end NmlVerif.C07
