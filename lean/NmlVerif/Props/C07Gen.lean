import NmlVerif.Props.C07
import NmlVerif.Gen.Glue
/-!
# C07 — the obligation on the table extracted from the current working tree (re-checked on every run)

`Gen/Glue.lean` is rewritten by `translators/glue_extract.py` whenever the scanned modules change; this module then
rebuilds.  `c07_table_ok` fails as soon as some entry point may read first a shared variable that some entry point may
write, unless that variable is a listed known finding: a NEW shared mutable (a memoising module-level dict, a new
mutable default, a class-level table) breaks it.
-/
namespace NmlVerif.C07
open NmlVerif.Glue

/-! ## known findings and reviewed memo caches -/

/-- open findings `C07:shared-mutable:<name>` of `known_findings.d/C07.json` (names of violating shared variables);
    empty since the class-level tables of `NetworkBuilder` and the `indices={}` default of `OptimizedList` are
    repaired -/
def Known : List String := []

/-- reviewed memo caches: shared variables that ARE looked up before being filled, but only as
    `cache[key]`-or-compute of a function of never-written class constants, so that no result depends on their
    content (the assumption is explicit in `c07_loaders_history_independent`: `RespectsInv` with an invariant).
    `GeneratedsSuperSuper._get_members` caches, per class name, the list of `member_data_items_` of the class and its
    ancestors in `cls.__all_members_`. -/
def Benign : List String :=
  ["neuroml/nml/generatedssupersuper.py::GeneratedsSuperSuper._GeneratedsSuperSuper__all_members_"]

variable {V R A : Type}

/-! ## the obligation on the extracted table (re-checked on every run) -/

/-- every variable mentioned by a summary is declared -/
theorem c07_table_wf : NmlVerif.Gen.Glue.table.wf = true := by decide +kernel

/-- **no violating shared variable outside `Known ++ Benign`** in the modules as they are now -/
theorem c07_table_ok : NmlVerif.Gen.Glue.table.okModulo NmlVerif.Gen.Glue.names (Known ++ Benign) = true := by
  decide +kernel

/-- **C07 for the loader entry points as extracted.**  For every semantics respecting the extracted summaries (with an
    invariant `Inv` under which the reviewed memo caches do not influence results), every entry point / handler of the
    scanned modules none of whose read-first variables is an open finding returns the same result after any two
    histories of calls of entries of the table (the hypothesis about `Known` is empty while `Known = []`). -/
theorem c07_loaders_history_independent (Inv : GState V → Prop) (sem : EntrySummary → A → GState V → GState V × R)
    (hsem : ∀ e ∈ NmlVerif.Gen.Glue.table.entries, ∀ a,
      RespectsInv Inv (idsOf NmlVerif.Gen.Glue.names Benign) (sem e a) e.rbw e.writes)
    (e : EntrySummary) (he : e ∈ NmlVerif.Gen.Glue.table.entries)
    (hk : ∀ v ∈ e.rbw, ∀ s, NmlVerif.Gen.Glue.names[v]? = some s → s ∉ Known) (a : A)
    (h h' : List (Call A)) (hh : ∀ c ∈ h, c.entry ∈ NmlVerif.Gen.Glue.table.entries)
    (hh' : ∀ c ∈ h', c.entry ∈ NmlVerif.Gen.Glue.table.entries) (g : GState V) (hg : Inv g) :
    (sem e a (runHist sem h g)).2 = (sem e a (runHist sem h' g)).2 :=
  c07_history_independent_inv _ Inv _ sem hsem e he
    (entry_ok_of_okModulo _ _ Known Benign c07_table_ok e he hk) a h h' hh hh' g hg

end NmlVerif.C07
