import NmlVerif.Proofs.Fault
import NmlVerif.Proofs.Trunc
/-!
# C08 — a failed read or write leaves the document and the process clean

Generic part.  Model: `NmlVerif.Fault` (`Model/Fault.lean`): effect skeletons with fault semantics; the skeletons
of the real entry points are extracted from the source on every run (`Gen/Skeletons.lean`) and the per-run
obligations about them are in `Props/C08Gen.lean`.  Truncation clause: `NmlVerif.Trunc` (`Model/Trunc.lean`).
Tie to the code: `harness/props/c08.py` (fault injection at every file-layer call of the real library, compared
call by call with `run` on the extracted skeleton through `Drivers/C08.lean`; truncation at every byte offset).
-/
namespace NmlVerif.Fault

/-- **Soundness of the syntactic criterion, every fault point.**  A protected skeleton run from *any* state —
    any number of handles already open, any pending fault point `budget = some k` (or none), any exception
    class, any oracle (loop trip counts, branch outcomes, raises of un-expanded code) — ends with exactly the
    handles it started with, the document exactly as attached as before, and, if the injected fault was
    delivered (`k` smaller than the number of file-layer calls made), with a raise. -/
theorem c08_protected_sound (s : Stmt) (h : Protected s) (st : St) :
    (run s st).1.handles = st.handles ∧ (run s st).1.detached = st.detached ∧
      (st.fired = false → (run s st).1.fired = true → (run s st).2.isRaised = true) := by
  have := protected_sound false s h st
  exact ⟨this.1, this.2.1 rfl, this.2.2⟩

/-- the same, spelled out for a call of an entry point with the fault at its `(k+1)`-th file-layer call -/
theorem c08_every_fault_point (s : Stmt) (h : Protected s) (oracle : Nat → List Nat) (k kind : Nat) :
    (run s (St.init oracle (some k) kind)).1.handles = 0 ∧
    (run s (St.init oracle (some k) kind)).1.detached = 0 ∧
    ((run s (St.init oracle (some k) kind)).1.fired = true →
      (run s (St.init oracle (some k) kind)).2.isRaised = true) := by
  have := c08_protected_sound s h (St.init oracle (some k) kind)
  exact ⟨this.1, this.2.1, this.2.2 rfl⟩

/-- … and for a failure that is not a file-layer error (a construct the format cannot hold, malformed input:
    a `raise` statement or a raise inside un-expanded code, chosen by the oracle) -/
theorem c08_every_natural_failure (s : Stmt) (h : Protected s) (oracle : Nat → List Nat) :
    (run s (St.init oracle none 0)).1.handles = 0 ∧ (run s (St.init oracle none 0)).1.detached = 0 := by
  have := c08_protected_sound s h (St.init oracle none 0)
  exact ⟨this.1, this.2.1⟩

/-- **Retry.**  After a failed call of a protected entry point (fault at any call `k`), calling it again starts
    from exactly the state a first call starts from: same handles, same document — so it behaves as the first
    call would have without the fault. -/
theorem c08_retry (s : Stmt) (h : Protected s) (oracle oracle' : Nat → List Nat) (k kind : Nat) :
    run s { (run s (St.init oracle (some k) kind)).1 with
            budget := none, fired := false, faultKind := kind, exc := 0, oracle := oracle', trace := [] }
      = run s (St.init oracle' none kind) := by
  have := c08_every_fault_point s h oracle k kind
  congr 1
  simp only [St.init] at this ⊢
  rw [this.1, this.2.1]

/-- the executable criterion decides protection -/
theorem c08_criterion (s : Stmt) (h : unprotected s = []) : Protected s :=
  unprotected_sound false s (by rw [h]; intro u hu; cases hu)

/-- **Handles only.**  When the only unprotected places are document modifications, handles still never leak
    and a delivered fault is still raised (the document may stay modified). -/
theorem c08_handles_only (s : Stmt) (h : ∀ u ∈ unprotected s, u.1.isDoc = true) (st : St) :
    (run s st).1.handles = st.handles ∧
      (st.fired = false → (run s st).1.fired = true → (run s st).2.isRaised = true) := by
  have := protected_sound true s (unprotected_sound true s fun u hu => ⟨rfl, h u hu⟩) st
  exact ⟨this.1, this.2.2⟩

/-! ### the shapes found in the repository, as literals

`…Old` = shape before the `fixes/C08-*.patch` repairs, `…Fixed` = after.  Sites/oracle ids are small numbers
here; the extracted skeletons of the current tree are in `Gen/Skeletons.lean`. -/

/-- `NeuroMLWriter.write` before the repair: closes on `AttributeError` (class 2) only -/
def xmlOld : Stmt :=
  .seq (.call (.open_ 1) 1)
    (.seq (.tryExcept 2 (.opaque .export 3 1 2) [2] false (.seq (.call (.close 1) 4) (.reraise 5)))
      (.call (.close 1) 6))
def xmlFixed : Stmt :=
  .seq (.call (.open_ 1) 1) (.tryFinally 2 (.opaque .export 3 1 2) (.call (.close 1) 6))

/-- `NeuroMLHdf5Writer.write`: open, header, networks (un-expanded here), detach networks, embed XML, re-attach, close -/
def hdf5Old : Stmt :=
  .seq (.call (.open_ 1) 1) (.seq (.call (.io .createGroup) 2) (.seq (.loop 1 (.opaque .export 3 2 3))
    (.seq (.mutate 1 7) (.seq (.opaque .export 4 4 5) (.seq (.call (.io .setAttr) 5) (.seq (.restore 1)
      (.call (.close 1) 6)))))))
def hdf5Fixed : Stmt :=
  .seq (.call (.open_ 1) 1) (.tryFinally 7
    (.seq (.call (.io .createGroup) 2) (.seq (.loop 1 (.opaque .export 3 2 3))
      (.seq (.mutate 1 9) (.tryFinally 8 (.seq (.opaque .export 4 4 5) (.call (.io .setAttr) 5)) (.restore 1)))))
    (.call (.close 1) 6))

/-- `ArrayMorphWriter.write` for a document (after the `finally` repair): ids are assigned to id-less
    morphologies — a modification of the document that is never undone (open finding) -/
def amwToday : Stmt :=
  .seq (.call (.open_ 1) 1) (.tryFinally 2
    (.loop 1 (.seq (.choice 2 (.mutate 2 6) .skip)
      (.seq (.call (.io .createGroup) 3) (.call (.io .createArray) 4))))
    (.call (.close 1) 5))

example : Protected xmlFixed := c08_criterion _ (by decide)
example : Protected hdf5Fixed := c08_criterion _ (by decide)
example : unprotected xmlOld = [(.openNoFinally, 1), (.bareClose, 4), (.bareClose, 6)] := by decide
example : (unprotected hdf5Old).map (·.1) = [.openNoFinally, .mutateNoRestore, .bareRestore, .bareClose] := by decide
example : ∀ u ∈ unprotected amwToday, u.1.isDoc = true := by decide

/-- oracle given as an association list -/
def oracleOf (l : List (Nat × List Nat)) : Nat → List Nat := fun i => (l.lookup i).getD []

/-- the repaired defects, as concrete fault points of the old shapes: the XML writer leaks its handle when
    `export` raises anything but `AttributeError` (here class 4 = `TypeError`, after 2 writes) … -/
example : (run xmlOld (St.init (oracleOf [(1, [2]), (2, [5])]) none 0)).1.handles = 1 := by decide
/-- … but not for `AttributeError` … -/
example : (run xmlOld (St.init (oracleOf [(1, [2]), (2, [3])]) none 0)).1.handles = 0 := by decide
/-- … the HDF5 writer leaks when `exportHdf5` refuses a construct, and leaves the networks detached (and the
    handle open) when the embedded-XML step fails -/
example : (run hdf5Old (St.init (oracleOf [(1, [1]), (3, [1])]) none 0)).1.handles = 1 := by decide
example : (run hdf5Old (St.init (oracleOf [(5, [1])]) none 0)).1.detached = 1 := by decide
/-- every fault point of the repaired shapes is clean (instances of the theorem, here evaluated) -/
example : ((List.range 9).all fun k =>
    (run hdf5Fixed (St.init (oracleOf [(1, [1]), (2, [2]), (4, [1])]) (some k) 1)).1.handles == 0 &&
    (run hdf5Fixed (St.init (oracleOf [(1, [1]), (2, [2]), (4, [1])]) (some k) 1)).1.detached == 0) = true := by
  decide

/-- **Full statement for the array-morphology writer** (kept visible; false today): at every fault point the
    document is left as it was. -/
def c08_arraymorph_full : Prop :=
  ∀ st : St, (run amwToday st).1.handles = st.handles ∧ (run amwToday st).1.detached = st.detached

/-- strongest true restriction: handles never leak and the fault is raised -/
theorem c08_arraymorph_partial (st : St) :
    (run amwToday st).1.handles = st.handles ∧
      (st.fired = false → (run amwToday st).1.fired = true → (run amwToday st).2.isRaised = true) :=
  c08_handles_only amwToday (by decide) st

/-- an id-less morphology, fault at the 3rd file-layer call (`create_array`): the id assigned before the fault
    stays in the document -/
theorem c08_arraymorph_witness : ¬ c08_arraymorph_full := by
  intro h
  have := (h (St.init (oracleOf [(1, [1]), (2, [1])]) (some 2) 1)).2
  revert this
  decide

end NmlVerif.Fault

namespace NmlVerif.Trunc

/-- the whole token stream of any tree is accepted (the clause below is not vacuous) -/
theorem c08_whole_accepted (x : Tree) : Complete (tokens x) := by
  refine ⟨?_, bal_tokens x 0⟩
  cases x <;> simp [tokens]

/-- **Truncation.**  Cut the token stream of any tree after `k` whole tokens, `k` smaller than the number of
    tokens, possibly inside the next token: what remains is never a complete document (it is empty, or has an
    element still open, or ends in a cut token). -/
theorem c08_truncated_incomplete (x : Tree) (k : Nat) (hk : k < (tokens x).length) (inside : Bool) :
    ¬ Complete (cutTokens (tokens x) k inside) := by
  have hsplit : (tokens x).take k ++ (tokens x).drop k = tokens x := List.take_append_drop k _
  have hq : (tokens x).drop k ≠ [] := by
    intro h
    have := congrArg List.length h
    simp at this
    omega
  obtain ⟨d', hb, _, hlt⟩ := prefix_tokens x 0 _ _ hsplit
  intro hc
  unfold Complete cutTokens at hc
  cases inside with
  | true =>
    have := hc.2
    rw [if_pos rfl, bal_append, hb] at this
    simp [bal] at this
  | false =>
    simp only [Bool.false_eq_true, if_false, List.append_nil] at hc
    have h0 := hlt hc.1 hq
    rw [hb] at hc
    have := hc.2
    simp at this
    omega

example : Complete (tokens (.node 1 [.leaf 2, .node 3 [.text], .text])) := by decide
example : ¬ Complete (cutTokens (tokens (.node 1 [.leaf 2, .node 3 [.text], .text])) 4 false) := by decide

end NmlVerif.Trunc
