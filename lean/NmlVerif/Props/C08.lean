import NmlVerif.Proofs.Fault
import NmlVerif.Proofs.Trunc
import NmlVerif.Proofs.TruncWs
/-!
# C08 — a failed read or write leaves the document and the process clean

Generic part.  Model: `NmlVerif.Fault` (`Model/Fault.lean`): effect skeletons with fault semantics; the skeletons
of the real entry points are extracted from the source on every run (`Gen/Skeletons.lean`) and the per-run
obligations about them are in `Props/C08Gen.lean`.  Truncation clause: `NmlVerif.Trunc` (`Model/Trunc.lean`).
Tie to the code: `harness/props/c08.py` (fault injection at every file-layer call of the real library, compared
call by call with `run` on the extracted skeleton through `Drivers/C08.lean`; truncation at every byte offset).
-/
namespace NmlVerif.Fault

/-- **Soundness of the syntactic criterion, every fault point.**  A protected skeleton run from *any* state —
    any number of handles already open, any pending fault point `budget = some k` (or none), any exception
    class, any oracle (loop trip counts, branch outcomes, raises of un-expanded code) — ends with exactly the
    handles it started with, the document exactly as attached as before, and, if the injected fault was
    delivered (`k` smaller than the number of file-layer calls made), with a raise. -/
theorem c08_protected_sound (s : Stmt) (h : Protected s) (st : St) :
    (run s st).1.handles = st.handles ∧ (run s st).1.detached = st.detached ∧
      (st.fired = false → (run s st).1.fired = true → (run s st).2.isRaised = true) := by
  have := protected_sound false s h st
  exact ⟨this.1, this.2.1 rfl, this.2.2⟩

/-- the same, spelled out for a call of an entry point with the fault at its `(k+1)`-th file-layer call -/
theorem c08_every_fault_point (s : Stmt) (h : Protected s) (oracle : Nat → List Nat) (k kind : Nat) :
    (run s (St.init oracle (some k) kind)).1.handles = 0 ∧
    (run s (St.init oracle (some k) kind)).1.detached = 0 ∧
    ((run s (St.init oracle (some k) kind)).1.fired = true →
      (run s (St.init oracle (some k) kind)).2.isRaised = true) := by
  have := c08_protected_sound s h (St.init oracle (some k) kind)
  exact ⟨this.1, this.2.1, this.2.2 rfl⟩

/-- … and for a failure that is not a file-layer error (a construct the format cannot hold, malformed input:
    a `raise` statement or a raise inside un-expanded code, chosen by the oracle) -/
theorem c08_every_natural_failure (s : Stmt) (h : Protected s) (oracle : Nat → List Nat) :
    (run s (St.init oracle none 0)).1.handles = 0 ∧ (run s (St.init oracle none 0)).1.detached = 0 := by
  have := c08_protected_sound s h (St.init oracle none 0)
  exact ⟨this.1, this.2.1⟩

/-- **Retry.**  After a failed call of a protected entry point (fault at any call `k`), calling it again starts
    from exactly the state a first call starts from: same handles, same document — so it behaves as the first
    call would have without the fault. -/
theorem c08_retry (s : Stmt) (h : Protected s) (oracle oracle' : Nat → List Nat) (k kind : Nat) :
    run s { (run s (St.init oracle (some k) kind)).1 with
            budget := none, fired := false, faultKind := kind, exc := 0, oracle := oracle', trace := [] }
      = run s (St.init oracle' none kind) := by
  have := c08_every_fault_point s h oracle k kind
  congr 1
  simp only [St.init] at this ⊢
  rw [this.1, this.2.1]

/-- the state in which the *next* call of an entry point starts when the previous call ended in `s1`: the
    process keeps whatever handles and document state the previous call left; no fault is pending; the
    data-dependent choices are read from the input as it is now (`oracle'`) -/
def St.again (s1 : St) (oracle' : Nat → List Nat) (kind : Nat) : St :=
  { s1 with budget := none, fired := false, faultKind := kind, exc := 0, oracle := oracle', trace := [] }

/-- **A failed call leaves no mark on the next one.**  For a protected skeleton, from any state and with any
    fault pending (every fault point, every exception class, every oracle), the state the next call starts from
    after the run is the state it would have started from without the run. -/
theorem c08_failed_call_leaves_no_mark (s : Stmt) (h : Protected s) (st : St) (oracle' : Nat → List Nat)
    (kind : Nat) : (run s st).1.again oracle' kind = st.again oracle' kind := by
  have := c08_protected_sound s h st
  simp only [St.again]
  rw [this.1, this.2.1]

/-- **"The same call succeeds once the cause is removed".**  Call a protected entry point with a fault at its
    `(k+1)`-th file-layer call (any `k`, any class) on an input described by `oracle`; then call it again with
    the fault gone, on the input as it is then (`oracle'`: the same document, or the document with the
    offending construct removed).  The second call *is* the run of a first call on that input: same outcome,
    same file-layer calls in the same order, same final state.  In particular it succeeds whenever a first call
    on that input succeeds, and it ends with no handle open and the document attached. -/
theorem c08_retry_is_first_call (s : Stmt) (h : Protected s) (oracle oracle' : Nat → List Nat) (k kind : Nat) :
    run s ((run s (St.init oracle (some k) kind)).1.again oracle' kind) = run s (St.init oracle' none kind) := by
  rw [c08_failed_call_leaves_no_mark s h]
  rfl

theorem c08_retry_succeeds (s : Stmt) (h : Protected s) (oracle oracle' : Nat → List Nat) (k kind : Nat)
    (hfirst : (run s (St.init oracle' none kind)).2 = .ok) :
    let again := run s ((run s (St.init oracle (some k) kind)).1.again oracle' kind)
    again.2 = .ok ∧ again.1.handles = 0 ∧ again.1.detached = 0 ∧
      again.1.trace = (run s (St.init oracle' none kind)).1.trace := by
  simp only [c08_retry_is_first_call s h]
  have := c08_protected_sound s h (St.init oracle' none kind)
  exact ⟨hfirst, this.1, this.2.1, trivial⟩

/-- the same after a failure that was not a file-layer error (the input itself made the call fail) -/
theorem c08_retry_after_natural_failure (s : Stmt) (h : Protected s) (oracle oracle' : Nat → List Nat) (kind : Nat) :
    run s ((run s (St.init oracle none kind)).1.again oracle' kind) = run s (St.init oracle' none kind) := by
  rw [c08_failed_call_leaves_no_mark s h]
  rfl

/-- any number of failed calls in a row (each with its own fault point, class and oracle) change nothing for
    the call that follows them -/
theorem c08_retry_after_many (s : Stmt) (h : Protected s) (kind : Nat) (oracle' : Nat → List Nat) :
    ∀ (faults : List (Nat × Nat × (Nat → List Nat))) (st : St),
      (faults.foldl (fun cur f => (run s { cur.again f.2.2 f.2.1 with budget := some f.1 }).1) st).again oracle' kind
        = st.again oracle' kind := by
  intro faults
  induction faults with
  | nil => intro st; rfl
  | cons f r ih =>
    intro st
    simp only [List.foldl]
    rw [ih, c08_failed_call_leaves_no_mark s h]
    rfl

/-- the executable criterion decides protection -/
theorem c08_criterion (s : Stmt) (h : unprotected s = []) : Protected s :=
  unprotected_sound false s (by rw [h]; intro u hu; cases hu)

/-- **Handles only.**  When the only unprotected places are document modifications, handles still never leak
    and a delivered fault is still raised (the document may stay modified). -/
theorem c08_handles_only (s : Stmt) (h : ∀ u ∈ unprotected s, u.1.isDoc = true) (st : St) :
    (run s st).1.handles = st.handles ∧
      (st.fired = false → (run s st).1.fired = true → (run s st).2.isRaised = true) := by
  have := protected_sound true s (unprotected_sound true s fun u hu => ⟨rfl, h u hu⟩) st
  exact ⟨this.1, this.2.2⟩

/-! ### the shapes found in the repository, as literals

`…Old` = shape before the `fixes/C08-*.patch` repairs, `…Fixed` = after.  Sites/oracle ids are small numbers
here; the extracted skeletons of the current tree are in `Gen/Skeletons.lean`. -/

/-- `NeuroMLWriter.write` before the repair: closes on `AttributeError` (class 2) only -/
def xmlOld : Stmt :=
  .seq (.call (.open_ 1) 1)
    (.seq (.tryExcept 2 (.opaque .export 3 1 2) [2] false (.seq (.call (.close 1) 4) (.reraise 5)))
      (.call (.close 1) 6))
def xmlFixed : Stmt :=
  .seq (.call (.open_ 1) 1) (.tryFinally 2 (.opaque .export 3 1 2) (.call (.close 1) 6))

/-- `NeuroMLHdf5Writer.write`: open, header, networks (un-expanded here), detach networks, embed XML, re-attach, close -/
def hdf5Old : Stmt :=
  .seq (.call (.open_ 1) 1) (.seq (.call (.io .createGroup) 2) (.seq (.loop 1 (.opaque .export 3 2 3))
    (.seq (.mutate 1 7) (.seq (.opaque .export 4 4 5) (.seq (.call (.io .setAttr) 5) (.seq (.restore 1)
      (.call (.close 1) 6)))))))
def hdf5Fixed : Stmt :=
  .seq (.call (.open_ 1) 1) (.tryFinally 7
    (.seq (.call (.io .createGroup) 2) (.seq (.loop 1 (.opaque .export 3 2 3))
      (.seq (.mutate 1 9) (.tryFinally 8 (.seq (.opaque .export 4 4 5) (.call (.io .setAttr) 5)) (.restore 1)))))
    (.call (.close 1) 6))

/-- `ArrayMorphWriter.write` for a document (after the `finally` repair): ids are assigned to id-less
    morphologies — a modification of the document that is never undone (open finding) -/
def amwToday : Stmt :=
  .seq (.call (.open_ 1) 1) (.tryFinally 2
    (.loop 1 (.seq (.choice 2 (.mutate 2 6) .skip)
      (.seq (.call (.io .createGroup) 3) (.call (.io .createArray) 4))))
    (.call (.close 1) 5))

example : Protected xmlFixed := c08_criterion _ (by decide)
example : Protected hdf5Fixed := c08_criterion _ (by decide)
example : unprotected xmlOld = [(.openNoFinally, 1), (.bareClose, 4), (.bareClose, 6)] := by decide
example : (unprotected hdf5Old).map (·.1) = [.openNoFinally, .mutateNoRestore, .bareRestore, .bareClose] := by decide
example : ∀ u ∈ unprotected amwToday, u.1.isDoc = true := by decide

/-- oracle given as an association list -/
def oracleOf (l : List (Nat × List Nat)) : Nat → List Nat := fun i => (l.lookup i).getD []

/-- the repaired defects, as concrete fault points of the old shapes: the XML writer leaks its handle when
    `export` raises anything but `AttributeError` (here class 4 = `TypeError`, after 2 writes) … -/
example : (run xmlOld (St.init (oracleOf [(1, [2]), (2, [5])]) none 0)).1.handles = 1 := by decide
/-- … but not for `AttributeError` … -/
example : (run xmlOld (St.init (oracleOf [(1, [2]), (2, [3])]) none 0)).1.handles = 0 := by decide
/-- … the HDF5 writer leaks when `exportHdf5` refuses a construct, and leaves the networks detached (and the
    handle open) when the embedded-XML step fails -/
example : (run hdf5Old (St.init (oracleOf [(1, [1]), (3, [1])]) none 0)).1.handles = 1 := by decide
example : (run hdf5Old (St.init (oracleOf [(5, [1])]) none 0)).1.detached = 1 := by decide
/-- every fault point of the repaired shapes is clean (instances of the theorem, here evaluated) -/
example : ((List.range 9).all fun k =>
    (run hdf5Fixed (St.init (oracleOf [(1, [1]), (2, [2]), (4, [1])]) (some k) 1)).1.handles == 0 &&
    (run hdf5Fixed (St.init (oracleOf [(1, [1]), (2, [2]), (4, [1])]) (some k) 1)).1.detached == 0) = true := by
  decide

/-- the hypothesis of `c08_retry_succeeds` is met: a first call of the repaired HDF5 writer on a document with one
    network succeeds; so does the retry after a fault at any of its nine file-layer calls (instance, evaluated) -/
example : (run hdf5Fixed (St.init (oracleOf [(1, [1]), (2, [2]), (4, [1])]) none 1)).2 = .ok := by decide
example : ((List.range 9).all fun k =>
    (run hdf5Fixed ((run hdf5Fixed (St.init (oracleOf [(1, [1]), (2, [2]), (4, [1])]) (some k) 1)).1.again
      (oracleOf [(1, [1]), (2, [2]), (4, [1])]) 1)).2 == .ok) = true := by decide
/-- … while the old shape, after its embedded-XML step has failed once, starts the next call with the networks
    still detached and a handle open: the failed call has left its mark -/
example : ((run hdf5Old (St.init (oracleOf [(5, [1])]) none 0)).1.again (oracleOf []) 0).detached = 1 ∧
    ((run hdf5Old (St.init (oracleOf [(5, [1])]) none 0)).1.again (oracleOf []) 0).handles = 1 := by decide

/-- **Full statement for the array-morphology writer** (kept visible; false today): at every fault point the
    document is left as it was. -/
def c08_arraymorph_full : Prop :=
  ∀ st : St, (run amwToday st).1.handles = st.handles ∧ (run amwToday st).1.detached = st.detached

/-- strongest true restriction: handles never leak and the fault is raised -/
theorem c08_arraymorph_partial (st : St) :
    (run amwToday st).1.handles = st.handles ∧
      (st.fired = false → (run amwToday st).1.fired = true → (run amwToday st).2.isRaised = true) :=
  c08_handles_only amwToday (by decide) st

/-- an id-less morphology, fault at the 3rd file-layer call (`create_array`): the id assigned before the fault
    stays in the document -/
theorem c08_arraymorph_witness : ¬ c08_arraymorph_full := by
  intro h
  have := (h (St.init (oracleOf [(1, [1]), (2, [1])]) (some 2) 1)).2
  revert this
  decide

/-- the retry clause for the same writer, full (false today): a failed call leaves no mark on the next call -/
def c08_arraymorph_retry_full : Prop :=
  ∀ (st : St) (oracle' : Nat → List Nat) (kind : Nat), (run amwToday st).1.again oracle' kind = st.again oracle' kind

/-- strongest true restriction: the next call starts as a first call would, except that the document still
    carries the ids the failed call assigned -/
theorem c08_arraymorph_retry_partial (st : St) (oracle' : Nat → List Nat) (kind : Nat) :
    (run amwToday st).1.again oracle' kind = { st.again oracle' kind with detached := (run amwToday st).1.detached } := by
  have := c08_arraymorph_partial st
  simp only [St.again, this.1]

theorem c08_arraymorph_retry_witness : ¬ c08_arraymorph_retry_full := by
  intro h
  have := congrArg St.detached (h (St.init (oracleOf [(1, [1]), (2, [1])]) (some 2) 1) (oracleOf []) 1)
  revert this
  decide

/-! ### the caller's list of included files (follow-up on the repaired tree; open finding) -/

/-- `read_neuroml2_file(f, include_includes=True, already_included=L)` with a list `L` owned by the caller, as the
    code is today: every included file is marked in `L` (field 3) *before* it is read (that is what stops include
    cycles) and the mark is never taken back; reading the include opens and closes its own handle. -/
def inclToday : Stmt :=
  .loop 1 (.seq (.mutate 3 1)
    (.choice 2
      (.opaque .export 2 3 4)                                             -- an XML include: parsed by lxml
      (.seq (.call (.open_ 1) 3) (.tryFinally 4 (.opaque .readNode 5 5 6) (.call (.close 1) 6)))))   -- an HDF5 include

/-- with the proposed repair (fixes/C08-already-included-restored.patch): marks made by a failed read are removed -/
def inclFixed : Stmt :=
  .loop 1 (.seq (.mutate 3 1) (.tryFinally 7
    (.choice 2
      (.opaque .export 2 3 4)
      (.seq (.call (.open_ 1) 3) (.tryFinally 4 (.opaque .readNode 5 5 6) (.call (.close 1) 6))))
    (.restore 3)))

/-- **Full statement for the caller's include list** (kept visible; false today): a failed read leaves the list as
    it was, so that the same call with the same list runs as a first call. -/
def c08_include_list_full : Prop :=
  ∀ (st : St) (oracle' : Nat → List Nat) (kind : Nat), (run inclToday st).1.again oracle' kind = st.again oracle' kind

/-- strongest true restriction: no handle stays open, a delivered fault is raised, and the next call starts as a
    first call except for the marks left in the list -/
theorem c08_include_list_partial (st : St) (oracle' : Nat → List Nat) (kind : Nat) :
    (run inclToday st).1.handles = st.handles ∧
      (st.fired = false → (run inclToday st).1.fired = true → (run inclToday st).2.isRaised = true) ∧
      (run inclToday st).1.again oracle' kind = { st.again oracle' kind with detached := (run inclToday st).1.detached } := by
  have := c08_handles_only inclToday (by decide) st
  refine ⟨this.1, this.2, ?_⟩
  simp only [St.again, this.1]

/-- one HDF5 include, fault at its 2nd file-layer call (a read): the include stays marked -/
theorem c08_include_list_witness : ¬ c08_include_list_full := by
  intro h
  have := congrArg St.detached (h (St.init (oracleOf [(1, [1]), (5, [3])]) (some 1) 1) (oracleOf []) 1)
  revert this
  decide

/-- the repaired shape is protected: the full statement holds for it (instance of `c08_failed_call_leaves_no_mark`) -/
theorem c08_include_list_fixed (st : St) (oracle' : Nat → List Nat) (kind : Nat) :
    (run inclFixed st).1.again oracle' kind = st.again oracle' kind :=
  c08_failed_call_leaves_no_mark inclFixed (c08_criterion _ (by decide)) st oracle' kind

end NmlVerif.Fault

namespace NmlVerif.Trunc

/-- the whole token stream of any tree is accepted (the clause below is not vacuous) -/
theorem c08_whole_accepted (x : Tree) : Complete (tokens x) := by
  refine ⟨?_, bal_tokens x 0⟩
  cases x <;> simp [tokens]

/-- **Truncation.**  Cut the token stream of any tree after `k` whole tokens, `k` smaller than the number of
    tokens, possibly inside the next token: what remains is never a complete document (it is empty, or has an
    element still open, or ends in a cut token). -/
theorem c08_truncated_incomplete (x : Tree) (k : Nat) (hk : k < (tokens x).length) (inside : Bool) :
    ¬ Complete (cutTokens (tokens x) k inside) := by
  have hsplit : (tokens x).take k ++ (tokens x).drop k = tokens x := List.take_append_drop k _
  have hq : (tokens x).drop k ≠ [] := by
    intro h
    have := congrArg List.length h
    simp at this
    omega
  obtain ⟨d', hb, _, hlt⟩ := prefix_tokens x 0 _ _ hsplit
  intro hc
  unfold Complete cutTokens at hc
  cases inside with
  | true =>
    have := hc.2
    rw [if_pos rfl, bal_append, hb] at this
    simp [bal] at this
  | false =>
    simp only [Bool.false_eq_true, if_false, List.append_nil] at hc
    have h0 := hlt hc.1 hq
    rw [hb] at hc
    have := hc.2
    simp at this
    omega

example : Complete (tokens (.node 1 [.leaf 2, .node 3 [.text], .text])) := by decide
example : ¬ Complete (cutTokens (tokens (.node 1 [.leaf 2, .node 3 [.text], .text])) 4 false) := by decide

end NmlVerif.Trunc

namespace NmlVerif.TruncWs

/-! ### truncation, with the writer's white space (second pass)

A written file is `tokens root ++ trail n`: the root element (`<neuroml …> … </neuroml>`) followed by the white
space after its end tag (the writer emits one line feed, `n = 1`).  A byte cut leaves `k` whole tokens and the rest
`r` of the next one (`cut`).  The cut is *strictly inside the document* iff `k < (tokens root).length`, i.e.
iff at least the last byte of the root's end tag is lost. -/

/-- the whole file is accepted, whatever white space follows the root (the clause below is not vacuous) -/
theorem c08_ws_whole_accepted (x : Tree) (hx : x.isElement = true) (n : Nat) : Complete (tokens x ++ trail n) := by
  unfold Complete
  rw [scan_append, scan_tokens_root x hx]
  exact scan_trail n _

/-- **An XML file cut off at any byte strictly inside the document is rejected**: for every element tree, every
    amount of trailing white space, every number `k` of surviving whole tokens smaller than the number of tokens of
    the root element, and every kind of rest of the cut token (nothing, a broken markup token, shorter character
    data, shorter white space), the remaining token stream is not a complete document — nothing was read, or an
    element is still open, or a token is broken. -/
theorem c08_ws_truncated_rejected (x : Tree) (hx : x.isElement = true) (n k : Nat) (hk : k < (tokens x).length)
    (r : Rest) : ¬ Complete (cut (tokens x ++ trail n) k r) := by
  have htake : (tokens x ++ trail n).take k = (tokens x).take k := by
    rw [List.take_append_of_le_length (Nat.le_of_lt hk)]
  have hsplit : (tokens x).take k ++ (tokens x).drop k = tokens x := List.take_append_drop k _
  have hq : (tokens x).drop k ≠ [] := by
    intro h
    have := congrArg List.length h
    simp at this
    omega
  obtain ⟨d', hb, hpos⟩ := prefix_root x hx _ _ hsplit hq
  unfold Complete cut
  rw [htake, scan_append, hb]
  cases r with
  | boundary => simp [Rest.toks, scan]
  | markup => simp [Rest.toks, scan, step]
  | chars =>
    cases d' with
    | zero => simp [Rest.toks, scan, step]
    | succ d => simp [Rest.toks, scan, step]
  | blank => simp [Rest.toks, scan, step]

/-- **A prefix that only loses trailing white space is a complete document, and the same one**: when all tokens
    of the root element survive (`k ≥ (tokens x).length`, the cut falls in the white space after `</neuroml>`),
    what is left is accepted, and it is the same root element followed by less white space. -/
theorem c08_ws_only_trailing_space_lost (x : Tree) (hx : x.isElement = true) (n k : Nat)
    (hk : (tokens x).length ≤ k) (r : Rest) (hr : r = .boundary ∨ r = .blank) :
    Complete (cut (tokens x ++ trail n) k r) ∧
      ∃ m, cut (tokens x ++ trail n) k r = tokens x ++ trail m ∧ m ≤ n + 1 := by
  have htake : (tokens x ++ trail n).take k = tokens x ++ trail (min (k - (tokens x).length) n) := by
    rw [List.take_append, List.take_of_length_le hk]
    simp [trail, List.take_replicate]
  have hform : ∃ m, cut (tokens x ++ trail n) k r = tokens x ++ trail m ∧ m ≤ n + 1 := by
    rcases hr with hr | hr
    · refine ⟨min (k - (tokens x).length) n, ?_, by omega⟩
      simp [cut, htake, hr, Rest.toks]
    · refine ⟨min (k - (tokens x).length) n + 1, ?_, by omega⟩
      simp only [cut, htake, hr, Rest.toks, List.append_assoc]
      congr 1
      simp [trail, List.replicate_succ']
  obtain ⟨m, hm, hle⟩ := hform
  exact ⟨by rw [hm]; exact c08_ws_whole_accepted x hx m, m, hm, hle⟩

/-- the writer's layout on a small document: `<neuroml>⏎␣<notes>text</notes>⏎␣<cell/>⏎</neuroml>⏎` -/
def sample : Tree := .node 1 [.ws, .node 2 [.text], .ws, .leaf 3, .ws]

example : sample.isElement = true := rfl
example : Complete (tokens sample ++ trail 1) := by decide
example : (tokens sample).length = 9 := by decide
/-- every cut of the sample, every kind of rest: rejected strictly inside, accepted once only the final line feed
    (or part of it) is lost -/
example : ((List.range 9).all fun k => [Rest.boundary, .markup, .chars, .blank].all fun r =>
    !decide (Complete (cut (tokens sample ++ trail 1) k r))) = true := by decide
example : Complete (cut (tokens sample ++ trail 1) 9 .boundary) ∧ Complete (cut (tokens sample ++ trail 1) 9 .blank) := by
  decide

end NmlVerif.TruncWs
