import NmlVerif.Proofs.Factory
import NmlVerif.Gen.Members
/-!
# C09 — with build-time validation on, factories never hand back an invalid component

Model: `NmlVerif.Factory` (`Model/Factory.lean`) over the member table `Gen/Members.lean` (regenerated from
`neuroml/nml/nml.py` on every run); tied to `component_factory` / `_check_arg_list` / `add` /
`build_time_validation.ENABLED` by the correspondence check `harness/props/c09.py` (all 199 types ×
{valid, facet-violating, misspelt keywords} × 4 switch settings × string/class form × three entry points).

Every theorem is for EVERY table `T`, every environment `env` (verdict of `validate()`, constructor cast failures,
`Cell.setup_nml_cell`), every type argument and every keyword list.
-/
namespace NmlVerif.Factory
open NmlVerif NmlVerif.Add

/-- **Validation on ⇒ valid or ValueError.** Global switch on and `validate=True`: for every component type of the
    table the factory either raises a `ValueError` or returns a component that `validate()` accepts. -/
theorem c09_valid_or_raises (T : Table) (env : Env) (t : TypeArg) (kw : Kwargs) (oid : Nat)
    (hcls : T.row? t.resolve ≠ none) :
    match factory T env true true t kw oid with
    | .ok o => env.valid o = true
    | .error e => e.isValueError = true := by
  have h := factory_cases T env true true t kw oid
  rcases h with ⟨hr, _⟩ | ⟨_, he⟩ | ⟨_, _, k, _, _, he⟩ | ⟨_, _, _, hres⟩
  · exact absurd hr hcls
  · rw [he]; rfl
  · rw [he]; rfl
  · rw [hres]
    simp only [Bool.and_self, ↓reduceIte]
    cases hv : env.valid (built T env t.resolve kw oid) <;> simp [hv, Err.isValueError]

/-- the same, read from the result: what comes back with validation on validates -/
theorem c09_valid (T : Table) (env : Env) (t : TypeArg) (kw : Kwargs) (oid : Nat) (o : Obj)
    (h : factory T env true true t kw oid = .ok o) : env.valid o = true := by
  have hc := c09_valid_or_raises T env t kw oid (by
    intro hr; simp [factory, hr] at h)
  rw [h] at hc; exact hc

/-- **A keyword that is not a member name is always refused** — under EVERY switch setting, for both forms of the
    type argument — with a `ValueError`; it is never silently ignored (although the constructor itself swallows
    it: `c09_ctor_swallows`). -/
theorem c09_typo (T : Table) (env : Env) (t : TypeArg) (kw : Kwargs) (oid : Nat) (k : Nat)
    (hcls : T.row? t.resolve ≠ none) (hk : k ∈ keys kw) (hnm : k ∉ T.memberNames t.resolve) :
    ∀ enabled flag, ∃ e, factory T env enabled flag t kw oid = .error e ∧ e.isValueError = true := by
  intro enabled flag
  have hbad : firstBadArg T t.resolve kw ≠ none := by
    unfold firstBadArg
    intro hnone
    rw [List.find?_eq_none] at hnone
    have := hnone k hk
    simp only [Bool.not_eq_true, Bool.not_eq_false', List.contains_eq_mem, decide_eq_true_eq] at this
    exact hnm this
  rcases factory_cases T env enabled flag t kw oid with ⟨hr, _⟩ | ⟨_, he⟩ | ⟨_, _, k', _, _, he⟩ |
      ⟨_, _, hb, _⟩
  · exact absurd hr hcls
  · exact ⟨_, he, rfl⟩
  · exact ⟨_, he, rfl⟩
  · exact absurd hb hbad

/-- the keyword reported is the first offending one and it is indeed not a member name -/
theorem c09_typo_reports (T : Table) (env : Env) (enabled flag : Bool) (t : TypeArg) (kw : Kwargs) (oid k : Nat)
    (h : factory T env enabled flag t kw oid = .error (.badArg k)) : k ∈ keys kw ∧ k ∉ T.memberNames t.resolve := by
  rcases factory_cases T env enabled flag t kw oid with ⟨_, he⟩ | ⟨_, he⟩ | ⟨_, _, k', hf, _, he⟩ |
      ⟨_, _, _, hres⟩
  · rw [he] at h; cases h
  · rw [he] at h; cases h
  · rw [he] at h
    simp only [Except.error.injEq, Err.badArg.injEq] at h
    subst h
    unfold firstBadArg at hf
    refine ⟨List.mem_of_find?_eq_some hf, ?_⟩
    have := List.find?_some hf
    simpa using this
  · rw [hres] at h
    split at h
    · split at h <;> cases h
    · cases h

/-- **the hazard `_check_arg_list` exists for**: the generated constructor ignores keywords that are not member
    names — the object built from the full keyword list is the object built from the member keywords alone -/
theorem c09_ctor_swallows (T : Table) (env : Env) (cls : Nat) (kw : Kwargs) (oid : Nat) :
    construct T env cls kw oid =
      construct T env cls (kw.filter (fun p => (T.memberNames cls).contains p.1)) oid := by
  unfold construct
  congr 1
  apply List.map_congr_left
  intro m hm
  have hin : (T.memberNames cls).contains m.name = true := by
    simp only [List.contains_eq_mem, decide_eq_true_eq, Table.memberNames]
    exact List.mem_map_of_mem hm
  rw [lookup_filter_keys kw _ m.name hin]

/-- **Validation off ⇒ unvalidated.** Switch off or `validate=False`, every keyword a member name, no constructor
    cast failure: the component is returned as built — no call to `validate()` decides anything
    (`env.valid` does not occur on the right-hand side). -/
theorem c09_off (T : Table) (env : Env) (enabled flag : Bool) (t : TypeArg) (kw : Kwargs) (oid : Nat)
    (hoff : (enabled && flag) = false) (hcls : T.row? t.resolve ≠ none)
    (hkeys : ∀ k ∈ keys kw, k ∈ T.memberNames t.resolve) (hctor : env.ctorFails t.resolve kw = false) :
    factory T env enabled flag t kw oid = .ok (built T env t.resolve kw oid) := by
  rcases factory_cases T env enabled flag t kw oid with ⟨hr, _⟩ | ⟨hc, _⟩ | ⟨_, _, k, hf, _, _⟩ |
      ⟨_, _, _, hres⟩
  · exact absurd hr hcls
  · rw [hctor] at hc; cases hc
  · exfalso
    unfold firstBadArg at hf
    have h1 := List.mem_of_find?_eq_some hf
    have h2 := List.find?_some hf
    have := hkeys k h1
    simp only [Bool.not_eq_true', List.contains_eq_mem, decide_eq_false_iff_not] at h2
    exact h2 this
  · rw [hres, hoff]; rfl

/-- … in particular an INVALID component is handed back when validation is off -/
theorem c09_off_returns_invalid (T : Table) (env : Env) (enabled flag : Bool) (t : TypeArg) (kw : Kwargs)
    (oid : Nat) (hoff : (enabled && flag) = false) (hcls : T.row? t.resolve ≠ none)
    (hkeys : ∀ k ∈ keys kw, k ∈ T.memberNames t.resolve) (hctor : env.ctorFails t.resolve kw = false)
    (hinv : env.valid (built T env t.resolve kw oid) = false) :
    (∃ o, factory T env enabled flag t kw oid = .ok o ∧ env.valid o = false) ∧
    factory T env true true t kw oid = .error .invalid := by
  refine ⟨⟨_, c09_off T env enabled flag t kw oid hoff hcls hkeys hctor, hinv⟩, ?_⟩
  rcases factory_cases T env true true t kw oid with ⟨hr, _⟩ | ⟨hc, _⟩ | ⟨_, _, k, hf, _, _⟩ |
      ⟨_, _, _, hres⟩
  · exact absurd hr hcls
  · rw [hctor] at hc; cases hc
  · exfalso
    unfold firstBadArg at hf
    have h1 := List.mem_of_find?_eq_some hf
    have h2 := List.find?_some hf
    simp only [Bool.not_eq_true', List.contains_eq_mem, decide_eq_false_iff_not] at h2
    exact h2 (hkeys k h1)
  · rw [hres]; simp [hinv]

/-- **The global switch overrides the per-call flag**: with the switch off, `validate=True` and `validate=False`
    are the same call … -/
theorem c09_switch_overrides (T : Table) (env : Env) (flag : Bool) (t : TypeArg) (kw : Kwargs) (oid : Nat) :
    factory T env false flag t kw oid = factory T env false false t kw oid := by
  simp only [factory, Bool.false_and]

/-- … and `validate=False` is the same call whatever the switch says: validation happens iff BOTH are on -/
theorem c09_flag_off (T : Table) (env : Env) (enabled : Bool) (t : TypeArg) (kw : Kwargs) (oid : Nat) :
    factory T env enabled false t kw oid = factory T env false false t kw oid := by
  simp only [factory, Bool.and_false]

/-- **String and class form of the type argument agree** (both go through `getattr(module, name)`) -/
theorem c09_forms_agree (T : Table) (env : Env) (enabled flag : Bool) (n : Nat) (kw : Kwargs) (oid : Nat) :
    factory T env enabled flag (.byName n) kw oid = factory T env enabled flag (.byClass n) kw oid := rfl

/-! ### `add()` with a type argument -/

/-- a factory error (misspelt keyword, invalid component, …) reaches the caller and the parent is untouched -/
theorem c09_add_factory_error (T : Table) (env : Env) (strOk : Obj → Bool) (enabled flag : Bool) (parent : Obj)
    (t : TypeArg) (kw : Kwargs) (hint : Option Nat) (force : Bool) (oid : Nat) (e : Err)
    (h : factory T env enabled flag t kw oid = .error e) :
    addByType T env strOk enabled flag parent t kw hint force oid = ⟨parent, none, .error (.inl e)⟩ := by
  simp only [addByType, h]

/-- **`add(<type>, …)`: a misspelt keyword is refused under every switch setting, parent unchanged** -/
theorem c09_add_typo (T : Table) (env : Env) (strOk : Obj → Bool) (parent : Obj) (t : TypeArg) (kw : Kwargs)
    (hint : Option Nat) (force : Bool) (oid k : Nat) (hcls : T.row? t.resolve ≠ none) (hk : k ∈ keys kw)
    (hnm : k ∉ T.memberNames t.resolve) :
    ∀ enabled flag, ∃ e, e.isValueError = true ∧
      addByType T env strOk enabled flag parent t kw hint force oid = ⟨parent, none, .error (.inl e)⟩ := by
  intro enabled flag
  obtain ⟨e, he, hv⟩ := c09_typo T env t kw oid k hcls hk hnm enabled flag
  exact ⟨e, hv, c09_add_factory_error T env strOk enabled flag parent t kw hint force oid e he⟩

/-- **`add(<type>, …)` with validation on**: whenever it returns, the returned (new) component validates AND the
    parent as it now is validates — the same gate guards both -/
theorem c09_add_valid (T : Table) (env : Env) (strOk : Obj → Bool) (parent : Obj) (t : TypeArg) (kw : Kwargs)
    (hint : Option Nat) (force : Bool) (oid : Nat) (o : Obj)
    (h : (addByType T env strOk true true parent t kw hint force oid).result = .ok o) :
    env.valid o = true ∧ env.valid (addByType T env strOk true true parent t kw hint force oid).parent = true := by
  unfold addByType at h ⊢
  cases hf : factory T env true true t kw oid with
  | error e => rw [hf] at h; cases h
  | ok child =>
    simp only [hf] at h
    simp only
    have hcv := c09_valid T env t kw oid child hf
    cases hr : (Add.add T env.valid strOk ⟨true, true⟩ parent child hint force).result with
    | error e => rw [hr] at h; cases h
    | ok o' =>
      rw [hr] at h
      simp only [Except.ok.injEq] at h
      subst h
      have hret := (c10_returns_child T env.valid strOk ⟨true, true⟩ parent child hint force o' hr)
      rw [hret.1]
      exact ⟨hcv, hret.2 rfl⟩

/-- **`add(<type>, …)` with validation off** (switch off or `validate=False`): nothing is validated — the outcome
    is the one of `add` with the component as built, whatever `validate()` would say about child or parent -/
theorem c09_add_off (T : Table) (env env' : Env) (strOk : Obj → Bool) (enabled flag : Bool) (parent : Obj)
    (t : TypeArg) (kw : Kwargs) (hint : Option Nat) (force : Bool) (oid : Nat)
    (hoff : (enabled && flag) = false)
    (hsame : env'.ctorFails = env.ctorFails ∧ env'.cellCls = env.cellCls ∧ env'.setupCell = env.setupCell ∧
      env'.ctorValue = env.ctorValue) :
    addByType T env strOk enabled flag parent t kw hint force oid =
      addByType T env' strOk enabled flag parent t kw hint force oid := by
  obtain ⟨h1, h2, h3, h4⟩ := hsame
  have hfac : factory T env enabled flag t kw oid = factory T env' enabled flag t kw oid := by
    simp only [factory, built, construct, hoff, h1, h2, h3, h4]
    rfl
  unfold addByType
  rw [← hfac]
  cases factory T env enabled flag t kw oid with
  | error e => rfl
  | ok child =>
    simp only
    rw [add_gate_off T env.valid env'.valid strOk ⟨enabled, flag⟩ parent child hint force hoff]

/-! ### The process-wide switch -/

theorem c09_switch_enable (s : Bool) (pre : List Cmd) : switchAfter s (pre ++ [.enable]) = true := by
  simp [switchAfter, List.foldl_append, stepSwitch]

theorem c09_switch_disable (s : Bool) (pre : List Cmd) : switchAfter s (pre ++ [.disable]) = false := by
  simp [switchAfter, List.foldl_append, stepSwitch]

/-- factory calls never change the switch -/
theorem c09_switch_make (s : Bool) (pre : List Cmd) (f : Bool) (t : TypeArg) (kw : Kwargs) (oid : Nat) :
    switchAfter s (pre ++ [.make f t kw oid]) = switchAfter s pre := by
  simp [switchAfter, List.foldl_append, stepSwitch]

/-- **Sessions.** After ANY history of enable / disable / factory commands, a factory call behaves as
    `factory` under the switch value the history left behind; the session's final switch is that value. -/
theorem c09_session (T : Table) (env : Env) : ∀ (pre : List Cmd) (s : Bool) (f : Bool) (t : TypeArg) (kw : Kwargs)
    (oid : Nat),
    session T env s (pre ++ [.make f t kw oid]) =
      (switchAfter s pre, (session T env s pre).2 ++ [factory T env (switchAfter s pre) f t kw oid])
  | [], s, f, t, kw, oid => by simp [session, switchAfter]
  | .enable :: cs, s, f, t, kw, oid => by
    have ih := c09_session T env cs true f t kw oid
    simp only [List.cons_append, session, stepSwitch, switchAfter, List.foldl_cons] at ih ⊢
    exact ih
  | .disable :: cs, s, f, t, kw, oid => by
    have ih := c09_session T env cs false f t kw oid
    simp only [List.cons_append, session, stepSwitch, switchAfter, List.foldl_cons] at ih ⊢
    exact ih
  | .make f' t' kw' oid' :: cs, s, f, t, kw, oid => by
    have ih := c09_session T env cs s f t kw oid
    simp only [List.cons_append, session, stepSwitch, switchAfter, List.foldl_cons] at ih ⊢
    rw [ih]

/-- **Disable, then enable, restores checking**: whatever happened before and in between (including further
    toggles and factory calls), once `enable` was the last toggle a `validate=True` call is checked again:
    it returns only components that validate. -/
theorem c09_reenable_restores (T : Table) (env : Env) (s : Bool) (pre mid : List Cmd) (makes : List Cmd)
    (hmakes : ∀ c ∈ makes, ∃ f t kw oid, c = .make f t kw oid) (t : TypeArg) (kw : Kwargs) (oid : Nat) (o : Obj)
    (h : (session T env s (pre ++ [.disable] ++ mid ++ [.enable] ++ makes ++ [.make true t kw oid])).2.getLast?
          = some (.ok o)) :
    env.valid o = true := by
  rw [c09_session] at h
  simp only [List.getLast?_append, List.getLast?_singleton, Option.some_or, Option.some.injEq] at h
  have hsw : switchAfter s (pre ++ [.disable] ++ mid ++ [.enable] ++ makes) = true := by
    have : ∀ (ms : List Cmd) (b : Bool), (∀ c ∈ ms, ∃ f t kw oid, c = Cmd.make f t kw oid) →
        ms.foldl stepSwitch b = b := by
      intro ms
      induction ms with
      | nil => intros; rfl
      | cons c cs ih =>
        intro b hall
        obtain ⟨f, t, kw, oid, rfl⟩ := hall _ (List.mem_cons_self)
        simp only [List.foldl_cons, stepSwitch]
        exact ih b (fun c hc => hall c (List.mem_cons_of_mem _ hc))
    unfold switchAfter
    rw [List.foldl_append, this makes _ hmakes]
    simp [List.foldl_append, stepSwitch]
  rw [hsw] at h
  exact c09_valid T env t kw oid o h

/-! ### Obligations on the table extracted from `nml.py` (re-checked on every run) -/

/-- no member of any class is named like a parameter of `add` / `component_factory` themselves (`obj`, `hint`,
    `force`, `validate`, `component_type`, `cls`, `self`): such a keyword could never reach the constructor -/
theorem c09_gen_no_reserved_member_names :
    reservedClash Gen.Members.table Gen.Members.names = [] := by decide +kernel

/-! ### Concrete instances (hypotheses are satisfiable; each error kind occurs) -/
namespace Ex

def T0 : Table := [⟨0, none, [⟨10, 50, false, false⟩, ⟨11, 51, false, true⟩, ⟨12, 1, true, true⟩]⟩, ⟨1, some 0, [⟨13, 50, false, true⟩]⟩]
/-- valid iff the required member 10 is set to a truthy value -/
def env0 : Env where
  valid := fun o => match o.get 10 with | some v => v.truthy | none => false
  ctorFails := fun _ kw => (lookup kw 11).isSome
  ctorValue := fun _ n v => match v with | some x => x | none => if n == 12 then .list [] else .none
  cellCls := 99
  setupCell := id
def good : Kwargs := [(10, .atom "str:'a'" true), (13, .atom "str:'b'" true)]
def typo : Kwargs := [(10, .atom "str:'a'" true), (77, .atom "str:'b'" true)]
def incomplete : Kwargs := [(13, .atom "str:'b'" true)]

example : T0.row? (TypeArg.byName 1).resolve ≠ none := by decide
-- c09_valid / c09_valid_or_raises: a valid one comes back, an invalid one raises
example : (factory T0 env0 true true (.byName 1) good 5).toOption.isSome = true := by decide
example : factory T0 env0 true true (.byName 1) incomplete 5 = .error .invalid := rfl
-- c09_typo: 77 is a keyword, not a member name (class 1 has members 13, 10, 11, 12)
example : (77 : Nat) ∈ keys typo ∧ (77 : Nat) ∉ T0.memberNames 1 := by decide
example : factory T0 env0 false false (.byClass 1) typo 5 = .error (.badArg 77) := rfl
-- c09_off / c09_off_returns_invalid: validation off hands back the invalid component
example : (∀ k ∈ keys incomplete, k ∈ T0.memberNames 1) ∧ env0.ctorFails 1 incomplete = false ∧
    env0.valid (built T0 env0 1 incomplete 5) = false := by decide
-- c09_add_valid: a result exists
example : ((addByType T0 env0 (fun _ => true) true true (construct T0 env0 0 [(10, .atom "str:'p'" true)] 1) (.byName 1)
    good none false 2).result.toOption.isSome) = true := by decide
-- constructor cast failure
example : factory T0 env0 true true (.byName 0) [(11, .atom "str:'x'" true)] 5 = .error .ctorValueError := rfl
example : factory T0 env0 true true (.byName 7) [] 5 = .error .attrError := rfl

end Ex

end NmlVerif.Factory
