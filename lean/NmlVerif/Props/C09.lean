import NmlVerif.Proofs.Factory
import NmlVerif.Gen.Members
/-!
# C09 — with build-time validation on, factories never hand back an invalid component

Model: `NmlVerif.Factory` (`Model/Factory.lean`) over the member table `Gen/Members.lean` and the constructor table
`Gen/Factory.lean` (both regenerated from the source on every run); tied to `component_factory` /
`_check_arg_list` / `add` / `build_time_validation.ENABLED` by translation (`Props/C09Gen.lean`: the statement-level
translations equal this hand model) and by the correspondence check `harness/props/c09.py`.

Every theorem here is for EVERY member table `T`, every constructor table `C`, every environment `env` (verdict of
`validate()`, Python's `int()`/`float()`, `Cell.setup_nml_cell`), every type argument and every keyword list.
-/
namespace NmlVerif.Factory
open NmlVerif NmlVerif.Add

/-- **Validation on ⇒ valid or ValueError.** Global switch on and `validate=True`: for every component type of the
    table the factory either raises a `ValueError` or returns a component that `validate()` accepts. -/
theorem c09_valid_or_raises (T : Table) (C : CtorTable) (env : Env) (t : TypeArg) (kw : Kwargs) (oid : Nat)
    (hcls : T.row? t.resolve ≠ none) :
    match factory T C env true true t kw oid with
    | .ok o => env.valid o = true
    | .error e => e.isValueError = true := by
  have h := factory_cases T C env true true t kw oid
  rcases h with ⟨hr, _⟩ | ⟨_, he⟩ | ⟨_, _, k, _, _, he⟩ | ⟨_, _, o, _, hres⟩
  · exact absurd hr hcls
  · rw [he]; rfl
  · rw [he]; rfl
  · rw [hres]
    simp only [Bool.and_self, ↓reduceIte]
    cases hv : env.valid (built env t.resolve o) <;> simp [hv, Err.isValueError]

/-- the same, read from the result: what comes back with validation on validates -/
theorem c09_valid (T : Table) (C : CtorTable) (env : Env) (t : TypeArg) (kw : Kwargs) (oid : Nat) (o : Obj)
    (h : factory T C env true true t kw oid = .ok o) : env.valid o = true := by
  have hc := c09_valid_or_raises T C env t kw oid (by
    intro hr; simp [factory, hr] at h)
  rw [h] at hc; exact hc

/-- **A keyword that is not a member name is always refused** — under EVERY switch setting, for both forms of the
    type argument — with a `ValueError`; it is never silently ignored (although the constructor itself swallows
    it: `c09_ctor_swallows`). -/
theorem c09_typo (T : Table) (C : CtorTable) (env : Env) (t : TypeArg) (kw : Kwargs) (oid : Nat) (k : Nat)
    (hcls : T.row? t.resolve ≠ none) (hk : k ∈ keys kw) (hnm : k ∉ T.memberNames t.resolve) :
    ∀ enabled flag, ∃ e, factory T C env enabled flag t kw oid = .error e ∧ e.isValueError = true := by
  intro enabled flag
  have hbad : firstBadArg T t.resolve kw ≠ none := by
    unfold firstBadArg
    intro hnone
    rw [List.find?_eq_none] at hnone
    have := hnone k hk
    simp only [Bool.not_eq_true, Bool.not_eq_false', List.contains_eq_mem, decide_eq_true_eq] at this
    exact hnm this
  rcases factory_cases T C env enabled flag t kw oid with ⟨hr, _⟩ | ⟨_, he⟩ | ⟨_, _, k', _, _, he⟩ |
      ⟨_, hb, _⟩
  · exact absurd hr hcls
  · exact ⟨_, he, rfl⟩
  · exact ⟨_, he, rfl⟩
  · exact absurd hb hbad

/-- the keyword reported is the first offending one and it is indeed not a member name -/
theorem c09_typo_reports (T : Table) (C : CtorTable) (env : Env) (enabled flag : Bool) (t : TypeArg) (kw : Kwargs)
    (oid k : Nat) (h : factory T C env enabled flag t kw oid = .error (.badArg k)) :
    k ∈ keys kw ∧ k ∉ T.memberNames t.resolve := by
  rcases factory_cases T C env enabled flag t kw oid with ⟨_, he⟩ | ⟨_, he⟩ | ⟨_, _, k', hf, _, he⟩ |
      ⟨_, _, o, _, hres⟩
  · rw [he] at h; cases h
  · rw [he] at h; cases h
  · rw [he] at h
    simp only [Except.error.injEq, Err.badArg.injEq] at h
    subst h
    unfold firstBadArg at hf
    refine ⟨List.mem_of_find?_eq_some hf, ?_⟩
    have := List.find?_some hf
    simpa using this
  · rw [hres] at h
    split at h
    · split at h <;> cases h
    · cases h

/-! ### Validity judged by an independent reference (the XML Schema) — open finding -/

/-- the first sentence of the property with validity judged by an independent judge `schemaOk` (libxml2 on the
    bundled XSD in the harness) instead of the library's own `validate()` -/
def c09_schema_valid_full : Prop :=
  ∀ (T : Table) (C : CtorTable) (env : Env) (schemaOk : Obj → Bool) (t : TypeArg) (kw : Kwargs) (oid : Nat) (o : Obj),
    factory T C env true true t kw oid = .ok o → schemaOk o = true

/-- it holds for every component `validate()` judges as the schema does (`hsound`: what `validate()` accepts the
    schema accepts — property C03's claim about `validate()`): the factory adds no hole of its own -/
theorem c09_schema_valid_partial (T : Table) (C : CtorTable) (env : Env) (schemaOk : Obj → Bool)
    (hsound : ∀ o, env.valid o = true → schemaOk o = true) (t : TypeArg) (kw : Kwargs) (oid : Nat) (o : Obj)
    (h : factory T C env true true t kw oid = .ok o) : schemaOk o = true :=
  hsound o (c09_valid T C env t kw oid o h)

/-! ### The generated constructor (constructor table of the bindings) -/

/-- **the hazard `_check_arg_list` exists for**: the generated constructor ignores every keyword that is not the
    name of one of its parameters — the object built from the full keyword list is the object built from the
    keywords the wiring of the class is fed by -/
theorem c09_ctor_swallows (C : CtorTable) (env : Env) (cls : Nat) (kw : Kwargs) (oid : Nat) :
    construct C env cls kw oid =
      construct C env cls (kw.filter (fun p => (givenNames C cls).contains p.1)) oid := by
  unfold construct
  congr 1
  have : ∀ (l : List Assign), (∀ a ∈ l, a ∈ wiring C cls) →
      mapOpt (Assign.eval env kw) l =
        mapOpt (Assign.eval env (kw.filter (fun p => (givenNames C cls).contains p.1))) l := by
    intro l
    induction l with
    | nil => intro _; rfl
    | cons a r ih =>
      intro hall
      have ha := hall a List.mem_cons_self
      have hev : Assign.eval env (kw.filter (fun p => (givenNames C cls).contains p.1)) a = Assign.eval env kw a := by
        unfold Assign.eval
        rw [eval_filter (givenNames C cls) kw a.src]
        cases hs : a.src with
        | const _ => trivial
        | given n d =>
          simp only [List.contains_eq_mem, decide_eq_true_eq, givenNames, List.mem_filterMap]
          exact ⟨a, ha, by simp [hs]⟩
      simp only [mapOpt, hev, ih (fun b hb => hall b (List.mem_cons_of_mem _ hb))]
  exact this _ (fun _ h => h)

/-- **What the constructor really stores.** Every assignment of the constructor chain whose attribute is assigned
    once along the chain (`assignedOnce`: decided, together with the wiring being by name, for every member of
    every class of the generated table on every run) leaves under its attribute the `_cast` of the value that
    reaches it; when it is fed by the keyword of its own name (`.given`), that is the cast of the caller's value,
    or of the default literal when the keyword is absent. -/
theorem c09_ctor_stores (C : CtorTable) (env : Env) (cls : Nat) (kw : Kwargs) (oid : Nat) (o : Obj)
    (a : Assign) (ha : a ∈ wiring C cls) (hok : assignedOnce C cls a.field = true)
    (h : construct C env cls kw oid = some o) :
    o.cls = cls ∧ o.oid = oid ∧
    ∃ v, pyCast env a.by_ (a.src.eval kw) = some v ∧ o.get a.field = some v := by
  unfold construct at h
  cases hm : mapOpt (Assign.eval env kw) (wiring C cls) with
  | none => simp [hm] at h
  | some l =>
    simp only [hm, Option.map_some, Option.some.injEq] at h
    subst h
    obtain ⟨hkeys, hall⟩ := evalAll_spec env kw _ l hm
    obtain ⟨v, hv, hmem⟩ := hall a ha
    refine ⟨rfl, rfl, v, hv, ?_⟩
    have hnd : (l.map (·.1)).count a.field = 1 := by
      rw [hkeys]; simpa [assignedOnce] using hok
    exact lookup_foldl_setF_mem l [] a.field v hnd hmem

/-- … in particular a keyword that names a parameter stored by the chain arrives under the attribute of the same
    name, cast as the assigning class casts it -/
theorem c09_ctor_stores_keyword (C : CtorTable) (env : Env) (cls : Nat) (kw : Kwargs) (oid : Nat) (o : Obj)
    (a : Assign) (ha : a ∈ wiring C cls) (hok : assignedOnce C cls a.field = true)
    (h : construct C env cls kw oid = some o)
    (d : Val) (hsrc : a.src = .given a.field d) (v : Val) (hk : lookup kw a.field = some v) :
    ∃ w, pyCast env a.by_ v = some w ∧ o.get a.field = some w := by
  obtain ⟨_, _, w, hw, hget⟩ := c09_ctor_stores C env cls kw oid o a ha hok h
  refine ⟨w, ?_, hget⟩
  rw [hsrc] at hw
  simpa [Src.eval, hk] using hw

/-- … and an absent keyword leaves the cast of the default literal -/
theorem c09_ctor_stores_default (C : CtorTable) (env : Env) (cls : Nat) (kw : Kwargs) (oid : Nat) (o : Obj)
    (a : Assign) (ha : a ∈ wiring C cls) (hok : assignedOnce C cls a.field = true)
    (h : construct C env cls kw oid = some o)
    (d : Val) (hsrc : a.src = .given a.field d) (hk : lookup kw a.field = none) :
    ∃ w, pyCast env a.by_ d = some w ∧ o.get a.field = some w := by
  obtain ⟨_, _, w, hw, hget⟩ := c09_ctor_stores C env cls kw oid o a ha hok h
  refine ⟨w, ?_, hget⟩
  rw [hsrc] at hw
  simpa [Src.eval, hk] using hw

/-- the constructor raises (`ValueError` from `int()`/`float()`) exactly when some assignment's cast fails -/
theorem c09_ctor_fails_iff (C : CtorTable) (env : Env) (cls : Nat) (kw : Kwargs) (oid : Nat) :
    construct C env cls kw oid = none ↔ ∃ a ∈ wiring C cls, pyCast env a.by_ (a.src.eval kw) = none := by
  unfold construct
  have : ∀ (l : List Assign), mapOpt (Assign.eval env kw) l = none ↔
      ∃ a ∈ l, pyCast env a.by_ (a.src.eval kw) = none := by
    intro l
    induction l with
    | nil => simp [mapOpt]
    | cons a r ih =>
      simp only [mapOpt, List.mem_cons, exists_eq_or_imp]
      cases hc : pyCast env a.by_ (a.src.eval kw) with
      | none => simp [Assign.eval, hc]
      | some v =>
        cases hr : mapOpt (Assign.eval env kw) r with
        | none =>
          simp only [Assign.eval, hc, Option.map_some, reduceCtorEq, false_or, true_iff]
          exact ih.mp hr
        | some rs =>
          simp only [Assign.eval, hc, Option.map_some, reduceCtorEq, false_or, false_iff]
          intro hex
          have := ih.mpr hex
          rw [hr] at this; cases this
  rw [← this]
  cases mapOpt (Assign.eval env kw) (wiring C cls) <;> simp

/-! ### Validation off -/

/-- **Validation off ⇒ unvalidated.** Switch off or `validate=False`, every keyword a member name, the constructor
    does not raise: the component is returned as built — no call to `validate()` decides anything
    (`env.valid` does not occur on the right-hand side). -/
theorem c09_off (T : Table) (C : CtorTable) (env : Env) (enabled flag : Bool) (t : TypeArg) (kw : Kwargs) (oid : Nat)
    (o : Obj) (hoff : (enabled && flag) = false) (hcls : T.row? t.resolve ≠ none)
    (hkeys : ∀ k ∈ keys kw, k ∈ T.memberNames t.resolve) (hctor : construct C env t.resolve kw oid = some o) :
    factory T C env enabled flag t kw oid = .ok (built env t.resolve o) := by
  rcases factory_cases T C env enabled flag t kw oid with ⟨hr, _⟩ | ⟨hc, _⟩ | ⟨_, _, k, hf, _, _⟩ |
      ⟨_, _, o', ho', hres⟩
  · exact absurd hr hcls
  · rw [hctor] at hc; cases hc
  · exfalso
    unfold firstBadArg at hf
    have h1 := List.mem_of_find?_eq_some hf
    have h2 := List.find?_some hf
    have := hkeys k h1
    simp only [Bool.not_eq_true', List.contains_eq_mem, decide_eq_false_iff_not] at h2
    exact h2 this
  · rw [hctor] at ho'
    simp only [Option.some.injEq] at ho'
    subst ho'
    rw [hres, hoff]; rfl

/-- … in particular an INVALID component is handed back when validation is off -/
theorem c09_off_returns_invalid (T : Table) (C : CtorTable) (env : Env) (enabled flag : Bool) (t : TypeArg)
    (kw : Kwargs) (oid : Nat) (o : Obj) (hoff : (enabled && flag) = false) (hcls : T.row? t.resolve ≠ none)
    (hkeys : ∀ k ∈ keys kw, k ∈ T.memberNames t.resolve) (hctor : construct C env t.resolve kw oid = some o)
    (hinv : env.valid (built env t.resolve o) = false) :
    (∃ o', factory T C env enabled flag t kw oid = .ok o' ∧ env.valid o' = false) ∧
    factory T C env true true t kw oid = .error .invalid := by
  refine ⟨⟨_, c09_off T C env enabled flag t kw oid o hoff hcls hkeys hctor, hinv⟩, ?_⟩
  rcases factory_cases T C env true true t kw oid with ⟨hr, _⟩ | ⟨hc, _⟩ | ⟨_, _, k, hf, _, _⟩ |
      ⟨_, _, o', ho', hres⟩
  · exact absurd hr hcls
  · rw [hctor] at hc; cases hc
  · exfalso
    unfold firstBadArg at hf
    have h1 := List.mem_of_find?_eq_some hf
    have h2 := List.find?_some hf
    simp only [Bool.not_eq_true', List.contains_eq_mem, decide_eq_false_iff_not] at h2
    exact h2 (hkeys k h1)
  · rw [hctor] at ho'
    simp only [Option.some.injEq] at ho'
    subst ho'
    rw [hres]; simp [hinv]

/-- **The global switch overrides the per-call flag**: with the switch off, `validate=True` and `validate=False`
    are the same call … -/
theorem c09_switch_overrides (T : Table) (C : CtorTable) (env : Env) (flag : Bool) (t : TypeArg) (kw : Kwargs)
    (oid : Nat) : factory T C env false flag t kw oid = factory T C env false false t kw oid := by
  simp only [factory, Bool.false_and]

/-- … and `validate=False` is the same call whatever the switch says: validation happens iff BOTH are on -/
theorem c09_flag_off (T : Table) (C : CtorTable) (env : Env) (enabled : Bool) (t : TypeArg) (kw : Kwargs) (oid : Nat) :
    factory T C env enabled false t kw oid = factory T C env false false t kw oid := by
  simp only [factory, Bool.and_false]

/-- with validation off the verdict of `validate()` plays no role at all: two environments that differ only in
    `valid` give the same outcome (returned component or error) -/
theorem c09_off_ignores_validate (T : Table) (C : CtorTable) (env env' : Env) (enabled flag : Bool) (t : TypeArg)
    (kw : Kwargs) (oid : Nat) (hoff : (enabled && flag) = false)
    (hsame : env'.pyInt = env.pyInt ∧ env'.pyFloat = env.pyFloat ∧ env'.cellCls = env.cellCls ∧
      env'.setupCell = env.setupCell) :
    factory T C env enabled flag t kw oid = factory T C env' enabled flag t kw oid := by
  obtain ⟨h1, h2, h3, h4⟩ := hsame
  have hc : construct C env' t.resolve kw oid = construct C env t.resolve kw oid := by
    unfold construct
    congr 2
    funext a
    simp only [Assign.eval, pyCast, h1, h2]
  simp only [factory, built, hoff, hc, h3, h4]
  rfl

/-- **String and class form of the type argument agree** (both go through `getattr(module, name)`) -/
theorem c09_forms_agree (T : Table) (C : CtorTable) (env : Env) (enabled flag : Bool) (n : Nat) (kw : Kwargs)
    (oid : Nat) :
    factory T C env enabled flag (.byName n) kw oid = factory T C env enabled flag (.byClass n) kw oid := rfl

/-! ### `add()` with a type argument -/

/-- a factory error (misspelt keyword, invalid component, …) reaches the caller and the parent is untouched -/
theorem c09_add_factory_error (sh : PlaceShape) (T : Table) (C : CtorTable) (env : Env) (strOk : Obj → Bool) (enabled flag : Bool)
    (parent : Obj) (t : TypeArg) (kw : Kwargs) (hint : Option Nat) (force : Bool) (oid : Nat) (e : Err)
    (h : factory T C env enabled flag t kw oid = .error e) :
    addByType sh T C env strOk enabled flag parent t kw hint force oid = ⟨parent, none, .error (.inl e)⟩ := by
  simp only [addByType, h]

/-- in the shape `__add` had before `fixes/C10-add-dup-*.patch` the placement is C10's first model `Add.add`
    (the first-pass model of this property) -/
theorem c09_add_shape_old (T : Table) (C : CtorTable) (env : Env) (strOk : Obj → Bool) (enabled flag : Bool)
    (parent : Obj) (t : TypeArg) (kw : Kwargs) (hint : Option Nat) (force : Bool) (oid : Nat) :
    addByType .old T C env strOk enabled flag parent t kw hint force oid =
      match factory T C env enabled flag t kw oid with
      | .error e => ⟨parent, none, .error (.inl e)⟩
      | .ok child =>
        let r := Add.add T env.valid strOk ⟨enabled, flag⟩ parent child hint force
        ⟨r.parent, r.warn, match r.result with
                            | .ok o => .ok o
                            | .error e => .error (.inr e)⟩ := by
  unfold addByType
  cases factory T C env enabled flag t kw oid with
  | error e => rfl
  | ok child =>
    simp only [addInst_old]
    cases (Add.add T env.valid strOk ⟨enabled, flag⟩ parent child hint force).result <;> rfl

/-- in the repaired shape (duplicate warning text built under `try`) `add(<type>)` never fails because `str(child)`
    raises: whatever `strOk` says, the outcome is the one with a well-behaved `__str__` -/
theorem c09_add_guarded_ignores_str (d : DupTest) (bk : List Nat) (T : Table) (C : CtorTable) (env : Env)
    (strOk strOk' : Obj → Bool) (enabled flag : Bool) (parent : Obj) (t : TypeArg) (kw : Kwargs) (hint : Option Nat)
    (force : Bool) (oid : Nat) :
    addByType ⟨d, .guarded, bk⟩ T C env strOk enabled flag parent t kw hint force oid =
      addByType ⟨d, .guarded, bk⟩ T C env strOk' enabled flag parent t kw hint force oid := by
  unfold addByType
  cases factory T C env enabled flag t kw oid with
  | error e => rfl
  | ok child =>
    simp only [addInst, addCoreX, placeX, beq_self_eq_true, Bool.or_true, ↓reduceIte]

/-- **`add(<type>, …)`: a misspelt keyword is refused under every switch setting, parent unchanged** -/
theorem c09_add_typo (sh : PlaceShape) (T : Table) (C : CtorTable) (env : Env) (strOk : Obj → Bool) (parent : Obj) (t : TypeArg)
    (kw : Kwargs) (hint : Option Nat) (force : Bool) (oid k : Nat) (hcls : T.row? t.resolve ≠ none)
    (hk : k ∈ keys kw) (hnm : k ∉ T.memberNames t.resolve) :
    ∀ enabled flag, ∃ e, e.isValueError = true ∧
      addByType sh T C env strOk enabled flag parent t kw hint force oid = ⟨parent, none, .error (.inl e)⟩ := by
  intro enabled flag
  obtain ⟨e, he, hv⟩ := c09_typo T C env t kw oid k hcls hk hnm enabled flag
  exact ⟨e, hv, c09_add_factory_error sh T C env strOk enabled flag parent t kw hint force oid e he⟩

/-- **`add(<type>, …)` with validation on**: whenever it returns, the returned (new) component validates AND the
    parent as it now is validates — the same gate guards both -/
theorem c09_add_valid (sh : PlaceShape) (T : Table) (C : CtorTable) (env : Env) (strOk : Obj → Bool) (parent : Obj) (t : TypeArg)
    (kw : Kwargs) (hint : Option Nat) (force : Bool) (oid : Nat) (o : Obj)
    (h : (addByType sh T C env strOk true true parent t kw hint force oid).result = .ok o) :
    env.valid o = true ∧ env.valid (addByType sh T C env strOk true true parent t kw hint force oid).parent = true := by
  unfold addByType at h ⊢
  cases hf : factory T C env true true t kw oid with
  | error e => rw [hf] at h; cases h
  | ok child =>
    simp only [hf] at h
    simp only
    have hcv := c09_valid T C env t kw oid child hf
    cases hr : (addInst sh T env.valid strOk ⟨true, true⟩ parent child hint force).result with
    | error e => rw [hr] at h; cases h
    | ok o' =>
      rw [hr] at h
      simp only [Except.ok.injEq] at h
      subst h
      have hret := (c10_returns_child sh T env.valid strOk ⟨true, true⟩ parent child hint force o' hr)
      rw [hret.1]
      exact ⟨hcv, hret.2 rfl⟩

/-- **`add(<type>, …)` with validation off** (switch off or `validate=False`): nothing is validated — the outcome
    is the one of `add` with the component as built, whatever `validate()` would say about child or parent -/
theorem c09_add_off (sh : PlaceShape) (T : Table) (C : CtorTable) (env env' : Env) (strOk : Obj → Bool) (enabled flag : Bool)
    (parent : Obj) (t : TypeArg) (kw : Kwargs) (hint : Option Nat) (force : Bool) (oid : Nat)
    (hoff : (enabled && flag) = false)
    (hsame : env'.pyInt = env.pyInt ∧ env'.pyFloat = env.pyFloat ∧ env'.cellCls = env.cellCls ∧
      env'.setupCell = env.setupCell) :
    addByType sh T C env strOk enabled flag parent t kw hint force oid =
      addByType sh T C env' strOk enabled flag parent t kw hint force oid := by
  have hfac := c09_off_ignores_validate T C env env' enabled flag t kw oid hoff hsame
  unfold addByType
  rw [← hfac]
  cases factory T C env enabled flag t kw oid with
  | error e => rfl
  | ok child =>
    simp only
    rw [add_gate_off sh T env.valid env'.valid strOk ⟨enabled, flag⟩ parent child hint force hoff]

/-! ### The process-wide switch -/

theorem c09_switch_enable (s : Bool) (pre : List Cmd) : switchAfter s (pre ++ [.enable]) = true := by
  simp [switchAfter, List.foldl_append, stepSwitch]

theorem c09_switch_disable (s : Bool) (pre : List Cmd) : switchAfter s (pre ++ [.disable]) = false := by
  simp [switchAfter, List.foldl_append, stepSwitch]

/-- factory calls never change the switch -/
theorem c09_switch_make (s : Bool) (pre : List Cmd) (f : Bool) (t : TypeArg) (kw : Kwargs) (oid : Nat) :
    switchAfter s (pre ++ [.make f t kw oid]) = switchAfter s pre := by
  simp [switchAfter, List.foldl_append, stepSwitch]

/-- the switch after a history is what its LAST toggle set, or the initial value when there was none: calls —
    returning or raising, by the factory or by `add` — leave it untouched -/
theorem c09_switch_last_toggle (s : Bool) (cmds : List Cmd) :
    switchAfter s cmds = match (cmds.filter Cmd.isToggle).getLast? with
      | some .enable => true
      | some .disable => false
      | _ => s := by
  unfold switchAfter
  induction cmds generalizing s with
  | nil => rfl
  | cons c cs ih =>
    simp only [List.foldl_cons]
    rw [ih]
    cases c with
    | enable =>
      simp only [stepSwitch, List.filter_cons, Cmd.isToggle, ↓reduceIte]
      cases hl : (cs.filter Cmd.isToggle).getLast? with
      | none =>
        have : cs.filter Cmd.isToggle = [] := List.getLast?_eq_none_iff.mp hl
        simp [this]
      | some x =>
        have hx : x.isToggle = true := (List.mem_filter.mp (List.mem_of_getLast? hl)).2
        rw [List.getLast?_cons, hl]
        cases x <;> simp_all [Cmd.isToggle]
    | disable =>
      simp only [stepSwitch, List.filter_cons, Cmd.isToggle, ↓reduceIte]
      cases hl : (cs.filter Cmd.isToggle).getLast? with
      | none =>
        have : cs.filter Cmd.isToggle = [] := List.getLast?_eq_none_iff.mp hl
        simp [this]
      | some x =>
        have hx : x.isToggle = true := (List.mem_filter.mp (List.mem_of_getLast? hl)).2
        rw [List.getLast?_cons, hl]
        cases x <;> simp_all [Cmd.isToggle]
    | make f t kw oid => simp [stepSwitch, Cmd.isToggle]
    | addT sk f p t kw h fo oid => simp [stepSwitch, Cmd.isToggle]

/-- the session's final switch is `switchAfter` -/
theorem c09_session_switch (sh : PlaceShape) (T : Table) (C : CtorTable) (env : Env) : ∀ (cmds : List Cmd) (s : Bool),
    (session sh T C env s cmds).1 = switchAfter s cmds
  | [], _ => rfl
  | .enable :: cs, s => by
    simpa [session, switchAfter, stepSwitch] using c09_session_switch sh T C env cs true
  | .disable :: cs, s => by
    simpa [session, switchAfter, stepSwitch] using c09_session_switch sh T C env cs false
  | .make _ _ _ _ :: cs, s => by
    simpa [session, switchAfter, stepSwitch] using c09_session_switch sh T C env cs s
  | .addT _ _ _ _ _ _ _ _ :: cs, s => by
    simpa [session, switchAfter, stepSwitch] using c09_session_switch sh T C env cs s

/-- **Sessions.** After ANY history of enable / disable / factory / add commands (whatever they returned or
    raised), a factory call behaves as `factory` under the switch value the history left behind; the session's
    final switch is that value. -/
theorem c09_session (sh : PlaceShape) (T : Table) (C : CtorTable) (env : Env) : ∀ (pre : List Cmd) (s : Bool) (f : Bool) (t : TypeArg)
    (kw : Kwargs) (oid : Nat),
    session sh T C env s (pre ++ [.make f t kw oid]) =
      (switchAfter s pre, (session sh T C env s pre).2 ++ [.made (factory T C env (switchAfter s pre) f t kw oid)])
  | [], s, f, t, kw, oid => by simp [session, switchAfter]
  | .enable :: cs, s, f, t, kw, oid => by
    have ih := c09_session sh T C env cs true f t kw oid
    simp only [List.cons_append, session, stepSwitch, switchAfter, List.foldl_cons] at ih ⊢
    exact ih
  | .disable :: cs, s, f, t, kw, oid => by
    have ih := c09_session sh T C env cs false f t kw oid
    simp only [List.cons_append, session, stepSwitch, switchAfter, List.foldl_cons] at ih ⊢
    exact ih
  | .make f' t' kw' oid' :: cs, s, f, t, kw, oid => by
    have ih := c09_session sh T C env cs s f t kw oid
    simp only [List.cons_append, session, stepSwitch, switchAfter, List.foldl_cons] at ih ⊢
    rw [ih]
  | .addT sk f' p' t' kw' h' fo' oid' :: cs, s, f, t, kw, oid => by
    have ih := c09_session sh T C env cs s f t kw oid
    simp only [List.cons_append, session, stepSwitch, switchAfter, List.foldl_cons] at ih ⊢
    rw [ih]

/-- the same for an `add(<type>)` call at the end of any history -/
theorem c09_session_add (sh : PlaceShape) (T : Table) (C : CtorTable) (env : Env) : ∀ (pre : List Cmd) (s : Bool) (sk : Obj → Bool)
    (f : Bool) (p : Obj) (t : TypeArg) (kw : Kwargs) (h : Option Nat) (fo : Bool) (oid : Nat),
    session sh T C env s (pre ++ [.addT sk f p t kw h fo oid]) =
      (switchAfter s pre,
       (session sh T C env s pre).2 ++ [.added (addByType sh T C env sk (switchAfter s pre) f p t kw h fo oid)])
  | [], s, sk, f, p, t, kw, h, fo, oid => by simp [session, switchAfter]
  | .enable :: cs, s, sk, f, p, t, kw, h, fo, oid => by
    have ih := c09_session_add sh T C env cs true sk f p t kw h fo oid
    simp only [List.cons_append, session, stepSwitch, switchAfter, List.foldl_cons] at ih ⊢
    exact ih
  | .disable :: cs, s, sk, f, p, t, kw, h, fo, oid => by
    have ih := c09_session_add sh T C env cs false sk f p t kw h fo oid
    simp only [List.cons_append, session, stepSwitch, switchAfter, List.foldl_cons] at ih ⊢
    exact ih
  | .make f' t' kw' oid' :: cs, s, sk, f, p, t, kw, h, fo, oid => by
    have ih := c09_session_add sh T C env cs s sk f p t kw h fo oid
    simp only [List.cons_append, session, stepSwitch, switchAfter, List.foldl_cons] at ih ⊢
    rw [ih]
  | .addT sk' f' p' t' kw' h' fo' oid' :: cs, s, sk, f, p, t, kw, h, fo, oid => by
    have ih := c09_session_add sh T C env cs s sk f p t kw h fo oid
    simp only [List.cons_append, session, stepSwitch, switchAfter, List.foldl_cons] at ih ⊢
    rw [ih]

/-- **Disable, then enable, restores checking**: whatever happened before and in between (including further
    toggles and calls that raised), once `enable` was the last toggle a `validate=True` call is checked again:
    it returns only components that validate. -/
theorem c09_reenable_restores (sh : PlaceShape) (T : Table) (C : CtorTable) (env : Env) (s : Bool) (pre mid : List Cmd)
    (calls : List Cmd) (hcalls : ∀ c ∈ calls, c.isToggle = false) (t : TypeArg) (kw : Kwargs) (oid : Nat) (o : Obj)
    (h : (session sh T C env s (pre ++ [.disable] ++ mid ++ [.enable] ++ calls ++ [.make true t kw oid])).2.getLast?
          = some (.made (.ok o))) :
    env.valid o = true := by
  rw [c09_session] at h
  simp only [List.getLast?_append, List.getLast?_singleton, Option.some_or, Option.some.injEq, Res.made.injEq] at h
  have hsw : switchAfter s (pre ++ [.disable] ++ mid ++ [.enable] ++ calls) = true := by
    have : ∀ (ms : List Cmd) (b : Bool), (∀ c ∈ ms, c.isToggle = false) → ms.foldl stepSwitch b = b := by
      intro ms
      induction ms with
      | nil => intros; rfl
      | cons c cs ih =>
        intro b hall
        have hc := hall c List.mem_cons_self
        simp only [List.foldl_cons]
        have : stepSwitch b c = b := by
          cases c <;> simp_all [stepSwitch, Cmd.isToggle]
        rw [this]
        exact ih b (fun c hc => hall c (List.mem_cons_of_mem _ hc))
    unfold switchAfter
    rw [List.foldl_append, this calls _ hcalls]
    simp [List.foldl_append, stepSwitch]
  rw [hsw] at h
  exact c09_valid T C env t kw oid o h

/-- **With validation disabled globally the same calls return the component unvalidated — for whole histories.**
    A history that starts with the switch off and never enables it gives the same results (every returned
    component, every error, every parent) whatever `validate()` would say: nothing is validated anywhere, whatever
    the per-call flags are. -/
theorem c09_session_off_unvalidated (sh : PlaceShape) (T : Table) (C : CtorTable) (env env' : Env)
    (hsame : env'.pyInt = env.pyInt ∧ env'.pyFloat = env.pyFloat ∧ env'.cellCls = env.cellCls ∧
      env'.setupCell = env.setupCell) :
    ∀ (cmds : List Cmd), (∀ c ∈ cmds, c ≠ .enable) → session sh T C env false cmds = session sh T C env' false cmds
  | [], _ => rfl
  | .enable :: _, h => absurd rfl (h .enable List.mem_cons_self)
  | .disable :: cs, h => by
    simp only [session]
    exact c09_session_off_unvalidated sh T C env env' hsame cs (fun c hc => h c (List.mem_cons_of_mem _ hc))
  | .make f t kw oid :: cs, h => by
    simp only [session]
    rw [c09_session_off_unvalidated sh T C env env' hsame cs (fun c hc => h c (List.mem_cons_of_mem _ hc)),
      c09_off_ignores_validate T C env env' false f t kw oid (by simp) hsame]
  | .addT sk f p t kw hi fo oid :: cs, h => by
    simp only [session]
    rw [c09_session_off_unvalidated sh T C env env' hsame cs (fun c hc => h c (List.mem_cons_of_mem _ hc)),
      c09_add_off sh T C env env' sk false f p t kw hi fo oid (by simp) hsame]

/-! ### Helper call sites -/

/-- a gated call site validates exactly when the switch is on and its flag (default / literal / the caller's) is:
    with the switch off no site validates, whatever its flag -/
theorem c09_site_obeys_switch (s : Site) (flagArg : Bool) : s.validates false flagArg = false := by
  simp [Site.validates]

/-- a site with a literal `validate=False` never validates; a default site validates iff the switch is on -/
theorem c09_site_flag (s : Site) (enabled flagArg : Bool) :
    (s.flag = .lit false → s.validates enabled flagArg = false) ∧
    (s.flag = .dflt → s.validates enabled flagArg = enabled) ∧
    (s.flag = .param → s.validates enabled flagArg = (enabled && flagArg)) := by
  refine ⟨?_, ?_, ?_⟩ <;> intro h <;> simp [Site.validates, h]

/-! ### Obligations on the table extracted from `nml.py` (re-checked on every run) -/

/-- no member of any class is named like a parameter of `add` / `component_factory` themselves (`obj`, `hint`,
    `force`, `validate`, `component_type`, `cls`, `self`): such a keyword could never reach the constructor -/
theorem c09_gen_no_reserved_member_names :
    reservedClash Gen.Members.table Gen.Members.names = [] := by decide +kernel

/-! ### Concrete instances (hypotheses are satisfiable; each error kind occurs) -/
namespace Ex

def T0 : Table := [⟨0, none, [⟨10, 50, false, false⟩, ⟨11, 51, false, true⟩, ⟨12, 1, true, true⟩]⟩, ⟨1, some 0, [⟨13, 50, false, true⟩]⟩]
/-- class 1 derives from class 0 and hands members 10, 11, 12 over positionally; 11 is cast with `int`, 12 is a
    list, 13 has the default literal `'d'`; class 0 has a trailing parameter 14 that class 1 does not hand over -/
def C0 : CtorTable := [
  ⟨0, none, [⟨10, none, none, 1, false⟩, ⟨11, none, none, 3, false⟩, ⟨12, none, none, 2, true⟩, ⟨14, none, none, 2, false⟩], []⟩,
  ⟨1, some 0, [⟨10, none, none, 0, false⟩, ⟨11, none, none, 0, false⟩, ⟨12, none, none, 0, false⟩,
               ⟨13, some ("str:'d'", true), some "d", 1, false⟩], [10, 11, 12]⟩]
/-- valid iff the required member 10 is set to a truthy value; `int()` accepts only the atom "str:'7'" -/
def env0 : Env where
  valid := fun o => match o.get 10 with | some v => v.truthy | none => false
  pyInt := fun v => match v with | .atom "str:'7'" _ => some (.atom "int:7" true) | _ => none
  pyFloat := fun _ => none
  cellCls := 99
  setupCell := id
def good : Kwargs := [(10, .atom "str:'a'" true), (13, .atom "str:'b'" true)]
def typo : Kwargs := [(10, .atom "str:'a'" true), (77, .atom "str:'b'" true)]
def incomplete : Kwargs := [(13, .atom "str:'b'" true)]

example : T0.row? (TypeArg.byName 1).resolve ≠ none := by decide
-- c09_valid / c09_valid_or_raises: a valid one comes back, an invalid one raises
example : (factory T0 C0 env0 true true (.byName 1) good 5).toOption.isSome = true := by decide
example : factory T0 C0 env0 true true (.byName 1) incomplete 5 = .error .invalid := rfl
-- c09_typo: 77 is a keyword, not a member name (class 1 has members 13, 10, 11, 12)
example : (77 : Nat) ∈ keys typo ∧ (77 : Nat) ∉ T0.memberNames 1 := by decide
example : factory T0 C0 env0 false false (.byClass 1) typo 5 = .error (.badArg 77) := rfl
-- c09_off / c09_off_returns_invalid: validation off hands back the invalid component
example : (∀ k ∈ keys incomplete, k ∈ T0.memberNames 1) ∧ (construct C0 env0 1 incomplete 5).isSome = true := by decide
-- c09_ctor_stores: the wiring of class 1 is by name and assigns nothing twice; five assignments
example : wiringOk C0 1 = true ∧ (wiring C0 1).length = 5 ∧ assignedOnce C0 1 11 = true := by decide
-- … the keyword 11 reaches the `int` cast of the base class, the absent 13 leaves its default, 12 leaves `[]`
example : (construct C0 env0 1 [(11, .atom "str:'7'" true)] 5).map (fun o => (o.fields.map (·.1))) = some [10, 11, 12, 14, 13] := by
  decide
example : ((construct C0 env0 1 [(11, .atom "str:'7'" true)] 5).bind (·.get 11)).map Val.truthy = some true := by decide
-- c09_ctor_fails_iff: constructor cast failure
example : factory T0 C0 env0 true true (.byName 0) [(11, .atom "str:'x'" true)] 5 = .error .ctorValueError := rfl
example : factory T0 C0 env0 true true (.byName 7) [] 5 = .error .attrError := rfl
-- c09_add_valid: a result exists
example : ((addByType ⟨.sameContents, .guarded, [98]⟩ T0 C0 env0 (fun _ => true) true true (.mk 1 0 [(10, .atom "str:'p'" true), (11, .none), (12, .list [])])
    (.byName 1) good none false 2).result.toOption.isSome) = true := by decide
-- c09_reenable_restores / c09_session_off_unvalidated: histories of the required shape
example : ∀ c ∈ [Cmd.make true (.byName 1) incomplete 3, Cmd.make false (.byName 7) [] 4], c.isToggle = false := by
  intro c hc; simp at hc; rcases hc with rfl | rfl <;> rfl
example : ∀ c ∈ [Cmd.disable, Cmd.make true (.byName 1) incomplete 3], c ≠ .enable := by
  intro c hc; simp at hc; rcases hc with rfl | rfl <;> simp

/-- `validate()` accepts, the schema does not (today: a negative `NonNegativeInteger`, a zero `PositiveInteger`):
    `hsound` of `c09_schema_valid_partial` holds for the accepting judge and fails for this one -/
def schemaRejects : Obj → Bool := fun _ => false
example : ∀ o, env0.valid o = true → (fun _ => true) o = true := fun _ _ => rfl

end Ex

/-- … and it is false when `validate()` accepts something the schema rejects: the component comes back
    (known finding `C09:invalid-returned:xsd:facet:*`) -/
theorem c09_schema_valid_witness : ¬ c09_schema_valid_full := by
  intro h
  have hok : ∃ o, factory Ex.T0 Ex.C0 Ex.env0 true true (.byName 1) Ex.good 5 = .ok o := by
    cases hf : factory Ex.T0 Ex.C0 Ex.env0 true true (.byName 1) Ex.good 5 with
    | ok o => exact ⟨o, rfl⟩
    | error e =>
      have : (factory Ex.T0 Ex.C0 Ex.env0 true true (.byName 1) Ex.good 5).toOption.isSome = true := by decide
      rw [hf] at this
      cases this
  obtain ⟨o, ho⟩ := hok
  have := h Ex.T0 Ex.C0 Ex.env0 Ex.schemaRejects (.byName 1) Ex.good 5 o ho
  cases this

end NmlVerif.Factory
