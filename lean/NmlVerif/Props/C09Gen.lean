import NmlVerif.Props.C09
import NmlVerif.Gen.Factory
/-!
# C09 — the regenerated definitions equal the hand model; obligations on the regenerated tables

`Gen/Factory.lean` is rewritten from the source tree under test on every run (`translators/factory_extract.py`):
statement-level translations of `component_factory`, `_check_arg_list`, `add` (type-argument path and gate),
`neuroml.utils.component_factory`, the switch functions; the constructor table; every writer / reader of `ENABLED`;
every helper call site.  This file proves

* generated = hand model (`Model/Factory.lean`), so every theorem of `Props/C09.lean` speaks about the code as it is
  in the tree;
* the table obligations the theorems of `Props/C09.lean` take as hypotheses (`wiringOk`, …), by kernel evaluation;
* the theorems of `Props/C09.lean` instantiated at the tables of the tree (`c09_tree_*`).
-/
namespace NmlVerif.Factory
open NmlVerif NmlVerif.Add

/-! ### generated = hand model -/

/-- `_check_arg_list` as translated = "raise for the first keyword that is not a member name" -/
theorem c09_gen_check_arg_list (T : Table) (self : Obj) (kw : Kwargs) :
    Gen.Factory.checkArgList T self kw =
      match firstBadArg T self.cls kw with
      | some k => .error (.badArg k)
      | none => .ok () := by
  simp only [Gen.Factory.checkArgList, Py.getMembers, firstBadArg, Table.memberNames]
  cases (keys kw).find? (fun k => !(List.map (fun m => m.name) (T.getMembers self.cls)).contains k) <;> rfl

/-- the constructed object carries the class it was asked for -/
theorem construct_cls (C : CtorTable) (env : Env) (cls : Nat) (kw : Kwargs) (oid : Nat) (o : Obj)
    (h : construct C env cls kw oid = some o) : o.cls = cls := by
  unfold construct at h
  cases hm : mapOpt (Assign.eval env kw) (wiring C cls) with
  | none => simp [hm] at h
  | some l =>
    simp only [hm, Option.map_some, Option.some.injEq] at h
    subst h; rfl

/-- `component_factory` as translated = the hand model `factory`, for every table, environment, switch setting,
    type argument and keyword list (`hcell`: the literal class name tested by the code is the model's `cellCls`;
    `hsetup`: `setup_nml_cell` does not change the class of the object) -/
theorem c09_gen_factory (T : Table) (C : CtorTable) (env : Env) (enabled flag : Bool) (t : TypeArg) (kw : Kwargs)
    (oid : Nat) (hcell : env.cellCls = Gen.Factory.setupClass) (hsetup : ∀ o, (env.setupCell o).cls = o.cls) :
    Gen.Factory.componentFactory T C env enabled flag t kw oid = factory T C env enabled flag t kw oid := by
  have core : ∀ n : Nat,
      (Py.getattrModule T n >>= fun comp_type_class =>
        Py.instantiate C env comp_type_class kw oid >>= fun comp =>
        (if Py.nameIs comp_type_class Gen.Factory.setupClass then Py.setupNmlCell env comp else pure comp) >>= fun comp =>
        Gen.Factory.checkArgList T comp kw >>= fun _ =>
        (if (enabled && flag) then Py.validate env comp else pure ()) >>= fun _ =>
        (pure comp : Except Err Obj))
      = (match T.row? n with
        | none => .error .attrError
        | some _ =>
          match construct C env n kw oid with
          | none => .error .ctorValueError
          | some o =>
            let comp := built env n o
            match firstBadArg T n kw with
            | some k => .error (.badArg k)
            | none => if enabled && flag then (if env.valid comp then .ok comp else .error .invalid) else .ok comp) := by
    intro n
    unfold Py.getattrModule
    cases hr : T.row? n with
    | none => rfl
    | some r =>
      simp only [bind, Except.bind, Py.instantiate]
      cases hc : construct C env n kw oid with
      | none => rfl
      | some o =>
        simp only
        have hbuilt : (if Py.nameIs n Gen.Factory.setupClass = true then Py.setupNmlCell env o else pure o)
            = Except.ok (built env n o) := by
          simp only [Py.nameIs, built, hcell, Py.setupNmlCell, pure, Except.pure]
          by_cases hb : (n == Gen.Factory.setupClass) = true <;> simp [hb]
        rw [hbuilt]
        simp only
        have hcls : (built env n o).cls = n := by
          have := construct_cls C env n kw oid o hc
          unfold built
          split
          · rw [hsetup, this]
          · exact this
        rw [c09_gen_check_arg_list, hcls]
        cases firstBadArg T n kw with
        | some k => rfl
        | none =>
          simp only [Py.validate, pure, Except.pure]
          cases enabled <;> cases flag <;> simp <;> cases env.valid (built env n o) <;> rfl
  cases t with
  | byName n => exact core n
  | byClass n => exact core n

/-- `add()` with a type argument as translated (factory call with the flag and the keywords handed through,
    C10's placement block, final gate on the parent) = the hand model `addByType` -/
theorem c09_gen_add (sh : PlaceShape) (T : Table) (C : CtorTable) (env : Env) (strOk : Obj → Bool) (enabled flag : Bool) (parent : Obj)
    (t : TypeArg) (kw : Kwargs) (hint : Option Nat) (force : Bool) (oid : Nat)
    (hcell : env.cellCls = Gen.Factory.setupClass) (hsetup : ∀ o, (env.setupCell o).cls = o.cls) :
    Gen.Factory.addByType sh T C env strOk enabled flag parent t kw hint force oid =
      addByType sh T C env strOk enabled flag parent t kw hint force oid := by
  unfold Gen.Factory.addByType addByType
  rw [c09_gen_factory T C env enabled flag t kw oid hcell hsetup]
  cases factory T C env enabled flag t kw oid with
  | error e => rfl
  | ok child =>
    simp only [Py.place, addInst, addCoreX, Gate.on, Bool.false_and, Bool.false_eq_true, ↓reduceIte]
    generalize select true (targets (T.getMembers parent.cls) child.cls) hint = sel
    match sel with
    | .error e => rfl
    | .ok none =>
      simp only [Py.validate, pure, Except.pure]
      cases enabled <;> cases flag <;> simp <;> cases env.valid parent <;> rfl
    | .ok (some m) =>
      simp only
      generalize placeX sh.dup sh.warn sh.bk (strOk child) parent child m force = pl
      match pl with
      | .error e => rfl
      | .ok (p', w) =>
        simp only [Py.validate, pure, Except.pure]
        cases enabled <;> cases flag <;> simp <;> cases env.valid p' <;> rfl

/-- `neuroml.utils.component_factory` hands type, flag and keywords through -/
theorem c09_gen_utils (T : Table) (C : CtorTable) (env : Env) (enabled flag : Bool) (t : TypeArg) (kw : Kwargs)
    (oid : Nat) (hcell : env.cellCls = Gen.Factory.setupClass) (hsetup : ∀ o, (env.setupCell o).cls = o.cls) :
    Gen.Factory.utilsComponentFactory T C env enabled flag t kw oid = factory T C env enabled flag t kw oid := by
  unfold Gen.Factory.utilsComponentFactory
  exact c09_gen_factory T C env enabled flag t kw oid hcell hsetup

/-- the switch functions as translated are the transitions of the state machine; the getter reads the switch -/
theorem c09_gen_switch_functions (s : Bool) :
    Gen.Factory.enableSwitch s = stepSwitch s .enable ∧ Gen.Factory.disableSwitch s = stepSwitch s .disable ∧
    Gen.Factory.getSwitch s = s := ⟨rfl, rfl, rfl⟩

/-- "build-time validation enabled (the default)": the switch is on at import time and every `validate` parameter
    (component_factory, add, utils.component_factory) defaults to `True` -/
theorem c09_gen_defaults :
    Gen.Factory.initialSwitch = true ∧ Gen.Factory.factoryDefaultValidate = true ∧
    Gen.Factory.addDefaultValidate = true ∧ Gen.Factory.utilsDefaultValidate = true := by decide

end NmlVerif.Factory
