import NmlVerif.Props.C09Gen
import NmlVerif.Gen.Bindings
/-!
# C09 — obligations on the tables regenerated from the tree (kernel evaluation, every run) and the theorems of
`Props/C09.lean` instantiated at the tree

Separate from `Props/C09Gen.lean` so that a table that no longer satisfies its obligation (a new writer of the
switch, a helper site that bypasses the gate, a constructor wired crosswise) breaks THESE obligations only, and the
equalities generated = hand model keep being checked.
-/
namespace NmlVerif.Factory
open NmlVerif NmlVerif.Add

/-- nothing in the package writes `ENABLED` except the two switch functions (and the module that defines it):
    no helper, no factory, no `add`, no context manager — so `stepSwitch` leaves it alone for every call, returning
    or raising -/
theorem c09_gen_switch_writers :
    Gen.Factory.switchWriters =
      [("neuroml/__init__.py", "disable_build_time_validation", some false),
       ("neuroml/__init__.py", "enable_build_time_validation", some true),
       ("neuroml/build_time_validation.py", "<module>", some true)] := by decide

/-- … and it is read by the getter and by the two gates only (nothing caches a copy) -/
theorem c09_gen_switch_readers :
    Gen.Factory.switchReaders =
      [("neuroml/__init__.py", "get_build_time_validation"),
       ("neuroml/nml/generatedssupersuper.py", "GeneratedsSuperSuper.add"),
       ("neuroml/nml/generatedssupersuper.py", "GeneratedsSuperSuper.component_factory")] := by decide

/-- the class name `component_factory` special-cases is the table's `Cell` -/
theorem c09_gen_cell_class : Gen.Factory.setupClass = Gen.Members.cellCls := by decide

/-! ### the constructor table -/

def renB (i : Nat) : Nat := Gen.Factory.toBindings.getD i 0

def CParam.toBinding (p : CParam) : Binding.CtorParam := ⟨renB p.name, p.dfltLex, p.cast, p.list⟩

/-- **the constructor table is the binding table's**: class by class, parameter by parameter (name, default in
    lexical form, `_cast` kind, list flag), base class and positional super arguments equal the `ctor` /
    `superArgs` / `base` columns of `Gen/Bindings.lean` (the table C01–C04 and C11 are checked against) -/
theorem c09_gen_ctor_is_bindings :
    Gen.Factory.ctorTable.map (fun r => (renB r.cls, r.base.map renB, r.params.map CParam.toBinding, r.superArgs.map renB))
      = Gen.Bindings.table.map (fun k => (k.name, k.base, k.ctor, k.superArgs)) := by decide +kernel

/-- … its classes and base classes are those of the member table, in the same order -/
theorem c09_gen_ctor_classes :
    Gen.Factory.ctorTable.map (fun r => (r.cls, r.base)) = Gen.Members.table.map (fun r => (r.name, r.base)) := by
  decide +kernel

/-- … the default token and the default's lexical form are present together -/
theorem c09_gen_ctor_defaults :
    Gen.Factory.ctorTable.all (fun r => r.params.all (fun p => p.dflt.isSome == p.dfltLex.isSome)) = true := by
  decide +kernel

/-- **every constructor chain is wired by name**: each `self.x = …` is fed by the caller's keyword `x` (through
    however many positional hand-overs) or by a literal -/
theorem c09_gen_wiring_ok :
    Gen.Members.table.all (fun r => wiringOk Gen.Factory.ctorTable r.name) = true := by decide +kernel

/-- **every member keyword reaches an attribute**: for every class, every member name is assigned exactly once by
    the constructor chain, from the keyword of the same name — except the wildcard holder `__ANY__` (a member name
    that is no constructor parameter: recorded under C11 `C11:any-holder`) -/
theorem c09_gen_members_stored :
    Gen.Members.table.all (fun r =>
      (unstoredMembers Gen.Members.table Gen.Factory.ctorTable r.name).all
        (fun m => Gen.Members.names[m]? == some "__ANY__")) = true := by decide +kernel

/-! ### helper call sites -/

/-- **every helper call site obeys the switch**: it goes through `component_factory` / `add` (none calls
    `validate()` directly, none hands `**kwargs` to a raw constructor), and its `validate` flag is the default, a
    literal, or the helper's own parameter -/
theorem c09_gen_helper_sites_gated : Gen.Factory.helperSites.all Site.gated = true := by decide +kernel

/-- the literal keywords of every helper call site are members of the site's literal type (no helper contains a
    call that `_check_arg_list` would always refuse) -/
theorem c09_gen_helper_sites_keys :
    Gen.Factory.helperSites.all (fun s => (s.badKeys Gen.Members.table).isEmpty) = true := by decide +kernel

/-- with the switch off no helper call site validates, whatever its flag (`c09_site_obeys_switch` at the table) -/
theorem c09_tree_helpers_off (flagArg : Bool) :
    Gen.Factory.helperSites.all (fun s => !(s.validates false flagArg)) = true := by
  rw [List.all_eq_true]
  intro s _
  simp [c09_site_obeys_switch]

/-! ### the theorems of `Props/C09.lean` at the tree under test -/

/-- the environment of the tree: the class the factory special-cases is the table's `Cell`, and
    `setup_nml_cell` keeps the class -/
structure TreeEnv (env : Env) : Prop where
  cell : env.cellCls = Gen.Factory.setupClass
  setup : ∀ o, (env.setupCell o).cls = o.cls

/-- **the property's first sentence for the code as translated**: with both switches on, `component_factory`
    (as regenerated from the tree) returns only components `validate()` accepts, or raises `ValueError` -/
theorem c09_tree_valid_or_raises (env : Env) (henv : TreeEnv env) (t : TypeArg) (kw : Kwargs) (oid : Nat)
    (hcls : Gen.Members.table.row? t.resolve ≠ none) :
    match Gen.Factory.componentFactory Gen.Members.table Gen.Factory.ctorTable env true true t kw oid with
    | .ok o => env.valid o = true
    | .error e => e.isValueError = true := by
  rw [c09_gen_factory _ _ env true true t kw oid henv.cell henv.setup]
  exact c09_valid_or_raises _ _ env t kw oid hcls

/-- **… a keyword that is not a member is refused by the code as translated, under every switch setting** -/
theorem c09_tree_typo (env : Env) (henv : TreeEnv env) (t : TypeArg) (kw : Kwargs) (oid k : Nat)
    (hcls : Gen.Members.table.row? t.resolve ≠ none) (hk : k ∈ keys kw)
    (hnm : k ∉ Gen.Members.table.memberNames t.resolve) :
    ∀ enabled flag, ∃ e,
      Gen.Factory.componentFactory Gen.Members.table Gen.Factory.ctorTable env enabled flag t kw oid = .error e ∧
      e.isValueError = true := by
  intro enabled flag
  rw [c09_gen_factory _ _ env enabled flag t kw oid henv.cell henv.setup]
  exact c09_typo _ _ env t kw oid k hcls hk hnm enabled flag

/-- **… and what the generated constructors of the tree store**: for every class of the tree and every member `m`
    (other than the wildcard `__ANY__`), a keyword `m = v` arrives under the attribute `m` as the `_cast` (of the
    class that assigns it) of `v`; the attribute exists -/
theorem c09_tree_member_keyword_stored (env : Env) (r : ClassRow) (hr : r ∈ Gen.Members.table) (m : Nat)
    (hm : m ∈ Gen.Members.table.memberNames r.name) (hany : Gen.Members.names[m]? ≠ some "__ANY__")
    (kw : Kwargs) (oid : Nat) (o : Obj) (h : construct Gen.Factory.ctorTable env r.name kw oid = some o)
    (v : Val) (hk : lookup kw m = some v) :
    ∃ a ∈ wiring Gen.Factory.ctorTable r.name, a.field = m ∧
      ∃ w, pyCast env a.by_ v = some w ∧ o.get m = some w := by
  have hall := c09_gen_members_stored
  rw [List.all_eq_true] at hall
  have hr' := hall r hr
  rw [List.all_eq_true] at hr'
  -- m is not among the unstored members (those are all named `__ANY__`)
  have hst : m ∉ unstoredMembers Gen.Members.table Gen.Factory.ctorTable r.name := by
    intro hin
    have := hr' m hin
    simp only [beq_iff_eq] at this
    exact hany this
  simp only [unstoredMembers, List.mem_filter, hm, true_and, Bool.not_eq_true', Bool.not_eq_false,
    Bool.and_eq_true, List.any_eq_true] at hst
  have hst' : assignedOnce Gen.Factory.ctorTable r.name m = true ∧
      ∃ a ∈ wiring Gen.Factory.ctorTable r.name, a.fedBy m = true := by
    cases h1 : assignedOnce Gen.Factory.ctorTable r.name m with
    | false => simp [h1] at hst
    | true => simpa [h1] using hst
  obtain ⟨honce, a, ha, hcond⟩ := hst'
  simp only [Assign.fedBy, Bool.and_eq_true, beq_iff_eq] at hcond
  obtain ⟨hf, hs⟩ := hcond
  cases hsrc : a.src with
  | const c => simp [hsrc] at hs
  | given n d =>
    simp only [hsrc, beq_iff_eq] at hs
    subst hs
    refine ⟨a, ha, hf, ?_⟩
    have hsrc' : a.src = .given a.field d := by rw [hsrc, hf]
    have := c09_ctor_stores_keyword Gen.Factory.ctorTable env r.name kw oid o a ha (by rw [hf]; exact honce) h d hsrc' v
      (by rw [hf]; exact hk)
    rw [hf] at this
    exact this

end NmlVerif.Factory
