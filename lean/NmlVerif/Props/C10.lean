import NmlVerif.Proofs.Add
import NmlVerif.Gen.Members
/-!
# C10 — `add()` stores a child under exactly the right member, or raises changing nothing

Model: `NmlVerif.Add` (`Model/Add.lean`) over the member table `Gen/Members.lean` (regenerated from
`neuroml/nml/nml.py` on every run by `translators/members_extract.py`); tied to
`neuroml/nml/generatedssupersuper.py` (`add`, `__add`, `_get_members`) and the generated `__eq__` by the
correspondence check `harness/props/c10.py` (real `add` vs `Drivers/C10.lean`, member-wise snapshots).

Every theorem is for EVERY table `T`, every parent state (hence after any history of earlier calls, see
`c10_history`), every child, hint, `force`, validation gate and `validate()` verdict `valid`.
`cands T parent child` are the members of the parent's class whose declared data type is the child's class.
-/
namespace NmlVerif.Add
open NmlVerif

/-- the candidate members: declared for exactly the child's class -/
def cands (T : Table) (parent child : Obj) : List MemberSpec := targets (T.getMembers parent.cls) child.cls

/-- the outcome once member `m` was selected -/
theorem add_eq_of_select (T : Table) (valid strOk : Obj → Bool) (g : Gate) (parent child : Obj) (hint : Option Nat)
    (force : Bool) (m : MemberSpec) (hs : select true (cands T parent child) hint = .ok (some m)) :
    add T valid strOk g parent child hint force =
      match place (strOk child) parent child m force with
      | .error e => ⟨parent, none, .error e⟩
      | .ok (p', w) => ⟨p', w, if g.on && !valid p' then .error .invalid else .ok child⟩ := by
  unfold cands at hs
  simp only [add, addWith, addCore, hs]
  rfl

/-- the outcome once member `m` was selected and `__add` can store -/
theorem add_stores (T : Table) (valid strOk : Obj → Bool) (g : Gate) (parent child : Obj) (hint : Option Nat)
    (force : Bool) (m : MemberSpec) (hs : select true (cands T parent child) hint = .ok (some m))
    (hst : Storable parent child m force) :
    StoredIn parent (add T valid strOk g parent child hint force).parent m child ∧
    (add T valid strOk g parent child hint force).warn = none := by
  rw [add_eq_of_select T valid strOk g parent child hint force m hs]
  obtain ⟨p', hp, hsi⟩ := place_storable (strOk child) hst
  rw [hp]
  exact ⟨hsi, rfl⟩

/-- **Unique target.** Exactly one member is declared for the child's type and `__add` can store (the slot is
    free, or `force`): afterwards the child is in that member — appended / assigned — and the parent is otherwise
    the same object: no other attribute changed. (Holds whether or not the validation that follows raises.) -/
theorem c10_unique_stores (T : Table) (valid strOk : Obj → Bool) (g : Gate) (parent child : Obj) (hint : Option Nat)
    (force : Bool) (m : MemberSpec) (hu : cands T parent child = [m]) (hst : Storable parent child m force) :
    StoredIn parent (add T valid strOk g parent child hint force).parent m child :=
  (add_stores T valid strOk g parent child hint force m (by rw [hu]; rfl) hst).1

/-- **Hint selects among several.** With two or more candidates the one named by the hint receives the child
    (member names are distinct along the class chain: `c10_gen_names_nodup` for the shipped table). -/
theorem c10_hint_selects (T : Table) (valid strOk : Obj → Bool) (g : Gate) (parent child : Obj) (h : Nat)
    (force : Bool) (m : MemberSpec) (hmany : 2 ≤ (cands T parent child).length)
    (hnd : (T.memberNames parent.cls).Nodup) (hm : m ∈ cands T parent child) (hname : m.name = h)
    (hst : Storable parent child m force) :
    StoredIn parent (add T valid strOk g parent child (some h) force).parent m child := by
  have hf := find?_of_nodup_names h (targets_names_nodup child.cls hnd) hm hname
  exact (add_stores T valid strOk g parent child (some h) force m (select_many_hit true hmany h m hf) hst).1

/-- the same without assuming distinct names: the FIRST candidate carrying the hinted name is used -/
theorem c10_hint_selects_first (T : Table) (valid strOk : Obj → Bool) (g : Gate) (parent child : Obj) (h : Nat)
    (force : Bool) (m : MemberSpec) (hmany : 2 ≤ (cands T parent child).length)
    (hf : (cands T parent child).find? (fun x => x.name == h) = some m) (hst : Storable parent child m force) :
    StoredIn parent (add T valid strOk g parent child (some h) force).parent m child :=
  (add_stores T valid strOk g parent child (some h) force m (select_many_hit true hmany h m hf) hst).1

/-- **No member for the child's type**: raises, parent unchanged. -/
theorem c10_no_target_raises (T : Table) (valid strOk : Obj → Bool) (g : Gate) (parent child : Obj)
    (hint : Option Nat) (force : Bool) (h0 : cands T parent child = []) :
    add T valid strOk g parent child hint force = ⟨parent, none, .error .noMember⟩ := by
  unfold cands at h0
  simp only [add, addWith, addCore, h0, select]

/-- **Several candidates and no hint**: raises, parent unchanged. -/
theorem c10_ambiguous_raises (T : Table) (valid strOk : Obj → Bool) (g : Gate) (parent child : Obj) (force : Bool)
    (hmany : 2 ≤ (cands T parent child).length) :
    add T valid strOk g parent child none force = ⟨parent, none, .error .ambiguous⟩ := by
  unfold cands at hmany
  simp only [add, addWith, addCore, select_many_none true hmany]

/-- **A hint that names none of the candidates**: raises, parent unchanged (the repaired behaviour;
    before `fixes/C10-add-bad-hint-raises.patch` the call returned the child and stored nothing). -/
theorem c10_bad_hint_raises (T : Table) (valid strOk : Obj → Bool) (g : Gate) (parent child : Obj) (h : Nat)
    (force : Bool) (hmany : 2 ≤ (cands T parent child).length) (hmiss : ∀ m ∈ cands T parent child, m.name ≠ h) :
    add T valid strOk g parent child (some h) force = ⟨parent, none, .error .badHint⟩ := by
  unfold cands at hmany hmiss
  simp only [add, addWith, addCore, select_many_miss true hmany h hmiss, ↓reduceIte]

/-- the selected member: the unique candidate, or the first one named by the hint -/
def Selected (T : Table) (parent child : Obj) (hint : Option Nat) (m : MemberSpec) : Prop :=
  select true (cands T parent child) hint = .ok (some m)

/-- FULL statement of **duplicate / occupied ⇒ refused with a warning unless forced**: the selected member
    already holds an equal child (container) or any truthy value (single-valued) and `force` is off ⇒ the parent is
    unchanged, the warning is issued, and the call returns the child — unless the validation of the (unchanged)
    parent raises. See `c10_taken_refused_partial` / `_witness` (known finding `C10:dup-warning-raises`). -/
def c10_taken_refused_full : Prop :=
  ∀ (T : Table) (valid strOk : Obj → Bool) (g : Gate) (parent child : Obj) (hint : Option Nat) (m : MemberSpec),
    Selected T parent child hint m → Taken parent child m →
    (add T valid strOk g parent child hint false).parent = parent ∧
    (add T valid strOk g parent child hint false).warn = some (warnOf m) ∧
    ((add T valid strOk g parent child hint false).result = .ok child ∨
     (g.on = true ∧ valid parent = false ∧
      (add T valid strOk g parent child hint false).result = .error .invalid))

/-- true whenever the duplicate warning can be formatted: for a container member `str(child)` must not raise
    (it does for incomplete components of 15 classes whose `__str__` helper dereferences unset attributes);
    single-valued members are unconditional -/
theorem c10_taken_refused_partial (T : Table) (valid strOk : Obj → Bool) (g : Gate) (parent child : Obj)
    (hint : Option Nat) (m : MemberSpec) (hs : Selected T parent child hint m) (ht : Taken parent child m)
    (hstr : m.container = true → strOk child = true) :
    (add T valid strOk g parent child hint false).parent = parent ∧
    (add T valid strOk g parent child hint false).warn = some (warnOf m) ∧
    ((add T valid strOk g parent child hint false).result = .ok child ∨
     (g.on = true ∧ valid parent = false ∧
      (add T valid strOk g parent child hint false).result = .error .invalid)) := by
  rw [add_eq_of_select T valid strOk g parent child hint false m hs, place_taken (strOk child) ht hstr]
  refine ⟨rfl, rfl, ?_⟩
  cases hg : g.on <;> cases hv : valid parent <;> simp [hv]

/-- when `str(child)` raises, the duplicate is still not stored — the parent is unchanged — but the call raises
    instead of warning and returning the child -/
theorem c10_taken_str_raises (T : Table) (valid strOk : Obj → Bool) (g : Gate) (parent child : Obj)
    (hint : Option Nat) (m : MemberSpec) (hs : Selected T parent child hint m) (ht : Taken parent child m)
    (hc : m.container = true) (hstr : strOk child = false) :
    add T valid strOk g parent child hint false = ⟨parent, none, .error .strFails⟩ := by
  rw [add_eq_of_select T valid strOk g parent child hint false m hs, hstr, place_taken_strFails ht hc]

/-- **… unless forced**: with `force` the child is stored although the member is taken
    (appended a second time / the old value overwritten), without warning. -/
theorem c10_taken_forced (T : Table) (valid strOk : Obj → Bool) (g : Gate) (parent child : Obj) (hint : Option Nat)
    (m : MemberSpec) (hs : Selected T parent child hint m) (ht : Taken parent child m) :
    StoredIn parent (add T valid strOk g parent child hint true).parent m child ∧
    (add T valid strOk g parent child hint true).warn = none := by
  have hst : Storable parent child m true := by
    unfold Storable; unfold Taken at ht
    cases hc : m.container with
    | true =>
      simp only [hc, ↓reduceIte] at ht ⊢
      obtain ⟨l, hl, _⟩ := ht
      exact ⟨l, hl, Or.inl trivial⟩
    | false => simp
  exact add_stores T valid strOk g parent child hint true m hs hst

/-- everything a call can do, in one statement (the other theorems are read off from it) -/
theorem add_cases (T : Table) (valid strOk : Obj → Bool) (g : Gate) (parent child : Obj) (hint : Option Nat)
    (force : Bool) :
    let r := add T valid strOk g parent child hint force
    -- (1) no unique member can be determined
    (r.parent = parent ∧ r.warn = none ∧
        (r.result = .error .noMember ∨ r.result = .error .ambiguous ∨ r.result = .error .badHint))
    -- (2) stored
    ∨ (∃ m ∈ cands T parent child, Selected T parent child hint m ∧ Storable parent child m force ∧
        StoredIn parent r.parent m child ∧ r.warn = none ∧
        r.result = if g.on && !valid r.parent then .error .invalid else .ok child)
    -- (3) refused with the warning
    ∨ (∃ m ∈ cands T parent child, Selected T parent child hint m ∧ Taken parent child m ∧ force = false ∧
        r.parent = parent ∧ r.warn = some (warnOf m) ∧
        r.result = if g.on && !valid parent then .error .invalid else .ok child)
    -- (3') refused, but formatting the duplicate warning raised
    ∨ (∃ m ∈ cands T parent child, Selected T parent child hint m ∧ Taken parent child m ∧ force = false ∧
        m.container = true ∧ strOk child = false ∧ r.parent = parent ∧ r.warn = none ∧
        r.result = .error .strFails)
    -- (4) malformed parent: the selected member has no attribute / a container that is not a list
    ∨ (∃ m ∈ cands T parent child, Selected T parent child hint m ∧ ¬ Storable parent child m force ∧
        ¬ Taken parent child m ∧ r.parent = parent ∧ r.warn = none ∧
        (r.result = .error .keyError ∨ r.result = .error .notAList)) := by
  intro r
  cases hs : select true (cands T parent child) hint with
  | error e =>
    left
    have hr : r = ⟨parent, none, .error e⟩ := by
      unfold cands at hs
      simp only [r, add, addWith, addCore, hs]
    rw [hr]
    refine ⟨rfl, rfl, ?_⟩
    revert hs
    generalize cands T parent child = ts
    intro hs
    match ts, hs with
    | [], hs => simp only [select, Except.error.injEq] at hs; subst hs; simp
    | [a], hs => simp [select] at hs
    | a :: b :: rest, hs =>
      cases hint with
      | none => simp only [select, Except.error.injEq] at hs; subst hs; simp
      | some hn =>
        simp only [select] at hs
        split at hs
        · cases hs
        · simp only [↓reduceIte, Except.error.injEq] at hs; subst hs; simp
  | ok om =>
    cases om with
    | none => exact absurd hs select_strict_ne_none
    | some m =>
      have hmem := select_ok_mem hs
      have hr : r = _ := add_eq_of_select T valid strOk g parent child hint force m hs
      rcases place_cases (strOk child) parent child m force with
        ⟨p', hp, hst, hsi⟩ | ⟨ht, hf, ⟨hp, _⟩ | ⟨hp, hc, hso⟩⟩ | ⟨hp, hns, hnt⟩
      · right; left
        rw [hp] at hr
        rw [hr]
        exact ⟨m, hmem, hs, hst, hsi, rfl, rfl⟩
      · right; right; left
        rw [hp] at hr
        rw [hr]
        exact ⟨m, hmem, hs, ht, hf, rfl, rfl, rfl⟩
      · right; right; right; left
        rw [hp] at hr
        rw [hr]
        exact ⟨m, hmem, hs, ht, hf, hc, hso, rfl, rfl, rfl⟩
      · right; right; right; right
        rcases hp with hp | hp <;> rw [hp] at hr <;> rw [hr]
        · exact ⟨m, hmem, hs, hns, hnt, rfl, rfl, Or.inl rfl⟩
        · exact ⟨m, hmem, hs, hns, hnt, rfl, rfl, Or.inr rfl⟩

/-- **Returns the stored object.** Whenever the call returns, it returns the very object it was given; without a
    warning that object now sits in a candidate member (and nothing else changed), with a warning nothing was
    stored, `force` was off and the member was taken. -/
theorem c10_returns_stored (T : Table) (valid strOk : Obj → Bool) (g : Gate) (parent child : Obj) (hint : Option Nat)
    (force : Bool) (o : Obj) (hr : (add T valid strOk g parent child hint force).result = .ok o) :
    o = child ∧
    ((add T valid strOk g parent child hint force).warn = none →
        ∃ m ∈ cands T parent child, StoredIn parent (add T valid strOk g parent child hint force).parent m child) ∧
    (∀ x, (add T valid strOk g parent child hint force).warn = some x →
        (add T valid strOk g parent child hint force).parent = parent ∧ force = false ∧
        ∃ m ∈ cands T parent child, Taken parent child m ∧ x = warnOf m) := by
  have hc := add_cases T valid strOk g parent child hint force
  simp only at hc
  rcases hc with ⟨_, _, h | h | h⟩ | ⟨m, hm, _, _, hsi, hw, hres⟩ | ⟨m, hm, _, ht, hf, hp, hw, hres⟩ |
      ⟨m, _, _, _, _, _, _, _, _, h⟩ | ⟨m, _, _, _, _, _, _, h | h⟩
  · rw [h] at hr; cases hr
  · rw [h] at hr; cases hr
  · rw [h] at hr; cases hr
  · rw [hres] at hr
    split at hr
    · cases hr
    · simp only [Except.ok.injEq] at hr
      exact ⟨hr.symm, fun _ => ⟨m, hm, hsi⟩, fun x hx => by rw [hw] at hx; cases hx⟩
  · rw [hres] at hr
    split at hr
    · cases hr
    · simp only [Except.ok.injEq] at hr
      refine ⟨hr.symm, fun h => (by rw [hw] at h; cases h), fun x hx => ?_⟩
      rw [hw] at hx
      simp only [Option.some.injEq] at hx
      exact ⟨hp, hf, m, hm, ht, hx.symm⟩
  · rw [h] at hr; cases hr
  · rw [h] at hr; cases hr
  · rw [h] at hr; cases hr

/-- **Raises ⇒ unchanged.** Every exception except the `ValueError` of the validation that FOLLOWS a placement
    leaves the parent exactly as it was; that `ValueError` occurs only with both switches on and reports that the
    parent as it now is does not validate. -/
theorem c10_raise_unchanged (T : Table) (valid strOk : Obj → Bool) (g : Gate) (parent child : Obj) (hint : Option Nat)
    (force : Bool) (e : Err) (hr : (add T valid strOk g parent child hint force).result = .error e) :
    (e ≠ .invalid → (add T valid strOk g parent child hint force).parent = parent) ∧
    (e = .invalid → g.on = true ∧ valid (add T valid strOk g parent child hint force).parent = false) := by
  have hc := add_cases T valid strOk g parent child hint force
  simp only at hc
  rcases hc with ⟨hp, _, h | h | h⟩ | ⟨m, _, _, _, _, _, hres⟩ | ⟨m, _, _, _, _, hp, _, hres⟩ |
      ⟨m, _, _, _, _, _, _, hp, _, h⟩ | ⟨m, _, _, _, _, hp, _, h | h⟩
  · rw [h] at hr; cases hr; exact ⟨fun _ => hp, fun h => by cases h⟩
  · rw [h] at hr; cases hr; exact ⟨fun _ => hp, fun h => by cases h⟩
  · rw [h] at hr; cases hr; exact ⟨fun _ => hp, fun h => by cases h⟩
  · rw [hres] at hr
    split at hr
    · rename_i hcond
      simp only [Except.error.injEq] at hr
      subst hr
      simp only [Bool.and_eq_true, Bool.not_eq_true'] at hcond
      exact ⟨fun h => absurd rfl h, fun _ => hcond⟩
    · cases hr
  · rw [hres] at hr
    split at hr
    · rename_i hcond
      simp only [Except.error.injEq] at hr
      subst hr
      simp only [Bool.and_eq_true, Bool.not_eq_true'] at hcond
      exact ⟨fun _ => hp, fun _ => by rw [hp]; exact hcond⟩
    · cases hr
  · rw [h] at hr; cases hr; exact ⟨fun _ => hp, fun h => by cases h⟩
  · rw [h] at hr; cases hr; exact ⟨fun _ => hp, fun h => by cases h⟩
  · rw [h] at hr; cases hr; exact ⟨fun _ => hp, fun h => by cases h⟩

/-- **At most one member, always a candidate.** In every case — return or raise — the parent afterwards is either
    exactly the parent before, or the parent with the child stored in ONE candidate member and nothing else
    altered. -/
theorem c10_exactly_one_or_nothing (T : Table) (valid strOk : Obj → Bool) (g : Gate) (parent child : Obj)
    (hint : Option Nat) (force : Bool) :
    (add T valid strOk g parent child hint force).parent = parent ∨
    ∃ m ∈ cands T parent child, StoredIn parent (add T valid strOk g parent child hint force).parent m child := by
  have hc := add_cases T valid strOk g parent child hint force
  simp only at hc
  rcases hc with ⟨hp, _⟩ | ⟨m, hm, _, _, hsi, _⟩ | ⟨m, _, _, _, _, hp, _⟩ | ⟨m, _, _, _, _, _, _, hp, _⟩ |
      ⟨m, _, _, _, _, hp, _⟩
  · exact Or.inl hp
  · exact Or.inr ⟨m, hm, hsi⟩
  · exact Or.inl hp
  · exact Or.inl hp
  · exact Or.inl hp

/-- **No other member is touched** (frame): an attribute that is not the name of a candidate member has the same
    value before and after, whatever the call did; identity and class of the parent never change. -/
theorem c10_frame (T : Table) (valid strOk : Obj → Bool) (g : Gate) (parent child : Obj) (hint : Option Nat)
    (force : Bool) :
    (add T valid strOk g parent child hint force).parent.oid = parent.oid ∧
    (add T valid strOk g parent child hint force).parent.cls = parent.cls ∧
    ∀ n, (∀ m ∈ cands T parent child, m.name ≠ n) →
      (add T valid strOk g parent child hint force).parent.get n = parent.get n := by
  rcases c10_exactly_one_or_nothing T valid strOk g parent child hint force with h | ⟨m, hm, h1, h2, h3, _⟩
  · rw [h]; exact ⟨rfl, rfl, fun _ _ => rfl⟩
  · exact ⟨h1, h2, fun n hn => h3 n (fun e => hn m hm e.symm)⟩

/-- a candidate is a member of the parent's class declared for exactly the child's class -/
theorem c10_cands_spec (T : Table) (parent child : Obj) (m : MemberSpec) :
    m ∈ cands T parent child ↔ m ∈ T.getMembers parent.cls ∧ m.dataType = child.cls := by
  simp [cands, targets]

/-! ### Histories: what the constructors establish is kept by every `add` -/

/-- `add` keeps the parent well-formed for its class (every member has an attribute; containers hold lists) … -/
theorem c10_wf_preserved (T : Table) (valid strOk : Obj → Bool) (g : Gate) (parent child : Obj) (hint : Option Nat)
    (force : Bool) (hnd : (T.memberNames parent.cls).Nodup)
    (hwf : wfFor (T.getMembers parent.cls) parent = true) :
    wfFor (T.getMembers (add T valid strOk g parent child hint force).parent.cls) (add T valid strOk g parent child hint force).parent
      = true := by
  rcases c10_exactly_one_or_nothing T valid strOk g parent child hint force with h | ⟨m, hm, h1, h2, h3, h4⟩
  · rw [h]; exact hwf
  · rw [h2]
    unfold wfFor at hwf ⊢
    rw [List.all_eq_true] at hwf ⊢
    intro x hx
    have hxw := hwf x hx
    by_cases hn : x.name = m.name
    · have hmm : m ∈ T.getMembers parent.cls := ((c10_cands_spec T parent child m).mp hm).1
      have hxm : x = m := eq_of_nodup_names hnd hx hmm hn
      subst hxm
      cases hc : x.container with
      | true =>
        simp only [hc, ↓reduceIte] at h4
        obtain ⟨l, _, hl'⟩ := h4
        rw [hl']
      | false =>
        simp only [hc, Bool.false_eq_true, ↓reduceIte] at h4
        rw [h4]; rfl
    · rw [h3 x.name hn]; exact hxw

/-- … so from a well-formed parent no call ever fails inside `__add` (`KeyError`, `AttributeError`) … -/
theorem c10_wf_no_internal_error (T : Table) (valid strOk : Obj → Bool) (g : Gate) (parent child : Obj)
    (hint : Option Nat) (force : Bool) (hwf : wfFor (T.getMembers parent.cls) parent = true) :
    (add T valid strOk g parent child hint force).result ≠ .error .keyError ∧
    (add T valid strOk g parent child hint force).result ≠ .error .notAList := by
  have hc := add_cases T valid strOk g parent child hint force
  simp only at hc
  rcases hc with ⟨_, _, h | h | h⟩ | ⟨m, _, _, _, _, _, hres⟩ | ⟨m, _, _, _, _, _, _, hres⟩ |
      ⟨m, _, _, _, _, _, _, _, _, h⟩ | ⟨m, hm, _, hns, hnt, _, _, _⟩
  · rw [h]; exact ⟨by simp, by simp⟩
  · rw [h]; exact ⟨by simp, by simp⟩
  · rw [h]; exact ⟨by simp, by simp⟩
  · rw [hres]; split <;> exact ⟨by simp, by simp⟩
  · rw [hres]; split <;> exact ⟨by simp, by simp⟩
  · rw [h]; exact ⟨by simp, by simp⟩
  · exfalso
    have hmm : m ∈ T.getMembers parent.cls := ((c10_cands_spec T parent child m).mp hm).1
    unfold wfFor at hwf
    rw [List.all_eq_true] at hwf
    have hmw := hwf m hmm
    unfold Storable at hns; unfold Taken at hnt
    cases hg : parent.get m.name with
    | none => rw [hg] at hmw; cases hmw
    | some v =>
      cases hc : m.container with
      | true =>
        rw [hg, hc] at hmw
        cases v with
        | list l =>
          simp only [hc, hg, ↓reduceIte] at hns hnt
          cases hi : pyIn true child l with
          | true => exact hnt ⟨l, rfl, hi⟩
          | false => exact hns ⟨l, rfl, Or.inr hi⟩
        | none => cases hmw
        | atom r t => cases hmw
        | node i => cases hmw
        | obj o => cases hmw
      | false =>
        simp only [hc, hg, Bool.false_eq_true, ↓reduceIte] at hns hnt
        cases ht : v.truthy with
        | true => exact hnt ⟨v, rfl, ht⟩
        | false => exact hns (Or.inr ⟨v, rfl, ht⟩)

/-- … after ANY sequence of earlier `add` calls (any children, hints, `force`, gates, outcomes): the parent is
    the same object of the same class, still well-formed. -/
theorem c10_history (T : Table) (valid strOk : Obj → Bool) : ∀ (calls : List Call) (parent : Obj),
    (T.memberNames parent.cls).Nodup → wfFor (T.getMembers parent.cls) parent = true →
    (runCalls T valid strOk parent calls).1.oid = parent.oid ∧ (runCalls T valid strOk parent calls).1.cls = parent.cls ∧
    wfFor (T.getMembers parent.cls) (runCalls T valid strOk parent calls).1 = true
  | [], parent, _, hwf => ⟨rfl, rfl, hwf⟩
  | c :: cs, parent, hnd, hwf => by
    have hf := c10_frame T valid strOk c.gate parent c.child c.hint c.force
    have hw := c10_wf_preserved T valid strOk c.gate parent c.child c.hint c.force hnd hwf
    have ih := c10_history T valid strOk cs (add T valid strOk c.gate parent c.child c.hint c.force).parent
      (by rw [hf.2.1]; exact hnd) hw
    simp only [runCalls]
    rw [hf.2.1] at ih
    exact ⟨ih.1.trans hf.1, ih.2.1, ih.2.2⟩

/-! ### The order in which `_get_members` lists the members is immaterial -/

/-- `_get_members` returns `list(set(…))`: some permutation of the chain's members. With distinct member names the
    whole outcome of `add` is the same for every permutation. -/
theorem c10_order_irrelevant (valid strOk : Obj → Bool) (g : Gate) (members members' : List MemberSpec)
    (hp : members.Perm members') (hnd : (members.map (·.name)).Nodup) (parent child : Obj) (hint : Option Nat)
    (force : Bool) :
    addWith valid strOk members g parent child hint force = addWith valid strOk members' g parent child hint force := by
  have hpt : (targets members child.cls).Perm (targets members' child.cls) := hp.filter _
  have := select_perm true hpt (targets_names_nodup child.cls hnd) hint
  simp only [addWith, addCore, this]

/-! ### Obligations on the table extracted from `nml.py` (re-checked on every run) -/

/-- class names are distinct and every base-class chain ends: `getMembers` has enough fuel -/
theorem c10_gen_chains_ok : Table.chainsOk Gen.Members.table = true := by decide +kernel

/-- along every class's chain no member name occurs twice -/
theorem c10_gen_names_nodup : Table.namesNodup Gen.Members.table = true := by decide +kernel

/-- hence, for the shipped bindings, the hash order of `_get_members` cannot influence `add` -/
theorem c10_gen_order_irrelevant (valid strOk : Obj → Bool) (g : Gate) (r : ClassRow) (hr : r ∈ Gen.Members.table)
    (members' : List MemberSpec) (hp : (Table.getMembers Gen.Members.table r.name).Perm members')
    (parent child : Obj) (hint : Option Nat) (force : Bool) :
    addWith valid strOk (Table.getMembers Gen.Members.table r.name) g parent child hint force
      = addWith valid strOk members' g parent child hint force := by
  have h := c10_gen_names_nodup
  unfold Table.namesNodup at h
  rw [List.all_eq_true] at h
  exact c10_order_irrelevant valid strOk g _ _ hp ((nodupB_iff _).mp (h r hr)) parent child hint force

/-! ### Known finding `C10:dup-not-refused:xml-loaded` — "equal" children that were loaded from XML

The property says a child *equal to one already present* is refused. The library tests `obj in list`, i.e. the
generated `__eq__`, which also compares `gds_elementtree_node_` — the lxml element a loaded component was built
from, unique per component. Two components with identical content that came from a parser therefore never compare
equal and the second one IS stored. Full statement (value equality), the strongest true restriction, witness. -/

/-- FULL statement: a child whose VALUE equals that of an element of the selected container (or any child for an
    occupied single-valued member) is refused when `force` is off -/
def c10_value_duplicate_refused_full : Prop :=
  ∀ (T : Table) (valid strOk : Obj → Bool) (g : Gate) (parent child : Obj) (hint : Option Nat) (m : MemberSpec),
    Selected T parent child hint m → TakenByValue parent child m →
    (add T valid strOk g parent child hint false).parent = parent

/-- true for every child built programmatically (no lxml element inside it) — and then with the full conclusion of
    `c10_taken_refused` -/
theorem c10_value_duplicate_refused_partial (T : Table) (valid strOk : Obj → Bool) (g : Gate) (parent child : Obj)
    (hint : Option Nat) (m : MemberSpec) (hprog : child.nodeFree = true)
    (hs : Selected T parent child hint m) (ht : TakenByValue parent child m)
    (hstr : m.container = true → strOk child = true) :
    (add T valid strOk g parent child hint false).parent = parent ∧
    (add T valid strOk g parent child hint false).warn = some (warnOf m) ∧
    ((add T valid strOk g parent child hint false).result = .ok child ∨
     (g.on = true ∧ valid parent = false ∧ (add T valid strOk g parent child hint false).result = .error .invalid)) := by
  refine c10_taken_refused_partial T valid strOk g parent child hint m hs ?_ hstr
  unfold TakenByValue at ht; unfold Taken
  cases hc : m.container with
  | true =>
    simp only [hc, ↓reduceIte] at ht ⊢
    obtain ⟨l, hl, hi⟩ := ht
    exact ⟨l, hl, by rw [pyIn_nodeFree child l hprog]; exact hi⟩
  | false =>
    simp only [hc, Bool.false_eq_true, ↓reduceIte] at ht ⊢
    exact ht

/-! #### Concrete instances: the hypotheses above are satisfiable; the witness of the finding

`T0`: class 0 (`Gate`-like) has two single-valued members 10, 11 for class 1 and a container 12 for class 2;
class 3 derives from class 0 and adds a container 13 for class 1; member/attribute 99 plays `gds_elementtree_node_`. -/
namespace Ex

def m10 : MemberSpec := ⟨10, 1, false, false⟩
def m11 : MemberSpec := ⟨11, 1, false, false⟩
def m12 : MemberSpec := ⟨12, 2, true, true⟩
def m13 : MemberSpec := ⟨13, 1, true, true⟩
def T0 : Table := [⟨0, none, [m10, m11, m12]⟩, ⟨1, none, []⟩, ⟨2, none, []⟩, ⟨3, some 0, [m13]⟩]
def gate0 : Obj := .mk 100 0 [(10, .none), (11, .none), (12, .list [])]
def rate (oid : Nat) (v : String) : Obj := .mk oid 1 [(20, .atom v true), (99, .none)]
def note (oid : Nat) (v : String) : Obj := .mk oid 2 [(20, .atom v true), (99, .none)]
/-- a note as a parser delivers it: attribute 99 holds the lxml element -/
def loadedNote (oid node : Nat) (v : String) : Obj := .mk oid 2 [(20, .atom v true), (99, .node node)]
def off : Gate := ⟨true, false⟩
def on : Gate := ⟨true, true⟩
/-- gate with one note stored and the forward rate occupied -/
def gate1 : Obj := .mk 100 0 [(10, .obj (rate 1 "a")), (11, .none), (12, .list [.obj (note 2 "n")])]
def gateLoaded : Obj := .mk 100 0 [(10, .none), (11, .none), (12, .list [.obj (loadedNote 2 7 "n")])]

-- c10_unique_stores: unique candidate, free slot
example : cands T0 gate0 (note 2 "n") = [m12] ∧ Storable gate0 (note 2 "n") m12 false :=
  ⟨by decide, ⟨[], rfl, Or.inr rfl⟩⟩
example : (add T0 (fun _ => true) (fun _ => true) on gate0 (note 2 "n") none false).parent.get 12 = some (.list [.obj (note 2 "n")]) :=
  rfl
-- c10_hint_selects / c10_hint_selects_first: two candidates, the hint names the second
example : 2 ≤ (cands T0 gate0 (rate 1 "a")).length ∧ (T0.memberNames gate0.cls).Nodup ∧
    m11 ∈ cands T0 gate0 (rate 1 "a") ∧ m11.name = 11 ∧ Storable gate0 (rate 1 "a") m11 false ∧
    (cands T0 gate0 (rate 1 "a")).find? (fun x => x.name == 11) = some m11 :=
  ⟨by decide, by decide, by decide, rfl, Or.inr ⟨.none, rfl, rfl⟩, by decide⟩
-- c10_no_target_raises
example : cands T0 gate0 gate0 = [] := by decide
-- c10_ambiguous_raises / c10_bad_hint_raises: hint 12 is a member name of the parent, but not a candidate
example : 2 ≤ (cands T0 gate0 (rate 1 "a")).length ∧ ∀ m ∈ cands T0 gate0 (rate 1 "a"), m.name ≠ 12 := by decide
-- c10_taken_refused_partial / c10_taken_forced / c10_taken_str_raises: occupied single-valued member (by hint), equal note in the container
example : Selected T0 gate1 (rate 5 "b") (some 10) m10 ∧ Taken gate1 (rate 5 "b") m10 :=
  ⟨by unfold Selected; rfl, ⟨_, rfl, rfl⟩⟩
example : Selected T0 gate1 (note 6 "n") none m12 ∧ Taken gate1 (note 6 "n") m12 :=
  ⟨by unfold Selected; rfl, ⟨_, rfl, by decide⟩⟩
-- c10_returns_stored / c10_raise_unchanged: both kinds of result occur, incl. the ValueError after a placement
example : (add T0 (fun _ => true) (fun _ => true) on gate0 (note 2 "n") none false).result = .ok (note 2 "n") ∧
    (add T0 (fun _ => true) (fun _ => true) on gate0 (note 2 "n") none false).warn = none := ⟨rfl, rfl⟩
example : (add T0 (fun _ => true) (fun _ => true) on gate1 (note 6 "n") none false).result = .ok (note 6 "n") ∧
    (add T0 (fun _ => true) (fun _ => true) on gate1 (note 6 "n") none false).warn = some .duplicate := ⟨rfl, rfl⟩
example : (add T0 (fun _ => false) (fun _ => true) on gate0 (note 2 "n") none false).result = .error .invalid ∧
    (add T0 (fun _ => false) (fun _ => true) on gate0 (note 2 "n") none false).parent.get 12 = some (.list [.obj (note 2 "n")]) :=
  ⟨rfl, rfl⟩
example : (add T0 (fun _ => true) (fun _ => true) on gate0 (rate 1 "a") none false).result = .error .ambiguous := rfl
-- c10_wf_preserved / c10_history / c10_wf_no_internal_error: a derived class, inherited members included
example : (T0.memberNames 3).Nodup ∧ T0.getMembers 3 = [m13, m10, m11, m12] ∧
    wfFor (T0.getMembers 3) (.mk 7 3 [(10, .none), (11, .none), (12, .list []), (13, .list [])]) = true := by decide
-- c10_order_irrelevant
example : [m10, m11, m12].Perm [m12, m10, m11] ∧ ([m10, m11, m12].map (·.name)).Nodup := by decide
-- c10_value_duplicate_refused_partial
example : (note 6 "n").nodeFree = true ∧ TakenByValue gate1 (note 6 "n") m12 := ⟨by decide, ⟨_, rfl, by decide⟩⟩

end Ex

/-- WITNESS (`C10:dup-warning-raises`): an equal note is in the container, `force` is off, `str(child)` raises:
    no warning is issued and the call raises instead of returning the child. -/
theorem c10_taken_refused_witness : ¬ c10_taken_refused_full := by
  intro h
  have h1 := (h Ex.T0 (fun _ => true) (fun _ => false) Ex.off Ex.gate1 (Ex.note 6 "n") none Ex.m12
    (by unfold Selected; rfl) ⟨_, rfl, by decide⟩).2.1
  rw [c10_taken_str_raises Ex.T0 (fun _ => true) (fun _ => false) Ex.off Ex.gate1 (Ex.note 6 "n") none Ex.m12
    (by unfold Selected; rfl) ⟨_, rfl, by decide⟩ rfl rfl] at h1
  cases h1

/-- WITNESS: two notes with identical content, each loaded from XML (distinct lxml elements 7 and 8): the second
    one is value-equal to the stored one, `force` is off — and it is stored all the same. -/
theorem c10_value_duplicate_refused_witness : ¬ c10_value_duplicate_refused_full := by
  intro h
  have h1 := h Ex.T0 (fun _ => true) (fun _ => true) Ex.off Ex.gateLoaded (Ex.loadedNote 3 8 "n") none Ex.m12
    (by unfold Selected; rfl) ⟨_, rfl, by decide⟩
  -- the container now has two elements
  have h2 := congrArg (fun o => match Obj.get o 12 with | some (.list l) => l.length | _ => 0) h1
  exact absurd h2 (by decide)

end NmlVerif.Add
