import NmlVerif.Props.C10
import NmlVerif.Proofs.AddIR
/-!
# C10 — the two open findings and their proposed repairs, as theorems

`__add` has two spots the open findings are about (`Model/AddIR.lean`): how it decides that a child "already exists"
in a list member (`DupTest`) and how it gets the text of the duplicate warning (`WarnFmt`).  `addX d w bk` is the model
of `add` with the two spots in form `d`, `w` (`addX .generatedEq .strObj = add`, today's code: `addX_today`);
`Props/C10Gen.lean` proves that the translated source computes `addX dupTest warnFmt` for the forms it has.

* `C10:dup-warning-raises:str` — `c10_refused_fullX w`: a taken member and no `force` ⇒ parent unchanged, the warning
  is issued, the child is returned.  True for `w = .guarded` (`fixes/C10-add-dup-warning-str.patch`), false for
  `w = .strObj` (today).
* `C10:dup-not-refused:xml-loaded` — `c10_content_duplicate_fullX d`: a child whose CONTENTS (everything except the
  book-keeping attributes `bk`) equal those of an element of the selected list is not stored when `force` is off.
  True for `d = .sameContents` (`fixes/C10-add-dup-by-contents.patch`), false for `d = .generatedEq` (today).
-/
namespace NmlVerif.Add
open NmlVerif

/-- `add` with the two spots of `__add` in form `d`, `w`; `bk` = the attributes `__same_contents` leaves out -/
def addX (d : DupTest) (w : WarnFmt) (bk : List Nat) (T : Table) (valid strOk : Obj → Bool) (g : Gate)
    (parent child : Obj) (hint : Option Nat) (force : Bool) : Outcome :=
  addCoreX d w bk valid strOk (T.getMembers parent.cls) g parent child hint force

theorem addX_today (bk : List Nat) (T : Table) (valid strOk : Obj → Bool) (g : Gate) (parent child : Obj)
    (hint : Option Nat) (force : Bool) :
    addX .generatedEq .strObj bk T valid strOk g parent child hint force = add T valid strOk g parent child hint force :=
  addCoreX_generated bk valid strOk _ g parent child hint force

/-- the selected member is taken, "equal" being what the duplicate test `d` says -/
def TakenX (d : DupTest) (bk : List Nat) (parent child : Obj) (m : MemberSpec) : Prop :=
  if m.container then ∃ l, parent.get m.name = some (.list l) ∧ dupIn d bk child l = true
  else ∃ v, parent.get m.name = some v ∧ v.truthy = true

theorem takenX_generated (bk : List Nat) (parent child : Obj) (m : MemberSpec) :
    TakenX .generatedEq bk parent child m ↔ Taken parent child m := by
  unfold TakenX Taken dupIn
  rfl

theorem addX_eq_of_select (d : DupTest) (w : WarnFmt) (bk : List Nat) (T : Table) (valid strOk : Obj → Bool) (g : Gate)
    (parent child : Obj) (hint : Option Nat) (force : Bool) (m : MemberSpec) (hs : Selected T parent child hint m) :
    addX d w bk T valid strOk g parent child hint force =
      match placeX d w bk (strOk child) parent child m force with
      | .error e => ⟨parent, none, .error e⟩
      | .ok (p', w') => ⟨p', w', if g.on && !valid p' then .error .invalid else .ok child⟩ := by
  unfold Selected cands at hs
  simp only [addX, addCoreX, hs]
  rfl

theorem placeX_taken (d : DupTest) (w : WarnFmt) (bk : List Nat) (sOk : Bool) {parent child : Obj} {m : MemberSpec}
    (h : TakenX d bk parent child m) (hs : m.container = true → (sOk || w == .guarded) = true) :
    placeX d w bk sOk parent child m false = .ok (parent, some (warnOf m)) := by
  unfold TakenX at h
  cases hc : m.container with
  | true =>
    simp only [hc, ↓reduceIte] at h
    obtain ⟨l, hl, hi⟩ := h
    simp [placeX, hc, hl, hi, hs hc, warnOf]
  | false =>
    simp only [hc, Bool.false_eq_true, ↓reduceIte] at h
    obtain ⟨v, hv, ht⟩ := h
    simp [placeX, hc, hv, ht, warnOf]

theorem placeX_taken_strFails (d : DupTest) (bk : List Nat) {parent child : Obj} {m : MemberSpec}
    (h : TakenX d bk parent child m) (hc : m.container = true) :
    placeX d .strObj bk false parent child m false = .error .strFails := by
  unfold TakenX at h
  simp only [hc, ↓reduceIte] at h
  obtain ⟨l, hl, hi⟩ := h
  simp [placeX, hc, hl, hi]

/-! ### the duplicate warning (`C10:dup-warning-raises:str`) -/

/-- FULL statement, for a form `w` of the warning text: taken and not forced ⇒ parent unchanged, warning issued, the
    child returned (unless the validation of the unchanged parent raises) — whatever `str(child)` does -/
def c10_refused_fullX (w : WarnFmt) : Prop :=
  ∀ (d : DupTest) (bk : List Nat) (T : Table) (valid strOk : Obj → Bool) (g : Gate) (parent child : Obj)
    (hint : Option Nat) (m : MemberSpec), Selected T parent child hint m → TakenX d bk parent child m →
    (addX d w bk T valid strOk g parent child hint false).parent = parent ∧
    (addX d w bk T valid strOk g parent child hint false).warn = some (warnOf m) ∧
    ((addX d w bk T valid strOk g parent child hint false).result = .ok child ∨
     (g.on = true ∧ valid parent = false ∧
      (addX d w bk T valid strOk g parent child hint false).result = .error .invalid))

/-- with the text obtained under `try … except Exception` the full statement HOLDS -/
theorem c10_refused_guarded : c10_refused_fullX .guarded := by
  intro d bk T valid strOk g parent child hint m hs ht
  rw [addX_eq_of_select d .guarded bk T valid strOk g parent child hint false m hs,
    placeX_taken d .guarded bk (strOk child) ht (by intro _; simp)]
  refine ⟨rfl, rfl, ?_⟩
  cases hg : g.on <;> cases hv : valid parent <;> simp [hv]

/-- with `.format(obj, …)` it does not (today's code): `str(child)` raising turns the refusal into an exception -/
theorem c10_refused_strObj_witness : ¬ c10_refused_fullX .strObj := by
  intro h
  have hsel : Selected Ex.T0 Ex.gate1 (Ex.note 6 "n") none Ex.m12 := by unfold Selected; rfl
  have htk : TakenX .generatedEq [] Ex.gate1 (Ex.note 6 "n") Ex.m12 :=
    (takenX_generated [] _ _ _).mpr ⟨_, rfl, by decide⟩
  have h1 := (h .generatedEq [] Ex.T0 (fun _ => true) (fun _ => false) Ex.off Ex.gate1 (Ex.note 6 "n") none Ex.m12
    hsel htk).2.1
  rw [addX_eq_of_select _ _ _ _ _ _ _ _ _ _ _ _ hsel, placeX_taken_strFails .generatedEq [] htk rfl] at h1
  cases h1

/-! ### duplicates by contents (`C10:dup-not-refused:xml-loaded`) -/

/-- an element of the selected list has the same CONTENTS as the child: same type, same attributes in the same order
    with the same contents, the book-keeping attributes `bk` (parent, collector, XML node, tag) left out at every
    level; single-valued member: occupied -/
def ContentTaken (bk : List Nat) (parent child : Obj) (m : MemberSpec) : Prop :=
  if m.container then ∃ l, parent.get m.name = some (.list l) ∧ l.any (fun x => sameContents bk (.obj child) x) = true
  else ∃ v, parent.get m.name = some v ∧ v.truthy = true

/-- FULL statement, for a form `d` of the duplicate test: a child equal IN CONTENTS to one already present is not
    stored when `force` is off -/
def c10_content_duplicate_fullX (d : DupTest) : Prop :=
  ∀ (w : WarnFmt) (bk : List Nat) (T : Table) (valid strOk : Obj → Bool) (g : Gate) (parent child : Obj)
    (hint : Option Nat) (m : MemberSpec), Selected T parent child hint m → ContentTaken bk parent child m →
    (addX d w bk T valid strOk g parent child hint false).parent = parent

theorem placeX_parent_of_taken (d : DupTest) (w : WarnFmt) (bk : List Nat) (sOk : Bool) {parent child : Obj}
    {m : MemberSpec} (h : TakenX d bk parent child m) :
    (match placeX d w bk sOk parent child m false with
     | .error _ => parent
     | .ok (p', _) => p') = parent := by
  unfold TakenX at h
  cases hc : m.container with
  | true =>
    simp only [hc, ↓reduceIte] at h
    obtain ⟨l, hl, hi⟩ := h
    cases hh : (sOk || w == .guarded) <;> simp [placeX, hc, hl, hi, hh]
  | false =>
    simp only [hc, Bool.false_eq_true, ↓reduceIte] at h
    obtain ⟨v, hv, ht⟩ := h
    simp [placeX, hc, hv, ht]

/-- comparing by contents the full statement HOLDS (whatever the warning does) -/
theorem c10_content_duplicate_sameContents : c10_content_duplicate_fullX .sameContents := by
  intro w bk T valid strOk g parent child hint m hs ht
  have htx : TakenX .sameContents bk parent child m := ht
  rw [addX_eq_of_select .sameContents w bk T valid strOk g parent child hint false m hs]
  have := placeX_parent_of_taken .sameContents w bk (strOk child) htx
  cases hp : placeX .sameContents w bk (strOk child) parent child m false with
  | error e => rfl
  | ok pw => obtain ⟨p', w'⟩ := pw; rw [hp] at this; exact this

/-- and with both repairs the refusal is complete: unchanged, warned, returned -/
theorem c10_content_duplicate_repaired (bk : List Nat) (T : Table) (valid strOk : Obj → Bool) (g : Gate)
    (parent child : Obj) (hint : Option Nat) (m : MemberSpec) (hs : Selected T parent child hint m)
    (ht : ContentTaken bk parent child m) :
    (addX .sameContents .guarded bk T valid strOk g parent child hint false).parent = parent ∧
    (addX .sameContents .guarded bk T valid strOk g parent child hint false).warn = some (warnOf m) ∧
    ((addX .sameContents .guarded bk T valid strOk g parent child hint false).result = .ok child ∨
     (g.on = true ∧ valid parent = false ∧
      (addX .sameContents .guarded bk T valid strOk g parent child hint false).result = .error .invalid)) :=
  c10_refused_guarded .sameContents bk T valid strOk g parent child hint m hs ht

/-- comparing with the generated `__eq__` it does not (today's code): two notes with identical contents, each loaded
    from XML (attribute 99 = `gds_elementtree_node_` holds distinct lxml elements 7 and 8) -/
theorem c10_content_duplicate_generatedEq_witness : ¬ c10_content_duplicate_fullX .generatedEq := by
  intro h
  have h1 := h .strObj [99] Ex.T0 (fun _ => true) (fun _ => true) Ex.off Ex.gateLoaded (Ex.loadedNote 3 8 "n") none Ex.m12
    (by unfold Selected; rfl) ⟨_, rfl, by decide⟩
  have h2 := congrArg (fun o => match Obj.get o 12 with | some (.list l) => l.length | _ => 0) h1
  exact absurd h2 (by decide)

/-- a loaded component and a programmatically built one with the same values are equal in contents too (the node is
    `None` on one side, an element on the other): the old "ignore lxml nodes" reading (`pyEq false`) missed this -/
example : sameContents [99] (.obj (Ex.loadedNote 3 8 "n")) (.obj (Ex.note 4 "n")) = true ∧
    pyEq false (.obj (Ex.loadedNote 3 8 "n")) (.obj (Ex.note 4 "n")) = false := by decide

/-- identity is enough for every form of the test: the SAME object is never appended twice without `force`,
    whatever it contains (an XML-loaded component too) -/
theorem c10_same_object_taken (d : DupTest) (bk : List Nat) (parent child : Obj) (m : MemberSpec) (l : List Val)
    (hc : m.container = true) (hg : parent.get m.name = some (.list l)) (hmem : Val.obj child ∈ l) :
    TakenX d bk parent child m := by
  unfold TakenX
  simp only [hc, ↓reduceIte]
  refine ⟨l, hg, ?_⟩
  have hrefl : ∀ (s : Bool) (o : Obj), pyEq s (.obj o) (.obj o) = true := by
    intro s o; cases o; simp [pyEq, objEq]
  cases d with
  | generatedEq =>
    simp only [dupIn, pyIn, List.any_eq_true]
    exact ⟨_, hmem, hrefl true child⟩
  | sameContents =>
    simp only [dupIn, List.any_eq_true]
    refine ⟨_, hmem, ?_⟩
    simp only [sameContents, Val.strip]
    exact hrefl true _

/-- hypotheses satisfiable: the stored note, found again by identity although it carries an lxml node -/
example : TakenX .generatedEq [] Ex.gateLoaded (Ex.loadedNote 2 7 "n") Ex.m12 :=
  c10_same_object_taken .generatedEq [] _ _ Ex.m12 [.obj (Ex.loadedNote 2 7 "n")] rfl rfl (by simp)

/-! ### Python's `==` on plain values crosses types -/

/-- `1 == 1.0 == True`, `0.0 == -0.0`, `'1' != 1`: two children that differ only in the TYPE of a number are equal
    for `add` (the harness feeds such pairs: stream neareq, kind `simple-crosstype`) -/
example : atomEq "int:1" "float:1.0=1/1" = true ∧ atomEq "int:1" "bool:True" = true ∧
    atomEq "float:0.0=0/1" "float:-0.0=0/1" = true ∧ atomEq "str:'1'" "int:1" = false ∧
    atomEq "float:0.5=1/2" "float:0.25=1/4" = false ∧ atomEq "int:-3" "float:-3.0=-3/1" = true := by decide

theorem atomEq_refl (r : String) : atomEq r r = true := by
  unfold atomEq
  cases atomNum r with
  | none => simp
  | some p => obtain ⟨n, d⟩ := p; simp

end NmlVerif.Add
