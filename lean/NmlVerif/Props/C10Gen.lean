import NmlVerif.Proofs.AddIR
import NmlVerif.Proofs.GetMembersIR
import NmlVerif.Gen.AddImpl
import NmlVerif.Gen.Members
/-!
# C10 — the methods as the translator reads them compute what the hand model computes

`translators/py2lean_add.py` regenerates `Gen/AddImpl.lean` from `neuroml/nml/generatedssupersuper.py` (and the
shape of `GeneratedsSuper.__eq__` from `neuroml/nml/nml.py`) on every run: the bodies of `add`, `__add` and
`_get_members`, statement by statement, in the vocabularies of `Model/AddIR.lean` / `Model/GetMembersIR.lean`.

* `c10_gen_*_shape` (by `rfl`, re-checked against the regenerated file on every run): the translated bodies ARE the
  reference programs — for the duplicate test / warning text the translator found (`dupTest`, `warnFmt`: the two
  repairs proposed for the open findings change exactly these two spots of `__add`).
* `c10_gen_add` (a proof over every state): running the translated `add` on a component instance gives exactly the
  outcome of the hand model `addCoreX dupTest warnFmt …` (`= addCore` = `Model/Add.lean` for today's source,
  `c10_ir_add_today`), for every member list, parent, child, hint, `force`, gate and `validate()` verdict.
* `c10_gen_get_members*`: the translated `_get_members` returns the chain's member list of `Model/Members.lean`
  (`Table.getMembers`) on the first call and on every later call, whatever classes were asked before and whichever
  class ended up carrying the `__all_members_` dict (`c10_gen_get_members_history`).
-/
namespace NmlVerif.Add
open NmlVerif IR

/-! ### shape (syntactic, per run) -/

theorem c10_gen_place_shape : Gen.AddImpl.place = refPlace Gen.AddImpl.dupTest Gen.AddImpl.warnFmt := rfl

theorem c10_gen_add_shape : Gen.AddImpl.add = refAdd Gen.AddImpl.place := rfl

theorem c10_gen_get_members_shape : Gen.AddImpl.getMembers = GM.refGetMembers := rfl

theorem c10_gen_params :
    Gen.AddImpl.addParams = ["self", "obj", "hint", "force", "validate"] ∧
    Gen.AddImpl.placeParams = ["self", "obj", "member", "force"] ∧
    Gen.AddImpl.getMembersParams = ["cls"] := by decide

/-- the generated `__eq__` leaves out exactly the two attributes the harness leaves out when it serialises a
    component for the model (`EXCL` in `harness/props/c10.py`) -/
theorem c10_gen_eq_excluded : Gen.AddImpl.eqExcluded = ["parent_object_", "gds_collector_"] := by decide

/-- the repair's `book_keeping` tuple is consistent with the form of the duplicate test -/
theorem c10_gen_book_keeping :
    (Gen.AddImpl.dupTest = .generatedEq → Gen.AddImpl.bookKeeping = []) ∧
    (Gen.AddImpl.dupTest = .sameContents →
      Gen.AddImpl.bookKeeping = ["parent_object_", "gds_collector_", "gds_elementtree_node_", "original_tagname_"]) := by
  decide

/-! ### `add` / `__add` (semantic, for all states) -/

/-- `__add` as translated agrees with the hand model's `placeX` on every frame -/
theorem c10_gen_place (env : Env) (σ : Locals) (m : MemberSpec) (hm : σ.member = some m) :
    PlaceAgrees σ (placeX Gen.AddImpl.dupTest Gen.AddImpl.warnFmt env.skip (env.strOk σ.obj) σ.self σ.obj m σ.force)
      (Gen.AddImpl.place env σ) := by
  rw [c10_gen_place_shape]
  exact refPlace_agrees _ _ env σ m hm

/-- **generated = model**: the translated `add`, run on a component instance from any parent state, yields exactly
    the hand model's outcome (parent afterwards, warning, returned object / exception) -/
theorem c10_gen_add (env : Env) (hk : env.kind = .component) (parent child : Obj) (hint : Option Nat)
    (force validate : Bool) :
    outcomeOf (Gen.AddImpl.add env (start parent child hint force validate))
      = some (addCoreX Gen.AddImpl.dupTest Gen.AddImpl.warnFmt env.skip env.valid env.strOk env.members
                ⟨env.enabled, validate⟩ parent child hint force) := by
  rw [c10_gen_add_shape, c10_gen_place_shape]
  exact refAdd_outcome _ _ env hk parent child hint force validate

/-- with the two spots of `__add` as they are today that outcome is `Model/Add.lean`'s `add`, the model all theorems of
    `Props/C10.lean` are about (today's `Gen/AddImpl.lean` has `dupTest = .generatedEq`, `warnFmt = .strObj`) -/
theorem c10_ir_add_today (T : Table) (valid strOk : Obj → Bool) (g : Gate) (skip : List Nat) (parent child : Obj)
    (hint : Option Nat) (force : Bool) :
    outcomeOf (refAdd (refPlace .generatedEq .strObj) ⟨T.getMembers parent.cls, valid, strOk, .component, g.enabled, skip⟩
        (start parent child hint force g.validate))
      = some (add T valid strOk g parent child hint force) := by
  rw [refAdd_outcome _ _ _ rfl, addCoreX_generated]
  rfl

/-- the same for any form of the two spots, stated with the generalised model -/
theorem c10_ir_add (d : DupTest) (w : WarnFmt) (env : Env) (hk : env.kind = .component) (parent child : Obj)
    (hint : Option Nat) (force validate : Bool) :
    outcomeOf (refAdd (refPlace d w) env (start parent child hint force validate))
      = some (addCoreX d w env.skip env.valid env.strOk env.members ⟨env.enabled, validate⟩ parent child hint force) :=
  refAdd_outcome d w env hk parent child hint force validate

/-- `add(None)` / `add(<class or name>)` leave the subject of C10 (`info()` / `component_factory`: property C09) -/
theorem c10_gen_add_other_kinds (env : Env) (hk : env.kind ≠ .component) (σ : Locals) :
    outcomeOf (Gen.AddImpl.add env σ) = none := by
  rw [c10_gen_add_shape, refAdd_unfold]
  cases hkind : env.kind with
  | component => exact absurd hkind hk
  | falsy =>
    have h : ifC objFalsy (block [callInfo, retNone]) env σ = .outside := by
      simp [ifC, ifElse, objFalsy, hkind, block, seq, callInfo]
    simp [seq, h, outcomeOf]
  | typeOrStr =>
    have h1 : ifC objFalsy (block [callInfo, retNone]) env σ = .normal σ :=
      ifC_false (by simp [objFalsy, hkind])
    have h2 : ifC objIsTypeOrStr (block [factoryAssign]) env σ = .outside := by
      simp [ifC, ifElse, objIsTypeOrStr, hkind, block, seq, factoryAssign]
    rw [seq_normal h1]
    simp [seq, h2, outcomeOf]

/-! ### `_get_members` -/

/-- one call on a class of the table, whatever `__all_members_` dicts exist (and on whichever classes), provided
    their entries are sound: returns what the method computes from scratch, keeps the dicts sound -/
theorem c10_gen_get_members (T : Table) (roots : List Nat) (ds : List (Nat × GM.Dict)) (c : Nat) (r : ClassRow)
    (hr : T.row? c = some r) (hs : GM.Sound T roots ds) :
    ∃ σ', GM.call Gen.AddImpl.getMembers T roots ds c = .returned σ' (GM.expected T roots c) ∧
      GM.Sound T roots σ'.dicts := by
  rw [c10_gen_get_members_shape]
  exact GM.call_sound T roots ds c r hr hs

/-- **after any sequence of earlier `_get_members()` calls** (any classes of the table, in any order, repeated,
    starting without any cache): every call returns the same list for its class — the per-class cache, shared with
    derived classes through class-attribute lookup, never serves a wrong or stale entry -/
theorem c10_gen_get_members_history (T : Table) (roots : List Nat) (cs : List Nat)
    (hc : ∀ c ∈ cs, (T.row? c).isSome = true) :
    GM.runCalls Gen.AddImpl.getMembers T roots [] cs = cs.map (fun c => some (GM.expected T roots c)) := by
  rw [c10_gen_get_members_shape]
  exact GM.runCalls_sound T roots cs [] (GM.sound_nil T roots) hc

/-- … and that list is, member for member and in chain order, `Table.getMembers` of the hand model, as soon as no
    member name occurs twice along the class's chain -/
theorem c10_gen_get_members_spec (T : Table) (roots : List Nat) (c : Nat) (r : ClassRow) (hr : T.row? c = some r)
    (hnd : (T.memberNames c).Nodup) : (GM.expected T roots c).map (·.spec) = T.getMembers c :=
  GM.expected_spec T roots c r hr hnd

/-- for the shipped table that holds for every class (`namesNodup` is decided by the kernel on every run) -/
theorem c10_gen_get_members_table (roots : List Nat) (r : ClassRow) (hr : r ∈ Gen.Members.table) :
    (GM.expected Gen.Members.table roots r.name).map (·.spec) = Table.getMembers Gen.Members.table r.name := by
  have hn : Table.namesNodup Gen.Members.table = true := by decide +kernel
  have hc : Table.chainsOk Gen.Members.table = true := by decide +kernel
  unfold Table.namesNodup at hn
  rw [List.all_eq_true] at hn
  have hnd := (nodupB_iff _).mp (hn r hr)
  -- class names are distinct, so looking the name up finds a row (possibly another one with the same name: none)
  cases hrow : Table.row? Gen.Members.table r.name with
  | none =>
    have := List.find?_eq_none.mp hrow r hr
    simp at this
  | some r' => exact GM.expected_spec _ roots r.name r' hrow hnd

/-! ### non-vacuity: a derived class asks first, then its base, then the derived class again -/
namespace ExGM
def T1 : Table := [⟨0, none, [⟨10, 1, false, false⟩, ⟨11, 1, true, true⟩]⟩, ⟨1, none, []⟩, ⟨2, some 0, [⟨12, 1, true, true⟩]⟩]
example : GM.runCalls Gen.AddImpl.getMembers T1 [100, 101, 102] [] [2, 0, 2, 1]
    = [2, 0, 2, 1].map (fun c => some (GM.expected T1 [100, 101, 102] c)) :=
  c10_gen_get_members_history T1 _ _ (by decide)
example : (GM.expected T1 [100, 101, 102] 2).map (·.spec) = [⟨12, 1, true, true⟩, ⟨10, 1, false, false⟩, ⟨11, 1, true, true⟩] := by
  decide
example : T1.row? 2 = some ⟨2, some 0, [⟨12, 1, true, true⟩]⟩ ∧ (T1.memberNames 2).Nodup := by decide
end ExGM

end NmlVerif.Add
