import NmlVerif.Props.C10
/-!
# C10 — histories: what any sequence of `add()` calls can and cannot do to a parent

"after any sequence of earlier add() calls": `Props/C10.lean` states every clause for an arbitrary parent state and
shows (`c10_history`) that the constructor's invariant survives every history.  Here: what the member lists look like
after a history.

* `c10_history_lists`: a list-valued member is only ever APPENDED to, in call order, and only with children that were
  handed to `add` and whose class is the member's declared type — nothing is removed, reordered, or put under a member
  declared for another type, whatever hints / `force` / gates / failures occurred in between.
* `c10_typed_preserved`, `c10_history_typed`: "in no other": if every component held by a component-typed member has
  the member's declared class (true of a freshly constructed parent), that is still so after any history.
* `c10_invalid_keeps_child`: the one raise that does NOT leave the parent unchanged — the validation that FOLLOWS a
  placement (both switches on): the child stays stored.  The statement's "raises and the parent is unchanged" is about
  the cases where no (unique) member can be determined (`c10_no_target_raises`, `c10_ambiguous_raises`,
  `c10_bad_hint_raises`); this case is outside it and is pinned here so that a change of it is seen.
-/
namespace NmlVerif.Add
open NmlVerif

/-- the validation that follows a placement raises `ValueError` when the parent as it NOW is does not validate; the
    child has been stored and stays stored -/
theorem c10_invalid_keeps_child (T : Table) (valid strOk : Obj → Bool) (g : Gate) (parent child : Obj) (hint : Option Nat)
    (force : Bool) (m : MemberSpec) (hs : Selected T parent child hint m) (hst : Storable parent child m force)
    (hon : g.on = true) (hinv : valid (add T valid strOk g parent child hint force).parent = false) :
    (add T valid strOk g parent child hint force).result = .error .invalid ∧
    StoredIn parent (add T valid strOk g parent child hint force).parent m child := by
  have hst' := (add_stores T valid strOk g parent child hint force m hs hst).1
  refine ⟨?_, hst'⟩
  have he := add_eq_of_select T valid strOk g parent child hint force m hs
  obtain ⟨p', hp, _⟩ := place_storable (strOk child) hst
  rw [hp] at he
  rw [he] at hinv ⊢
  simp only at hinv ⊢
  simp [hon, hinv]

example : Selected Ex.T0 Ex.gate0 (Ex.note 2 "n") none Ex.m12 ∧ Storable Ex.gate0 (Ex.note 2 "n") Ex.m12 false ∧
    Ex.on.on = true :=
  ⟨by unfold Selected; rfl, ⟨[], rfl, Or.inr rfl⟩, rfl⟩

/-! ### list members only grow, by children of the declared type -/

theorem c10_step_list (T : Table) (valid strOk : Obj → Bool) (g : Gate) (parent child : Obj) (hint : Option Nat)
    (force : Bool) (m : MemberSpec) (l : List Val) (hnd : (T.memberNames parent.cls).Nodup)
    (hm : m ∈ T.getMembers parent.cls) (hc : m.container = true) (hg : parent.get m.name = some (.list l)) :
    (add T valid strOk g parent child hint force).parent.get m.name = some (.list l) ∨
    ((add T valid strOk g parent child hint force).parent.get m.name = some (.list (l ++ [.obj child])) ∧
      child.cls = m.dataType) := by
  rcases c10_exactly_one_or_nothing T valid strOk g parent child hint force with h | ⟨m', hm', _, _, h3, h4⟩
  · rw [h]; exact Or.inl hg
  · have hspec := (c10_cands_spec T parent child m').mp hm'
    by_cases hn : m.name = m'.name
    · have hmm : m = m' := eq_of_nodup_names hnd hm hspec.1 hn
      subst hmm
      simp only [hc, ↓reduceIte] at h4
      obtain ⟨l', hl', hl''⟩ := h4
      rw [hg] at hl'
      cases hl'
      exact Or.inr ⟨hl'', hspec.2.symm⟩
    · rw [h3 m.name hn]; exact Or.inl hg

/-- **after any sequence of calls** a list member holds what it held before, followed by some of the children given
    to `add`, in call order, each of the member's declared class -/
theorem c10_history_lists (T : Table) (valid strOk : Obj → Bool) : ∀ (calls : List Call) (parent : Obj) (m : MemberSpec)
    (l : List Val), (T.memberNames parent.cls).Nodup → m ∈ T.getMembers parent.cls → m.container = true →
    parent.get m.name = some (.list l) →
    ∃ added : List Obj, (runCalls T valid strOk parent calls).1.get m.name = some (.list (l ++ added.map Val.obj)) ∧
      added.Sublist (calls.map (·.child)) ∧ ∀ x ∈ added, x.cls = m.dataType
  | [], parent, m, l, _, _, _, hg => ⟨[], by simpa [runCalls] using hg, List.Sublist.refl _, by simp⟩
  | c :: cs, parent, m, l, hnd, hm, hc, hg => by
    have hf := c10_frame T valid strOk c.gate parent c.child c.hint c.force
    have hnd' : (T.memberNames (add T valid strOk c.gate parent c.child c.hint c.force).parent.cls).Nodup := by
      rw [hf.2.1]; exact hnd
    have hm' : m ∈ T.getMembers (add T valid strOk c.gate parent c.child c.hint c.force).parent.cls := by
      rw [hf.2.1]; exact hm
    simp only [runCalls]
    rcases c10_step_list T valid strOk c.gate parent c.child c.hint c.force m l hnd hm hc hg with h | ⟨h, hcls⟩
    · obtain ⟨added, h1, h2, h3⟩ := c10_history_lists T valid strOk cs _ m l hnd' hm' hc h
      exact ⟨added, h1, by simpa using h2.cons c.child, h3⟩
    · obtain ⟨added, h1, h2, h3⟩ := c10_history_lists T valid strOk cs _ m (l ++ [.obj c.child]) hnd' hm' hc h
      refine ⟨c.child :: added, by simpa [List.append_assoc] using h1, by simpa using h2.cons_cons c.child, ?_⟩
      intro x hx
      rcases List.mem_cons.mp hx with rfl | hx
      · exact hcls
      · exact h3 x hx

/-! ### "and in no other": every stored component sits under a member declared for its class -/

/-- every component held by a member has the member's declared class -/
def typedFor (members : List MemberSpec) (o : Obj) : Prop :=
  ∀ m ∈ members, (∀ x, o.get m.name = some (.obj x) → x.cls = m.dataType) ∧
    (∀ l x, o.get m.name = some (.list l) → Val.obj x ∈ l → x.cls = m.dataType)

theorem c10_typed_preserved (T : Table) (valid strOk : Obj → Bool) (g : Gate) (parent child : Obj) (hint : Option Nat)
    (force : Bool) (hnd : (T.memberNames parent.cls).Nodup) (ht : typedFor (T.getMembers parent.cls) parent) :
    typedFor (T.getMembers parent.cls) (add T valid strOk g parent child hint force).parent := by
  rcases c10_exactly_one_or_nothing T valid strOk g parent child hint force with h | ⟨m', hm', _, _, h3, h4⟩
  · rw [h]; exact ht
  · have hspec := (c10_cands_spec T parent child m').mp hm'
    intro m hm
    by_cases hn : m.name = m'.name
    · have hmm : m = m' := eq_of_nodup_names hnd hm hspec.1 hn
      subst hmm
      cases hc : m.container with
      | true =>
        simp only [hc, ↓reduceIte] at h4
        obtain ⟨l, hl, hl'⟩ := h4
        refine ⟨fun x hx => (by rw [hl'] at hx; cases hx), fun l2 x hx hmem => ?_⟩
        rw [hl'] at hx
        simp only [Option.some.injEq, Val.list.injEq] at hx
        subst hx
        rcases List.mem_append.mp hmem with h | h
        · exact (ht m hm).2 l x hl h
        · simp only [List.mem_singleton, Val.obj.injEq] at h
          rw [h]; exact hspec.2.symm
      | false =>
        simp only [hc, Bool.false_eq_true, ↓reduceIte] at h4
        refine ⟨fun x hx => ?_, fun l x hx => (by rw [h4] at hx; cases hx)⟩
        rw [h4] at hx
        simp only [Option.some.injEq, Val.obj.injEq] at hx
        rw [← hx]; exact hspec.2.symm
    · rw [h3 m.name hn]; exact ht m hm

theorem c10_history_typed (T : Table) (valid strOk : Obj → Bool) : ∀ (calls : List Call) (parent : Obj),
    (T.memberNames parent.cls).Nodup → typedFor (T.getMembers parent.cls) parent →
    typedFor (T.getMembers parent.cls) (runCalls T valid strOk parent calls).1
  | [], _, _, ht => ht
  | c :: cs, parent, hnd, ht => by
    have hf := c10_frame T valid strOk c.gate parent c.child c.hint c.force
    have hp := c10_typed_preserved T valid strOk c.gate parent c.child c.hint c.force hnd ht
    have ih := c10_history_typed T valid strOk cs (add T valid strOk c.gate parent c.child c.hint c.force).parent
      (by rw [hf.2.1]; exact hnd) (by rw [hf.2.1]; exact hp)
    simp only [runCalls]
    rw [hf.2.1] at ih
    exact ih

/-- hypotheses satisfiable: a freshly constructed parent (members `None` / `[]`) is typed; two calls later the
    note sits in member 12 and the rate in member 11 -/
example : typedFor (Ex.T0.getMembers Ex.gate0.cls) Ex.gate0 := by
  intro m hm
  have : m = Ex.m10 ∨ m = Ex.m11 ∨ m = Ex.m12 := by simpa [Ex.T0, Table.getMembers, Table.membersFuel, Table.row?, Ex.gate0, Obj.cls] using hm
  rcases this with rfl | rfl | rfl <;> refine ⟨fun x hx => ?_, fun l x hx hmem => ?_⟩ <;>
    simp [Ex.gate0, Ex.m10, Ex.m11, Ex.m12, Obj.get, Obj.fields, lookup] at hx <;> (try subst hx) <;> simp at hmem

example : (runCalls Ex.T0 (fun _ => true) (fun _ => true) Ex.gate0
    [⟨Ex.note 2 "n", none, false, Ex.off⟩, ⟨Ex.rate 1 "a", some 11, false, Ex.off⟩, ⟨Ex.note 3 "n", none, false, Ex.off⟩]).1
    = .mk 100 0 [(10, .none), (11, .obj (Ex.rate 1 "a")), (12, .list [.obj (Ex.note 2 "n")])] := rfl

end NmlVerif.Add
