import NmlVerif.Props.C10
import NmlVerif.Props.C11
import NmlVerif.Gen.MembersBridge
/-!
# C10 against the schema: "the member the SCHEMA declares for the child's type"

`Props/C10.lean` proves that `add` stores a child under the one member whose `MemberSpec_` names the child's class.
That the `MemberSpec_` tables say what the XSD says is property C11 (`c11_specs_agree_xsd_partial`: every spec of the
binding table agrees with the schema's attribute / element declaration — its type, single vs. list, required vs.
optional — except eight pinned entries).  C10 and C11 use separately extracted tables with separate name interning
(`Gen.Members` — `translators/members_extract.py`; `Gen.Bindings` / `Gen.Xsd` / `Gen.Names` —
`translators/nml_extract.py`, `xsd_extract.py`).  Here the two are tied, by the kernel, on every run:

* `c10_bridge_names`: the renaming `Gen.MembersBridge.toBinding` preserves the name strings;
* `c10_bridge_table`: under it every class row of the member table IS the `specs` list of the binding table's class
  (name, data type, container, optional; same base class);
* `c10_member_schema`: hence every member of the member table is declared by the schema as its spec says, or is one
  of the pinned exceptions — which are visible in the statement;
* `c10_stored_under_schema_member`: whatever `add` does on the shipped bindings, it leaves the parent unchanged or
  stores the child in ONE member that the schema declares for the child's class (or a pinned one).
-/
namespace NmlVerif.Add
open NmlVerif

/-- the renaming of interned names: `Gen.Members` id ↦ `Gen.Names` id -/
def tb? (i : Nat) : Option Nat := (Gen.MembersBridge.toBinding[i]?).bind id

def renamedSpec? (m : MemberSpec) : Option (Nat × Nat × Bool × Bool) :=
  match tb? m.name, tb? m.dataType with
  | some n, some d => some (n, d, m.container, m.optional)
  | _, _ => none

def specKey (s : Binding.Spec) : Nat × Nat × Bool × Bool := (s.name, s.dtype, s.container, s.optional)

/-- row `r` of the member table is class `k` of the binding table -/
def rowMatches (r : ClassRow) (k : Binding.ClassIR) : Bool :=
  tb? r.name == some k.name &&
  (match r.base with | none => k.base.isNone | some b => tb? b == k.base && k.base.isSome) &&
  r.own.map renamedSpec? == k.specs.map (fun s => some (specKey s))

def bridgeOk : Bool :=
  Gen.Members.table.all (fun r => match tb? r.name with
    | some kn => (match Binding.findClass Gen.Bindings.table kn with
                  | some k => rowMatches r k
                  | none => false)
    | none => false)

/-- the renaming preserves the strings: name `i` of `Gen.Members.names` is name `toBinding[i]` of the other table -/
theorem c10_bridge_names :
    (Gen.Members.names.zipIdx.all (fun (s, i) => match tb? i with
      | some j => Gen.MembersBridge.bindingNames[j]? == some s
      | none => false)) = true := by decide +kernel

theorem c10_bridge_table : bridgeOk = true := by decide +kernel

/-- the eight entries on which `c11_specs_agree_xsd_partial` pins a disagreement between MemberSpec and schema
    (known findings `C11:choice-member-required`, `C11:member-type:ComponentType.Property`), as (class, member) -/
def pinned : List (Nat × Nat) :=
  open NmlVerif.Gen.Names in
  [(nm_ComponentType, nm_Property), (nm_Layout, nm_random), (nm_Layout, nm_grid), (nm_Layout, nm_unstructured),
   (nm_Population, nm_instances), (nm_GateKS, nm_forward_transition), (nm_GateKS, nm_reverse_transition),
   (nm_GateKS, nm_tau_inf_transition)]

/-- C11's theorem, imported: the MemberSpec / schema disagreements of today's tables are exactly `pinned`
    (if C11's pinned list changes, `pinned` above is the one place to follow it) -/
theorem c10_pinned :
    Introspect.specViolations Gen.Bindings.table Gen.Xsd.types Gen.Names.nm_xs_string Gen.Names.nm___ANY__ = pinned :=
  Introspect.c11_specs_agree_xsd_partial

/-- every pinned entry names a member (none is the "class unknown to the schema" marker `(class, 0)`) -/
theorem c10_pinned_members : ∀ p ∈ pinned, p.2 ≠ 0 := by decide

/-- the schema declares member `m` of class row `r` as its `MemberSpec_` says: there is the class `k` of the binding
    table and its spec `s` with the same name / data type / container / optional, the schema has the complex type,
    and `s` agrees with the schema's declaration (`Introspect.specAgrees`: type, single vs. list, required vs.
    optional) — or `(class, member)` is one of the `pinned` exceptions -/
def SchemaDeclares (r : ClassRow) (m : MemberSpec) : Prop :=
  ∃ (k : Binding.ClassIR) (x : Schema.XType) (s : Binding.Spec),
    k ∈ Gen.Bindings.table ∧ tb? r.name = some k.name ∧ s ∈ k.specs ∧ renamedSpec? m = some (specKey s) ∧
    Schema.findType Gen.Xsd.types k.name = some x ∧
    (Introspect.specAgrees Gen.Names.nm_xs_string Gen.Names.nm___ANY__ k x s = true ∨ (k.name, s.name) ∈ pinned)

theorem spec_agrees_or_violation (T : Binding.Table) (X : Schema.Xsd) (u a : Nat) (k : Binding.ClassIR) (hk : k ∈ T)
    (s : Binding.Spec) (hs : s ∈ k.specs) :
    (∃ x, Schema.findType X k.name = some x ∧
      (Introspect.specAgrees u a k x s = true ∨ (k.name, s.name) ∈ Introspect.specViolations T X u a)) ∨
    (Schema.findType X k.name = none ∧ (k.name, 0) ∈ Introspect.specViolations T X u a) := by
  unfold Introspect.specViolations
  cases hx : Schema.findType X k.name with
  | none =>
    right
    refine ⟨rfl, List.mem_flatMap.mpr ⟨k, hk, ?_⟩⟩
    simp [hx]
  | some x =>
    left
    refine ⟨x, rfl, ?_⟩
    cases ha : Introspect.specAgrees u a k x s with
    | true => exact Or.inl rfl
    | false =>
      right
      refine List.mem_flatMap.mpr ⟨k, hk, ?_⟩
      simp only [hx, List.mem_map, List.mem_filter]
      exact ⟨s, ⟨hs, by simp [ha]⟩, rfl⟩

/-- **every member of the shipped member table is declared by the schema as its spec says, or is pinned** -/
theorem c10_member_schema (r : ClassRow) (hr : r ∈ Gen.Members.table) (m : MemberSpec) (hm : m ∈ r.own) :
    SchemaDeclares r m := by
  have hb := c10_bridge_table
  unfold bridgeOk at hb
  rw [List.all_eq_true] at hb
  have h := hb r hr
  cases hn : tb? r.name with
  | none => rw [hn] at h; cases h
  | some kn =>
    rw [hn] at h
    simp only at h
    cases hf : Binding.findClass Gen.Bindings.table kn with
    | none => rw [hf] at h; cases h
    | some k =>
      rw [hf] at h
      simp only [rowMatches, Bool.and_eq_true, beq_iff_eq] at h
      obtain ⟨⟨hname, _⟩, hspecs⟩ := h
      have hkmem : k ∈ Gen.Bindings.table := List.mem_of_find?_eq_some hf
      have hkn : kn = k.name := by rw [hn] at hname; exact Option.some.inj hname
      -- the spec of `k` that `m` is renamed to
      have hmem : renamedSpec? m ∈ r.own.map renamedSpec? := List.mem_map_of_mem hm
      rw [hspecs] at hmem
      obtain ⟨s, hs, hsk⟩ := List.mem_map.mp hmem
      rcases spec_agrees_or_violation Gen.Bindings.table Gen.Xsd.types Gen.Names.nm_xs_string Gen.Names.nm___ANY__ k hkmem
        s hs with ⟨x, hx, hag⟩ | ⟨_, hv⟩
      · refine ⟨k, x, s, hkmem, by rw [hn, hkn], hs, hsk.symm, hx, ?_⟩
        rcases hag with h1 | h1
        · exact Or.inl h1
        · rw [c10_pinned] at h1; exact Or.inr h1
      · exact absurd rfl (c10_pinned_members _ (c10_pinned ▸ hv))

/-- the hypotheses are satisfiable on most of the table, and pinned and non-pinned members both occur -/
example : (Gen.Members.table.filter (fun r => !r.own.isEmpty)).length ≥ 100 := by decide +kernel

theorem mem_membersFuel (T : Table) : ∀ (fuel c : Nat) (m : MemberSpec), m ∈ T.membersFuel fuel c →
    ∃ r ∈ T, m ∈ r.own
  | 0, _, _, h => by simp [Table.membersFuel] at h
  | fuel + 1, c, m, h => by
    simp only [Table.membersFuel] at h
    cases hr : T.row? c with
    | none => rw [hr] at h; simp at h
    | some r =>
      rw [hr] at h
      simp only [List.mem_append] at h
      rcases h with h | h
      · exact ⟨r, List.mem_of_find?_eq_some hr, h⟩
      · cases hb : r.base with
        | none => rw [hb] at h; simp at h
        | some b => rw [hb] at h; exact mem_membersFuel T fuel b m h

/-- **C10 against the schema.** On the shipped bindings, whatever the parent, child, hint, `force`, gate: `add` leaves
    the parent as it was, or stores the child in exactly one member — declared for exactly the child's class
    (`m.dataType = child.cls`), appended / assigned, nothing else altered — which the schema declares as the
    `MemberSpec_` says (or which is one of the eight pinned exceptions of C11). -/
theorem c10_stored_under_schema_member (valid strOk : Obj → Bool) (g : Gate) (parent child : Obj) (hint : Option Nat)
    (force : Bool) :
    (add Gen.Members.table valid strOk g parent child hint force).parent = parent ∨
    ∃ m ∈ cands Gen.Members.table parent child,
      StoredIn parent (add Gen.Members.table valid strOk g parent child hint force).parent m child ∧
      m.dataType = child.cls ∧ ∃ r ∈ Gen.Members.table, m ∈ r.own ∧ SchemaDeclares r m := by
  rcases c10_exactly_one_or_nothing Gen.Members.table valid strOk g parent child hint force with h | ⟨m, hm, hst⟩
  · exact Or.inl h
  · right
    have hspec := (c10_cands_spec Gen.Members.table parent child m).mp hm
    obtain ⟨r, hr, hmr⟩ := mem_membersFuel Gen.Members.table _ _ m hspec.1
    exact ⟨m, hm, hst, hspec.2, r, hr, hmr, c10_member_schema r hr m hmr⟩

end NmlVerif.Add
