import NmlVerif.Model.Introspect
import NmlVerif.Gen.Bindings
import NmlVerif.Gen.Xsd
import NmlVerif.Gen.Names
/-!
# C11 — introspection agrees with the constructors and with the schema, for every type
-/
namespace NmlVerif.Introspect
open NmlVerif.Binding NmlVerif.Schema

/-- **parentinfo is the exact inverse of info**, for every table: `(p, m)` is reported as a possible parent/member
    of class `c` iff `p` is a class of the table, `m` is one of `p`'s members and `m`'s type is `c`. -/
theorem c11_parentinfo_inverse (T : Table) (c p : Nat) (m : Spec) :
    (p, m) ∈ parentinfo T c ↔ (∃ k ∈ T, k.name = p) ∧ m ∈ getMembers T p ∧ m.dtype = c := by
  simp only [parentinfo, List.mem_flatMap, List.mem_map, List.mem_filter, Prod.mk.injEq, beq_iff_eq]
  constructor
  · rintro ⟨k, hk, s, ⟨hs, hd⟩, rfl, rfl⟩
    exact ⟨⟨k, hk, rfl⟩, hs, hd⟩
  · rintro ⟨⟨k, hk, rfl⟩, hs, hd⟩
    exact ⟨k, hk, m, ⟨hs, hd⟩, rfl, rfl⟩

/-- `info` lists exactly the members `_check_arg_list` accepts -/
theorem c11_info_eq_checkarg (T : Table) (c kw : Nat) :
    checkArg T c kw = true ↔ kw ∈ (info T c).map (·.1) := by
  simp only [checkArg, info, List.any_eq_true, beq_iff_eq, List.map_map, List.mem_map, Function.comp]

/-! ### get_by_id -/

theorem c11_get_sound (r : Bool) (lists : List (List Comp)) (i : String) (c : Comp)
    (h : getById r lists i = some c) : c.id = i ∧ c.hasId = true ∧ ∃ l ∈ lists, c ∈ l := by
  unfold getById at h
  split at h
  · cases h
  · have h1 := List.find?_some h
    have h2 := List.mem_of_find?_eq_some h
    simp only [Bool.and_eq_true, beq_iff_eq] at h1
    exact ⟨h1.2, h1.1, List.mem_flatten.mp h2⟩

theorem c11_get_complete (r : Bool) (lists : List (List Comp)) (i : String) (hi : r = false ∨ i.isEmpty = false)
    (c : Comp) (l : List Comp) (hl : l ∈ lists) (hc : c ∈ l) (hid : c.hasId = true) (hci : c.id = i) :
    ∃ d, getById r lists i = some d ∧ d.id = i := by
  unfold getById
  have hcond : (r && i.isEmpty) = false := by
    rcases hi with h | h <;> simp [h]
  simp only [hcond, Bool.false_eq_true, if_false]
  have hmem : c ∈ lists.flatten := List.mem_flatten.mpr ⟨l, hl, hc⟩
  cases hf : lists.flatten.find? (fun c => c.hasId && c.id == i) with
  | none =>
    have := List.find?_eq_none.mp hf c hmem
    simp [hid, hci] at this
  | some d =>
    have h1 := List.find?_some hf
    simp only [Bool.and_eq_true, beq_iff_eq] at h1
    exact ⟨d, rfl, h1.2⟩

theorem c11_get_none (r : Bool) (lists : List (List Comp)) (i : String)
    (h : ∀ l ∈ lists, ∀ c ∈ l, c.hasId = true → c.id ≠ i) : getById r lists i = none := by
  unfold getById
  split
  · rfl
  · apply List.find?_eq_none.mpr
    intro c hc
    obtain ⟨l, hl, hcl⟩ := List.mem_flatten.mp hc
    by_cases hid : c.hasId = true
    · simp [hid, h l hl c hcl hid]
    · simp [hid]

theorem c11_get_empty_id_document (lists : List (List Comp)) : getById true lists "" = none := by
  simp [getById]

/-! ### per-run obligations on today's tables -/
open NmlVerif.Gen.Names NmlVerif.Gen.Bindings

/-- generateDS-internal constructor parameters (not members, trailing underscore by convention) -/
def internals : List Nat := [nm_extensiontype_, nm_anytypeobjs_]

/-- `info()` = public constructor keywords for every class, EXCEPT the six `xs:any` holders, for which `info()`
    lists the pseudo-member `__ANY__` that no constructor accepts (known finding `C11:any-holder`).  The list is
    pinned: a seventh disagreeing class breaks this theorem. -/
theorem c11_info_eq_ctor_partial :
    infoCtorViolations table internals
      = [nm_CellSet, nm_Region, nm_ReactionScheme, nm_ReverseTransition, nm_ForwardTransition, nm_Annotation] := by
  decide +kernel

/-- every MemberSpec carries the type / required-optional status / single-list nature the schema declares for the
    attribute or element it stands for, EXCEPT the pinned entries: the alternatives of required choice groups are
    marked Required one by one (known finding `C11:choice-member-required`), and `ComponentType.Property` names the
    class `Property` where the schema's element is a `LEMS_Property` (known finding `C11:member-type`). -/
theorem c11_specs_agree_xsd_partial :
    specViolations table NmlVerif.Gen.Xsd.types nm_xs_string nm___ANY__
      = [(nm_ComponentType, nm_Property), (nm_Layout, nm_random), (nm_Layout, nm_grid), (nm_Layout, nm_unstructured),
         (nm_Population, nm_instances), (nm_GateKS, nm_forward_transition), (nm_GateKS, nm_reverse_transition),
         (nm_GateKS, nm_tau_inf_transition)] := by
  decide +kernel

end NmlVerif.Introspect
