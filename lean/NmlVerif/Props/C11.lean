import NmlVerif.Proofs.Introspect
import NmlVerif.Gen.Bindings
import NmlVerif.Gen.Xsd
import NmlVerif.Gen.Names
/-!
# C11 — introspection agrees with the constructors and with the schema, for every type
-/
namespace NmlVerif.Introspect
open NmlVerif.Binding NmlVerif.Schema

/-- **parentinfo is the exact inverse of info**, for every table: `(p, m)` is reported as a possible parent/member
    of class `c` iff `p` is a class of the table, `m` is one of `p`'s members and `m`'s type is `c`. -/
theorem c11_parentinfo_inverse (T : Table) (c p : Nat) (m : Spec) :
    (p, m) ∈ parentinfo T c ↔ (∃ k ∈ T, k.name = p) ∧ m ∈ getMembers T p ∧ m.dtype = c := by
  simp only [parentinfo, List.mem_flatMap, List.mem_map, List.mem_filter, Prod.mk.injEq, beq_iff_eq]
  constructor
  · rintro ⟨k, hk, s, ⟨hs, hd⟩, rfl, rfl⟩
    exact ⟨⟨k, hk, rfl⟩, hs, hd⟩
  · rintro ⟨⟨k, hk, rfl⟩, hs, hd⟩
    exact ⟨k, hk, m, ⟨hs, hd⟩, rfl, rfl⟩

/-- `info` lists exactly the members `_check_arg_list` accepts -/
theorem c11_info_eq_checkarg (T : Table) (c kw : Nat) :
    checkArg T c kw = true ↔ kw ∈ (info T c).map (·.1) := by
  simp only [checkArg, info, List.any_eq_true, beq_iff_eq, List.map_map, List.mem_map, Function.comp]

/-! ### `parentinfo` as the code returns it (dict with overwrite, list of keys, string) -/

/-- **`parentinfo()` in its dict (and string) form is the exact inverse of `info()`**: member name `n` is listed
    under parent `p` in `parentinfo` of class `c` iff `p` is a class and `info` of `p` has a member called `n` whose
    type is `c` -/
theorem c11_parentinfo_dict_inverse (T : Table) (c p n : Nat) :
    (lookup2 p n (pinfoDict (classMembers T) c)).isSome = true
      ↔ (∃ k ∈ T, k.name = p) ∧ ∃ m ∈ getMembers T p, m.name = n ∧ m.dtype = c := by
  constructor
  · intro h
    obtain ⟨v, hv⟩ := Option.isSome_iff_exists.mp h
    rw [pinfoDict_eq] at hv
    rcases outer_sound _ _ _ _ _ _ hv with h0 | ⟨ms, hm, s, hs, hc, hn, _⟩
    · simp [lookup2, lookup] at h0
    · obtain ⟨hk, rfl⟩ := (mem_classMembers T p ms).mp hm
      exact ⟨hk, s, hs, hn, hc⟩
  · rintro ⟨hk, m, hm, rfl, hc⟩
    rw [pinfoDict_eq]
    exact outer_complete _ _ _ _ _ _ ((mem_classMembers T p _).mpr ⟨hk, rfl⟩) hm hc

/-- … and the entry stored there carries the type `c` and the required flag of such a member -/
theorem c11_parentinfo_dict_value (T : Table) (c p n : Nat) (v : Bool × Nat)
    (h : lookup2 p n (pinfoDict (classMembers T) c) = some v) :
    ∃ m ∈ getMembers T p, m.name = n ∧ m.dtype = c ∧ v = (!m.optional, c) := by
  rw [pinfoDict_eq] at h
  rcases outer_sound _ _ _ _ _ _ h with h0 | ⟨ms, hm, s, hs, hc, hn, hv⟩
  · simp [lookup2, lookup] at h0
  · obtain ⟨_, rfl⟩ := (mem_classMembers T p ms).mp hm
    exact ⟨s, hs, hn, hc, by rw [hv, hc]⟩

/-- the list form of `parentinfo` is the key list of the dict form, the string form lists the same entries -/
theorem c11_parentinfo_formats (cm : List (Nat × List Spec)) (c : Nat) :
    pinfoOut cm c .list = .parents ((pinfoDict cm c).map (·.1))
    ∧ pinfoOut cm c .dict = .dict (pinfoDict cm c) ∧ pinfoOut cm c .string = .lines (pinfoDict cm c) := ⟨rfl, rfl, rfl⟩


/-! ### the three return formats of `info()` speak about the same members -/

/-- **every return format of `info()` reports the same member set** (`return_format` ∈ string / list / dict,
    `show_contents` on or off): exactly the names of the MemberSpecs `_get_members` gave -/
theorem c11_info_formats_agree (ms : List Spec) (sc : Bool) (fmt : Fmt) (n : Nat) :
    n ∈ (infoOut ms sc fmt).memberNames ↔ n ∈ ms.map (·.name) := by
  cases fmt <;> cases sc <;>
    simp [infoOut, InfoOut.memberNames, dictOf, keys_foldl_setA, List.map_map, Function.comp_def]

/-- … hence the members `info` reports in ANY format are exactly the keywords `_check_arg_list` accepts -/
theorem c11_info_formats_eq_checkarg (T : Table) (c : Nat) (sc : Bool) (fmt : Fmt) (kw : Nat) :
    kw ∈ (infoOut (getMembers T c) sc fmt).memberNames ↔ checkArg T c kw = true := by
  rw [c11_info_formats_agree, c11_info_eq_checkarg]
  simp [info, List.map_map, Function.comp_def]

/-- the dict / string forms carry, for every member, the required flag and type of a MemberSpec of that name
    (string form: every line is a MemberSpec) -/
theorem c11_info_lines (ms : List Spec) (sc : Bool) :
    infoOut ms sc .string = .lines (ms.map fun s => (s.name, s.dtype, s.optional)) := by
  cases sc <;> rfl

/-! ### get_by_id (document and network; the translated bodies compute `getByIdM`, see Props/C11Gen.lean) -/

/-- **soundness**, for every holder object whatsoever (no well-formedness needed), every `warn_count`, every
    requested id (string or not), repaired or not: a returned component carries the requested id, has an `id`
    attribute, and sits in one of the lists named by the class's own `member_data_items_` -/
theorem c11_get_sound (doc k : Bool) (names : List Nat) (vals : List (Nat × MVal)) (wc : Nat) (i : IdVal) (c : Comp)
    (h : (getByIdM doc k names vals wc i).1 = .ret (some c)) :
    c.id = i ∧ c.hasId = true ∧ ∃ n ∈ names, ∃ l, lookup n vals = some (.comps l) ∧ c ∈ l := by
  have key : (afterScan k i wc (scanMembers vals i names [])).1 = .ret (some c) →
      scanMembers vals i names [] = .found c := by
    intro hf
    cases hs : scanMembers vals i names [] with
    | found d => rw [hs] at hf; simp only [afterScan, GRes.ret.injEq, Option.some.injEq] at hf; rw [hf]
    | raised e =>
      rw [hs] at hf
      rcases scanMembers_raised _ _ _ _ _ hs with rfl | rfl <;> simp [afterScan] at hf
    | cont ids =>
      rw [hs] at hf
      simp only [afterScan] at hf
      split at hf <;> simp at hf
  unfold getByIdM at h
  cases doc
  · exact scanMembers_found _ _ _ _ _ (key (by simpa using h))
  · simp only [if_true] at h
    cases i with
    | none => simp at h
    | int n => simp at h
    | str s =>
      simp only at h
      by_cases he : s.isEmpty = true
      · simp [he] at h
      · simp only [he, Bool.false_eq_true, if_false] at h
        exact scanMembers_found _ _ _ _ _ (key h)

/-- the string ids a document accepts (a network accepts every id) -/
def askable (doc : Bool) (i : IdVal) : Prop := doc = true → ∃ s, i = .str s ∧ s.isEmpty = false

/-- **completeness**: if some component visible to the scan (member lists of the own table, objects having an `id`
    attribute) carries the requested id, a component carrying it is returned — the FIRST such in scan order; the
    `warn_count` is untouched.  Holds for ids occurring in several lists, ids `None`/ints on networks, repaired or not -/
theorem c11_get_complete (doc k : Bool) (names : List Nat) (vals : List (Nat × MVal)) (wc : Nat) (i : IdVal)
    (hok : holderOK vals names = true) (hask : askable doc i)
    (c : Comp) (hc : c ∈ visible vals names) (hid : c.id = i) :
    ∃ d, getByIdM doc k names vals wc i = (.ret (some d), wc) ∧ d.id = i
      ∧ (visible vals names).find? (fun c => c.id == i) = some d := by
  have hscan := scanMembers_eq vals i names [] hok
  cases hf : (visible vals names).find? (fun c => c.id == i) with
  | none =>
    have := List.find?_eq_none.mp hf c hc
    simp [hid] at this
  | some d =>
    have hd : d.id = i := by simpa using List.find?_some hf
    rw [hf] at hscan
    refine ⟨d, ?_, hd, rfl⟩
    unfold getByIdM
    cases doc
    · simp [hscan, afterScan]
    · obtain ⟨s, rfl, hs⟩ := hask rfl
      simp [hs, hscan, afterScan]

/-- the FULL "None otherwise" clause: when no visible component carries the (string) id, `None` is returned -/
def GetNoneFull (k : Bool) : Prop :=
  ∀ (doc : Bool) (names : List Nat) (vals : List (Nat × MVal)) (wc : Nat) (s : String),
    holderOK vals names = true → (∀ c ∈ visible vals names, c.id ≠ .str s) →
      (getByIdM doc k names vals wc (.str s)).1 = .ret none

/-- … holds whenever the ids that were passed over can be sorted for the warning message, or the warning is already
    suppressed (`warn_count ≥ 10`), or the tree carries the repair (`sorted(all_ids, key=str)`) -/
theorem c11_get_none_partial (doc k : Bool) (names : List Nat) (vals : List (Nat × MVal)) (wc : Nat) (s : String)
    (hok : holderOK vals names = true) (hno : ∀ c ∈ visible vals names, c.id ≠ .str s)
    (hs : k = true ∨ 10 ≤ wc ∨ unsortable ((visible vals names).map (·.id)) = false) :
    getByIdM doc k names vals wc (.str s) = (.ret none, if doc && s.isEmpty then wc else if wc < 10 then wc + 1 else wc) := by
  have hscan := scanMembers_eq vals (.str s) names [] hok
  have hf : (visible vals names).find? (fun c => c.id == .str s) = none := by
    apply List.find?_eq_none.mpr
    intro c hc
    simpa using hno c hc
  rw [hf] at hscan
  have hw : warnStep k (.str s) ((visible vals names).map (·.id)) wc = some (if wc < 10 then wc + 1 else wc) := by
    unfold warnStep
    by_cases h10 : wc < 10
    · have : ¬ (10 ≤ wc) := by omega
      rcases hs with rfl | h | h
      · simp [h10, IdVal.isStr]
      · exact absurd h this
      · simp [h10, IdVal.isStr, h]
    · simp [h10]
  unfold getByIdM
  cases doc
  · simp [hscan, afterScan, hw]
  · by_cases he : s.isEmpty = true
    · simp [he]
    · simp [he, hscan, afterScan, hw]

/-- with the repair the clause holds in full -/
theorem c11_get_none_repaired : GetNoneFull true := by
  intro doc names vals wc s hok hno
  rw [c11_get_none_partial doc true names vals wc s hok hno (Or.inl rfl)]

/-- TODAY's code violates it: a network with one population whose id is unset (`None`) and one called `"a"`,
    asked for `"zz"`: `sorted([None, "a"])` raises TypeError instead of `None` being returned -/
theorem c11_get_none_witness : ¬ GetNoneFull false := by
  intro h
  have := h false [7] [(7, .comps [⟨true, .none, 1⟩, ⟨true, .str "a", 2⟩])] 0 "zz" (by decide) (by decide)
  revert this
  decide

/-- and the failure is HISTORY dependent: the very same query on the very same network returns `None` once ten
    earlier misses have switched the warning off -/
theorem c11_get_none_witness_history :
    (getByIdM false false [7] [(7, .comps [⟨true, .none, 1⟩, ⟨true, .str "a", 2⟩])] 0 (.str "zz")).1 = .typeError
    ∧ (getByIdM false false [7] [(7, .comps [⟨true, .none, 1⟩, ⟨true, .str "a", 2⟩])] 10 (.str "zz")).1 = .ret none := by
  decide

/-- a document refuses the empty id, whatever it contains -/
theorem c11_get_empty_id_document (k : Bool) (names : List Nat) (vals : List (Nat × MVal)) (wc : Nat) :
    getByIdM true k names vals wc (.str "") = (.ret none, wc) := by
  simp [getByIdM]

/-- **the answer does not depend on the call history** (`warn_count`), for sortable ids or the repaired tree:
    the n-th identical query answers like the first -/
theorem c11_get_history_independent (doc k : Bool) (names : List Nat) (vals : List (Nat × MVal)) (wc : Nat) (s : String)
    (hok : holderOK vals names = true)
    (hs : k = true ∨ unsortable ((visible vals names).map (·.id)) = false) :
    (getByIdM doc k names vals wc (.str s)).1 = (getByIdM doc k names vals 0 (.str s)).1 := by
  by_cases hex : ∃ c ∈ visible vals names, c.id = .str s
  · obtain ⟨c, hc, hid⟩ := hex
    by_cases hask : askable doc (.str s)
    · obtain ⟨d, h1, _, h3⟩ := c11_get_complete doc k names vals wc (.str s) hok hask c hc hid
      obtain ⟨d', h2, _, h4⟩ := c11_get_complete doc k names vals 0 (.str s) hok hask c hc hid
      rw [h1, h2]
      rw [h3] at h4
      cases h4; rfl
    · -- a document asked for the empty id
      simp only [askable, Classical.not_imp] at hask
      obtain ⟨hd, hne⟩ := hask
      subst hd
      have he : s.isEmpty = true := by
        by_cases he : s.isEmpty = true
        · exact he
        · exact absurd ⟨s, rfl, by simpa using he⟩ hne
      simp [getByIdM, he]
  · have hno : ∀ c ∈ visible vals names, c.id ≠ .str s := fun c hc hid => hex ⟨c, hc, hid⟩
    rw [c11_get_none_partial doc k names vals wc s hok hno (by rcases hs with h | h; exact Or.inl h; exact Or.inr (Or.inr h))]
    rw [c11_get_none_partial doc k names vals 0 s hok hno (by rcases hs with h | h; exact Or.inl h; exact Or.inr (Or.inr h))]

/-- hypotheses are satisfiable: a document with an id-less include, two cells sharing an id in two lists, a network -/
example : holderOK [(1, .comps [⟨false, .none, 1⟩]), (2, .comps [⟨true, .str "a", 2⟩]), (3, .comps [⟨true, .str "a", 3⟩]), (4, .none), (5, .chars 3)]
    [1, 2, 3, 4, 5] = true ∧ askable true (.str "a")
    ∧ (getByIdM true false [1, 2, 3, 4, 5]
        [(1, .comps [⟨false, .none, 1⟩]), (2, .comps [⟨true, .str "a", 2⟩]), (3, .comps [⟨true, .str "a", 3⟩]), (4, .none), (5, .chars 3)]
        0 (.str "a")).1 = .ret (some ⟨true, .str "a", 2⟩) := by
  refine ⟨by decide, fun _ => ⟨"a", rfl, by decide⟩, by decide⟩

/-! ### per-run obligations on today's tables -/
open NmlVerif.Gen.Names NmlVerif.Gen.Bindings

/-- generateDS-internal constructor parameters (not members, trailing underscore by convention) -/
def internals : List Nat := [nm_extensiontype_, nm_anytypeobjs_]

/-- `info()` = public constructor keywords for every class, EXCEPT the six `xs:any` holders, for which `info()`
    lists the pseudo-member `__ANY__` that no constructor accepts (known finding `C11:any-holder`).  The list is
    pinned: a seventh disagreeing class breaks this theorem. -/
theorem c11_info_eq_ctor_partial :
    infoCtorViolations table internals
      = [nm_CellSet, nm_Region, nm_ReactionScheme, nm_ReverseTransition, nm_ForwardTransition, nm_Annotation] := by
  decide +kernel

/-- every MemberSpec carries the type / required-optional status / single-list nature the schema declares for the
    attribute or element it stands for, EXCEPT the pinned entries: the alternatives of required choice groups are
    marked Required one by one (known finding `C11:choice-member-required`), and `ComponentType.Property` names the
    class `Property` where the schema's element is a `LEMS_Property` (known finding `C11:member-type`). -/
theorem c11_specs_agree_xsd_partial :
    specViolations table NmlVerif.Gen.Xsd.types nm_xs_string nm___ANY__
      = [(nm_ComponentType, nm_Property), (nm_Layout, nm_random), (nm_Layout, nm_grid), (nm_Layout, nm_unstructured),
         (nm_Population, nm_instances), (nm_GateKS, nm_forward_transition), (nm_GateKS, nm_reverse_transition),
         (nm_GateKS, nm_tau_inf_transition)] := by
  decide +kernel

end NmlVerif.Introspect
