import NmlVerif.Gen.Introspect
import NmlVerif.Gen.Bindings
import NmlVerif.Gen.Xsd
import NmlVerif.Gen.Names
import NmlVerif.Proofs.Introspect
/-!
# C11 — the TRANSLATED introspection helpers compute what the hand model computes, for every call history

`Gen/Introspect.lean` is regenerated from `generatedssupersuper.py`, `nml.py`, `helper_methods.py` and
`changed_names.csv` on every run (`translators/introspect_extract.py`): the bodies of `_get_members`, `info`,
`parentinfo`, `_check_arg_list`, `NeuroMLDocument.get_by_id`, `Network.get_by_id` as statement sequences of the
vocabularies of `Model/Introspect.lean` (with the sub-expressions that carry the property translated expression by
expression), the `excluded_classes` filter evaluated on the binding classes, and the name table.
-/
namespace NmlVerif.Introspect
open NmlVerif.Binding NmlVerif.Schema NmlVerif.Gen.Names

/-! ## generated = expected statement sequences -/

theorem c11_gen_getMembers_shape : Gen.Introspect.getMembersProg = gmShape := rfl
theorem c11_gen_info_shape : Gen.Introspect.infoProg = infoShape := rfl
theorem c11_gen_parentinfo_shape : Gen.Introspect.pinfoProg = pinfoShape := rfl
theorem c11_gen_checkarg_shape : Gen.Introspect.checkProg = checkShape := rfl
theorem c11_gen_docget_shape : Gen.Introspect.docGetProg = docGetShape Gen.Introspect.docKeyStr := rfl
theorem c11_gen_netget_shape : Gen.Introspect.netGetProg = netGetShape Gen.Introspect.docKeyStr := rfl

/-- `helper_methods.py` and the copy shipped inside `nml.py` give the same `get_by_id` bodies -/
theorem c11_gen_both_files :
    Gen.Introspect.docGetProgHelpers = Gen.Introspect.docGetProg
    ∧ Gen.Introspect.netGetProgHelpers = Gen.Introspect.netGetProg := ⟨rfl, rfl⟩

theorem c11_gen_progs : Gen.Introspect.progs = shapeProgs Gen.Introspect.docKeyStr := rfl

/-! ## generated = model, function by function (every table, every state, every argument) -/

/-- the translated `_get_members` IS the cached hand model, on every class-level state (aliased or not) -/
theorem c11_gen_getMembers (T : Table) (S : CState) (c : Nat) :
    runGM T Gen.Introspect.getMembersProg S c = (some (getMembersM T S c).1, (getMembersM T S c).2) :=
  runGM_shape T S c

theorem c11_gen_info (ms : List Spec) (sc : Bool) (fmt : Fmt) :
    runInfo Gen.Introspect.infoProg ms sc fmt = some (infoOut ms sc fmt) := runInfo_shape ms sc fmt

theorem c11_gen_parentinfo (cm : List (Nat × List Spec)) (c : Nat) (fmt : Fmt) :
    runPinfo Gen.Introspect.pinfoProg cm c fmt = some (pinfoOut cm c fmt) := runPinfo_shape cm c fmt

theorem c11_gen_checkarg (ms : List Spec) (kws : List Nat) :
    runCheck Gen.Introspect.checkProg ms kws = some (checkArgs ms kws) := runCheck_shape ms kws

theorem c11_gen_docget (names : List Nat) (vals : List (Nat × MVal)) (wc : Nat) (i : IdVal) :
    runGet Gen.Introspect.docGetProg names vals wc i = getByIdM true Gen.Introspect.docKeyStr names vals wc i :=
  runGet_doc_shape _ names vals wc i

theorem c11_gen_netget (names : List Nat) (vals : List (Nat × MVal)) (wc : Nat) (i : IdVal) :
    runGet Gen.Introspect.netGetProg names vals wc i = getByIdM false Gen.Introspect.docKeyStr names vals wc i :=
  runGet_net_shape _ names vals wc i

/-- every binding class passes `parentinfo`'s class filter (no leading/trailing underscore, not excluded) -/
theorem c11_gen_no_hidden_class : Gen.Introspect.hiddenClasses = [] := rfl

/-! ## call histories -/

/-- **history independence** of the translated code, for every table and every history of `_get_members` / `info`
    (any format) / `parentinfo` (any format) / `_check_arg_list` / `get_by_id` calls in any order with repetitions,
    started on the freshly imported module: every call answers as the pure reading of the tables does … -/
theorem c11_history (T : Table) (ops : List Op) :
    (run T Gen.Introspect.progs (initState T) ops).1 = ops.map (pureAns T Gen.Introspect.docKeyStr) :=
  (run_spec _ ops (inv_init T)).1

/-- … so the n-th answer equals the answer the same call gives as the very first call … -/
theorem c11_nth_equals_first (T : Table) (pre : List Op) (op : Op) :
    (run T Gen.Introspect.progs (initState T) (pre ++ [op])).1
      = (run T Gen.Introspect.progs (initState T) pre).1 ++ (run T Gen.Introspect.progs (initState T) [op]).1 := by
  simp only [c11_history, List.map_append]

/-- … and the per-class `member_data_items_` tables are never changed by introspection, the cache only ever holds
    fresh lists equal to the pure member lists -/
theorem c11_tables_never_change (T : Table) (ops : List Op) :
    Inv T (run T Gen.Introspect.progs (initState T) ops).2 :=
  (run_spec _ ops (inv_init T)).2

/-- the answers `info` gives along any history are those of the pure `info` of the first pass (so the table
    theorems of Props/C11.lean speak about what the translated code returns at any point of any history) -/
theorem c11_history_info (T : Table) (pre : List Op) (c : Nat) :
    (run T Gen.Introspect.progs (initState T) (pre ++ [.info c true .dict])).1.getLast?
      = some (.info (some (.dict (dictOf (getMembers T c))))) := by
  simp [c11_history, pureAns, infoOut]

/-! ### the model CAN tell: a `_get_members` that extends the class table in place -/

/-- `all_members = cls.member_data_items_` (no copy) … `all_members += c.member_data_items_` -/
def aliasedGM : List GMCmd :=
  [.bindCurrentClass, .tryReturnCached, .localAssignOwn, .forMroIaddLocal, .cacheAssignDedupLocal, .returnCache]

/-- a two-class module: `Doc(Base)`; `Doc` owns a list member 11, `Base` owns the scalar child 12 -/
def toyT : Table :=
  [{ (default : ClassIR) with name := 1, base := some 2, specs := [⟨11, 3, true, true, false, false, true⟩] },
   { (default : ClassIR) with name := 2, base := none, specs := [⟨12, 4, false, true, false, false, false⟩] }]

def toyVals : List (Nat × MVal) := [(11, .comps [⟨true, .str "a", 1⟩]), (12, .scalar)]

/-- with the in-place variant, `info()` still answers correctly, but it grows `Doc.member_data_items_`, and a later
    `get_by_id` miss walks into the inherited scalar member and raises TypeError; the same call BEFORE `info()`
    returned `None` -/
theorem c11_alias_variant_witness :
    let P : Progs := { Gen.Introspect.progs with gm := aliasedGM }
    (run toyT P (initState toyT) [.getById true 1 toyVals 0 (.str "zz")]).1 = [.got (.ret none) 1]
    ∧ (run toyT P (initState toyT) [.info 1 false .list, .getById true 1 toyVals 0 (.str "zz")]).1.getLast?
        = some (.got .typeError 0)
    ∧ (run toyT Gen.Introspect.progs (initState toyT) [.info 1 false .list, .getById true 1 toyVals 0 (.str "zz")]).1.getLast?
        = some (.got (.ret none) 1) := by
  decide

/-! ## the name table: schema name -> Python member name -/
open NmlVerif.Gen.Bindings NmlVerif.Gen.Introspect

/-- every exported attribute / child of every class is stored under the member name the mapping prescribes:
    `changed_names.csv`, then the keyword clean-up, then `_attr` for an attribute clashing with a child -/
theorem c11_names_mapped : nameMapViolations table renameCsv keywordRename attrSuffix = [] := by
  decide +kernel

/-- the mapping is injective per class: no two schema items (own or inherited) share a member name -/
theorem c11_names_injective : nameClashes table = [] := by
  decide +kernel

/-- `info()`'s own entries of every class are exactly the mapped names of the schema type's own attributes and
    elements (plus `__ANY__` exactly for the `xs:any` holders) -/
theorem c11_info_names_eq_mapped_schema :
    infoSchemaNameViolations table NmlVerif.Gen.Xsd.types renameCsv keywordRename attrSuffix nm___ANY__ = [] := by
  decide +kernel

/-- no class reports two members of one name (so dict keys, list entries and string lines are in bijection, and the
    dict form of `parentinfo` loses nothing) -/
theorem c11_member_names_nodup : dupMemberNames table = [] := by
  decide +kernel

end NmlVerif.Introspect
