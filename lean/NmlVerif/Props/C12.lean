import NmlVerif.Proofs.Geom
/-!
# C12 — segment length, surface area and volume are those of the frustum or sphere

Every theorem below is about the definitions in `Gen/Geom.lean`, which `translators/py2lean_geom.py` regenerates
from `neuroml/nml/helper_methods.py` and `neuroml/nml/nml.py` on every check run, read at `α = ℝ`
(`sqrt = Real.sqrt`, `pi = Real.pi`). "To floating-point rounding" is NOT proved here (no IEEE error analysis);
it is sampled by the numeric correspondence in `harness/props/c12.py`.

Reference formulas (`Proofs/Geom.lean`): `dist3` (Euclidean distance), `frustumVolume L r₁ r₂ = π/3·L·(r₁²+r₁r₂+r₂²)`,
`frustumLateralArea L r₁ r₂ = π(r₁+r₂)√((r₁−r₂)²+L²)` (side area, no end discs), `sphereVolume r = 4/3·π·r³`,
`sphereArea r = 4·π·r²`; in `Props/C12Integral.lean` (thorough tier) the two frustum forms are shown to be the
integrals of the cross-section area / circumference along the axis.
-/
namespace NmlVerif.Geom.C12
open NmlVerif.Gen.Geom NmlVerif.Geom

/-! ## length = Euclidean distance -/

/-- `Segment.length` of a segment with both end points is the Euclidean distance between them. -/
theorem length_euclidean (p d : Pt ℝ) (par : Option (Par ℝ)) :
    Segment.length (mkSeg p d par) = .ok (dist3 p d) := length_eval p d par

/-- `Point3DWithDiam.distance_to` is the Euclidean distance. -/
theorem distance_to_euclidean (a b : Pt ℝ) : Point3DWithDiam.distance_to a b = .ok (dist3 a b) :=
  distance_to_eval a b

/-- error branch: without a proximal point the three properties raise (the cell-level getters are to be used). -/
theorem no_proximal_raises (d : Pt ℝ) (par : Option (Par ℝ)) :
    (∃ e, Segment.length (⟨none, d, par⟩ : Seg ℝ) = .error e) ∧
    (∃ e, Segment.volume (⟨none, d, par⟩ : Seg ℝ) = .error e) ∧
    (∃ e, Segment.surface_area (⟨none, d, par⟩ : Seg ℝ) = .error e) := by
  refine ⟨⟨_, length_noprox d par⟩, ⟨⟨"Exception", "Cannot get volume of segment "⟩, ?_⟩,
    ⟨⟨"Exception", "Cannot get surface area of segment "⟩, ?_⟩⟩
  · simp [Segment.volume]
  · simp [Segment.surface_area]

/-! ## closed forms: frustum, sphere -/

/-- distinct centres: the volume is that of the conical frustum between the two discs. -/
theorem volume_frustum (p d : Pt ℝ) (par : Option (Par ℝ)) (h : ¬ Coincident p d) :
    Segment.volume (mkSeg p d par) = .ok (frustumVolume (dist3 p d) (p.diameter / 2) (d.diameter / 2)) := by
  rw [volume_eval]; simp [h]

/-- distinct centres: the surface area is the lateral area of the conical frustum. -/
theorem surface_area_frustum (p d : Pt ℝ) (par : Option (Par ℝ)) (h : ¬ Coincident p d) :
    Segment.surface_area (mkSeg p d par) =
      .ok (frustumLateralArea (dist3 p d) (p.diameter / 2) (d.diameter / 2)) := by
  rw [surface_area_eval]; simp [h]

/-- coincident centres, equal diameters: the volume of the sphere, `4/3·π·r³`. -/
theorem volume_sphere (p d : Pt ℝ) (par : Option (Par ℝ)) (h : Coincident p d) (hd : p.diameter = d.diameter) :
    Segment.volume (mkSeg p d par) = .ok (4 / 3 * Real.pi * (p.diameter / 2) ^ 3) := by
  rw [volume_eval]; simp [h, hd, sphereVolume]

/-- coincident centres, equal diameters: the area of the sphere, `4·π·r²`. -/
theorem surface_area_sphere (p d : Pt ℝ) (par : Option (Par ℝ)) (h : Coincident p d) (hd : p.diameter = d.diameter) :
    Segment.surface_area (mkSeg p d par) = .ok (4 * Real.pi * (p.diameter / 2) ^ 2) := by
  rw [surface_area_eval]; simp [h, hd, sphereArea]

example : ¬ Coincident (⟨0, 0, 0, 2⟩ : Pt ℝ) ⟨1, 0, 0, 4⟩ := by unfold Coincident; norm_num
example : Coincident (⟨1, 2, 3, 2⟩ : Pt ℝ) ⟨1, 2, 3, 2⟩ ∧ (⟨1, 2, 3, 2⟩ : Pt ℝ).diameter = (⟨1, 2, 3, 2⟩ : Pt ℝ).diameter :=
  ⟨⟨rfl, rfl, rfl⟩, rfl⟩

/-- what the code does when the centres coincide and the diameters differ: it raises. -/
theorem coincident_unequal_raises (p d : Pt ℝ) (par : Option (Par ℝ)) (h : Coincident p d)
    (hd : p.diameter ≠ d.diameter) :
    (∃ e, Segment.volume (mkSeg p d par) = .error e) ∧ (∃ e, Segment.surface_area (mkSeg p d par) = .error e) := by
  rw [volume_eval, surface_area_eval]; simp [h, hd]

example : Coincident (⟨0, 0, 0, 2⟩ : Pt ℝ) ⟨0, 0, 0, 4⟩ ∧ (⟨0, 0, 0, 2⟩ : Pt ℝ).diameter ≠ (⟨0, 0, 0, 4⟩ : Pt ℝ).diameter :=
  ⟨⟨rfl, rfl, rfl⟩, by norm_num⟩

/-! ### the closed-form clause at full strength, and the known finding

The property says: frustum for every segment with both end points, sphere when the points coincide *with equal
diameters*. For coincident centres with unequal diameters the frustum is degenerate (volume `0`, lateral area
`π(r₁+r₂)|r₁−r₂|`, an annulus); the code refuses that input with an exception (deliberately; the repo's own test
`test_cell_with_segs` expects the raise). Recorded as known finding `C12:coincident-unequal-diameters:raises`. -/

open Classical in
/-- the value the property assigns to `volume` for every segment with both end points -/
noncomputable def volumeSpec (p d : Pt ℝ) : ℝ :=
  if Coincident p d ∧ p.diameter = d.diameter then sphereVolume (p.diameter / 2)
  else frustumVolume (dist3 p d) (p.diameter / 2) (d.diameter / 2)

open Classical in
/-- the value the property assigns to `surface_area` for every segment with both end points -/
noncomputable def areaSpec (p d : Pt ℝ) : ℝ :=
  if Coincident p d ∧ p.diameter = d.diameter then sphereArea (p.diameter / 2)
  else frustumLateralArea (dist3 p d) (p.diameter / 2) (d.diameter / 2)

/-- FULL statement (false for the current code, see `closed_form_witness`) -/
def closed_form_full : Prop :=
  ∀ (p d : Pt ℝ) (par : Option (Par ℝ)),
    Segment.volume (mkSeg p d par) = .ok (volumeSpec p d) ∧ Segment.surface_area (mkSeg p d par) = .ok (areaSpec p d)

/-- strongest true restriction: everything except coincident centres with unequal diameters -/
theorem closed_form_partial (p d : Pt ℝ) (par : Option (Par ℝ)) (h : ¬ (Coincident p d ∧ p.diameter ≠ d.diameter)) :
    Segment.volume (mkSeg p d par) = .ok (volumeSpec p d) ∧ Segment.surface_area (mkSeg p d par) = .ok (areaSpec p d) := by
  rw [volume_eval, surface_area_eval]
  unfold volumeSpec areaSpec
  by_cases hc : Coincident p d
  · have hd : p.diameter = d.diameter := by
      by_contra hne; exact h ⟨hc, hne⟩
    simp [hc, hd]
  · simp [hc]

example : ¬ (Coincident (⟨0, 0, 0, 2⟩ : Pt ℝ) ⟨1, 0, 0, 4⟩ ∧ (⟨0, 0, 0, 2⟩ : Pt ℝ).diameter ≠ (⟨1, 0, 0, 4⟩ : Pt ℝ).diameter) := by
  unfold Coincident; norm_num

/-- the full statement fails: centres `(0,0,0)`, diameters `2` and `4` -/
theorem closed_form_witness : ¬ closed_form_full := by
  intro h
  have h1 := (h ⟨0, 0, 0, 2⟩ ⟨0, 0, 0, 4⟩ none).1
  rw [volume_eval] at h1
  have hc : Coincident (⟨0, 0, 0, 2⟩ : Pt ℝ) ⟨0, 0, 0, 4⟩ := ⟨rfl, rfl, rfl⟩
  simp [hc] at h1

/-! ## non-negativity -/

/-- whatever the segment, a returned length is non-negative -/
theorem length_nonneg (s : Seg ℝ) (v : ℝ) (h : Segment.length s = .ok v) : 0 ≤ v := by
  obtain ⟨prox, d, par⟩ := s
  cases prox with
  | none => rw [length_noprox] at h; cases h
  | some p =>
    have := length_eval p d par
    simp only [mkSeg] at this
    rw [this] at h
    cases h
    exact dist3_nonneg p d

/-- a returned volume is non-negative when both diameters are -/
theorem volume_nonneg (p d : Pt ℝ) (par : Option (Par ℝ)) (hp : 0 ≤ p.diameter) (hd : 0 ≤ d.diameter) (v : ℝ)
    (h : Segment.volume (mkSeg p d par) = .ok v) : 0 ≤ v := by
  rw [volume_eval] at h
  split at h
  · split at h
    · cases h; exact sphereVolume_nonneg _ (by positivity)
    · cases h
  · cases h; exact frustumVolume_nonneg _ _ _ (dist3_nonneg p d) (by positivity) (by positivity)

/-- a returned surface area is non-negative when both diameters are -/
theorem surface_area_nonneg (p d : Pt ℝ) (par : Option (Par ℝ)) (hp : 0 ≤ p.diameter) (hd : 0 ≤ d.diameter) (v : ℝ)
    (h : Segment.surface_area (mkSeg p d par) = .ok v) : 0 ≤ v := by
  rw [surface_area_eval] at h
  split at h
  · split at h
    · cases h; exact sphereArea_nonneg _
    · cases h
  · cases h; exact frustumLateralArea_nonneg _ _ _ (by positivity) (by positivity)

example : ∃ v, Segment.volume (mkSeg (⟨0, 0, 0, 2⟩ : Pt ℝ) ⟨1, 0, 0, 4⟩ none) = .ok v ∧
    (0 : ℝ) ≤ (⟨0, 0, 0, 2⟩ : Pt ℝ).diameter ∧ (0 : ℝ) ≤ (⟨1, 0, 0, 4⟩ : Pt ℝ).diameter :=
  ⟨_, volume_frustum _ _ _ (by unfold Coincident; norm_num), by norm_num, by norm_num⟩
example : ∃ v, Segment.surface_area (mkSeg (⟨0, 0, 0, 2⟩ : Pt ℝ) ⟨1, 0, 0, 4⟩ none) = .ok v :=
  ⟨_, surface_area_frustum _ _ _ (by unfold Coincident; norm_num)⟩
example : ∃ v, Segment.length (mkSeg (⟨0, 0, 0, 2⟩ : Pt ℝ) ⟨1, 0, 0, 4⟩ none) = .ok v := ⟨_, length_euclidean _ _ _⟩

/-! ## swapping the end points (results *and* refusals are unchanged) -/

theorem length_swap (p d : Pt ℝ) (par par' : Option (Par ℝ)) :
    Segment.length (mkSeg d p par') = Segment.length (mkSeg p d par) := by
  rw [length_eval, length_eval, dist3_comm]

theorem volume_swap (p d : Pt ℝ) (par par' : Option (Par ℝ)) :
    Segment.volume (mkSeg d p par') = Segment.volume (mkSeg p d par) := by
  rw [volume_eval, volume_eval]
  by_cases hc : Coincident p d
  · have hc' := (coincident_comm p d).mp hc
    by_cases hd : p.diameter = d.diameter
    · simp [hc, hc', hd]
    · have hd' : ¬ d.diameter = p.diameter := fun h => hd h.symm
      simp [hc, hc', hd, hd']
  · have hc' : ¬ Coincident d p := fun h => hc ((coincident_comm p d).mpr h)
    simp [hc, hc', dist3_comm d p, frustumVolume_swap]

theorem surface_area_swap (p d : Pt ℝ) (par par' : Option (Par ℝ)) :
    Segment.surface_area (mkSeg d p par') = Segment.surface_area (mkSeg p d par) := by
  rw [surface_area_eval, surface_area_eval]
  by_cases hc : Coincident p d
  · have hc' := (coincident_comm p d).mp hc
    by_cases hd : p.diameter = d.diameter
    · simp [hc, hc', hd]
    · have hd' : ¬ d.diameter = p.diameter := fun h => hd h.symm
      simp [hc, hc', hd, hd']
  · have hc' : ¬ Coincident d p := fun h => hc ((coincident_comm p d).mpr h)
    simp [hc, hc', dist3_comm d p, frustumLateralArea_swap]

/-! ## translating the segment (results *and* refusals are unchanged) -/

theorem length_translate (tx ty tz : ℝ) (p d : Pt ℝ) (par : Option (Par ℝ)) :
    Segment.length (mkSeg (p.translate tx ty tz) (d.translate tx ty tz) par) = Segment.length (mkSeg p d par) := by
  rw [length_eval, length_eval, dist3_translate]

theorem volume_translate (tx ty tz : ℝ) (p d : Pt ℝ) (par : Option (Par ℝ)) :
    Segment.volume (mkSeg (p.translate tx ty tz) (d.translate tx ty tz) par) = Segment.volume (mkSeg p d par) := by
  exact volume_congr p d _ _ par par (coincident_translate tx ty tz p d) rfl rfl (dist3_translate tx ty tz p d)

theorem surface_area_translate (tx ty tz : ℝ) (p d : Pt ℝ) (par : Option (Par ℝ)) :
    Segment.surface_area (mkSeg (p.translate tx ty tz) (d.translate tx ty tz) par) =
      Segment.surface_area (mkSeg p d par) := by
  exact area_congr p d _ _ par par (coincident_translate tx ty tz p d) rfl rfl (dist3_translate tx ty tz p d)

/-! ## uniform scaling by `k ≥ 0` (coordinates and diameters): `k`, `k²`, `k³` -/

theorem length_scale (k : ℝ) (hk : 0 ≤ k) (p d : Pt ℝ) (par : Option (Par ℝ)) (v : ℝ)
    (h : Segment.length (mkSeg p d par) = .ok v) :
    Segment.length (mkSeg (p.scale k) (d.scale k) par) = .ok (k * v) := by
  rw [length_eval] at h; cases h
  rw [length_eval, dist3_scale k hk]

theorem volume_scale (k : ℝ) (hk : 0 ≤ k) (p d : Pt ℝ) (par : Option (Par ℝ)) (v : ℝ)
    (h : Segment.volume (mkSeg p d par) = .ok v) :
    Segment.volume (mkSeg (p.scale k) (d.scale k) par) = .ok (k ^ 3 * v) := by
  rcases eq_or_lt_of_le hk with hk0 | hkpos
  · -- k = 0: everything collapses to the sphere of radius 0
    subst hk0
    rw [volume_sphere_case _ _ par (coincident_scale_zero p d) (by simp [Pt.scale])]
    congr 1
    simp [sphereVolume, Pt.scale]
  · have hk' : k ≠ 0 := ne_of_gt hkpos
    have hc := coincident_scale k hk' p d
    by_cases c : Coincident p d
    · by_cases e : p.diameter = d.diameter
      · rw [volume_sphere_case p d par c e] at h; cases h
        rw [volume_sphere_case _ _ par (hc.mpr c) (by simp [Pt.scale, e]), scale_diam, sphereVolume_scale]
      · rw [volume_raise_case p d par c e] at h; cases h
    · rw [volume_frustum_case p d par c] at h; cases h
      rw [volume_frustum_case _ _ par (fun x => c (hc.mp x)), scale_diam, scale_diam, dist3_scale k hk,
        frustumVolume_scale]

theorem surface_area_scale (k : ℝ) (hk : 0 ≤ k) (p d : Pt ℝ) (par : Option (Par ℝ)) (v : ℝ)
    (h : Segment.surface_area (mkSeg p d par) = .ok v) :
    Segment.surface_area (mkSeg (p.scale k) (d.scale k) par) = .ok (k ^ 2 * v) := by
  rcases eq_or_lt_of_le hk with hk0 | hkpos
  · subst hk0
    rw [area_sphere_case _ _ par (coincident_scale_zero p d) (by simp [Pt.scale])]
    congr 1
    simp [sphereArea, Pt.scale]
  · have hk' : k ≠ 0 := ne_of_gt hkpos
    have hc := coincident_scale k hk' p d
    by_cases c : Coincident p d
    · by_cases e : p.diameter = d.diameter
      · rw [area_sphere_case p d par c e] at h; cases h
        rw [area_sphere_case _ _ par (hc.mpr c) (by simp [Pt.scale, e]), scale_diam, sphereArea_scale]
      · rw [area_raise_case p d par c e] at h; cases h
    · rw [area_frustum_case p d par c] at h; cases h
      rw [area_frustum_case _ _ par (fun x => c (hc.mp x)), scale_diam, scale_diam, dist3_scale k hk,
        frustumLateralArea_scale _ _ _ _ hk]

example : (0 : ℝ) ≤ 3 ∧ ∃ v, Segment.volume (mkSeg (⟨0, 0, 0, 2⟩ : Pt ℝ) ⟨1, 0, 0, 4⟩ none) = .ok v :=
  ⟨by norm_num, _, volume_frustum _ _ _ (by unfold Coincident; norm_num)⟩

/-! ## cell-level getters = segment formulas with the actual (own or inherited) proximal point -/

/-- `get_actual_proximal` returns the point the parent / `fraction_along` definition assigns (`Inherits`),
    for every fuel above a bound (fuel = Python recursion depth). -/
theorem actual_proximal_correct (c : Cell ℝ) (id : Nat) (q : Pt ℝ) (h : Inherits c id q) :
    ∃ n, ∀ fuel, n ≤ fuel → actualProximal c fuel id = .ok q := actualProximal_of_inherits c id q h

/-- one step of the definition, as the code computes it: own proximal point if present -/
theorem actual_proximal_own (c : Cell ℝ) (fuel id : Nat) (seg : Seg ℝ) (p : Pt ℝ)
    (h1 : getSegment c id = .ok seg) (h2 : seg.proximal = some p) : actualProximal c (fuel + 1) id = .ok p :=
  get_actual_proximal_own _ _ id seg p h1 h2

/-- the three getters, for a segment whose actual proximal point is `q`: the segment-level formula applied to
    `(q, distal)`. Covers both the segment's own proximal (`Inherits.own`) and an inherited one. -/
theorem cell_getters (c : Cell ℝ) (id : Nat) (seg : Seg ℝ) (q : Pt ℝ) (hs : getSegment c id = .ok seg)
    (h : Inherits c id q) :
    ∃ n, ∀ fuel, n ≤ fuel →
      segmentLength c fuel id = Segment.length (mkSeg q seg.distal none) ∧
      segmentVolume c fuel id = Segment.volume (mkSeg q seg.distal none) ∧
      segmentSurfaceArea c fuel id = Segment.surface_area (mkSeg q seg.distal none) := by
  obtain ⟨n, hn⟩ := actualProximal_of_inherits c id q h
  refine ⟨n, fun fuel hf => ?_⟩
  have hap := hn fuel hf
  unfold segmentLength segmentVolume segmentSurfaceArea
  cases hp : seg.proximal with
  | some p =>
    -- own proximal: `Inherits` can only have used `own`, so q = p
    have hq : q = p := by
      cases h with
      | own h1 h2 => rw [hs] at h1; cases h1; rw [hp] at h2; cases h2; rfl
      | atEnd h1 h2 => rw [hs] at h1; cases h1; rw [hp] at h2; cases h2
      | along h1 h2 => rw [hs] at h1; cases h1; rw [hp] at h2; cases h2
    subst hq
    have hseg : seg = mkSeg q seg.distal seg.parent := by
      obtain ⟨a, b, c'⟩ := seg; simp only [mkSeg] at *; rw [hp]
    refine ⟨?_, ?_, ?_⟩
    · rw [get_segment_length_own _ _ id seg q hs hp]
      conv_lhs => rw [hseg]
      rw [length_eval, length_eval]
    · rw [get_segment_volume_own _ _ id seg q hs hp]
      conv_lhs => rw [hseg]
      exact volume_par_irrel _ _ _ _
    · rw [get_segment_surface_area_own _ _ id seg q hs hp]
      conv_lhs => rw [hseg]
      exact surface_area_par_irrel _ _ _ _
  | none =>
    exact ⟨get_segment_length_inh _ _ id seg q hs hp hap, get_segment_volume_inh _ _ id seg q hs hp hap,
      get_segment_surface_area_inh _ _ id seg q hs hp hap⟩

/-- non-trivial instance: segment 1 has no proximal point and hangs half-way along segment 0 -/
noncomputable def exCell : Cell ℝ :=
  [(0, ⟨some ⟨0, 0, 0, 2⟩, ⟨10, 0, 0, 4⟩, none⟩), (1, ⟨none, ⟨5, 7, 0, 1⟩, some ⟨0, 1 / 2⟩⟩)]

example : Inherits exCell 1 (lerp (1 / 2) ⟨0, 0, 0, 2⟩ ⟨10, 0, 0, 4⟩) :=
  Inherits.along (seg := ⟨none, ⟨5, 7, 0, 1⟩, some ⟨0, 1 / 2⟩⟩) (ps := ⟨some ⟨0, 0, 0, 2⟩, ⟨10, 0, 0, 4⟩, none⟩)
    (par := ⟨0, 1 / 2⟩) (by simp [exCell, getSegment]) rfl rfl (by simp [exCell, getSegment])
    (Inherits.own (seg := ⟨some ⟨0, 0, 0, 2⟩, ⟨10, 0, 0, 4⟩, none⟩) (by simp [exCell, getSegment]) rfl)

end NmlVerif.Geom.C12
