import NmlVerif.Proofs.Geom
import NmlVerif.Proofs.GeomRounding
/-!
# C12 — segment length, surface area and volume are those of the frustum or sphere
## part 1: `Segment.length`, `Point3DWithDiam.distance_to`

Every theorem of `Props/C12*.lean` is about the definitions in `Gen/Geom.lean`, which `translators/py2lean_geom.py`
regenerates from `neuroml/nml/helper_methods.py` and `neuroml/nml/nml.py` on every check run, read at `α = ℝ`
(`sqrt = Real.sqrt`, `pi = Real.pi`), or — for the clause "to floating-point rounding" — evaluated in the standard
model of floating-point arithmetic (`Proofs/GeomRounding.lean`, a hypothesis; see there for what is trusted).

One Props module per translated function, so that a changed function breaks only the obligations that depend on it:

* `Props/C12.lean`        — `length`, `distance_to`
* `Props/C12Volume.lean`  — `volume`
* `Props/C12Area.lean`    — `surface_area`
* `Props/C12Cell.lean`    — `get_actual_proximal` (inherited proximal point), `get_segment`, parent cycles, fuel
* `Props/C12Getters.lean` — cell-level getters = segment-level formulas
* `Props/C12Integral.lean` (thorough tier) — closed forms = integrals; `dist3` = Mathlib's Euclidean distance

Each module also proves `generated = hand-written model` (`gen_eq_hand_*`, `Model/GeomHand.lean`) for its function.

Reference formulas (`Proofs/Geom.lean`): `dist3` (Euclidean distance), `frustumVolume L r₁ r₂ = π/3·L·(r₁²+r₁r₂+r₂²)`,
`frustumLateralArea L r₁ r₂ = π(r₁+r₂)√((r₁−r₂)²+L²)` (side area, no end discs), `sphereVolume r = 4/3·π·r³`,
`sphereArea r = 4·π·r²`.
-/
namespace NmlVerif.Geom.C12
open NmlVerif.Gen.Geom NmlVerif.Geom

/-! ## generated = hand-written model -/

/-- the regenerated `Point3DWithDiam.distance_to` is the hand-written model, on every pair of points -/
theorem gen_eq_hand_distance_to (a b : Pt ℝ) : Point3DWithDiam.distance_to a b = Hand.distanceTo a b :=
  gen_eq_hand_distance_to' a b

/-- the regenerated `Segment.length` is the hand-written model, on every segment (with or without proximal point) -/
theorem gen_eq_hand_length (s : Seg ℝ) : Segment.length s = Hand.length s := gen_eq_hand_length' s

example : Hand.length (mkSeg (⟨0, 0, 0, 2⟩ : Pt ℝ) ⟨3, 4, 12, 4⟩ none) = .ok (dist3 ⟨0, 0, 0, 2⟩ ⟨3, 4, 12, 4⟩) := by
  rw [← gen_eq_hand_length, length_eval]

/-! ## length = Euclidean distance -/

/-- `Segment.length` of a segment with both end points is the Euclidean distance between them. -/
theorem length_euclidean (p d : Pt ℝ) (par : Option (Par ℝ)) :
    Segment.length (mkSeg p d par) = .ok (dist3 p d) := length_eval p d par

/-- `Point3DWithDiam.distance_to` is the Euclidean distance. -/
theorem distance_to_euclidean (a b : Pt ℝ) : Point3DWithDiam.distance_to a b = .ok (dist3 a b) :=
  distance_to_eval a b

/-- the distance really is 13 for the 3-4-12 offset (the reference formula is not vacuous) -/
example : Segment.length (mkSeg (⟨1, 1, 1, 2⟩ : Pt ℝ) ⟨4, 5, 13, 4⟩ none) = .ok 13 := by
  rw [length_euclidean]
  have : dist3 (⟨1, 1, 1, 2⟩ : Pt ℝ) ⟨4, 5, 13, 4⟩ = 13 := by
    unfold dist3
    rw [show ((1:ℝ) - 4) ^ 2 + (1 - 5) ^ 2 + (1 - 13) ^ 2 = 13 ^ 2 by norm_num]
    exact Real.sqrt_sq (by norm_num)
  rw [this]

/-- error branch: without a proximal point `length` raises (the cell-level getter is to be used). -/
theorem length_no_proximal_raises (d : Pt ℝ) (par : Option (Par ℝ)) :
    ∃ e, Segment.length (⟨none, d, par⟩ : Seg ℝ) = .error e := ⟨_, length_noprox d par⟩

/-! ## non-negativity, swap, translation, scaling -/

/-- whatever the segment, a returned length is non-negative -/
theorem length_nonneg (s : Seg ℝ) (v : ℝ) (h : Segment.length s = .ok v) : 0 ≤ v := by
  obtain ⟨prox, d, par⟩ := s
  cases prox with
  | none => rw [length_noprox] at h; cases h
  | some p =>
    have := length_eval p d par
    simp only [mkSeg] at this
    rw [this] at h
    cases h
    exact dist3_nonneg p d

example : ∃ v, Segment.length (mkSeg (⟨0, 0, 0, 2⟩ : Pt ℝ) ⟨1, 0, 0, 4⟩ none) = .ok v := ⟨_, length_euclidean _ _ _⟩

theorem length_swap (p d : Pt ℝ) (par par' : Option (Par ℝ)) :
    Segment.length (mkSeg d p par') = Segment.length (mkSeg p d par) := by
  rw [length_eval, length_eval, dist3_comm]

theorem length_translate (tx ty tz : ℝ) (p d : Pt ℝ) (par : Option (Par ℝ)) :
    Segment.length (mkSeg (p.translate tx ty tz) (d.translate tx ty tz) par) = Segment.length (mkSeg p d par) := by
  rw [length_eval, length_eval, dist3_translate]

/-- uniform scaling by `k ≥ 0` (coordinates and diameters): the length scales with `k` -/
theorem length_scale (k : ℝ) (hk : 0 ≤ k) (p d : Pt ℝ) (par : Option (Par ℝ)) (v : ℝ)
    (h : Segment.length (mkSeg p d par) = .ok v) :
    Segment.length (mkSeg (p.scale k) (d.scale k) par) = .ok (k * v) := by
  rw [length_eval] at h; cases h
  rw [length_eval, dist3_scale k hk]

example : (0 : ℝ) ≤ 3 ∧ ∃ v, Segment.length (mkSeg (⟨0, 0, 0, 2⟩ : Pt ℝ) ⟨1, 0, 0, 4⟩ none) = .ok v :=
  ⟨by norm_num, _, length_euclidean _ _ _⟩

/-- instances: swap, translation by (16, −8, 1/2), scaling by 3 of the oblique tapered segment (0,0,0,d=2)–(3,4,12,d=4) -/
example : Segment.length (mkSeg (⟨3, 4, 12, 4⟩ : Pt ℝ) ⟨0, 0, 0, 2⟩ none) = Segment.length (mkSeg ⟨0, 0, 0, 2⟩ ⟨3, 4, 12, 4⟩ none) :=
  length_swap _ _ _ _
example : Segment.length (mkSeg ((⟨0, 0, 0, 2⟩ : Pt ℝ).translate 16 (-8) (1 / 2)) ((⟨3, 4, 12, 4⟩ : Pt ℝ).translate 16 (-8) (1 / 2)) none)
    = Segment.length (mkSeg ⟨0, 0, 0, 2⟩ ⟨3, 4, 12, 4⟩ none) := length_translate _ _ _ _ _ _
example : Segment.length (mkSeg ((⟨0, 0, 0, 2⟩ : Pt ℝ).scale 3) ((⟨3, 4, 12, 4⟩ : Pt ℝ).scale 3) none)
    = .ok (3 * dist3 ⟨0, 0, 0, 2⟩ ⟨3, 4, 12, 4⟩) := length_scale 3 (by norm_num) _ _ _ _ (length_euclidean _ _ _)

/-! ## "to floating-point rounding": the evaluation order of the source, in the standard model of rounding -/

open Rounding in
/-- **`Segment.length` to rounding.** In any floating-point model with unit roundoff `u ≤ 1` (no overflow /
    underflow), the value the translated code computes for a segment with both end points exists and lies within
    4 roundings of the Euclidean distance: `(1-u)⁴·L ≤ v ≤ (1+u)⁴·L`. -/
theorem length_rounding {u : ℝ} (M : FloatModel u) (hu0 : 0 ≤ u) (hu1 : u ≤ 1) (p d : Pt ℝ) (par : Option (Par ℝ)) :
    ∃ v, flLength M (mkSeg p d par) = .ok v ∧ Near u 4 v (dist3 p d) := by
  refine ⟨_, ?_, near_fl_dist M hu0 hu1 p d⟩
  simp only [flLength, mkSeg]
  exact flLength_eq M p d par

open Rounding in
/-- the same bound in the usual form: relative error at most `(1+u)⁴ − 1` (≈ 4u) -/
theorem length_rounding_abs {u : ℝ} (M : FloatModel u) (hu0 : 0 ≤ u) (hu1 : u ≤ 1) (p d : Pt ℝ) (par : Option (Par ℝ)) :
    ∃ v, flLength M (mkSeg p d par) = .ok v ∧ |v - dist3 p d| ≤ ((1 + u) ^ 4 - 1) * dist3 p d := by
  obtain ⟨v, h, hn⟩ := length_rounding M hu0 hu1 p d par
  exact ⟨v, h, near_abs hu0 hu1 (dist3_nonneg p d) hn⟩

open Rounding in
/-- **`Point3DWithDiam.distance_to` to rounding**: 4 roundings -/
theorem distance_to_rounding {u : ℝ} (M : FloatModel u) (hu0 : 0 ≤ u) (hu1 : u ≤ 1) (a b : Pt ℝ) :
    ∃ v, flDistanceTo M a b = .ok v ∧ Near u 4 v (dist3 a b) := by
  refine ⟨_, ?_, near_fl_dist M hu0 hu1 a b⟩
  simp only [flDistanceTo, Point3DWithDiam.distance_to, noOverflow, ipow2, Bool.false_eq_true, if_false]
  rfl

/-- the hypotheses are satisfiable: exact arithmetic is a floating-point model for `u = 2⁻⁵³`, and in it the
    theorem gives back the exact distance up to the stated bound -/
example : ∃ v, Rounding.flLength (Rounding.FloatModel.exact ((2:ℝ)⁻¹ ^ 53) (by positivity))
    (mkSeg (⟨0, 0, 0, 2⟩ : Pt ℝ) ⟨3, 4, 12, 4⟩ none) = .ok v ∧
    Rounding.Near ((2:ℝ)⁻¹ ^ 53) 4 v (dist3 ⟨0, 0, 0, 2⟩ ⟨3, 4, 12, 4⟩) :=
  length_rounding _ (by positivity) (by
    have : ((2:ℝ)⁻¹) ^ 53 ≤ 1 := pow_le_one₀ (by norm_num) (by norm_num)
    exact this) _ _ _

end NmlVerif.Geom.C12
