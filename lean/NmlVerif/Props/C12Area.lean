import NmlVerif.Proofs.GeomArea
import NmlVerif.Proofs.GeomRounding
/-!
# C12, part 3: `Segment.surface_area` (generated definition, read at ℝ and in the floating-point model)

`surface_area` is the LATERAL area of the frustum (no end discs), as the code computes it.
-/
namespace NmlVerif.Geom.C12
open NmlVerif.Gen.Geom NmlVerif.Geom

/-! ## generated = hand-written model -/

/-- the regenerated `Segment.surface_area` is the hand-written model, on every segment -/
theorem gen_eq_hand_surface_area (s : Seg ℝ) : Segment.surface_area s = Hand.surfaceArea s :=
  gen_eq_hand_surface_area' s

example : Hand.surfaceArea (mkSeg (⟨1, 2, 3, 2⟩ : Pt ℝ) ⟨1, 2, 3, 2⟩ none) = .ok (sphereArea 1) := by
  rw [← gen_eq_hand_surface_area, area_sphere_case _ _ _ ⟨rfl, rfl, rfl⟩ rfl]; norm_num

/-! ## the three branches, exactly as the code takes them -/

open Classical in
/-- complete case analysis of `Segment.surface_area` on a segment with both end points: sphere branch exactly when
    the three coordinates coincide; inside it the sphere value for equal diameters, a refusal (raise) for unequal
    ones; otherwise the lateral area of the frustum. -/
theorem surface_area_cases (p d : Pt ℝ) (par : Option (Par ℝ)) :
    Segment.surface_area (mkSeg p d par) =
      if Coincident p d then
        (if p.diameter = d.diameter then .ok (sphereArea (p.diameter / 2))
         else .error ⟨"Exception", "Cannot get surface area of segment "⟩)
      else .ok (frustumLateralArea (dist3 p d) (p.diameter / 2) (d.diameter / 2)) := surface_area_eval p d par

/-- error branch: without a proximal point `surface_area` raises (the cell-level getter is to be used). -/
theorem surface_area_no_proximal_raises (d : Pt ℝ) (par : Option (Par ℝ)) :
    ∃ e, Segment.surface_area (⟨none, d, par⟩ : Seg ℝ) = .error e :=
  ⟨⟨"Exception", "Cannot get surface area of segment "⟩, by simp [Segment.surface_area]⟩

/-- distinct centres: the surface area is the lateral area of the conical frustum. -/
theorem surface_area_frustum (p d : Pt ℝ) (par : Option (Par ℝ)) (h : ¬ Coincident p d) :
    Segment.surface_area (mkSeg p d par) =
      .ok (frustumLateralArea (dist3 p d) (p.diameter / 2) (d.diameter / 2)) := by
  rw [surface_area_eval]; simp [h]

/-- coincident centres, equal diameters: the area of the sphere, `4·π·r²`. -/
theorem surface_area_sphere (p d : Pt ℝ) (par : Option (Par ℝ)) (h : Coincident p d) (hd : p.diameter = d.diameter) :
    Segment.surface_area (mkSeg p d par) = .ok (4 * Real.pi * (p.diameter / 2) ^ 2) := by
  rw [surface_area_eval]; simp [h, hd, sphereArea]

example : ¬ Coincident (⟨0, 0, 0, 2⟩ : Pt ℝ) ⟨0, 0, 1, 4⟩ := by unfold Coincident; norm_num
example : Coincident (⟨1, 2, 3, 2⟩ : Pt ℝ) ⟨1, 2, 3, 2⟩ ∧ (⟨1, 2, 3, 2⟩ : Pt ℝ).diameter = (⟨1, 2, 3, 2⟩ : Pt ℝ).diameter :=
  ⟨⟨rfl, rfl, rfl⟩, rfl⟩

/-- what the code does when the centres coincide and the diameters differ: it raises. -/
theorem surface_area_coincident_unequal_raises (p d : Pt ℝ) (par : Option (Par ℝ)) (h : Coincident p d)
    (hd : p.diameter ≠ d.diameter) : ∃ e, Segment.surface_area (mkSeg p d par) = .error e := by
  rw [surface_area_eval]; simp [h, hd]

example : Coincident (⟨0, 0, 0, 2⟩ : Pt ℝ) ⟨0, 0, 0, 4⟩ ∧ (⟨0, 0, 0, 2⟩ : Pt ℝ).diameter ≠ (⟨0, 0, 0, 4⟩ : Pt ℝ).diameter :=
  ⟨⟨rfl, rfl, rfl⟩, by norm_num⟩

/-! ### the closed-form clause at full strength, and the known finding
(degenerate frustum for coincident centres with unequal diameters: lateral area `π(r₁+r₂)|r₁−r₂|`, an annulus; the
code raises instead — known finding `C12:coincident-unequal-diameters:raises`) -/

open Classical in
/-- the value the property assigns to `surface_area` for every segment with both end points -/
noncomputable def areaSpec (p d : Pt ℝ) : ℝ :=
  if Coincident p d ∧ p.diameter = d.diameter then sphereArea (p.diameter / 2)
  else frustumLateralArea (dist3 p d) (p.diameter / 2) (d.diameter / 2)

/-- FULL statement (false for the current code, see `surface_area_closed_form_witness`) -/
def surface_area_closed_form_full : Prop :=
  ∀ (p d : Pt ℝ) (par : Option (Par ℝ)), Segment.surface_area (mkSeg p d par) = .ok (areaSpec p d)

/-- strongest true restriction: everything except coincident centres with unequal diameters -/
theorem surface_area_closed_form_partial (p d : Pt ℝ) (par : Option (Par ℝ))
    (h : ¬ (Coincident p d ∧ p.diameter ≠ d.diameter)) :
    Segment.surface_area (mkSeg p d par) = .ok (areaSpec p d) := by
  rw [surface_area_eval]
  unfold areaSpec
  by_cases hc : Coincident p d
  · have hd : p.diameter = d.diameter := by
      by_contra hne; exact h ⟨hc, hne⟩
    simp [hc, hd]
  · simp [hc]

example : ¬ (Coincident (⟨0, 0, 0, 2⟩ : Pt ℝ) ⟨1, 0, 0, 4⟩ ∧ (⟨0, 0, 0, 2⟩ : Pt ℝ).diameter ≠ (⟨1, 0, 0, 4⟩ : Pt ℝ).diameter) := by
  unfold Coincident; norm_num

/-- the full statement fails: centres `(0,0,0)`, diameters `2` and `4` -/
theorem surface_area_closed_form_witness : ¬ surface_area_closed_form_full := by
  intro h
  have h1 := h ⟨0, 0, 0, 2⟩ ⟨0, 0, 0, 4⟩ none
  rw [surface_area_eval] at h1
  have hc : Coincident (⟨0, 0, 0, 2⟩ : Pt ℝ) ⟨0, 0, 0, 4⟩ := ⟨rfl, rfl, rfl⟩
  simp [hc] at h1

/-! ## non-negativity -/

/-- a returned surface area is non-negative — always in the sphere case, and in the frustum case as soon as the two
    diameters sum to a non-negative number (in particular when both are non-negative). -/
theorem surface_area_nonneg (p d : Pt ℝ) (par : Option (Par ℝ))
    (hs : ¬ Coincident p d → 0 ≤ p.diameter + d.diameter) (v : ℝ)
    (h : Segment.surface_area (mkSeg p d par) = .ok v) : 0 ≤ v := by
  rw [surface_area_eval] at h
  split at h
  · split at h
    · cases h; exact sphereArea_nonneg _
    · cases h
  · rename_i hc
    cases h
    exact frustumLateralArea_nonneg' _ _ _ (by have := hs hc; linarith)

example : ∃ v, Segment.surface_area (mkSeg (⟨0, 0, 0, 2⟩ : Pt ℝ) ⟨1, 0, 0, 4⟩ none) = .ok v ∧
    (¬ Coincident (⟨0, 0, 0, 2⟩ : Pt ℝ) ⟨1, 0, 0, 4⟩ → (0:ℝ) ≤ (⟨0, 0, 0, 2⟩ : Pt ℝ).diameter + (⟨1, 0, 0, 4⟩ : Pt ℝ).diameter) :=
  ⟨_, surface_area_frustum _ _ _ (by unfold Coincident; norm_num), fun _ => by norm_num⟩

/-- the hypothesis of `surface_area_nonneg` cannot be dropped: a cylinder of length 3 with diameters −2, −2 has
    "area" −6π -/
theorem surface_area_negative_witness :
    ∃ v, Segment.surface_area (mkSeg (⟨0, 0, 0, -2⟩ : Pt ℝ) ⟨0, 0, 3, -2⟩ none) = .ok v ∧ v < 0 := by
  have hc : ¬ Coincident (⟨0, 0, 0, -2⟩ : Pt ℝ) ⟨0, 0, 3, -2⟩ := by unfold Coincident; norm_num
  refine ⟨_, area_frustum_case _ _ _ hc, ?_⟩
  have hd : dist3 (⟨0, 0, 0, -2⟩ : Pt ℝ) ⟨0, 0, 3, -2⟩ = 3 := by
    unfold dist3
    rw [show ((0:ℝ) - 0) ^ 2 + (0 - 0) ^ 2 + (0 - 3) ^ 2 = 3 ^ 2 by norm_num]
    exact Real.sqrt_sq (by norm_num)
  rw [hd]
  unfold frustumLateralArea
  have h3 : Real.sqrt (((-2:ℝ) / 2 - -2 / 2) ^ 2 + 3 ^ 2) = 3 := by
    rw [show ((-2:ℝ) / 2 - -2 / 2) ^ 2 + 3 ^ 2 = 3 ^ 2 by norm_num]
    exact Real.sqrt_sq (by norm_num)
  rw [h3]
  have := Real.pi_pos
  nlinarith

/-! ## swap, translation, scaling (results *and* refusals are unchanged) -/

theorem surface_area_swap (p d : Pt ℝ) (par par' : Option (Par ℝ)) :
    Segment.surface_area (mkSeg d p par') = Segment.surface_area (mkSeg p d par) := by
  rw [surface_area_eval, surface_area_eval]
  by_cases hc : Coincident p d
  · have hc' := (coincident_comm p d).mp hc
    by_cases hd : p.diameter = d.diameter
    · simp [hc, hc', hd]
    · have hd' : ¬ d.diameter = p.diameter := fun h => hd h.symm
      simp [hc, hc', hd, hd']
  · have hc' : ¬ Coincident d p := fun h => hc ((coincident_comm p d).mpr h)
    simp [hc, hc', dist3_comm d p, frustumLateralArea_swap]

theorem surface_area_translate (tx ty tz : ℝ) (p d : Pt ℝ) (par : Option (Par ℝ)) :
    Segment.surface_area (mkSeg (p.translate tx ty tz) (d.translate tx ty tz) par) =
      Segment.surface_area (mkSeg p d par) := by
  exact area_congr p d _ _ par par (coincident_translate tx ty tz p d) rfl rfl (dist3_translate tx ty tz p d)

/-- uniform scaling by `k ≥ 0` (coordinates and diameters): the area scales with `k²` -/
theorem surface_area_scale (k : ℝ) (hk : 0 ≤ k) (p d : Pt ℝ) (par : Option (Par ℝ)) (v : ℝ)
    (h : Segment.surface_area (mkSeg p d par) = .ok v) :
    Segment.surface_area (mkSeg (p.scale k) (d.scale k) par) = .ok (k ^ 2 * v) := by
  rcases eq_or_lt_of_le hk with hk0 | hkpos
  · subst hk0
    rw [area_sphere_case _ _ par (coincident_scale_zero p d) (by simp [Pt.scale])]
    congr 1
    simp [sphereArea, Pt.scale]
  · have hk' : k ≠ 0 := ne_of_gt hkpos
    have hc := coincident_scale k hk' p d
    by_cases c : Coincident p d
    · by_cases e : p.diameter = d.diameter
      · rw [area_sphere_case p d par c e] at h; cases h
        rw [area_sphere_case _ _ par (hc.mpr c) (by simp [Pt.scale, e]), scale_diam, sphereArea_scale]
      · rw [area_raise_case p d par c e] at h; cases h
    · rw [area_frustum_case p d par c] at h; cases h
      rw [area_frustum_case _ _ par (fun x => c (hc.mp x)), scale_diam, scale_diam, dist3_scale k hk,
        frustumLateralArea_scale _ _ _ _ hk]

example : (0 : ℝ) ≤ 3 ∧ ∃ v, Segment.surface_area (mkSeg (⟨0, 0, 0, 2⟩ : Pt ℝ) ⟨1, 0, 0, 4⟩ none) = .ok v :=
  ⟨by norm_num, _, surface_area_frustum _ _ _ (by unfold Coincident; norm_num)⟩

/-- instances: swap, translation by (16, −8, 1/2), scaling by 3 of the oblique tapered segment (0,0,0,d=2)–(3,4,12,d=4) -/
example : Segment.surface_area (mkSeg (⟨3, 4, 12, 4⟩ : Pt ℝ) ⟨0, 0, 0, 2⟩ none) =
    Segment.surface_area (mkSeg ⟨0, 0, 0, 2⟩ ⟨3, 4, 12, 4⟩ none) := surface_area_swap _ _ _ _
example : Segment.surface_area (mkSeg ((⟨0, 0, 0, 2⟩ : Pt ℝ).translate 16 (-8) (1 / 2)) ((⟨3, 4, 12, 4⟩ : Pt ℝ).translate 16 (-8) (1 / 2)) none)
    = Segment.surface_area (mkSeg ⟨0, 0, 0, 2⟩ ⟨3, 4, 12, 4⟩ none) := surface_area_translate _ _ _ _ _ _
example : Segment.surface_area (mkSeg ((⟨0, 0, 0, 2⟩ : Pt ℝ).scale 3) ((⟨3, 4, 12, 4⟩ : Pt ℝ).scale 3) none)
    = .ok (3 ^ 2 * frustumLateralArea (dist3 ⟨0, 0, 0, 2⟩ ⟨3, 4, 12, 4⟩) (2 / 2) (4 / 2)) :=
  surface_area_scale 3 (by norm_num) _ _ _ _ (surface_area_frustum _ _ _ (by unfold Coincident; norm_num))

/-! ## "to floating-point rounding" -/

open Rounding in
/-- **frustum lateral area to rounding** (distinct centres, non-negative diameters): 10 roundings -/
theorem surface_area_frustum_rounding {u : ℝ} (M : FloatModel u) (hu0 : 0 ≤ u) (hu1 : u ≤ 1) (p d : Pt ℝ) (par : Option (Par ℝ)) (hc : ¬ Coincident p d)
    (h1 : 0 ≤ p.diameter) (h2 : 0 ≤ d.diameter) :
    ∃ v, flSurfaceArea M (mkSeg p d par) = .ok v ∧
      Near u 10 v (frustumLateralArea (dist3 p d) (p.diameter / 2) (d.diameter / 2)) := by
  have h3 : ¬ ((p.x = d.x ∧ p.y = d.y) ∧ p.z = d.z) := fun h => hc ⟨h.1.1, h.1.2, h.2⟩
  set r1 := p.diameter / 2 with hr1
  set r2 := d.diameter / 2 with hr2
  have r1n : 0 ≤ r1 := by positivity
  have r2n : 0 ≤ r2 := by positivity
  refine ⟨M.mul (M.mul M.pi (M.add r1 r2)) (M.sqrt (M.add (M.sq (M.sub r1 r2)) (M.sq (flDist M p d)))), ?_, ?_⟩
  · simp only [flSurfaceArea, Segment.surface_area, mkSeg, flLength_eq, ops_eq, ops_half, Bool.and_eq_true,
      decide_eq_true_eq, h3, if_false, noOverflow, ipow2, Bool.false_eq_true]
    rfl
  · have hL : Near u 4 (flDist M p d) (dist3 p d) := near_fl_dist M hu0 hu1 p d
    have Ln := dist3_nonneg p d
    have hsum : Near u 1 (M.add r1 r2) (r1 + r2) := by
      have := near_fl_add M hu0 hu1 r1n r2n (near_refl hu0 hu1 r1) (near_refl hu0 hu1 r2)
      simpa using this
    have hA := near_fl_mul M hu0 hu1 Real.pi_pos.le (add_nonneg r1n r2n) (near_fl_pi M hu0 hu1) hsum
    have hd2 := near_fl_sub_sq M hu0 hu1 r1 r2
    have hL2 : Near u 9 (M.sq (flDist M p d)) (dist3 p d * dist3 p d) := near_fl_mul M hu0 hu1 Ln Ln hL hL
    have hS := near_fl_add M hu0 hu1 (mul_self_nonneg (r1 - r2)) (mul_nonneg Ln Ln)
      (near_mono hu0 hu1 (by omega) (mul_self_nonneg (r1 - r2)) hd2) hL2
    have hSn : 0 ≤ (r1 - r2) * (r1 - r2) + dist3 p d * dist3 p d := add_nonneg (mul_self_nonneg _) (mul_nonneg Ln Ln)
    have hR := near_fl_sqrt M hu0 hu1 hSn (show Near u (2 * 5) _ _ from hS)
    have hV := near_fl_mul M hu0 hu1 (mul_nonneg Real.pi_pos.le (add_nonneg r1n r2n)) (Real.sqrt_nonneg _) hA hR
    have e : frustumLateralArea (dist3 p d) r1 r2 =
        Real.pi * (r1 + r2) * Real.sqrt ((r1 - r2) * (r1 - r2) + dist3 p d * dist3 p d) := by
      unfold frustumLateralArea; congr 2; ring
    rw [e]; exact hV

open Rounding in
/-- **sphere area to rounding** (coincident centres, equal diameters of either sign): 4 roundings -/
theorem surface_area_sphere_rounding {u : ℝ} (M : FloatModel u) (hu0 : 0 ≤ u) (hu1 : u ≤ 1) (p d : Pt ℝ) (par : Option (Par ℝ)) (hc : Coincident p d)
    (hd : p.diameter = d.diameter) :
    ∃ v, flSurfaceArea M (mkSeg p d par) = .ok v ∧ Near u 4 v (sphereArea (p.diameter / 2)) := by
  obtain ⟨hx, hy, hz⟩ := hc
  set r := p.diameter / 2 with hr
  refine ⟨M.mul (M.mul 4 M.pi) (M.sq r), ?_, ?_⟩
  · simp only [flSurfaceArea, Segment.surface_area, mkSeg, ops_eq, ops_half, hx, hy, hz, ← hd, decide_true, Bool.and_self,
      if_true, Bool.not_true, Bool.false_eq_true, if_false, noOverflow, ipow2]
    show Except.ok (M.mul (M.mul ((4 : ℕ) : ℝ) M.pi) _) = _
    simp only [Nat.cast_ofNat, hr]
  · have hA : Near u 2 (M.mul 4 M.pi) (4 * Real.pi) := by
      have := near_fl_mul M hu0 hu1 (by norm_num : (0:ℝ) ≤ 4) Real.pi_pos.le (near_refl hu0 hu1 4) (near_fl_pi M hu0 hu1)
      simpa using this
    have s1 := near_fl_sq_exact M hu0 hu1 r
    have hV := near_fl_mul M hu0 hu1 (by positivity) (mul_self_nonneg r) hA s1
    have e : sphereArea r = 4 * Real.pi * (r * r) := by unfold sphereArea; ring
    rw [e]; exact hV

/-- the hypotheses are satisfiable (exact arithmetic is a floating-point model; oblique tapered frustum) -/
example : ∃ v, Rounding.flSurfaceArea (Rounding.FloatModel.exact (1 / 2) (by norm_num))
    (mkSeg (⟨0, 0, 0, 2⟩ : Pt ℝ) ⟨3, 4, 12, 4⟩ none) = .ok v ∧
    Rounding.Near (1 / 2) 10 v (frustumLateralArea (dist3 ⟨0, 0, 0, 2⟩ ⟨3, 4, 12, 4⟩) (2 / 2) (4 / 2)) :=
  surface_area_frustum_rounding _ (by norm_num) (by norm_num) _ _ _ (by unfold Coincident; norm_num) (by norm_num) (by norm_num)

end NmlVerif.Geom.C12
