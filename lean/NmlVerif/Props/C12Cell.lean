import NmlVerif.Proofs.GeomCell
import NmlVerif.Proofs.GeomFuel
/-!
# C12, part 4: the inherited proximal point — `Cell.get_actual_proximal` (generated; recursion tied with fuel in
`Model/Geom.lean`) and `Cell.get_segment` (hand model: first match in document order)

Specification `Inherits c id q` (`Proofs/GeomCell.lean`), directly from the parent / `fraction_along` definition: a
segment's actual proximal point is its own when it has one; otherwise the parent's distal point when
`fraction_along = 1`; otherwise `pp + f·(pd − pp)` (coordinates and diameter alike) where `pp` is the PARENT's actual
proximal point — to arbitrary depth. No restriction on `f` (values outside `[0,1]` extrapolate, as the code does).
-/
namespace NmlVerif.Geom.C12
open NmlVerif.Gen.Geom NmlVerif.Geom

/-! ## generated = hand-written model -/

/-- the regenerated `Cell.get_actual_proximal`, with the recursion tied by fuel, is the hand-written recursive model:
    every cell, every fuel, every segment id (results and errors alike) -/
theorem gen_eq_hand_actual_proximal (c : Cell ℝ) (fuel id : Nat) :
    actualProximal c fuel id = Hand.actualProximal c fuel id := gen_eq_hand_actual_proximal' c fuel id

/-! ## correctness, soundness, fuel -/

/-- completeness + fuel sufficiency: `get_actual_proximal` returns the point the parent / `fraction_along`
    definition assigns, for every fuel above a bound (fuel = Python recursion depth). -/
theorem actual_proximal_correct (c : Cell ℝ) (id : Nat) (q : Pt ℝ) (h : Inherits c id q) :
    ∃ n, ∀ fuel, n ≤ fuel → actualProximal c fuel id = .ok q := actualProximal_of_inherits c id q h

/-- soundness: whatever `get_actual_proximal` returns, with whatever fuel, is the point the definition assigns -/
theorem actual_proximal_sound (c : Cell ℝ) (fuel id : Nat) (q : Pt ℝ) (h : actualProximal c fuel id = .ok q) :
    Inherits c id q := inherits_of_actualProximal c fuel id q h

/-- the set of results of the code is exactly the specification -/
theorem actual_proximal_iff (c : Cell ℝ) (id : Nat) (q : Pt ℝ) :
    (∃ fuel, actualProximal c fuel id = .ok q) ↔ Inherits c id q :=
  ⟨fun ⟨fuel, h⟩ => actual_proximal_sound c fuel id q h,
   fun h => by obtain ⟨n, hn⟩ := actual_proximal_correct c id q h; exact ⟨n, hn n (Nat.le_refl n)⟩⟩

/-- fuel monotonicity: once a point is returned, more fuel (a higher recursion limit) returns the same point -/
theorem actual_proximal_fuel_mono (c : Cell ℝ) (fuel fuel' id : Nat) (q : Pt ℝ)
    (h : actualProximal c fuel id = .ok q) (hf : fuel ≤ fuel') : actualProximal c fuel' id = .ok q :=
  actualProximal_mono c fuel id q h fuel' hf

/-- **explicit fuel bound** (arbitrary depth of inheritance): a call that returns at all visits pairwise distinct
    segments, hence returns within as many recursive calls as the cell has segments; the model with fuel `c.length`
    (the harness uses `c.length + 2`) therefore decides the result for EVERY recursion limit -/
theorem actual_proximal_fuel_bound (c : Cell ℝ) (fuel id : Nat) (q : Pt ℝ) (h : actualProximal c fuel id = .ok q) :
    actualProximal c c.length id = .ok q := actualProximal_fuel_bound c fuel id q h

/-- the specification in executable form: `Inherits` holds exactly when the model with fuel `c.length` returns the point -/
theorem inherits_iff_bounded (c : Cell ℝ) (id : Nat) (q : Pt ℝ) :
    Inherits c id q ↔ actualProximal c c.length id = .ok q :=
  ⟨fun h => by obtain ⟨n, hn⟩ := actual_proximal_correct c id q h
               exact actual_proximal_fuel_bound c n id q (hn n (Nat.le_refl n)),
   fun h => actual_proximal_sound c _ id q h⟩

/-- the definition assigns at most one point (so "the" inherited point is well defined) -/
theorem inherits_unique (c : Cell ℝ) (id : Nat) (q q' : Pt ℝ) (h : Inherits c id q) (h' : Inherits c id q') : q = q' := by
  obtain ⟨n, hn⟩ := actual_proximal_correct c id q h
  obtain ⟨n', hn'⟩ := actual_proximal_correct c id q' h'
  have a := hn (max n n') (Nat.le_max_left _ _)
  have b := hn' (max n n') (Nat.le_max_right _ _)
  rw [a] at b
  cases b; rfl

/-- one step of the definition, as the code computes it: own proximal point if present -/
theorem actual_proximal_own (c : Cell ℝ) (fuel id : Nat) (seg : Seg ℝ) (p : Pt ℝ)
    (h1 : getSegment c id = .ok seg) (h2 : seg.proximal = some p) : actualProximal c (fuel + 1) id = .ok p :=
  get_actual_proximal_own _ _ id seg p h1 h2

/-- non-trivial instance: segment 1 has no proximal point and hangs half-way along the TAPERED segment 0
    (diameters 2 → 4), segment 2 hangs a quarter along segment 1 (two levels of inheritance) -/
noncomputable def exCell : Cell ℝ :=
  [(0, ⟨some ⟨0, 0, 0, 2⟩, ⟨10, 0, 0, 4⟩, none⟩), (1, ⟨none, ⟨5, 8, 0, 1⟩, some ⟨0, 1 / 2⟩⟩),
   (2, ⟨none, ⟨5, 2, 7, 1⟩, some ⟨1, 1 / 4⟩⟩)]

theorem exCell_inherits_1 : Inherits exCell 1 (lerp (1 / 2) ⟨0, 0, 0, 2⟩ ⟨10, 0, 0, 4⟩) :=
  Inherits.along (seg := ⟨none, ⟨5, 8, 0, 1⟩, some ⟨0, 1 / 2⟩⟩) (ps := ⟨some ⟨0, 0, 0, 2⟩, ⟨10, 0, 0, 4⟩, none⟩)
    (par := ⟨0, 1 / 2⟩) (by simp [exCell, getSegment]) rfl rfl (by simp [exCell, getSegment])
    (Inherits.own (seg := ⟨some ⟨0, 0, 0, 2⟩, ⟨10, 0, 0, 4⟩, none⟩) (by simp [exCell, getSegment]) rfl)

/-- two levels deep: the parent's proximal point is itself inherited -/
theorem exCell_inherits_2 :
    Inherits exCell 2 (lerp (1 / 4) (lerp (1 / 2) ⟨0, 0, 0, 2⟩ ⟨10, 0, 0, 4⟩) ⟨5, 8, 0, 1⟩) :=
  Inherits.along (seg := ⟨none, ⟨5, 2, 7, 1⟩, some ⟨1, 1 / 4⟩⟩) (ps := ⟨none, ⟨5, 8, 0, 1⟩, some ⟨0, 1 / 2⟩⟩)
    (par := ⟨1, 1 / 4⟩) (by simp [exCell, getSegment]) rfl rfl (by simp [exCell, getSegment]) exCell_inherits_1

/-- the inherited point of segment 1 is (5, 0, 0) with the INTERPOLATED diameter 3 -/
example : lerp (1 / 2) (⟨0, 0, 0, 2⟩ : Pt ℝ) ⟨10, 0, 0, 4⟩ = ⟨5, 0, 0, 3⟩ := by
  simp only [lerp]; congr 1 <;> norm_num

example : ∃ n, ∀ fuel, n ≤ fuel →
    actualProximal exCell fuel 2 = .ok (lerp (1 / 4) (lerp (1 / 2) ⟨0, 0, 0, 2⟩ ⟨10, 0, 0, 4⟩) ⟨5, 8, 0, 1⟩) :=
  actual_proximal_correct _ _ _ exCell_inherits_2

/-! ## parent cycles -/

/-- a set of segments closed under `parent`, none with a proximal point, none attached at fraction 1 (e.g. a cycle
    of parent pointers): `get_actual_proximal` never returns a point; it exhausts every fuel (Python:
    `RecursionError` at the interpreter's recursion limit) -/
theorem parent_cycle_recursion_error (c : Cell ℝ) (S : Nat → Prop)
    (hS : ∀ id, S id → ∃ seg par ps, getSegment c id = .ok seg ∧ seg.proximal = none ∧ seg.parent = some par ∧
      getSegment c par.segments = .ok ps ∧ par.fraction_along ≠ 1 ∧ S par.segments)
    (fuel id : Nat) (hid : S id) :
    actualProximal c fuel id = .error ⟨"RecursionError", "maximum recursion depth exceeded"⟩ :=
  actualProximal_cycle c S hS fuel id hid

/-- two segments that are each other's parent -/
noncomputable def exCycle : Cell ℝ :=
  [(0, ⟨none, ⟨1, 0, 0, 1⟩, some ⟨1, 1 / 2⟩⟩), (1, ⟨none, ⟨2, 0, 0, 1⟩, some ⟨0, 0⟩⟩)]

example (fuel : Nat) : actualProximal exCycle fuel 0 = .error ⟨"RecursionError", "maximum recursion depth exceeded"⟩ := by
  refine parent_cycle_recursion_error exCycle (fun i => i = 0 ∨ i = 1) ?_ fuel 0 (Or.inl rfl)
  intro id hid
  rcases hid with rfl | rfl
  · exact ⟨⟨none, ⟨1, 0, 0, 1⟩, some ⟨1, 1 / 2⟩⟩, ⟨1, 1 / 2⟩, ⟨none, ⟨2, 0, 0, 1⟩, some ⟨0, 0⟩⟩,
      by simp [exCycle, getSegment], rfl, rfl, by simp [exCycle, getSegment], by norm_num, Or.inr rfl⟩
  · exact ⟨⟨none, ⟨2, 0, 0, 1⟩, some ⟨0, 0⟩⟩, ⟨0, 0⟩, ⟨none, ⟨1, 0, 0, 1⟩, some ⟨1, 1 / 2⟩⟩,
      by simp [exCycle, getSegment], rfl, rfl, by simp [exCycle, getSegment], by norm_num, Or.inl rfl⟩

/-- consequently the definition assigns no point to a segment on such a cycle -/
theorem parent_cycle_no_point (c : Cell ℝ) (S : Nat → Prop)
    (hS : ∀ id, S id → ∃ seg par ps, getSegment c id = .ok seg ∧ seg.proximal = none ∧ seg.parent = some par ∧
      getSegment c par.segments = .ok ps ∧ par.fraction_along ≠ 1 ∧ S par.segments)
    (id : Nat) (hid : S id) (q : Pt ℝ) : ¬ Inherits c id q := by
  intro h
  obtain ⟨n, hn⟩ := actual_proximal_correct c id q h
  have := hn n (Nat.le_refl n)
  rw [parent_cycle_recursion_error c S hS n id hid] at this
  cases this

/-! ## `Cell.get_segment`: linear scan, first match in document order (any number type) -/

/-- `get_segment` returns `seg` exactly when `(id, seg)` is the FIRST entry with that id (duplicates later in the
    document are never seen) -/
theorem get_segment_first_match {α : Type} (c : Cell α) (id : Nat) (seg : Seg α) :
    getSegment c id = .ok seg ↔ ∃ pre post, c = pre ++ (id, seg) :: post ∧ ∀ e ∈ pre, e.1 ≠ id :=
  getSegment_ok_iff c id seg

/-- `get_segment` raises (`ValueError`) exactly when no segment has that id -/
theorem get_segment_missing {α : Type} (c : Cell α) (id : Nat) :
    (∃ e, getSegment c id = .error e) ↔ ∀ x ∈ c, x.1 ≠ id := getSegment_error_iff c id

example : getSegment exCell 1 = .ok ⟨none, ⟨5, 8, 0, 1⟩, some ⟨0, 1 / 2⟩⟩ := by simp [exCell, getSegment]
example : ∃ e, getSegment exCell 7 = .error e := (get_segment_missing exCell 7).mpr (by simp [exCell])

end NmlVerif.Geom.C12
