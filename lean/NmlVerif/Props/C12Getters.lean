import NmlVerif.Proofs.GeomGetters
import NmlVerif.Proofs.GeomCell
import NmlVerif.Proofs.GeomVolume
import NmlVerif.Proofs.GeomArea
import NmlVerif.Props.C12Cell
/-!
# C12, part 5: the cell-level getters return the segment-level values, using the inherited point when the segment has
no proximal point of its own (`Cell.get_segment_length / _surface_area / _volume`, generated definitions)
-/
namespace NmlVerif.Geom.C12
open NmlVerif.Gen.Geom NmlVerif.Geom

/-! ## generated = hand-written model (every cell, fuel and id; results and errors alike) -/

theorem gen_eq_hand_segment_length (c : Cell ℝ) (fuel id : Nat) :
    segmentLength c fuel id = Hand.segmentLength c fuel id := by
  unfold segmentLength Hand.segmentLength Hand.withActualProximal
  rw [← gen_eq_hand_actual_proximal']
  cases h1 : getSegment c id with
  | error e => simp [Cell.get_segment_length, h1]
  | ok seg =>
    cases h2 : seg.proximal with
    | some p => rw [get_segment_length_own _ _ id seg p h1 h2, gen_eq_hand_length']; simp [h2]
    | none =>
      cases h3 : actualProximal c fuel id with
      | error e => simp [Cell.get_segment_length, h1, h2, h3]
      | ok q =>
        rw [get_segment_length_inh _ _ id seg q h1 h2 h3, length_eval, dist3_comm]
        simp [h2, hand_dist_eval]

theorem gen_eq_hand_segment_volume (c : Cell ℝ) (fuel id : Nat) :
    segmentVolume c fuel id = Hand.segmentVolume c fuel id := by
  unfold segmentVolume Hand.segmentVolume Hand.withActualProximal
  rw [← gen_eq_hand_actual_proximal']
  cases h1 : getSegment c id with
  | error e => simp [Cell.get_segment_volume, h1]
  | ok seg =>
    cases h2 : seg.proximal with
    | some p => rw [get_segment_volume_own _ _ id seg p h1 h2, gen_eq_hand_volume']; simp [h2]
    | none =>
      cases h3 : actualProximal c fuel id with
      | error e => simp [Cell.get_segment_volume, h1, h2, h3]
      | ok q =>
        rw [get_segment_volume_inh _ _ id seg q h1 h2 h3, gen_eq_hand_volume']
        simp [h2, Hand.volume, mkSeg]

theorem gen_eq_hand_segment_surface_area (c : Cell ℝ) (fuel id : Nat) :
    segmentSurfaceArea c fuel id = Hand.segmentSurfaceArea c fuel id := by
  unfold segmentSurfaceArea Hand.segmentSurfaceArea Hand.withActualProximal
  rw [← gen_eq_hand_actual_proximal']
  cases h1 : getSegment c id with
  | error e => simp [Cell.get_segment_surface_area, h1]
  | ok seg =>
    cases h2 : seg.proximal with
    | some p => rw [get_segment_surface_area_own _ _ id seg p h1 h2, gen_eq_hand_surface_area']; simp [h2]
    | none =>
      cases h3 : actualProximal c fuel id with
      | error e => simp [Cell.get_segment_surface_area, h1, h2, h3]
      | ok q =>
        rw [get_segment_surface_area_inh _ _ id seg q h1 h2 h3, gen_eq_hand_surface_area']
        simp [h2, Hand.surfaceArea, mkSeg]

/-! ## cell-level = segment-level -/

/-- **in EVERY number type** (in particular in floating point, bit for bit): the cell-level volume / surface-area getters
    ARE the segment-level properties — of the segment itself when it has a proximal point, else of the temporary
    segment `(inherited point, distal)`; the errors of `get_segment` / `get_actual_proximal` propagate. So no rounding
    difference can arise between the two levels. -/
theorem cell_getters_any_number_type {α : Type} [GeomOps α] (c : Cell α) (fuel id : Nat) :
    segmentVolume c fuel id =
      (match getSegment c id with
       | .error e => .error e
       | .ok seg =>
         match seg.proximal with
         | some _ => Segment.volume seg
         | none =>
           match actualProximal c fuel id with
           | .error e => .error e
           | .ok q => Segment.volume ⟨some q, seg.distal, none⟩) ∧
    segmentSurfaceArea c fuel id =
      (match getSegment c id with
       | .error e => .error e
       | .ok seg =>
         match seg.proximal with
         | some _ => Segment.surface_area seg
         | none =>
           match actualProximal c fuel id with
           | .error e => .error e
           | .ok q => Segment.surface_area ⟨some q, seg.distal, none⟩) ∧
    segmentLength c fuel id =
      (match getSegment c id with
       | .error e => .error e
       | .ok seg =>
         match seg.proximal with
         | some _ => Segment.length seg
         | none =>
           match actualProximal c fuel id with
           | .error e => .error e
           | .ok q => Point3DWithDiam.distance_to seg.distal q) := by
  refine ⟨?_, ?_, ?_⟩
  · unfold segmentVolume Cell.get_segment_volume
    cases getSegment c id with
    | error e => rfl
    | ok seg =>
      cases h : seg.proximal with
      | some p => simp [h]
      | none =>
        cases actualProximal c fuel id with
        | error e => simp [h]
        | ok q => simp [h]
  · unfold segmentSurfaceArea Cell.get_segment_surface_area
    cases getSegment c id with
    | error e => rfl
    | ok seg =>
      cases h : seg.proximal with
      | some p => simp [h]
      | none =>
        cases actualProximal c fuel id with
        | error e => simp [h]
        | ok q => simp [h]
  · unfold segmentLength Cell.get_segment_length
    cases getSegment c id with
    | error e => rfl
    | ok seg =>
      cases h : seg.proximal with
      | some p => simp [h]
      | none =>
        cases actualProximal c fuel id with
        | error e => simp [h]
        | ok q =>
          simp only [h]
          cases Point3DWithDiam.distance_to seg.distal q <;> rfl


/-- the three getters, for a segment whose actual proximal point is `q`: the segment-level formula applied to
    `(q, distal)`. Covers both the segment's own proximal (`Inherits.own`) and an inherited one. -/
theorem cell_getters (c : Cell ℝ) (id : Nat) (seg : Seg ℝ) (q : Pt ℝ) (hs : getSegment c id = .ok seg)
    (h : Inherits c id q) :
    ∃ n, ∀ fuel, n ≤ fuel →
      segmentLength c fuel id = Segment.length (mkSeg q seg.distal none) ∧
      segmentVolume c fuel id = Segment.volume (mkSeg q seg.distal none) ∧
      segmentSurfaceArea c fuel id = Segment.surface_area (mkSeg q seg.distal none) := by
  obtain ⟨n, hn⟩ := actualProximal_of_inherits c id q h
  refine ⟨n, fun fuel hf => ?_⟩
  have hap := hn fuel hf
  unfold segmentLength segmentVolume segmentSurfaceArea
  cases hp : seg.proximal with
  | some p =>
    -- own proximal: `Inherits` can only have used `own`, so q = p
    have hq : q = p := by
      cases h with
      | own h1 h2 => rw [hs] at h1; cases h1; rw [hp] at h2; cases h2; rfl
      | atEnd h1 h2 => rw [hs] at h1; cases h1; rw [hp] at h2; cases h2
      | along h1 h2 => rw [hs] at h1; cases h1; rw [hp] at h2; cases h2
    subst hq
    have hseg : seg = mkSeg q seg.distal seg.parent := by
      obtain ⟨a, b, c'⟩ := seg; simp only [mkSeg] at *; rw [hp]
    refine ⟨?_, ?_, ?_⟩
    · rw [get_segment_length_own _ _ id seg q hs hp]
      conv_lhs => rw [hseg]
      rw [length_eval, length_eval]
    · rw [get_segment_volume_own _ _ id seg q hs hp]
      conv_lhs => rw [hseg]
      exact volume_par_irrel _ _ _ _
    · rw [get_segment_surface_area_own _ _ id seg q hs hp]
      conv_lhs => rw [hseg]
      exact surface_area_par_irrel _ _ _ _
  | none =>
    exact ⟨get_segment_length_inh _ _ id seg q hs hp hap, get_segment_volume_inh _ _ id seg q hs hp hap,
      get_segment_surface_area_inh _ _ id seg q hs hp hap⟩

/-- instance: segment 2 of `exCell` inherits its proximal point through two levels -/
example : ∃ n, ∀ fuel, n ≤ fuel →
    segmentLength exCell fuel 2 =
      Segment.length (mkSeg (lerp (1 / 4) (lerp (1 / 2) ⟨0, 0, 0, 2⟩ ⟨10, 0, 0, 4⟩) ⟨5, 8, 0, 1⟩) ⟨5, 2, 7, 1⟩ none) ∧
    segmentVolume exCell fuel 2 =
      Segment.volume (mkSeg (lerp (1 / 4) (lerp (1 / 2) ⟨0, 0, 0, 2⟩ ⟨10, 0, 0, 4⟩) ⟨5, 8, 0, 1⟩) ⟨5, 2, 7, 1⟩ none) ∧
    segmentSurfaceArea exCell fuel 2 =
      Segment.surface_area (mkSeg (lerp (1 / 4) (lerp (1 / 2) ⟨0, 0, 0, 2⟩ ⟨10, 0, 0, 4⟩) ⟨5, 8, 0, 1⟩) ⟨5, 2, 7, 1⟩ none) :=
  cell_getters exCell 2 ⟨none, ⟨5, 2, 7, 1⟩, some ⟨1, 1 / 4⟩⟩ _ (by simp [exCell, getSegment]) exCell_inherits_2

/-- a segment with its own proximal point: the getters are the segment-level properties -/
example : ∃ n, ∀ fuel, n ≤ fuel →
    segmentLength exCell fuel 0 = Segment.length (mkSeg ⟨0, 0, 0, 2⟩ ⟨10, 0, 0, 4⟩ none) ∧
    segmentVolume exCell fuel 0 = Segment.volume (mkSeg ⟨0, 0, 0, 2⟩ ⟨10, 0, 0, 4⟩ none) ∧
    segmentSurfaceArea exCell fuel 0 = Segment.surface_area (mkSeg ⟨0, 0, 0, 2⟩ ⟨10, 0, 0, 4⟩ none) :=
  cell_getters exCell 0 ⟨some ⟨0, 0, 0, 2⟩, ⟨10, 0, 0, 4⟩, none⟩ _ (by simp [exCell, getSegment])
    (Inherits.own (seg := ⟨some ⟨0, 0, 0, 2⟩, ⟨10, 0, 0, 4⟩, none⟩) (by simp [exCell, getSegment]) rfl)

/-- when the definition assigns no proximal point (unknown id, missing parent, parent cycle) the getters of a segment
    WITHOUT own proximal point return no value for any fuel (they propagate the error of `get_actual_proximal`) -/
theorem cell_getters_undefined (c : Cell ℝ) (id : Nat) (seg : Seg ℝ) (hs : getSegment c id = .ok seg)
    (hp : seg.proximal = none) (hno : ∀ q, ¬ Inherits c id q) (fuel : Nat) :
    (∃ e, segmentLength c fuel id = .error e) ∧ (∃ e, segmentVolume c fuel id = .error e) ∧
    (∃ e, segmentSurfaceArea c fuel id = .error e) := by
  cases h : actualProximal c fuel id with
  | ok q => exact absurd (actual_proximal_sound c fuel id q h) (hno q)
  | error e =>
    refine ⟨⟨e, ?_⟩, ⟨e, ?_⟩, ⟨e, ?_⟩⟩
    · simp [segmentLength, Cell.get_segment_length, hs, hp, h]
    · simp [segmentVolume, Cell.get_segment_volume, hs, hp, h]
    · simp [segmentSurfaceArea, Cell.get_segment_surface_area, hs, hp, h]

example : ∀ q, ¬ Inherits exCycle 0 q := by
  intro q
  refine parent_cycle_no_point exCycle (fun i => i = 0 ∨ i = 1) ?_ 0 (Or.inl rfl) q
  intro id hid
  rcases hid with rfl | rfl
  · exact ⟨⟨none, ⟨1, 0, 0, 1⟩, some ⟨1, 1 / 2⟩⟩, ⟨1, 1 / 2⟩, ⟨none, ⟨2, 0, 0, 1⟩, some ⟨0, 0⟩⟩,
      by simp [exCycle, getSegment], rfl, rfl, by simp [exCycle, getSegment], by norm_num, Or.inr rfl⟩
  · exact ⟨⟨none, ⟨2, 0, 0, 1⟩, some ⟨0, 0⟩⟩, ⟨0, 0⟩, ⟨none, ⟨1, 0, 0, 1⟩, some ⟨1, 1 / 2⟩⟩,
      by simp [exCycle, getSegment], rfl, rfl, by simp [exCycle, getSegment], by norm_num, Or.inl rfl⟩

end NmlVerif.Geom.C12
