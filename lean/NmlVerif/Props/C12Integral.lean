import NmlVerif.Proofs.Geom
import NmlVerif.Proofs.GeomVolume
import NmlVerif.Proofs.GeomArea
import Mathlib.Analysis.SpecialFunctions.Integrals.Basic
import Mathlib.Analysis.InnerProductSpace.PiL2
/-!
# C12 (thorough tier) — the closed forms are tied to definitions, not restated

* `frustumVolume` is the integral of the circular cross-section area `π r(t)²` along the axis,
* `frustumLateralArea` is the integral of the circumference times the slant factor, `2π r(t) √(1 + r'²)`,
  where `r(t) = r₁ + (r₂ − r₁) t / L` is the radius at distance `t` from the proximal end;
* `dist3` is Mathlib's distance in `EuclideanSpace ℝ (Fin 3)`.

Heavier Mathlib imports (interval integrals, `PiL2`), hence built and audited in the thorough tier only.
-/
namespace NmlVerif.Geom.C12
open NmlVerif.Gen.Geom NmlVerif.Geom
open Real

/-- volume of the solid of revolution with linearly varying radius = the closed form -/
theorem frustumVolume_eq_integral (L r1 r2 : ℝ) (hL : L ≠ 0) :
    ∫ t in (0:ℝ)..L, π * (r1 + (r2 - r1) * t / L) ^ 2 = frustumVolume L r1 r2 := by
  have h : ∀ t : ℝ, π * (r1 + (r2 - r1) * t / L) ^ 2
      = π * r1 ^ 2 + (2 * π * r1 * (r2 - r1) / L) * t ^ 1 + (π * (r2 - r1) ^ 2 / L ^ 2) * t ^ 2 := by
    intro t; field_simp; ring
  simp_rw [h]
  rw [intervalIntegral.integral_add, intervalIntegral.integral_add]
  · simp only [intervalIntegral.integral_const, intervalIntegral.integral_const_mul, integral_pow]
    unfold frustumVolume
    field_simp
    ring
  all_goals (try (apply Continuous.intervalIntegrable; continuity))

/-- lateral area of the surface of revolution with linearly varying radius = the closed form -/
theorem frustumLateralArea_eq_integral (L r1 r2 : ℝ) (hL : 0 < L) :
    ∫ t in (0:ℝ)..L, 2 * π * (r1 + (r2 - r1) * t / L) * Real.sqrt (1 + ((r2 - r1) / L) ^ 2)
      = frustumLateralArea L r1 r2 := by
  have hne : L ≠ 0 := ne_of_gt hL
  set c := Real.sqrt (1 + ((r2 - r1) / L) ^ 2) with hc
  have h : ∀ t : ℝ, 2 * π * (r1 + (r2 - r1) * t / L) * c
      = 2 * π * r1 * c + (2 * π * c * (r2 - r1) / L) * t ^ 1 := by
    intro t; field_simp
  simp_rw [h]
  rw [intervalIntegral.integral_add]
  · simp only [intervalIntegral.integral_const, intervalIntegral.integral_const_mul, integral_pow]
    have hLc : L * c = Real.sqrt ((r1 - r2) ^ 2 + L ^ 2) := by
      have e : (r1 - r2) ^ 2 + L ^ 2 = L ^ 2 * (1 + ((r2 - r1) / L) ^ 2) := by field_simp; ring
      rw [hc, e, Real.sqrt_mul (by positivity), Real.sqrt_sq hL.le]
    unfold frustumLateralArea
    rw [← hLc]
    field_simp
    ring
  all_goals (try (apply Continuous.intervalIntegrable; continuity))

/-- the segment volume as an integral along the axis -/
theorem volume_eq_integral (p d : Pt ℝ) (par : Option (Par ℝ)) (h : ¬ Coincident p d) :
    Segment.volume (mkSeg p d par) =
      .ok (∫ t in (0:ℝ)..dist3 p d,
        π * (p.diameter / 2 + (d.diameter / 2 - p.diameter / 2) * t / dist3 p d) ^ 2) := by
  have hL : dist3 p d ≠ 0 := fun h0 => h ((dist3_eq_zero_iff p d).mp h0)
  rw [volume_frustum_case p d par h, frustumVolume_eq_integral _ _ _ hL]

/-- the segment surface area as an integral along the axis -/
theorem surface_area_eq_integral (p d : Pt ℝ) (par : Option (Par ℝ)) (h : ¬ Coincident p d) :
    Segment.surface_area (mkSeg p d par) =
      .ok (∫ t in (0:ℝ)..dist3 p d,
        2 * π * (p.diameter / 2 + (d.diameter / 2 - p.diameter / 2) * t / dist3 p d)
          * Real.sqrt (1 + ((d.diameter / 2 - p.diameter / 2) / dist3 p d) ^ 2)) := by
  have hL : 0 < dist3 p d :=
    lt_of_le_of_ne (dist3_nonneg p d) (fun h0 => h ((dist3_eq_zero_iff p d).mp h0.symm))
  rw [area_frustum_case p d par h, frustumLateralArea_eq_integral _ _ _ hL]

example : ¬ Coincident (⟨0, 0, 0, 2⟩ : Pt ℝ) ⟨1, 0, 0, 4⟩ := by unfold Coincident; norm_num

/-- the centre of a point as an element of Euclidean 3-space -/
noncomputable def toE (a : Pt ℝ) : EuclideanSpace ℝ (Fin 3) := !₂[a.x, a.y, a.z]

/-- `dist3` (hence `Segment.length`) is the distance of Euclidean 3-space -/
theorem dist3_eq_euclidean (a b : Pt ℝ) : dist3 a b = dist (toE a) (toE b) := by
  rw [EuclideanSpace.dist_eq]
  simp [toE, dist3, Fin.sum_univ_three, Real.dist_eq, sq_abs]

theorem length_eq_euclidean_dist (p d : Pt ℝ) (par : Option (Par ℝ)) :
    Segment.length (mkSeg p d par) = .ok (dist (toE p) (toE d)) := by
  rw [length_eval, dist3_eq_euclidean]

end NmlVerif.Geom.C12
