import NmlVerif.Proofs.GeomVolume
import NmlVerif.Proofs.GeomRounding
/-!
# C12, part 2: `Segment.volume` (generated definition, read at ℝ and in the floating-point model)
-/
namespace NmlVerif.Geom.C12
open NmlVerif.Gen.Geom NmlVerif.Geom

/-! ## generated = hand-written model -/

/-- the regenerated `Segment.volume` is the hand-written model, on every segment (with or without proximal point) -/
theorem gen_eq_hand_volume (s : Seg ℝ) : Segment.volume s = Hand.volume s := gen_eq_hand_volume' s

example : Hand.volume (mkSeg (⟨1, 2, 3, 2⟩ : Pt ℝ) ⟨1, 2, 3, 2⟩ none) = .ok (sphereVolume 1) := by
  rw [← gen_eq_hand_volume, volume_sphere_case _ _ _ ⟨rfl, rfl, rfl⟩ rfl]; norm_num

/-! ## the three branches, exactly as the code takes them -/

open Classical in
/-- complete case analysis of `Segment.volume` on a segment with both end points. The sphere branch is taken exactly
    when the three coordinates coincide (`Coincident`, the diameters play no part in the test); inside it the code
    returns the sphere value when the diameters are equal and REFUSES (raises) when they differ; otherwise the frustum. -/
theorem volume_cases (p d : Pt ℝ) (par : Option (Par ℝ)) :
    Segment.volume (mkSeg p d par) =
      if Coincident p d then
        (if p.diameter = d.diameter then .ok (sphereVolume (p.diameter / 2))
         else .error ⟨"Exception", "Cannot get volume of segment "⟩)
      else .ok (frustumVolume (dist3 p d) (p.diameter / 2) (d.diameter / 2)) := volume_eval p d par

/-- error branch: without a proximal point `volume` raises (the cell-level getter is to be used). -/
theorem volume_no_proximal_raises (d : Pt ℝ) (par : Option (Par ℝ)) :
    ∃ e, Segment.volume (⟨none, d, par⟩ : Seg ℝ) = .error e :=
  ⟨⟨"Exception", "Cannot get volume of segment "⟩, by simp [Segment.volume]⟩

/-- distinct centres: the volume is that of the conical frustum between the two discs. -/
theorem volume_frustum (p d : Pt ℝ) (par : Option (Par ℝ)) (h : ¬ Coincident p d) :
    Segment.volume (mkSeg p d par) = .ok (frustumVolume (dist3 p d) (p.diameter / 2) (d.diameter / 2)) := by
  rw [volume_eval]; simp [h]

/-- coincident centres, equal diameters: the volume of the sphere, `4/3·π·r³`. -/
theorem volume_sphere (p d : Pt ℝ) (par : Option (Par ℝ)) (h : Coincident p d) (hd : p.diameter = d.diameter) :
    Segment.volume (mkSeg p d par) = .ok (4 / 3 * Real.pi * (p.diameter / 2) ^ 3) := by
  rw [volume_eval]; simp [h, hd, sphereVolume]

example : ¬ Coincident (⟨0, 0, 0, 2⟩ : Pt ℝ) ⟨1, 0, 0, 4⟩ := by unfold Coincident; norm_num
/-- a segment along the z axis only is NOT coincident (all three coordinates take part in the test) -/
example : ¬ Coincident (⟨1, 2, 3, 2⟩ : Pt ℝ) ⟨1, 2, 5, 2⟩ := by unfold Coincident; norm_num
example : Coincident (⟨1, 2, 3, 2⟩ : Pt ℝ) ⟨1, 2, 3, 2⟩ ∧ (⟨1, 2, 3, 2⟩ : Pt ℝ).diameter = (⟨1, 2, 3, 2⟩ : Pt ℝ).diameter :=
  ⟨⟨rfl, rfl, rfl⟩, rfl⟩

/-- what the code does when the centres coincide and the diameters differ: it raises. -/
theorem volume_coincident_unequal_raises (p d : Pt ℝ) (par : Option (Par ℝ)) (h : Coincident p d)
    (hd : p.diameter ≠ d.diameter) : ∃ e, Segment.volume (mkSeg p d par) = .error e := by
  rw [volume_eval]; simp [h, hd]

example : Coincident (⟨0, 0, 0, 2⟩ : Pt ℝ) ⟨0, 0, 0, 4⟩ ∧ (⟨0, 0, 0, 2⟩ : Pt ℝ).diameter ≠ (⟨0, 0, 0, 4⟩ : Pt ℝ).diameter :=
  ⟨⟨rfl, rfl, rfl⟩, by norm_num⟩

/-! ### the closed-form clause at full strength, and the known finding

The property says: frustum for every segment with both end points, sphere when the points coincide *with equal
diameters*. For coincident centres with unequal diameters the frustum is degenerate (volume `0`); the code refuses
that input with an exception (deliberately; the repo's own test `test_cell_with_segs` expects the raise). Recorded as
known finding `C12:coincident-unequal-diameters:raises`. -/

open Classical in
/-- the value the property assigns to `volume` for every segment with both end points -/
noncomputable def volumeSpec (p d : Pt ℝ) : ℝ :=
  if Coincident p d ∧ p.diameter = d.diameter then sphereVolume (p.diameter / 2)
  else frustumVolume (dist3 p d) (p.diameter / 2) (d.diameter / 2)

/-- FULL statement (false for the current code, see `volume_closed_form_witness`) -/
def volume_closed_form_full : Prop :=
  ∀ (p d : Pt ℝ) (par : Option (Par ℝ)), Segment.volume (mkSeg p d par) = .ok (volumeSpec p d)

/-- strongest true restriction: everything except coincident centres with unequal diameters -/
theorem volume_closed_form_partial (p d : Pt ℝ) (par : Option (Par ℝ))
    (h : ¬ (Coincident p d ∧ p.diameter ≠ d.diameter)) :
    Segment.volume (mkSeg p d par) = .ok (volumeSpec p d) := by
  rw [volume_eval]
  unfold volumeSpec
  by_cases hc : Coincident p d
  · have hd : p.diameter = d.diameter := by
      by_contra hne; exact h ⟨hc, hne⟩
    simp [hc, hd]
  · simp [hc]

example : ¬ (Coincident (⟨0, 0, 0, 2⟩ : Pt ℝ) ⟨1, 0, 0, 4⟩ ∧ (⟨0, 0, 0, 2⟩ : Pt ℝ).diameter ≠ (⟨1, 0, 0, 4⟩ : Pt ℝ).diameter) := by
  unfold Coincident; norm_num

/-- the full statement fails: centres `(0,0,0)`, diameters `2` and `4` -/
theorem volume_closed_form_witness : ¬ volume_closed_form_full := by
  intro h
  have h1 := h ⟨0, 0, 0, 2⟩ ⟨0, 0, 0, 4⟩ none
  rw [volume_eval] at h1
  have hc : Coincident (⟨0, 0, 0, 2⟩ : Pt ℝ) ⟨0, 0, 0, 4⟩ := ⟨rfl, rfl, rfl⟩
  simp [hc] at h1

/-! ## non-negativity -/

/-- a returned volume is non-negative — for ALL diameters when the centres are distinct (`r₁²+r₁r₂+r₂² ≥ 0`), and for a
    non-negative diameter in the sphere case. (Negative diameters are schema-invalid but accepted by the classes.) -/
theorem volume_nonneg (p d : Pt ℝ) (par : Option (Par ℝ)) (hp : Coincident p d → 0 ≤ p.diameter) (v : ℝ)
    (h : Segment.volume (mkSeg p d par) = .ok v) : 0 ≤ v := by
  rw [volume_eval] at h
  split at h
  · rename_i hc
    split at h
    · cases h; exact sphereVolume_nonneg _ (by have := hp hc; positivity)
    · cases h
  · cases h; exact frustumVolume_nonneg' _ _ _ (dist3_nonneg p d)

example : ∃ v, Segment.volume (mkSeg (⟨0, 0, 0, 2⟩ : Pt ℝ) ⟨1, 0, 0, 4⟩ none) = .ok v ∧
    (Coincident (⟨0, 0, 0, 2⟩ : Pt ℝ) ⟨1, 0, 0, 4⟩ → (0 : ℝ) ≤ (⟨0, 0, 0, 2⟩ : Pt ℝ).diameter) :=
  ⟨_, volume_frustum _ _ _ (by unfold Coincident; norm_num), fun _ => by norm_num⟩

/-- the hypothesis of `volume_nonneg` cannot be dropped: the "sphere" of diameter −2 has volume −4π/3 -/
theorem volume_negative_witness :
    ∃ v, Segment.volume (mkSeg (⟨0, 0, 0, -2⟩ : Pt ℝ) ⟨0, 0, 0, -2⟩ none) = .ok v ∧ v < 0 := by
  refine ⟨_, volume_sphere_case _ _ _ ⟨rfl, rfl, rfl⟩ rfl, ?_⟩
  unfold sphereVolume
  have := Real.pi_pos
  norm_num
  linarith

/-! ## swap, translation, scaling (results *and* refusals are unchanged) -/

theorem volume_swap (p d : Pt ℝ) (par par' : Option (Par ℝ)) :
    Segment.volume (mkSeg d p par') = Segment.volume (mkSeg p d par) := by
  rw [volume_eval, volume_eval]
  by_cases hc : Coincident p d
  · have hc' := (coincident_comm p d).mp hc
    by_cases hd : p.diameter = d.diameter
    · simp [hc, hc', hd]
    · have hd' : ¬ d.diameter = p.diameter := fun h => hd h.symm
      simp [hc, hc', hd, hd']
  · have hc' : ¬ Coincident d p := fun h => hc ((coincident_comm p d).mpr h)
    simp [hc, hc', dist3_comm d p, frustumVolume_swap]

theorem volume_translate (tx ty tz : ℝ) (p d : Pt ℝ) (par : Option (Par ℝ)) :
    Segment.volume (mkSeg (p.translate tx ty tz) (d.translate tx ty tz) par) = Segment.volume (mkSeg p d par) := by
  exact volume_congr p d _ _ par par (coincident_translate tx ty tz p d) rfl rfl (dist3_translate tx ty tz p d)

/-- uniform scaling by `k ≥ 0` (coordinates and diameters): the volume scales with `k³` -/
theorem volume_scale (k : ℝ) (hk : 0 ≤ k) (p d : Pt ℝ) (par : Option (Par ℝ)) (v : ℝ)
    (h : Segment.volume (mkSeg p d par) = .ok v) :
    Segment.volume (mkSeg (p.scale k) (d.scale k) par) = .ok (k ^ 3 * v) := by
  rcases eq_or_lt_of_le hk with hk0 | hkpos
  · -- k = 0: everything collapses to the sphere of radius 0
    subst hk0
    rw [volume_sphere_case _ _ par (coincident_scale_zero p d) (by simp [Pt.scale])]
    congr 1
    simp [sphereVolume, Pt.scale]
  · have hk' : k ≠ 0 := ne_of_gt hkpos
    have hc := coincident_scale k hk' p d
    by_cases c : Coincident p d
    · by_cases e : p.diameter = d.diameter
      · rw [volume_sphere_case p d par c e] at h; cases h
        rw [volume_sphere_case _ _ par (hc.mpr c) (by simp [Pt.scale, e]), scale_diam, sphereVolume_scale]
      · rw [volume_raise_case p d par c e] at h; cases h
    · rw [volume_frustum_case p d par c] at h; cases h
      rw [volume_frustum_case _ _ par (fun x => c (hc.mp x)), scale_diam, scale_diam, dist3_scale k hk,
        frustumVolume_scale]

example : (0 : ℝ) ≤ 3 ∧ ∃ v, Segment.volume (mkSeg (⟨0, 0, 0, 2⟩ : Pt ℝ) ⟨1, 0, 0, 4⟩ none) = .ok v :=
  ⟨by norm_num, _, volume_frustum _ _ _ (by unfold Coincident; norm_num)⟩

/-- instances: swap, translation by (16, −8, 1/2), scaling by 3 of the oblique tapered segment (0,0,0,d=2)–(3,4,12,d=4) -/
example : Segment.volume (mkSeg (⟨3, 4, 12, 4⟩ : Pt ℝ) ⟨0, 0, 0, 2⟩ none) = Segment.volume (mkSeg ⟨0, 0, 0, 2⟩ ⟨3, 4, 12, 4⟩ none) :=
  volume_swap _ _ _ _
example : Segment.volume (mkSeg ((⟨0, 0, 0, 2⟩ : Pt ℝ).translate 16 (-8) (1 / 2)) ((⟨3, 4, 12, 4⟩ : Pt ℝ).translate 16 (-8) (1 / 2)) none)
    = Segment.volume (mkSeg ⟨0, 0, 0, 2⟩ ⟨3, 4, 12, 4⟩ none) := volume_translate _ _ _ _ _ _
example : Segment.volume (mkSeg ((⟨0, 0, 0, 2⟩ : Pt ℝ).scale 3) ((⟨3, 4, 12, 4⟩ : Pt ℝ).scale 3) none)
    = .ok (3 ^ 3 * frustumVolume (dist3 ⟨0, 0, 0, 2⟩ ⟨3, 4, 12, 4⟩) (2 / 2) (4 / 2)) :=
  volume_scale 3 (by norm_num) _ _ _ _ (volume_frustum _ _ _ (by unfold Coincident; norm_num))

/-! ## "to floating-point rounding" -/

open Rounding in
/-- **frustum volume to rounding** (distinct centres, non-negative diameters): 11 roundings -/
theorem volume_frustum_rounding {u : ℝ} (M : FloatModel u) (hu0 : 0 ≤ u) (hu1 : u ≤ 1) (p d : Pt ℝ) (par : Option (Par ℝ)) (hc : ¬ Coincident p d)
    (h1 : 0 ≤ p.diameter) (h2 : 0 ≤ d.diameter) :
    ∃ v, flVolume M (mkSeg p d par) = .ok v ∧
      Near u 11 v (frustumVolume (dist3 p d) (p.diameter / 2) (d.diameter / 2)) := by
  have h3 : ¬ ((p.x = d.x ∧ p.y = d.y) ∧ p.z = d.z) := fun h => hc ⟨h.1.1, h.1.2, h.2⟩
  set r1 := p.diameter / 2 with hr1
  set r2 := d.diameter / 2 with hr2
  have r1n : 0 ≤ r1 := by positivity
  have r2n : 0 ≤ r2 := by positivity
  refine ⟨M.mul (M.mul (M.div M.pi 3) (flDist M p d)) (M.add (M.add (M.sq r1) (M.sq r2)) (M.mul r1 r2)), ?_, ?_⟩
  · simp only [flVolume, Segment.volume, mkSeg, flLength_eq, ops_eq, ops_half, Bool.and_eq_true,
      decide_eq_true_eq, h3, if_false, noOverflow, ipow2, Bool.false_eq_true]
    rfl
  · have hL : Near u 4 (flDist M p d) (dist3 p d) := near_fl_dist M hu0 hu1 p d
    have hpi3 : Near u 2 (M.div M.pi 3) (Real.pi / 3) :=
      near_fl_div_const M hu0 hu1 Real.pi_pos.le (by norm_num) (near_fl_pi M hu0 hu1)
    have hA : Near u 7 (M.mul (M.div M.pi 3) (flDist M p d)) (Real.pi / 3 * dist3 p d) :=
      near_fl_mul M hu0 hu1 (by positivity) (dist3_nonneg p d) hpi3 hL
    have s1 := near_fl_sq_exact M hu0 hu1 r1
    have s2 := near_fl_sq_exact M hu0 hu1 r2
    have s12 := near_fl_add M hu0 hu1 (mul_self_nonneg r1) (mul_self_nonneg r2) s1 s2
    have m12 : Near u 1 (M.mul r1 r2) (r1 * r2) := by
      have := near_fl_mul M hu0 hu1 r1n r2n (near_refl hu0 hu1 r1) (near_refl hu0 hu1 r2)
      simpa using this
    have hB := near_fl_add M hu0 hu1 (add_nonneg (mul_self_nonneg r1) (mul_self_nonneg r2)) (mul_nonneg r1n r2n) s12
      (near_mono hu0 hu1 (by omega) (mul_nonneg r1n r2n) m12)
    have hV := near_fl_mul M hu0 hu1 (mul_nonneg (by positivity) (dist3_nonneg p d))
      (add_nonneg (add_nonneg (mul_self_nonneg r1) (mul_self_nonneg r2)) (mul_nonneg r1n r2n)) hA hB
    have e : frustumVolume (dist3 p d) r1 r2 = Real.pi / 3 * dist3 p d * (r1 * r1 + r2 * r2 + r1 * r2) := by
      unfold frustumVolume; ring
    rw [e]; exact hV

open Rounding in
/-- **sphere volume to rounding** (coincident centres, equal non-negative diameters): 6 roundings -/
theorem volume_sphere_rounding {u : ℝ} (M : FloatModel u) (hu0 : 0 ≤ u) (hu1 : u ≤ 1) (p d : Pt ℝ) (par : Option (Par ℝ)) (hc : Coincident p d)
    (hd : p.diameter = d.diameter) (h1 : 0 ≤ p.diameter) :
    ∃ v, flVolume M (mkSeg p d par) = .ok v ∧ Near u 6 v (sphereVolume (p.diameter / 2)) := by
  obtain ⟨hx, hy, hz⟩ := hc
  set r := p.diameter / 2 with hr
  have rn : 0 ≤ r := by positivity
  refine ⟨M.mul (M.mul (M.div 4 3) M.pi) (M.mul (M.sq r) r), ?_, ?_⟩
  · simp only [flVolume, Segment.volume, mkSeg, ops_eq, ops_half, hx, hy, hz, ← hd, decide_true, Bool.and_self,
      if_true, Bool.not_true, Bool.false_eq_true, if_false, noOverflow, ipow3]
    show Except.ok (M.mul (M.mul (M.div ((4 : ℕ) : ℝ) ((3 : ℕ) : ℝ)) M.pi) _) = _
    simp only [Nat.cast_ofNat, hr]
  · have h43 : Near u 1 (M.div 4 3) (4 / 3) := by
      have := near_fl_div_const M hu0 hu1 (by norm_num : (0:ℝ) ≤ 4) (by norm_num : (0:ℝ) < 3) (near_refl hu0 hu1 4)
      simpa using this
    have hA := near_fl_mul M hu0 hu1 (by norm_num : (0:ℝ) ≤ 4 / 3) Real.pi_pos.le h43 (near_fl_pi M hu0 hu1)
    have s1 := near_fl_sq_exact M hu0 hu1 r
    have hc3 := near_fl_mul M hu0 hu1 (mul_self_nonneg r) rn s1 (near_refl hu0 hu1 r)
    have hV := near_fl_mul M hu0 hu1 (by positivity) (mul_nonneg (mul_self_nonneg r) rn) hA hc3
    have e : sphereVolume r = 4 / 3 * Real.pi * (r * r * r) := by unfold sphereVolume; ring
    rw [e]; exact hV

/-- the hypotheses are satisfiable (exact arithmetic is a floating-point model; oblique tapered frustum) -/
example : ∃ v, Rounding.flVolume (Rounding.FloatModel.exact (1 / 2) (by norm_num))
    (mkSeg (⟨0, 0, 0, 2⟩ : Pt ℝ) ⟨3, 4, 12, 4⟩ none) = .ok v ∧
    Rounding.Near (1 / 2) 11 v (frustumVolume (dist3 ⟨0, 0, 0, 2⟩ ⟨3, 4, 12, 4⟩) (2 / 2) (4 / 2)) :=
  volume_frustum_rounding _ (by norm_num) (by norm_num) _ _ _ (by unfold Coincident; norm_num) (by norm_num) (by norm_num)

end NmlVerif.Geom.C12
