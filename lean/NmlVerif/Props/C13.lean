import NmlVerif.Proofs.Morph
/-!
# C13 — morphology metrics equal their definition on every tree

Model: `NmlVerif.Morph` (`Model/Morph.lean`): SPEC = the relations / functions `ActualProxS`, `ToProxS`, `ToDistS`,
`childrenS`, `rootsS`, `IsBranchS`, `IsTipS`, `AtDistanceS`, `prefixSumsS` written straight from the parent /
fraction_along definition; IMPLEMENTATION model = one function per method of `Cell`, following the code.
Tied to `neuroml/nml/nml.py` by `harness/props/c13.py` (exact rational correspondence, `Drivers/C13.lean`).

Every theorem quantifies over ALL morphologies `m` that are well-formed forests / trees (`IsForest`, `IsTree`:
unique ids, parents exist, SOME rank function decreases along parent links — any id numbering, any file order), over
all length functions `len`, all fractions. The recursion fuel is the one the driver uses (`m.length + 1`).
-/
namespace NmlVerif.Morph

/-- well-formed forest, rank function existentially quantified -/
def IsForest (m : Morph) : Prop := ∃ r, WfForest m r

/-- well-formed tree with root `root` -/
def IsTree (m : Morph) (root : Nat) : Prop := ∃ r, WfTree m r root

theorem IsTree.isForest {m : Morph} {root : Nat} (h : IsTree m root) : IsForest m :=
  let ⟨r, wt⟩ := h; ⟨r, wt.toWfForest⟩

def pt (x y z d : Rat) : Pt := ⟨x, y, z, d⟩

/-- a chain `3 → 2 → 0` rooted at id 3 whose tip has id 0 -/
def chain3 : Morph :=
  [⟨3, none, some (pt 0 0 0 1), pt 4 0 0 1⟩, ⟨2, some (3, 1), none, pt 8 0 0 1⟩, ⟨0, some (2, 1/2), none, pt 6 2 0 2⟩]

/-! ## the spec relations are functional -/

theorem c13_actualProxS_unique {m : Morph} {i : Nat} {p q : Pt} (hp : ActualProxS m i p) (hq : ActualProxS m i q) :
    p = q := hp.unique hq

theorem c13_toProxS_unique {m : Morph} {len : Nat → Rat} {i : Nat} {x y : Rat} (hx : ToProxS m len i x)
    (hy : ToProxS m len i y) : x = y := hx.unique hy

/-! ## 1. effective proximal point -/

/-- **`get_actual_proximal` = the point given by the definition** (own proximal point, else the point at
    `fraction_along` between the parent's effective proximal and its distal point), for every segment of every
    well-formed forest whose parentless segments carry a proximal point. The `fract == 1` and `fract == 0` shortcuts
    of the code agree with the general formula. -/
theorem c13_actual_proximal {m : Morph} (h : IsForest m) (hprox : ∀ s ∈ m, s.parent = none → s.prox ≠ none)
    {i : Nat} (hi : i ∈ ids m) : ∃ p, actualProximal m (m.length + 1) i = some p ∧ ActualProxS m i p := by
  obtain ⟨r, wf⟩ := h
  obtain ⟨wf', hb⟩ := wf.compress
  exact actualProximal_spec wf' hprox _ i hi (Nat.lt_succ_of_lt (hb i hi))

/-! ## 2. adjacency list, graph -/

/-- **adjacency list = children by definition, in file order; leaves absent** — for ANY list of segments -/
theorem c13_adjacency (m : Morph) (p : Nat) :
    adjLookup (adjacencyList m) p = if childrenS m p = [] then none else some (childrenS m p) :=
  adjLookup_adjacencyList m p

/-- each parent occurs once as a key -/
theorem c13_adjacency_keys_nodup (m : Morph) : ((adjacencyList m).map (·.1)).Nodup := adjKeys_nodup m

/-- **graph edges = parent links, weight = parent length × fraction_along** -/
theorem c13_graph_edges {m : Morph} (h : IsForest m) (len : Nat → Rat) (e : Edge) :
    e ∈ (getGraph m len).edges ↔
      ∃ s ∈ m, s.id = e.dst ∧ ∃ f, s.parent = some (e.src, f) ∧ e.w = len e.src * f := by
  obtain ⟨r, wf⟩ := h
  show e ∈ graphEdges m len ↔ _
  rw [mem_graphEdges]
  constructor
  · rintro ⟨hc, hw⟩
    obtain ⟨s, hs, hid, f, hp⟩ := mem_childrenS.1 hc
    exact ⟨s, hs, hid, f, hp, by rw [hw, ← hid, fracOf_eq wf.nodup hs hp]⟩
  · rintro ⟨s, hs, hid, f, hp, hw⟩
    exact ⟨mem_childrenS.2 ⟨s, hs, hid, f, hp⟩, by rw [hw, ← hid, fracOf_eq wf.nodup hs hp]⟩

/-- graph nodes = the segments (after the repair; before it a segment on no edge was missing) -/
theorem c13_graph_nodes {m : Morph} (h : IsForest m) (len : Nat → Rat) (i : Nat) :
    i ∈ (getGraph m len).nodes ↔ i ∈ ids m := by
  obtain ⟨r, wf⟩ := h
  exact mem_nodes wf len i

/-! ## 3. distance from the root -/

/-- **`get_distance(i, source=root)` = path length from the root to the proximal end of `i` by definition** -/
theorem c13_distance_root {m : Morph} {root : Nat} (h : IsTree m root) (len : Nat → Rat) {i : Nat} (hi : i ∈ ids m) :
    ∃ x, distance m len (m.length + 1) root i = some x ∧ ToProxS m len i x := by
  obtain ⟨r, wt⟩ := h
  obtain ⟨wt', hb⟩ := wt.compress
  exact distanceG_root wt' len _ i hi (hb i hi)

/-- the default source (`source = 0`) gives the distance from the root when the root has id 0 (the convention) -/
theorem c13_distance_default_source {m : Morph} (h : IsTree m 0) (len : Nat → Rat) {i : Nat} (hi : i ∈ ids m) :
    ∃ x, distance m len (m.length + 1) 0 i = some x ∧ ToProxS m len i x := c13_distance_root h len hi

/-- **`get_all_distances_from_segment(root)`: every segment, with its path length by definition** -/
theorem c13_all_distances {m : Morph} {root : Nat} (h : IsTree m root) (len : Nat → Rat) :
    ∃ res, allDistances m len (m.length + 1) root = some res ∧
      ∀ i x, (i, x) ∈ res ↔ i ∈ ids m ∧ ToProxS m len i x := by
  obtain ⟨r, wt⟩ := h
  obtain ⟨wt', hb⟩ := wt.compress
  exact allDistances_spec wt' len _ hb

/-! ## 4. ordered segments: path lengths, cumulative lengths -/

/-- **`get_ordered_segments_in_groups`**, for any group of existing segments, any numbering, any file order (the
    sort-by-id + walk-up fallback makes the "parents have smaller ids" assumption of the docstring unnecessary):
    segments come sorted by id; the path length to the proximal end of every member is the value by definition, the
    one to the distal end is that plus the segment's length; nothing else is in the result; cumulative lengths are
    the prefix sums of the lengths in id order. -/
theorem c13_ordered_segments {m : Morph} (h : IsForest m) (len : Nat → Rat) (group : List Nat)
    (hg : ∀ i ∈ group, i ∈ ids m) :
    ∃ ord st, orderedSegments m len (m.length + 1) group = some (ord, st) ∧
      ord.Perm group ∧ ord.Pairwise (· ≤ ·) ∧
      (∀ i ∈ group, ∃ x, rlookup st.prox i = some x ∧ ToProxS m len i x ∧
        rlookup st.dist i = some (x + len i) ∧ ToDistS m len i (x + len i)) ∧
      (∀ i, (rlookup st.prox i).isSome → i ∈ group) ∧
      st.cum = prefixSumsS 0 (ord.map len) := by
  obtain ⟨r, wf⟩ := h
  obtain ⟨wf', hb⟩ := wf.compress
  obtain ⟨st, hst, hmem, hkeys, hcum⟩ :=
    orderedSegments_spec wf' len (m.length + 1) group hg (fun i hi => Nat.lt_succ_of_lt (hb i hi))
  refine ⟨sortIds group, st, hst, sortIds_perm group, sortIds_sorted group, ?_, hkeys, hcum⟩
  intro i hi
  obtain ⟨x, h1, h2, h3⟩ := hmem i hi
  exact ⟨x, h1, h2, h3, x, h2, rfl⟩

/-- **graph-based = ordered-based**: for every member of the group, the distance from the root computed on the cell
    graph equals the path length computed by `get_ordered_segments_in_groups` -/
theorem c13_graph_eq_ordered {m : Morph} {root : Nat} (h : IsTree m root) (len : Nat → Rat) (group : List Nat)
    (hg : ∀ i ∈ group, i ∈ ids m) :
    ∃ ord st, orderedSegments m len (m.length + 1) group = some (ord, st) ∧
      ∀ i ∈ group, ∃ x, distance m len (m.length + 1) root i = some x ∧ rlookup st.prox i = some x := by
  obtain ⟨ord, st, hst, _, _, hmem, _, _⟩ := c13_ordered_segments h.isForest len group hg
  refine ⟨ord, st, hst, ?_⟩
  intro i hi
  obtain ⟨x, hx, hS, _⟩ := hmem i hi
  obtain ⟨y, hy, hS'⟩ := c13_distance_root h len (hg i hi)
  exact ⟨y, hy, by rw [hx, hS.unique hS']⟩

/-! ## 5. branch points, tips, root -/

/-- **`get_branching_points` = the segments with at least two children** -/
theorem c13_branching_points {m : Morph} (h : IsForest m) (len : Nat → Rat) (i : Nat) :
    i ∈ branchingPoints m len ↔ IsBranchS m i := by
  obtain ⟨r, wf⟩ := h
  exact mem_branchingPoints wf len i

/-- **`get_extremeties` (repaired) = the segments without children, each with its path length from the root**,
    whatever the id of the root, single-segment cells included -/
theorem c13_tips {m : Morph} {root : Nat} (h : IsTree m root) (len : Nat → Rat) :
    ∃ res, extremities m len (m.length + 1) = some res ∧
      ∀ i x, (i, x) ∈ res ↔ IsTipS m i ∧ ToProxS m len i x := by
  obtain ⟨r, wt⟩ := h
  obtain ⟨wt', hb⟩ := wt.compress
  exact extremities_spec wt' len _ hb

/-- **`get_morphology_root` (on the repaired graph) = the segment without parent**, whatever its id -/
theorem c13_root {m : Morph} {root : Nat} (h : IsTree m root) (len : Nat → Rat) :
    morphologyRoot m len = some root := by
  obtain ⟨r, wt⟩ := h
  exact morphologyRoot_eq wt len

/-! ## 6. segments at distance `d` -/

/-- **`get_segments_at_distance(d, root)` = the segments of non-zero length that contain the point at path length
    `d` from the root, with the fraction along at which it lies** (lengths non-negative, `0 ≤ d`; for a negative
    `d` networkx still reports the source, so the code answers `{root: d / len root}` where the definition has
    nothing — see the example below) -/
theorem c13_at_distance {m : Morph} {root : Nat} (h : IsTree m root) (len : Nat → Rat)
    (hlen : ∀ i ∈ ids m, 0 ≤ len i) (d : Rat) (hd : 0 ≤ d) :
    ∃ res, segmentsAtDistance m len (m.length + 1) d root = some res ∧
      ∀ i fr, (i, fr) ∈ res ↔ AtDistanceS m len d i fr := by
  obtain ⟨r, wt⟩ := h
  obtain ⟨wt', hb⟩ := wt.compress
  exact segmentsAtDistance_spec wt' len hlen _ hb d hd

/-- `0 ≤ d` is needed: a negative distance yields the root with a negative fraction -/
example : segmentsAtDistance chain3 (fun _ => 4) 4 (-1) 3 = some [(3, -1/4)] := by decide +kernel

/-! ## 7. `get_segment_location_info` -/

/-- **`get_segment_location_info` (repaired: the walk stops at the morphology root) returns for EVERY segment of every
    tree** — the full statement, formerly the known finding `C13:location-info:no-branching-ancestor` —: the length is
    the segment's length, the distance from the cell root is the path length by definition, and the "distance from the
    nearest branching point" is the graph distance from `cur`, the first segment of the unbranched stretch containing
    `i` (the root of the morphology when no branch point lies above `i`) -/
theorem c13_location_info_full {m : Morph} {root : Nat} (h : IsTree m root) (len : Nat → Rat) {i : Nat}
    (hi : i ∈ ids m) :
    ∃ res cur, segmentLocationInfo m len (m.length + 1) i = some res ∧ res.length = len i ∧
      ToProxS m len i res.fromRoot ∧ StretchTopS m i cur ∧
      distance m len (m.length + 1) cur i = some res.fromBranch := by
  have hroot := c13_root h len
  obtain ⟨x, hx, hS⟩ := c13_distance_root h len hi
  obtain ⟨r, wt⟩ := h
  obtain ⟨wt', hbd⟩ := wt.compress
  obtain ⟨cur, hcur, hanc, htop⟩ := walkBranch_spec wt'.toWfForest len _ i hi (hbd i hi)
  have hcm := anc_mem wt'.toWfForest hanc hi
  obtain ⟨y, hy⟩ := distUp_anc wt'.toWfForest len cur _ i hanc (hbd i hi)
  have hdc : distanceG (getGraph m len) (m.length + 1) cur i = some y := by
    unfold distanceG
    simp only [(mem_nodes wt'.toWfForest len cur).2 hcm, if_true]
    exact hy
  refine ⟨⟨len i, x, y⟩, cur, ?_, rfl, hS, htop, hdc⟩
  unfold segmentLocationInfo segmentLocationInfoG locInfoWith
  unfold morphologyRoot at hroot
  unfold distance at hx
  rw [hroot]
  simp only [hx, hcur, hdc]

/-- whenever it returns (any fuel bound the driver uses), length and distance from the cell root are right -/
theorem c13_location_info_sound {m : Morph} {root : Nat} (h : IsTree m root) (len : Nat → Rat) {i : Nat}
    (hi : i ∈ ids m) {res : LocInfo} (hres : segmentLocationInfo m len (m.length + 1) i = some res) :
    res.length = len i ∧ ToProxS m len i res.fromRoot := by
  obtain ⟨res', _, h1, h2, h3, _⟩ := c13_location_info_full h len hi
  rw [h1] at hres; cases hres; exact ⟨h2, h3⟩

/-! ### the code before the repair `fixes/C13-location-info-stops-at-root.patch` (`…Old`) -/

/-- the old method returned for every segment that has a branch point above it … -/
theorem c13_unfixed_location_info_partial {m : Morph} {root : Nat} (h : IsTree m root) (len : Nat → Rat) {i : Nat}
    (hi : i ∈ ids m) (hb : HasBranchAbove m i) : (segmentLocationInfoOld m len (m.length + 1) i).isSome := by
  have hroot := c13_root h len
  obtain ⟨x, hx, _⟩ := c13_distance_root h len hi
  obtain ⟨r, wt⟩ := h
  obtain ⟨wt', hbd⟩ := wt.compress
  obtain ⟨cur, hcur, hanc⟩ := walkBranchOld_some wt'.toWfForest len _ i hb (hbd i hi)
  have hcm := anc_mem wt'.toWfForest hanc hi
  obtain ⟨y, hy⟩ := distUp_anc wt'.toWfForest len cur _ i hanc (hbd i hi)
  unfold segmentLocationInfoOld segmentLocationInfoOldG locInfoWith
  unfold morphologyRoot at hroot
  unfold distance at hx
  rw [hroot]
  simp only [hx, hcur]
  have : distanceG (getGraph m len) (m.length + 1) cur i = some y := by
    unfold distanceG
    simp only [(mem_nodes wt'.toWfForest len cur).2 hcm, if_true]
    exact hy
  rw [this]; rfl

/-- … and raised (`IndexError`) for EVERY segment without one — the root of every cell in particular (the repaired
    finding `C13:location-info:no-branching-ancestor`) -/
theorem c13_unfixed_location_info_none {m : Morph} (h : IsForest m) (len : Nat → Rat) {i : Nat}
    (hn : NoBranchAbove m i) (fuel : Nat) : segmentLocationInfoOld m len fuel i = none := by
  obtain ⟨r, wf⟩ := h
  unfold segmentLocationInfoOld segmentLocationInfoOldG locInfoWith
  rw [walkBranchOld_none wf len hn fuel]
  split
  · rfl
  · split <;> rfl

/-- the repair changed nothing where the old method returned -/
theorem c13_unfixed_location_info_agrees (m : Morph) (len : Nat → Rat) (fuel i : Nat) (res : LocInfo)
    (h : segmentLocationInfoOld m len fuel i = some res) : segmentLocationInfo m len fuel i = some res := by
  unfold segmentLocationInfoOld segmentLocationInfoOldG locInfoWith at h
  unfold segmentLocationInfo segmentLocationInfoG locInfoWith
  cases hr : morphologyRootG m (getGraph m len) with
  | none => rw [hr] at h; cases h
  | some root =>
    rw [hr] at h
    simp only at h ⊢
    cases hd : distanceG (getGraph m len) fuel root i with
    | none => rw [hd] at h; cases h
    | some d =>
      rw [hd] at h
      simp only at h ⊢
      cases hw : walkBranchOld (getGraph m len) fuel i with
      | none => rw [hw] at h; cases h
      | some cur =>
        rw [hw] at h
        rw [walkBranch_of_old _ _ _ _ hw]
        exact h

/-! ## witnesses and examples -/

/-- scattered ids, children before parents in the file, a branch point, a segment without proximal point:
    `7 → {12, 3}`, `3 → 0`, `12 → 9` -/
def exTree : Morph :=
  [⟨12, some (7, 1/2), some (pt 7 2 0 1), pt 7 (-5) 0 1⟩,
   ⟨0, some (3, 1/4), none, pt 0 0 5 1⟩,
   ⟨7, none, some (pt 0 0 0 3), pt 0 (-4) 0 1⟩,
   ⟨3, some (7, 1/4), none, pt 0 (-1) 8 3⟩,
   ⟨9, some (12, 0), some (pt 7 2 0 1), pt 3 2 0 2⟩]

def exRank : Nat → Nat := fun i => if i = 7 then 0 else if i = 12 ∨ i = 3 then 1 else 2

/-- Boolean well-formedness check, sound for `WfTree` (used for the examples only) -/
def wfTreeB (m : Morph) (r : Nat → Nat) (root : Nat) : Bool :=
  nodupB (ids m) &&
  m.all (fun s => match s.parent with
    | none => true
    | some (p, _) => (ids m).contains p && decide (r p < r s.id)) &&
  (rootsS m == [root])

theorem nodupB_sound : ∀ (l : List Nat), nodupB l = true → l.Nodup
  | [], _ => List.nodup_nil
  | a :: as, h => by
    simp only [nodupB, Bool.and_eq_true, Bool.not_eq_true', List.contains_eq_mem, decide_eq_false_iff_not] at h
    exact List.nodup_cons.2 ⟨h.1, nodupB_sound as h.2⟩

theorem wfTreeB_sound {m : Morph} {r : Nat → Nat} {root : Nat} (h : wfTreeB m r root = true) : WfTree m r root := by
  simp only [wfTreeB, Bool.and_eq_true, List.all_eq_true, beq_iff_eq] at h
  obtain ⟨⟨h1, h2⟩, h3⟩ := h
  refine ⟨⟨nodupB_sound _ h1, ?_, ?_⟩, h3⟩
  · intro s hs p f hp
    have := h2 s hs
    simp only [hp, Bool.and_eq_true, List.contains_eq_mem, decide_eq_true_eq] at this
    exact this.1
  · intro s hs p f hp
    have := h2 s hs
    simp only [hp, Bool.and_eq_true, decide_eq_true_eq] at this
    exact this.2

/-- the hypotheses of every theorem above hold on a non-trivial instance -/
theorem exTree_isTree : IsTree exTree 7 := ⟨exRank, wfTreeB_sound (by decide)⟩

example : IsForest exTree := exTree_isTree.isForest
example : ∀ s ∈ exTree, s.parent = none → s.prox ≠ none := by
  intro s hs hp
  simp only [exTree, List.mem_cons, List.not_mem_nil, or_false] at hs
  rcases hs with rfl | rfl | rfl | rfl | rfl <;> simp_all
example : (0 : Nat) ∈ ids exTree ∧ ∀ i ∈ [0, 9, 7], i ∈ ids exTree := by decide
example : HasBranchAbove exTree 0 :=
  .up (s := ⟨0, some (3, 1/4), none, pt 0 0 5 1⟩) rfl rfl (by decide)
    (.here (s := ⟨3, some (7, 1/4), none, pt 0 (-1) 8 3⟩) rfl rfl (by decide))
example : NoBranchAbove exTree 7 :=
  .root (s := ⟨7, none, some (pt 0 0 0 3), pt 0 (-4) 0 1⟩) rfl rfl
example : ∀ i ∈ ids exTree, (0 : Rat) ≤ (fun _ => (2 : Rat)) i := by intro i _; show (0 : Rat) ≤ 2; decide +kernel

/-- the model computes on it (root id 7; distance to segment 0 is `1/4·len 7 + 1/4·len 3`) -/
example : morphologyRoot exTree (fun _ => 2) = some 7 := by decide +kernel

/-- WITNESS of the repaired finding: before the repair the root of `exTree` had no location info; now it has, measured
    from itself; segment 0 (below the branch point 7, behind the only child 3) is measured from segment 3 -/
theorem c13_unfixed_location_info_witness :
    segmentLocationInfoOld exTree (fun _ => 2) 6 7 = none ∧
    (segmentLocationInfo exTree (fun _ => 2) 6 7).map (fun r => (r.length, r.fromRoot, r.fromBranch)) = some (2, 0, 0) ∧
    (segmentLocationInfo exTree (fun _ => 2) 6 0).map (fun r => (r.length, r.fromRoot, r.fromBranch)) = some (2, 1, 1/2) := by
  decide +kernel

example : StretchTopS exTree 0 3 :=
  .up (s := ⟨0, some (3, 1/4), none, pt 0 0 5 1⟩) rfl rfl (by decide)
    (.branch (s := ⟨3, some (7, 1/4), none, pt 0 (-1) 8 3⟩) rfl rfl (by decide))

/-! ### the two defects repaired by `fixes/C13-graph-nodes-and-tip-distance-root.patch` (old code, `…Old`) -/

theorem chain3_isTree : IsTree chain3 3 := ⟨fun i => 3 - i, wfTreeB_sound (by decide)⟩

/-- before the repair `get_extremeties()` measured from segment id 0: on `chain3` it reports the tip at distance 0,
    the definition gives `len 3 + len 2 / 2 = 6` (with all lengths 4) -/
theorem c13_unfixed_tips_witness :
    extremitiesOld chain3 (fun _ => 4) 4 = some [(0, 0)] ∧ ToProxS chain3 (fun _ => 4) 0 6 := by
  refine ⟨by decide +kernel, ?_⟩
  have h3 : ToProxS chain3 (fun _ => 4) 3 0 := .root (s := ⟨3, none, some (pt 0 0 0 1), pt 4 0 0 1⟩) rfl rfl
  have h2 : ToProxS chain3 (fun _ => 4) 2 (0 + 1 * 4) :=
    .step (s := ⟨2, some (3, 1), none, pt 8 0 0 1⟩) rfl rfl h3
  have h0 : ToProxS chain3 (fun _ => 4) 0 (0 + 1 * 4 + 1/2 * 4) :=
    .step (s := ⟨0, some (2, 1/2), none, pt 6 2 0 2⟩) rfl rfl h2
  have e : (0 + 1 * 4 + 1/2 * 4 : Rat) = 6 := by decide +kernel
  rw [e] at h0; exact h0

/-- the repaired method on the same cell -/
example : extremities chain3 (fun _ => 4) 4 = some [(0, 6)] := by decide +kernel

/-- a cell with a single segment whose id is not 0 -/
def single5 : Morph := [⟨5, none, some (pt 0 0 0 1), pt 4 0 0 1⟩]

theorem single5_isTree : IsTree single5 5 := ⟨fun _ => 0, wfTreeB_sound (by decide)⟩

/-- before the repair the graph of a one-segment cell had no node: `get_morphology_root` failed its assert and the
    cell had no tips; after it the root is found and is the only tip, at distance 0 -/
theorem c13_unfixed_single_segment_witness :
    morphologyRootOld single5 (fun _ => 4) = none ∧ extremitiesOld single5 (fun _ => 4) 2 = some [] ∧
    morphologyRoot single5 (fun _ => 4) = some 5 ∧ extremities single5 (fun _ => 4) 2 = some [(5, 0)] := by
  decide +kernel

end NmlVerif.Morph
