import NmlVerif.Gen.Morph
import NmlVerif.Model.MorphCell
/-!
# C13 — the REGENERATED methods equal the hand model

`Gen/Morph.lean` is rewritten by `translators/py2lean_morph.py` from `neuroml/nml/helper_methods.py` and
`neuroml/nml/nml.py` on every `bin/check C13`. Each theorem below says: the definition translated from today's Python
source is, for every cell object (every cache state) and all arguments, the hand-written state-passing model of
`Model/MorphCell.lean` — about which `Props/C13Hist.lean` proves the property. A change of the source that changes
the translated term (an operator, a threshold, the order of the arguments of a networkx call, which cache is read or
written, a default value, a dropped `continue` …) breaks these proofs.
-/
namespace NmlVerif.Morph.C13Gen
open NmlVerif.Morph NmlVerif.Gen.Morph

theorem forOpt_congr {σ α : Type} {xs : List α} {init : σ} {f : σ → α → Option σ} (g : σ → α → Option σ)
    (h : ∀ a x, f a x = g a x) : forOpt xs init f = forOpt xs init g := by
  have : f = g := funext fun a => funext fun x => h a x
  rw [this]

/-- `get_segment_adjacency_list`, translated = hand model -/
theorem gen_get_segment_adjacency_list (L : Morph → Nat → Option Rat) (self : CellS) :
    get_segment_adjacency_list L self = getAdjS self := by
  unfold get_segment_adjacency_list getAdjS
  dsimp only
  rw [forOpt_congr adjStepS]
  · cases forOpt self.segments [] adjStepS <;> rfl
  · intro cl s
    unfold adjStepS
    cases s.parent with
    | none => rfl
    | some pf =>
      dsimp only
      cases h : dictHas cl pf.1
      · simp only [Bool.not_false, if_true, Bool.false_eq_true, if_false]
        cases dictAppend (dictSet cl pf.1 []) pf.1 s.id <;> rfl
      · simp only [Bool.not_true, Bool.false_eq_true, if_false, if_true]
        cases dictAppend cl pf.1 s.id <;> rfl

theorem graphTail (L : Morph → Nat → Option Rat) (self : CellS) (al : Adj) (r : CellS × Option Graph)
  (h : r = (match forOpt al nx_DiGraph (fun g e => match L self.segments e.1 with
        | none => none
        | some pl => graphInner self.segments e.1 pl g e.2) with
      | none => (self, none)
      | some cell_graph =>
        ({ self with cell_graph := some (nx_add_nodes_from cell_graph (self.segments.map (fun segment => segment.id))) },
          some (nx_add_nodes_from cell_graph (self.segments.map (fun segment => segment.id)))))) :
  r = (match graphFrom L self.segments al with
      | none => (self, none)
      | some g => ({ self with cell_graph := some g }, some g)) := by
  rw [h]
  unfold graphFrom graphOuter
  cases forOpt al nx_DiGraph _ <;> rfl

/-- `get_graph`, translated = hand model -/
theorem gen_get_graph (L : Morph → Nat → Option Rat) (self : CellS) : get_graph L self = getGraphS L self := by
  unfold get_graph getGraphS withAdj bindS
  dsimp only
  cases h : self.adjacency_list with
  | none =>
    simp only [gen_get_segment_adjacency_list]
    rcases hr : getAdjS self with ⟨s', _ | al⟩
    · rfl
    · dsimp only
      apply graphTail
      rw [forOpt_congr (fun g e => match L s'.segments e.1 with
        | none => none
        | some pl => graphInner s'.segments e.1 pl g e.2)]
      · rfl
      intro g e
      obtain ⟨p, cs⟩ := e
      dsimp only
      cases L s'.segments p with
      | none => rfl
      | some pl =>
        dsimp only
        unfold graphInner
        cases forOpt cs g _ <;> rfl
  | some al =>
    dsimp only
    apply graphTail
    rw [forOpt_congr (fun g e => match L self.segments e.1 with
        | none => none
        | some pl => graphInner self.segments e.1 pl g e.2)]
    · rw [h]; rfl
    intro g e
    obtain ⟨p, cs⟩ := e
    dsimp only
    cases L self.segments p with
    | none => rfl
    | some pl =>
      dsimp only
      unfold graphInner
      cases forOpt cs g _ <;> rfl

theorem withGraph_cases (L : Morph → Nat → Option Rat) (self : CellS) :
    withGraph L self = (match self.cell_graph with
      | none => get_graph L self
      | some g => (self, some g)) := by
  unfold withGraph
  cases self.cell_graph <;> simp [gen_get_graph]

/-- `get_distance`, translated = hand model -/
theorem gen_get_distance (L : Morph → Nat → Option Rat) (self : CellS) (dest source : Nat) :
    get_distance L self dest source = getDistanceS L self dest source := by
  unfold get_distance getDistanceS bindS
  rw [withGraph_cases]
  cases self.cell_graph with
  | none =>
    dsimp only
    rcases get_graph L self with ⟨s', _ | g⟩
    · rfl
    · dsimp only; cases nx_dijkstra_path_length g source dest <;> rfl
  | some g => dsimp only; cases nx_dijkstra_path_length g source dest <;> rfl

/-- `get_all_distances_from_segment`, translated = hand model -/
theorem gen_get_all_distances_from_segment (L : Morph → Nat → Option Rat) (self : CellS) (seg_id : Nat) :
    get_all_distances_from_segment L self seg_id = getAllDistancesS L self seg_id := by
  unfold get_all_distances_from_segment getAllDistancesS bindS
  rw [withGraph_cases]
  cases self.cell_graph with
  | none =>
    dsimp only
    rcases get_graph L self with ⟨s', _ | g⟩
    · rfl
    · dsimp only; cases nx_single_source_dijkstra g seg_id none <;> rfl
  | some g => dsimp only; cases nx_single_source_dijkstra g seg_id none <;> rfl

theorem atDistTail (L : Morph → Nat → Option Rat) (self : CellS) (distance : Rat) (target : RMap)
    (r : CellS × Option RMap)
    (h : r = (match forOpt target ([] : RMap) (atDistStepS L self.segments distance) with
      | none => (self, none)
      | some res => (self, some res))) :
    r = (self, forOpt target [] (atDistStepS L self.segments distance)) := by
  rw [h]; cases forOpt target [] (atDistStepS L self.segments distance) <;> rfl

theorem atDistStep_pointwise (L : Morph → Nat → Option Rat) (m : Morph) (distance : Rat) (acc : RMap) (t : Nat) (d : Rat) :
    (match L m t with
      | none => none
      | some length_3 =>
        if length_3 = 0 then some acc
        else
          if decide ((distance - d) / length_3 > (1 : Rat)) = true then some acc
          else some (dictSet acc t ((distance - d) / length_3))) = atDistStepS L m distance acc (t, d) := by
  unfold atDistStepS
  cases L m t with
  | none => rfl
  | some l => simp only [decide_eq_true_eq]

/-- `get_segments_at_distance`, translated = hand model -/
theorem gen_get_segments_at_distance (L : Morph → Nat → Option Rat) (self : CellS) (distance : Rat) (src_seg : Nat) :
    get_segments_at_distance L self distance src_seg = getSegmentsAtDistanceS L self distance src_seg := by
  unfold get_segments_at_distance getSegmentsAtDistanceS bindS
  rw [withGraph_cases]
  cases self.cell_graph with
  | none =>
    dsimp only
    rcases get_graph L self with ⟨s', _ | g⟩
    · rfl
    · dsimp only
      cases nx_single_source_dijkstra g src_seg (some distance) with
      | none => rfl
      | some t =>
        dsimp only
        apply atDistTail
        rw [forOpt_congr (atDistStepS L s'.segments distance)]
        · rfl
        intro acc e
        obtain ⟨tg, d⟩ := e
        exact atDistStep_pointwise L s'.segments distance acc tg d
  | some g =>
    dsimp only
    cases nx_single_source_dijkstra g src_seg (some distance) with
    | none => rfl
    | some t =>
      dsimp only
      apply atDistTail
      rw [forOpt_congr (atDistStepS L self.segments distance)]
      · rfl
      intro acc e
      obtain ⟨tg, d⟩ := e
      exact atDistStep_pointwise L self.segments distance acc tg d

theorem branchNodes_eq (g : Graph) :
    (nx_out_degree g).filterMap (fun ((n, d) : Nat × Nat) => if decide (d > 1) then some n else none) = branchNodesS g := by
  unfold branchNodesS
  congr 1; funext e; obtain ⟨n, d⟩ := e; simp

theorem tipNodes_eq (g : Graph) :
    (nx_out_degree g).filterMap (fun ((n, d) : Nat × Nat) => if decide (d = 0) then some n else none) = tipNodesS g := by
  unfold tipNodesS
  congr 1; funext e; obtain ⟨n, d⟩ := e; simp

theorem rootNodes_eq (g : Graph) :
    (nx_in_degree g).filterMap (fun ((n, d) : Nat × Nat) => if decide (d = 0) then some n else none) = rootNodesS g := by
  unfold rootNodesS
  congr 1; funext e; obtain ⟨n, d⟩ := e; simp

/-- `get_branching_points`, translated = hand model -/
theorem gen_get_branching_points (L : Morph → Nat → Option Rat) (self : CellS) :
    get_branching_points L self = getBranchingPointsS L self := by
  unfold get_branching_points getBranchingPointsS bindS
  rw [withGraph_cases]
  cases self.cell_graph with
  | none =>
    dsimp only
    rcases get_graph L self with ⟨s', _ | g⟩
    · rfl
    · dsimp only; rw [branchNodes_eq]
  | some g => dsimp only; rw [branchNodes_eq]

theorem rootTail_eq (self : CellS) (g : Graph) (r : CellS × Option Nat)
    (h : r = (if decide ((rootNodesS g).length = 1) = true then
        match (rootNodesS g)[0]? with
        | none => (self, none)
        | some item_3 => (self, some item_3)
      else (self, none))) : r = (self, rootByDegreeS g) := by
  rw [h]
  unfold rootByDegreeS
  simp only [decide_eq_true_eq]
  split
  · cases (rootNodesS g)[0]? <;> rfl
  · rfl

/-- `get_morphology_root`, translated = hand model -/
theorem gen_get_morphology_root (L : Morph → Nat → Option Rat) (self : CellS) :
    get_morphology_root L self = getMorphologyRootS L self := by
  unfold get_morphology_root getMorphologyRootS rootViaGraphS bindS
  rw [withGraph_cases]
  cases find self.segments 0 with
  | none =>
    dsimp only
    cases self.cell_graph with
    | none =>
      dsimp only
      rcases get_graph L self with ⟨s', _ | g⟩
      · rfl
      · dsimp only; apply rootTail_eq; rw [rootNodes_eq]; rfl
    | some g => dsimp only; apply rootTail_eq; rw [rootNodes_eq]; rfl
  | some s =>
    dsimp only
    cases s.parent with
    | none => rfl
    | some pf =>
      dsimp only
      cases self.cell_graph with
      | none =>
        dsimp only
        rcases get_graph L self with ⟨s', _ | g⟩
        · rfl
        · dsimp only; apply rootTail_eq; rw [rootNodes_eq]; rfl
      | some g => dsimp only; apply rootTail_eq; rw [rootNodes_eq]; rfl

theorem tipStep_pointwise (L : Morph → Nat → Option Rat) (root : Nat) (res : RMap) (self' : CellS) (s : Nat) :
    (match get_distance L self' s root with
      | (_, none) => none
      | (self, some r_3) => some (dictSet res s r_3, self)) = tipStepS L root (res, self') s := by
  unfold tipStepS
  rw [gen_get_distance]
  rfl

theorem tipsTail_eq (L : Morph → Nat → Option Rat) (self : CellS) (g : Graph) (r : CellS × Option RMap)
    (h : r = (match get_morphology_root L self with
      | (self, none) => (self, none)
      | (self, some root) =>
        match forOpt (tipNodesS g) (([] : RMap), self) (tipStepS L root) with
        | none => (self, none)
        | some (res, self) => (self, some res))) :
    r = bindS (getMorphologyRootS L self) (fun self root =>
      match forOpt (tipNodesS g) ([], self) (tipStepS L root) with
      | none => (self, none)
      | some (res, self) => (self, some res)) := by
  rw [h, gen_get_morphology_root]
  unfold bindS
  rcases getMorphologyRootS L self with ⟨s', _ | root⟩ <;> rfl

/-- `get_extremeties`, translated = hand model -/
theorem gen_get_extremeties (L : Morph → Nat → Option Rat) (self : CellS) :
    get_extremeties L self = getExtremitiesS L self := by
  unfold get_extremeties getExtremitiesS
  rw [withGraph_cases]
  cases self.cell_graph with
  | none =>
    dsimp only [bindS]
    rcases get_graph L self with ⟨s', _ | g⟩
    · rfl
    · dsimp only
      apply tipsTail_eq
      rw [tipNodes_eq]
      rcases get_morphology_root L s' with ⟨s'', _ | root⟩
      · rfl
      · dsimp only
        rw [forOpt_congr (tipStepS L root)]
        · rfl
        intro st s
        obtain ⟨res, self'⟩ := st
        exact tipStep_pointwise L root res self' s
  | some g =>
    dsimp only [bindS]
    apply tipsTail_eq
    rw [tipNodes_eq]
    rcases get_morphology_root L self with ⟨s'', _ | root⟩
    · rfl
    · dsimp only
      rw [forOpt_congr (tipStepS L root)]
      · rfl
      intro st s
      obtain ⟨res, self'⟩ := st
      exact tipStep_pointwise L root res self' s

/-- the default arguments the Python signatures declare (read from the source): all are segment id 0 -/
theorem gen_defaults :
    get_distance_default_source = 0 ∧ get_all_distances_from_segment_default_seg_id = 0 ∧
    get_segments_at_distance_default_src_seg = 0 := ⟨rfl, rfl, rfl⟩

/-- the two methods that are not translated are pinned: the source the hand model (`orderedSegments`,
    `segmentLocationInfoG` in `Model/Morph.lean`) was written from has this AST (doc strings aside) -/
theorem gen_pins :
    pin_get_ordered_segments_in_groups = "1a8fec43b71cfb113a55735d" ∧
    pin_get_segment_location_info = "9afc8eadd285fef07fa0491a" := by decide

end NmlVerif.Morph.C13Gen
