import NmlVerif.Proofs.GeomGetters
import NmlVerif.Proofs.GeomCell
import NmlVerif.Props.C13Hist
/-!
# C13 — the segment lengths of the metrics theorems are the lengths of the ACTUAL point coordinates (tie to C12)

The metrics theorems of C13 are parametric in a length function `len : Nat → Rat`. This file ties that parameter to
the geometry: `toCellR m` is the same cell read over ℝ in C12's vocabulary (`Model/GeomBase.lean`), on which C12's
TRANSLATED `Cell.get_actual_proximal` / `Cell.get_segment_length` (`Gen/Geom.lean`, regenerated from the Python source
by `py2lean_geom.py`) run.

* `c13_geom_inherits`: the effective proximal point of C13's spec (`ActualProxS`) is C12's inherited point
  (`Inherits`) — coordinate for coordinate, diameter included;
* `c13_geom_length`: whenever `exactLength m i = some ℓ` (the rational the driver and the harness use: generated
  geometries are axis-aligned or Pythagorean quadruples scaled by powers of two, so the Euclidean length IS rational),
  the translated `Cell.get_segment_length`, read over ℝ, returns exactly `ℓ`;
* `c13_geom_lengthIs`: so `exactLength` is a legitimate `L` for the history theorems, and the path lengths they speak
  about are sums of `fraction × Euclidean length of the parent's (effective proximal → distal) segment`.

Lengths that are irrational are outside this tie (the theorems stay parametric there; C12 bounds the rounding).
-/
namespace NmlVerif.Morph
open NmlVerif.Geom

def ptR (p : Pt) : Geom.Pt ℝ := ⟨(p.x : ℝ), (p.y : ℝ), (p.z : ℝ), (p.d : ℝ)⟩

def segR (s : Seg) : Geom.Seg ℝ :=
  ⟨s.prox.map ptR, ptR s.dist, s.parent.map (fun pf => ⟨pf.1, (pf.2 : ℝ)⟩)⟩

/-- the cell over ℝ, in C12's vocabulary: `(id, segment)` in file order -/
def toCellR (m : Morph) : Geom.Cell ℝ := m.map (fun s => (s.id, segR s))

theorem getSegment_toCellR (m : Morph) (i : Nat) :
    getSegment (toCellR m) i = match find m i with
      | some s => .ok (segR s)
      | none => .error ⟨"ValueError", "Segment with id "⟩ := by
  unfold getSegment toCellR find
  induction m with
  | nil => rfl
  | cons s m ih =>
    simp only [List.map_cons, List.find?_cons]
    by_cases h : s.id = i
    · simp [h]
    · have hb : (s.id == i) = false := beq_eq_false_iff_ne.2 h
      simp only [hb]
      exact ih

theorem ptR_lerp (a b : Pt) (f : Rat) : ptR (Morph.lerp a b f) = Geom.lerp (f : ℝ) (ptR a) (ptR b) := by
  unfold Morph.lerp Geom.lerp ptR
  simp only [Geom.Pt.mk.injEq]
  refine ⟨?_, ?_, ?_, ?_⟩ <;> (push_cast; ring)

/-- **C13's effective proximal point is C12's inherited point**, on the same coordinates read over ℝ -/
theorem c13_geom_inherits {m : Morph} {i : Nat} {p : Pt} (h : ActualProxS m i p) : Inherits (toCellR m) i (ptR p) := by
  induction h with
  | @own i s p hs hp =>
    exact Inherits.own (seg := segR s) (by rw [getSegment_toCellR, hs]) (by simp [segR, hp])
  | @onParent i s pid f ps pp hs hp hpar hps _ ih =>
    rw [ptR_lerp]
    exact Inherits.along (seg := segR s) (ps := segR ps) (par := ⟨pid, (f : ℝ)⟩)
      (by rw [getSegment_toCellR, hs]) (by simp [segR, hp]) (by simp [segR, hpar])
      (by rw [getSegment_toCellR, hps]) ih

theorem sqDist_cast (a b : Pt) :
    ((sqDist a b : Rat) : ℝ) = ((ptR a).x - (ptR b).x) ^ 2 + ((ptR a).y - (ptR b).y) ^ 2 + ((ptR a).z - (ptR b).z) ^ 2 := by
  unfold sqDist ptR
  push_cast
  ring

/-- a rational `ℓ ≥ 0` with `ℓ² = |a − b|²` is the Euclidean distance -/
theorem dist3_of_sq (a b : Pt) (l : Rat) (h0 : 0 ≤ l) (hsq : l * l = sqDist a b) : dist3 (ptR a) (ptR b) = (l : ℝ) := by
  unfold dist3
  rw [← sqDist_cast, ← hsq]
  push_cast
  rw [← sq, Real.sqrt_sq (by exact_mod_cast h0)]

theorem exactLength_spec {m : Morph} {i : Nat} {l : Rat} (h : exactLength m i = some l) :
    ∃ s p, find m i = some s ∧ actualProximal m (m.length + 1) i = some p ∧ 0 ≤ l ∧ l * l = sqDist s.dist p := by
  unfold exactLength at h
  cases hs : find m i with
  | none => simp [hs] at h
  | some s =>
    cases hp : actualProximal m (m.length + 1) i with
    | none => simp [hs, hp] at h
    | some p =>
      simp only [hs, hp, ratSqrt?] at h
      split at h
      · next hc => cases h; exact ⟨s, p, rfl, rfl, hc.1, hc.2⟩
      · cases h

/-- the translated `Cell.get_segment_length` (whatever surface shape the source has: the lemmas of
    `Proofs/GeomGetters.lean` evaluate it) for a segment whose actual proximal point is `q`: the segment-level length of
    `(q, distal)`. Proved here from C12's evaluation lemmas only, so that C13 does not depend on C12's property module. -/
theorem segmentLength_of_inherits (c : Geom.Cell ℝ) (id : Nat) (seg : Geom.Seg ℝ) (q : Geom.Pt ℝ)
    (hs : getSegment c id = .ok seg) (h : Inherits c id q) :
    ∃ n, ∀ fuel, n ≤ fuel → segmentLength c fuel id = .ok (dist3 q seg.distal) := by
  obtain ⟨n, hn⟩ := actualProximal_of_inherits c id q h
  refine ⟨n, fun fuel hf => ?_⟩
  have hap := hn fuel hf
  unfold segmentLength
  cases hp : seg.proximal with
  | some p =>
    have hq : q = p := by
      cases h with
      | own h1 h2 => rw [hs] at h1; cases h1; rw [hp] at h2; cases h2; rfl
      | atEnd h1 h2 => rw [hs] at h1; cases h1; rw [hp] at h2; cases h2
      | along h1 h2 => rw [hs] at h1; cases h1; rw [hp] at h2; cases h2
    subst hq
    have hseg : seg = mkSeg q seg.distal seg.parent := by
      obtain ⟨a, b, c'⟩ := seg; simp only [mkSeg] at *; rw [hp]
    rw [get_segment_length_own _ _ id seg q hs hp]
    conv_lhs => rw [hseg]
    rw [length_eval]
  | none =>
    rw [get_segment_length_inh _ _ id seg q hs hp hap, length_eval]

/-- **the length parameter of the metrics theorems is the Euclidean length of the actual coordinates**: on every
    well-formed forest whose parentless segments carry a proximal point, whenever the exact rational length `ℓ` of
    segment `i` exists, C12's translated `Cell.get_segment_length` — run over ℝ on the same cell, for every
    sufficiently large recursion limit — returns exactly `ℓ` -/
theorem c13_geom_length {m : Morph} (h : IsForest m) (hprox : ∀ s ∈ m, s.parent = none → s.prox ≠ none)
    {i : Nat} (hi : i ∈ ids m) {l : Rat} (hl : exactLength m i = some l) :
    ∃ n, ∀ fuel, n ≤ fuel → segmentLength (toCellR m) fuel i = .ok (l : ℝ) := by
  obtain ⟨s, p, hs, hp, h0, hsq⟩ := exactLength_spec hl
  obtain ⟨p', hp', hS⟩ := c13_actual_proximal h hprox hi
  rw [hp] at hp'; cases hp'
  have hin := c13_geom_inherits hS
  have hgs : getSegment (toCellR m) i = .ok (segR s) := by rw [getSegment_toCellR, hs]
  obtain ⟨n, hn⟩ := segmentLength_of_inherits (toCellR m) i (segR s) (ptR p) hgs hin
  refine ⟨n, fun fuel hf => ?_⟩
  rw [hn fuel hf, dist3_comm]
  show Except.ok (dist3 (ptR s.dist) (ptR p)) = _
  rw [dist3_of_sq s.dist p l h0 hsq]

/-- `exactLength` is a legitimate length function for the history theorems: it agrees with itself as `len` wherever it
    is defined, and (`c13_geom_length`) that value is the Euclidean length of the coordinates -/
theorem c13_geom_lengthIs {m : Morph} (hex : ∀ i ∈ ids m, (exactLength m i).isSome) :
    LengthIs (fun m i => exactLength m i) m (fun i => (exactLength m i).getD 0) := by
  intro i hi
  have := hex i hi
  cases h : exactLength m i with
  | none => rw [h] at this; cases this
  | some l => show exactLength m i = some ((exactLength m i).getD 0); rw [h]; rfl

/-- non-trivial instance: an oblique segment (3, 4, 12) of length 13 hanging half-way along an oblique parent
    (1, 2, 2)·2 of length 6 that has no proximal point of its own -/
def oblique : Morph :=
  [⟨4, none, some (pt 0 0 0 2), pt 3 4 0 2⟩,
   ⟨9, some (4, 1), none, pt 5 8 4 1⟩,
   ⟨2, some (9, 1/2), none, pt 7 10 14 1⟩]

example : exactLength oblique 4 = some 5 ∧ exactLength oblique 9 = some 6 ∧ exactLength oblique 2 = some 13 := by
  decide +kernel
theorem oblique_isTree : IsTree oblique 4 :=
  ⟨fun i => if i = 4 then 0 else if i = 9 then 1 else 2, wfTreeB_sound (by decide)⟩
example : ∃ n, ∀ fuel, n ≤ fuel → segmentLength (toCellR oblique) fuel 2 = .ok ((13 : Rat) : ℝ) :=
  c13_geom_length oblique_isTree.isForest (by
    intro s hs hp
    simp only [oblique, List.mem_cons, List.not_mem_nil, or_false] at hs
    rcases hs with rfl | rfl | rfl <;> simp_all) (by decide) (by decide +kernel)

end NmlVerif.Morph
