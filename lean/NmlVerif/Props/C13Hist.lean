import NmlVerif.Proofs.MorphCell
import NmlVerif.Props.C13
/-!
# C13 — call histories on one cell object: what the caches may and may not change

`adjacency_list` and `cell_graph` are stored on the `Cell` object (`Model/MorphCell.lean` follows the code: which
method reads / writes which cache). What the property demands of a history:

* **no call changes any later answer** (`c13_hist_transparent`): on a cell whose morphology is not edited, every call
  of every history returns what it returns on a freshly built cell — a second call of the same method, a method called
  after another one primed the cache it reads, any interleaving; hence (`c13_hist_distance_root`, `c13_hist_tips`)
  the values of the parent / fraction_along definition;
* **the documented refresh works** (`c13_hist_refresh`): after the morphology was edited, whatever the caches hold,
  `get_segment_adjacency_list()` followed by `get_graph()` makes the object coherent again, and all later answers are
  those of the NEW morphology (`c13_hist_after_refresh`);
* without the refresh the answers are those of the morphology at the time the cache was filled (documented API
  behaviour, shown on a witness: `c13_hist_stale_witness`); `get_graph()` alone does NOT refresh (it reuses the stored
  adjacency list).
-/
namespace NmlVerif.Morph

/-- `L` (the code's `get_segment_length`) is the length function `len` on the cell `m` -/
abbrev LengthIs (L : Morph → Nat → Option Rat) (m : Morph) (len : Nat → Rat) : Prop := Lok L m len

theorem runCalls_coh {L : Morph → Nat → Option Rat} {len : Nat → Rat} {m : Morph} (h : IsForest m)
    (hL : LengthIs L m len) : ∀ (cs : List Call) (s : CellS), s.segments = m → Coh len s →
      (runCalls L s cs).map (·.2) = cs.map (freshVal m len) ∧
      ∀ st ∈ runCalls L s cs, st.1.segments = m ∧ Coh len st.1 := by
  obtain ⟨r, wf⟩ := h
  intro cs
  induction cs with
  | nil => intro s _ _; exact ⟨rfl, fun _ h => by cases h⟩
  | cons c cs ih =>
    intro s hs hc
    subst hs
    obtain ⟨s', h1, h2, h3⟩ := runCall_coh wf hL hc c
    obtain ⟨ih1, ih2⟩ := ih s' h2 h3
    simp only [runCalls, h1, List.map_cons]
    refine ⟨by rw [ih1], ?_⟩
    intro st hst
    rcases List.mem_cons.1 hst with rfl | hst
    · exact ⟨h2, h3⟩
    · exact ih2 st hst

/-- **no call changes any later answer**: on every well-formed forest, from every coherent object (each cache absent
    or up to date — in particular a freshly built cell), the results of ANY history of calls are, one by one, the
    results of the same calls on a fresh cell -/
theorem c13_hist_transparent {L : Morph → Nat → Option Rat} {len : Nat → Rat} {m : Morph} (h : IsForest m)
    (hL : LengthIs L m len) (s : CellS) (hs : s.segments = m) (hc : Coh len s) (cs : List Call) :
    (runCalls L s cs).map (·.2) = cs.map (freshVal m len) := (runCalls_coh h hL cs s hs hc).1

/-- a fresh cell is coherent: the history theorem applies to every history that starts with a newly built cell -/
theorem c13_hist_fresh {L : Morph → Nat → Option Rat} {len : Nat → Rat} {m : Morph} (h : IsForest m)
    (hL : LengthIs L m len) (cs : List Call) :
    (runCalls L (CellS.fresh m) cs).map (·.2) = cs.map (freshVal m len) :=
  c13_hist_transparent h hL _ rfl (Coh.fresh len m) cs

/-- a second call of the same method, right after the first or after anything else, returns the same answer -/
theorem c13_hist_second_call {L : Morph → Nat → Option Rat} {len : Nat → Rat} {m : Morph} (h : IsForest m)
    (hL : LengthIs L m len) (c : Call) (between : List Call) :
    ((runCalls L (CellS.fresh m) (c :: between ++ [c])).map (·.2)).getLast? = some (freshVal m len c) ∧
    ((runCalls L (CellS.fresh m) (c :: between ++ [c])).map (·.2)).head? = some (freshVal m len c) := by
  rw [c13_hist_fresh h hL]
  refine ⟨?_, by simp⟩
  rw [List.map_append]
  exact List.getLast?_concat ..

/-- **distance from the root inside any history** = path length by definition -/
theorem c13_hist_distance_root {L : Morph → Nat → Option Rat} {len : Nat → Rat} {m : Morph} {root : Nat}
    (h : IsTree m root) (hL : LengthIs L m len) (cs : List Call) (k : Nat) {i : Nat} (hi : i ∈ ids m)
    (hk : cs[k]? = some (.distance i root)) :
    ∃ x, ((runCalls L (CellS.fresh m) cs).map (·.2))[k]? = some (some (.num x)) ∧ ToProxS m len i x := by
  rw [c13_hist_fresh h.isForest hL, List.getElem?_map, hk]
  obtain ⟨x, hx, hS⟩ := c13_distance_root h len hi
  exact ⟨x, by simp [freshVal, hx], hS⟩

/-- **tips inside any history** = the segments without children with their path lengths from the root -/
theorem c13_hist_tips {L : Morph → Nat → Option Rat} {len : Nat → Rat} {m : Morph} {root : Nat}
    (h : IsTree m root) (hL : LengthIs L m len) (cs : List Call) (k : Nat) (hk : cs[k]? = some .tips) :
    ∃ res, ((runCalls L (CellS.fresh m) cs).map (·.2))[k]? = some (some (.dists res)) ∧
      ∀ i x, (i, x) ∈ res ↔ IsTipS m i ∧ ToProxS m len i x := by
  rw [c13_hist_fresh h.isForest hL, List.getElem?_map, hk]
  obtain ⟨res, hres, hS⟩ := c13_tips h len
  exact ⟨res, by simp [freshVal, hres], hS⟩

/-- **the documented refresh**: whatever the caches hold (e.g. values computed before the morphology was edited),
    `get_segment_adjacency_list()` then `get_graph()` leaves a coherent object with the same segments -/
theorem c13_hist_refresh {L : Morph → Nat → Option Rat} {len : Nat → Rat} (s : CellS) (h : IsForest s.segments)
    (hL : LengthIs L s.segments len) :
    let s2 := (runCall L (runCall L s .adjacency).1 .graph).1
    s2.segments = s.segments ∧ Coh len s2 ∧
      (runCall L (runCall L s .adjacency).1 .graph).2 = some (.graph (getGraph s.segments len)) := by
  obtain ⟨r, wf⟩ := h
  simp only [runCall, mapVal, getAdjS_eq]
  obtain ⟨s', h1, hp⟩ := getGraphS_of_adj (L := L) (len := len) (r := r)
    (s := { s with adjacency_list := some (adjacencyList s.segments) }) wf hL (Or.inr rfl)
  rw [h1]
  exact ⟨hp.segs, hp.coh, rfl⟩

/-- after an edit and the refresh, every further history answers for the NEW morphology -/
theorem c13_hist_after_refresh {L : Morph → Nat → Option Rat} {len : Nat → Rat} (s : CellS) (m' : Morph)
    (h : IsForest m') (hL : LengthIs L m' len) (cs : List Call) :
    let s1 := (stepOp L s (.edit m')).1
    let s2 := (runCall L (runCall L s1 .adjacency).1 .graph).1
    (runCalls L s2 cs).map (·.2) = cs.map (freshVal m' len) := by
  have hr := c13_hist_refresh (L := L) (len := len) { s with segments := m' } h hL
  simp only at hr
  exact c13_hist_transparent h hL _ hr.1 hr.2.1 cs

/-- an edit of an object whose caches are both absent needs no refresh -/
theorem c13_hist_edit_uncached {len : Nat → Rat} (L : Morph → Nat → Option Rat) (s : CellS) (m' : Morph)
    (h1 : s.adjacency_list = none) (h2 : s.cell_graph = none) : Coh len (stepOp L s (.edit m')).1 :=
  ⟨Or.inl h1, Or.inl h2⟩

/-! ### witnesses -/

def two : Morph := [⟨0, none, some (pt 0 0 0 1), pt 4 0 0 1⟩, ⟨1, some (0, 1), none, pt 8 0 0 1⟩]
def three : Morph := two ++ [⟨5, some (1, 1/2), none, pt 6 3 0 1⟩]
def L4 : Morph → Nat → Option Rat := fun _ _ => some 4

def tipsOf (r : CellS × Option Val) : Option RMap := match r.2 with | some (.dists l) => some l | _ => none

/-- the documented stale behaviour, and the half refresh that does not help. Tips of `two`; a leaf (id 5) is appended;
    the tips are still those of `two`; `get_graph()` alone rebuilds from the STORED adjacency list, so segment 5
    becomes a node without any edge and the next `get_extremeties()` raises (no path from the root to it); only
    `get_segment_adjacency_list()` + `get_graph()` gives the tips of `three` -/
theorem c13_hist_stale_witness :
    (runOps L4 (CellS.fresh two)
      [.call .tips, .edit three, .call .tips, .call .graph, .call .tips, .call .adjacency, .call .graph, .call .tips]).map tipsOf =
      [some [(1, 4)], none, some [(1, 4)], none, none, none, none, some [(5, 6)]] ∧
    extremities three (fun _ => 4) (three.length + 1) = some [(5, 6)] := by
  constructor <;> decide +kernel

theorem two_isTree : IsTree two 0 := ⟨fun i => i, wfTreeB_sound (by decide)⟩
theorem three_isTree : IsTree three 0 := ⟨fun i => i, wfTreeB_sound (by decide)⟩

/-- the hypotheses of the history theorems hold on non-trivial instances -/
example : LengthIs L4 three (fun _ => 4) := fun _ _ => rfl
example : IsForest three := three_isTree.isForest
example : LengthIs L4 exTree (fun _ => 4) := fun _ _ => rfl
example : ([Call.tips, .distance 5 0, .tips] : List Call)[1]? = some (.distance 5 0) := rfl

end NmlVerif.Morph
