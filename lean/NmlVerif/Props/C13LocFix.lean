import NmlVerif.Props.C13
import NmlVerif.Model.MorphBase
/-!
# C13 — the known finding `C13:location-info:no-branching-ancestor` and its proposed repair

`fixes/C13-location-info-stops-at-root.patch` lets the walk of `get_segment_location_info` stop at the morphology root
(`while preds and …` instead of `list(graph.predecessors(current))[0]`). On the model of the repaired method
(`segmentLocationInfoFixed`):

* `c13_location_info_fixed_total` — the FULL statement `c13_location_info_full` (which fails for the current code:
  `c13_location_info_witness`) holds: location info is available for every segment of every tree;
* `c13_location_info_fixed_agrees` — wherever the current code returns, the repaired code returns the same record;
* `c13_location_info_fixed_sound` — length and distance from the cell root are right.
-/
namespace NmlVerif.Morph

theorem walkBranchFixed_of_walkBranch (g : Graph) : ∀ (fuel i cur : Nat),
    walkBranch g fuel i = some cur → walkBranchFixed g fuel i = some cur := by
  intro fuel
  induction fuel with
  | zero => intro i cur h; cases h
  | succ k ih =>
    intro i cur h
    unfold walkBranch at h
    unfold walkBranchFixed
    cases hp : preds g i with
    | nil => rw [hp] at h; cases h
    | cons par rest =>
      rw [hp] at h
      simp only at h ⊢
      split
      · next h1 => rw [if_pos h1] at h; exact ih _ _ h
      · next h1 => rw [if_neg h1] at h; exact h

theorem walkBranchFixed_some {m : Morph} {r : Nat → Nat} (wf : WfForest m r) (len : Nat → Rat) :
    ∀ (fuel i : Nat), i ∈ ids m → r i < fuel →
      ∃ cur, walkBranchFixed (getGraph m len) fuel i = some cur ∧ Anc m cur i := by
  intro fuel
  induction fuel with
  | zero => intro i _ h; omega
  | succ k ih =>
    intro i hi hr
    obtain ⟨s, hs⟩ := find_of_mem_ids hi
    have ⟨hsm, hsi⟩ := find_some hs
    unfold walkBranchFixed
    cases hpar : s.parent with
    | none =>
      rw [← hsi, preds_root wf len hsm hpar]
      exact ⟨_, rfl, Anc.refl⟩
    | some pf =>
      obtain ⟨p, f⟩ := pf
      obtain ⟨rest, hpr⟩ := preds_parent wf len hsm hpar
      rw [← hsi, hpr]
      simp only
      split
      · have hpm := wf.parent_mem s hsm p f hpar
        have hrk := wf.rank s hsm p f hpar
        rw [hsi] at hrk
        obtain ⟨cur, hc, ha⟩ := ih p hpm (by omega)
        exact ⟨cur, hc, hsi ▸ Anc.step (hsi ▸ hs) hpar ha⟩
      · exact ⟨_, rfl, Anc.refl⟩

/-- **with the repair the full statement holds**: location info for every segment of every tree -/
theorem c13_location_info_fixed_total {m : Morph} {root : Nat} (h : IsTree m root) (len : Nat → Rat) {i : Nat}
    (hi : i ∈ ids m) : (segmentLocationInfoFixed m len (m.length + 1) i).isSome := by
  have hroot := c13_root h len
  obtain ⟨x, hx, _⟩ := c13_distance_root h len hi
  obtain ⟨r, wt⟩ := h
  obtain ⟨wt', hbd⟩ := wt.compress
  obtain ⟨cur, hcur, hanc⟩ := walkBranchFixed_some wt'.toWfForest len _ i hi (hbd i hi)
  have hcm := anc_mem wt'.toWfForest hanc hi
  obtain ⟨y, hy⟩ := distUp_anc wt'.toWfForest len cur _ i hanc (hbd i hi)
  unfold segmentLocationInfoFixed segmentLocationInfoFixedG
  unfold morphologyRoot at hroot
  unfold distance at hx
  rw [hroot]
  simp only [hx, hcur]
  have : distanceG (getGraph m len) (m.length + 1) cur i = some y := by
    unfold distanceG
    simp only [(mem_nodes wt'.toWfForest len cur).2 hcm, if_true]
    exact hy
  rw [this]; rfl

/-- the repair changes nothing where the current code returns -/
theorem c13_location_info_fixed_agrees (m : Morph) (len : Nat → Rat) (fuel i : Nat) (res : LocInfo)
    (h : segmentLocationInfo m len fuel i = some res) : segmentLocationInfoFixed m len fuel i = some res := by
  unfold segmentLocationInfo segmentLocationInfoG at h
  unfold segmentLocationInfoFixed segmentLocationInfoFixedG
  cases hr : morphologyRootG m (getGraph m len) with
  | none => rw [hr] at h; cases h
  | some root =>
    rw [hr] at h
    simp only at h ⊢
    cases hd : distanceG (getGraph m len) fuel root i with
    | none => rw [hd] at h; cases h
    | some d =>
      rw [hd] at h
      simp only at h ⊢
      cases hw : walkBranch (getGraph m len) fuel i with
      | none => rw [hw] at h; cases h
      | some cur =>
        rw [hw] at h
        rw [walkBranchFixed_of_walkBranch _ _ _ _ hw]
        exact h

/-- length and distance from the cell root of the repaired method are right -/
theorem c13_location_info_fixed_sound {m : Morph} {root : Nat} (h : IsTree m root) (len : Nat → Rat) {i : Nat}
    (hi : i ∈ ids m) {res : LocInfo} (hres : segmentLocationInfoFixed m len (m.length + 1) i = some res) :
    res.length = len i ∧ ToProxS m len i res.fromRoot := by
  have hroot := c13_root h len
  obtain ⟨x, hx, hS⟩ := c13_distance_root h len hi
  unfold segmentLocationInfoFixed segmentLocationInfoFixedG at hres
  unfold morphologyRoot at hroot
  unfold distance at hx
  rw [hroot] at hres
  simp only [hx] at hres
  split at hres
  · cases hres
  · split at hres
    · cases hres
    · cases hres; exact ⟨rfl, hS⟩

/-- on the witness of the finding: the root of `chain3` (no branch point anywhere) now has location info, measured from
    the root itself; the tip is 6 from the root -/
example : (segmentLocationInfo chain3 (fun _ => 4) 4 3).isNone ∧
    (segmentLocationInfoFixed chain3 (fun _ => 4) 4 3).map (fun r => (r.length, r.fromRoot, r.fromBranch)) = some (4, 0, 0) ∧
    (segmentLocationInfoFixed chain3 (fun _ => 4) 4 0).map (fun r => (r.length, r.fromRoot, r.fromBranch)) = some (4, 6, 6) := by
  decide +kernel

end NmlVerif.Morph
