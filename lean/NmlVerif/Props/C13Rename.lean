import NmlVerif.Props.C13
/-!
# C13 — "whatever the segment-id numbering": the metrics are invariant under renumbering and under file order

`rename σ m` renumbers every segment id (and every parent reference) by an injective `σ`. The SPEC relations are
equivariant (`toProxS_rename`, `actualProxS_rename`, `childrenS_rename`), well-formedness is preserved
(`isTree_rename`), and therefore — because every method equals its spec on every well-formed tree — the
IMPLEMENTATION model returns the same numbers on the renumbered cell: `c13_rename_*`. `c13_reorder_*`: the same for a
permutation of the segment list (file order).
-/
namespace NmlVerif.Morph

def renameSeg (σ : Nat → Nat) (s : Seg) : Seg :=
  { s with id := σ s.id, parent := s.parent.map (fun pf => (σ pf.1, pf.2)) }

/-- the cell with every id replaced by `σ id` -/
def rename (σ : Nat → Nat) (m : Morph) : Morph := m.map (renameSeg σ)

def Inj (σ : Nat → Nat) : Prop := ∀ a b, σ a = σ b → a = b

theorem ids_rename (σ : Nat → Nat) (m : Morph) : ids (rename σ m) = (ids m).map σ := by
  simp [ids, rename, renameSeg, List.map_map, Function.comp_def]

theorem find_rename {σ : Nat → Nat} (hσ : Inj σ) (m : Morph) (i : Nat) :
    find (rename σ m) (σ i) = (find m i).map (renameSeg σ) := by
  induction m with
  | nil => rfl
  | cons s m ih =>
    unfold find rename at *
    simp only [List.map_cons, List.find?_cons]
    by_cases h : s.id = i
    · subst h; simp [renameSeg]
    · have h' : ¬ σ s.id = σ i := fun e => h (hσ _ _ e)
      simp only [renameSeg, beq_iff_eq, h, h', ↓reduceIte]
      have hb : (σ s.id == σ i) = false := by simpa using h'
      have hb' : (s.id == i) = false := by simpa using h
      simp only [hb, hb']
      exact ih

theorem mem_ids_rename {σ : Nat → Nat} {m : Morph} {i : Nat} (hi : i ∈ ids m) : σ i ∈ ids (rename σ m) := by
  rw [ids_rename]; exact List.mem_map_of_mem hi

/-- the path length by definition does not see the numbering -/
theorem toProxS_rename {σ : Nat → Nat} (hσ : Inj σ) {m : Morph} {len len' : Nat → Rat} (hl : ∀ j, len' (σ j) = len j)
    {i : Nat} {x : Rat} (h : ToProxS m len i x) : ToProxS (rename σ m) len' (σ i) x := by
  induction h with
  | root hs hp => exact ToProxS.root (by rw [find_rename hσ, hs]; rfl) (by simp [renameSeg, hp])
  | @step i s pid f x hs hp _ ih =>
    have := ToProxS.step (len := len') (s := renameSeg σ s) (pid := σ pid) (f := f)
      (by rw [find_rename hσ, hs]; rfl) (by simp [renameSeg, hp]) ih
    rw [hl] at this
    exact this

/-- the effective proximal point by definition does not see the numbering -/
theorem actualProxS_rename {σ : Nat → Nat} (hσ : Inj σ) {m : Morph} {i : Nat} {p : Pt} (h : ActualProxS m i p) :
    ActualProxS (rename σ m) (σ i) p := by
  induction h with
  | own hs hp => exact ActualProxS.own (by rw [find_rename hσ, hs]; rfl) (by simpa [renameSeg] using hp)
  | @onParent i s pid f ps pp hs hp hpar hps _ ih =>
    exact ActualProxS.onParent (s := renameSeg σ s) (ps := renameSeg σ ps) (by rw [find_rename hσ, hs]; rfl)
      (by simpa [renameSeg] using hp) (by simp [renameSeg, hpar]) (by rw [find_rename hσ, hps]; rfl) ih

theorem childrenS_rename {σ : Nat → Nat} (hσ : Inj σ) (m : Morph) (p : Nat) :
    childrenS (rename σ m) (σ p) = (childrenS m p).map σ := by
  unfold childrenS rename
  rw [List.filter_map, List.map_map, List.map_map]
  congr 1
  apply List.filter_congr
  intro s _
  show parentIs (σ p) (renameSeg σ s) = parentIs p s
  unfold parentIs renameSeg
  cases hpar : s.parent with
  | none => rfl
  | some pf =>
    obtain ⟨q, f⟩ := pf
    show (σ q == σ p) = (q == p)
    by_cases h : q = p
    · simp [h]
    · have : ¬ σ q = σ p := fun e => h (hσ _ _ e)
      have hb : (σ q == σ p) = false := beq_eq_false_iff_ne.2 this
      have hb' : (q == p) = false := beq_eq_false_iff_ne.2 h
      rw [hb, hb']

theorem rootsS_rename (σ : Nat → Nat) (m : Morph) : rootsS (rename σ m) = (rootsS m).map σ := by
  unfold rootsS rename
  rw [List.filter_map, List.map_map, List.map_map]
  congr 1
  apply List.filter_congr
  intro s _
  show (renameSeg σ s).parent.isNone = s.parent.isNone
  cases hpar : s.parent <;> simp [renameSeg, hpar]

/-- a rank function for the renumbered cell -/
def rankRen (σ : Nat → Nat) (m : Morph) (r : Nat → Nat) (j : Nat) : Nat :=
  match (ids m).find? (fun i => σ i == j) with
  | some i => r i
  | none => 0

theorem rankRen_eq {σ : Nat → Nat} (hσ : Inj σ) {m : Morph} (r : Nat → Nat) {i : Nat} (hi : i ∈ ids m) :
    rankRen σ m r (σ i) = r i := by
  unfold rankRen
  cases h : (ids m).find? (fun k => σ k == σ i) with
  | none =>
    have := List.find?_eq_none.1 h i hi
    simp at this
  | some k =>
    have := List.find?_some h
    simp only [beq_iff_eq] at this
    rw [hσ _ _ this]

theorem wfForest_rename {σ : Nat → Nat} (hσ : Inj σ) {m : Morph} {r : Nat → Nat} (wf : WfForest m r) :
    WfForest (rename σ m) (rankRen σ m r) := by
  refine ⟨?_, ?_, ?_⟩
  · rw [ids_rename]
    exact List.Pairwise.map σ (fun a b hab e => hab (hσ a b e)) wf.nodup
  · intro s' hs' p' f hp'
    unfold rename at hs'
    obtain ⟨s, hs, rfl⟩ := List.mem_map.1 hs'
    cases hpar : s.parent with
    | none => simp [renameSeg, hpar] at hp'
    | some pf =>
      simp only [renameSeg, hpar, Option.map_some, Option.some.injEq, Prod.mk.injEq] at hp'
      rw [← hp'.1]
      exact mem_ids_rename (wf.parent_mem s hs pf.1 pf.2 (by rw [hpar]))
  · intro s' hs' p' f hp'
    unfold rename at hs'
    obtain ⟨s, hs, rfl⟩ := List.mem_map.1 hs'
    cases hpar : s.parent with
    | none => simp [renameSeg, hpar] at hp'
    | some pf =>
      simp only [renameSeg, hpar, Option.map_some, Option.some.injEq, Prod.mk.injEq] at hp'
      rw [← hp'.1]
      have hpm := wf.parent_mem s hs pf.1 pf.2 (by rw [hpar])
      have hsm : s.id ∈ ids m := mem_ids.2 ⟨s, hs, rfl⟩
      show rankRen σ m r (σ pf.1) < rankRen σ m r (σ s.id)
      rw [rankRen_eq hσ r hpm, rankRen_eq hσ r hsm]
      exact wf.rank s hs pf.1 pf.2 (by rw [hpar])

/-- a renumbered tree is a tree, rooted at the renumbered root -/
theorem isTree_rename {σ : Nat → Nat} (hσ : Inj σ) {m : Morph} {root : Nat} (h : IsTree m root) :
    IsTree (rename σ m) (σ root) := by
  obtain ⟨r, wt⟩ := h
  exact ⟨rankRen σ m r, ⟨wfForest_rename hσ wt.toWfForest, by rw [rootsS_rename, wt.one_root]; rfl⟩⟩

/-! ## the implementation model on the renumbered cell -/

/-- **`get_actual_proximal` does not depend on the numbering** (every fuel, every segment, results and raises alike) -/
theorem c13_rename_actual_proximal {σ : Nat → Nat} (hσ : Inj σ) (m : Morph) :
    ∀ (fuel i : Nat), actualProximal (rename σ m) fuel (σ i) = actualProximal m fuel i := by
  intro fuel
  induction fuel with
  | zero => intro i; rfl
  | succ k ih =>
    intro i
    unfold actualProximal
    rw [find_rename hσ]
    cases hs : find m i with
    | none => rfl
    | some s =>
      simp only [Option.map_some]
      cases hp : s.prox with
      | some p => simp [renameSeg, hp]
      | none =>
        cases hpar : s.parent with
        | none => simp [renameSeg, hp, hpar]
        | some pf =>
          simp only [renameSeg, hp, hpar, Option.map_some]
          rw [find_rename hσ]
          cases hps : find m pf.1 with
          | none => rfl
          | some ps => simp only [Option.map_some, ih]; rfl

/-- **`get_distance(i, source=root)` does not depend on the numbering** -/
theorem c13_rename_distance_root {σ : Nat → Nat} (hσ : Inj σ) {m : Morph} {root : Nat} (h : IsTree m root)
    {len len' : Nat → Rat} (hl : ∀ j, len' (σ j) = len j) {i : Nat} (hi : i ∈ ids m) :
    distance (rename σ m) len' ((rename σ m).length + 1) (σ root) (σ i) = distance m len (m.length + 1) root i := by
  obtain ⟨x, hx, hS⟩ := c13_distance_root h len hi
  obtain ⟨y, hy, hS'⟩ := c13_distance_root (isTree_rename hσ h) len' (mem_ids_rename (σ := σ) hi)
  rw [hx, hy, (toProxS_rename hσ hl hS).unique hS']

/-- **`get_morphology_root` follows the numbering** -/
theorem c13_rename_root {σ : Nat → Nat} (hσ : Inj σ) {m : Morph} {root : Nat} (h : IsTree m root)
    (len len' : Nat → Rat) :
    morphologyRoot (rename σ m) len' = (morphologyRoot m len).map σ := by
  rw [c13_root h len, c13_root (isTree_rename hσ h) len']; rfl

/-- **branch points follow the numbering** -/
theorem c13_rename_branching {σ : Nat → Nat} (hσ : Inj σ) {m : Morph} (h : IsForest m) (len len' : Nat → Rat)
    {i : Nat} (hi : i ∈ ids m) :
    σ i ∈ branchingPoints (rename σ m) len' ↔ i ∈ branchingPoints m len := by
  obtain ⟨r, wf⟩ := h
  rw [c13_branching_points ⟨_, wfForest_rename hσ wf⟩, c13_branching_points ⟨r, wf⟩]
  unfold IsBranchS
  rw [childrenS_rename hσ, List.length_map]
  exact ⟨fun h => ⟨hi, h.2⟩, fun h => ⟨mem_ids_rename hi, h.2⟩⟩

/-- **tips and their distances from the root follow the numbering** -/
theorem c13_rename_tips {σ : Nat → Nat} (hσ : Inj σ) {m : Morph} {root : Nat} (h : IsTree m root)
    {len len' : Nat → Rat} (hl : ∀ j, len' (σ j) = len j) :
    ∃ res res', extremities m len (m.length + 1) = some res ∧
      extremities (rename σ m) len' ((rename σ m).length + 1) = some res' ∧
      ∀ i x, (i, x) ∈ res → (σ i, x) ∈ res' := by
  obtain ⟨res, hres, hS⟩ := c13_tips h len
  obtain ⟨res', hres', hS'⟩ := c13_tips (isTree_rename hσ h) len'
  refine ⟨res, res', hres, hres', ?_⟩
  intro i x hix
  obtain ⟨ht, hp⟩ := (hS i x).1 hix
  refine (hS' (σ i) x).2 ⟨⟨mem_ids_rename ht.1, ?_⟩, toProxS_rename hσ hl hp⟩
  rw [childrenS_rename hσ, ht.2]; rfl

/-- **ordered segments: the path lengths to every member do not depend on the numbering** (the ORDER of the result
    does: it is sorted by id) -/
theorem c13_rename_ordered {σ : Nat → Nat} (hσ : Inj σ) {m : Morph} (h : IsForest m)
    {len len' : Nat → Rat} (hl : ∀ j, len' (σ j) = len j) (group : List Nat) (hg : ∀ i ∈ group, i ∈ ids m) :
    ∃ ord st ord' st', orderedSegments m len (m.length + 1) group = some (ord, st) ∧
      orderedSegments (rename σ m) len' ((rename σ m).length + 1) (group.map σ) = some (ord', st') ∧
      ∀ i ∈ group, rlookup st'.prox (σ i) = rlookup st.prox i ∧ rlookup st'.dist (σ i) = rlookup st.dist i := by
  obtain ⟨r, wf⟩ := h
  obtain ⟨ord, st, hst, _, _, hmem, _, _⟩ := c13_ordered_segments ⟨r, wf⟩ len group hg
  have hg' : ∀ j ∈ group.map σ, j ∈ ids (rename σ m) := by
    intro j hj
    obtain ⟨i, hi, rfl⟩ := List.mem_map.1 hj
    exact mem_ids_rename (hg i hi)
  obtain ⟨ord', st', hst', _, _, hmem', _, _⟩ :=
    c13_ordered_segments ⟨_, wfForest_rename hσ wf⟩ len' (group.map σ) hg'
  refine ⟨ord, st, ord', st', hst, hst', ?_⟩
  intro i hi
  obtain ⟨x, h1, hS, h2, _⟩ := hmem i hi
  obtain ⟨y, h1', hS', h2', _⟩ := hmem' (σ i) (List.mem_map_of_mem hi)
  have hxy := (toProxS_rename hσ hl hS).unique hS'
  rw [h1, h1', h2, h2', hl, hxy]
  exact ⟨rfl, rfl⟩

/-! ## file order -/

theorem find_perm {m m' : Morph} (hp : m.Perm m') (hn : (ids m).Nodup) (i : Nat) : find m' i = find m i := by
  have hn' : (ids m').Nodup := (List.Perm.map _ hp).nodup_iff.1 hn
  cases h : find m i with
  | none =>
    cases h' : find m' i with
    | none => rfl
    | some s' =>
      have ⟨hs', hid⟩ := find_some h'
      have := find_of_mem_nodup hn (hp.mem_iff.2 hs')
      rw [hid, h] at this; cases this
  | some s =>
    have ⟨hs, hid⟩ := find_some h
    have := find_of_mem_nodup hn' (hp.mem_iff.1 hs)
    rw [hid] at this; exact this

/-- the path length by definition does not depend on the order of the segment list -/
theorem toProxS_perm {m m' : Morph} (hp : m.Perm m') (hn : (ids m).Nodup) {len : Nat → Rat} {i : Nat} {x : Rat}
    (h : ToProxS m len i x) : ToProxS m' len i x := by
  induction h with
  | root hs hpar => exact ToProxS.root (by rw [find_perm hp hn, hs]) hpar
  | step hs hpar _ ih => exact ToProxS.step (by rw [find_perm hp hn, hs]) hpar ih

theorem isTree_perm {m m' : Morph} (hp : m.Perm m') {root : Nat} (h : IsTree m root) : IsTree m' root := by
  obtain ⟨r, wt⟩ := h
  refine ⟨r, ⟨⟨(List.Perm.map _ hp).nodup_iff.1 wt.nodup, ?_, ?_⟩, ?_⟩⟩
  · intro s hs p f hpar
    have := wt.parent_mem s (hp.mem_iff.2 hs) p f hpar
    exact (List.Perm.map _ hp).mem_iff.1 this
  · intro s hs p f hpar
    exact wt.rank s (hp.mem_iff.2 hs) p f hpar
  · have hperm : (rootsS m).Perm (rootsS m') := List.Perm.map _ (List.Perm.filter _ hp)
    rw [wt.one_root] at hperm
    exact List.perm_singleton.1 hperm.symm

/-- **`get_distance(i, source=root)` does not depend on the order of the segments in the file** -/
theorem c13_reorder_distance_root {m m' : Morph} (hp : m.Perm m') {root : Nat} (h : IsTree m root) (len : Nat → Rat)
    {i : Nat} (hi : i ∈ ids m) :
    distance m' len (m'.length + 1) root i = distance m len (m.length + 1) root i := by
  obtain ⟨x, hx, hS⟩ := c13_distance_root h len hi
  have hi' : i ∈ ids m' := (List.Perm.map _ hp).mem_iff.1 hi
  obtain ⟨y, hy, hS'⟩ := c13_distance_root (isTree_perm hp h) len hi'
  obtain ⟨r, wt⟩ := h
  rw [hx, hy, (toProxS_perm hp wt.nodup hS).unique hS']

/-- non-trivial instance: `exTree` renumbered by `i ↦ 3 i + 1` (7 ↦ 22, 0 ↦ 1, …) -/
example : Inj (fun i => 3 * i + 1) := fun a b h => by simp at h; omega
example : IsTree (rename (fun i => 3 * i + 1) exTree) 22 := isTree_rename (fun a b h => by simp at h; omega) exTree_isTree
example : distance (rename (fun i => 3 * i + 1) exTree) (fun _ => 2) ((rename (fun i => 3 * i + 1) exTree).length + 1)
      ((fun i => 3 * i + 1) 7) ((fun i => 3 * i + 1) 0) = distance exTree (fun _ => 2) (exTree.length + 1) 7 0 :=
  c13_rename_distance_root (fun a b h => by simp at h; omega) exTree_isTree (fun _ => rfl) (by decide)
example : exTree.Perm exTree.reverse := (List.reverse_perm _).symm

end NmlVerif.Morph
