import NmlVerif.Proofs.MorphCell
import NmlVerif.Props.C13
/-!
# C13 — "Dijkstra" is an executable shortest path; on a forest it is PROVED to be the unique-path length

First pass: `networkx` Dijkstra was *specified* as "walk the chain of incoming edges" (`distUp`), which is only right on
a forest — the forest property was built into the model. Now the model of `networkx` (`Model/MorphBase.lean`) is a
general shortest-path computation on ANY weighted digraph (`spDist`, Bellman–Ford recurrence) and

* `c13_sp_sound` / `c13_sp_minimal`: it is the minimum over walks (so "`spDist` = shortest path" is a theorem);
* `c13_sp_forest`: on the graph `get_graph` builds for a well-formed forest it equals the chain walk;
* `c13_nx_*`: hence the graph-based methods, computed through real shortest paths, return the values of the
  parent / fraction_along definition, and agree with the ordered-segments method (the statement's last sentence).

The only trusted fact left about `networkx` is "dijkstra = shortest path" (sampled by the correspondence on every
case, from root and non-root sources, on trees and forests).
-/
namespace NmlVerif.Morph

/-- whatever the shortest-path model returns is the total weight of a walk from the source (any graph, any weights) -/
theorem c13_sp_sound (es : List Edge) (src k v : Nat) (x : Rat) (h : spDist es src k v = some x) :
    ∃ n, n ≤ k ∧ Walk es src v n x := spDist_sound es src k v x h

/-- … and no walk with at most `k` edges is shorter (any graph, any weights) -/
theorem c13_sp_minimal (es : List Edge) (src : Nat) {v n : Nat} {x : Rat} (hw : Walk es src v n x) (k : Nat)
    (hk : n ≤ k) : ∃ y, spDist es src k v = some y ∧ y ≤ x := spDist_le_walk es src hw k hk

/-- a graph that is NOT a forest: two routes 0 → 3 (weights 1 + 5 and 2 + 1); the model takes the shorter one -/
def diamond : List Edge := [⟨0, 1, 1⟩, ⟨0, 2, 2⟩, ⟨1, 3, 5⟩, ⟨2, 3, 1⟩]
example : spDist diamond 0 4 3 = some 3 := by decide +kernel
example : spDist diamond 3 4 0 = none := by decide +kernel
example : Walk diamond 0 3 2 (0 + 2 + 1) :=
  Walk.snoc (e := ⟨2, 3, 1⟩) (Walk.snoc (e := ⟨0, 2, 2⟩) Walk.nil (by decide) rfl) (by decide) rfl

/-- **on a forest the shortest path is the unique chain**: with the number of rounds networkx's model uses and the
    fuel the first-pass model uses, for every source and every node -/
theorem c13_sp_forest {m : Morph} (h : IsForest m) (len : Nat → Rat) (src v : Nat) :
    spDist (getGraph m len).edges src (spRounds (getGraph m len)) v =
      distUp (getGraph m len).edges src (m.length + 1) v := by
  obtain ⟨r, wf⟩ := h
  exact spDist_getGraph wf len src v

/-- `nx.dijkstra_path_length` on the cell graph = the first-pass path model, any source, any destination -/
theorem c13_nx_path_length {m : Morph} (h : IsForest m) (len : Nat → Rat) (src dst : Nat) :
    nx_dijkstra_path_length (getGraph m len) src dst = distance m len (m.length + 1) src dst := by
  obtain ⟨r, wf⟩ := h
  exact nx_dpl_eq wf len src dst

/-- **distance from the root through real shortest paths = path length by definition** -/
theorem c13_nx_distance_root {m : Morph} {root : Nat} (h : IsTree m root) (len : Nat → Rat) {i : Nat} (hi : i ∈ ids m) :
    ∃ x, nx_dijkstra_path_length (getGraph m len) root i = some x ∧ ToProxS m len i x := by
  rw [c13_nx_path_length h.isForest]
  exact c13_distance_root h len hi

/-- `nx.single_source_dijkstra` from the root: every segment with its path length by definition -/
theorem c13_nx_all_distances {m : Morph} {root : Nat} (h : IsTree m root) (len : Nat → Rat) :
    ∃ res, nx_single_source_dijkstra (getGraph m len) root none = some res ∧
      ∀ i x, (i, x) ∈ res ↔ i ∈ ids m ∧ ToProxS m len i x := by
  obtain ⟨r, wt⟩ := h
  rw [nx_ssd_eq wt.toWfForest len]
  exact c13_all_distances ⟨r, wt⟩ len

/-- **the statement's last sentence**: results computed through the graph-based methods (real shortest paths on the
    cell graph) and through the ordered-segments method agree, for every member of every group -/
theorem c13_nx_graph_eq_ordered {m : Morph} {root : Nat} (h : IsTree m root) (len : Nat → Rat) (group : List Nat)
    (hg : ∀ i ∈ group, i ∈ ids m) :
    ∃ ord st, orderedSegments m len (m.length + 1) group = some (ord, st) ∧
      ∀ i ∈ group, ∃ x, nx_dijkstra_path_length (getGraph m len) root i = some x ∧ rlookup st.prox i = some x := by
  obtain ⟨ord, st, hst, hall⟩ := c13_graph_eq_ordered h len group hg
  refine ⟨ord, st, hst, ?_⟩
  intro i hi
  rw [c13_nx_path_length h.isForest]
  exact hall i hi

/-- non-trivial instance (scattered ids, children before parents in the file, a branch point) -/
example : ∃ x, nx_dijkstra_path_length (getGraph exTree (fun _ => 2)) 7 0 = some x ∧ ToProxS exTree (fun _ => 2) 0 x :=
  c13_nx_distance_root exTree_isTree _ (by decide)
example : nx_dijkstra_path_length (getGraph exTree (fun _ => 2)) 7 0 = some 1 := by decide +kernel

end NmlVerif.Morph
