import NmlVerif.Proofs.Groups
set_option linter.unusedSimpArgs false
set_option linter.unusedVariables false
/-!
# C14 — segment-group membership is the transitive closure; optimising never changes it

Model: `NmlVerif.Groups` (`Model/Groups.lean`), tied to `Cell.get_all_segments_in_group`,
`Cell.optimise_segment_group(s)` (`neuroml/nml/helper_methods.py` and the copy in `neuroml/nml/nml.py`) by the
correspondence check `harness/props/c14.py` (generated cells, built in memory and after an XML round trip, real
library vs `Drivers/C14.lean`).

Vocabulary (`Proofs/Groups.lean`): `InCl c g s` — segment `s` is reachable from group `g` through members and,
transitively, included groups (`lookup` = first group with that id, or the implicit `"all"`); `Acyclic c` — a rank
function strictly decreasing along includes exists, which is the same as "no group reaches itself through an
include" (`c14_acyclic_iff`); `NoDangling c` — every include names a group that can be found; `Minimal c g` — the
group `g` has no duplicate member, no duplicate include and no member that one of its includes already supplies;
`Settled` — optimising the group again returns the very same cell.
-/
namespace NmlVerif.Groups

deriving instance DecidableEq for Except

/-! ### acyclicity -/

/-- "a rank function exists" ⇔ "no group is reachable from one of its own includes" -/
theorem c14_acyclic_iff (c : Cell) : Acyclic c ↔ NoCycle c := acyclic_iff_noCycle c

/-! ### membership is the transitive closure, each segment once -/

/-- **Closure.** Whenever `get_all_segments_in_group` returns, it returns exactly the segments reachable through
    the members and, transitively, the included groups — each one once (for the implicit `"all"` group: once if
    the segment ids of the morphology are distinct). No acyclicity needed: on a cyclic graph it does not return. -/
theorem c14_resolve_closure (c : Cell) (f g : Nat) (l : List Nat) (h : resolve c f g = .ok l) :
    (∀ s, s ∈ l ↔ InCl c g s) ∧ ((findG c.groups g).isSome ∨ c.segs.Nodup → l.Nodup) :=
  ⟨resolve_closure c f g l h, resolve_nodup c f g l h⟩

/-- **Termination.** On every acyclic cell without dangling includes the resolution of every known group
    returns as soon as the recursion depth allowed exceeds the number of groups, and the answer does not depend
    on the depth allowed. -/
theorem c14_resolve_terminates (c : Cell) (hac : Acyclic c) (hd : NoDangling c) (g : Nat)
    (hg : (lookup c g).isSome) :
    ∃ l, ∀ f, c.groups.length < f → resolve c f g = .ok l := by
  obtain ⟨r, hr, hb⟩ := noCycle_bounded_rank c ((acyclic_iff_noCycle c).mp hac)
  obtain ⟨l, hl⟩ := resolve_total c r hr hd (c.groups.length + 1) g (by have := hb g; omega) hg
  exact ⟨l, fun f hf => resolve_mono_le c _ f g l hl (by omega)⟩

/-- an include that cannot be found makes the resolution raise: the error is never swallowed -/
theorem c14_resolve_unknown (c : Cell) (f g : Nat) (hg : lookup c g = none) :
    resolve c (f+1) g = .error .unknownGroup := by
  rw [resolve_succ]
  unfold lookup at hg
  cases hG : findG c.groups g with
  | some G => rw [hG] at hg; cases hg
  | none =>
    rw [hG] at hg
    simp only at hg ⊢
    split at hg
    · cases hg
    · rename_i hne; simp [hne]

/-! ### optimising one group -/

/-- **Preservation.** Optimising a group of an acyclic cell leaves the segment set of EVERY group unchanged. -/
theorem c14_optimise_preserves (key : Nat → Nat) (c : Cell) (f g : Nat) (c' : Cell) (hac : Acyclic c)
    (h : optimiseGroup key c f g = .ok c') : ∀ h s, InCl c' h s ↔ InCl c h s := by
  obtain ⟨r, hr⟩ := hac
  obtain ⟨G, G', S⟩ := optimiseGroup_spec key c f g c' h
  exact S.preserves (ranked_acyc_at hr g G S.hG)

/-- the same on what the code reports: every group that resolved before still resolves, to the same set -/
theorem c14_optimise_preserves_resolve (key : Nat → Nat) (c : Cell) (f g : Nat) (c' : Cell) (hac : Acyclic c)
    (h : optimiseGroup key c f g = .ok c') (k : Nat) (l : List Nat) (hl : resolve c f k = .ok l) :
    ∃ l', resolve c' f k = .ok l' ∧ ∀ s, s ∈ l' ↔ s ∈ l := by
  have hpres := c14_optimise_preserves key c f g c' hac h
  obtain ⟨G, G', S⟩ := optimiseGroup_spec key c f g c' h
  obtain ⟨l', hl'⟩ := resolve_ok_transfer c c'
    (fun k K' hK' => by
      obtain ⟨K, hK, hinc⟩ := S.lookup_shape k K' hK'
      exact ⟨K, hK, fun i hi => (hinc i).mp hi⟩)
    (fun k hk => by
      cases hK : lookup c k with
      | none => rw [hK] at hk; cases hk
      | some K =>
        obtain ⟨K', hK', _⟩ := S.lookup_shape' k K hK
        rw [hK']; rfl)
    f k l hl
  refine ⟨l', hl', fun s => ?_⟩
  rw [resolve_closure c' f k l' hl' s, resolve_closure c f k l hl s]
  exact hpres k s

/-- **Frame.** Only the addressed group changes; its includes stay the same set, its members are a subset of
    what they were; segments, the list of group ids and all other groups are untouched. -/
theorem c14_optimise_frame (key : Nat → Nat) (c : Cell) (f g : Nat) (c' : Cell)
    (h : optimiseGroup key c f g = .ok c') :
    c'.segs = c.segs ∧ c'.groups.map (·.id) = c.groups.map (·.id) ∧
    (∀ k, k ≠ g → findG c'.groups k = findG c.groups k) ∧
    ∃ G G', findG c.groups g = some G ∧ findG c'.groups g = some G' ∧
      (∀ i, i ∈ G'.includes ↔ i ∈ G.includes) ∧ (∀ s ∈ G'.members, s ∈ G.members) := by
  obtain ⟨G, G', S⟩ := optimiseGroup_spec key c f g c' h
  exact ⟨S.segs, S.ids, S.findOff, G, G', S.hG, S.findG', S.memInc, S.memSub⟩

/-- **Minimality.** After optimising, the group has no duplicate member, no duplicate include and no member that
    one of its included groups already supplies. -/
theorem c14_optimise_minimal (key : Nat → Nat) (c : Cell) (f g : Nat) (c' : Cell) (hac : Acyclic c)
    (h : optimiseGroup key c f g = .ok c') : Minimal c' g := by
  obtain ⟨r, hr⟩ := hac
  exact optimiseGroup_minimal key c f g c' h (ranked_acyc_at hr g)

/-- **Idempotence.** Optimising the same group again returns the same cell (same member and include *lists*). -/
theorem c14_optimise_idempotent (key : Nat → Nat) (c : Cell) (f g : Nat) (c' : Cell) (hac : Acyclic c)
    (h : optimiseGroup key c f g = .ok c') : optimiseGroup key c' f g = .ok c' := by
  obtain ⟨r, hr⟩ := hac
  exact optimiseGroup_settles key c f g c' h (ranked_acyc_at hr g)

/-- optimising never breaks acyclicity or creates a dangling include -/
theorem c14_optimise_wellformed (key : Nat → Nat) (c : Cell) (f g : Nat) (c' : Cell)
    (h : optimiseGroup key c f g = .ok c') : (Acyclic c → Acyclic c') ∧ (NoDangling c → NoDangling c') := by
  obtain ⟨G, G', S⟩ := optimiseGroup_spec key c f g c' h
  exact ⟨fun ⟨r, hr⟩ => ⟨r, S.ranked r hr⟩, S.noDangling⟩

/-- **Totality.** On an acyclic cell without dangling includes, optimising an existing group never raises. -/
theorem c14_optimise_total (key : Nat → Nat) (c : Cell) (f g : Nat) (hac : Acyclic c) (hd : NoDangling c)
    (hf : c.groups.length < f) (hne : g ≠ emptyId) (hg : g ∈ c.groups.map (·.id)) :
    ∃ c', optimiseGroup key c f g = .ok c' := by
  obtain ⟨G, hG⟩ := findG_of_mem_ids hg
  apply optimiseGroup_total key c f g G hne hG
  intro i hi
  obtain ⟨l, hl⟩ := c14_resolve_terminates c hac hd i (hd g G (lookup_of_findG hG) i hi)
  exact ⟨l, hl f hf⟩

/-! ### optimising every group (`optimise_segment_groups`) -/

/-- **Preservation, all groups.** -/
theorem c14_optimiseAll_preserves (key : Nat → Nat) (c : Cell) (f : Nat) (c' : Cell) (hac : Acyclic c)
    (h : optimiseAll key c f = .ok c') : ∀ h s, InCl c' h s ↔ InCl c h s := by
  obtain ⟨r, hr⟩ := hac
  have := foldOpt_inv key f r (fun c1 => ∀ h s, InCl c1 h s ↔ InCl c h s)
    (fun c1 g c2 hr1 hp hopt h s => by
      rw [← hp h s]
      exact c14_optimise_preserves key c1 f g c2 ⟨r, hr1⟩ hopt h s)
    (c.groups.map Group.id) c c' hr (fun _ _ => Iff.rfl) h
  exact this.1

/-- the list of groups keeps its ids and the segments are untouched -/
theorem c14_optimiseAll_frame (key : Nat → Nat) (c : Cell) (f : Nat) (c' : Cell) (hac : Acyclic c)
    (h : optimiseAll key c f = .ok c') :
    c'.segs = c.segs ∧ c'.groups.map (·.id) = c.groups.map (·.id) := by
  obtain ⟨r, hr⟩ := hac
  have := foldOpt_inv key f r (fun c1 => c1.segs = c.segs ∧ c1.groups.map (·.id) = c.groups.map (·.id))
    (fun c1 g c2 _ hp hopt => by
      obtain ⟨G, G', S⟩ := optimiseGroup_spec key c1 f g c2 hopt
      exact ⟨S.segs.trans hp.1, S.ids.trans hp.2⟩)
    (c.groups.map Group.id) c c' hr ⟨rfl, rfl⟩ h
  exact this.1

/-- **Minimality, all groups**: every group the API can address (the first group of each id) ends up without
    duplicate members, without duplicate includes and without a member that an included group supplies. -/
theorem c14_optimiseAll_minimal (key : Nat → Nat) (c : Cell) (f : Nat) (c' : Cell) (hac : Acyclic c)
    (h : optimiseAll key c f = .ok c') : ∀ g, Minimal c' g := by
  have hids := (c14_optimiseAll_frame key c f c' hac h).2
  obtain ⟨r, hr⟩ := hac
  have hfold := foldOpt_all key f r Minimal
    (fun c1 g c2 hr1 hopt => optimiseGroup_minimal key c1 f g c2 hopt (ranked_acyc_at hr1 g))
    (fun c1 g k c2 hr1 hm hopt => minimal_stable key c1 f g k c2 hm hopt (ranked_acyc_at hr1 k))
    (c.groups.map Group.id) c c' hr h
  intro g G hG
  have hm : g ∈ c.groups.map (·.id) := by rw [← hids]; exact findG_some_mem_ids hG
  exact hfold.2 g hm G hG

/-- with distinct group ids this is every `<segmentGroup>` of the cell -/
theorem c14_optimiseAll_minimal_every_group (key : Nat → Nat) (c : Cell) (f : Nat) (c' : Cell) (hac : Acyclic c)
    (hnd : (c.groups.map (·.id)).Nodup) (h : optimiseAll key c f = .ok c') :
    ∀ G ∈ c'.groups, G.members.Nodup ∧ G.includes.Nodup ∧ ∀ m ∈ G.members, ∀ i ∈ G.includes, ¬ InCl c' i m := by
  intro G hG
  have hids := (c14_optimiseAll_frame key c f c' hac h).2
  have hf := findG_of_mem_nodup c'.groups (by rw [hids]; exact hnd) G hG
  exact c14_optimiseAll_minimal key c f c' hac h G.id G hf

/-- **Idempotence, all groups**: a second `optimise_segment_groups()` returns the very same cell. -/
theorem c14_optimiseAll_idempotent (key : Nat → Nat) (c : Cell) (f : Nat) (c' : Cell) (hac : Acyclic c)
    (h : optimiseAll key c f = .ok c') : optimiseAll key c' f = .ok c' := by
  have hids := (c14_optimiseAll_frame key c f c' hac h).2
  obtain ⟨r, hr⟩ := hac
  have := foldOpt_all key f r (fun c1 g => Settled key c1 f g)
    (fun c1 g c2 hr1 hopt => optimiseGroup_settles key c1 f g c2 hopt (ranked_acyc_at hr1 g))
    (fun c1 g k c2 hr1 hs hopt => settled_stable key c1 f g k c2 hs hopt (ranked_acyc_at hr1 k))
    (c.groups.map Group.id) c c' hr h
  unfold optimiseAll
  rw [hids]
  exact foldOpt_settled key f _ c' this.2

/-- **Totality, all groups**: on an acyclic cell without dangling includes and without an empty group id,
    `optimise_segment_groups()` never raises (recursion depth allowed > number of groups). -/
theorem c14_optimiseAll_total (key : Nat → Nat) (c : Cell) (f : Nat) (hac : Acyclic c) (hd : NoDangling c)
    (hf : c.groups.length < f) (hne : emptyId ∉ c.groups.map (·.id)) : ∃ c', optimiseAll key c f = .ok c' := by
  obtain ⟨r, hr, hb⟩ := noCycle_bounded_rank c ((acyclic_iff_noCycle c).mp hac)
  exact foldOpt_total key f r (fun g => by have := hb g; omega) (c.groups.map (·.id)) c hr hd
    (fun g hg => ⟨fun e => hne (e ▸ hg), hg⟩)

/-! ### the hypotheses are satisfiable: a non-trivial cell

Group 10 has duplicate members and includes and three distinct includes, one of them nested two deep (11 → 13);
group 14 includes the undefined `"all"` (id 0 = every segment), so through 14 group 10 is supplied with every
segment and keeps no member of its own. -/

def exCell : Cell :=
  ⟨[0, 1, 2, 3, 4],
   [⟨10, [3, 0, 1, 2, 2, 3], [12, 11, 12, 14]⟩, ⟨11, [0], [13]⟩, ⟨12, [1, 1], []⟩, ⟨13, [3], []⟩,
    ⟨14, [4, 4], [0]⟩]⟩

def exRank : Nat → Nat := fun g => if g = 10 then 3 else if g = 14 then 2 else if g = 11 then 1 else 0

example : Acyclic exCell := ⟨exRank, ranked_of_check exCell exRank (by decide)⟩
example : NoDangling exCell := noDangling_of_check exCell (by decide)
example : emptyId ∉ exCell.groups.map (·.id) := by decide
example : (exCell.groups.map (·.id)).Nodup := by decide
example : (10 : Nat) ≠ emptyId ∧ 10 ∈ exCell.groups.map (·.id) ∧ exCell.groups.length < 6 := by decide
example : (lookup exCell 0).isSome ∧ lookup exCell 99 = none := by decide
example : 2 ∈ optMembersOld [0, 2] [[0]] := by decide
example : resolve exCell 6 10 = .ok [3, 0, 1, 2, 4] := by decide
example : optimiseAll (fun x => x) exCell 6 =
    .ok ⟨[0, 1, 2, 3, 4], [⟨10, [], [11, 12, 14]⟩, ⟨11, [0], [13]⟩, ⟨12, [1], []⟩, ⟨13, [3], []⟩, ⟨14, [], [0]⟩]⟩ := by
  decide
example : optimiseGroup (fun x => x) ⟨[0, 1, 2], [⟨5, [0], []⟩, ⟨6, [1], []⟩, ⟨7, [0, 1, 2], [5, 6]⟩]⟩ 4 7 =
    .ok ⟨[0, 1, 2], [⟨5, [0], []⟩, ⟨6, [1], []⟩, ⟨7, [2], [5, 6]⟩]⟩ := by decide

/-! ### the two defects repaired in `optimise_segment_group` (fixes/C14-optimise-segment-group.patch)

Kept as witnesses on the old loop (`optMembersOld`, `dedupObj` in `Model/Groups.lean`); the theorems above are about
the repaired code. -/

/-- old filter loop, two includes `a = {0}`, `b = {1}`, members `[0, 1, 2]`: the result `[0, 1, 2, 2]` keeps the
    members 0 and 1 that an include supplies and repeats the member 2 -/
theorem c14_old_two_includes_witness :
    optMembersOld [0, 1, 2] [[0], [1]] = [0, 1, 2, 2] ∧ ¬ (optMembersOld [0, 1, 2] [[0], [1]]).Nodup ∧
    (0 ∈ optMembersOld [0, 1, 2] [[0], [1]] ∧ 0 ∈ [0]) := by decide

/-- old de-duplication by object equality: two `<member segment="0"/>` read from a file (distinct lxml nodes) are
    both kept, while two equal-valued objects built in memory collapse -/
theorem c14_old_loaded_witness :
    (dedupObj [⟨0, 1⟩, ⟨0, 2⟩]).map Obj.ref = [0, 0] ∧ (dedupObj [⟨0, 0⟩, ⟨0, 0⟩]).map Obj.ref = [0] := by decide

/-- with a single include the old loop was already minimal (why the repo's own test passed) -/
theorem c14_old_one_include (ms cl : List Nat) (s : Nat) (h : s ∈ optMembersOld ms [cl]) : s ∉ cl := by
  unfold optMembersOld at h
  split at h
  · rw [mem_sortBy] at h
    simp only [List.flatMap_cons, List.flatMap_nil, List.append_nil, List.mem_filter] at h
    simpa using h.2
  · rename_i hne
    have : ms = [] := by
      by_cases hm : ms = []
      · exact hm
      · exact absurd ⟨by simp, hm⟩ hne
    simp [this] at h

end NmlVerif.Groups
