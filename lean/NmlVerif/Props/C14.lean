import NmlVerif.Proofs.Groups
import NmlVerif.Proofs.GroupsArg
set_option linter.unusedSimpArgs false
set_option linter.unusedVariables false
/-!
# C14 — segment-group membership is the transitive closure; optimising never changes it

Model: `NmlVerif.Groups` (`Model/Groups.lean`), tied to `Cell.get_all_segments_in_group`, `Cell.get_segment_group`,
`Cell.optimise_segment_group(s)` (`neuroml/nml/helper_methods.py` and the copy in `neuroml/nml/nml.py`)
(1) by translation: `Gen/Groups.lean` is rewritten from the Python source on every run
(`translators/groups_extract.py`) and the theorems `c14_gen_*` in `Props/C14Gen.lean` prove the generated definitions
equal to the model for all inputs; `c14_main` (there) states the whole property on the generated definitions. THIS
module does not import the generated file: its theorems are about the hand model only and stay discharged whatever
the translator writes;
(2) by the correspondence check `harness/props/c14.py` (generated cells, built in memory and after an XML round
trip, real library vs `Drivers/C14.lean`).

Vocabulary (`Proofs/Groups.lean`): `InCl c g s` — segment `s` is reachable from group `g` through members and,
transitively, included groups (`lookup` = first group with that id, or the implicit `"all"`); `Acyclic c` — a rank
function strictly decreasing along includes exists, which is the same as "no group reaches itself through an
include" (`c14_acyclic_iff`); `NoDangling c` — every include names a group that can be found; `Minimal c g` — the
group `g` has no duplicate member, no duplicate include and no member that one of its includes already supplies;
`Settled` — optimising the group again returns the very same cell.
-/
namespace NmlVerif.Groups

deriving instance DecidableEq for Except

/-! ### acyclicity -/

/-- "a rank function exists" ⇔ "no group is reachable from one of its own includes" -/
theorem c14_acyclic_iff (c : Cell) : Acyclic c ↔ NoCycle c := acyclic_iff_noCycle c

/-! ### membership is the transitive closure, each segment once -/

/-- **Closure.** Whenever `get_all_segments_in_group` returns, it returns exactly the segments reachable through
    the members and, transitively, the included groups — each one once (for the implicit `"all"` group: once if
    the segment ids of the morphology are distinct). No acyclicity needed: on a cyclic graph it does not return. -/
theorem c14_resolve_closure (c : Cell) (f g : Nat) (l : List Nat) (h : resolve c f g = .ok l) :
    (∀ s, s ∈ l ↔ InCl c g s) ∧ ((findG c.groups g).isSome ∨ c.segs.Nodup → l.Nodup) :=
  ⟨resolve_closure c f g l h, resolve_nodup c f g l h⟩

/-- **Termination.** On every acyclic cell without dangling includes the resolution of every known group
    returns as soon as the recursion depth allowed exceeds the number of groups, and the answer does not depend
    on the depth allowed. -/
theorem c14_resolve_terminates (c : Cell) (hac : Acyclic c) (hd : NoDangling c) (g : Nat)
    (hg : (lookup c g).isSome) :
    ∃ l, ∀ f, c.groups.length < f → resolve c f g = .ok l := by
  obtain ⟨r, hr, hb⟩ := noCycle_bounded_rank c ((acyclic_iff_noCycle c).mp hac)
  obtain ⟨l, hl⟩ := resolve_total c r hr hd (c.groups.length + 1) g (by have := hb g; omega) hg
  exact ⟨l, fun f hf => resolve_mono_le c _ f g l hl (by omega)⟩

/-- an include that cannot be found makes the resolution raise: the error is never swallowed -/
theorem c14_resolve_unknown (c : Cell) (f g : Nat) (hg : lookup c g = none) :
    resolve c (f+1) g = .error .unknownGroup := by
  rw [resolve_succ]
  unfold lookup at hg
  cases hG : findG c.groups g with
  | some G => rw [hG] at hg; cases hg
  | none =>
    rw [hG] at hg
    simp only at hg ⊢
    split at hg
    · cases hg
    · rename_i hne; simp [hne]

/-- **When it returns.** A resolution that returns has found every group it reached and has met no cycle: an
    unknown include or a cycle anywhere below `g` makes it raise, never return a partial answer. -/
theorem c14_resolve_returns_only_if (c : Cell) (f g : Nat) (l : List Nat) (h : resolve c f g = .ok l) :
    ∀ k, Reach c g k → (lookup c k).isSome ∧ ∀ K, lookup c k = some K → ∀ j ∈ K.includes, ¬ Reach c j k := by
  intro k hk
  obtain ⟨f', r, _, hr⟩ := resolve_reach_ok c hk f l h
  refine ⟨?_, fun K hK j hj => resolve_ok_no_back c f' f' (Nat.le_refl _) k r hr K hK j hj⟩
  cases hl : lookup c k with
  | some K => rfl
  | none =>
    cases f' with
    | zero => simp [resolve] at hr
    | succ f0 => rw [c14_resolve_unknown c f0 k hl] at hr; cases hr

/-- **Exactly the closure, each once, on every acyclic cell**: closure, uniqueness and termination in one statement
    (recursion depth allowed > number of groups; see `c14_depth_*` for an interpreter with a fixed limit). -/
theorem c14_resolve_exact (c : Cell) (hac : Acyclic c) (hd : NoDangling c) (f g : Nat) (hf : c.groups.length < f)
    (hg : (lookup c g).isSome) :
    ∃ l, resolve c f g = .ok l ∧ (∀ s, s ∈ l ↔ InCl c g s) ∧ ((findG c.groups g).isSome ∨ c.segs.Nodup → l.Nodup) := by
  obtain ⟨l, hl⟩ := c14_resolve_terminates c hac hd g hg
  exact ⟨l, hl f hf, c14_resolve_closure c f g l (hl f hf)⟩

/-! ### both kinds of argument and the flag `assume_all_means_all` -/

/-- every recursive call, and the default call with a group id, is `resolve` -/
theorem c14_resolve_arg_id (c : Cell) (f g : Nat) : resolveArg c f (.str g) true = resolve c f g :=
  resolveArg_str_true c f g

/-- asking with the `SegmentGroup` object the id denotes gives the same answer as asking with the id -/
theorem c14_resolve_arg_object (c : Cell) (f g : Nat) (G : Group) (aam : Bool) (hG : findG c.groups g = some G) :
    resolveArg c f (.obj G) aam = resolve c f g := by
  cases f with
  | zero => rfl
  | succ f => rw [resolve_succ, hG]; rfl

/-- `assume_all_means_all=False`: a defined group (also one called `"all"`) resolves exactly as with the default;
    only the *undefined* `"all"` changes, from "every segment of the morphology" to the error -/
theorem c14_resolve_flag_false (c : Cell) (f g : Nat) :
    resolveArg c (f+1) (.str g) false =
      if (findG c.groups g).isSome then resolve c (f+1) g else .error .unknownGroup := by
  rw [resolve_succ]
  show (match findG c.groups g with
    | none => if false && g == allId then Except.ok c.segs else Except.error Err.unknownGroup
    | some G => G.includes.foldl (resStep (resolve c f)) (Except.ok (addNew [] G.members))) = _
  cases findG c.groups g with
  | none => simp
  | some G => rfl

/-- so whatever the flag and the kind of argument, an answer is the closure, each segment once -/
theorem c14_resolve_arg_closure (c : Cell) (f : Nat) (a : Arg) (aam : Bool) (l : List Nat)
    (h : resolveArg c f a aam = .ok l) :
    match a with
    | .str g => ∀ s, s ∈ l ↔ InCl c g s
    | .obj G => ∀ s, s ∈ l ↔ s ∈ G.members ∨ ∃ i ∈ G.includes, InCl c i s := by
  cases f with
  | zero => cases h
  | succ f =>
    cases a with
    | obj G =>
      have h' : G.includes.foldl (accStep addNew (resolve c f)) (.ok (addNew [] G.members)) = .ok l := h
      have ⟨h1, h2⟩ := fold_spec addNew mem_addNew (resolve c f) G.includes _ l h'
      intro s
      rw [h2 s]
      constructor
      · rintro (hm | ⟨i, hi, r, hr, hs⟩)
        · exact Or.inl (by simpa [mem_addNew] using hm)
        · exact Or.inr ⟨i, hi, (resolve_closure c f i r hr s).mp hs⟩
      · rintro (hm | ⟨i, hi, hc⟩)
        · exact Or.inl (by simpa [mem_addNew] using hm)
        · obtain ⟨r, hr⟩ := h1 i hi
          exact Or.inr ⟨i, hi, r, hr, (resolve_closure c f i r hr s).mpr hc⟩
    | str g =>
      cases aam with
      | true => rw [c14_resolve_arg_id] at h; exact resolve_closure c (f+1) g l h
      | false =>
        rw [c14_resolve_flag_false] at h
        split at h
        · exact resolve_closure c (f+1) g l h
        · cases h

/-! ### optimising one group

None of the three clauses below assumes an acyclic include graph: `optimise_segment_group` filters members only
after it resolved every included group, and a resolution that returns has met no cycle
(`c14_resolve_returns_only_if`); on a cyclic or dangling cell it raises instead (`c14_optimise_total` says it does not
raise on well-formed cells). -/

/-- **Preservation.** Whenever optimising a group returns, the segment set of EVERY group is unchanged. -/
theorem c14_optimise_preserves (key : Nat → Nat) (c : Cell) (f g : Nat) (c' : Cell)
    (h : optimiseGroup key c f g = .ok c') : ∀ h s, InCl c' h s ↔ InCl c h s := by
  obtain ⟨G, G', S⟩ := optimiseGroup_spec key c f g c' h
  exact S.preserves

/-- the same on what the code reports: every group that resolved before still resolves, to the same set -/
theorem c14_optimise_preserves_resolve (key : Nat → Nat) (c : Cell) (f g : Nat) (c' : Cell)
    (h : optimiseGroup key c f g = .ok c') (k : Nat) (l : List Nat) (hl : resolve c f k = .ok l) :
    ∃ l', resolve c' f k = .ok l' ∧ ∀ s, s ∈ l' ↔ s ∈ l := by
  have hpres := c14_optimise_preserves key c f g c' h
  obtain ⟨G, G', S⟩ := optimiseGroup_spec key c f g c' h
  obtain ⟨l', hl'⟩ := S.rewr.resolve_ok f k l hl
  refine ⟨l', hl', fun s => ?_⟩
  rw [resolve_closure c' f k l' hl' s, resolve_closure c f k l hl s]
  exact hpres k s

/-- **Frame.** Only the addressed group changes; its includes stay the same set, its members are a subset of
    what they were; segments, the list of group ids and all other groups are untouched. -/
theorem c14_optimise_frame (key : Nat → Nat) (c : Cell) (f g : Nat) (c' : Cell)
    (h : optimiseGroup key c f g = .ok c') :
    c'.segs = c.segs ∧ c'.groups.map (·.id) = c.groups.map (·.id) ∧
    (∀ k, k ≠ g → findG c'.groups k = findG c.groups k) ∧
    ∃ G G', findG c.groups g = some G ∧ findG c'.groups g = some G' ∧
      (∀ i, i ∈ G'.includes ↔ i ∈ G.includes) ∧ (∀ s ∈ G'.members, s ∈ G.members) := by
  obtain ⟨G, G', S⟩ := optimiseGroup_spec key c f g c' h
  exact ⟨S.segs, S.ids, S.findOff, G, G', S.hG, S.findG', S.memInc, S.memSub⟩

/-- **Minimality.** After optimising, the group has no duplicate member, no duplicate include and no member that
    one of its included groups already supplies. -/
theorem c14_optimise_minimal (key : Nat → Nat) (c : Cell) (f g : Nat) (c' : Cell)
    (h : optimiseGroup key c f g = .ok c') : Minimal c' g :=
  optimiseGroup_minimal key c f g c' h

/-- **Idempotence.** Optimising the same group again returns the same cell (same member and include *lists*). -/
theorem c14_optimise_idempotent (key : Nat → Nat) (c : Cell) (f g : Nat) (c' : Cell)
    (h : optimiseGroup key c f g = .ok c') : optimiseGroup key c' f g = .ok c' :=
  optimiseGroup_settles key c f g c' h

/-- optimising never breaks acyclicity or creates a dangling include -/
theorem c14_optimise_wellformed (key : Nat → Nat) (c : Cell) (f g : Nat) (c' : Cell)
    (h : optimiseGroup key c f g = .ok c') : (Acyclic c → Acyclic c') ∧ (NoDangling c → NoDangling c') := by
  obtain ⟨G, G', S⟩ := optimiseGroup_spec key c f g c' h
  exact ⟨fun ⟨r, hr⟩ => ⟨r, S.ranked r hr⟩, S.noDangling⟩

/-- **Totality.** On an acyclic cell without dangling includes, optimising an existing group never raises. -/
theorem c14_optimise_total (key : Nat → Nat) (c : Cell) (f g : Nat) (hac : Acyclic c) (hd : NoDangling c)
    (hf : c.groups.length < f) (hne : g ≠ emptyId) (hg : g ∈ c.groups.map (·.id)) :
    ∃ c', optimiseGroup key c f g = .ok c' := by
  obtain ⟨G, hG⟩ := findG_of_mem_ids hg
  apply optimiseGroup_total key c f g G hne hG
  intro i hi
  obtain ⟨l, hl⟩ := c14_resolve_terminates c hac hd i (hd g G (lookup_of_findG hG) i hi)
  exact ⟨l, hl f hf⟩

/-! ### optimising every group (`optimise_segment_groups`) -/

/-- **Preservation, all groups.** -/
theorem c14_optimiseAll_preserves (key : Nat → Nat) (c : Cell) (f : Nat) (c' : Cell)
    (h : optimiseAll key c f = .ok c') : ∀ h s, InCl c' h s ↔ InCl c h s :=
  foldOpt_inv key f (fun c1 => ∀ h s, InCl c1 h s ↔ InCl c h s)
    (fun c1 g c2 hp hopt h s => by
      rw [← hp h s]
      exact c14_optimise_preserves key c1 f g c2 hopt h s)
    (c.groups.map Group.id) c c' (fun _ _ => Iff.rfl) h

/-- the list of groups keeps its ids, the segments are untouched, well-formedness is kept -/
theorem c14_optimiseAll_frame (key : Nat → Nat) (c : Cell) (f : Nat) (c' : Cell)
    (h : optimiseAll key c f = .ok c') :
    c'.segs = c.segs ∧ c'.groups.map (·.id) = c.groups.map (·.id) ∧
    (Acyclic c → Acyclic c') ∧ (NoDangling c → NoDangling c') :=
  foldOpt_inv key f (fun c1 => c1.segs = c.segs ∧ c1.groups.map (·.id) = c.groups.map (·.id) ∧
      (Acyclic c → Acyclic c1) ∧ (NoDangling c → NoDangling c1))
    (fun c1 g c2 hp hopt => by
      obtain ⟨G, G', S⟩ := optimiseGroup_spec key c1 f g c2 hopt
      have hw := c14_optimise_wellformed key c1 f g c2 hopt
      exact ⟨S.segs.trans hp.1, S.ids.trans hp.2.1, fun ha => hw.1 (hp.2.2.1 ha), fun hd => hw.2 (hp.2.2.2 hd)⟩)
    (c.groups.map Group.id) c c' ⟨rfl, rfl, id, id⟩ h

/-- **Minimality, all groups**: every group the API can address (the first group of each id) ends up without
    duplicate members, without duplicate includes and without a member that an included group supplies. -/
theorem c14_optimiseAll_minimal (key : Nat → Nat) (c : Cell) (f : Nat) (c' : Cell)
    (h : optimiseAll key c f = .ok c') : ∀ g, Minimal c' g := by
  have hids := (c14_optimiseAll_frame key c f c' h).2.1
  have hfold := foldOpt_all key f Minimal
    (fun c1 g c2 hopt => optimiseGroup_minimal key c1 f g c2 hopt)
    (fun c1 g k c2 hm hopt => minimal_stable key c1 f g k c2 hm hopt)
    (c.groups.map Group.id) c c' h
  intro g G hG
  have hm : g ∈ c.groups.map (·.id) := by rw [← hids]; exact findG_some_mem_ids hG
  exact hfold.2 g hm G hG

/-- with distinct group ids this is every `<segmentGroup>` of the cell -/
theorem c14_optimiseAll_minimal_every_group (key : Nat → Nat) (c : Cell) (f : Nat) (c' : Cell)
    (hnd : (c.groups.map (·.id)).Nodup) (h : optimiseAll key c f = .ok c') :
    ∀ G ∈ c'.groups, G.members.Nodup ∧ G.includes.Nodup ∧ ∀ m ∈ G.members, ∀ i ∈ G.includes, ¬ InCl c' i m := by
  intro G hG
  have hids := (c14_optimiseAll_frame key c f c' h).2.1
  have hf := findG_of_mem_nodup c'.groups (by rw [hids]; exact hnd) G hG
  exact c14_optimiseAll_minimal key c f c' h G.id G hf

/-- **Idempotence, all groups**: a second `optimise_segment_groups()` returns the very same cell. -/
theorem c14_optimiseAll_idempotent (key : Nat → Nat) (c : Cell) (f : Nat) (c' : Cell)
    (h : optimiseAll key c f = .ok c') : optimiseAll key c' f = .ok c' := by
  have hids := (c14_optimiseAll_frame key c f c' h).2.1
  have := foldOpt_all key f (fun c1 g => Settled key c1 f g)
    (fun c1 g c2 hopt => optimiseGroup_settles key c1 f g c2 hopt)
    (fun c1 g k c2 hs hopt => settled_stable key c1 f g k c2 hs hopt)
    (c.groups.map Group.id) c c' h
  unfold optimiseAll
  rw [hids]
  exact foldOpt_settled key f _ c' this.2

/-- **Totality, all groups**: on an acyclic cell without dangling includes and without an empty group id,
    `optimise_segment_groups()` never raises (recursion depth allowed > number of groups). -/
theorem c14_optimiseAll_total (key : Nat → Nat) (c : Cell) (f : Nat) (hac : Acyclic c) (hd : NoDangling c)
    (hf : c.groups.length < f) (hne : emptyId ∉ c.groups.map (·.id)) : ∃ c', optimiseAll key c f = .ok c' := by
  obtain ⟨r, hr, hb⟩ := noCycle_bounded_rank c ((acyclic_iff_noCycle c).mp hac)
  exact foldOpt_total key f r (fun g => by have := hb g; omega) (c.groups.map (·.id)) c hr hd
    (fun g hg => ⟨fun e => hne (e ▸ hg), hg⟩)

/-! ### recursion depth: an interpreter with a fixed recursion limit (known finding `C14:recursion-limit`)

The theorems above let the recursion go as deep as the cell has groups. CPython stops at `sys.getrecursionlimit()`
frames (1000 by default): with a limit of `F` nested calls the full statement "every acyclic cell resolves" is
false, whatever `F` is; what holds is the restriction to include chains shorter than `F`. -/

/-- full statement for recursion limit `F` -/
def c14_depth_full (F : Nat) : Prop :=
  ∀ c : Cell, Acyclic c → NoDangling c → ∀ g, (lookup c g).isSome → ∃ l, resolve c F g = .ok l

/-- what holds: groups whose include chains are shorter than the limit resolve, to the closure, each once -/
theorem c14_depth_partial (F : Nat) (c : Cell) (r : Nat → Nat) (hr : Ranked c r) (hd : NoDangling c) (g : Nat)
    (hg : (lookup c g).isSome) (hlt : r g < F) :
    ∃ l, resolve c F g = .ok l ∧ (∀ s, s ∈ l ↔ InCl c g s) ∧ ((findG c.groups g).isSome ∨ c.segs.Nodup → l.Nodup) := by
  obtain ⟨l, hl⟩ := resolve_total c r hr hd F g hlt hg
  exact ⟨l, hl, c14_resolve_closure c F g l hl⟩

/-- **witness**: whatever the limit `F`, the chain of `F+1` groups (acyclic, nothing dangling) does not resolve
    within `F` nested calls: the real code raises `RecursionError` on it for `F` = its recursion limit -/
theorem c14_depth_witness (F : Nat) : ¬ c14_depth_full F := by
  intro h
  obtain ⟨hac, hd, hs⟩ := chainCell_wellformed F
  obtain ⟨l, hl⟩ := h (chainCell F) hac hd 2 hs
  rw [chain_out_of_fuel F F 0 (by omega)] at hl
  cases hl

/-! ### the hypotheses are satisfiable: a non-trivial cell

Group 10 has duplicate members and includes and three distinct includes, one of them nested two deep (11 → 13);
group 14 includes the undefined `"all"` (id 0 = every segment), so through 14 group 10 is supplied with every
segment and keeps no member of its own. -/

def exCell : Cell :=
  ⟨[0, 1, 2, 3, 4],
   [⟨10, [3, 0, 1, 2, 2, 3], [12, 11, 12, 14]⟩, ⟨11, [0], [13]⟩, ⟨12, [1, 1], []⟩, ⟨13, [3], []⟩,
    ⟨14, [4, 4], [0]⟩]⟩

def exRank : Nat → Nat := fun g => if g = 10 then 3 else if g = 14 then 2 else if g = 11 then 1 else 0

example : Acyclic exCell := ⟨exRank, ranked_of_check exCell exRank (by decide)⟩
example : NoDangling exCell := noDangling_of_check exCell (by decide)
example : emptyId ∉ exCell.groups.map (·.id) := by decide
example : (exCell.groups.map (·.id)).Nodup := by decide
example : (10 : Nat) ≠ emptyId ∧ 10 ∈ exCell.groups.map (·.id) ∧ exCell.groups.length < 6 := by decide
example : (lookup exCell 0).isSome ∧ lookup exCell 99 = none := by decide
example : 2 ∈ optMembersOld [0, 2] [[0]] := by decide
example : resolve exCell 6 10 = .ok [3, 0, 1, 2, 4] := by decide
example : optimiseAll (fun x => x) exCell 6 =
    .ok ⟨[0, 1, 2, 3, 4], [⟨10, [], [11, 12, 14]⟩, ⟨11, [0], [13]⟩, ⟨12, [1], []⟩, ⟨13, [3], []⟩, ⟨14, [], [0]⟩]⟩ := by
  decide
example : optimiseGroup (fun x => x) ⟨[0, 1, 2], [⟨5, [0], []⟩, ⟨6, [1], []⟩, ⟨7, [0, 1, 2], [5, 6]⟩]⟩ 4 7 =
    .ok ⟨[0, 1, 2], [⟨5, [0], []⟩, ⟨6, [1], []⟩, ⟨7, [2], [5, 6]⟩]⟩ := by decide

-- the hypotheses of `c14_main` (`Props/C14Gen.lean`) / `c14_depth_partial` hold on `exCell` (depth allowed 6 > 5 groups; rank of group 10 is 3)
example : Ranked exCell exRank ∧ exRank 10 < 4 := ⟨ranked_of_check exCell exRank (by decide), by decide⟩
-- ties of the natural-sort key (`g1`/`g01`): includes 12 and 11 have the same key and keep their list order
example : optimiseGroup (fun _ => 0) exCell 6 10 =
    .ok ⟨[0, 1, 2, 3, 4], [⟨10, [], [12, 11, 14]⟩, ⟨11, [0], [13]⟩, ⟨12, [1, 1], []⟩, ⟨13, [3], []⟩, ⟨14, [4, 4], [0]⟩]⟩ := by
  decide
-- `assume_all_means_all=False`, the undefined "all" (id 0), a defined group, and asking with the object
example : resolveArg exCell 6 (.str 0) true = .ok [0, 1, 2, 3, 4] ∧ resolveArg exCell 6 (.str 0) false = .error .unknownGroup ∧
    resolveArg exCell 6 (.str 11) false = .ok [0, 3] ∧ resolveArg exCell 6 (.obj ⟨11, [0], [13]⟩) false = .ok [0, 3] ∧
    resolveArg exCell 6 (.obj ⟨77, [2, 2], [13, 0]⟩) true = .ok [2, 3, 0, 1, 4] := by decide
-- optimising returns on some cyclic cells too (5 ⊃ 6 ⊃ 5, group 5 has no member): the clauses hold there as well
example : optimiseGroup (fun x => x) ⟨[0], [⟨5, [], [6, 6]⟩, ⟨6, [0], [5]⟩]⟩ 9 5 =
    .ok ⟨[0], [⟨5, [], [6]⟩, ⟨6, [0], [5]⟩]⟩ ∧
    optimiseGroup (fun x => x) ⟨[0], [⟨5, [], [6, 6]⟩, ⟨6, [0], [5]⟩]⟩ 9 6 = .error .outOfFuel := by decide
-- the included groups are resolved in the cell whose group is ALREADY de-duplicated and sorted (`midCell`): with a
-- cycle 2 ⊃ 4 ⊃ 2 and a dangling include below 3, the sorted order [3, 4] meets the unknown group first
example : optimiseGroup (fun x => x) ⟨[0, 1], [⟨2, [0], [4, 3]⟩, ⟨4, [1], [2]⟩, ⟨3, [1], [99]⟩]⟩ 6 2 = .error .unknownGroup ∧
    resolve ⟨[0, 1], [⟨2, [0], [4, 3]⟩, ⟨4, [1], [2]⟩, ⟨3, [1], [99]⟩]⟩ 6 4 = .error .outOfFuel := by decide
-- recursion limit: the chain of 4 groups needs 4 nested calls
example : resolve (chainCell 3) 3 2 = .error .outOfFuel ∧ resolve (chainCell 3) 4 2 = .ok [0] ∧
    resolve (chainCell 3) 3 3 = .ok [0] := by decide

/-! ### the two defects repaired in `optimise_segment_group` (fixes/C14-optimise-segment-group.patch)

Kept as witnesses on the old loop (`optMembersOld`, `dedupObj` in `Model/Groups.lean`); the theorems above are about
the repaired code. -/

/-- old filter loop, two includes `a = {0}`, `b = {1}`, members `[0, 1, 2]`: the result `[0, 1, 2, 2]` keeps the
    members 0 and 1 that an include supplies and repeats the member 2 -/
theorem c14_old_two_includes_witness :
    optMembersOld [0, 1, 2] [[0], [1]] = [0, 1, 2, 2] ∧ ¬ (optMembersOld [0, 1, 2] [[0], [1]]).Nodup ∧
    (0 ∈ optMembersOld [0, 1, 2] [[0], [1]] ∧ 0 ∈ [0]) := by decide

/-- old de-duplication by object equality: two `<member segment="0"/>` read from a file (distinct lxml nodes) are
    both kept, while two equal-valued objects built in memory collapse -/
theorem c14_old_loaded_witness :
    (dedupObj [⟨0, 1⟩, ⟨0, 2⟩]).map Obj.ref = [0, 0] ∧ (dedupObj [⟨0, 0⟩, ⟨0, 0⟩]).map Obj.ref = [0] := by decide

/-- with a single include the old loop was already minimal (why the repo's own test passed) -/
theorem c14_old_one_include (ms cl : List Nat) (s : Nat) (h : s ∈ optMembersOld ms [cl]) : s ∉ cl := by
  unfold optMembersOld at h
  split at h
  · rw [mem_sortBy] at h
    simp only [List.flatMap_cons, List.flatMap_nil, List.append_nil, List.mem_filter] at h
    simpa using h.2
  · rename_i hne
    have : ms = [] := by
      by_cases hm : ms = []
      · exact hm
      · exact absurd ⟨by simp, hm⟩ hne
    simp [this] at h

end NmlVerif.Groups
