import NmlVerif.Props.C14
import NmlVerif.Proofs.GroupsGen
set_option linter.unusedSimpArgs false
set_option linter.unusedVariables false
/-!
# C14 — the per-run obligations: the translation of today's source equals the model

`Gen/Groups.lean` is rewritten from `neuroml/nml/nml.py` and `helper_methods.py` by `translators/groups_extract.py`
on every run. This module is the only C14 theorem module that imports it: `c14_gen_*` prove the generated
definitions equal to the hand model of `Props/C14.lean` for all inputs, `c14_main` states the whole property on the
generated definitions. If the source changes so that one of these no longer checks, only the theorems HERE are
undischarged; the generic theorems of `Props/C14.lean` (about the model) do not depend on the generated file.
-/
namespace NmlVerif.Groups

/-! ### the translation of today's source equals the model (`Gen/Groups.lean` is rewritten from
`neuroml/nml/nml.py` and `helper_methods.py` by `translators/groups_extract.py` on every run) -/

open NmlVerif.Gen.Groups in
/-- `Cell.get_all_segments_in_group`, as translated, is `resolveArg`: for every cell, argument, flag and depth -/
theorem c14_gen_resolve (fuel : Nat) (c : Cell) (a : Arg) (aam : Bool) :
    get_all_segments_in_group fuel c a aam = resolveArg c fuel a aam := gen_resolve fuel c a aam

open NmlVerif.Gen.Groups in
/-- `Cell.get_segment_group`, as translated, returns the position of the first group with the id (a non-empty
    string), which is the group `findG` finds and `setGroup` replaces -/
theorem c14_gen_get_segment_group (c : Cell) (g : Nat) :
    (get_segment_group c g = if g = emptyId then .error .notFound else
      match firstIdx c.groups g with
      | some k => .ok k
      | none => .error .notFound) ∧
    (firstIdx c.groups g = none → findG c.groups g = none) ∧
    (∀ k, firstIdx c.groups g = some k → findG c.groups g = some (grp c k) ∧
      ∀ G', c.groups.set k G' = replaceFirst c.groups g G') :=
  ⟨gen_get_segment_group c g, firstIdx_none c.groups g,
   fun k hk => ⟨(firstIdx_some c.groups g k hk).1, fun G' => ((firstIdx_some c.groups g k hk).2 G').1⟩⟩

open NmlVerif.Gen.Groups in
/-- `Cell.optimise_segment_group`, as translated, is `optimiseGroup` -/
theorem c14_gen_optimise_segment_group (key : Nat → Nat) (fuel : Nat) (c : Cell) (g : Nat) :
    optimise_segment_group key fuel c g = optimiseGroup key c fuel g := gen_optimise_segment_group key fuel c g

open NmlVerif.Gen.Groups in
/-- `Cell.optimise_segment_groups`, as translated, is `optimiseAll` -/
theorem c14_gen_optimise_segment_groups (key : Nat → Nat) (fuel : Nat) (c : Cell) :
    optimise_segment_groups key fuel c = optimiseAll key c fuel := gen_optimise_segment_groups key fuel c

open NmlVerif.Gen.Groups in
/-- **C14, on the translated source, in one statement.** For every cell with an acyclic include graph (no dangling
    include, no empty group id; any overlap, duplicates, number of includes; any tie-breaking sort key) and a recursion
    depth allowed above the number of groups: (1) `get_all_segments_in_group` of every known group returns exactly the
    segments reachable through members and, transitively, includes, each once; (2) `optimise_segment_groups()`
    returns a cell in which the reachable set of EVERY group is what it was, every group is minimal (no duplicate
    member, no duplicate include, no member supplied by an include), every group still resolves to the same set, and
    (3) a second `optimise_segment_groups()` returns that same cell. -/
theorem c14_main (key : Nat → Nat) (c : Cell) (f : Nat) (hac : Acyclic c) (hd : NoDangling c)
    (hne : emptyId ∉ c.groups.map (·.id)) (hf : c.groups.length < f) :
    (∀ g, (lookup c g).isSome → ∃ l, get_all_segments_in_group f c (.str g) true = .ok l ∧
        (∀ s, s ∈ l ↔ InCl c g s) ∧ ((findG c.groups g).isSome ∨ c.segs.Nodup → l.Nodup)) ∧
    ∃ c', optimise_segment_groups key f c = .ok c' ∧
      (∀ h s, InCl c' h s ↔ InCl c h s) ∧
      (∀ g, Minimal c' g) ∧
      (∀ g l, get_all_segments_in_group f c (.str g) true = .ok l →
        ∃ l', get_all_segments_in_group f c' (.str g) true = .ok l' ∧ ∀ s, s ∈ l' ↔ s ∈ l) ∧
      optimise_segment_groups key f c' = .ok c' := by
  simp only [c14_gen_resolve, c14_gen_optimise_segment_groups, c14_resolve_arg_id]
  refine ⟨fun g hg => c14_resolve_exact c hac hd f g hf hg, ?_⟩
  obtain ⟨c', hc'⟩ := c14_optimiseAll_total key c f hac hd hf hne
  have hfr := c14_optimiseAll_frame key c f c' hc'
  have hpres := c14_optimiseAll_preserves key c f c' hc'
  refine ⟨c', hc', hpres, c14_optimiseAll_minimal key c f c' hc', ?_, c14_optimiseAll_idempotent key c f c' hc'⟩
  intro g l hl
  have hlen : c'.groups.length < f := by
    have := congrArg List.length hfr.2.1
    simp only [List.length_map] at this
    omega
  have hsome : (lookup c' g).isSome := by
    have h1 := (c14_resolve_returns_only_if c f g l hl g (Reach.refl g)).1
    -- same ids, same implicit `all`
    unfold lookup at h1 ⊢
    cases hG : findG c.groups g with
    | some G =>
      obtain ⟨G', hG'⟩ := findG_of_mem_ids (gs := c'.groups) (by rw [hfr.2.1]; exact findG_some_mem_ids hG)
      rw [hG']; rfl
    | none =>
      rw [hG] at h1
      cases hG' : findG c'.groups g with
      | some G' => rfl
      | none => simpa using h1
  obtain ⟨l', hl', hcl', _⟩ := c14_resolve_exact c' (hfr.2.2.1 hac) (hfr.2.2.2 hd) f g hlen hsome
  refine ⟨l', hl', fun s => ?_⟩
  rw [hcl' s, resolve_closure c f g l hl s]
  exact hpres g s

/-! ### the translated source run on `exCell` (the generated definitions are executable) -/

example : NmlVerif.Gen.Groups.get_all_segments_in_group 6 exCell (.str 10) true = .ok [3, 0, 1, 2, 4] := by decide
example : NmlVerif.Gen.Groups.get_segment_group exCell 12 = .ok 2 ∧
    NmlVerif.Gen.Groups.get_segment_group exCell emptyId = .error .notFound ∧
    NmlVerif.Gen.Groups.get_segment_group exCell 99 = .error .notFound := by decide
example : NmlVerif.Gen.Groups.optimise_segment_groups (fun x => x) 6 exCell =
    .ok ⟨[0, 1, 2, 3, 4], [⟨10, [], [11, 12, 14]⟩, ⟨11, [0], [13]⟩, ⟨12, [1], []⟩, ⟨13, [3], []⟩, ⟨14, [], [0]⟩]⟩ := by
  decide

end NmlVerif.Groups
