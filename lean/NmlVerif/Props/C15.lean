import NmlVerif.Proofs.Builder
/-!
# C15 — any sequence of cell-builder calls leaves a well-formed, valid cell

Model: `NmlVerif.Builder` (`Model/Builder.lean`): a state machine over the `Cell` builder helpers of
`neuroml/nml/helper_methods.py` (= the copies in `neuroml/nml/nml.py`), tied to the code by the per-operation
correspondence check `harness/props/c15.py` (random histories on a real `Cell` vs `Drivers/C15.lean`).

A history is a list of operations folded with `stepWith`; a call that raises ends it, so `runWith … = .ok s`
says "every call returned normally".  `finishWith` is the documented final `reorder_segment_groups()` +
`optimise_segment_groups()`.  `optimise_segment_groups` is a parameter `opt` of the model; the theorems hold for
every `opt` meeting `OptSpec` (segments/groups kept, every resolved set kept — property C14), and
`optSpec_optimiseAll` shows that the model's own function (shipped loop and C14-repaired loop) meets it.

The last clause of the property (`validate(recursive=True)` passes, the written cell is schema-valid) has no
schema model in Lean: it is covered by the oracle of the harness (real `validate` + libxml2 against
`NeuroML_v2.3.1.xsd` on every generated history), compared with the model's `shapeOK`.
-/
namespace NmlVerif.Builder

/-! ## ids and parents: every history -/

/-- **An id in use is refused** (the repaired check): whatever else is passed, `add_segment` with an explicit
    `seg_id` that some segment already has does not return normally … -/
theorem c15_explicit_id_in_use_refused (opt : State → Except Err State) (s : State) (a : AddSeg) (i : Int)
    (hi : a.segId = some i) (hin : i ∈ s.ids) (hlex : a.lex = false) : ∀ s', addSegmentWith pickId opt s a ≠ .ok s' := by
  intro s' e
  unfold addSegmentWith at e
  split at e
  · cases e
  split at e
  · cases e
  split at e
  · cases e
  split at e
  · cases e
  rename_i id hpick
  obtain ⟨hnot, hid⟩ := pickId_ok hlex hpick
  unfold autoId at hid
  rw [hi] at hid
  simp only [Option.getD_some] at hid
  subst hid
  exact hnot hin

/-- … and with a parent given where one is needed and a fraction in [0,1], what it raises is `ValueError`,
    before anything is changed (0 is an id like any other). -/
theorem c15_explicit_id_in_use_valueError (opt : State → Except Err State) (s : State) (a : AddSeg) (i : Int)
    (hi : a.segId = some i) (hin : i ∈ s.ids) (hp : a.parent.isSome) (hf : 0 ≤ a.frac4 ∧ a.frac4 ≤ 4)
    (hd : ¬ (a.prox = .badDiam ∨ a.dist = .badDiam)) (hlex : a.lex = false) :
    addSegmentWith pickId opt s a = .error .valueError := by
  unfold addSegmentWith
  have h1 : ¬ (s.segs.length > 0 ∧ a.parent.isNone = true) := by
    intro h; cases hq : a.parent with
    | none => rw [hq] at hp; cases hp
    | some q => rw [hq] at h; simp at h
  have h2 : ¬ (a.parent.isSome = true ∧ ¬ (0 ≤ a.frac4 ∧ a.frac4 ≤ 4)) := fun h => h.2 hf
  simp only [hd, h1, h2, ↓reduceIte]
  have : pickId s a = .error .valueError := by
    unfold pickId pickCfg autoId
    simp only [hi, Option.getD_some, hin, hlex, or_true, and_self, ↓reduceIte]
  rw [this]

/-- the same for an automatic id (`len(segments)`) that is already taken because explicit ids were mixed in -/
theorem c15_automatic_id_in_use_refused (opt : State → Except Err State) (s : State) (a : AddSeg)
    (hi : a.segId = none) (hin : (s.segs.length : Int) ∈ s.ids) (hlex : a.lex = false) :
    ∀ s', addSegmentWith pickId opt s a ≠ .ok s' := by
  intro s' e
  unfold addSegmentWith at e
  split at e
  · cases e
  split at e
  · cases e
  split at e
  · cases e
  split at e
  · cases e
  rename_i id hpick
  obtain ⟨hnot, hid⟩ := pickId_ok hlex hpick
  unfold autoId at hid
  rw [hi] at hid
  simp only [Option.getD_none] at hid
  subst hid
  exact hnot hin

/-- **Ids unique, parents present — for EVERY history** (any group ids incl. reused and default-named ones, any
    types, explicit/automatic/mixed ids, any flags, `use_convention` on or off): if every call returned normally
    and each `parent` passed was a segment of the cell at that moment, then segment ids are pairwise different and
    every non-root segment's parent exists.  Needs of `optimise_segment_groups` only that it keeps the segments. -/
theorem c15_ids_unique_parents_exist (opt : State → Except Err State) (ho : OptSegs opt) (ops : List Op) (s : State)
    (hok : RunParentsOK pickId opt init ops) (hrun : runWith pickId opt init ops = .ok s) :
    s.ids.Nodup ∧ ∀ seg ∈ s.segs, ∀ p, seg.parent = some p → p ∈ s.ids :=
  let h : Basic s := basic_run (pickSpecP_true pickSpec_pickId) ho ops init s basic_init hok hrun
  ⟨h.idsNodup, h.parents⟩

/-- … and the final reorder + optimise step keeps that -/
theorem c15_ids_unique_after_finish (opt : State → Except Err State) (ho : OptSegs opt) (ops : List Op) (s s' : State)
    (hok : RunParentsOK pickId opt init ops) (hrun : runWith pickId opt init ops = .ok s) (hfin : finishWith opt s = .ok s') :
    s'.ids.Nodup ∧ ∀ seg ∈ s'.segs, ∀ p, seg.parent = some p → p ∈ s'.ids := by
  have h : Basic s := basic_run (pickSpecP_true pickSpec_pickId) ho ops init s basic_init hok hrun
  have h' : Basic s' := basic_of_segs h (by unfold finishWith at hfin; rw [ho _ _ hfin]; rfl)
  exact ⟨h'.idsNodup, h'.parents⟩

/-! ## the invariant, by induction over operations -/

/-- `Inv init`: a cell fresh from `component_factory("Cell", id=…)` -/
theorem c15_inv_init : Inv init := inv_init

/-- `Inv s → step s op = ok s' → Inv s'` for every operation (hypotheses of the operation: `OpOK`) -/
theorem c15_inv_step (opt : State → Except Err State) (ho : OptSpec opt) (s s' : State) (op : Op)
    (h : Inv s) (hok : OpOK s op) (e : stepWith pickId opt s op = .ok s') : Inv s' := inv_step pickSpec_pickId ho h hok e

/-- the model's `optimise_segment_groups` meets the specification the induction needs (both loop variants) -/
theorem c15_optimise_meets_spec (cfg : Cfg) : OptSpec (optimiseAll cfg) := optSpec_optimiseAll cfg

/-- the property's quantifier without the two exclusions: `use_convention=True`, parents are segments of the cell -/
def OpDomain (s : State) : Op → Prop
  | .addSegment a => a.useConv = true ∧ ∀ p, a.parent = some p → p ∈ s.ids
  | .addUnbranched u => u.useConv = true ∧ ∀ p, u.parent = some p → p ∈ s.ids
  | _ => True

def RunDomain (opt : State → Except Err State) : State → List Op → Prop
  | _, [] => True
  | s, op :: ops => OpDomain s op ∧ ∀ s', stepWith pickId opt s op = .ok s' → RunDomain opt s' ops

/-- **Full statement** (false on today's code, see the witnesses): every history in the property's quantifier that
    returned normally, followed by the final step, leaves a `Good` cell. -/
def c15_full : Prop :=
  ∀ (cfg : Cfg) (ops : List Op) (s s' : State), RunDomain (optimiseAll cfg) init ops →
    run cfg init ops = .ok s → finish cfg s = .ok s' → Good s'

/-- **The strongest true restriction.**  For EVERY finite history whose calls all returned normally and that
    satisfies `RunOK` — the quantifier's domain plus `OneTypePerGroup` (a user group is used with one segment type)
    and `UserGroupNamesFresh` (a user group is not called like a default group) — the cell after the final
    reorder + optimise step is `Good`: ids unique, parents present, 'all' resolves to every segment, each default
    group resolves to exactly the segments added with its type, every group is defined before any group that
    includes it.  For every `opt` meeting `OptSpec`. -/
theorem c15_partial (opt : State → Except Err State) (ho : OptSpec opt) (ops : List Op) (s s' : State)
    (hok : RunOK pickId opt init ops) (hrun : runWith pickId opt init ops = .ok s) (hfin : finishWith opt s = .ok s') :
    Good s' :=
  good_finish ho (inv_run pickSpec_pickId ho ops init s inv_init hok hrun) hfin

/-- the same for the model as the driver runs it (either variant of `optimise_segment_group`) -/
theorem c15_partial_model (cfg : Cfg) (ops : List Op) (s s' : State)
    (hok : RunOK pickId (optimiseAll cfg) init ops) (hrun : run cfg init ops = .ok s) (hfin : finish cfg s = .ok s') :
    Good s' :=
  c15_partial (optimiseAll cfg) (optSpec_optimiseAll cfg) ops s s' hok hrun hfin

/-- the resolved-set clauses already hold before the final step (it is needed for the order clause only) -/
theorem c15_partial_before_finish (opt : State → Except Err State) (ho : OptSpec opt) (ops : List Op) (s : State)
    (hok : RunOK pickId opt init ops) (hrun : runWith pickId opt init ops = .ok s) :
    (∃ l, resolve s "all" = .ok l ∧ ∀ i, i ∈ l ↔ i ∈ s.ids) ∧
    (∀ t l, resolve s (SegType.group t) = .ok l → ∀ i, i ∈ l ↔ ∃ seg ∈ s.segs, seg.id = i ∧ seg.stype = some t) := by
  have h := inv_run pickSpec_pickId ho ops init s inv_init hok hrun
  -- `good_of_inv` needs the order only for its last field
  have hall : ∃ l, resolve s "all" = .ok l ∧ ∀ i, i ∈ l ↔ i ∈ s.ids := by
    cases e : look s.groups "all" with
    | some G =>
      obtain ⟨l, hl, hm⟩ := resolve_flat s.ids h.str.flat e
      exact ⟨l, hl, fun i => (hm i).trans (h.all i)⟩
    | none =>
      refine ⟨s.ids, ?_, fun _ => Iff.rfl⟩
      unfold resolve resolveAux
      rw [e]
      simp
  refine ⟨hall, ?_⟩
  intro t l hl i
  cases e : look s.groups t.group with
  | some G =>
    obtain ⟨l', hl', hm⟩ := resolve_flat s.ids h.str.flat e
    unfold resolve at hl
    rw [hl'] at hl
    cases hl
    exact (hm i).trans (h.typed t i)
  | none =>
    unfold resolve resolveAux at hl
    rw [e] at hl
    simp only [group_ne_all t, ↓reduceIte] at hl
    cases hl

/-! ## decidable form of the hypotheses (for the examples below) -/

def segOKb (s : State) (parent : Option Int) (groupId : Option String) (useConv : Bool) (segType : Option String) : Bool :=
  useConv &&
  (match parent with | some p => decide (p ∈ s.ids) | none => true) &&
  (match groupId with
   | some g => !isDefaultName g && s.segs.all (fun seg => decide (seg.ugroup = some g → seg.stype = parseType segType))
   | none => true)

def opOKb (s : State) : Op → Bool
  | .addSegment a => segOKb s a.parent a.groupId a.useConv a.segType
  | .addUnbranched u => segOKb s u.parent u.groupId u.useConv u.segType
  | .addSegmentLex _ => false
  | _ => true

def runOKb (opt : State → Except Err State) : State → List Op → Bool
  | _, [] => true
  | s, op :: ops => opOKb s op && (match stepWith pickId opt s op with | .ok s' => runOKb opt s' ops | .error _ => true)

theorem segOKb_sound {s : State} {parent : Option Int} {groupId : Option String} {useConv : Bool} {segType : Option String}
    (h : segOKb s parent groupId useConv segType = true) :
    useConv = true ∧ (∀ p, parent = some p → p ∈ s.ids) ∧ (∀ g, groupId = some g → isDefaultName g = false) ∧
    (∀ g, groupId = some g → ∀ seg ∈ s.segs, seg.ugroup = some g → seg.stype = parseType segType) := by
  unfold segOKb at h
  simp only [Bool.and_eq_true] at h
  obtain ⟨⟨h1, h2⟩, h3⟩ := h
  refine ⟨h1, ?_, ?_, ?_⟩
  · intro p hp; subst hp; simpa using h2
  · intro g hg; subst hg
    simp only [Bool.and_eq_true, Bool.not_eq_eq_eq_not, Bool.not_true] at h3
    exact h3.1
  · intro g hg seg hseg; subst hg
    simp only [Bool.and_eq_true, List.all_eq_true, decide_eq_true_eq] at h3
    exact h3.2 seg hseg

theorem opOKb_sound {s : State} {op : Op} (h : opOKb s op = true) : OpOK s op := by
  cases op with
  | addSegment a => obtain ⟨a1, a2, a3, a4⟩ := segOKb_sound h; exact ⟨a1, a2, fun g hg => Or.inl (a3 g hg), a4⟩
  | addUnbranched u => obtain ⟨a1, a2, a3, a4⟩ := segOKb_sound h; exact ⟨a1, a2, fun g hg => Or.inl (a3 g hg), a4⟩
  | addSegmentLex a => cases h
  | _ => trivial

theorem runOKb_sound (opt : State → Except Err State) : ∀ (ops : List Op) (s : State), runOKb opt s ops = true → RunOK pickId opt s ops
  | [], _, _ => trivial
  | op :: ops, s, h => by
    unfold runOKb at h
    simp only [Bool.and_eq_true] at h
    refine ⟨opOKb_sound h.1, ?_⟩
    intro s' e
    have h2 := h.2
    rw [e] at h2
    exact runOKb_sound opt ops s' h2

/-! ## witnesses and examples -/

/-- shorthand for an `add_segment` call -/
def seg (g : Option String) (t : String) (p : Option Int) (sid : Option Int := none) (ro := true) (op := true) : Op :=
  .addSegment { prox := .ok, segId := sid, name := none, parent := p, frac4 := 4, groupId := g, useConv := true,
                segType := some t, reorder := ro, optimise := op }

def idsOf : Except Err State → Option (List Int)
  | .ok s => some s.ids
  | .error _ => none

def isErr (e : Err) : Except Err State → Bool
  | .ok _ => false
  | .error e' => e == e'

def shipped : Cfg := ⟨false⟩
def repaired : Cfg := ⟨true⟩

/-- a non-trivial history satisfying `RunOK`: explicit ids incl. 0, a fraction, three types, two user groups, an
    unbranched run of 3 segments, deferred reorder/optimise — the hypotheses of `c15_partial` are satisfiable … -/
def demoOps : List Op :=
  [seg (some "soma_0") "soma" none (some 3) false false,
   seg (some "dend_0") "dendrite" (some 3) (some 7) false false,
   seg (some "dend_0") "dendrite" (some 7) (some 0) false false,
   seg none "axon" (some 3) (some 8) false false,
   .addUnbranched { npoints := 4, parent := some 8, frac4 := 2, groupId := some "axon_0", useConv := true,
                    segType := some "axon", reorder := false, optimise := false },
   .addMembrane ⟨.spikeThresh, "40mV", "all"⟩]

example : RunOK pickId (optimiseAll shipped) init demoOps := runOKb_sound _ _ _ (by decide)
example : RunOK pickId (optimiseAll repaired) init demoOps := runOKb_sound _ _ _ (by decide)
/-- … and the history and its final step do return normally (ids 3,7,0,8 and three automatic ones) -/
example : idsOf (run shipped init demoOps) = some [3, 7, 0, 8, 4, 5, 6] := by decide
example : (match run shipped init demoOps with | .ok s => (finish shipped s).toBool | .error _ => false) = true := by decide
example : RunParentsOK pickId (optimiseAll shipped) init demoOps := by
  have h := runOKb_sound (optimiseAll shipped) demoOps init (by decide)
  -- `RunOK` implies `RunParentsOK`
  have key : ∀ (ops : List Op) (s : State), RunOK pickId (optimiseAll shipped) s ops → RunParentsOK pickId (optimiseAll shipped) s ops := by
    intro ops
    induction ops with
    | nil => intro _ _; trivial
    | cons op ops ih =>
      intro s hs
      refine ⟨?_, fun s' e => ih s' (hs.2 s' e)⟩
      cases op with
      | addSegment a => exact hs.1.parent
      | addUnbranched u => exact hs.1.parent
      | addSegmentLex a => exact hs.1
      | _ => trivial
  exact key _ _ h
/-- `OptSpec` is met by the identity as well (an `optimise` that does nothing) -/
example : OptSpec (fun s => .ok s) := optSpec_id

/-- the repaired check at work: the third call re-uses id 5 and is refused with `ValueError` -/
example : isErr .valueError (run shipped init [seg none "soma" none, seg (some "d0") "dendrite" (some 0) (some 5),
    seg (some "d0") "dendrite" (some 5) (some 5)]) = true := by decide
/-- explicit id 1 first, then an automatic id (= 1): refused as well -/
example : isErr .valueError (run shipped init [seg none "soma" none (some 1), seg (some "d0") "dendrite" (some 1)]) = true := by
  decide

/-- **Defect (i), repaired by `fixes/C15-duplicate-segment-id.patch`**: with the shipped id logic (`pickIdOld`: the
    `raise` sits inside the `try` whose `except ValueError: pass` swallows it) the same history returns normally
    with ids `[0, 5, 5]` -/
theorem c15_old_explicit_reuse_witness :
    idsOf (runOld shipped init [seg none "soma" none, seg (some "d0") "dendrite" (some 0) (some 5),
      seg (some "d0") "dendrite" (some 5) (some 5)]) = some [0, 5, 5] := by decide

/-- **Defect (ii), same repair**: explicit id 1, then an automatic id: ids `[1, 1]` -/
theorem c15_old_mixed_ids_witness :
    idsOf (runOld shipped init [seg none "soma" none (some 1), seg (some "d0") "dendrite" (some 1)]) = some [1, 1] := by
  decide

/-- **Defect (i')**: `seg_id=0` was read as "not given": no refusal although 0 is in use (it silently became id 1) -/
theorem c15_old_zero_witness :
    idsOf (runOld shipped init [seg none "soma" none, seg none "dendrite" (some 0) (some 0)]) = some [0, 1] := by decide

/-! ### open findings: what the two excluding hypotheses exclude -/

def groupOf (s : State) (g : String) : Option (List Int) :=
  match resolve s g with
  | .ok l => some (natSort l)
  | .error _ => none

/-- KNOWN FINDING `C15:default-group-mismatch:group-reused-across-types`: one user group, two segment types — both
    segments end up in `soma_group` AND in `dendrite_group`. -/
def reuseOps : List Op := [seg (some "g0") "soma" none, seg (some "g0") "dendrite" (some 0)]

theorem c15_group_reuse_witness :
    (match run shipped init reuseOps with
     | .ok s => (match finish shipped s with
        | .ok s' => (groupOf s' "soma_group", groupOf s' "dendrite_group", s'.segs.map (fun x => (x.id, x.stype)))
        | .error _ => (none, none, []))
     | .error _ => (none, none, [])) =
    (some [0, 1], some [0, 1], [(0, some .soma), (1, some .dendrite)]) := by decide

/-- KNOWN FINDING `C15:include-before-definition:default-named-user-group`: a user group called `dendrite_group`
    with a soma segment — `soma_group` includes `dendrite_group`, which is defined after it, also after the final
    step; and `dendrite_group` holds a soma segment. -/
def defaultNamedOps : List Op := [seg (some "dendrite_group") "soma" none]

theorem c15_default_named_witness :
    (match run shipped init defaultNamedOps with
     | .ok s => (match finish shipped s with
        | .ok s' => s'.groups.map (fun G => (G.id, G.includes))
        | .error _ => [])
     | .error _ => []) =
    [("soma_group", ["dendrite_group"]), ("dendrite_group", []), ("all", ["dendrite_group"])] := by decide

/-- KNOWN FINDING `C15:finish-raises:default-named-user-group`: `group_id="all"` makes 'all' include itself; with
    optimisation deferred the call returns normally and the final step raises `RecursionError`. -/
theorem c15_self_include_witness :
    (match run shipped init [seg (some "all") "soma" none none true false] with
     | .ok s => isErr .recursionError (finish shipped s)
     | .error _ => false) = true := by decide

/-- the full statement is false: the group-reuse history is in the property's quantifier, returns normally, and the
    resulting cell is not `Good` (`soma_group` resolves to a dendrite segment). -/
theorem c15_full_false : ¬ c15_full := by
  intro h
  have hrun : ∃ s, run shipped init reuseOps = .ok s := by
    cases e : run shipped init reuseOps with
    | ok s => exact ⟨s, rfl⟩
    | error _ => have := c15_group_reuse_witness; rw [e] at this; simp at this
  obtain ⟨s, hs⟩ := hrun
  have hfin : ∃ s', finish shipped s = .ok s' := by
    cases e : finish shipped s with
    | ok s' => exact ⟨s', rfl⟩
    | error _ => have := c15_group_reuse_witness; rw [hs] at this; simp only [e] at this; simp at this
  obtain ⟨s', hs'⟩ := hfin
  have hw := c15_group_reuse_witness
  rw [hs] at hw
  simp only [hs'] at hw
  have hdom : RunDomain (optimiseAll shipped) init reuseOps := by
    refine ⟨⟨rfl, by intro p hp; cases hp⟩, ?_⟩
    intro s1 e1
    refine ⟨⟨rfl, ?_⟩, fun _ _ => trivial⟩
    intro p hp
    have hp0 : p = 0 := by cases hp; rfl
    subst hp0
    have : idsOf (stepWith pickId (optimiseAll shipped) init (seg (some "g0") "soma" none)) = some [0] := by decide
    rw [e1] at this
    simp only [idsOf, Option.some.injEq] at this
    rw [this]; simp
  have hgood := h shipped reuseOps s s' hdom hs hs'
  -- `soma_group` resolves to [0,1] but segment 1 was added as a dendrite
  simp only [Prod.mk.injEq] at hw
  obtain ⟨h1, _, h3⟩ := hw
  unfold groupOf at h1
  cases hr : resolve s' "soma_group" with
  | error _ => rw [hr] at h1; cases h1
  | ok l =>
    rw [hr] at h1
    simp only [Option.some.injEq] at h1
    have hmem : 1 ∈ l := by rw [← mem_natSort, h1]; simp
    obtain ⟨x, hx, hxid, hxt⟩ := (hgood.byType .soma l hr 1).mp hmem
    have : (x.id, x.stype) ∈ s'.segs.map (fun x => (x.id, x.stype)) := List.mem_map.mpr ⟨x, hx, rfl⟩
    rw [h3, hxid, hxt] at this
    simp at this

end NmlVerif.Builder
