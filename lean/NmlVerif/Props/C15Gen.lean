import NmlVerif.Gen.Builder
import NmlVerif.Proofs.BuilderGen
/-!
# C15 — the generated translation of the builder methods computes the hand model

`Gen/Builder.lean` is rewritten on every run by `translators/py2lean_builder.py` from `helper_methods.py` and `nml.py`.
* `c15_gen_add_segment_stmts` (`rfl`, per run): the statement list generated for `add_segment` is the expected one for
  the tree's variant (`idFixed`, `namesFixed` = which proposed-repair statements are present).
* `c15_gen_add_segment`: the expected list, run statement by statement, computes `addSegmentWith (pickCfg …)` — the
  hand model the C15 theorems are about — for ALL states and arguments, in each of the four variants.
* `c15_gen_*`: the constants of the small methods (whole-method templates) are those of the hand model.
-/
set_option linter.unusedSimpArgs false
namespace NmlVerif.Builder
open NmlVerif.Builder.IR

/-- **per run**: what the translator produced from today's sources is the expected statement list -/
theorem c15_gen_add_segment_stmts (opt : State → Except Err State) :
    NmlVerif.Gen.Builder.addSegmentStmts opt = expectedStmts NmlVerif.Gen.Builder.idFixed NmlVerif.Gen.Builder.namesFixed opt := rfl

/-- **`add_segment` as translated = `add_segment` as modelled**, for all states and arguments, in each variant of the
    tree (as it is; with the id repair; with the default-name repair; with both) -/
theorem c15_gen_add_segment (idFx nmFx : Bool) (opt : State → Except Err State) (s : State) (a : AddSeg) :
    runAddSegment (expectedStmts idFx nmFx opt) s a = addSegmentWith (pickCfg idFx nmFx) opt s (normArg idFx a) := by
  have hrun : ∀ body, runAddSegment body s a = ctxState (runStmts body { s := s, a := a }) := by
    intro body; unfold runAddSegment ctxState; cases runStmts body { s := s, a := a } <;> rfl
  rw [hrun, expectedStmts_split, runStmts_append, head_eq]
  have hmodel : ∀ a', addSegmentWith (pickCfg idFx nmFx) opt s a' =
      (if a'.prox = .badDiam ∨ a'.dist = .badDiam then .error .valueError else
       if s.segs.length > 0 ∧ a'.parent.isNone then .error .exception else
       if a'.parent.isSome ∧ ¬ (0 ≤ a'.frac4 ∧ a'.frac4 ≤ 4) then .error .valueError else
       match pickCfg idFx nmFx s a' with
       | .error e => .error e
       | .ok id => tailModel opt s a' id) := by
    intro a'; unfold addSegmentWith tailModel; rfl
  rw [hmodel]
  have hn : (normArg idFx a).prox = a.prox ∧ (normArg idFx a).dist = a.dist ∧ (normArg idFx a).parent = a.parent ∧
      (normArg idFx a).frac4 = a.frac4 := by cases idFx <;> exact ⟨rfl, rfl, rfl, rfl⟩
  rw [hn.1, hn.2.1, hn.2.2.1, hn.2.2.2]
  unfold headModel
  by_cases c1 : a.prox = .badDiam ∨ a.dist = .badDiam
  · simp only [c1, ↓reduceIte, ctxState]
  by_cases c2 : s.segs.length > 0 ∧ a.parent.isNone
  · simp only [c1, c2, and_self, ↓reduceIte, ctxState]
  by_cases c3 : a.parent.isSome ∧ ¬ (0 ≤ a.frac4 ∧ a.frac4 ≤ 4)
  · simp only [c1, c2, c3, not_false_eq_true, and_self, ↓reduceIte, ctxState]
  simp only [c1, c2, c3, ↓reduceIte]
  cases hp : pickCfg idFx nmFx s (normArg idFx a) with
  | error e => simp only [ctxState]
  | ok id => simp only; exact tail_eq opt { s := s, a := normArg idFx a, segId := id, t := none } rfl

/-- … for the generated list of today's tree -/
theorem c15_gen_add_segment_today (opt : State → Except Err State) (s : State) (a : AddSeg) :
    runAddSegment (NmlVerif.Gen.Builder.addSegmentStmts opt) s a =
      addSegmentWith (pickCfg NmlVerif.Gen.Builder.idFixed NmlVerif.Gen.Builder.namesFixed) opt s
        (normArg NmlVerif.Gen.Builder.idFixed a) := by
  rw [c15_gen_add_segment_stmts]; exact c15_gen_add_segment _ _ opt s a

/-! ### the small methods: whole-body templates, their constants -/

/-- `reorder_segment_groups` moves exactly the hand model's names, in its order -/
theorem c15_gen_reorder_order : NmlVerif.Gen.Builder.reorderOrder = defaultOrder := by decide

/-- `setup_default_segment_groups` supports the hand model's names, with its NeuroLex ids (looked up in
    `neuro_lex_ids.py`) -/
theorem c15_gen_default_table :
    NmlVerif.Gen.Builder.defaultTable.map (fun p => (p.1, p.2.bind (fun k => (NmlVerif.Gen.Builder.nlxTable.find? (·.1 == k)).map (·.2))))
      = [("soma_group", defaultNlx "soma_group"), ("axon_group", defaultNlx "axon_group"),
         ("dendrite_group", defaultNlx "dendrite_group"), ("all", defaultNlx "all")] := by decide

theorem isDefaultName_iff_table (g : String) :
    isDefaultName g = (["soma_group", "axon_group", "dendrite_group", "all"].contains g) := by
  unfold isDefaultName
  simp only [List.contains_cons, List.contains_nil, Bool.or_false, Bool.or_assoc]

/-- `add_unbranched_segment_group` passes the NeuroLex id of a section -/
theorem c15_gen_section_nlx :
    (NmlVerif.Gen.Builder.nlxTable.find? (·.1 == NmlVerif.Gen.Builder.sectionKey)).map (·.2) = some sectionNlx := by decide

/-- the `set_*` wrappers call the generic adder the model says, with the kind the model says -/
theorem c15_gen_wrappers : NmlVerif.Gen.Builder.wrappers =
    [("set_spike_thresh", "membrane", "SpikeThresh"), ("set_init_memb_potential", "membrane", "InitMembPotential"),
     ("set_specific_capacitance", "membrane", "SpecificCapacitance"), ("set_resistivity", "intracellular", "Resistivity")] := by
  decide

/-- every whole-method template matched: `add_segment_group`, `setup_nml_cell`, `optimise_segment_groups`,
    `add_membrane_property`, `add_intracellular_property`, `add_channel_density(_v)`, `add_unbranched_segments` -/
theorem c15_gen_templates :
    (NmlVerif.Gen.Builder.optimiseAllOK && NmlVerif.Gen.Builder.addGroupOK && NmlVerif.Gen.Builder.setupNmlCellOK
      && NmlVerif.Gen.Builder.addMembraneOK && NmlVerif.Gen.Builder.addIntraOK && NmlVerif.Gen.Builder.addChanOK
      && NmlVerif.Gen.Builder.addChanVOK && NmlVerif.Gen.Builder.unbranchedOK) = true := by decide

/-- the defaults the model relies on: `add_unbranched_segments` does not pass `optimise_segment_groups` to
    `add_segment` (default `True`: `unbSeg.optimise`), `component_factory("Cell")` calls `setup_nml_cell()` with
    `default_groups=["all", "soma_group"]` (`init`), the property adders call `setup_nml_cell(use_convention=False)`
    with `overwrite=False` -/
theorem c15_gen_defaults :
    (NmlVerif.Gen.Builder.params_add_segment.map (·.2)).drop 3 =
      [some "None", some "None", some "None", some "1.0", some "None", some "True", some "None", some "True", some "True"] ∧
    NmlVerif.Gen.Builder.params_setup_nml_cell =
      [("self", none), ("use_convention", some "True"), ("overwrite", some "False"), ("default_groups", some "['all', 'soma_group']")] ∧
    NmlVerif.Gen.Builder.params_setup_default_segment_groups =
      [("self", none), ("use_convention", some "True"), ("default_groups", some "['all', 'soma_group']")] ∧
    (NmlVerif.Gen.Builder.params_add_unbranched_segments.map (·.2)).drop 2 =
      [some "None", some "1.0", some "None", some "True", some "None", some "True", some "True"] := by decide

end NmlVerif.Builder
