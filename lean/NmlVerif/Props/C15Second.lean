import NmlVerif.Props.C15
import NmlVerif.Proofs.BuilderLeave
/-!
# C15, second pass — histories with caught exceptions, id forms, proposed repairs, mixed `use_convention`

* `c15_caught_*`: the statement speaks about calls that each returned normally; a call that RAISES may leave something
  behind (`leaveWith`).  Ids stay unique and parents present whatever is caught (`c15_caught_ids_unique_parents_exist`),
  the group clauses do not (`c15_caught_group_witness`) — outside the property, documented.
* `c15_ids_full` / `c15_lexical_id_witness` / `c15_ids_unique_parents_exist` (= the `_partial`, in `Props/C15.lean`):
  OPEN FINDING `C15:explicit-id-in-use-not-refused:lexical-form` — an id passed as `"5"` or `5.5` escapes the
  duplicate check.  `c15_ids_fixed_full`: with the proposed repair the full statement holds, and ids are non-negative.
* `c15_negative_id_witness`: OPEN FINDING `C15:invalid-cell:xsd:negative-segment-id`.
* `c15_foreign_default_refused*`: the proposed repair for the three `default-named-user-group` findings.
* `c15_nonconv_*`: what holds for `use_convention=False` calls mixed into a history.
-/
namespace NmlVerif.Builder

/-! ## histories in which exceptions are caught -/

/-- **Ids unique, parents present — also when the caller catches exceptions and goes on.**  For every list of
    operations run with `runCaught` (each call returns or raises; what a raising call leaves behind is kept), if each
    `parent` passed was a segment of the cell at that moment: ids pairwise different, every parent exists. -/
theorem c15_caught_ids_unique_parents_exist (cfg : Cfg) (ops : List Op)
    (hok : CaughtParentsOK pickId (optimiseAll cfg) (optimiseAllLeave cfg) init ops) :
    let s := runCaught pickId (optimiseAll cfg) (optimiseAllLeave cfg) init ops
    s.ids.Nodup ∧ ∀ seg ∈ s.segs, ∀ p, seg.parent = some p → p ∈ s.ids :=
  let h : Basic _ := basic_runCaught (pickSpecP_true pickSpec_pickId) (optSegs_of_optSpec (optSpec_optimiseAll cfg))
    (optLSegs_optimiseAllLeave cfg) ops init basic_init hok
  ⟨h.idsNodup, h.parents⟩

/-- the same for any `optimise` that keeps the segments, whatever it leaves when it raises -/
theorem c15_caught_ids_any_opt (pick : State → AddSeg → Except Err Int) (hpk : PickSpec pick)
    (opt : State → Except Err State) (optL : State → State) (ho : OptSegs opt) (hl : OptLSegs optL) (ops : List Op)
    (hok : CaughtParentsOK pick opt optL init ops) :
    (runCaught pick opt optL init ops).ids.Nodup :=
  (basic_runCaught (P := fun _ => True) (pickSpecP_true hpk) ho hl ops init basic_init hok).idsNodup

/-- a call that returns leaves exactly what `stepWith` says (for `add_segment`; the other operations are defined
    that way) -/
theorem c15_leave_of_ok (pick : State → AddSeg → Except Err Int) (opt : State → Except Err State) (optL : State → State)
    (s s' : State) (a : AddSeg) (e : stepWith pick opt s (.addSegment a) = .ok s') :
    leaveWith pick opt optL s (.addSegment a) = s' :=
  addSegmentLeave_of_ok (a := { a with lex := false }) e

/-- `add_segment(group_id="g1", seg_type=None)` raises `ValueError` AFTER creating `g1` and giving it the id of the
    segment that is never appended -/
def badTypeOp : Op :=
  .addSegment { prox := .ok, segId := none, name := none, parent := some 0, frac4 := 4, groupId := some "g1", useConv := true,
                segType := none, reorder := true, optimise := true }

def caughtOps : List Op :=
  [seg none "soma" none, badTypeOp, seg none "soma" (some 0), seg (some "g1") "dendrite" (some 0)]

/-- … so when the exception is caught, the next automatic id (1) goes to a soma segment, `g1` (members 1, 2) is
    later included in `dendrite_group`, and `dendrite_group` resolves to a soma segment: the group clauses do NOT
    survive caught exceptions (outside the property: "calls that each returned normally") -/
theorem c15_caught_group_witness :
    (let s := runCaught pickId (optimiseAll shipped) (optimiseAllLeave shipped) init caughtOps
     (isErr .valueError (stepWith pickId (optimiseAll shipped) (runCaught pickId (optimiseAll shipped) (optimiseAllLeave shipped) init [seg none "soma" none]) badTypeOp),
      groupOf s "dendrite_group", s.segs.map (fun x => (x.id, x.stype)))) =
    (true, some [1, 2], [(0, some .soma), (1, some .soma), (2, some .dendrite)]) := by decide

/-- the hypotheses of the caught-history theorem hold on that history -/
example : CaughtParentsOK pickId (optimiseAll shipped) (optimiseAllLeave shipped) init caughtOps := by
  refine ⟨(by intro p hp; cases hp), ?_, ?_, ?_, trivial⟩ <;> (intro p hp; cases hp; decide)

/-! ## ids in another lexical form (`seg_id="5"`, `seg_id=5.5`) -/

/-- the parents hypothesis with lexical id forms allowed -/
def ParentOKLex (s : State) : Op → Prop
  | .addSegmentLex a => ∀ p, a.parent = some p → p ∈ s.ids
  | op => ParentOK s op

def RunParentsOKLex (pick : State → AddSeg → Except Err Int) (opt : State → Except Err State) : State → List Op → Prop
  | _, [] => True
  | s, op :: ops => ParentOKLex s op ∧ ∀ s', stepWith pick opt s op = .ok s' → RunParentsOKLex pick opt s' ops

/-- **Full statement for the id clause** (false on today's code): every history — ids given as `int`, `str` or
    `float` — that returned normally has unique ids. -/
def c15_ids_full : Prop :=
  ∀ (cfg : Cfg) (ops : List Op) (s : State), RunParentsOKLex pickId (optimiseAll cfg) init ops →
    run cfg init ops = .ok s → s.ids.Nodup

/-- a segment with id 5, then `add_segment(..., seg_id="5")` -/
def lexOps : List Op :=
  [seg none "soma" none (some 5),
   .addSegmentLex { prox := .ok, segId := some 5, name := none, parent := some 5, frac4 := 4, groupId := none, useConv := true,
                    segType := some "dendrite", reorder := true, optimise := true }]

/-- OPEN FINDING `C15:explicit-id-in-use-not-refused:lexical-form` / `C15:duplicate-id:lexical-form`: ids `[5, 5]` -/
theorem c15_lexical_id_witness : idsOf (run shipped init lexOps) = some [5, 5] := by decide

theorem c15_ids_full_false : ¬ c15_ids_full := by
  intro h
  have hw := c15_lexical_id_witness
  cases e : run shipped init lexOps with
  | error _ => rw [e] at hw; cases hw
  | ok s =>
    rw [e] at hw
    simp only [idsOf, Option.some.injEq] at hw
    have hdom : RunParentsOKLex pickId (optimiseAll shipped) init lexOps := by
      refine ⟨(by intro p hp; cases hp), ?_⟩
      intro s1 e1
      refine ⟨?_, fun _ _ => trivial⟩
      intro p hp
      cases hp
      have : idsOf (stepWith pickId (optimiseAll shipped) init (seg none "soma" none (some 5))) = some [5] := by decide
      rw [e1] at this
      simp only [idsOf, Option.some.injEq] at this
      rw [this]; simp
    have := h shipped lexOps s hdom e
    rw [hw] at this
    simp at this

/-- `RunParentsOKLex` on the de-lexicalised history -/
theorem runParentsOK_delex (nmFx : Bool) (opt : State → Except Err State) : ∀ (ops : List Op) (s : State),
    RunParentsOKLex (pickCfg true nmFx) opt s ops → RunParentsOK (pickCfg true nmFx) opt s (ops.map delex)
  | [], _, _ => trivial
  | op :: ops, s, h => by
    refine ⟨?_, ?_⟩
    · cases op <;> exact h.1
    · intro s' e
      rw [← step_delex] at e
      exact runParentsOK_delex nmFx opt ops s' (h.2 s' e)

/-- **With the proposed repair (`fixes/C15-segment-id-as-stored.patch`: the id is normalised with `int(seg_id)`
    and refused when negative or in use) the full id statement holds**: for EVERY history, lexical forms included,
    ids are unique, parents exist, and every id is a non-negative integer. -/
theorem c15_ids_fixed_full (nmFx : Bool) (opt : State → Except Err State) (ho : OptSegs opt) (ops : List Op) (s : State)
    (hok : RunParentsOKLex (pickCfg true nmFx) opt init ops) (hrun : runWith (pickCfg true nmFx) opt init ops = .ok s) :
    s.ids.Nodup ∧ (∀ seg ∈ s.segs, ∀ p, seg.parent = some p → p ∈ s.ids) ∧ ∀ seg ∈ s.segs, 0 ≤ seg.id := by
  rw [run_delex] at hrun
  have h := basic_run (pickSpecP_nonneg nmFx) ho (ops.map delex) init s basic_init (runParentsOK_delex nmFx opt ops init hok) hrun
  exact ⟨h.idsNodup, h.parents, h.allP⟩

/-- the repaired check at work on the witness history: refused with `ValueError` -/
example : isErr .valueError (runWith (pickCfg true false) (optimiseAll shipped) init lexOps) = true := by decide

/-! ## negative ids -/

/-- OPEN FINDING `C15:invalid-cell:xsd:negative-segment-id`: `add_segment(seg_id=-1)` returns normally on today's code
    (and `validate`, which has no check for the facet-less `NonNegativeInteger`, accepts the cell) -/
theorem c15_negative_id_witness :
    (match run shipped init [seg none "soma" none (some (-1))] with
     | .ok s => (s.ids, idsNonNeg s)
     | .error _ => ([], true)) = ([-1], false) := by decide

/-- with the repair it is refused -/
example : isErr .valueError (runWith (pickCfg true false) (optimiseAll shipped) init [seg none "soma" none (some (-1))]) = true := by
  decide

/-! ## the proposed refusal of foreign default-group names (`fixes/C15-default-group-name.patch`) -/

/-- with the repair, `add_segment(group_id=<a default group of another type, or "all">, use_convention=True)` does not
    return normally … -/
theorem c15_foreign_default_refused (idFx : Bool) (opt : State → Except Err State) (s : State) (a : AddSeg)
    (hc : a.useConv = true) (hf : foreignDefault a = true) : ∀ s', addSegmentWith (pickCfg idFx true) opt s a ≠ .ok s' := by
  intro s' e
  unfold addSegmentWith at e
  split at e
  · cases e
  split at e
  · cases e
  split at e
  · cases e
  split at e
  · cases e
  rename_i id hpick
  unfold pickCfg at hpick
  split at hpick
  · cases hpick
  split at hpick
  · cases hpick
  split at hpick
  · cases hpick
  · rename_i h3; exact h3 ⟨rfl, hc, hf⟩

/-- … and leaves the cell exactly as it was (the refusal comes before any mutation) -/
theorem c15_foreign_default_nothing_left (idFx : Bool) (opt : State → Except Err State) (optL : State → State) (s : State)
    (a : AddSeg) (hc : a.useConv = true) (hf : foreignDefault a = true) :
    addSegmentLeave (pickCfg idFx true) opt optL s a = s := by
  unfold addSegmentLeave
  split
  · rfl
  split
  · rfl
  split
  · rfl
  split
  · rfl
  · rename_i id hpick
    unfold pickCfg at hpick
    split at hpick
    · cases hpick
    split at hpick
    · cases hpick
    split at hpick
    · cases hpick
    · rename_i h3; exact absurd ⟨rfl, hc, hf⟩ h3

/-- the three witness histories of the `default-named-user-group` findings are refused with `ValueError` -/
example : isErr .valueError (runWith (pickCfg false true) (optimiseAll shipped) init defaultNamedOps) = true := by decide
example : isErr .valueError (runWith (pickCfg false true) (optimiseAll shipped) init [seg (some "all") "soma" none none true false]) = true := by
  decide
/-- the default group of the segment's OWN type stays allowed as `group_id` -/
example : idsOf (runWith (pickCfg false true) (optimiseAll shipped) init [seg (some "soma_group") "soma" none]) = some [0] := by decide

/-! ## `use_convention=False` calls mixed into a history -/

/-- Ids and parents: `c15_ids_unique_parents_exist` has no hypothesis on `use_convention`, so it covers mixed
    histories as it is.  What a `use_convention=False` call does to the groups: nothing but appending the new id to
    its own user group — every other group keeps its members and includes, so no default group changes unless it is
    the user group itself (the segment reaches 'all' only through a user group that a conventional call includes). -/
theorem c15_nonconv_frame (pick : State → AddSeg → Except Err Int) (opt : State → Except Err State) (s s' : State) (a : AddSeg)
    (hc : a.useConv = false) (hopt : a.optimise = false) (e : addSegmentWith pick opt s a = .ok s') :
    ∃ id, pick s a = .ok id ∧ (∃ seg, s'.segs = s.segs ++ [seg] ∧ seg.id = id ∧ seg.stype = none) ∧
      ∀ h, h ≠ a.groupId.getD "" → mems s'.groups h = mems s.groups h ∧ incs s'.groups h = incs s.groups h := by
  unfold addSegmentWith at e
  split at e
  · cases e
  split at e
  · cases e
  split at e
  · cases e
  split at e
  · cases e
  rename_i id hpick
  split at e
  · cases e
  simp only [hc, Bool.false_eq_true, ↓reduceIte, appendSeg, hopt] at e
  cases e
  refine ⟨id, hpick, ⟨mkSeg (userStep s (a.groupId.getD "") id) a (a.groupId.getD "") id none,
    (by show (userStep s _ id).segs ++ _ = _; rw [segs_userStep]), rfl, rfl⟩, ?_⟩
  intro h hne
  simp only
  unfold userStep
  split
  · constructor
    · rw [mems_addMember]
      have : ¬ (h = a.groupId.getD "" ∧ (look (ensureGroup s (a.groupId.getD "") none).groups (a.groupId.getD "")).isSome) :=
        fun hh => hne hh.1
      simp only [this, ↓reduceIte]
      exact mems_ensureGroup s _ none h
    · rw [incs_addMember]
      exact incs_ensureGroup s _ none h
  · exact ⟨rfl, rfl⟩

/-- a mixed history on which the hypotheses hold, and where the segment added without the convention is indeed
    missing from 'all' (by design: the property's quantifier is `use_convention=True`) -/
def mixedOps : List Op :=
  [seg none "soma" none,
   .addSegment { prox := .ok, segId := none, name := none, parent := some 0, frac4 := 4, groupId := some "g0", useConv := false,
                 segType := none, reorder := true, optimise := false }]

theorem c15_nonconv_witness :
    (match run shipped init mixedOps with
     | .ok s => (s.ids, groupOf s "all", groupOf s "g0")
     | .error _ => ([], none, none)) = ([0, 1], some [0], some [1]) := by decide

/-! ## the FULL group statement on the repaired tree (`fixes/C15-default-group-name.patch` applied)

With the refusal in place `UserGroupNamesFresh` is no longer a hypothesis: whatever `group_id` a call that returned
normally was given — the default group of the segment's own type included (`convStep_own`, third case of
`inv_addSegment`) — the invariant is kept.  What remains excluded is the OPEN finding
`group-reused-across-types` (`oneType`). -/

/-- the property's quantifier plus OneTypePerGroup; nothing about group names -/
def OpDomOne (s : State) : Op → Prop
  | .addSegment a => a.useConv = true ∧ (∀ p, a.parent = some p → p ∈ s.ids) ∧
      (∀ g, a.groupId = some g → ∀ seg ∈ s.segs, seg.ugroup = some g → seg.stype = parseType a.segType)
  | .addUnbranched u => u.useConv = true ∧ (∀ p, u.parent = some p → p ∈ s.ids) ∧
      (∀ g, u.groupId = some g → ∀ seg ∈ s.segs, seg.ugroup = some g → seg.stype = parseType u.segType)
  | .addSegmentLex _ => False
  | _ => True

def RunDomOne (pick : State → AddSeg → Except Err Int) (opt : State → Except Err State) : State → List Op → Prop
  | _, [] => True
  | s, op :: ops => OpDomOne s op ∧ ∀ s', stepWith pick opt s op = .ok s' → RunDomOne pick opt s' ops

theorem pick_ok_of_addSegment {pick : State → AddSeg → Except Err Int} {opt : State → Except Err State} {s s' : State} {a : AddSeg}
    (e : addSegmentWith pick opt s a = .ok s') : ∃ id, pick s a = .ok id := by
  unfold addSegmentWith at e
  split at e
  · cases e
  split at e
  · cases e
  split at e
  · cases e
  split at e
  · cases e
  · rename_i id hp; exact ⟨id, hp⟩

/-- a call that returned normally on the repaired tree was not given a foreign default-group name -/
theorem opOK_of_step (idFx : Bool) (opt : State → Except Err State) (s s' : State) (op : Op) (hd : OpDomOne s op)
    (e : stepWith (pickCfg idFx true) opt s op = .ok s') : OpOK s op := by
  cases op with
  | addSegment a =>
    obtain ⟨id, hp⟩ := pick_ok_of_addSegment (a := { a with lex := false }) e
    have hf := (pickCfg_ok (Or.inr rfl) hp).2.2.2 rfl hd.1
    exact ⟨hd.1, hd.2.1, fun g _ => Or.inr hf, hd.2.2⟩
  | addUnbranched u =>
    have hf : foreignDefault (unbSeg u none 4) = false := by
      simp only [stepWith] at e
      unfold addUnbranchedWith at e
      split at e
      · cases e
      simp only at e
      split at e
      · cases e
      rename_i s2 e2
      obtain ⟨id, hp⟩ := pick_ok_of_addSegment e2
      exact (pickCfg_ok (Or.inr rfl) hp).2.2.2 rfl hd.1
    exact ⟨hd.1, hd.2.1, fun g _ => Or.inr hf, hd.2.2⟩
  | addSegmentLex a => exact absurd hd id
  | _ => trivial

theorem inv_run_dom (idFx : Bool) {opt : State → Except Err State} (ho : OptSpec opt) : ∀ (ops : List Op) (s s' : State),
    Inv s → RunDomOne (pickCfg idFx true) opt s ops → runWith (pickCfg idFx true) opt s ops = .ok s' → Inv s'
  | [], s, s', h, _, e => by unfold runWith at e; cases e; exact h
  | op :: ops, s, s', h, hd, e => by
    unfold runWith at e
    split at e
    · rename_i s1 e1
      exact inv_run_dom idFx ho ops s1 s'
        (inv_step (pickSpec_pickCfg idFx true) ho h (opOK_of_step idFx opt s s1 op hd.1 e1) e1) (hd.2 s1 e1) e
    · cases e

/-- **The group statement at full strength for the default-name repair** (formerly `_partial` under
    `UserGroupNamesFresh`): for EVERY history in the property's quantifier that uses each user group with one segment
    type — group ids of any spelling, the default group of the segment's own type included — whose calls all returned
    normally on the tree with `fixes/C15-default-group-name.patch`, the cell after the final step is `Good`. -/
theorem c15_names_fixed_full (idFx : Bool) (opt : State → Except Err State) (ho : OptSpec opt) (ops : List Op) (s s' : State)
    (hdom : RunDomOne (pickCfg idFx true) opt init ops) (hrun : runWith (pickCfg idFx true) opt init ops = .ok s)
    (hfin : finishWith opt s = .ok s') : Good s' :=
  good_finish ho (inv_run_dom idFx ho ops init s inv_init hdom hrun) hfin

/-- … on the tree with BOTH repairs (what `/repo` becomes), lexical id forms included, with non-negative ids -/
theorem c15_repaired_full (cfg : Cfg) (ops : List Op) (s s' : State)
    (hdom : RunDomOne (pickCfg true true) (optimiseAll cfg) init (ops.map delex))
    (hrun : runWith (pickCfg true true) (optimiseAll cfg) init ops = .ok s) (hfin : finish cfg s = .ok s') :
    Good s' ∧ ∀ seg ∈ s'.segs, 0 ≤ seg.id := by
  rw [run_delex] at hrun
  refine ⟨c15_names_fixed_full true _ (optSpec_optimiseAll cfg) _ s s' hdom hrun hfin, ?_⟩
  have hpar : ∀ (l : List Op) (st : State), RunDomOne (pickCfg true true) (optimiseAll cfg) st l →
      RunParentsOK (pickCfg true true) (optimiseAll cfg) st l := by
    intro l
    induction l with
    | nil => intro _ _; trivial
    | cons op l ih =>
      intro st hs
      refine ⟨?_, fun s1 e1 => ih s1 (hs.2 s1 e1)⟩
      cases op with
      | addSegment a => exact hs.1.2.1
      | addUnbranched u => exact hs.1.2.1
      | addSegmentLex a => exact hs.1
      | _ => trivial
  have hb := basic_run (pickSpecP_nonneg true) (optSegs_of_optSpec (optSpec_optimiseAll cfg)) _ init s basic_init
    (hpar _ init hdom) hrun
  have hsegs : s'.segs = s.segs := by
    unfold finish finishWith at hfin
    rw [(optSpec_optimiseAll cfg).segs _ _ hfin]; rfl
  rw [hsegs]; exact hb.allP

/-- the hypotheses are satisfiable on a history that uses the default group of the segment's own type as `group_id`
    (twice), another user group, and a lexical id form -/
def ownDefaultOps : List Op :=
  [seg (some "soma_group") "soma" none, seg (some "soma_group") "soma" (some 0) none false false,
   seg (some "dend_0") "dendrite" (some 1),
   .addSegmentLex { prox := .ok, segId := some 7, name := none, parent := some 0, frac4 := 2, groupId := some "axon_group",
                    useConv := true, segType := some "axon", reorder := false, optimise := true }]

def opDomOneB (s : State) : Op → Bool
  | .addSegment a => a.useConv && (match a.parent with | some p => decide (p ∈ s.ids) | none => true) &&
      (match a.groupId with
       | some g => s.segs.all (fun seg => decide (seg.ugroup = some g → seg.stype = parseType a.segType))
       | none => true)
  | .addUnbranched u => u.useConv && (match u.parent with | some p => decide (p ∈ s.ids) | none => true) &&
      (match u.groupId with
       | some g => s.segs.all (fun seg => decide (seg.ugroup = some g → seg.stype = parseType u.segType))
       | none => true)
  | .addSegmentLex _ => false
  | _ => true

theorem opDomOneB_sound {s : State} {op : Op} (h : opDomOneB s op = true) : OpDomOne s op := by
  cases op with
  | addSegment a =>
    simp only [opDomOneB, Bool.and_eq_true] at h
    refine ⟨h.1.1, ?_, ?_⟩
    · intro p hp; have := h.1.2; rw [hp] at this; simpa using this
    · intro g hg seg hseg; have := h.2; rw [hg] at this
      simp only [List.all_eq_true, decide_eq_true_eq] at this; exact this seg hseg
  | addUnbranched u =>
    simp only [opDomOneB, Bool.and_eq_true] at h
    refine ⟨h.1.1, ?_, ?_⟩
    · intro p hp; have := h.1.2; rw [hp] at this; simpa using this
    · intro g hg seg hseg; have := h.2; rw [hg] at this
      simp only [List.all_eq_true, decide_eq_true_eq] at this; exact this seg hseg
  | addSegmentLex a => cases h
  | _ => trivial

def runDomOneB (pick : State → AddSeg → Except Err Int) (opt : State → Except Err State) : State → List Op → Bool
  | _, [] => true
  | s, op :: ops => opDomOneB s op && (match stepWith pick opt s op with | .ok s' => runDomOneB pick opt s' ops | .error _ => true)

theorem runDomOneB_sound (pick : State → AddSeg → Except Err Int) (opt : State → Except Err State) :
    ∀ (ops : List Op) (s : State), runDomOneB pick opt s ops = true → RunDomOne pick opt s ops
  | [], _, _ => trivial
  | op :: ops, s, h => by
    unfold runDomOneB at h
    simp only [Bool.and_eq_true] at h
    refine ⟨opDomOneB_sound h.1, ?_⟩
    intro s' e
    have h2 := h.2
    rw [e] at h2
    exact runDomOneB_sound pick opt ops s' h2

example : RunDomOne (pickCfg true true) (optimiseAll repaired) init (ownDefaultOps.map delex) :=
  runDomOneB_sound _ _ _ _ (by decide)
example : (match runWith (pickCfg true true) (optimiseAll repaired) init ownDefaultOps with
    | .ok s => (match finish repaired s with
      | .ok s' => (s'.ids, groupOf s' "soma_group", groupOf s' "axon_group", groupOf s' "all")
      | .error _ => ([], none, none, none))
    | .error _ => ([], none, none, none)) = ([0, 1, 2, 7], some [0, 1], some [7], some [0, 1, 2, 7]) := by decide

end NmlVerif.Builder
