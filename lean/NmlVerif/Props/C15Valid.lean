import NmlVerif.Proofs.BuilderValid
import NmlVerif.Props.C15
/-!
# C15 — validity clause, composed with C02

"A cell given its basic biophysical properties passes `validate(recursive=True)` and is written as schema-valid XML."
The cell state of the builder model is mapped to a binding-level object tree (`cellObj`, `Model/BuilderObj.lean`);
`Proofs/BuilderValid.lean` shows that at every descendant, for every class of its MRO, every item the SCHEMA
prescribes holds (required members present, occurrence ranges, simple types) — the hypotheses of C02's
`c02_validate_accepts` over today's regenerated tables (`Gen/Bindings.lean`, `Gen/Xsd.lean`, tied by C03's per-run
`tables_agree`; the item lists of the 16 classes involved are re-derived by the kernel on every run, `items_*`).
Left as decidable side conditions: the facet checks of the concrete strings (`facetsOK st …`, for ANY simple-type
checker `st`) and the generated code's stand-in for "unbounded" (`max_occurs=9999999`, `small`).
The driver runs `validateAll` on `cellObj` of every finished history and the harness compares the verdict with the
real `validate(recursive=True)` and with libxml2.
-/
namespace NmlVerif.Builder
open NmlVerif.Binding NmlVerif.Schema NmlVerif.Gen.Names

/-- **Validity clause, composed with C02.**  For every cell state of the builder model that was given its basic
    biophysical properties (≥ 1 segment, spike threshold, initial membrane potential, specific capacitance), whose
    strings pass the simple-type checks (`facetsOK`, for whatever checker `st`) and whose lists stay below the
    generated code's `9999999`: the binding-level tree of the cell is accepted by `validate(recursive=True)` as
    modelled for C02/C03 over today's regenerated binding table — through `c02_validate_accepts`, i.e. because at
    every descendant every item the SCHEMA prescribes holds. -/
theorem c15_validate_accepts (st : Nat → String → Bool) (cid : String) (geom : Geom) (s : State)
    (hb : hasBasics s = true) (hf : facetsOK st cid geom s = true) (hs : small s = true) :
    validateAll T st 4 (cellObj cid geom s) = true := by
  have h := cell_subOK st cid geom s hb hf hs
  exact c02_validate_accepts T X tables_agree st 4 (cellObj cid geom s) h.depth
    (fun d _ k hk => chain_mem T _ _ k hk)
    (fun d hd => hok_of_node (h.all d hd))

/-- the final `reorder_segment_groups()` + `optimise_segment_groups()` neither adds nor removes what "given its basic
    biophysical properties" asks for -/
theorem hasBasics_finish (opt : State → Except Err State) (ho : OptSpec opt) (s s' : State) (e : finishWith opt s = .ok s') :
    hasBasics s' = hasBasics s := by
  unfold finishWith at e
  have h1 := ho.segs _ _ e
  have h2 := ho.memb _ _ e
  unfold hasBasics
  rw [h1, h2]
  rfl

/-- **End to end**: after any history whose calls all returned normally and the documented final step, a cell that
    was given its basic biophysical properties (a condition on the cell: ≥ 1 segment, the three membrane properties —
    before or after the final step, `hasBasics_finish`) is accepted by the binding-level `validate(recursive=True)`,
    provided its strings pass their simple types and its lists stay below `9999999`. -/
theorem c15_valid_after_history (cfg : Cfg) (st : Nat → String → Bool) (cid : String) (geom : Geom) (ops : List Op) (s s' : State)
    (_hrun : run cfg init ops = .ok s) (hfin : finish cfg s = .ok s')
    (hb : hasBasics s = true) (hf : facetsOK st cid geom s' = true) (hs : small s' = true) :
    validateAll T st 4 (cellObj cid geom s') = true :=
  c15_validate_accepts st cid geom s' (by rw [hasBasics_finish _ (optSpec_optimiseAll cfg) s s' hfin]; exact hb) hf hs

/-- the hypotheses are satisfiable: a cell of three segments with a user group, its three membrane properties, a
    resistivity and a channel density passes, with the concrete checker `stC` -/
def validOps : List Op :=
  [seg (some "soma_0") "soma" none, seg (some "dend_0") "dendrite" (some 0), seg none "axon" (some 0),
   .addMembrane ⟨.spikeThresh, "40mV", "all"⟩, .addMembrane ⟨.initMembPotential, "-70 mV", "all"⟩,
   .addMembrane ⟨.specificCapacitance, "1 uF_per_cm2", "all"⟩, .addIntra ⟨.resistivity, "0.1 kohm_cm", "all"⟩,
   .addChannelDensity ⟨"pas", "pas", "0.1 mS_per_cm2", "-70 mV", "all", "non_specific"⟩ "pas.channel.nml"]

def geomOne : Geom := fun _ _ => ("0.0", "0.0", "0.0", "1.0")

example : (match run shipped init validOps with
    | .ok s => (match finish shipped s with
      | .ok s' => hasBasics s && facetsOK stC "c15" geomOne s' && small s'
      | .error _ => false)
    | .error _ => false) = true := by decide

/-- the units the model's quantity checker uses are the schema's: the pattern of each dimension in today's XSD is
    the one built from the model's unit list -/
theorem c15_units_agree :
    (NmlVerif.Gen.Xsd.schemaFacets.filter (fun f => f.name == nm_Nml2Quantity_voltage || f.name == nm_Nml2Quantity_specificCapacitance
        || f.name == nm_Nml2Quantity_resistivity || f.name == nm_Nml2Quantity_conductanceDensity)).map (fun f => (f.name, f.patterns))
    = [(nm_Nml2Quantity_voltage, [quantityPattern voltageUnits]),
       (nm_Nml2Quantity_resistivity, [quantityPattern PKind.resistivity.units]),
       (nm_Nml2Quantity_conductanceDensity, [quantityPattern condDensityUnits]),
       (nm_Nml2Quantity_specificCapacitance, [quantityPattern PKind.specificCapacitance.units])] := by decide +kernel

end NmlVerif.Builder
