import NmlVerif.Model.Section
namespace NmlVerif.Section
theorem placeholder : True := trivial
end NmlVerif.Section
