import NmlVerif.Proofs.Section
/-!
# C16 — unbranched sectioning partitions the tree into maximal chains, altering nothing

Model: `NmlVerif.Section` (`Model/Section.lean`) of `Cell.create_unbranched_segment_group_branches`, tied to
`neuroml/nml/helper_methods.py` / `neuroml/nml/nml.py` by the correspondence check `harness/props/c16.py`
(generated cells, real method vs `Drivers/C16.lean`).

All theorems are stated for the call
`run oi cell cache root reorder optimise lim fuel` under the hypotheses `Wf cell cache root lim fuel k t`
(`Proofs/Section.lean`; decidable form `hypB`, evaluated by the driver on every generated case), for EVERY cell,
tree shape, id assignment, attachment fraction, pre-existing groups and flag setting.  `oi` is the part of
`optimise_segment_group` that C16 does not model (groups with includes; property C14): any id-preserving
function.  `NG` below is `newGroups cell.groups.length t`, the explicit list of new groups.
-/
namespace NmlVerif.Section

variable {oi : List Group → Group → Group} {cell : St} {cache : Option Adj} {root lim fuel k : Nat} {t : Tree}

/-- **The call succeeds and this is its result.**  The segment list is only refined (implied proximals made
    explicit — `Refines`), every pre-existing group is still there (`OldRel`: same id; literally the same group
    unless optimisation is on and the group has includes or repeated members), and the group list is the old
    groups followed by exactly the new groups `NG` — up to the reordering of the default groups when
    `reorder` is on. -/
theorem c16_result (hoi : IdPreserving oi) (W : Wf cell cache root lim fuel k t) (reorder optimise : Bool) :
    ∃ cell' olds', run oi cell cache root reorder optimise lim fuel = .ok cell' ∧
      Refines cell.segs cell'.segs ∧
      Rel2 (OldRel optimise) cell.groups olds' ∧
      cell'.groups.Perm (olds' ++ newGroups cell.groups.length t) ∧
      (reorder = false → cell'.groups = olds' ++ newGroups cell.groups.length t) ∧
      HasProx cell'.segs root ∧ (∀ ch ∈ rest t, HasProx cell'.segs ch.1) := by
  obtain ⟨segs', gs', olds', h1, h2, h3, h4, h5, h6, h7⟩ := run_spec hoi cell cache root reorder optimise lim fuel k t
    W.cache_fresh W.ids_nodup W.repr W.root_eq W.tree W.fuel_ok W.frames W.proximal W.no_clash W.ids_nonempty
  exact ⟨⟨segs', gs'⟩, olds', h1, h2, h5, h6, h7, h3, h4⟩

/-- the new groups are exactly the groups of the result that carry the section NeuroLex id and whose id did not
    exist before (this is how the harness, and a user, finds them) -/
theorem c16_new_groups_identified (hoi : IdPreserving oi) (W : Wf cell cache root lim fuel k t)
    (reorder optimise : Bool) :
    ∃ cell', run oi cell cache root reorder optimise lim fuel = .ok cell' ∧
      (newSectionGroups cell cell').Perm (newGroups cell.groups.length t) := by
  obtain ⟨cell', olds', h1, _, h3, h4, _⟩ := c16_result hoi W reorder optimise
  refine ⟨cell', h1, newSectionGroups_perm h3 h4 ?_⟩
  intro n hn
  exact ⟨(newGroups_members hn).1, fun g hg => W.no_clash g hg n hn⟩

/-- every new group is marked as a section, includes nothing, and is not empty -/
theorem c16_new_groups_marked (W : Wf cell cache root lim fuel k t) :
    ∀ n ∈ newGroups cell.groups.length t, n.nlx = some sectionNlx ∧ n.includes = [] ∧ n.members ≠ [] := by
  intro n hn
  obtain ⟨h1, h2, _⟩ := newGroups_members hn
  exact ⟨h1, h2, (newGroups_good W.repr hn).1.ne_nil⟩

/-- **Partition.**  Concatenating the member lists of the new groups gives a list without repetition whose
    elements are exactly the ids reachable from the root: every reachable segment is in exactly one new group,
    once, and nothing else is. -/
theorem c16_partition (W : Wf cell cache root lim fuel k t) :
    ((newGroups cell.groups.length t).map (·.members)).flatten.Nodup ∧
    ∀ x, x ∈ ((newGroups cell.groups.length t).map (·.members)).flatten ↔ Reach (adjacency cell.segs) root x := by
  rw [newGroups_flat]
  refine ⟨W.tree, fun x => ?_⟩
  rw [← W.root_eq]
  exact (reach_iff_mem_preorder W.repr x).symm

/-- the same, counted: a reachable segment is a member of exactly one new group -/
theorem c16_exactly_one (W : Wf cell cache root lim fuel k t) (x : Nat) (hx : Reach (adjacency cell.segs) root x) :
    (((newGroups cell.groups.length t).map (·.members)).filter (fun l => decide (x ∈ l))).length = 1 :=
  count_containing (c16_partition W).1 (((c16_partition W).2 x).2 hx)

/-- **Chain.**  Consecutive members of a new group are parent and child. -/
theorem c16_chain (W : Wf cell cache root lim fuel k t) :
    ∀ n ∈ newGroups cell.groups.length t, IsChain (ParentOf cell.segs) n.members :=
  fun _ hn => (newGroups_good W.repr hn).1.isChain W.ids_nodup

/-- **No branch point inside.**  Every member but the last has exactly one child (the next member). -/
theorem c16_no_inner_branch (W : Wf cell cache root lim fuel k t) :
    ∀ n ∈ newGroups cell.groups.length t, ∀ a ∈ n.members.dropLast, ∃ c, childrenOf cell.segs a = [c] :=
  fun _ hn => (newGroups_good W.repr hn).1.inner

/-- **Maximal at the bottom.**  The last member is a leaf or a branch point (never a segment with one child). -/
theorem c16_maximal_bottom (W : Wf cell cache root lim fuel k t) :
    ∀ n ∈ newGroups cell.groups.length t, ∀ z, n.members.getLast? = some z →
      childrenOf cell.segs z = [] ∨ 2 ≤ (childrenOf cell.segs z).length :=
  fun _ hn => (newGroups_good W.repr hn).1.last

/-- **Maximal at the top.**  The first member is the given root, or a child of a reachable branch point. -/
theorem c16_maximal_top (W : Wf cell cache root lim fuel k t) :
    ∀ n ∈ newGroups cell.groups.length t, ∀ h, n.members.head? = some h →
      h = root ∨ ∃ p, Reach (adjacency cell.segs) root p ∧ h ∈ childrenOf cell.segs p ∧
        2 ≤ (childrenOf cell.segs p).length := by
  intro n hn h hh
  rcases (newGroups_good W.repr hn).2 with ⟨l, e⟩ | ⟨h', l, p, cs, e, hp, hl, h2, hc⟩
  · left
    rw [e] at hh
    simp only [List.head?_cons, Option.some.injEq] at hh
    rw [← hh, W.root_eq]
  · right
    rw [e] at hh
    simp only [List.head?_cons, Option.some.injEq] at hh
    subst hh
    have := lookup_adjacency_some hl
    refine ⟨p, ?_, by rw [this]; exact hc, by rw [this]; exact h2⟩
    rw [← W.root_eq]
    exact (reach_iff_mem_preorder W.repr p).2 hp

/-- **First segment has an explicit proximal, equal to the implied one.**  After the call the first member of
    every new group carries an explicit proximal point, and that point is the proximal the morphology implied
    before the call. -/
theorem c16_first_proximal (hoi : IdPreserving oi) (W : Wf cell cache root lim fuel k t) (reorder optimise : Bool) :
    ∃ cell', run oi cell cache root reorder optimise lim fuel = .ok cell' ∧
      ∀ n ∈ newGroups cell.groups.length t, ∀ h, n.members.head? = some h →
        ∃ s q, getSegment cell'.segs h = some s ∧ s.prox = some q ∧ Implied cell.segs h q := by
  obtain ⟨cell', _, h1, h2, _, _, _, h6, h7⟩ := c16_result hoi W reorder optimise
  refine ⟨cell', h1, ?_⟩
  intro n hn h hh
  have hp : HasProx cell'.segs h := by
    obtain ⟨_, _, hm⟩ := newGroups_members hn
    rcases hm with hm | ⟨ch, hc, hm⟩
    · obtain ⟨l, e⟩ := first_cons t
      rw [hm, e] at hh
      simp only [List.head?_cons, Option.some.injEq] at hh
      rw [← hh, W.root_eq]
      exact h6
    · obtain ⟨_, ⟨l, e⟩, _⟩ := rest_ok t W.repr ch hc
      rw [hm, e] at hh
      simp only [List.head?_cons, Option.some.injEq] at hh
      rw [← hh]
      exact h7 ch hc
  obtain ⟨s, q, hs, hq⟩ := hp
  exact ⟨s, q, hs, hq, (h2.implied_iff h q).2 (.explicit hs hq)⟩

/-- **Geometry and parents unchanged.**  The segments after the call are the segments before it, one by one
    (`Refines`: same id, same parent and fraction, same distal point; the proximal is untouched, or was absent
    and is now the implied one), and the actual proximal point of EVERY segment (hence its length, area and
    volume, which are functions of the actual proximal and the distal point) is the same before and after. -/
theorem c16_geometry_unchanged (hoi : IdPreserving oi) (W : Wf cell cache root lim fuel k t)
    (reorder optimise : Bool) :
    ∃ cell', run oi cell cache root reorder optimise lim fuel = .ok cell' ∧
      Refines cell.segs cell'.segs ∧ cell'.segs.length = cell.segs.length ∧
      ∀ x q, Implied cell.segs x q ↔ Implied cell'.segs x q := by
  obtain ⟨cell', _, h1, h2, _⟩ := c16_result hoi W reorder optimise
  exact ⟨cell', h1, h2, rel2_length h2, fun x q => h2.implied_iff x q⟩

/-- **Pre-existing groups unchanged** (both post-passes off): the group list is the old list followed by the
    new groups; nothing else. -/
theorem c16_old_groups_unchanged (hoi : IdPreserving oi) (W : Wf cell cache root lim fuel k t) :
    ∃ cell', run oi cell cache root false false lim fuel = .ok cell' ∧
      cell'.groups = cell.groups ++ newGroups cell.groups.length t := by
  obtain ⟨cell', olds', h1, _, h3, _, h5, _⟩ := c16_result hoi W false false
  rw [rel2_oldrel_false h3] at h5
  exact ⟨cell', h1, h5 rfl⟩

/-- with `reorder` on (optimisation off) the groups are the same groups, permuted -/
theorem c16_old_groups_reordered (hoi : IdPreserving oi) (W : Wf cell cache root lim fuel k t) (reorder : Bool) :
    ∃ cell', run oi cell cache root reorder false lim fuel = .ok cell' ∧
      cell'.groups.Perm (cell.groups ++ newGroups cell.groups.length t) := by
  obtain ⟨cell', olds', h1, _, h3, h4, _⟩ := c16_result hoi W reorder false
  rw [rel2_oldrel_false h3] at h4
  exact ⟨cell', h1, h4⟩

/-- with optimisation on, a pre-existing group without includes and without repeated members is still
    literally unchanged; every other pre-existing group keeps its id (what else happens to it is
    `optimise_segment_group`, property C14) -/
theorem c16_old_groups_optimised (hoi : IdPreserving oi) (W : Wf cell cache root lim fuel k t) (reorder : Bool) :
    ∃ cell' olds', run oi cell cache root reorder true lim fuel = .ok cell' ∧
      cell'.groups.Perm (olds' ++ newGroups cell.groups.length t) ∧
      Rel2 (fun g g' => g'.id = g.id ∧ (Clean g → g' = g)) cell.groups olds' := by
  obtain ⟨cell', olds', h1, _, h3, h4, _⟩ := c16_result hoi W reorder true
  exact ⟨cell', olds', h1, h4, rel2_mono (fun g g' h => ⟨h.1, fun hc => h.2 (Or.inr hc)⟩) h3⟩

/-! ## Known findings: the three hypotheses that cannot be dropped

Full-strength statement: for every well-formed *input* (no assumption on frames, names of pre-existing groups,
or the adjacency cache the cell acquired earlier in its life) the call succeeds and every reachable segment is
in exactly one new section group. -/

/-- every reachable segment is a member of exactly one new section group of the result -/
def Partitioned (cell cell' : St) (root : Nat) : Prop :=
  ∀ x, Reach (adjacency cell.segs) root x →
    ((newSectionGroups cell cell').filter (fun g => decide (x ∈ g.members))).length = 1

/-- `optimise_segment_group` on groups with includes, as the driver instantiates it (left alone) -/
def idOi : List Group → Group → Group := fun _ g => g

theorem idOi_preserving : IdPreserving idOi := fun _ _ => rfl

/-- well-formed input: distinct segment ids, a tree below the root, proximal points defined, group ids not empty -/
structure WfInput (cell : St) (root fuel : Nat) (t : Tree) : Prop where
  ids_nodup : (cell.segs.map (·.id)).Nodup
  repr : Repr (adjacency cell.segs) t
  root_eq : t.id = root
  tree : (preorder t).Nodup
  fuel_ok : need t ≤ fuel
  proximal : ∃ k, ∀ x ∈ preorder t, ∃ p, actualProximal cell.segs k x = .ok p
  ids_nonempty : ∀ g ∈ cell.groups, g.id ≠ ""

/-- FULL-STRENGTH statement (false on the current code, see the three witnesses): any frame budget that suffices
    for an unbranched cell, any cache the cell may have acquired while it was being built (none, or the
    adjacency list of its first `m` segments), any pre-existing groups. -/
def c16_full : Prop :=
  ∀ (cell : St) (cache : Option Adj) (root : Nat) (reorder optimise : Bool) (lim fuel : Nat) (t : Tree),
    WfInput cell root fuel t → 2 ≤ lim →
    (cache = none ∨ ∃ m, cache = some (adjacency (cell.segs.take m))) →
    ∃ cell', run idOi cell cache root reorder optimise lim fuel = .ok cell' ∧ Partitioned cell cell' root

/-- the strongest true restriction: the conclusion of `c16_full` under `Wf` (fresh cache, no generated name
    taken, nesting of branch points and proximal chains within the frame budget) -/
theorem c16_partial (W : Wf cell cache root lim fuel k t) (reorder optimise : Bool) :
    ∃ cell', run idOi cell cache root reorder optimise lim fuel = .ok cell' ∧ Partitioned cell cell' root := by
  obtain ⟨cell', h1, h2⟩ := c16_new_groups_identified idOi_preserving W reorder optimise
  refine ⟨cell', h1, fun x hx => ?_⟩
  have hp := (h2.filter (fun g => decide (x ∈ g.members))).length_eq
  rw [hp]
  have := c16_exactly_one W x hx
  rw [List.filter_map, List.length_map] at this
  exact this

/-! ### witnesses -/

def pt (x y z d : Int) : Pt := ⟨x, y, z, d⟩

/-- root 0 with children 1, 2; 2 has children 3, 4: two nested branch points -/
def wSegs : List Seg :=
  [⟨0, none, some (pt 0 0 0 1), pt 1 0 0 1⟩, ⟨1, some (0, 1), none, pt 2 1 0 1⟩, ⟨2, some (0, 1), none, pt 2 0 0 1⟩,
   ⟨3, some (2, 1 / 2), none, pt 3 1 0 1⟩, ⟨4, some (2, 1), none, pt 3 0 0 1⟩]

def wTree : Tree := .node 0 [.node 1 [], .node 2 [.node 3 [], .node 4 []]]

theorem wInput (groups : List Group) (hne : ∀ g ∈ groups, g.id ≠ "") : WfInput ⟨wSegs, groups⟩ 0 20 wTree where
  ids_nodup := by show (wSegs.map (·.id)).Nodup; decide
  repr := (buildTree_sound (adjacency wSegs) 6 0 wTree (by rfl)).1
  root_eq := rfl
  tree := by decide
  fuel_ok := by decide
  proximal := ⟨3, all_isOk (segs := wSegs) (by decide +kernel)⟩
  ids_nonempty := hne

/-- KNOWN FINDING `C16:recursion-limit:nested-branch-points`: with 2 frames the call on two nested branch points
    raises `RecursionError` (in the real interpreter: ~990 nested branch points at the default limit) -/
theorem c16_witness_recursion : ¬ c16_full := by
  intro h
  obtain ⟨cell', h1, _⟩ := h ⟨wSegs, []⟩ none 0 false false 2 20 wTree (wInput [] (by simp)) (by decide) (Or.inl rfl)
  have : run idOi ⟨wSegs, []⟩ none 0 false false 2 20 = .error .recursion := by decide +kernel
  rw [this] at h1
  cases h1

/-- 0 ← 1 ← 2 ← {3, 4}, everything below 0 attached at fraction 1/2 without explicit proximal -/
def wSegsP : List Seg :=
  [⟨0, none, some (pt 0 0 0 1), pt 8 0 0 1⟩, ⟨1, some (0, 1 / 2), none, pt 8 8 0 1⟩, ⟨2, some (1, 1 / 2), none, pt 0 8 0 1⟩,
   ⟨3, some (2, 1 / 2), none, pt 3 1 0 1⟩, ⟨4, some (2, 1 / 2), none, pt 3 0 0 1⟩]

def wTreeP : Tree := .node 0 [.node 1 [.node 2 [.node 3 [], .node 4 []]]]

/-- KNOWN FINDING `C16:recursion-limit:implied-proximal-chain`: one branch point only, but making the proximal of
    its children explicit needs one `get_actual_proximal` frame per ancestor; with 3 frames: `RecursionError` -/
theorem c16_witness_proximal_chain : ¬ c16_full := by
  intro h
  have hw : WfInput ⟨wSegsP, []⟩ 0 20 wTreeP :=
    { ids_nodup := by show (wSegsP.map (·.id)).Nodup; decide
      repr := (buildTree_sound (adjacency wSegsP) 6 0 wTreeP (by rfl)).1
      root_eq := rfl
      tree := by decide
      fuel_ok := by decide
      proximal := ⟨4, all_isOk (segs := wSegsP) (by decide +kernel)⟩
      ids_nonempty := by simp }
  obtain ⟨cell', h1, _⟩ := h ⟨wSegsP, []⟩ none 0 false false 3 20 wTreeP hw (by decide) (Or.inl rfl)
  have : run idOi ⟨wSegsP, []⟩ none 0 false false 3 20 = .error .recursion := by decide +kernel
  rw [this] at h1
  cases h1

/-- on outcome `r`, reachable segment `x` is NOT in exactly one new section group -/
def violatesAt (cell : St) (x : Nat) (r : Except Err St) : Bool :=
  match r with
  | .ok c => ((newSectionGroups cell c).filter (fun g => decide (x ∈ g.members))).length != 1
  | .error _ => true

theorem not_full_of_violation {cell : St} {cache : Option Adj} {root lim fuel x : Nat} {reorder optimise : Bool}
    {t : Tree} (hw : WfInput cell root fuel t) (hl : 2 ≤ lim)
    (hc : cache = none ∨ ∃ m, cache = some (adjacency (cell.segs.take m)))
    (hx : Reach (adjacency cell.segs) root x)
    (hv : violatesAt cell x (run idOi cell cache root reorder optimise lim fuel) = true) : ¬ c16_full := by
  intro h
  obtain ⟨cell', h1, h2⟩ := h cell cache root reorder optimise lim fuel t hw hl hc
  rw [h1] at hv
  have := h2 x hx
  simp [violatesAt, this] at hv

/-- KNOWN FINDING `C16:generated-name-collision`: a pre-existing group called `seg_group_1_seg_1` is reused for
    the chain starting at segment 1, which therefore is in no new group (and the old group grows) -/
theorem c16_witness_name_collision : ¬ c16_full :=
  not_full_of_violation (cell := ⟨wSegs, [⟨"seg_group_1_seg_1", none, [4], []⟩]⟩) (cache := none) (root := 0)
    (lim := 50) (fuel := 20) (x := 1) (reorder := false) (optimise := false)
    (wInput _ (by decide)) (by decide) (Or.inl rfl)
    (.step (cs := [1, 2]) .refl (by decide +kernel) (by decide)) (by decide +kernel)

/-- KNOWN FINDING `C16:stale-adjacency-cache`: the cell computed its adjacency list when it had two segments;
    the segments added later (here segment 2) are in no new group -/
theorem c16_witness_stale_cache : ¬ c16_full :=
  not_full_of_violation (cell := ⟨wSegs, []⟩) (cache := some (adjacency (wSegs.take 2))) (root := 0)
    (lim := 50) (fuel := 20) (x := 2) (reorder := false) (optimise := false)
    (wInput [] (by simp)) (by decide) (Or.inr ⟨2, rfl⟩)
    (.step (cs := [1, 2]) .refl (by decide +kernel) (by decide)) (by decide +kernel)

/-! ### the hypotheses are satisfiable (non-vacuity), on a cell with pre-existing groups, nested branch points,
    fractional attachment, default and section-marked old groups -/

def exCell : St :=
  ⟨wSegs, [⟨"soma_group", none, [0, 0], []⟩, ⟨"all", none, [0, 1], ["soma_group"]⟩, ⟨"old_sec", some sectionNlx, [3], []⟩]⟩

example : ∃ t k, Wf exCell none 0 10 20 k t := hypB_sound (by decide +kernel)

example : IdPreserving idOi := idOi_preserving

/-- and on that cell the model computes what the theorems say (default flags) -/
example : (run idOi exCell none 0 true true 10 20).toOption.map (fun c => c.groups.map (fun g => (g.id, g.members))) =
    some [("old_sec", [3]), ("seg_group_3_seg_0", [0]), ("seg_group_3_seg_1", [1]), ("seg_group_4_seg_2", [2]),
      ("seg_group_5_seg_3", [3]), ("seg_group_6_seg_4", [4]), ("soma_group", [0]), ("all", [0, 1])] := by
  decide +kernel

end NmlVerif.Section
