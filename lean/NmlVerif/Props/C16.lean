import NmlVerif.Proofs.SectionHist
/-!
# C16 — unbranched sectioning partitions the tree into maximal chains, altering nothing

Model: `NmlVerif.Section` (`Model/Section.lean`) of `Cell.create_unbranched_segment_group_branches` with the
iterative private sectioniser (`fixes/C16-iterative-sectionise.patch`), tied to `neuroml/nml/helper_methods.py` /
`neuroml/nml/nml.py` by the correspondence check `harness/props/c16.py` (generated cells and HISTORIES of calls on
one cell object, real methods vs `Drivers/C16.lean`) and by the translator `translators/py2lean_section.py`.

Three layers of statements, each for EVERY cell, tree shape (any nesting of branch points: the sectioniser no longer
recurses), id assignment, attachment fraction, pre-existing groups and flag setting:

* **A. as the code sees the cell** (`c16_call`, `c16_rooted_tree`, `c16_history`): a list of segments with parent
  pointers, distinct ids, acyclic (`WfCell`, `Good`, `RootedAt`) — the tree is *constructed* (`c16_tree_exists`),
  not assumed — and the cell OBJECT carries its cached adjacency list through any history of calls.  Conclusion:
  `CallOK`, the whole property for one call relative to the cell at the time of the call.
* **B. with the tree and the new groups explicit** (`c16_result` … `c16_old_groups_optimised`, hypotheses
  `Wf … t`, discharged from A's hypotheses by `c16_wf_of_cell`): additionally the exact list, order and names of
  the new groups (`newGroups`).
* **C. known findings**: `c16_full` (false) / `c16_partial` / three witnesses.

`oi` is the part of `optimise_segment_group` that C16 does not model (groups with includes; property C14): any
id-preserving function.
-/
namespace NmlVerif.Section

variable {oi : List Group → Group → Group} {cell : St} {cache : Option Adj} {root lim fuel k : Nat} {t : Tree}

/-! ## A. the cell as the code sees it: parent pointers, cached adjacency list, histories -/

/-- **The tree exists.**  Distinct ids + acyclic parent pointers: the adjacency dictionary unfolds from any root to
    a rose tree that repeats no id, with at most as many nodes as there are segments. -/
theorem c16_tree_exists {segs : List Seg} (hnd : (segs.map (·.id)).Nodup) (hac : Acyclic segs) (root : Nat)
    (hroot : ∃ s, getSegment segs root = some s) :
    ∃ t : Tree, t.id = root ∧ Repr (adjacency segs) t ∧ (preorder t).Nodup ∧ size t ≤ segs.length := by
  obtain ⟨t, h1, h2, h3⟩ := exists_tree hnd hac root
  exact ⟨t, h1, h2, h3, tree_size_le h2 h3 (by rw [h1]; exact hroot)⟩

/-- the tree-free hypotheses imply the hypotheses of part B (`Repr`, `tree`, `fuel_ok`, `no_clash` are PROVED) -/
theorem c16_wf_of_cell (W : WfCell cell cache root lim fuel k) : ∃ t, Wf cell cache root lim fuel k t := W.wf

/-- a rooted segment tree (every segment reaches a parentless root along parent pointers) is acyclic -/
theorem c16_rooted_acyclic {segs : List Seg} {r : Nat} (hnd : (segs.map (·.id)).Nodup) (h : RootedAt segs r) :
    Acyclic segs := h.acyclic hnd

/-- **One call, tree-free.**  Under `WfCell` (distinct ids, acyclic parent pointers, fresh or no cache, the chain
    heads' proximals resolve within the frame budget, no clashing generated name) the call succeeds and achieves
    `CallOK`: partition into maximal chains, first proximals explicit = implied, geometry / parents / old groups
    unchanged, the cached adjacency list = the morphology's, unmodified. -/
theorem c16_call (hoi : IdPreserving oi) {c : CellS} (W : WfCell c.st c.cache root lim fuel k)
    (reorder optimise : Bool) :
    ∃ c', call oi c root reorder optimise lim fuel = .ok c' ∧ CallOK c root optimise c' :=
  callOK_of_wfCell hoi W reorder optimise

/-- a rooted segment tree whose parentless segments carry a proximal point is a `Good` cell object for some frame
    need `k` -/
theorem c16_rooted_good {c : CellS} {r : Nat} (hnd : (c.segs.map (·.id)).Nodup) (hr : RootedAt c.segs r)
    (hprox : ∀ s ∈ c.segs, s.parent = none → s.prox ≠ none) (hc : FreshCache c.st c.cache)
    (hg : GenBelow c.groups) (hne : ∀ g ∈ c.groups, g.id ≠ "") : ∃ k, Good k c := by
  have hac := hr.acyclic hnd
  obtain ⟨k, hk⟩ := exists_frames hnd hac (hr.parents_exist hnd) hprox
  refine ⟨k, ⟨hc, hnd, hac, ?_, hg, hne⟩⟩
  intro x hx
  obtain ⟨s, hs, rfl⟩ := List.mem_map.1 hx
  exact hk s hs

/-- **Rooted segment trees.**  For every rooted segment tree with arbitrary ids, branching, depth, fractions and
    groups there is a frame need `k` such that, with `k + 1` frames, sectioning from ANY segment of the cell
    succeeds and achieves the full property — whatever the nesting depth of branch points. -/
theorem c16_rooted_tree (hoi : IdPreserving oi) {c : CellS} {r : Nat} (hnd : (c.segs.map (·.id)).Nodup)
    (hr : RootedAt c.segs r) (hprox : ∀ s ∈ c.segs, s.parent = none → s.prox ≠ none)
    (hc : FreshCache c.st c.cache) (hg : GenBelow c.groups) (hne : ∀ g ∈ c.groups, g.id ≠ "") :
    ∃ k, ∀ root ∈ c.segs.map (·.id), ∀ (lim fuel : Nat) (reorder optimise : Bool), k + 1 ≤ lim →
      c.segs.length + 2 ≤ fuel →
      ∃ c', call oi c root reorder optimise lim fuel = .ok c' ∧ CallOK c root optimise c' := by
  obtain ⟨k, G⟩ := c16_rooted_good hnd hr hprox hc hg hne
  refine ⟨k, ?_⟩
  intro root hroot lim fuel reorder optimise hlim hfuel
  obtain ⟨c', h1, h2, _⟩ := call_good hoi G hroot hlim hfuel reorder optimise
  exact ⟨c', h1, h2⟩

/-- one call on a good cell object leaves a good cell object: the invariant behind `c16_history` -/
theorem c16_call_preserves_good (hoi : IdPreserving oi) {c : CellS} (G : Good k c)
    (hroot : root ∈ c.segs.map (·.id)) (hlim : k + 1 ≤ lim) (hfuel : c.segs.length + 2 ≤ fuel)
    (reorder optimise : Bool) :
    ∃ c', call oi c root reorder optimise lim fuel = .ok c' ∧ CallOK c root optimise c' ∧ Good k c' ∧
      c'.segs.map (·.id) = c.segs.map (·.id) :=
  call_good hoi G hroot hlim hfuel reorder optimise

/-- **Histories.**  Any sequence of sectioning calls on one cell object — any roots (repeats, sub-tree roots), any
    flags — interleaved with `get_segment_adjacency_list()`, `get_graph()` and additions of (not generated-looking)
    groups: every operation succeeds, and every sectioning call achieves `CallOK` relative to the cell AT THE TIME
    OF THAT CALL (its pre-existing groups include the groups made by all earlier calls; the cache it leaves is the
    adjacency list of the morphology). -/
theorem c16_history (hoi : IdPreserving oi) {c : CellS} (G : Good k c) (hlim : k + 1 ≤ lim)
    (hfuel : c.segs.length + 2 ≤ fuel) (ops : List Op) (hv : ∀ op ∈ ops, OpValid (c.segs.map (·.id)) op) :
    HistOK oi lim fuel c ops :=
  history_ok hoi hlim ops c G hfuel hv

/-- in particular the whole history runs to the end -/
theorem c16_history_runs (hoi : IdPreserving oi) {c : CellS} (G : Good k c) (hlim : k + 1 ≤ lim)
    (hfuel : c.segs.length + 2 ≤ fuel) (ops : List Op) (hv : ∀ op ∈ ops, OpValid (c.segs.map (·.id)) op) :
    ∃ c', runOps oi lim fuel c ops = .ok c' := by
  have h := history_ok hoi hlim ops c G hfuel hv
  clear hv G hfuel
  induction ops generalizing c with
  | nil => exact ⟨c, rfl⟩
  | cons op ops ih =>
    obtain ⟨c1, h1, _, h3⟩ := h
    obtain ⟨c', hc'⟩ := ih h3
    exact ⟨c', by simp only [runOps, h1, hc']⟩

/-! ## B. with the tree `t` and the new groups `NG = newGroups cell.groups.length t` explicit -/

/-- **The call succeeds and this is its result.**  The segment list is only refined (implied proximals made
    explicit — `Refines`), every pre-existing group is still there (`OldRel`: same id; literally the same group
    unless optimisation is on and the group has includes or repeated members), and the group list is the old
    groups followed by exactly the new groups `NG` — up to the reordering of the default groups when
    `reorder` is on. -/
theorem c16_result (hoi : IdPreserving oi) (W : Wf cell cache root lim fuel k t) (reorder optimise : Bool) :
    ∃ cell' olds', run oi cell cache root reorder optimise lim fuel = .ok cell' ∧
      Refines cell.segs cell'.segs ∧
      Rel2 (OldRel optimise) cell.groups olds' ∧
      cell'.groups.Perm (olds' ++ newGroups cell.groups.length t) ∧
      (reorder = false → cell'.groups = olds' ++ newGroups cell.groups.length t) ∧
      HasProx cell'.segs root ∧ (∀ ch ∈ rest t, HasProx cell'.segs ch.1) := by
  obtain ⟨segs', gs', olds', h1, h2, h3, h4, h5, h6, h7⟩ := run_spec hoi cell cache root reorder optimise lim fuel k t
    W.cache_fresh W.ids_nodup W.repr W.root_eq W.tree W.fuel_ok W.frames W.root_proximal W.head_proximal W.no_clash
    W.ids_nonempty
  exact ⟨⟨segs', gs'⟩, olds', h1, h2, h5, h6, h7, h3, h4⟩

/-- the new groups are exactly the groups of the result that carry the section NeuroLex id and whose id did not
    exist before (this is how the harness, and a user, finds them) -/
theorem c16_new_groups_identified (hoi : IdPreserving oi) (W : Wf cell cache root lim fuel k t)
    (reorder optimise : Bool) :
    ∃ cell', run oi cell cache root reorder optimise lim fuel = .ok cell' ∧
      (newSectionGroups cell cell').Perm (newGroups cell.groups.length t) := by
  obtain ⟨cell', olds', h1, _, h3, h4, _⟩ := c16_result hoi W reorder optimise
  refine ⟨cell', h1, newSectionGroups_perm h3 h4 ?_⟩
  intro n hn
  exact ⟨(newGroups_members hn).1, fun g hg => W.no_clash g hg n hn⟩

/-- every new group is marked as a section, includes nothing, and is not empty -/
theorem c16_new_groups_marked (W : Wf cell cache root lim fuel k t) :
    ∀ n ∈ newGroups cell.groups.length t, n.nlx = some sectionNlx ∧ n.includes = [] ∧ n.members ≠ [] := by
  intro n hn
  obtain ⟨h1, h2, _⟩ := newGroups_members hn
  exact ⟨h1, h2, (newGroups_good W.repr hn).1.ne_nil⟩

/-- **Partition.**  Concatenating the member lists of the new groups gives a list without repetition whose
    elements are exactly the ids reachable from the root: every reachable segment is in exactly one new group,
    once, and nothing else is. -/
theorem c16_partition (W : Wf cell cache root lim fuel k t) :
    ((newGroups cell.groups.length t).map (·.members)).flatten.Nodup ∧
    ∀ x, x ∈ ((newGroups cell.groups.length t).map (·.members)).flatten ↔ Reach (adjacency cell.segs) root x := by
  rw [newGroups_flat]
  refine ⟨W.tree, fun x => ?_⟩
  rw [← W.root_eq]
  exact (reach_iff_mem_preorder W.repr x).symm

/-- the same, counted: a reachable segment is a member of exactly one new group -/
theorem c16_exactly_one (W : Wf cell cache root lim fuel k t) (x : Nat) (hx : Reach (adjacency cell.segs) root x) :
    (((newGroups cell.groups.length t).map (·.members)).filter (fun l => decide (x ∈ l))).length = 1 :=
  count_containing (c16_partition W).1 (((c16_partition W).2 x).2 hx)

/-- **Chain.**  Consecutive members of a new group are parent and child. -/
theorem c16_chain (W : Wf cell cache root lim fuel k t) :
    ∀ n ∈ newGroups cell.groups.length t, IsChain (ParentOf cell.segs) n.members :=
  fun _ hn => (newGroups_good W.repr hn).1.isChain W.ids_nodup

/-- **No branch point inside.**  Every member but the last has exactly one child (the next member). -/
theorem c16_no_inner_branch (W : Wf cell cache root lim fuel k t) :
    ∀ n ∈ newGroups cell.groups.length t, ∀ a ∈ n.members.dropLast, ∃ c, childrenOf cell.segs a = [c] :=
  fun _ hn => (newGroups_good W.repr hn).1.inner

/-- **Maximal at the bottom.**  The last member is a leaf or a branch point (never a segment with one child). -/
theorem c16_maximal_bottom (W : Wf cell cache root lim fuel k t) :
    ∀ n ∈ newGroups cell.groups.length t, ∀ z, n.members.getLast? = some z →
      childrenOf cell.segs z = [] ∨ 2 ≤ (childrenOf cell.segs z).length :=
  fun _ hn => (newGroups_good W.repr hn).1.last

/-- **Maximal at the top.**  The first member is the given root, or a child of a reachable branch point. -/
theorem c16_maximal_top (W : Wf cell cache root lim fuel k t) :
    ∀ n ∈ newGroups cell.groups.length t, ∀ h, n.members.head? = some h → IsHead cell.segs root h := by
  intro n hn h hh
  rcases (newGroups_good W.repr hn).2 with ⟨l, e⟩ | ⟨h', l, p, cs, e, hp, hl, h2, hc⟩
  · left
    rw [e] at hh
    simp only [List.head?_cons, Option.some.injEq] at hh
    rw [← hh, W.root_eq]
  · right
    rw [e] at hh
    simp only [List.head?_cons, Option.some.injEq] at hh
    subst hh
    have := lookup_adjacency_some hl
    refine ⟨p, ?_, by rw [this]; exact hc, by rw [this]; exact h2⟩
    rw [← W.root_eq]
    exact (reach_iff_mem_preorder W.repr p).2 hp

/-- **First segment has an explicit proximal, equal to the implied one.**  After the call the first member of
    every new group carries an explicit proximal point, and that point is the proximal the morphology implied
    before the call. -/
theorem c16_first_proximal (hoi : IdPreserving oi) (W : Wf cell cache root lim fuel k t) (reorder optimise : Bool) :
    ∃ cell', run oi cell cache root reorder optimise lim fuel = .ok cell' ∧
      ∀ n ∈ newGroups cell.groups.length t, ∀ h, n.members.head? = some h →
        ∃ s q, getSegment cell'.segs h = some s ∧ s.prox = some q ∧ Implied cell.segs h q := by
  obtain ⟨cell', _, h1, h2, _, _, _, h6, h7⟩ := c16_result hoi W reorder optimise
  refine ⟨cell', h1, ?_⟩
  intro n hn h hh
  have hp : HasProx cell'.segs h := by
    obtain ⟨_, _, hm⟩ := newGroups_members hn
    rcases hm with hm | ⟨ch, hc, hm⟩
    · obtain ⟨l, e⟩ := first_cons t
      rw [hm, e] at hh
      simp only [List.head?_cons, Option.some.injEq] at hh
      rw [← hh, W.root_eq]
      exact h6
    · obtain ⟨_, ⟨l, e⟩, _⟩ := rest_ok t W.repr ch hc
      rw [hm, e] at hh
      simp only [List.head?_cons, Option.some.injEq] at hh
      rw [← hh]
      exact h7 ch hc
  obtain ⟨s, q, hs, hq⟩ := hp
  exact ⟨s, q, hs, hq, (h2.implied_iff h q).2 (.explicit hs hq)⟩

/-- **Geometry and parents unchanged.**  The segments after the call are the segments before it, one by one
    (`Refines`: same id, same parent and fraction, same distal point; the proximal is untouched, or was absent
    and is now the implied one), and the actual proximal point of EVERY segment (hence its length, area and
    volume, which are functions of the actual proximal and the distal point) is the same before and after. -/
theorem c16_geometry_unchanged (hoi : IdPreserving oi) (W : Wf cell cache root lim fuel k t)
    (reorder optimise : Bool) :
    ∃ cell', run oi cell cache root reorder optimise lim fuel = .ok cell' ∧
      Refines cell.segs cell'.segs ∧ cell'.segs.length = cell.segs.length ∧
      ∀ x q, Implied cell.segs x q ↔ Implied cell'.segs x q := by
  obtain ⟨cell', _, h1, h2, _⟩ := c16_result hoi W reorder optimise
  exact ⟨cell', h1, h2, rel2_length h2, fun x q => h2.implied_iff x q⟩

/-- **Pre-existing groups unchanged** (both post-passes off): the group list is the old list followed by the
    new groups; nothing else. -/
theorem c16_old_groups_unchanged (hoi : IdPreserving oi) (W : Wf cell cache root lim fuel k t) :
    ∃ cell', run oi cell cache root false false lim fuel = .ok cell' ∧
      cell'.groups = cell.groups ++ newGroups cell.groups.length t := by
  obtain ⟨cell', olds', h1, _, h3, _, h5, _⟩ := c16_result hoi W false false
  rw [rel2_oldrel_false h3] at h5
  exact ⟨cell', h1, h5 rfl⟩

/-- with `reorder` on (optimisation off) the groups are the same groups, permuted -/
theorem c16_old_groups_reordered (hoi : IdPreserving oi) (W : Wf cell cache root lim fuel k t) (reorder : Bool) :
    ∃ cell', run oi cell cache root reorder false lim fuel = .ok cell' ∧
      cell'.groups.Perm (cell.groups ++ newGroups cell.groups.length t) := by
  obtain ⟨cell', olds', h1, _, h3, h4, _⟩ := c16_result hoi W reorder false
  rw [rel2_oldrel_false h3] at h4
  exact ⟨cell', h1, h4⟩

/-- with optimisation on, a pre-existing group without includes and without repeated members is still
    literally unchanged; every other pre-existing group keeps its id (what else happens to it is
    `optimise_segment_group`, property C14) -/
theorem c16_old_groups_optimised (hoi : IdPreserving oi) (W : Wf cell cache root lim fuel k t) (reorder : Bool) :
    ∃ cell' olds', run oi cell cache root reorder true lim fuel = .ok cell' ∧
      cell'.groups.Perm (olds' ++ newGroups cell.groups.length t) ∧
      Rel2 (fun g g' => g'.id = g.id ∧ (Clean g → g' = g)) cell.groups olds' := by
  obtain ⟨cell', olds', h1, _, h3, h4, _⟩ := c16_result hoi W reorder true
  exact ⟨cell', olds', h1, h4, rel2_mono (fun g g' h => ⟨h.1, fun hc => h.2 (Or.inr hc)⟩) h3⟩

/-- the groups a call makes carry counters in `[number of groups before, number of groups after)`: they can never
    clash with the names a LATER call generates (whose counters start at the number of groups then) -/
theorem c16_generated_names_ascend {G0 : Nat} {n : Group} (hn : n ∈ newGroups G0 t) :
    ∃ m h, G0 ≤ m ∧ m < G0 + (newGroups G0 t).length ∧ n.id = genName m h := by
  obtain ⟨m, h, h1, h2, e⟩ := newGroups_id_range hn
  exact ⟨m, h, h1, by omega, e⟩

/-! ## C. known findings: the three hypotheses that cannot be dropped

Full-strength statement: for every well-formed *input* (no assumption on frames beyond what an unbranched cell
needs, on the names of pre-existing groups, or on the adjacency cache the cell acquired earlier in its life) the
call succeeds and achieves `CallOK`. -/

/-- `optimise_segment_group` on groups with includes, as the driver instantiates it (left alone) -/
def idOi : List Group → Group → Group := fun _ g => g

theorem idOi_preserving : IdPreserving idOi := fun _ _ => rfl

/-- well-formed input: distinct segment ids, acyclic parent pointers, proximal points of the chain heads defined
    (for SOME number of frames), group ids not empty -/
structure WfInput (c : CellS) (root fuel : Nat) : Prop where
  ids_nodup : (c.segs.map (·.id)).Nodup
  acyclic : Acyclic c.segs
  fuel_ok : c.segs.length + 2 ≤ fuel
  proximal : ∃ k, ∀ x, IsHead c.segs root x → ∃ p, actualProximal c.segs k x = .ok p
  ids_nonempty : ∀ g ∈ c.groups, g.id ≠ ""

/-- FULL-STRENGTH statement (false on the current code, see the three witnesses): any frame budget that suffices
    for an unbranched cell, any cache the cell may have acquired while it was being built (none, or the
    adjacency list of its first `m` segments), any pre-existing groups. -/
def c16_full : Prop :=
  ∀ (c : CellS) (root : Nat) (reorder optimise : Bool) (lim fuel : Nat),
    WfInput c root fuel → 2 ≤ lim →
    (c.cache = none ∨ ∃ m, c.cache = some (adjacency (c.segs.take m))) →
    ∃ c', call idOi c root reorder optimise lim fuel = .ok c' ∧ CallOK c root optimise c'

/-- the strongest true restriction: the conclusion of `c16_full` under `WfCell` (fresh cache, no generated name
    with a reachable counter taken, proximal chains of the chain heads within the frame budget).  Nesting of
    branch points is NOT restricted any more. -/
theorem c16_partial {c : CellS} (W : WfCell c.st c.cache root lim fuel k) (reorder optimise : Bool) :
    ∃ c', call idOi c root reorder optimise lim fuel = .ok c' ∧ CallOK c root optimise c' :=
  c16_call idOi_preserving W reorder optimise

/-! ### witnesses -/

def pt (x y z d : Int) : Pt := ⟨x, y, z, d⟩

/-- root 0 with children 1, 2; 2 has children 3, 4: two nested branch points -/
def wSegs : List Seg :=
  [⟨0, none, some (pt 0 0 0 1), pt 1 0 0 1⟩, ⟨1, some (0, 1), none, pt 2 1 0 1⟩, ⟨2, some (0, 1), none, pt 2 0 0 1⟩,
   ⟨3, some (2, 1 / 2), none, pt 3 1 0 1⟩, ⟨4, some (2, 1), none, pt 3 0 0 1⟩]

/-- parents have smaller ids than their children in the witness cells -/
theorem acyclic_of_smaller {segs : List Seg}
    (h : segs.all (fun s => match s.parent with | some (p, _) => decide (p < s.id) | none => true) = true) :
    Acyclic segs := by
  refine ⟨fun x => x, ?_⟩
  intro s hs p f hp
  have := List.all_eq_true.1 h s hs
  simpa [hp] using this

theorem heads_resolve {segs : List Seg} {root k : Nat} (hroot : root ∈ segs.map (·.id))
    (h : (segs.map (·.id)).all (fun x => isOk (actualProximal segs k x)) = true) :
    ∀ x, IsHead segs root x → ∃ p, actualProximal segs k x = .ok p :=
  fun x hx => all_isOk h x (isHead_is_segment hroot hx)

theorem wInput (groups : List Group) (cache : Option Adj) (hne : ∀ g ∈ groups, g.id ≠ "") :
    WfInput ⟨wSegs, groups, cache⟩ 0 20 where
  ids_nodup := by show (wSegs.map (·.id)).Nodup; decide
  acyclic := by show Acyclic wSegs; exact acyclic_of_smaller (by decide)
  fuel_ok := by show wSegs.length + 2 ≤ 20; decide
  proximal := ⟨3, by
    show ∀ x, IsHead wSegs 0 x → ∃ p, actualProximal wSegs 3 x = .ok p
    exact heads_resolve (by decide) (by decide +kernel)⟩
  ids_nonempty := hne

/-- FIXED (`fixes/C16-iterative-sectionise.patch`; was the known finding
    `C16:recursion-limit:nested-branch-points`): with only 3 frames (what the proximal of segment 3 needs) the call
    on two nested branch points now succeeds — before the fix the model (and the code, at ~990 nested branch
    points) raised `RecursionError` (`Proofs/SectionLegacy.lean: legacy_recursion_witness`) -/
theorem c16_fixed_nested_branch_points :
    (run idOi ⟨wSegs, []⟩ none 0 false false 3 20).toOption.map (fun c => c.groups.map (fun g => (g.id, g.members))) =
      some [("seg_group_0_seg_0", [0]), ("seg_group_0_seg_1", [1]), ("seg_group_1_seg_2", [2]),
        ("seg_group_2_seg_3", [3]), ("seg_group_3_seg_4", [4])] := by
  decide +kernel

/-- 0 ← 1 ← 2 ← {3, 4}, everything below 0 attached at fraction 1/2 without explicit proximal -/
def wSegsP : List Seg :=
  [⟨0, none, some (pt 0 0 0 1), pt 8 0 0 1⟩, ⟨1, some (0, 1 / 2), none, pt 8 8 0 1⟩, ⟨2, some (1, 1 / 2), none, pt 0 8 0 1⟩,
   ⟨3, some (2, 1 / 2), none, pt 3 1 0 1⟩, ⟨4, some (2, 1 / 2), none, pt 3 0 0 1⟩]

/-- KNOWN FINDING `C16:recursion-limit:implied-proximal-chain`: one branch point only, but making the proximal of
    its children explicit needs one `get_actual_proximal` frame per ancestor; with 3 frames: `RecursionError` -/
theorem c16_witness_proximal_chain : ¬ c16_full := by
  intro h
  have hw : WfInput ⟨wSegsP, [], none⟩ 0 20 :=
    { ids_nodup := by show (wSegsP.map (·.id)).Nodup; decide
      acyclic := acyclic_of_smaller (by decide)
      fuel_ok := by decide
      proximal := ⟨4, heads_resolve (by decide) (by decide +kernel)⟩
      ids_nonempty := by simp }
  obtain ⟨c', h1, _⟩ := h ⟨wSegsP, [], none⟩ 0 false false 3 20 hw (by decide) (Or.inl rfl)
  have : call idOi ⟨wSegsP, [], none⟩ 0 false false 3 20 = .error .recursion := by decide +kernel
  rw [this] at h1
  cases h1

/-- on outcome `r`, reachable segment `x` is NOT in exactly one new section group -/
def violatesAt (c : CellS) (x : Nat) (r : Except Err CellS) : Bool :=
  match r with
  | .ok c' => ((c.newGroupsOf c').filter (fun g => decide (x ∈ g.members))).length != 1
  | .error _ => true

theorem not_full_of_violation {c : CellS} {root lim fuel x : Nat} {reorder optimise : Bool}
    (hw : WfInput c root fuel) (hl : 2 ≤ lim)
    (hc : c.cache = none ∨ ∃ m, c.cache = some (adjacency (c.segs.take m)))
    (hx : Reach (adjacency c.segs) root x)
    (hv : violatesAt c x (call idOi c root reorder optimise lim fuel) = true) : ¬ c16_full := by
  intro h
  obtain ⟨c', h1, h2⟩ := h c root reorder optimise lim fuel hw hl hc
  rw [h1] at hv
  have := h2.exactly_one x hx
  simp [violatesAt, this] at hv

/-- KNOWN FINDING `C16:generated-name-collision`: a pre-existing group called `seg_group_1_seg_1` is reused for
    the chain starting at segment 1, which therefore is in no new group (and the old group grows) -/
theorem c16_witness_name_collision : ¬ c16_full :=
  not_full_of_violation (c := ⟨wSegs, [⟨"seg_group_1_seg_1", none, [4], []⟩], none⟩) (root := 0)
    (lim := 50) (fuel := 20) (x := 1) (reorder := false) (optimise := false)
    (wInput _ _ (by decide)) (by decide) (Or.inl rfl)
    (.step (cs := [1, 2]) .refl (by decide +kernel) (by decide)) (by decide +kernel)

/-- KNOWN FINDING `C16:stale-adjacency-cache`: the cell computed its adjacency list when it had two segments;
    the segments added later (here segment 2) are in no new group -/
theorem c16_witness_stale_cache : ¬ c16_full :=
  not_full_of_violation (c := ⟨wSegs, [], some (adjacency (wSegs.take 2))⟩) (root := 0)
    (lim := 50) (fuel := 20) (x := 2) (reorder := false) (optimise := false)
    (wInput [] _ (by simp)) (by decide) (Or.inr ⟨2, rfl⟩)
    (.step (cs := [1, 2]) .refl (by decide +kernel) (by decide)) (by decide +kernel)

/-- that stale state arises from a history: build two segments, `get_segment_adjacency_list()`, append three more -/
example : runOps idOi 50 20 ⟨wSegs.take 2, [], none⟩ ([Op.refresh] ++ (wSegs.drop 2).map Op.append) =
    .ok ⟨wSegs, [], some (adjacency (wSegs.take 2))⟩ := by decide +kernel

/-- and one more `get_segment_adjacency_list()` before the call repairs it: segment 2 is in exactly one new group -/
example : violatesAt ⟨wSegs, [], some (adjacency wSegs)⟩ 2
    (runOps idOi 50 20 ⟨wSegs.take 2, [], none⟩
      ([Op.refresh] ++ (wSegs.drop 2).map Op.append ++ [Op.refresh, Op.sect 0 false false])) = false := by
  decide +kernel

/-! ### the hypotheses are satisfiable (non-vacuity), on a cell with pre-existing groups, nested branch points,
    fractional attachment, default and section-marked old groups -/

def exCell : St :=
  ⟨wSegs, [⟨"soma_group", none, [0, 0], []⟩, ⟨"all", none, [0, 1], ["soma_group"]⟩, ⟨"old_sec", some sectionNlx, [3], []⟩]⟩

def exCellS : CellS := ⟨exCell.segs, exCell.groups, none⟩

example : ∃ t k, Wf exCell none 0 10 20 k t := hypB_sound (by decide +kernel)

example : IdPreserving idOi := idOi_preserving

theorem exGood : Good 3 exCellS where
  cache_fresh := Or.inl rfl
  ids_nodup := by show (wSegs.map (·.id)).Nodup; decide
  acyclic := acyclic_of_smaller (by decide)
  proximal := all_isOk (segs := wSegs) (by decide +kernel)
  gen_below := by
    intro g hg n i e
    simp only [exCellS, exCell, List.mem_cons, List.not_mem_nil, or_false] at hg
    rcases hg with rfl | rfl | rfl <;> · have := congrArg String.toList e; rw [genName_toList] at this; simp at this
  ids_nonempty := by decide

example : WfCell exCellS.st exCellS.cache 2 10 20 3 := exGood.wfCell (by decide) (by decide) (by decide)

/-- wSegs is a rooted segment tree -/
example : RootedAt wSegs 0 :=
  ⟨⟨_, rfl, rfl⟩, by
    intro s hs
    simp only [wSegs, List.mem_cons, List.not_mem_nil, or_false] at hs
    rcases hs with rfl | rfl | rfl | rfl | rfl
    · exact ⟨0, rfl⟩
    · exact ⟨1, by decide +kernel⟩
    · exact ⟨1, by decide +kernel⟩
    · exact ⟨2, by decide +kernel⟩
    · exact ⟨2, by decide +kernel⟩⟩

/-- a history the theorem covers: whole cell, a sub-tree, a cache refresh, a user group, the whole cell again -/
def exOps : List Op :=
  [.sect 0 true true, .sect 2 false true, .refresh, .addGroup ⟨"apical", none, [3, 4], []⟩, .ensure, .sect 0 false false]

example : HistOK idOi 10 20 exCellS exOps :=
  c16_history idOi_preserving exGood (by decide) (by decide) exOps (by
    intro op hop
    simp only [exOps, List.mem_cons, List.not_mem_nil, or_false] at hop
    rcases hop with rfl | rfl | rfl | rfl | rfl | rfl
    · show (0 : Nat) ∈ _; decide
    · show (2 : Nat) ∈ _; decide
    · trivial
    · refine ⟨by decide, fun n i e => ?_⟩
      have := congrArg String.toList e; rw [genName_toList] at this; simp at this
    · trivial
    · show (0 : Nat) ∈ _; decide)

/-- and on that cell the model computes what the theorems say (default flags) -/
example : (run idOi exCell none 0 true true 10 20).toOption.map (fun c => c.groups.map (fun g => (g.id, g.members))) =
    some [("old_sec", [3]), ("seg_group_3_seg_0", [0]), ("seg_group_3_seg_1", [1]), ("seg_group_4_seg_2", [2]),
      ("seg_group_5_seg_3", [3]), ("seg_group_6_seg_4", [4]), ("soma_group", [0]), ("all", [0, 1])] := by
  decide +kernel

/-- the second call of `exOps` (sub-tree root 2, after the first call): three further groups, counters continue -/
example : (runOps idOi 10 20 exCellS (exOps.take 2)).toOption.map
      (fun c => (c.groups.map (fun g => (g.id, g.members)), c.cache == some (adjacency wSegs))) =
    some ([("old_sec", [3]), ("seg_group_3_seg_0", [0]), ("seg_group_3_seg_1", [1]), ("seg_group_4_seg_2", [2]),
      ("seg_group_5_seg_3", [3]), ("seg_group_6_seg_4", [4]), ("soma_group", [0]), ("all", [0, 1]),
      ("seg_group_8_seg_2", [2]), ("seg_group_8_seg_3", [3]), ("seg_group_9_seg_4", [4])], true) := by
  decide +kernel

end NmlVerif.Section
