import NmlVerif.Gen.Section
import NmlVerif.Proofs.SectionHist
/-!
# C16 — the translated methods compute what the hand model computes

`Gen/Section.lean` is regenerated from `neuroml/nml/helper_methods.py` / `nml.py` on every run
(`translators/py2lean_section.py`): the bodies of `Cell.__sectionise` and
`Cell.create_unbranched_segment_group_branches`, statement by statement and with their real nesting, as terms of the
imperative vocabulary `Model/SectionIR.lean`.  Here:

* `c16_gen_sectionise_shape`, `c16_gen_create_shape` — the generated terms are the expected compositions (`rfl`);
* `c16_gen_sectionise` — running the translated `__sectionise` gives what the model's `sectLoop` gives;
* `c16_gen_create` — running the translated `create_unbranched_segment_group_branches` gives what the model's
  `call` gives (cell AND cached adjacency list), for every cell object, root, flags, frame budget,

whenever the model does not run out of `fuel` (the theorems of `Props/C16.lean` show it does not for
`fuel ≥ segs.length + 2`).  Exceptions of the model are exceptions of the translated program.

* `c16_gen_property` — hence the TRANSLATED method itself achieves the property (`CallOK`) under `WfCell`.
-/
namespace NmlVerif.Section
open IR

/-! ## the expected composition -/

def wbody : Cmd := block [addMember, descend, lookupChildren]
def innerLoop : Cmd := whileC oneChild wbody
def ifManyF : Cmd := ifC manyChildren (block [addMember, forEach reversedChildren (block [appendTodoChildNone])])
def handlerB : Cmd := block [addMember]
def tryStmt : Cmd := tryKeyError (block [lookupChildren, innerLoop, ifManyF]) handlerB
def openB : Cmd := block [getSegmentRoot, setProximalActual, groupNameCountMinus1, addUnbranchedSegGroup]
def loopBody : Cmd := block [popTodo, ifC segGroupIsNone openB, tryStmt]

/-- the translated `__sectionise` is: `todo = [...]`; `while todo:` pop, open a group if there is none yet, `try:` walk
    down single children, at a branch point add the member and push the children reversed, `except KeyError:` add
    the member -/
theorem c16_gen_sectionise_shape :
    Gen.Section.sectionise = block [initTodo, whileC todoNonEmpty loopBody] := rfl

theorem c16_gen_sectionise_params :
    Gen.Section.sectioniseParams = ["self", "root_segment_id", "seg_group", "morph_tree"] := rfl

/-- the translated `create_unbranched_segment_group_branches` -/
theorem c16_gen_create_shape (oi : List Group → Group → Group) :
    Gen.Section.create oi = block [getCachedTree, ifC morphTreeIsNone (block [computeTree]), getSegmentRoot,
      ifC segProxNoneAndParent (block [setProximalActual]), numSegGroups, groupNameNum, addUnbranchedNewSegGroup,
      callSectionise Gen.Section.sectionise, ifC reorderFlag (block [reorderGroupsP]),
      ifC optimiseFlag (block [optimiseGroupsP oi])] := rfl

theorem c16_gen_create_params :
    Gen.Section.createParams =
      ["self", "root_segment_id", "use_convention", "reorder_segment_groups", "optimise_segment_groups"] := rfl

/-! ## the `try` block = `walk` -/

/-- pushing the children: `for child in reversed(children): todo.append((child, None))` -/
theorem forEach_push (f : Nat) : ∀ (l : List Nat) (σ : Sigma),
    ∃ σ', (l.foldl (fun r x =>
        match r with
        | .normal σ' => (block [appendTodoChildNone]) f { σ' with loc := { σ'.loc with child := x } }
        | r => r) (Res.normal σ)) = .normal σ' ∧
      σ'.st = σ.st ∧ σ'.cache = σ.cache ∧ σ'.frames = σ.frames ∧ σ'.loc.morph_tree = σ.loc.morph_tree ∧
      σ'.loc.todo = σ.loc.todo ++ l.map (fun c => (c, none)) := by
  intro l
  induction l with
  | nil => intro σ; exact ⟨σ, rfl, rfl, rfl, rfl, rfl, by simp⟩
  | cons x l ih =>
    intro σ
    simp only [List.foldl_cons]
    have e : (block [appendTodoChildNone]) f { σ with loc := { σ.loc with child := x } } =
        .normal { σ with loc := { σ.loc with child := x, todo := σ.loc.todo ++ [(x, none)] } } := rfl
    rw [e]
    obtain ⟨σ', h1, h2, h3, h4, h5, h6⟩ := ih { σ with loc := { σ.loc with child := x, todo := σ.loc.todo ++ [(x, none)] } }
    exact ⟨σ', h1, h2, h3, h4, h5, by rw [h6]; simp⟩

theorem block_cons (c : Cmd) (cs : List Cmd) (f : Nat) (σ : Sigma) :
    block (c :: cs) f σ = (match c f σ with | .normal σ' => block cs f σ' | r => r) := rfl

theorem block_nil (f : Nat) (σ : Sigma) : block [] f σ = .normal σ := rfl

theorem whileC_succ (cond : Sigma → Bool) (body : Cmd) (f : Nat) (σ : Sigma) :
    whileC cond body (f + 1) σ =
      (if cond σ then (match body f σ with | .normal σ' => whileC cond body f σ' | r => r) else .normal σ) := rfl

theorem whileC_zero (cond : Sigma → Bool) (body : Cmd) (σ : Sigma) :
    whileC cond body 0 σ = (if cond σ then .error .fuel else .normal σ) := rfl

/-- `if len(children) > 1:` at a branch point: the member is added, the children are pushed in reverse -/
theorem ifMany_many (m gi : Nat) (σ : Sigma) (c1 c2 : Nat) (cs : List Nat) (hg : σ.loc.seg_group = some gi)
    (hc : σ.loc.children = c1 :: c2 :: cs) :
    ∃ σ', ifManyF m σ = .normal σ' ∧ σ'.st = σ.st.addMember gi σ.loc.root_segment_id ∧ σ'.cache = σ.cache ∧
      σ'.frames = σ.frames ∧ σ'.loc.morph_tree = σ.loc.morph_tree ∧
      σ'.loc.todo = σ.loc.todo ++ (c1 :: c2 :: cs).reverse.map (fun c => (c, none)) := by
  have hm : manyChildren σ = true := by simp [manyChildren, hc]
  let σ1 : Sigma := { σ with st := σ.st.addMember gi σ.loc.root_segment_id }
  have ha : addMember m σ = .normal σ1 := by simp [addMember, hg, σ1]
  obtain ⟨σ', h1, h2, h3, h4, h5, h6⟩ := forEach_push m (c1 :: c2 :: cs).reverse σ1
  refine ⟨σ', ?_, h2, h3, h4, h5, h6⟩
  have hf : forEach reversedChildren (block [appendTodoChildNone]) m σ1 = .normal σ' := by
    unfold forEach reversedChildren
    have : σ1.loc.children = c1 :: c2 :: cs := hc
    rw [this]
    exact h1
  unfold ifManyF ifC
  rw [if_pos hm, block_cons, ha]
  simp only
  rw [block_cons, hf]
  rfl

/-- ... and is skipped otherwise -/
theorem ifMany_few (m : Nat) (σ : Sigma) (hc : σ.loc.children.length ≤ 1) : ifManyF m σ = .normal σ := by
  have hm : manyChildren σ = false := by simp [manyChildren]; omega
  unfold ifManyF ifC
  rw [hm]
  rfl

/-- one iteration of `while len(children) == 1:` -/
theorem innerLoop_step (adj : Adj) (gi n : Nat) (σ : Sigma) (c : Nat) (hg : σ.loc.seg_group = some gi)
    (ht : σ.loc.morph_tree = some adj) (hc : σ.loc.children = [c]) :
    innerLoop (n + 1) σ =
      (match lookup adj c with
       | none => .keyError { σ with st := σ.st.addMember gi σ.loc.root_segment_id,
                                    loc := { σ.loc with root_segment_id := c } }
       | some ch' => innerLoop n { σ with st := σ.st.addMember gi σ.loc.root_segment_id,
                                          loc := { σ.loc with root_segment_id := c, children := ch' } }) := by
  have h1 : oneChild σ = true := by simp [oneChild, hc]
  rw [innerLoop, whileC_succ, if_pos h1]
  have hb : wbody n σ =
      (match lookup adj c with
       | none => .keyError { σ with st := σ.st.addMember gi σ.loc.root_segment_id,
                                    loc := { σ.loc with root_segment_id := c } }
       | some ch' => .normal { σ with st := σ.st.addMember gi σ.loc.root_segment_id,
                                      loc := { σ.loc with root_segment_id := c, children := ch' } }) := by
    unfold wbody
    rw [block_cons]
    have ha : addMember n σ = .normal { σ with st := σ.st.addMember gi σ.loc.root_segment_id } := by
      simp [addMember, hg]
    rw [ha]
    simp only
    rw [block_cons]
    have hd : descend n { σ with st := σ.st.addMember gi σ.loc.root_segment_id } =
        .normal { σ with st := σ.st.addMember gi σ.loc.root_segment_id, loc := { σ.loc with root_segment_id := c } } := by
      simp [descend, hc]
    rw [hd]
    simp only
    rw [block_cons]
    cases hl : lookup adj c with
    | none => simp [lookupChildren, ht, hl]
    | some ch' => simp [lookupChildren, ht, hl, block_nil]
  rw [hb]
  cases lookup adj c <;> rfl

/-- the `while` stops at once when there is not exactly one child -/
theorem innerLoop_stop (n : Nat) (σ : Sigma) (hc : σ.loc.children.length ≠ 1) : innerLoop n σ = .normal σ := by
  have h1 : oneChild σ = false := by simp [oneChild, hc]
  rw [innerLoop]
  cases n with
  | zero => rw [whileC_zero, h1]; rfl
  | succ n => rw [whileC_succ, h1]; rfl

/-- what is left of the `try` block once `children` is known: the inner `while`, then the `if`, with the handler
    around both (`n` = fuel of the `while`, `m` = fuel handed to the loop-free rest) -/
def afterLookup (n m : Nat) (σ : Sigma) : Res :=
  match innerLoop n σ with
  | .normal σ' =>
    (match ifManyF m σ' with
     | .keyError σk => handlerB m σk
     | r => r)
  | .keyError σk => handlerB m σk
  | r => r

/-- the relation between the state before the `try` block and a state after it, given the model's answer -/
def TryDone (σ σ' : Sigma) (st' : St) (kids : List Nat) : Prop :=
  σ'.st = st' ∧ σ'.cache = σ.cache ∧ σ'.frames = σ.frames ∧ σ'.loc.morph_tree = σ.loc.morph_tree ∧
    σ'.loc.todo = σ.loc.todo ++ kids.reverse.map (fun c => (c, none))

theorem afterLookup_walk (adj : Adj) (gi m : Nat) : ∀ (n : Nat) (σ : Sigma) (st' : St) (kids : List Nat),
    σ.loc.seg_group = some gi → σ.loc.morph_tree = some adj →
    lookup adj σ.loc.root_segment_id = some σ.loc.children →
    walk adj n σ.st σ.loc.root_segment_id gi = .ok (st', kids) →
    ∃ σ', afterLookup n m σ = .normal σ' ∧ TryDone σ σ' st' kids := by
  intro n
  induction n with
  | zero => intro σ st' kids _ _ _ hw; simp [walk] at hw
  | succ n ih =>
    intro σ st' kids hg ht hl hw
    unfold walk at hw
    rw [hl] at hw
    cases hch : σ.loc.children with
    | nil =>
      rw [hch] at hw
      simp only [Except.ok.injEq, Prod.mk.injEq] at hw
      obtain ⟨rfl, rfl⟩ := hw
      refine ⟨σ, ?_, rfl, rfl, rfl, rfl, by simp⟩
      unfold afterLookup
      rw [innerLoop_stop _ _ (by rw [hch]; simp)]
      simp only
      rw [ifMany_few _ _ (by rw [hch]; simp)]
    | cons c rest =>
      cases rest with
      | nil =>
        rw [hch] at hw
        simp only at hw
        unfold afterLookup
        rw [innerLoop_step adj gi n σ c hg ht hch]
        cases hlc : lookup adj c with
        | none =>
          -- the child is a leaf: KeyError inside the loop, the handler adds it
          cases n with
          | zero => simp [walk] at hw
          | succ n' =>
            unfold walk at hw
            rw [hlc] at hw
            simp only [Except.ok.injEq, Prod.mk.injEq] at hw
            obtain ⟨rfl, rfl⟩ := hw
            refine ⟨{ σ with st := (σ.st.addMember gi σ.loc.root_segment_id).addMember gi c,
                             loc := { σ.loc with root_segment_id := c } }, ?_, rfl, rfl, rfl, rfl, by simp⟩
            simp [handlerB, block_cons, block_nil, addMember, hg]
        | some ch' =>
          simp only
          obtain ⟨σ', h1, h2, h3, h4, h5, h6⟩ := ih
            { σ with st := σ.st.addMember gi σ.loc.root_segment_id,
                     loc := { σ.loc with root_segment_id := c, children := ch' } }
            st' kids hg ht hlc hw
          refine ⟨σ', ?_, h2, h3, h4, h5, h6⟩
          unfold afterLookup at h1
          exact h1
      | cons c2 cs =>
        rw [hch] at hw
        simp only [Except.ok.injEq, Prod.mk.injEq] at hw
        obtain ⟨rfl, rfl⟩ := hw
        obtain ⟨σ', h1, h2, h3, h4, h5, h6⟩ := ifMany_many m gi σ c c2 cs hg hch
        refine ⟨σ', ?_, h2, h3, h4, h5, h6⟩
        unfold afterLookup
        rw [innerLoop_stop _ _ (by rw [hch]; simp)]
        simp only
        rw [h1]

/-- the `try` statement of the loop body does what `walk` does -/
theorem tryStmt_walk (adj : Adj) (gi : Nat) (n : Nat) (σ : Sigma) (st' : St) (kids : List Nat)
    (hg : σ.loc.seg_group = some gi) (ht : σ.loc.morph_tree = some adj)
    (hw : walk adj n σ.st σ.loc.root_segment_id gi = .ok (st', kids)) :
    ∃ σ', tryStmt n σ = .normal σ' ∧ TryDone σ σ' st' kids := by
  cases hl : lookup adj σ.loc.root_segment_id with
  | none =>
    cases n with
    | zero => simp [walk] at hw
    | succ n =>
      unfold walk at hw
      rw [hl] at hw
      simp only [Except.ok.injEq, Prod.mk.injEq] at hw
      obtain ⟨rfl, rfl⟩ := hw
      refine ⟨{ σ with st := σ.st.addMember gi σ.loc.root_segment_id }, ?_, rfl, rfl, rfl, rfl, by simp⟩
      simp [tryStmt, tryKeyError, block, seq, skip, lookupChildren, ht, hl, handlerB, addMember, hg]
  | some ch =>
    let σ1 : Sigma := { σ with loc := { σ.loc with children := ch } }
    obtain ⟨σ', h1, h2⟩ := afterLookup_walk adj gi n n σ1 st' kids hg ht hl hw
    refine ⟨σ', ?_, h2⟩
    rw [← h1]
    have hlk : lookupChildren n σ = .normal σ1 := by simp [lookupChildren, ht, hl, σ1]
    unfold tryStmt tryKeyError afterLookup
    rw [block_cons, hlk]
    simp only
    rw [block_cons]
    cases innerLoop n σ1 with
    | normal σ2 =>
      simp only
      rw [block_cons]
      cases ifManyF n σ2 <;> rfl
    | keyError σk => rfl
    | error e => rfl
    | stuck => rfl

/-! ## the `while todo:` loop = `sectLoop` -/

/-- how a result of the model shows in the translated program: the same exception, or a normal end in a state
    that holds the model's cell (and the same cache) -/
def Agrees (σ : Sigma) (r : Except Err St) (R : Res) : Prop :=
  match r with
  | .ok st' => ∃ σ', R = .normal σ' ∧ σ'.st = st' ∧ σ'.cache = σ.cache
  | .error e => R = .error e

theorem getLast?_reverse_cons {α : Type} (l : List α) (a : α) (rest : List α) (h : l.reverse = a :: rest) :
    l.getLast? = some a ∧ l.dropLast = rest.reverse := by
  have : l = rest.reverse ++ [a] := by
    have := congrArg List.reverse h
    simpa using this
  subst this
  simp

/-- `walk` only fails by running out of fuel -/
theorem walk_error_fuel (adj : Adj) (gi : Nat) : ∀ (n : Nat) (st : St) (x : Nat) (e : Err),
    walk adj n st x gi = .error e → e = .fuel := by
  intro n
  induction n with
  | zero => intro st x e h; simp [walk] at h; exact h.symm
  | succ n ih =>
    intro st x e h
    unfold walk at h
    split at h
    · cases h
    · cases h
    · exact ih _ _ _ h
    · cases h

theorem sectLoop_cons (adj : Adj) (n lim : Nat) (st : St) (x : Nat) (og : Option Nat) (todo : List (Nat × Option Nat)) :
    sectLoop adj (n + 1) lim st ((x, og) :: todo) =
      (match (match og with
          | some gi => (.ok (st, gi) : Except Err (St × Nat))
          | none => openBranch st lim x) with
        | .error e => .error e
        | .ok (st1, gi) =>
          match walk adj n st1 x gi with
          | .error e => .error e
          | .ok (st2, kids) => sectLoop adj n lim st2 (kids.map (fun c => (c, none)) ++ todo)) := rfl

theorem whileTodo_sectLoop (adj : Adj) : ∀ (n : Nat) (σ : Sigma),
    σ.loc.morph_tree = some adj → sectLoop adj n σ.frames σ.st σ.loc.todo.reverse ≠ .error .fuel →
    Agrees σ (sectLoop adj n σ.frames σ.st σ.loc.todo.reverse) (whileC todoNonEmpty loopBody n σ) := by
  intro n
  induction n with
  | zero =>
    intro σ ht hne
    cases hr : σ.loc.todo.reverse with
    | nil =>
      have : σ.loc.todo = [] := by simpa using hr
      simp only [sectLoop, Agrees]
      exact ⟨σ, by simp [whileC, todoNonEmpty, this], rfl, rfl⟩
    | cons a rest => rw [hr] at hne; simp [sectLoop] at hne
  | succ n ih =>
    intro σ ht hne
    cases hr : σ.loc.todo.reverse with
    | nil =>
      have : σ.loc.todo = [] := by simpa using hr
      simp only [sectLoop, Agrees]
      exact ⟨σ, by simp [whileC, todoNonEmpty, this], rfl, rfl⟩
    | cons a rest =>
      obtain ⟨x, og⟩ := a
      obtain ⟨hlast, hdrop⟩ := getLast?_reverse_cons _ _ _ hr
      have hne' : σ.loc.todo ≠ [] := by intro e; rw [e] at hr; simp at hr
      rw [hr] at hne
      -- the state after `pop`
      let σ1 : Sigma := { σ with loc := { σ.loc with todo := rest.reverse, root_segment_id := x, seg_group := og } }
      have hpop : popTodo n σ = .normal σ1 := by simp [popTodo, hlast, hdrop, σ1]
      have hcond : todoNonEmpty σ = true := by simp [todoNonEmpty, hne']
      -- the rest of the body, from a state whose group is known
      have key : ∀ (σ2 : Sigma) (gi : Nat), σ2.loc.seg_group = some gi → σ2.loc.morph_tree = some adj →
          σ2.loc.root_segment_id = x → σ2.loc.todo = rest.reverse → σ2.frames = σ.frames → σ2.cache = σ.cache →
          (match walk adj n σ2.st x gi with
            | .error e => (.error e : Except Err St)
            | .ok (st2, kids) => sectLoop adj n σ.frames st2 (kids.map (fun c => (c, none)) ++ rest)) ≠ .error .fuel →
          Agrees σ (match walk adj n σ2.st x gi with
            | .error e => (.error e : Except Err St)
            | .ok (st2, kids) => sectLoop adj n σ.frames st2 (kids.map (fun c => (c, none)) ++ rest))
            (match tryStmt n σ2 with
              | .normal σ3 => whileC todoNonEmpty loopBody n σ3
              | r => r) := by
        intro σ2 gi hg2 ht2 hx2 htodo2 hfr2 hca2 hne2
        cases hwk : walk adj n σ2.st x gi with
        | error e =>
          -- `walk` only fails by running out of fuel
          rw [hwk] at hne2
          have : e = .fuel := walk_error_fuel adj gi n _ _ e hwk
          subst this
          exact absurd rfl hne2
        | ok r =>
          obtain ⟨st2, kids⟩ := r
          rw [hwk] at hne2
          simp only at hne2 ⊢
          obtain ⟨σ3, h3, h4, h5, h6, h7, h8⟩ := tryStmt_walk adj gi n σ2 st2 kids hg2 ht2 (by rw [hx2]; exact hwk)
          rw [h3]
          simp only
          have hrev : σ3.loc.todo.reverse = kids.map (fun c => (c, none)) ++ rest := by
            rw [h8, htodo2]; simp
          have := ih σ3 (by rw [h7, ht2]) (by rw [hrev, h6, hfr2, h4]; exact hne2)
          rw [hrev, h6, hfr2, h4] at this
          unfold Agrees at this ⊢
          cases hres : sectLoop adj n σ.frames st2 (kids.map (fun c => (c, none)) ++ rest) with
          | error e => rw [hres] at this; exact this
          | ok stf =>
            rw [hres] at this
            obtain ⟨σf, e1, e2, e3⟩ := this
            exact ⟨σf, e1, e2, by rw [e3, h5, hca2]⟩
      -- unfold one iteration on both sides
      have hprog : whileC todoNonEmpty loopBody (n + 1) σ =
          (match (ifC segGroupIsNone openB) n σ1 with
            | .normal σ2 => (match tryStmt n σ2 with
                | .normal σ3 => whileC todoNonEmpty loopBody n σ3
                | r => r)
            | r => r) := by
        simp only [whileC, hcond, ↓reduceIte, loopBody, block, seq, skip, hpop]
        cases (ifC segGroupIsNone openB) n σ1 with
        | normal σ2 =>
          simp only
          cases tryStmt n σ2 <;> rfl
        | keyError _ => rfl
        | error _ => rfl
        | stuck => rfl
      rw [hprog]
      rw [sectLoop_cons] at hne ⊢
      cases og with
      | some gi =>
        have hif : (ifC segGroupIsNone openB) n σ1 = .normal σ1 := by simp [ifC, segGroupIsNone, σ1]
        rw [hif]
        simp only at hne ⊢
        exact key σ1 gi rfl ht rfl rfl rfl rfl hne
      | none =>
        simp only [openBranch] at hne ⊢
        cases hs : getSegment σ.st.segs x with
        | none =>
          simp only [Agrees]
          simp [ifC, segGroupIsNone, σ1, openB, block, seq, getSegmentRoot, hs]
        | some s =>
          simp only [hs] at hne ⊢
          cases hap : actualProximal σ.st.segs σ.frames s.id with
          | error e =>
            simp only [Agrees]
            simp [ifC, segGroupIsNone, σ1, openB, block, seq, getSegmentRoot, hs, setProximalActual, hap]
          | ok p =>
            simp only [hap] at hne ⊢
            let r := addGroup σ.st.groups (genName (σ.st.groups.length - 1) s.id)
            let nm := genName (σ.st.groups.length - 1) s.id
            let loc2 : Locals := { σ1.loc with seg := some (x, s), group_name := nm, seg_group := some r.2 }
            let σ2 : Sigma := { σ1 with st := ⟨setProx σ.st.segs x p, r.1⟩, loc := loc2 }
            have hif : (ifC segGroupIsNone openB) n σ1 = .normal σ2 := by
              simp [ifC, segGroupIsNone, σ1, σ2, loc2, nm, r, openB, block, seq, skip, getSegmentRoot, hs,
                setProximalActual, hap, groupNameCountMinus1, addUnbranchedSegGroup]
            rw [hif]
            exact key σ2 r.2 rfl ht rfl rfl rfl rfl hne

/-- **The translated `__sectionise` = the model's `sectLoop`.** -/
theorem c16_gen_sectionise (adj : Adj) (fuel gi : Nat) (σ : Sigma)
    (ht : σ.loc.morph_tree = some adj) (hg : σ.loc.seg_group = some gi)
    (hne : sectLoop adj fuel σ.frames σ.st [(σ.loc.root_segment_id, some gi)] ≠ .error .fuel) :
    Agrees σ (sectLoop adj fuel σ.frames σ.st [(σ.loc.root_segment_id, some gi)]) (Gen.Section.sectionise fuel σ) := by
  rw [c16_gen_sectionise_shape]
  let σ0 : Sigma := { σ with loc := { σ.loc with todo := [(σ.loc.root_segment_id, σ.loc.seg_group)] } }
  have h0 : (block [initTodo, whileC todoNonEmpty loopBody]) fuel σ = whileC todoNonEmpty loopBody fuel σ0 := by
    simp only [block, seq, skip, initTodo, σ0]
    cases whileC todoNonEmpty loopBody fuel _ <;> rfl
  rw [h0]
  have e : σ0.loc.todo.reverse = [(σ.loc.root_segment_id, some gi)] := by simp [σ0, hg]
  have h := whileTodo_sectLoop adj fuel σ0 ht (by rw [e]; exact hne)
  rw [e] at h
  exact h

/-! ## `create_unbranched_segment_group_branches` = `call` -/

/-- the state in which the method starts: the cell object, `lim` frames, its arguments -/
def startOf (c : CellS) (root : Nat) (reorder optimise : Bool) (lim : Nat) : Sigma :=
  ⟨c.st, c.cache, lim, { root_segment_id := root, reorder_segment_groups := reorder, optimise_segment_groups := optimise }⟩

/-- how a result of `call` shows in the translated method: the same exception, or a normal end with the model's
    cell and cached adjacency list -/
def AgreesCall (r : Except Err CellS) (R : Res) : Prop :=
  match r with
  | .ok c' => ∃ σ', R = .normal σ' ∧ σ'.st = c'.st ∧ σ'.cache = c'.cache
  | .error e => R = .error e

theorem passes_agree (oi : List Group → Group → Group) (f : Nat) (σ : Sigma) :
    ∃ R, (block [ifC reorderFlag (block [reorderGroupsP]), ifC optimiseFlag (block [optimiseGroupsP oi])]) f σ = R ∧
      (let gs1 := if σ.loc.reorder_segment_groups then reorderGroups σ.st.groups else σ.st.groups
       if σ.loc.optimise_segment_groups then
         match optimiseAll oi gs1 (gs1.map (·.id)) with
         | .error e => R = .error e
         | .ok gs2 => ∃ σ', R = .normal σ' ∧ σ'.st = ⟨σ.st.segs, gs2⟩ ∧ σ'.cache = σ.cache
       else ∃ σ', R = .normal σ' ∧ σ'.st = ⟨σ.st.segs, gs1⟩ ∧ σ'.cache = σ.cache) := by
  refine ⟨_, rfl, ?_⟩
  obtain ⟨st, cache, frames, loc⟩ := σ
  obtain ⟨x, sg, nsg, mt, ch, todo, seg, gname, nsegs, child, ro, op⟩ := loc
  cases ro <;> cases op <;>
    simp only [block, seq, skip, ifC, reorderFlag, optimiseFlag, reorderGroupsP, optimiseGroupsP, Bool.false_eq_true,
      ↓reduceIte]
  · exact ⟨_, rfl, rfl, rfl⟩
  · cases optimiseAll oi st.groups (st.groups.map (·.id)) with
    | error e => rfl
    | ok gs2 => exact ⟨_, rfl, rfl, rfl⟩
  · exact ⟨_, rfl, rfl, rfl⟩
  · cases optimiseAll oi (reorderGroups st.groups) ((reorderGroups st.groups).map (·.id)) with
    | error e => rfl
    | ok gs2 => exact ⟨_, rfl, rfl, rfl⟩

/-- the two optional passes at the end of the model's `run` / `call` -/
def postPasses (oi : List Group → Group → Group) (reorder optimise : Bool) (st : St) (cache : Option Adj) :
    Except Err CellS :=
  let gs1 := if reorder then reorderGroups st.groups else st.groups
  if optimise then
    match optimiseAll oi gs1 (gs1.map (·.id)) with
    | .error e => .error e
    | .ok gs2 => .ok ⟨st.segs, gs2, cache⟩
  else .ok ⟨st.segs, gs1, cache⟩

/-- the model's `call`, laid out in the order of the statements of the method -/
theorem call_eq (oi : List Group → Group → Group) (segs : List Seg) (groups : List Group) (cache : Option Adj)
    (root : Nat) (reorder optimise : Bool) (lim fuel : Nat) :
    call oi ⟨segs, groups, cache⟩ root reorder optimise lim fuel =
      (match getSegment segs root with
       | none => .error .noSegment
       | some s =>
         match rootProx segs lim s root with
         | .error e => .error e
         | .ok segs' =>
           match lim with
           | 0 => .error .recursion
           | lim' + 1 =>
             match sectLoop (cache.getD (adjacency segs)) fuel lim'
                 ⟨segs', (addGroup groups (genName groups.length s.id)).1⟩
                 [(root, some (addGroup groups (genName groups.length s.id)).2)] with
             | .error e => .error e
             | .ok st => postPasses oi reorder optimise st (some (cache.getD (adjacency segs)))) := by
  unfold call run sectionPhase postPasses
  simp only [CellS.st, CellS.ensure]
  cases getSegment segs root with
  | none => rfl
  | some s =>
    simp only
    cases rootProx segs lim s root with
    | error e => rfl
    | ok segs' =>
      simp only
      cases lim with
      | zero => rfl
      | succ lim' =>
        simp only
        cases sectLoop (cache.getD (adjacency segs)) fuel lim'
            ⟨segs', (addGroup groups (genName groups.length s.id)).1⟩
            [(root, some (addGroup groups (genName groups.length s.id)).2)] with
        | error e => rfl
        | ok st =>
          simp only
          cases optimise with
          | false => rfl
          | true =>
            simp only [↓reduceIte]
            cases optimiseAll oi _ _ <;> rfl

/-- the translated passes agree with `postPasses` -/
theorem passes_post (oi : List Group → Group → Group) (f : Nat) (σ : Sigma) :
    AgreesCall (postPasses oi σ.loc.reorder_segment_groups σ.loc.optimise_segment_groups σ.st σ.cache)
      ((block [ifC reorderFlag (block [reorderGroupsP]), ifC optimiseFlag (block [optimiseGroupsP oi])]) f σ) := by
  obtain ⟨R, hR, hspec⟩ := passes_agree oi f σ
  rw [hR]
  unfold postPasses
  cases hro : σ.loc.reorder_segment_groups <;> cases hop : σ.loc.optimise_segment_groups <;>
    simp only [hro, hop, Bool.false_eq_true, ↓reduceIte] at hspec ⊢
  · obtain ⟨σ', h1, h2, h3⟩ := hspec
    exact ⟨σ', h1, by rw [h2]; rfl, h3⟩
  · cases hopt : optimiseAll oi σ.st.groups (σ.st.groups.map (·.id)) with
    | error e => rw [hopt] at hspec; exact hspec
    | ok gs2 =>
      rw [hopt] at hspec
      obtain ⟨σ', h1, h2, h3⟩ := hspec
      exact ⟨σ', h1, by rw [h2]; rfl, h3⟩
  · obtain ⟨σ', h1, h2, h3⟩ := hspec
    exact ⟨σ', h1, by rw [h2]; rfl, h3⟩
  · cases hopt : optimiseAll oi (reorderGroups σ.st.groups) ((reorderGroups σ.st.groups).map (·.id)) with
    | error e => rw [hopt] at hspec; exact hspec
    | ok gs2 =>
      rw [hopt] at hspec
      obtain ⟨σ', h1, h2, h3⟩ := hspec
      exact ⟨σ', h1, by rw [h2]; rfl, h3⟩

/-- **The translated `create_unbranched_segment_group_branches` = the model's `call`**, for every cell object (cache
    included), root, flags, frames; exceptions included. -/
theorem c16_gen_create (oi : List Group → Group → Group) (c : CellS) (root : Nat) (reorder optimise : Bool)
    (lim fuel : Nat) (hne : call oi c root reorder optimise lim fuel ≠ .error .fuel) :
    AgreesCall (call oi c root reorder optimise lim fuel)
      (Gen.Section.create oi fuel (startOf c root reorder optimise lim)) := by
  rw [c16_gen_create_shape]
  obtain ⟨segs, groups, cache⟩ := c
  rw [call_eq] at hne ⊢
  -- the adjacency list the call uses (= the cache it leaves)
  let adj := cache.getD (adjacency segs)
  -- after the first two statements
  let locA : Locals :=
    { root_segment_id := root, reorder_segment_groups := reorder, optimise_segment_groups := optimise, morph_tree := some adj }
  let σa : Sigma := ⟨⟨segs, groups⟩, some adj, lim, locA⟩
  have hpre : ∀ rest : List Cmd, (block (getCachedTree :: ifC morphTreeIsNone (block [computeTree]) :: rest)) fuel
      (startOf ⟨segs, groups, cache⟩ root reorder optimise lim) = block rest fuel σa := by
    intro rest
    rw [block_cons]
    cases cache with
    | none =>
      have : getCachedTree fuel (startOf ⟨segs, groups, none⟩ root reorder optimise lim) =
          .normal { startOf ⟨segs, groups, none⟩ root reorder optimise lim with } := rfl
      rw [this]
      simp only
      rw [block_cons]
      rfl
    | some a =>
      have : getCachedTree fuel (startOf ⟨segs, groups, some a⟩ root reorder optimise lim) = .normal σa := rfl
      rw [this]
      simp only
      rw [block_cons]
      rfl
  rw [hpre, block_cons]
  cases hs : getSegment segs root with
  | none =>
    have : getSegmentRoot fuel σa = .error .noSegment := by simp [getSegmentRoot, σa, locA, hs]
    rw [this]
    exact rfl
  | some s =>
    rw [hs] at hne
    simp only at hne ⊢
    let locB : Locals := { locA with seg := some (root, s) }
    have hgs : getSegmentRoot fuel σa = .normal { σa with loc := locB } := by simp [getSegmentRoot, σa, locA, locB, hs]
    rw [hgs]
    simp only
    rw [block_cons]
    -- the root's proximal
    have hroot : (ifC segProxNoneAndParent (block [setProximalActual])) fuel { σa with loc := locB } =
        (match rootProx segs lim s root with
          | .error e => .error e
          | .ok segs' => .normal { σa with st := ⟨segs', groups⟩, loc := locB }) := by
      unfold rootProx ifC
      by_cases hfix : s.prox = none ∧ s.parent ≠ none
      · have hc : segProxNoneAndParent { σa with loc := locB } = true := by
          obtain ⟨h1, h2⟩ := hfix
          cases hp : s.parent with
          | none => exact absurd hp h2
          | some _ => simp [segProxNoneAndParent, locB, h1, hp]
        rw [if_pos hfix, hc]
        simp only [↓reduceIte]
        rw [block_cons]
        cases hap : actualProximal segs lim s.id with
        | error e => simp [setProximalActual, locB, σa, hap]
        | ok p => simp [setProximalActual, locB, σa, hap, block_nil]
      · have hc : segProxNoneAndParent { σa with loc := locB } = false := by
          cases hp : s.prox with
          | some _ => simp [segProxNoneAndParent, locB, hp]
          | none =>
            cases hq : s.parent with
            | none => simp [segProxNoneAndParent, locB, hq]
            | some _ => exact absurd ⟨hp, by simp [hq]⟩ hfix
        rw [if_neg hfix, hc]
        rfl
    rw [hroot]
    cases hrp : rootProx segs lim s root with
    | error e => exact rfl
    | ok segs' =>
      rw [hrp] at hne
      simp only at hne ⊢
      -- the first group
      let r := addGroup groups (genName groups.length s.id)
      let locC : Locals :=
        { locB with num_seg_groups := groups.length, group_name := genName groups.length s.id, new_seg_group := some r.2 }
      let σc : Sigma := ⟨⟨segs', r.1⟩, some adj, lim, locC⟩
      have hname : ∀ rest : List Cmd, (block (numSegGroups :: groupNameNum :: addUnbranchedNewSegGroup :: rest)) fuel
          { σa with st := ⟨segs', groups⟩, loc := locB } = block rest fuel σc := by
        intro rest
        rfl
      rw [hname, block_cons]
      cases lim with
      | zero => exact rfl
      | succ lim' =>
        simp only at hne ⊢
        -- the state in which `__sectionise` starts
        let locS : Locals := { root_segment_id := root, seg_group := some r.2, morph_tree := some adj }
        let σs : Sigma := ⟨⟨segs', r.1⟩, some adj, lim', locS⟩
        have hsl_ne : sectLoop adj fuel lim' ⟨segs', r.1⟩ [(root, some r.2)] ≠ .error .fuel := by
          intro h
          apply hne
          show (match sectLoop adj fuel lim' ⟨segs', r.1⟩ [(root, some r.2)] with
            | .error e => Except.error e
            | .ok st => postPasses oi reorder optimise st (some adj)) = _
          rw [h]
        have hsec := c16_gen_sectionise adj fuel r.2 σs rfl rfl hsl_ne
        have hcall : callSectionise Gen.Section.sectionise fuel σc =
            (match Gen.Section.sectionise fuel σs with
              | .normal σ' => .normal { σc with st := σ'.st, cache := σ'.cache }
              | .keyError σ' => .keyError { σc with st := σ'.st, cache := σ'.cache }
              | r => r) := rfl
        rw [hcall]
        show AgreesCall (match sectLoop adj fuel lim' ⟨segs', r.1⟩ [(root, some r.2)] with
            | .error e => Except.error e
            | .ok st => postPasses oi reorder optimise st (some adj)) _
        unfold Agrees at hsec
        cases hsl : sectLoop adj fuel lim' ⟨segs', r.1⟩ [(root, some r.2)] with
        | error e =>
          rw [hsl] at hsec
          rw [hsec]
          exact rfl
        | ok st1 =>
          rw [hsl] at hsec
          obtain ⟨σ1, e1, e2, e3⟩ := hsec
          rw [e1]
          simp only
          have := passes_post oi fuel { σc with st := σ1.st, cache := σ1.cache }
          rw [e2, e3] at this ⊢
          exact this

/-- **The property, for the translated method.**  Under the tree-free hypotheses `WfCell` the translated
    `create_unbranched_segment_group_branches` ends normally, and the cell object it leaves (morphology, groups, cached
    adjacency list) satisfies `CallOK` relative to the cell it started from. -/
theorem c16_gen_property {oi : List Group → Group → Group} (hoi : IdPreserving oi) {c : CellS} {root lim fuel k : Nat}
    (W : WfCell c.st c.cache root lim fuel k) (reorder optimise : Bool) :
    ∃ σ' c', Gen.Section.create oi fuel (startOf c root reorder optimise lim) = .normal σ' ∧
      σ'.st = c'.st ∧ σ'.cache = c'.cache ∧ CallOK c root optimise c' := by
  obtain ⟨c', h1, h2⟩ := callOK_of_wfCell hoi W reorder optimise
  have h := c16_gen_create oi c root reorder optimise lim fuel (by rw [h1]; intro e; cases e)
  rw [h1] at h
  obtain ⟨σ', e1, e2, e3⟩ := h
  exact ⟨σ', c', e1, e2, e3, h2⟩

/-! ### the hypotheses are satisfiable, and the translated program really runs -/

/-- root 0 with children 1 (at the end) and 2 (half way, implied proximal); 2 has the single child 3 -/
def gSegs : List Seg :=
  [⟨0, none, some ⟨0, 0, 0, 1⟩, ⟨2, 0, 0, 1⟩⟩, ⟨1, some (0, 1), none, ⟨3, 1, 0, 1⟩⟩, ⟨2, some (0, 1 / 2), none, ⟨1, 2, 0, 1⟩⟩,
   ⟨3, some (2, 1), none, ⟨1, 4, 0, 1⟩⟩]

def gOi : List Group → Group → Group := fun _ g => g

example : call gOi ⟨gSegs, [⟨"all", none, [0, 0], []⟩], none⟩ 0 true true 5 10 ≠ .error .fuel := by decide +kernel

/-- running the TRANSLATED method on that cell: the groups and the cache it leaves -/
example : (match Gen.Section.create gOi 10 (startOf ⟨gSegs, [⟨"all", none, [0, 0], []⟩], none⟩ 0 true true 5) with
      | .normal σ' => some (σ'.st.groups.map (fun g => (g.id, g.members)), σ'.cache)
      | _ => none) =
    some ([("seg_group_1_seg_0", [0]), ("seg_group_1_seg_1", [1]), ("seg_group_2_seg_2", [2, 3]), ("all", [0])],
      some [(0, [1, 2]), (2, [3])]) := by decide +kernel

/-- with too few frames for the implied proximal of segment 2 the translated method raises `RecursionError`, as the
    model does -/
example : (match Gen.Section.create gOi 10 (startOf ⟨gSegs, [], none⟩ 0 false false 1) with
      | .error e => some e
      | _ => none) = some .recursion ∧ call gOi ⟨gSegs, [], none⟩ 0 false false 1 10 = .error .recursion := by
  decide +kernel

/-- a state in which `__sectionise` starts -/
example : sectLoop (adjacency gSegs) 10 4 ⟨gSegs, [⟨"g", none, [], []⟩]⟩ [(0, some 0)] ≠ .error .fuel := by decide +kernel

end NmlVerif.Section
