import NmlVerif.Proofs.FixExternalCells
/-!
# C17 — resolving external morphology/biophysics references embeds independent copies  (tree model)

Model: `NmlVerif.FixExternal.fixExternal` (`Model/FixExternal.lean`) of `neuroml.utils.fix_external_morphs_biophys_in_cell`
on the tree with every accepted repair: both loops run over `all_cells = doc.cells + doc.cell2_ca_poolses`.  The model
is `fixExternalCells` (the function that visits one list; every theorem about it is in `Proofs/FixExternalCells.lean`,
names `cellsOnly_…`) applied to the document with its two cell lists merged (`Doc.merge`), the result taken apart again
(`Doc.unmerge`).  The theorems below are about ALL cells, `doc.cells ++ doc.cells2`.

`doc.Below n`: the document's objects exist when the call starts (identities `< n`); `doc.ids.Nodup`: the document is
a tree.  The object-graph versions are in `Props/C17Graph.lean`.
-/
namespace NmlVerif.FixExternal
open List

/-! ### merging and taking apart -/

theorem Doc.merge_ids (d : Doc) : d.merge.ids = d.ids := by
  simp [Doc.ids, Doc.merge, List.flatMap_append]

theorem Doc.unmerge_ids (k : Nat) (d : Doc) : (d.unmerge k).ids = d.ids := by
  simp only [Doc.ids, Doc.unmerge, List.flatMap_append]
  have : d.cells.flatMap Cell.ids = (d.cells.take k).flatMap Cell.ids ++ (d.cells.drop k).flatMap Cell.ids := by
    rw [← List.flatMap_append, List.take_append_drop]
  rw [this]
  simp [List.append_assoc]

theorem Doc.unmerge_merge (d : Doc) : d.merge.unmerge d.cells.length = d := by
  cases d
  simp [Doc.merge, Doc.unmerge]

theorem Doc.unmerge_all (k : Nat) (d : Doc) (h2 : d.cells2 = []) :
    (d.unmerge k).cells ++ (d.unmerge k).cells2 = d.cells := by
  simp [Doc.unmerge, h2]

theorem Doc.merge_below {d : Doc} {n : Nat} (h : d.Below n) : d.merge.Below n := by
  unfold Doc.Below at *
  rw [Doc.merge_ids]; exact h

theorem Doc.unmerge_shape (k : Nat) (d : Doc) : (d.unmerge k).shape = d.shape.unmerge k := by
  simp [Doc.shape, Doc.unmerge, List.map_take, List.map_drop]

theorem fixExternal_ret_ok {doc : Doc} {ow : Bool} {files : Files} {n : Nat} {doc' : Doc}
    (h : (fixExternal doc ow files n).ret = .ok doc') :
    ∃ dm, (fixExternalCells doc.merge ow files n).ret = .ok dm ∧ doc' = dm.unmerge doc.cells.length := by
  simp only [fixExternal] at h
  cases hr : (fixExternalCells doc.merge ow files n).ret with
  | error e => simp [hr] at h
  | ok dm => simp only [hr, Except.ok.injEq] at h; exact ⟨dm, rfl, h.symm⟩

theorem fixExternal_ret_error {doc : Doc} {ow : Bool} {files : Files} {n : Nat} {e : Err} :
    (fixExternal doc ow files n).ret = .error e ↔ (fixExternalCells doc.merge ow files n).ret = .error e := by
  simp only [fixExternal]
  cases (fixExternalCells doc.merge ow files n).ret <;> simp

theorem fixExternal_ret_of_ok {doc : Doc} {ow : Bool} {files : Files} {n : Nat} {dm : Doc}
    (h : (fixExternalCells doc.merge ow files n).ret = .ok dm) :
    (fixExternal doc ow files n).ret = .ok (dm.unmerge doc.cells.length) := by
  simp only [fixExternal, h]

theorem fixExternal_input (doc : Doc) (ow : Bool) (files : Files) (n : Nat) :
    (fixExternal doc ow files n).input = (fixExternalCells doc.merge ow files n).input.unmerge doc.cells.length := rfl
theorem fixExternal_next (doc : Doc) (ow : Bool) (files : Files) (n : Nat) :
    (fixExternal doc ow files n).next = (fixExternalCells doc.merge ow files n).next := rfl
theorem fixExternal_writes (doc : Doc) (ow : Bool) (files : Files) (n : Nat) :
    (fixExternal doc ow files n).writes = (fixExternalCells doc.merge ow files n).writes := rfl

/-- what a successful in-place call returns, in terms of the merged run -/
theorem merged_result {doc : Doc} {files : Files} {n : Nat} {doc' : Doc}
    (h : (fixExternal doc true files n).ret = .ok doc') :
    ∃ dm, (fixExternalCells doc.merge true files n).ret = .ok dm ∧ doc' = dm.unmerge doc.cells.length ∧
      dm.cells2 = [] ∧ doc'.cells ++ doc'.cells2 = dm.cells := by
  obtain ⟨dm, h1, h2⟩ := fixExternal_ret_ok h
  have h3 : dm.cells2 = [] := (cellsOnly_rest_untouched doc.merge files n dm h1).2.2.2.2.2.1
  exact ⟨dm, h1, h2, h3, by rw [h2]; exact Doc.unmerge_all _ _ h3⟩

/-! ### the property -/

/-- **Embedding.** A successful call (`overwrite=True`) keeps both cell lists in place and resolves every cell of
    `doc.cells` AND of `doc.cell2_ca_poolses`: every reference to a morphology / biophysical-properties element becomes
    an embedded, structurally equal, freshly allocated copy of a definition in the document or a directly included
    file, with the reference attribute cleared; pairs that had an element are untouched. -/
theorem c17_resolved (doc : Doc) (files : Files) (n : Nat) (hb : doc.Below n) (doc' : Doc)
    (h : (fixExternal doc true files n).ret = .ok doc') :
    doc'.cells.length = doc.cells.length ∧ doc'.cells2.length = doc.cells2.length ∧
    ∀ p ∈ (doc.cells ++ doc.cells2).zip (doc'.cells ++ doc'.cells2),
      p.2.oid = p.1.oid ∧ p.2.parent = p.1.parent ∧ p.2.payload = p.1.payload ∧
      Resolved (DefinesM doc files) n p.1.oid p.1.m p.2.m ∧
      Resolved (DefinesB doc files) n p.1.oid p.1.b p.2.b := by
  obtain ⟨dm, h1, h2, h3, h4⟩ := merged_result h
  have ⟨hl, hp⟩ := cellsOnly_resolved doc.merge files n (Doc.merge_below hb) dm h1
  have hl' : dm.cells.length = doc.cells.length + doc.cells2.length := by simpa [Doc.merge] using hl
  refine ⟨by rw [h2]; simp [Doc.unmerge]; omega, by rw [h2]; simp [Doc.unmerge, h3]; omega, ?_⟩
  rw [h4]
  exact hp

/-- **Nothing else changes.** Apart from the two cell lists the returned document is the input document. -/
theorem c17_rest_untouched (doc : Doc) (files : Files) (n : Nat) (doc' : Doc)
    (h : (fixExternal doc true files n).ret = .ok doc') :
    doc'.oid = doc.oid ∧ doc'.payload = doc.payload ∧ doc'.includes = doc.includes ∧ doc'.morphs = doc.morphs ∧
      doc'.bios = doc.bios ∧ doc'.other = doc.other := by
  obtain ⟨dm, h1, h2, _, _⟩ := merged_result h
  have ⟨a1, a2, a3, a4, a5, _, a7⟩ := cellsOnly_rest_untouched doc.merge files n dm h1
  subst h2
  exact ⟨a1, a2, a3, a4, a5, a7⟩

/-- **Cells that already embed the element are left as they are** (same objects; a reference attribute that is set as
    well is kept — this is what the code does). -/
theorem c17_embedded_untouched (doc : Doc) (files : Files) (n : Nat) (hb : doc.Below n) (doc' : Doc)
    (h : (fixExternal doc true files n).ret = .ok doc') :
    ∀ p ∈ (doc.cells ++ doc.cells2).zip (doc'.cells ++ doc'.cells2),
      (p.1.m.elem ≠ none → p.2.m = p.1.m) ∧ (p.1.b.elem ≠ none → p.2.b = p.1.b) := by
  intro p hp
  have ⟨_, _, _, r1, r2⟩ := (c17_resolved doc files n hb doc' h).2.2 p hp
  exact ⟨fun hne => r1.2 (Or.inr hne), fun hne => r2.2 (Or.inr hne)⟩

/-- **Who wins on colliding ids.** If the document itself defines the referenced id, the embedded copy is a copy of the
    document's *last* definition of it, whatever the included files define. -/
theorem c17_local_definition_wins (doc : Doc) (files : Files) (n : Nat) (doc' : Doc)
    (h : (fixExternal doc true files n).ret = .ok doc') :
    ∀ p ∈ (doc.cells ++ doc.cells2).zip (doc'.cells ++ doc'.cells2),
      (∀ a e0, p.1.m.attr = some a → p.1.m.elem = none → lastDef doc.morphs a = some e0 →
        ∃ e', p.2.m.elem = some e' ∧ e'.shape = e0.shape) ∧
      (∀ a e0, p.1.b.attr = some a → p.1.b.elem = none → lastDef doc.bios a = some e0 →
        ∃ e', p.2.b.elem = some e' ∧ e'.shape = e0.shape) := by
  obtain ⟨dm, h1, _, _, h4⟩ := merged_result h
  rw [h4]
  exact cellsOnly_local_definition_wins doc.merge files n dm h1

/-- **Independence.** If the input document is a tree, so is the document after the call (also after a call that
    raised): no object is reachable twice, so no embedded copy shares an object with another cell's copy — of either
    list —, with the element it was copied from, or with anything else; and every object is an object of the input or was
    allocated during the call. -/
theorem c17_independent (doc : Doc) (files : Files) (n : Nat) (hb : doc.Below n) (hnd : doc.ids.Nodup) :
    (fixExternal doc true files n).input.ids.Nodup ∧
      ∀ i ∈ (fixExternal doc true files n).input.ids, i ∈ doc.ids ∨ n ≤ i := by
  rw [fixExternal_input, Doc.unmerge_ids]
  have := cellsOnly_independent doc.merge files n (Doc.merge_below hb) (by rw [Doc.merge_ids]; exact hnd)
  rw [Doc.merge_ids] at this
  exact this

/-- the same, spelled out for the returned document: all cells (both lists) are pairwise disjoint, and disjoint from
    every top-level morphology / biophysical-properties element of the document (the sources of the copies) -/
theorem c17_copies_disjoint (doc : Doc) (files : Files) (n : Nat) (hb : doc.Below n) (hnd : doc.ids.Nodup)
    (doc' : Doc) (h : (fixExternal doc true files n).ret = .ok doc') :
    (doc'.cells ++ doc'.cells2).Pairwise (fun c1 c2 => ∀ i ∈ c1.ids, ∀ j ∈ c2.ids, i ≠ j) ∧
    (∀ c ∈ doc'.cells ++ doc'.cells2, c.ids.Nodup) ∧
    (∀ e ∈ doc'.morphs ++ doc'.bios, ∀ c ∈ doc'.cells ++ doc'.cells2, ∀ i ∈ e.ids, i ∉ c.ids) := by
  obtain ⟨dm, h1, h2, _, h4⟩ := merged_result h
  have := cellsOnly_copies_disjoint doc.merge files n (Doc.merge_below hb) (by rw [Doc.merge_ids]; exact hnd) dm h1
  rw [h4]
  have hm : doc'.morphs = dm.morphs ∧ doc'.bios = dm.bios := by subst h2; exact ⟨rfl, rfl⟩
  rw [hm.1, hm.2]
  exact this

/-- **No stray allocation.** Every object allocated by the substitution loop is part of the document afterwards. -/
theorem c17_no_stray_allocation (doc : Doc) (files : Files) (n : Nat) :
    ∃ lo, n ≤ lo ∧ ∀ i, lo ≤ i → i < (fixExternal doc true files n).next →
      i ∈ (fixExternal doc true files n).input.ids := by
  rw [fixExternal_input, fixExternal_next]
  simp only [Doc.unmerge_ids]
  exact cellsOnly_no_stray_allocation doc.merge files n

/-- some cell — of `doc.cells` or `doc.cell2_ca_poolses` — refers to an id for which neither the document nor a
    directly included file has a definition -/
def DanglingId (doc : Doc) (files : Files) (a : String) : Prop :=
  ∃ c ∈ doc.cells ++ doc.cells2,
    (a ∈ c.m.refs ∧ ¬ ∃ sh, DefinesM doc files a sh) ∨ (a ∈ c.b.refs ∧ ¬ ∃ sh, DefinesB doc files a sh)

theorem danglingId_iff (doc : Doc) (files : Files) (a : String) :
    DanglingId doc files a ↔ DanglingIdCells doc.merge files a := Iff.rfl

/-- **Where the `KeyError` is raised, and in what state** (bug-for-bug; the property only demands the exception): the
    exception carries the first dangling id in the order `doc.cells`, then `doc.cell2_ca_poolses`, morphology before
    biophysics; with `overwrite=True` the cells before it are resolved, the ones after it untouched. -/
theorem c17_keyerror_at_first_dangling (doc : Doc) (files : Files) (n : Nat) (hb : doc.Below n)
    (hr : ∀ inc ∈ doc.includes, (files inc.href).isSome) (pre post : List Cell) (c : Cell)
    (hcells : doc.cells ++ doc.cells2 = pre ++ c :: post)
    (hpre : ∀ x ∈ pre, (∀ a ∈ x.m.refs, ∃ sh, DefinesM doc files a sh) ∧ (∀ a ∈ x.b.refs, ∃ sh, DefinesB doc files a sh))
    (a : String)
    (hc : (a ∈ c.m.refs ∧ ¬ ∃ sh, DefinesM doc files a sh) ∨
      ((∀ a' ∈ c.m.refs, ∃ sh, DefinesM doc files a' sh) ∧ a ∈ c.b.refs ∧ ¬ ∃ sh, DefinesB doc files a sh)) :
    (fixExternal doc true files n).ret = .error (.keyError a) ∧
    ∃ pre' c', (fixExternal doc true files n).input.cells ++ (fixExternal doc true files n).input.cells2 = pre' ++ c' :: post ∧
      pre'.length = pre.length ∧ (∀ x ∈ pre', x.m.refs = [] ∧ x.b.refs = []) := by
  have ⟨e1, pre', c', e2, e3, e4⟩ :=
    cellsOnly_keyerror_at_first_dangling doc.merge files n (Doc.merge_below hb) hr pre post c hcells hpre a hc
  refine ⟨fixExternal_ret_error.mpr e1, pre', c', ?_, e3, e4⟩
  rw [fixExternal_input]
  have h2 : (fixExternalCells doc.merge true files n).input.cells2 = [] := by
    rw [fixExternalCells_true]
    cases ht : lookupTables doc.merge files n with
    | error e => rw [fixInPlace_of_error ht]; rfl
    | ok r => obtain ⟨em, eb, n2⟩ := r; rw [fixInPlace_of_ok ht]; rfl
  rw [Doc.unmerge_all _ _ h2]
  exact e2

theorem retShape_unmerge (doc : Doc) (ow : Bool) (files : Files) (n : Nat) :
    (fixExternal doc ow files n).retShape =
      match (fixExternalCells doc.merge ow files n).retShape with
      | .ok d => .ok (d.unmerge doc.cells.length)
      | .error e => .error e := by
  simp only [Result.retShape, fixExternal]
  cases (fixExternalCells doc.merge ow files n).ret with
  | error e => rfl
  | ok d => simp [Doc.unmerge_shape]

/-- **`overwrite=False`: the returned document equals the one `overwrite=True` produces** — the same exception, or
    documents that are equal up to object identities in every member (`Doc.shape`; this is the bindings' `__eq__`). -/
theorem c17_no_overwrite_equiv (doc : Doc) (files : Files) (n : Nat) :
    (fixExternal doc false files n).retShape = (fixExternal doc true files n).retShape := by
  rw [retShape_unmerge, retShape_unmerge, cellsOnly_no_overwrite_equiv]

/-- **A reference that cannot be resolved raises `KeyError`** (either mode; a reference of a `Cell2CaPools` too) —
    provided every included file can be read. -/
theorem c17_dangling_keyerror (doc : Doc) (files : Files) (n : Nat) (overwrite : Bool) (hb : doc.Below n)
    (hr : ∀ inc ∈ doc.includes, (files inc.href).isSome) (hd : ∃ a, DanglingId doc files a) :
    ∃ a, (fixExternal doc overwrite files n).ret = .error (.keyError a) ∧ DanglingId doc files a := by
  obtain ⟨a, h1, h2⟩ := cellsOnly_dangling_keyerror doc.merge files n overwrite (Doc.merge_below hb) hr hd
  exact ⟨a, fixExternal_ret_error.mpr h1, h2⟩

/-- and conversely: without a dangling reference (and with readable includes) the call succeeds, in either mode -/
theorem c17_succeeds_iff_no_dangling (doc : Doc) (files : Files) (n : Nat) (overwrite : Bool) (hb : doc.Below n)
    (hr : ∀ inc ∈ doc.includes, (files inc.href).isSome) :
    (∃ doc', (fixExternal doc overwrite files n).ret = .ok doc') ↔ ¬ ∃ a, DanglingId doc files a := by
  have := cellsOnly_succeeds_iff_no_dangling doc.merge files n overwrite (Doc.merge_below hb) hr
  constructor
  · rintro ⟨doc', h⟩
    obtain ⟨dm, h1, _⟩ := fixExternal_ret_ok h
    exact this.mp ⟨dm, h1⟩
  · intro hn
    obtain ⟨dm, h1⟩ := this.mpr hn
    exact ⟨_, fixExternal_ret_of_ok h1⟩

/-- an include that cannot be read stops the call (`sys.exit()` in the loader) before anything is modified -/
theorem c17_unreadable_include (doc : Doc) (files : Files) (n : Nat)
    (h : ∃ inc ∈ doc.includes, files inc.href = none) :
    (∃ inc ∈ doc.includes, files inc.href = none ∧
      (fixExternal doc true files n).ret = .error (.includeUnreadable inc.href)) ∧
    (fixExternal doc true files n).input = doc ∧ (fixExternal doc true files n).writes = [] := by
  have ⟨⟨inc, i1, i2, i3⟩, h2, h3⟩ := cellsOnly_unreadable_include doc.merge files n h
  refine ⟨⟨inc, i1, i2, fixExternal_ret_error.mpr i3⟩, ?_, h3⟩
  rw [fixExternal_input, h2, Doc.unmerge_merge]

/-- **`overwrite=False` leaves the document passed in unchanged**: every attribute assignment of the call went to an
    object allocated during the call — never to an object of the input. -/
theorem c17_no_overwrite_frame (doc : Doc) (files : Files) (n : Nat) (hb : doc.Below n) :
    (fixExternal doc false files n).input = doc ∧
      ∀ w ∈ (fixExternal doc false files n).writes, n ≤ w ∧ w ∉ doc.ids := by
  have ⟨h1, h2⟩ := cellsOnly_no_overwrite_frame doc.merge files n (Doc.merge_below hb)
  refine ⟨by rw [fixExternal_input, h1, Doc.unmerge_merge], ?_⟩
  rw [Doc.merge_ids] at h2
  exact h2

/-- with `overwrite=True` the assignments go to cells of the document passed in (either list), and to nothing else -/
theorem c17_overwrite_frame (doc : Doc) (files : Files) (n : Nat) :
    ∀ w ∈ (fixExternal doc true files n).writes, w ∈ (doc.cells ++ doc.cells2).map Cell.oid :=
  cellsOnly_overwrite_frame doc.merge files n

/-- the document returned with `overwrite=False` consists of new objects only and is a tree -/
theorem c17_no_overwrite_fresh (doc : Doc) (files : Files) (n : Nat) (doc' : Doc)
    (h : (fixExternal doc false files n).ret = .ok doc') :
    (∀ i ∈ doc'.ids, n ≤ i) ∧ doc'.ids.Nodup := by
  obtain ⟨dm, h1, h2⟩ := fixExternal_ret_ok h
  have := cellsOnly_no_overwrite_fresh doc.merge files n dm h1
  rw [h2, Doc.unmerge_ids]
  exact this

/-! ### `cell2_ca_poolses` — finding `C17:cell2capools-not-resolved`, repaired by
`fixes/C17-cell2capools-resolved.patch` -/

/-- FULL statement: after a successful call no cell of *either* list is left with a reference to resolve -/
def c17_every_cell_full : Prop :=
  ∀ (doc : Doc) (files : Files) (n : Nat) (doc' : Doc),
    (fixExternal doc true files n).ret = .ok doc' →
    ∀ c ∈ doc'.cells ++ doc'.cells2, c.m.refs = [] ∧ c.b.refs = []

/-- the full statement holds of the repaired function -/
theorem c17_every_cell : c17_every_cell_full := by
  intro doc files n doc' h
  obtain ⟨dm, h1, _, h3, h4⟩ := merged_result h
  have := cellsOnly_every_cell_partial doc.merge files n dm (by simp [Doc.merge]) h1
  rw [h4]
  intro c hc
  exact this c (by simp [h3, hc])

/-- … and did not hold of the function that visited `doc.cells` only (the shape before the repair) -/
theorem c17_every_cell_unrepaired_witness : ¬ cellsOnly_every_cell_full := cellsOnly_every_cell_witness

/-! ### the hypotheses are satisfiable, the conclusions are not vacuous -/

/-- `exDoc` of `Proofs/FixExternalCells.lean` (two cells share one morphology reference, a third embeds its own; an
    included file defines the biophysics) plus a `Cell2CaPools` that refers to both -/
def exDoc2 : Doc := { exDoc with cells2 := [⟨20, none, "Cell2CaPools cc", ⟨some "m1", none⟩, ⟨some "b1", none⟩⟩] }

example : exDoc2.Below 21 := by unfold Doc.Below; decide
example : exDoc2.ids.Nodup := by decide
example : ∀ inc ∈ exDoc2.includes, (exFiles inc.href).isSome := by decide
example : ∃ doc', (fixExternal exDoc2 true exFiles 21).ret = .ok doc' := ⟨_, rfl⟩
example : ∃ doc', (fixExternal exDoc2 false exFiles 21).ret = .ok doc' := ⟨_, rfl⟩
/-- the `Cell2CaPools` is resolved as well, with copies of its own -/
example : (fixExternal exDoc2 true exFiles 21).input.cells2.map (fun c => (c.m.attr, c.b.attr, c.ids.length)) =
    [(none, none, 5)] := by decide
example : (fixExternal exDoc2 true exFiles 21).writes = [5, 5, 6, 20, 20] := by decide
example : (fixExternal exDoc2 false exFiles 21).writes.all (· ≥ 21) = true := by decide
example : (fixExternal exDoc2 false exFiles 21).input = exDoc2 :=
  (c17_no_overwrite_frame exDoc2 exFiles 21 (by unfold Doc.Below; decide)).1
/-- a dangling reference in a `Cell2CaPools` raises `KeyError` -/
example : (fixExternal { exDoc with cells2 := [⟨20, none, "cc", ⟨some "nope", none⟩, ⟨none, none⟩⟩] } true exFiles 21).ret =
    .error (.keyError "nope") := rfl
example : DanglingId { exDoc with cells2 := [⟨20, none, "cc", ⟨some "nope", none⟩, ⟨none, none⟩⟩] } exFiles "nope" := by
  refine ⟨⟨20, none, "cc", ⟨some "nope", none⟩, ⟨none, none⟩⟩, by simp, Or.inl ⟨by simp [Slot.refs], ?_⟩⟩
  rintro ⟨sh, hd⟩
  rcases hd with ⟨e, he, hid, _⟩ | ⟨inc, hinc, fd, hf, e, he, hid, _⟩
  · simp [exDoc] at he; subst he; simp at hid
  · simp [exDoc] at hinc; subst hinc
    simp [exFiles] at hf; subst hf
    simp at he; subst he; simp at hid

end NmlVerif.FixExternal
