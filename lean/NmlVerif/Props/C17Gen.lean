import NmlVerif.Gen.FixExternal
import NmlVerif.Proofs.FixIR
import NmlVerif.Props.C17Graph
/-!
# C17 — the program generated from `neuroml/utils.py` computes what the hand model computes

`Gen/FixExternal.lean` is written by `translators/py2lean_fixexternal.py` on every run from the current text of
`fix_external_morphs_biophys_in_cell` and `_deepcopy_into`.  Here:

* `gen_fix_eq_hand`, `gen_deepcopyInto_eq_hand`: the generated terms are, syntactically, the reference programs
  `Hand.fix` / `Hand.deepcopyInto` written out in named pieces in `Proofs/FixIR.lean` (so a change of the source
  shows as a failure of these `rfl`s);
* `c17gen_fix_eq`: running the program on any heap, document and `overwrite` gives exactly the result of the hand model
  `FixExternalH.fixExternal` (heap, returned value or exception, record of copies, allocation count).
-/
namespace NmlVerif.FixIR
open NmlVerif.PyHeap NmlVerif.FixExternalH

/-- the generated `_deepcopy_into` is the reference program -/
theorem gen_deepcopyInto_eq_hand : Gen.FixExternal.deepcopyInto = Hand.deepcopyInto := rfl

/-- the generated `fix_external_morphs_biophys_in_cell` is the reference program -/
theorem gen_fix_eq_hand : Gen.FixExternal.fix = Hand.fix := rfl

/-- signature: `(nml2_doc, overwrite=True)` and `(element, new_parent)` -/
theorem gen_signatures :
    Gen.FixExternal.fixParams = ["nml2_doc", "overwrite"] ∧ Gen.FixExternal.fixOverwriteDefault = true ∧
    Gen.FixExternal.deepcopyIntoParams = ["element", "new_parent"] := ⟨rfl, rfl, rfl⟩

/-- **The program generated from the source computes the hand model.**  For every heap (any object graph), document,
    `overwrite` and file system: running the translation of `fix_external_morphs_biophys_in_cell` (with the translation
    of `_deepcopy_into` as callee) gives the final heap, the returned value or exception, the record of embedded
    copies and the allocation count of `FixExternalH.fixExternal`. -/
theorem c17gen_fix_eq (files : Files) (h : Heap) (doc : Val) (ow : Bool) :
    runFix (Gen.FixExternal.fix files) h doc ow = FixExternalH.fixExternal files h doc ow := by
  rw [gen_fix_eq_hand]
  exact hand_fix_run files h doc ow

/-! ### the graph theorems, said of the program that was translated from the source -/

/-- `overwrite=False`: the translated program leaves every object that existed unchanged (identity and content) -/
theorem c17gen_no_overwrite_input_unchanged (files : Files) (h : Heap) (doc : Val) :
    ∀ i, i < h.length → (runFix (Gen.FixExternal.fix files) h doc false).heap[i]? = h[i]? := by
  rw [c17gen_fix_eq]
  exact c17g_no_overwrite_input_unchanged files h doc

/-- `overwrite=True`: the translated program assigns only the four attributes of members of `doc.cells` -/
theorem c17gen_overwrite_frame (files : Files) (h : Heap) (hwf : WF h) (d : Nat) (hd : d < h.length) :
    Frame (allCells h (Val.ref d)) h (runFix (Gen.FixExternal.fix files) h (Val.ref d) true).heap := by
  rw [c17gen_fix_eq]
  exact c17g_overwrite_frame files h hwf d hd

/-- the copies the translated program embeds are new, pairwise disjoint and closed (either mode) -/
theorem c17gen_copies_independent (files : Files) (h : Heap) (hwf : WF h) (d : Nat) (hd : d < h.length) (ow : Bool) :
    CopiesIndependent h.length (runFix (Gen.FixExternal.fix files) h (Val.ref d) ow).heap
      (runFix (Gen.FixExternal.fix files) h (Val.ref d) ow).copies := by
  rw [c17gen_fix_eq]
  cases ow with
  | true => exact c17g_copies_independent_overwrite files h hwf d hd
  | false => exact c17g_copies_independent_no_overwrite files h (Val.ref d)

/-- the translated program on the example graph of `Props/C17Graph.lean` -/
example : (runFix (Gen.FixExternal.fix noFiles) exHeap (.ref 0) true).copies =
    [⟨.ref 4, .ref 6, 10, 10, 15⟩, ⟨.ref 5, .ref 6, 15, 15, 20⟩] := by
  rw [c17gen_fix_eq]; decide

end NmlVerif.FixIR
