import NmlVerif.Proofs.FixExternalH
/-!
# C17 on object GRAPHS — `copy.deepcopy` with its memo, `_deepcopy_into`, `fix_external_morphs_biophys_in_cell`

Model: `NmlVerif.PyHeap` (`Model/PyHeap.lean`: heap of objects, identity = index, references in fields, memoised
`deepcopy`) and `NmlVerif.FixExternalH.fixExternal` (`Model/FixExternalH.lean`).  The model is (a) proved equal to the
program that `translators/py2lean_fixexternal.py` generates from `neuroml/utils.py` on every run
(`Props/C17Gen.lean`, `c17gen_fix_eq`) and (b) compared with the real function on generated object graphs
(`harness/props/c17.py`, stream `fix-heap`: every object, list, back reference and shared sub-object, and the number of
objects each `deepcopy` call allocates).

Nothing is assumed about the shape of the graph: objects may be shared (one `Morphology` in two places, one
`gds_collector_` for a whole document), cyclic (`parent_object_`), and a cell may be listed twice.
`WF h` (no dangling reference) is assumed only where the statement needs the objects to exist.
-/
namespace NmlVerif.FixExternalH
open NmlVerif.PyHeap List

/-! ### `copy.deepcopy(x, memo)` -/

/-- **deepcopy terminates** on every heap without dangling references, cyclic or not, whatever the memo holds. -/
theorem c17g_deepcopy_total {h : Heap} (hwf : WF h) (memo0 : Memo) {x : Nat} (hx : x < h.length) :
    ∃ c, deepcopy h memo0 x = some c := deepcopy_total hwf memo0 hx

/-- **deepcopy does not touch its source**: every object that existed is the same object with the same content. -/
theorem c17g_deepcopy_source_untouched {h : Heap} {memo0 : Memo} {x : Nat} {c : Copied}
    (hc : deepcopy h memo0 x = some c) :
    h.length ≤ c.heap.length ∧ ∀ i, i < h.length → c.heap[i]? = h[i]? := by
  obtain ⟨order, s⟩ := deepcopy_spec hc
  exact ⟨by rw [s.length]; omega, s.frame⟩

/-- **The copy is equal to the original as a graph.**  The final memo maps `x` to the returned object, keeps what
    the caller put in, and every new object is the copy of exactly one source object: it has the source's class and
    fields with every reference translated through the memo, all of which the memo knows.  Hence an object that is
    referred to from two places in the original is referred to from the same two places in the copy (the memo is a
    function): aliases inside one copy are preserved. -/
theorem c17g_deepcopy_isomorphic {h : Heap} {memo0 : Memo} {x : Nat} {c : Copied}
    (hc : deepcopy h memo0 x = some c) :
    Memo.get? c.memo x = some c.root ∧
    (∀ a b, Memo.get? memo0 a = some b → Memo.get? c.memo a = some b) ∧
    ∀ y, h.length ≤ y → y < c.heap.length →
      ∃ z nd, h[z]? = some nd ∧ Memo.get? c.memo z = some y ∧ c.heap[y]? = some (mapNode c.memo nd) ∧
        ∀ r ∈ nd.refs, ∃ y', Memo.get? c.memo r = some y' := by
  obtain ⟨order, s⟩ := deepcopy_spec hc
  refine ⟨s.root, fun a b hab => s.memo0_kept hab, ?_⟩
  intro y h1 h2
  obtain ⟨z, hz, hg⟩ := s.new_is_copy h1 h2
  obtain ⟨k, nd, _, hg', hnd, hcp, _⟩ := s.copy_of hz
  rw [hg] at hg'
  simp only [Option.some.injEq] at hg'
  exact ⟨z, nd, hnd, hg, by rw [hg']; exact hcp, s.closed z hz nd hnd⟩

/-- **Distinct objects have distinct copies** (aliasing is not introduced either): two sources mapped to the same
    new object are the same source — for every memo whose pre-set values are old objects (`{}` and
    `{id(old_parent): new_parent}` are). -/
theorem c17g_deepcopy_no_new_aliases {h : Heap} {memo0 : Memo} {x : Nat} {c : Copied}
    (hc : deepcopy h memo0 x = some c) (hm0 : ∀ a b, Memo.get? memo0 a = some b → b < h.length)
    {z1 z2 y : Nat} (hy : h.length ≤ y) (g1 : Memo.get? c.memo z1 = some y) (g2 : Memo.get? c.memo z2 = some y) :
    z1 = z2 := by
  obtain ⟨order, s⟩ := deepcopy_spec hc
  have m1 : z1 ∈ order := by
    rcases s.memo_values g1 with ⟨_, _, h3⟩ | ⟨_, h0⟩
    · exact h3
    · have := hm0 z1 y h0; omega
  have m2 : z2 ∈ order := by
    rcases s.memo_values g2 with ⟨_, _, h3⟩ | ⟨_, h0⟩
    · exact h3
    · have := hm0 z2 y h0; omega
  exact s.injective m1 m2 g1 g2

/-- **The copy never shares with its source**: a reference held by a new object goes to a new object, or to an
    object the caller pre-set in the memo (with `memo = {}`: to new objects only). -/
theorem c17g_deepcopy_no_sharing {h : Heap} {memo0 : Memo} {x : Nat} {c : Copied}
    (hc : deepcopy h memo0 x = some c) {y : Nat} (hy : h.length ≤ y) {nd' : Node} (hnd : c.heap[y]? = some nd')
    {r : Nat} (hr : r ∈ nd'.refs) :
    (h.length ≤ r ∧ r < c.heap.length) ∨ ∃ a, Memo.get? memo0 a = some r := by
  obtain ⟨order, s⟩ := deepcopy_spec hc
  exact s.new_refs hy hnd hr

/-! ### `_deepcopy_into(element, new_parent)` -/

/-- the repaired copy: a reference held by an object of the copy goes to the copy or to the new parent — never to the
    document the element came from, nor to anything else that existed -/
theorem c17g_deepcopy_into_closed {h : Heap} {element np : Val} {c : Copied}
    (hc : deepcopyInto h element np = some c) {y : Nat} (hy : h.length ≤ y) {nd' : Node}
    (hnd : c.heap[y]? = some nd') {r : Nat} (hr : r ∈ nd'.refs) :
    (h.length ≤ r ∧ r < c.heap.length) ∨ np = Val.ref r := by
  obtain ⟨x, order, _, s⟩ := deepcopyInto_spec hc
  rcases s.new_refs hy hnd hr with h1 | ⟨a, ha⟩
  · exact Or.inl h1
  · exact Or.inr (toMemo_get ha)

/-! ### `fix_external_morphs_biophys_in_cell` -/

/-- **`overwrite=False` leaves the document passed in unchanged — by identity and by deep value.**  For every heap
    (any graph), every document and every file system, whatever the outcome (returned document, `KeyError`,
    unreadable include): every object that existed before the call — the document, each of its lists, each cell,
    each element, everything reachable or not — is afterwards the same object with the same class and the same
    fields.  No member is re-bound, no list replaced, nothing appended. -/
theorem c17g_no_overwrite_input_unchanged (files : Files) (h : Heap) (doc : Val) :
    ∀ i, i < h.length → (fixExternal files h doc false).heap[i]? = h[i]? := by
  intro i hi
  unfold fixExternal
  simp only [Bool.false_eq_true, ↓reduceIte]
  cases doc with
  | none => rfl
  | prim s => rfl
  | ref x =>
    simp only
    cases hd : deepcopy h [] x with
    | none => rfl
    | some c =>
      simp only
      obtain ⟨order, s⟩ := deepcopy_spec hd
      have hnew := copy_allCells_new s
      obtain ⟨hs, hext, hfr, _⟩ := fixInPlace_spec files c.heap (Val.ref c.root) (fun i hi => (hnew i hi).2)
      have hlen : h.length ≤ c.heap.length := by rw [s.length]; omega
      have hi2 : i < c.heap.length := Nat.lt_of_lt_of_le hi hlen
      have hnc : Val.ref i ∉ allCells c.heap (Val.ref c.root) := by
        intro hm
        have := (hnew i hm).1
        omega
      rw [hfr.other i (Nat.lt_of_lt_of_le hi2 hext.len) hnc, hext.get hi2, s.frame i hi]

/-- with `overwrite=False` the returned document is a new object -/
theorem c17g_no_overwrite_returns_new (files : Files) (h : Heap) (doc v : Val)
    (hr : (fixExternal files h doc false).ret = .ok v) : ∃ r, v = Val.ref r ∧ h.length ≤ r := by
  unfold fixExternal at hr
  simp only [Bool.false_eq_true, ↓reduceIte] at hr
  cases doc with
  | none => simp at hr
  | prim s => simp at hr
  | ref x =>
    simp only at hr
    cases hd : deepcopy h [] x with
    | none => simp [hd] at hr
    | some c =>
      simp only [hd] at hr
      obtain ⟨order, s⟩ := deepcopy_spec hd
      have hv : v = Val.ref c.root := by
        unfold fixInPlace at hr
        simp only at hr
        split at hr
        · simp at hr
        · split at hr
          · simp only [Except.ok.injEq] at hr; exact hr.symm
          · simp at hr
      exact ⟨c.root, hv, (s.values_new s.root).1⟩

/-- **`overwrite=True` assigns to cells only (members of `doc.cells` or `doc.cell2_ca_poolses`), and only the four
    attributes.**  On a heap without dangling references: an object that is not such a member is untouched (same
    object, same content);
    a cell keeps its class and every attribute other than `morphology_attr`, `morphology`,
    `biophysical_properties_attr`, `biophysical_properties`; nothing is deleted. -/
theorem c17g_overwrite_frame (files : Files) (h : Heap) (hwf : WF h) (d : Nat) (hd : d < h.length) :
    Frame (allCells h (Val.ref d)) h (fixExternal files h (Val.ref d) true).heap := by
  unfold fixExternal
  simp only [↓reduceIte]
  obtain ⟨hs, hext, hfr, _⟩ := fixInPlace_spec files h (Val.ref d) (allCells_range_of_wf hwf hd)
  exact (Frame.of_ext _ hext).trans hfr

/-- the copies made by a call: where they are, that they follow each other, that each is closed -/
structure CopiesIndependent (n0 : Nat) (h' : Heap) (copies : List CopyEv) : Prop where
  /-- every copy consists of objects allocated during the call -/
  fresh : ∀ ev ∈ copies, n0 ≤ ev.lo ∧ ev.lo ≤ ev.hi ∧ ev.hi ≤ h'.length
  /-- the copies occupy consecutive, pairwise disjoint ranges of identities -/
  disjoint : copies.Pairwise (fun a b => a.hi ≤ b.lo)
  /-- a reference held by an object of a copy goes to that same copy, or to the cell it is embedded in -/
  closed : ∀ ev ∈ copies, EvClosed h' ev

/-- **Independence on graphs.**  Every embedded copy made by the call (either mode) consists of objects allocated
    during the call; two copies have no object in common; and no object of a copy refers to anything but objects of
    that same copy and the cell the copy was embedded in — not to the referenced element, not to the document it
    came from, not to another cell's copy. -/
theorem c17g_copies_independent_overwrite (files : Files) (h : Heap) (hwf : WF h) (d : Nat) (hd : d < h.length) :
    CopiesIndependent h.length (fixExternal files h (Val.ref d) true).heap (fixExternal files h (Val.ref d) true).copies := by
  unfold fixExternal
  simp only [↓reduceIte]
  obtain ⟨hs, hext, _, hev⟩ := fixInPlace_spec files h (Val.ref d) (allCells_range_of_wf hwf hd)
  exact ⟨fun ev he => ⟨Nat.le_trans hext.len (hev.range ev he).1, (hev.range ev he).2⟩, hev.sorted, hev.closed⟩

theorem c17g_copies_independent_no_overwrite (files : Files) (h : Heap) (doc : Val) :
    CopiesIndependent h.length (fixExternal files h doc false).heap (fixExternal files h doc false).copies := by
  unfold fixExternal
  simp only [Bool.false_eq_true, ↓reduceIte]
  cases doc with
  | none => exact ⟨by simp, by simp, by simp⟩
  | prim s => exact ⟨by simp, by simp, by simp⟩
  | ref x =>
    simp only
    cases hd : deepcopy h [] x with
    | none => exact ⟨by simp, by simp, by simp⟩
    | some c =>
      simp only
      obtain ⟨order, s⟩ := deepcopy_spec hd
      have hnew := copy_allCells_new s
      obtain ⟨hs, hext, _, hev⟩ := fixInPlace_spec files c.heap (Val.ref c.root) (fun i hi => (hnew i hi).2)
      have hlen : h.length ≤ c.heap.length := by rw [s.length]; omega
      exact ⟨fun ev he => ⟨Nat.le_trans hlen (Nat.le_trans hext.len (hev.range ev he).1), (hev.range ev he).2⟩,
        hev.sorted, hev.closed⟩

/-- reachability that does not pass through the object `stop` -/
inductive ReachAvoid (h : Heap) (stop : Val) : Nat → Nat → Prop where
  | refl (a : Nat) : ReachAvoid h stop a a
  | step {a b r : Nat} {nd : Node} : ReachAvoid h stop a b → h[b]? = some nd → r ∈ nd.refs → Val.ref r ≠ stop →
      ReachAvoid h stop a r

/-- what `closed` means: everything that can be reached from an object of an embedded copy without going through the
    cell is an object of that copy — so nothing that existed before, and nothing of another copy, is reachable -/
theorem c17g_reachable_stays_in_copy {h' : Heap} {ev : CopyEv} (hcl : EvClosed h' ev) {a b : Nat}
    (ha : ev.lo ≤ a ∧ a < ev.hi) (hr : ReachAvoid h' ev.cell a b) : ev.lo ≤ b ∧ b < ev.hi := by
  induction hr with
  | refl => exact ha
  | step _ hnd hmem hne ih =>
    rcases hcl _ ih.1 ih.2 _ hnd _ hmem with h1 | h1
    · exact h1
    · exact absurd h1.symm hne

/-- two copies share no object -/
theorem c17g_copies_disjoint {n0 : Nat} {h' : Heap} {copies : List CopyEv} (ci : CopiesIndependent n0 h' copies)
    {i j : Nat} (hij : i < j) (hj : j < copies.length) {y : Nat}
    (h1 : copies[i].lo ≤ y ∧ y < copies[i].hi) : ¬ (copies[j].lo ≤ y ∧ y < copies[j].hi) := by
  have := (List.pairwise_iff_getElem.mp ci.disjoint) i j (by omega) hj hij
  omega

/-! ### the hypotheses are satisfiable, the conclusions are not vacuous

A document read from a file, as a graph: every object points back to its container, all share one collector (object 9),
the empty list 3 is held by three objects, cell 4 is listed twice in `doc.cells`, the morphology's list holds the
same segment (object 8) twice. -/

def exHeap : Heap := [
  ⟨"NeuroMLDocument", [("gds_collector_", .ref 9), ("cells", .ref 1), ("morphology", .ref 2), ("includes", .ref 3),
                       ("biophysical_properties", .ref 3)]⟩,
  ⟨"list", [("", .ref 4), ("", .ref 5), ("", .ref 4)]⟩,
  ⟨"list", [("", .ref 6)]⟩,
  ⟨"list", []⟩,
  ⟨"Cell", [("gds_collector_", .ref 9), ("parent_object_", .ref 0), ("id", .prim "s:c0"), ("morphology_attr", .prim "s:m1"),
            ("morphology", .none), ("biophysical_properties_attr", .none), ("biophysical_properties", .none)]⟩,
  ⟨"Cell", [("gds_collector_", .ref 9), ("parent_object_", .ref 0), ("id", .prim "s:c1"), ("morphology_attr", .prim "s:m1"),
            ("morphology", .none), ("biophysical_properties_attr", .none), ("biophysical_properties", .none)]⟩,
  ⟨"Morphology", [("gds_collector_", .ref 9), ("parent_object_", .ref 0), ("id", .prim "s:m1"), ("segments", .ref 7)]⟩,
  ⟨"list", [("", .ref 8), ("", .ref 8)]⟩,
  ⟨"Segment", [("gds_collector_", .ref 9), ("parent_object_", .ref 6), ("id", .prim "i:0")]⟩,
  ⟨"GdsCollector", [("messages", .ref 3)]⟩]

def noFiles : Files := fun _ => none

example : WF exHeap := by unfold WF; decide
example : (10 : Nat) = exHeap.length := rfl
/-- deepcopy of the cyclic, shared morphology into cell 4: five new objects (morphology, collector, the collector's
    list, the segment list, ONE segment), the back reference redirected to the cell -/
example : (deepcopyInto exHeap (.ref 6) (.ref 4)).map (fun c => (c.root, c.heap.length, c.heap.drop 10)) =
    some (10, 15, [
      ⟨"Morphology", [("gds_collector_", .ref 11), ("parent_object_", .ref 4), ("id", .prim "s:m1"), ("segments", .ref 13)]⟩,
      ⟨"GdsCollector", [("messages", .ref 12)]⟩,
      ⟨"list", []⟩,
      ⟨"list", [("", .ref 14), ("", .ref 14)]⟩,
      ⟨"Segment", [("gds_collector_", .ref 11), ("parent_object_", .ref 10), ("id", .prim "i:0")]⟩]) := by decide
/-- the whole function, in place: two copies (cell 4 is visited twice but resolved once), ranges 10-15 and 15-20 -/
example : (fixExternal noFiles exHeap (.ref 0) true).copies =
    [⟨.ref 4, .ref 6, 10, 10, 15⟩, ⟨.ref 5, .ref 6, 15, 15, 20⟩] := by decide
example : (fixExternal noFiles exHeap (.ref 0) true).ret = .ok (.ref 0) := by rfl
example : getattr (fixExternal noFiles exHeap (.ref 0) true).heap 4 "morphology" = .ref 10 ∧
    getattr (fixExternal noFiles exHeap (.ref 0) true).heap 4 "morphology_attr" = .none ∧
    getattr (fixExternal noFiles exHeap (.ref 0) true).heap 5 "morphology" = .ref 15 := by decide
/-- `overwrite=False`: the document is copied first (10 objects: the shared list and the collector once each), the
    copies hang off the new cells, the returned document is object 10 -/
example : (fixExternal noFiles exHeap (.ref 0) false).ret = .ok (.ref 10) := by rfl
example : (fixExternal noFiles exHeap (.ref 0) false).docCopy = 10 ∧
    (fixExternal noFiles exHeap (.ref 0) false).copies.map (fun e => (e.cell, e.lo, e.hi)) =
      [(.ref 14, 20, 25), (.ref 15, 25, 30)] := by decide
example : (fixExternal noFiles exHeap (.ref 0) false).heap.take 10 = exHeap := by decide
/-- a dangling reference: KeyError with the missing key -/
example : (fixExternal noFiles (exHeap.set 5 ⟨"Cell", [("morphology_attr", .prim "s:nope"), ("morphology", .none)]⟩) (.ref 0) true).ret =
    .error (.keyError (.prim "s:nope")) := by rfl
/-- a `Cell2CaPools` (kept in `doc.cell2_ca_poolses`) is visited after the cells of `doc.cells` (regression for
    `C17:cell2capools-not-resolved`): three copies, the third for object 11 -/
def exHeap2 : Heap :=
  (exHeap.set 0 ⟨"NeuroMLDocument", [("gds_collector_", .ref 9), ("cells", .ref 1), ("cell2_ca_poolses", .ref 10),
      ("morphology", .ref 2), ("includes", .ref 3), ("biophysical_properties", .ref 3)]⟩) ++
  [⟨"list", [("", .ref 11)]⟩,
   ⟨"Cell2CaPools", [("parent_object_", .ref 0), ("id", .prim "s:cc"), ("morphology_attr", .prim "s:m1"),
                     ("morphology", .none), ("biophysical_properties_attr", .none), ("biophysical_properties", .none)]⟩]

example : WF exHeap2 := by unfold WF; decide
example : allCells exHeap2 (.ref 0) = [.ref 4, .ref 5, .ref 4, .ref 11] := by decide
example : (fixExternal noFiles exHeap2 (.ref 0) true).copies.map (fun e => (e.cell, e.lo, e.hi)) =
    [(.ref 4, 12, 17), (.ref 5, 17, 22), (.ref 11, 22, 27)] := by decide
example : getattr (fixExternal noFiles exHeap2 (.ref 0) true).heap 11 "morphology" = .ref 22 ∧
    getattr (fixExternal noFiles exHeap2 (.ref 0) true).heap 11 "morphology_attr" = .none := by decide

/-- ids are compared with their type: the number 5 is not the text "5" -/
example : (Val.prim "i:5" ∈ [Val.prim "s:5"]) = False := by simp

end NmlVerif.FixExternalH
