import NmlVerif.Proofs.ArrayMorph
/-!
# C18 — array morphologies survive their file format; their views agree with the arrays

Model: `NmlVerif.ArrayMorph` (`Model/ArrayMorph.lean`), tied to `neuroml/arraymorph.py`, `ArrayMorphWriter`
(`neuroml/writers.py`) and `ArrayMorphLoader` (`neuroml/loaders.py`) by the correspondence check
`harness/props/c18.py` (generated arrays and documents, real library vs `Drivers/C18.lean`).

Vocabulary (defined in `Proofs/ArrayMorph.lean`):
* `IsTree c r`  — the connectivity array `c` has `-1` at `r`, a valid index everywhere else, and following
  parents terminates (a rank function exists): any tree shape, any vertex numbering.
* `Valid a r`   — equal array lengths, mask all false (no floating vertices), `IsTree a.conn r`.
* `EdgeL c u v` — `{u, v}` is an (undirected) edge of the array.
* `topNames d`, `docArrs d` — the top-level group names the writer uses for a document / its array triples.
-/
namespace NmlVerif.ArrayMorph

/-! ## re-rooting -/

/-- **`to_root`, every tree, every new root.** The loop as written (prefetched parent / grandparent, in-place
    writes, reads through index `-1`) terminates within the model's fuel, touches neither vertices nor mask,
    and returns a connectivity array that is again a tree (`IsTree … j`: its one and only `-1` is at the new
    root `j`) with exactly the same undirected edges. The old root `r` is arbitrary, so the statement also
    covers repeated re-rooting. -/
theorem c18_toRoot (a : Arr) (r j : Nat) (h : IsTree a.conn r) (hj : j < a.conn.length) :
    ∃ c', toRoot a (j : Int) = .ok { a with conn := c' } ∧ c'.length = a.conn.length ∧ IsTree c' j ∧
      ∀ u v, EdgeL c' u v ↔ EdgeL a.conn u v :=
  toRootFuel_spec a r j h hj

/-- exactly one root after re-rooting, and it is the new root -/
theorem c18_toRoot_one_root (a : Arr) (r j : Nat) (h : IsTree a.conn r) (hj : j < a.conn.length) :
    ∃ a', toRoot a (j : Int) = .ok a' ∧ a'.vertices = a.vertices ∧ a'.mask = a.mask ∧
      ∀ v, a'.conn[v]? = some (-1) ↔ v = j := by
  obtain ⟨c', h1, _, h3, _⟩ := c18_toRoot a r j h hj
  refine ⟨_, h1, rfl, rfl, ?_⟩
  intro v
  constructor
  · intro hv
    apply Classical.byContradiction
    intro hne
    have := (h3.parent v (-1) hv hne).1
    omega
  · intro e; subst e; exact h3.root

/-- a tree's root is unique, so `IsTree c r` really says "exactly one root" -/
theorem c18_root_unique (c : List Int) (r : Nat) (h : IsTree c r) (v : Nat) : c[v]? = some (-1) ↔ v = r := by
  constructor
  · intro hv
    apply Classical.byContradiction
    intro hne
    have := (h.parent v (-1) hv hne).1
    omega
  · intro e; subst e; exact h.root

/-! ## segment view and conversion -/

/-- the view has one segment per vertex other than vertex 0 -/
theorem c18_view_count (a : Arr) (r : Nat) (h : Valid a r) :
    viewLen a = a.conn.length - 1 ∧ (viewIter a).length = a.conn.length - 1 := by
  obtain ⟨ss, h1, _, h3, _⟩ := h.view
  exact ⟨h.viewLen, by rw [h1]; exact h3⟩

/-- segment `i` of the view (by indexing and by iteration alike) has id `i+1`, joins vertex `i+1` and its
    parent vertex, and names the parent index when `i+1 > 1` -/
theorem c18_view_endpoints (a : Arr) (r : Nat) (h : Valid a r) (i : Nat) (hi : i + 1 < a.conn.length)
    (hr : i + 1 ≠ r) :
    ∃ (p : Nat) (nv pv : Vec4), a.conn[i + 1]? = some (p : Int) ∧ a.vertices[i + 1]? = some nv ∧
      a.vertices[p]? = some pv ∧
      viewGet a (i : Int) = .ok ⟨((i + 1 : Nat) : Int), nv, pv, if 1 < i + 1 then some (p : Int) else none⟩ ∧
      (viewIter a)[i]? = some ⟨((i + 1 : Nat) : Int), nv, pv, if 1 < i + 1 then some (p : Int) else none⟩ := by
  obtain ⟨p, nv, pv, h1, h2, h3, h4⟩ := h.sfv_nonroot (i + 1) hi hr
  obtain ⟨ss, e1, _, e3, e4⟩ := h.view
  have hi' : i < ss.length := by omega
  obtain ⟨g1, g2⟩ := e4 i hi'
  rw [h4] at g2
  refine ⟨p, nv, pv, h1, h2, h3, ?_, ?_⟩
  · rw [g1, ← Except.ok.inj g2]
  · rw [e1, List.getElem?_eq_getElem hi', ← Except.ok.inj g2]

/-- indexing and iterating the view agree, and the ids are the vertex indices `1 … n-1` in order: with the
    root at vertex 0 that is exactly one segment per non-root vertex -/
theorem c18_view_ids (a : Arr) (r : Nat) (h : Valid a r) :
    (∀ (i : Nat) (hi : i < (viewIter a).length), viewGet a (i : Int) = .ok (viewIter a)[i] ∧
        (viewIter a)[i].id = ((i + 1 : Nat) : Int)) := by
  obtain ⟨ss, e1, _, e3, e4⟩ := h.view
  subst e1
  intro i hi
  obtain ⟨g1, g2⟩ := e4 i hi
  refine ⟨g1, ?_⟩
  exact sfv_id g2

/-- with the root at vertex 0: every non-root vertex `v` has exactly one segment in the view (the one at
    position `v - 1`) -/
theorem c18_view_one_per_vertex (a : Arr) (h : Valid a 0) (v : Nat) (hv0 : 0 < v) (hv : v < a.conn.length) :
    ∃ (i : Nat) (hi : i < (viewIter a).length), (viewIter a)[i].id = (v : Int) ∧
      ∀ (k : Nat) (hk : k < (viewIter a).length), (viewIter a)[k].id = (v : Int) → k = i := by
  have hlen := (c18_view_count a 0 h).2
  have hids := c18_view_ids a 0 h
  have hi : v - 1 < (viewIter a).length := by omega
  refine ⟨v - 1, hi, ?_, ?_⟩
  · rw [(hids (v - 1) hi).2]; omega
  · intro k hk hkid
    rw [(hids k hk).2] at hkid
    omega

/-- **conversion = view** (repaired `to_neuroml_morphology`): the plain morphology holds exactly the
    segments of the view, in the same order -/
theorem c18_convert_eq_view (a : Arr) (r : Nat) (h : Valid a r) : toNeuromlMorphology a = .ok (viewIter a) := by
  obtain ⟨ss, e1, e2, _, _⟩ := h.view
  rw [e1, e2]

/-- the pre-repair conversion (`range(num_vertices - 1)`) is wrong already on the 4-vertex tree of the repo's
    own test: a bogus segment for the root (joined to the LAST vertex through index `-1`), last vertex missing -/
theorem c18_convert_old_witness :
    let a : Arr := ⟨[(0,0,0,1), (1,0,0,2), (2,0,0,3), (3,0,0,4)], [-1, 0, 1, 1], [false, false, false, false]⟩
    toNeuromlMorphologyOld a ≠ .ok (viewIter a) ∧
    toNeuromlMorphologyOld a = .ok [⟨0, (0,0,0,1), (3,0,0,4), none⟩, ⟨1, (1,0,0,2), (0,0,0,1), none⟩,
      ⟨2, (2,0,0,3), (1,0,0,2), some 1⟩] := by
  decide

/-! ## the file format -/

/-- a single morphology written on its own and loaded back: the same three arrays, whatever they are
    (no validity needed) and whatever the morphology id -/
theorem c18_load_write_single (m : Morph) : ∃ f, writeMorph m = .ok f ∧ load f = .ok [m.arr] := by
  refine ⟨[(match m.id with | none => "Morphology" | some s => s, .morph m.arr)], ?_, ?_⟩
  · show addNode [] _ (.morph m.arr) = _
    rw [addNode_ok _ (by simp)]
    rfl
  · rw [load_good _ (by intro e he; simp at he; subst he; trivial)]
    simp [entryArrs]

/-- the full statement for documents: every document round-trips (up to the order of the morphologies — the
    format stores no ids and is read back in group-name order) -/
def c18_load_write_doc_full : Prop :=
  ∀ d : Doc, ∃ f ms, writeDoc d = .ok f ∧ load f = .ok ms ∧ ms.Perm (docArrs d)

/-- **documents with any mix of cells and stand-alone morphologies** (repaired writer) round-trip whenever the
    top-level group names are pairwise distinct and no cell's morphology is called "vertices". The loaded list
    is the written one in group-name order. -/
theorem c18_load_write_doc_partial (d : Doc) (hn : (topNames d).Nodup)
    (hv : ∀ c ∈ d.cells, c.morph.id ≠ some "vertices") :
    ∃ f ms, writeDoc d = .ok f ∧ load f = .ok ms ∧ ms.Perm (docArrs d) ∧
      ms = ((entries d).mergeSort nameLe).flatMap entryArrs := by
  have hgood : ∀ e ∈ entries d, GoodEntry e := by
    intro e he
    unfold entries at he
    rcases List.mem_append.mp he with he | he
    · exact cellEntries_good d.cells 0 hv e he
    · exact morphEntries_good d.morphs 0 e he
  refine ⟨entries d, _, writeDoc_ok d hn, load_good _ hgood, ?_, rfl⟩
  rw [← entries_arrs d]
  exact List.Perm.flatMap_right _ (List.mergeSort_perm _ _)

/-- the full statement fails: a cell and a stand-alone morphology with the same id collide in the flat group
    layout (`NodeError`), and a cell whose morphology is called "vertices" is mistaken for a morphology group -/
theorem c18_load_write_doc_witness : ¬ c18_load_write_doc_full := by
  intro h
  obtain ⟨f, ms, h1, _, _⟩ := h ⟨[⟨some "x", ⟨some "m", ⟨[], [], []⟩⟩⟩], [⟨some "x", ⟨[], [], []⟩⟩]⟩
  have : writeDoc ⟨[⟨some "x", ⟨some "m", ⟨[], [], []⟩⟩⟩], [⟨some "x", ⟨[], [], []⟩⟩]⟩ = .error .nodeError := by
    decide
  rw [this] at h1
  cases h1

theorem c18_load_write_doc_witness_vertices :
    (writeDoc ⟨[⟨some "x", ⟨some "vertices", ⟨[], [], []⟩⟩⟩], []⟩).bind load = .error .noSuchNode := by
  have hw : writeDoc ⟨[⟨some "x", ⟨some "vertices", ⟨[], [], []⟩⟩⟩], []⟩ =
      .ok [("x", .cell [("vertices", ⟨[], [], []⟩)])] := by decide
  rw [hw]
  show load _ = _
  unfold load
  rw [List.mergeSort_singleton]
  decide

/-- the pre-repair writer (`cell_id=cell.id` in the stand-alone loop) cannot write ANY document that holds a
    stand-alone morphology: `UnboundLocalError` without cells, `NodeError` with cells -/
theorem c18_writeDocOld_fails (d : Doc) (hm : d.morphs ≠ []) : ∀ f, writeDocOld d ≠ .ok f := by
  intro f hf
  unfold writeDocOld at hf
  cases hc : writeCells 0 d.cells [] with
  | error e => rw [hc] at hf; cases hf
  | ok f1 =>
    rw [hc] at hf
    simp only [] at hf
    obtain ⟨m, ms, hms⟩ := List.exists_cons_of_ne_nil hm
    rw [hms] at hf
    cases hl : lastCellId 0 d.cells with
    | none => rw [hl] at hf; simp [writeMorphsOld] at hf
    | some cid =>
      rw [hl] at hf
      have hf1 := writeCells_eq d.cells 0 [] f1 hc
      have hmem : cid ∈ f1.map (·.1) := by
        rw [hf1]; simp only [List.nil_append, cellEntries_names]
        exact lastCellId_mem d.cells 0 cid hl
      simp only [writeMorphsOld, writeSingleCell, addNode_dup _ hmem] at hf
      cases hf

/-! ## the hypotheses are satisfiable (non-vacuity) -/

/-- a 5-vertex tree in shuffled numbering (parent index above child index), root 0 -/
example : IsTree [-1, 3, 0, 0, 1] 0 := isTree_example

/-- the same tree with vertices and an all-false mask is `Valid`; the view and the conversion on it are the
    four expected segments -/
example :
    let a : Arr := ⟨[(0,0,0,8), (8,1,0,7), (16,2,0,6), (24,3,0,5), (32,4,0,4)], [-1, 3, 0, 0, 1],
                    [false, false, false, false, false]⟩
    Valid a 0 ∧ viewLen a = 4 ∧
    viewIter a = [⟨1, (8,1,0,7), (24,3,0,5), none⟩, ⟨2, (16,2,0,6), (0,0,0,8), some 0⟩,
                  ⟨3, (24,3,0,5), (0,0,0,8), some 0⟩, ⟨4, (32,4,0,4), (8,1,0,7), some 1⟩] ∧
    toNeuromlMorphology a = .ok (viewIter a) :=
  ⟨⟨rfl, rfl, by decide, isTree_example⟩, by decide, by decide, by decide⟩

/-- … and re-rooting it at vertex 4 really computes the re-rooted array -/
example : toRoot ⟨[], [-1, 3, 0, 0, 1], []⟩ 4 = .ok ⟨[], [3, 4, 0, 1, -1], []⟩ := by decide

/-- a document with two cells (one id defaulted) and two stand-alone morphologies meets the name hypotheses -/
example :
    let d : Doc := ⟨[⟨some "b", ⟨none, ⟨[], [-1], []⟩⟩⟩, ⟨none, ⟨some "m", ⟨[], [], []⟩⟩⟩],
                    [⟨some "a", ⟨[], [-1, 0], []⟩⟩, ⟨none, ⟨[], [], [true]⟩⟩]⟩
    (topNames d).Nodup ∧ (∀ c ∈ d.cells, c.morph.id ≠ some "vertices") ∧ d.morphs ≠ [] := by
  decide

end NmlVerif.ArrayMorph
